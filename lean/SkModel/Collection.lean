/-
  SkModel.Collection — implementation-layer model of `SearchResultsCollection`
  (search.py): `_results_by_path` as an insertion-ordered association list filled by
  `add`, and the retrieval methods `__len__`, `all`, `items()`, `find_by_path`,
  `find_by_tag`, `_get_all_sequence_results`, `find_sequence_sections`,
  `find_sequence_by_tag` (with the catalog's tag → definition ids map).
-/
import SkModel.Basic

namespace Sk

/-- what the collection looks at in a result -/
structure CRes where
  uid : Nat                       -- identity of the result object
  src : Nat                       -- source id (resolves to a path)
  tag : Option String
  seqId : Option Nat              -- id of the owning sequence definition
  sec : Option Nat                -- section id
deriving Repr, DecidableEq, Inhabited

abbrev Coll := List (Nat × List CRes)     -- path ↦ results, in insertion order

/-- `add(results)`: file every result under the path of its source id -/
def Coll.add1 (c : Coll) (r : CRes) : Coll :=
  if c.any (fun p => p.1 == r.src) then
    c.map (fun p => if p.1 == r.src then (p.1, p.2 ++ [r]) else p)
  else c ++ [(r.src, [r])]

def Coll.add (c : Coll) (rs : List CRes) : Coll := rs.foldl Coll.add1 c

def Coll.files (c : Coll) : List Nat := c.map (·.1)

/-- `find_by_path(path)` -/
def Coll.findByPath (c : Coll) (path : Nat) : List CRes := (c.lookup path).getD []

/-- `len(collection)` -/
def Coll.len (c : Coll) : Nat := (c.files.map fun f => (c.findByPath f).length).sum

/-- `collection.all` -/
def Coll.all (c : Coll) : List CRes := c.flatMap (·.2)

/-- `collection.items()` (the `data` view) -/
def Coll.items (c : Coll) : List (Nat × List CRes) := c

/-- `find_by_tag(tag, path=None)` -/
def Coll.findByTag (c : Coll) (tag : String) (path : Option Nat) : List CRes :=
  let paths := match path with | some p => [p] | none => c.files
  paths.flatMap fun p => (c.findByPath p).filter (fun r => r.tag == some tag)

/-- `_get_all_sequence_results(path=None)` -/
def Coll.allSeq (c : Coll) (path : Option Nat) : List CRes :=
  let paths := match path with | some p => [p] | none => c.files
  paths.flatMap fun p => (c.findByPath p).filter (fun r => r.seqId.isSome)

/-- insert into an insertion-ordered dict of lists -/
def groupAdd (g : List (Option Nat × List CRes)) (k : Option Nat) (r : CRes) :
    List (Option Nat × List CRes) :=
  if g.any (fun p => p.1 == k) then g.map (fun p => if p.1 == k then (p.1, p.2 ++ [r]) else p)
  else g ++ [(k, [r])]

/-- `find_sequence_sections(sequence_obj, path=None)` → section id ↦ results -/
def Coll.findSeqSections (c : Coll) (seqObj : Nat) (path : Option Nat) :
    List (Option Nat × List CRes) :=
  ((c.allSeq path).filter (fun r => r.seqId == some seqObj)).foldl
    (fun g r => groupAdd g r.sec r) []

/-- dict.update: later keys replace earlier equal keys, new keys are appended -/
def dictUpdate (a b : List (Option Nat × List CRes)) : List (Option Nat × List CRes) :=
  b.foldl (fun acc kv =>
    if acc.any (fun p => p.1 == kv.1) then acc.map (fun p => if p.1 == kv.1 then kv else p)
    else acc ++ [kv]) a

/-- `find_sequence_by_tag(tag, path=None)`; `ids` = `catalog._search_tags[tag]` -/
def Coll.findSeqByTag (c : Coll) (ids : List Nat) (path : Option Nat) :
    List (Option Nat × List CRes) :=
  ids.foldl (fun acc id => dictUpdate acc (c.findSeqSections id path)) []

end Sk
