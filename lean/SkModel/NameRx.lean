/-
  SkModel.NameRx — the regular expressions hard-coded in search.py, hand-modelled as
  functions on character lists (no regex engine):

    _filtered_dir:        re.match(r"(\S+)\.log\S*", path)   and   path.endswith('.log')
    logrotate_log_sort:   re.match(r"\S+\.log$", f) | r"\S+\.log\.(\d+)$" | r"\S+\.log\.(\d+)\.gz?$"

  `re.match` anchors at the start only; `$` matches at the end of the string or just
  before a final "\n".  `\S` / `\d` are the str-pattern classes (ASCII digits are all the
  model knows of `\d`; the correspondence check compares this model with Python's `re`
  on generated names, including names outside the four well-formed classes).
-/
import SkModel.Catalog

namespace Sk

/-- Python's `\s` for str patterns -/
def isSpaceCh (c : Char) : Bool :=
  c == ' ' || c == '\t' || c == '\n' || c == '\r' || c == '\x0b' || c == '\x0c' ||
  (c.toNat ≥ 0x1c && c.toNat ≤ 0x1f) || c.toNat == 0x85 || c.toNat == 0xa0 ||
  c.toNat == 0x1680 || (c.toNat ≥ 0x2000 && c.toNat ≤ 0x200a) || c.toNat == 0x2028 ||
  c.toNat == 0x2029 || c.toNat == 0x202f || c.toNat == 0x205f || c.toNat == 0x3000

def isDigitCh (c : Char) : Bool := c.toNat ≥ 48 && c.toNat ≤ 57

def dotLog : List Char := ['.', 'l', 'o', 'g']

/-- does `p` occur as a prefix of `s` -/
def startsWith (p s : List Char) : Bool := p.isPrefixOf s

/-- the longest prefix of non-space characters -/
def nonSpaceRun (s : List Char) : List Char := s.takeWhile (fun c => !isSpaceCh c)

/-- positions `i ≥ 1` in `run` at which ".log" starts, largest first -/
def dotLogPositions (run : List Char) : List Nat :=
  ((List.range run.length).filter fun i => i ≥ 1 && startsWith dotLog (run.drop i)).reverse

/-- `re.match(r"(\S+)\.log\S*", s)`: group(1), if it matches.
    `(\S+)` is greedy, so the LAST ".log" of the leading non-space run (not at index 0). -/
def rxStemLog (s : List Char) : Option (List Char) :=
  let run := nonSpaceRun s
  match dotLogPositions run with
  | i :: _ => some (run.take i)
  | [] => none

/-- `$`: the string minus one optional final newline -/
def stripFinalNL (s : List Char) : List Char :=
  match s.reverse with
  | '\n' :: r => r.reverse
  | _ => s

def allNonSpace (s : List Char) : Bool := s.all (fun c => !isSpaceCh c)

def natOfDigits (ds : List Char) : Nat := ds.foldl (fun n c => 10 * n + (c.toNat - 48)) 0

/-- the maximal run of trailing digits of `s`, and what precedes it -/
def splitTrailingDigits (s : List Char) : List Char × List Char :=
  let r := s.reverse
  let ds := r.takeWhile isDigitCh
  ((r.drop ds.length).reverse, ds.reverse)

def endsWith (suffix s : List Char) : Bool := suffix.reverse.isPrefixOf s.reverse

/-- body matches `\S+\.log\.(\d+)` up to its end: returns the number -/
def rxLogN (body : List Char) : Option Nat :=
  let (pre, ds) := splitTrailingDigits body
  -- pre must be  \S+ ".log."  and everything must be non-space
  if !ds.isEmpty && allNonSpace body && endsWith (dotLog ++ ['.']) pre && pre.length ≥ 6 then
    some (natOfDigits ds)
  else none

/-- `logrotate_log_sort(fname)` -/
def logrotateKey (s : List Char) : Nat :=
  let body := stripFinalNL s
  -- r"\S+\.log$"
  if allNonSpace body && endsWith dotLog body && body.length ≥ 5 then 0
  else match rxLogN body with
    | some n => n                                   -- r"\S+\.log\.(\d+)$"
    | none =>
      -- r"\S+\.log\.(\d+)\.gz?$"
      let tryStrip (suf : List Char) : Option Nat :=
        if endsWith suf body then rxLogN (body.take (body.length - suf.length)) else none
      match tryStrip ['.', 'g', 'z'] with
      | some n => n
      | none => match tryStrip ['.', 'g'] with
        | some n => n
        | none => 100000

/-- classification of a path by `_filtered_dir` -/
def classifyName (path : String) : NameCls :=
  let s := path.toList
  match rxStemLog s with
  | none => .plain
  | some stem =>
    if endsWith dotLog s then .live (String.ofList stem) else .rotated (String.ofList stem)

def mkDirEntry (path : String) (isFile : Bool) : DirEntry :=
  { path := path, isFile := isFile, cls := classifyName path, key := logrotateKey path.toList }

end Sk
