/-
  SkModel.Seeker — implementation-layer model of `LogFileDateSinceSeeker` and
  `SearchConstraintSearchSince.apply_to_file` (searchkit/constraints.py).

  A file is its length and the predicate "byte i is a line feed"; the timestamp
  matcher applied to the ≤ W-byte window at an offset is the oracle `ts`
  (`none` = no timestamp, `some t` = seconds of the timestamp).  The constants are the
  code's: H = SEEK_HORIZON, EXP = MAX_SEEK_HORIZON_EXPAND,
  ATT = MAX_TRY_FIND_WITH_DATE_ATTEMPTS.

  The model follows the code: the backward scan with its (possibly partial) first
  chunk and `Int` offset arithmetic, the forward scan, `try_find_line` with known line
  feeds, the ≤ ATT-line fallbacks, `__getitem__` (backwards, then forwards, then the
  "tail of the line at offset" correction), `bisect_left` over byte offsets with
  `line_info` side effect, `run` and the exception → position mapping of
  `apply_to_file`.
-/
import SkModel.Basic

namespace Sk

structure FileV where
  len : Nat
  isLF : Nat → Bool               -- meaningful for i < len

structure SeekK where
  H : Nat
  EXP : Nat
  ATT : Nat

inductive SeekErr
  | maxLineLen | tooManyUndated | noTimestamps | noValidLines | assertFailed
deriving Repr, DecidableEq, Inhabited

/-- `SearchState`: FOUND at an offset, or REACHED_EOF (offset 0 backwards, len forwards). -/
inductive Tok
  | found (off : Int)
  | edge (off : Int)
deriving Repr, DecidableEq, Inhabited

def Tok.off : Tok → Int
  | .found o => o
  | .edge o => o

/-- greatest `i` with `a ≤ i < a + k`, `i < len`, `isLF i` (`chunk.rfind`) -/
def rfindLF (F : FileV) (a : Nat) : Nat → Option Nat
  | 0 => none
  | k + 1 => if a + k < F.len && F.isLF (a + k) then some (a + k) else rfindLF F a k

/-- least `i` with `a ≤ i < a + k`, `i < len`, `isLF i` (`chunk.find`) -/
def findLF (F : FileV) (a : Nat) : Nat → Option Nat
  | 0 => none
  | k + 1 => if a < F.len && F.isLF a then some a else findLF F (a + 1) k

/-- bytes actually returned by `seek(a); read(k)` -/
def readLen (F : FileV) (a k : Nat) : Nat := min k (F.len - a)

/-- `find_token_reverse(start)`; `fuel` is the `attempts` counter, `cur` the (negative)
    `current_offset`. -/
def ftrLoop (K : SeekK) (F : FileV) (start : Nat) : Nat → Int → Except SeekErr Tok
  | 0, _ => .error .maxLineLen
  | fuel + 1, cur =>
    let ro : Int := (start : Int) + cur
    let readOff : Nat := if ro > 0 then ro.toNat else 0
    let readSize : Nat := if ro > 0 then K.H else ((K.H : Int) + ro).toNat
    let got := readLen F readOff readSize
    if got = 0 then .ok (.edge 0)
    else match rfindLF F readOff got with
      | some i => .ok (.found i)
      | none =>
        if fuel = 0 then .error .maxLineLen
        else
          let cur' : Int := cur - got
          if (start : Int) + cur' ≤ -(K.H : Int) then .ok (.edge 0)
          else ftrLoop K F start fuel cur'

def findTokenReverse (K : SeekK) (F : FileV) (start : Nat) : Except SeekErr Tok :=
  ftrLoop K F start K.EXP (-(K.H : Int))

/-- `find_token(start)`; `pos` is the file position, `fuel` the attempts left. -/
def ftLoop (K : SeekK) (F : FileV) : Nat → Nat → Except SeekErr Tok
  | 0, _ => .error .maxLineLen
  | fuel + 1, pos =>
    let got := readLen F pos K.H
    if got = 0 then .ok (.edge F.len)
    else match findLF F pos got with
      | some i => .ok (.found i)
      | none => ftLoop K F fuel (pos + got)

def findToken (K : SeekK) (F : FileV) (start : Nat) : Except SeekErr Tok :=
  ftLoop K F K.EXP start

/-- `LogLine`: the two line-feed states. -/
structure LLine where
  slf : Tok
  elf : Tok
deriving Repr, DecidableEq, Inhabited

def LLine.startOffset (l : LLine) : Int :=
  match l.slf with
  | .found o => o + 1
  | .edge o => o

def LLine.endOffset (l : LLine) : Int :=
  match l.elf with
  | .found o => o - 1
  | .edge o => o

/-- `LogLine.date`: the matcher on the window at the line's start offset -/
def LLine.date (ts : Nat → Option Int) (l : LLine) : Option Int := ts l.startOffset.toNat

/-- `try_find_line(epicenter, slf_off, elf_off)` incl. its range assertions -/
def tryFindLine (K : SeekK) (F : FileV) (epi : Nat) (slfOff elfOff : Option Int) :
    Except SeekErr LLine := do
  let elf ← match elfOff with
    | none => findToken K F epi
    | some o => pure (.found o)
  let slf ← match slfOff with
    | none => findTokenReverse K F epi
    | some o => pure (.found o)
  if slf.off ≤ F.len ∧ 0 ≤ slf.off ∧ elf.off ≤ F.len ∧ 0 ≤ elf.off ∧ slf.off ≤ elf.off then
    pure ⟨slf, elf⟩
  else .error .assertFailed

/-- `try_find_line_with_date(start_offset, line_feed_offset, forwards)`;
    `fuel` is the attempts counter. Returns the dated line, or none. -/
def twdLoop (K : SeekK) (F : FileV) (ts : Nat → Option Int) (fwd : Bool) :
    Nat → Nat → Option Int → Except SeekErr (Option LLine)
  | 0, _, _ => .ok none
  | fuel + 1, off, lfo => do
    let l ← tryFindLine K F off (if fwd then lfo else none) (if fwd then none else lfo)
    match l.date ts with
    | some _ => pure (some l)
    | none =>
      let lfo' : Int := if fwd then l.elf.off else l.slf.off
      let off' : Int := if fwd then lfo' + 1 else lfo' - 1
      if off' < 0 ∨ off' > F.len then pure none
      else twdLoop K F ts fwd fuel off'.toNat (some lfo')

def tryFindLineWithDate (K : SeekK) (F : FileV) (ts : Nat → Option Int)
    (start : Nat) (lfo : Option Int) (fwd : Bool) : Except SeekErr (Option LLine) :=
  twdLoop K F ts fwd K.ATT start lfo

/-- `__getitem__(offset)`: the dated line that governs `offset` -/
def getItem (K : SeekK) (F : FileV) (ts : Nat → Option Int) (off : Nat) :
    Except SeekErr LLine := do
  let r ← tryFindLineWithDate K F ts off none false
  match r with
  | some l => pure l
  | none =>
    let r ← tryFindLineWithDate K F ts (off + 1) (some off) true
    let r ← match r with
      | some l =>
        if l.slf.off = off ∧ !(off < F.len && F.isLF off) then
          -- what was found is the tail of the line at `off`: carry on from the next line
          match l.elf with
          | .found e => tryFindLineWithDate K F ts (e + 1).toNat (some e) true
          | .edge _ => pure none
        else pure (some l)
      | none => pure none
    match r with
    | some l => pure l
    | none => .error .tooManyUndated

/-- state threaded through the bisection: `found_any_date`, `line_info` -/
structure BisSt where
  foundAny : Bool := false
  lineInfo : Option LLine := none
deriving Repr, Inhabited

/-- `bisect.bisect_left(self, since)` on `[lo, hi)`, with `__getitem__`'s side effects;
    an error carries the state reached (for `found_any_date`). -/
def bisectLoop (K : SeekK) (F : FileV) (ts : Nat → Option Int) (since : Int) :
    Nat → Nat → Nat → BisSt → Except (SeekErr × BisSt) (Nat × BisSt)
  | 0, lo, _, st => .ok (lo, st)
  | fuel + 1, lo, hi, st =>
    if lo < hi then
      let mid := (lo + hi) / 2
      match getItem K F ts mid with
      | .error e => .error (e, st)
      | .ok l =>
        let d := (l.date ts).getD 0
        let st' : BisSt := { foundAny := true,
                             lineInfo := if d ≥ since then some l else st.lineInfo }
        if d < since then bisectLoop K F ts since fuel (mid + 1) hi st'
        else bisectLoop K F ts since fuel lo mid st'
    else .ok (lo, st)

/-- `LogFileDateSinceSeeker.run()` → the offset to seek to -/
def seekerRun (K : SeekK) (F : FileV) (ts : Nat → Option Int) (since : Int) (pos0 : Nat) :
    Except SeekErr Int := do
  -- "check last line": the result is not used, but the lookup can raise
  let _ ← tryFindLineWithDate K F ts F.len none false
  -- "check first line"
  let first := ts 0
  let shortcut : Bool := match first with
    | some d => decide (d ≥ since)
    | none => false
  if shortcut then pure pos0
  else
    match bisectLoop K F ts since (F.len + 1) 0 F.len {} with
    | .error (.tooManyUndated, st) =>
      if st.foundAny then .error .tooManyUndated else .error .noTimestamps
    | .error (e, _) => .error e
    | .ok (_, st) =>
      match st.lineInfo with
      | some l => pure l.startOffset
      | none => .error .noValidLines

/-- `apply_to_file(fd)`: where the file is left. `assertFailed` escapes. -/
def applyToFile (K : SeekK) (F : FileV) (ts : Nat → Option Int) (since : Int) :
    Except SeekErr Nat :=
  match seekerRun K F ts since 0 with
  | .ok p => .ok p.toNat
  | .error .noTimestamps => .ok 0
  | .error .noValidLines => .ok F.len
  | .error .tooManyUndated => .ok 0
  | .error .maxLineLen => .ok F.len
  | .error .assertFailed => .error .assertFailed

end Sk
