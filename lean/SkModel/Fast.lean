/-
  SkModel.Fast — linear-time implementations for the *compiled* form of the models.

  The definitions in `SkModel.Task`, `SkModel.Runner`, `SkModel.Gzip`, `SkModel.Collect`
  and `SkModel.Spec.Sequence` are written for proofs: `lineStep` appends to the end of the
  growing result list once per line, `seqStep` to the end of the per-sequence result list
  once per result, `flushBatchesGo` to the end of the buffer once per result, and
  `Spec.firstFrom` materialises the whole remaining line range before searching it - all
  of which is quadratic at run time.  Nothing about those definitions changes here.
  For every function on the call path from the driver this file gives a function that
  computes the same value in linear time and a *proved* equation `@f = @fFast` tagged
  `@[csimp]`; the code generator then uses `fFast` wherever a module that imports this
  file mentions `f`.  The kernel-level definitions and every theorem about them are
  untouched (csimp only affects compilation, and only through a proved equality).

  A module whose compiled code should use the fast versions must import this file
  (the csimp lemmas rewrite the calls of functions compiled *after* they are declared).
-/
import SkModel.Task
import SkModel.Runner
import SkModel.Gzip
import SkModel.Collect
import SkModel.Spec.Sequence
import SkModel.Spec.Gate

namespace Sk.Fast

/-! ### `seqStep` / `defStep` / `defsStep` on states whose `seqRes` is kept reversed

  `seqStep` appends each sequence result to the end of `st.seqRes`.  The `…R` versions
  below are the same functions, word for word, except that they push the result on the
  front; they are related to the originals by `revSt` (which reverses `seqRes`). -/

/-- reverse the per-sequence result list of a definition state -/
def revSt (st : DSt) : DSt := { st with seqRes := st.seqRes.reverse }

@[simp] theorem revSt_revSt (st : DSt) : revSt (revSt st) = st := by
  simp [revSt]

/-- `seqStep` on a state whose `seqRes` is stored in reverse: `r :: _` instead of `_ ++ [r]`. -/
def seqStepR (id : Nat) (s : SeqDef) (i : Nat) (st : DSt) : Except Err DSt :=
  let ret0 := s.start.run i
  let (st, ret, viaEnd) :=
    match s.end_ with
    | some e =>
      if st.started then
        if ret0.isSome then
          ({ st with seqRes := st.seqRes.filter (fun r => r.sec != some (id, st.sec)),
                     started := false }, ret0, false)
        else (st, e.run i, true)
      else (st, ret0, false)
    | none => (st, ret0, false)
  match ret with
  | some m =>
    if !st.started then do
      let sec := st.cnt
      let r ← mkSeqRes id s "-start" s.start (i + 1) sec m
      pure { st with started := true, cnt := st.cnt + 1, sec := sec,
                     seqRes := r :: st.seqRes, everAdded := true }
    else
      match s.end_ with
      | some e => do
        let _ := viaEnd
        let r ← mkSeqRes id s "-end" e (i + 1) st.sec m
        pure { st with started := false, cnt := st.cnt + 1, sec := st.cnt,
                       seqRes := r :: st.seqRes, everAdded := true }
      | none => do
        let sec := st.cnt + 1
        let r ← mkSeqRes id s "-start" s.start (i + 1) sec m
        pure { st with started := true, cnt := st.cnt + 2, sec := sec,
                       seqRes := r :: st.seqRes, everAdded := true }
  | none =>
    if st.started then
      match s.body with
      | some b =>
        match b.run i with
        | some m => do
          let r ← mkSeqRes id s "-body" b (i + 1) st.sec m
          pure { st with seqRes := r :: st.seqRes, everAdded := true }
        | none => pure st
      | none => pure st
    else pure st

theorem seqStepR_eq (id : Nat) (s : SeqDef) (i : Nat) (st : DSt) :
    seqStepR id s i (revSt st) = (seqStep id s i st).map revSt := by
  unfold seqStepR seqStep
  cases hE : s.end_ <;> cases hS : st.started <;> cases h0 : s.start.run i <;>
    simp [revSt, hS, Except.map, bind, Except.bind, pure, Except.pure]
  all_goals (repeat' split) <;> simp_all
  all_goals subst_vars; simp


def defStepR (i : Nat) (d : Def) (st : DSt) : Except Err (DSt × List Res) :=
  let gate : Option DSt :=
    if st.runnable then some st
    else
      let (valid, allp) := applySingle (d.cons.map (fun c => c i))
      if valid then some { st with runnable := allp } else none
  match gate with
  | none => pure (st, [])
  | some st =>
    match d.kind with
    | .simple sd =>
      match sd.run i with
      | some m => do
        let r ← mkSimpleRes d.id sd (i + 1) m
        pure (st, [r])
      | none => pure (st, [])
    | .seq s => do
      let st' ← seqStepR d.id s i st
      pure (st', [])

theorem revSt_runnable (st : DSt) (b : Bool) :
    ({ revSt st with runnable := b } : DSt) = revSt { st with runnable := b } := rfl

theorem defStepR_eq (i : Nat) (d : Def) (st : DSt) :
    defStepR i d (revSt st) = (defStep i d st).map (fun p => (revSt p.1, p.2)) := by
  unfold defStepR defStep
  have hr : (revSt st).runnable = st.runnable := rfl
  rw [hr]
  cases hR : st.runnable
  · simp only [Bool.false_eq_true, if_false]
    cases hA : applySingle (d.cons.map (fun c => c i)) with
    | mk valid allp =>
      cases valid
      · simp [Except.map, pure, Except.pure]
      · simp only [if_true, revSt_runnable]
        cases hK : d.kind with
        | simple sd =>
          simp only []
          cases sd.run i with
          | none => simp [Except.map, pure, Except.pure]
          | some m =>
            simp only []
            cases mkSimpleRes d.id sd (i + 1) m <;> simp [Except.map, pure, Except.pure, bind, Except.bind]
        | seq s =>
          simp only [seqStepR_eq]
          cases seqStep d.id s i { st with runnable := allp } <;>
            simp [Except.map, pure, Except.pure, bind, Except.bind]
  · simp only [if_true]
    cases hK : d.kind with
    | simple sd =>
      simp only []
      cases sd.run i with
      | none => simp [Except.map, pure, Except.pure]
      | some m =>
        simp only []
        cases mkSimpleRes d.id sd (i + 1) m <;> simp [Except.map, pure, Except.pure, bind, Except.bind]
    | seq s =>
      simp only [seqStepR_eq]
      cases seqStep d.id s i st <;>
        simp [Except.map, pure, Except.pure, bind, Except.bind]

def defsStepR (i : Nat) : List Def → List DSt → Except Err (List DSt × List Res × List Nat)
  | d :: ds, st :: sts => do
    let (st', out) ← defStepR i d st
    let (sts', outs, ord) ← defsStepR i ds sts
    let newKey := if st'.everAdded && !st.everAdded then [d.id] else []
    pure (st' :: sts', out ++ outs, newKey ++ ord)
  | _, _ => pure ([], [], [])

theorem defsStepR_eq (i : Nat) (defs : List Def) :
    ∀ sts : List DSt, defsStepR i defs (sts.map revSt)
      = (defsStep i defs sts).map (fun p => (p.1.map revSt, p.2.1, p.2.2)) := by
  induction defs with
  | nil => intro sts; simp [defsStepR, defsStep, Except.map, pure, Except.pure]
  | cons d ds ih =>
    intro sts
    cases sts with
    | nil => simp [defsStepR, defsStep, Except.map, pure, Except.pure]
    | cons st sts =>
      simp only [List.map_cons, defsStepR, defsStep, defStepR_eq, ih]
      cases defStep i d st with
      | error e => simp [Except.map, bind, Except.bind]
      | ok p =>
        obtain ⟨st', out⟩ := p
        cases defsStep i ds sts with
        | error e => simp [Except.map, bind, Except.bind]
        | ok q =>
          obtain ⟨sts', outs, ord⟩ := q
          simp [Except.map, bind, Except.bind, pure, Except.pure, revSt]


/-! ### `linesLoop`: accumulate `simple`/`order` (and every `seqRes`) in reverse,
    reverse once at the end -/

/-- `linesLoop` with the two accumulators and the per-definition `seqRes` kept reversed. -/
def linesLoopRev (dec : Nat → Bool) (defs : List Def) :
    List DSt → List Res → List Nat → List Nat → Except Err LSt
  | sts, accS, accO, [] =>
    .ok { sts := sts.map revSt, simple := accS.reverse, order := accO.reverse }
  | sts, accS, accO, i :: is =>
    if !dec i then .error .unicodeDecode
    else
      match defsStepR i defs sts with
      | .error e => .error e
      | .ok (sts', outs, ord) =>
        linesLoopRev dec defs sts' (outs.reverseAux accS) (ord.reverseAux accO) is

theorem revSt_comp_revSt : revSt ∘ revSt = id := funext revSt_revSt

theorem map_revSt_map_revSt (sts : List DSt) : (sts.map revSt).map revSt = sts := by
  rw [List.map_map, revSt_comp_revSt, List.map_id]

theorem linesLoopRev_eq (dec : Nat → Bool) (defs : List Def) (lines : List Nat) :
    ∀ (sts : List DSt) (accS : List Res) (accO : List Nat),
      linesLoopRev dec defs (sts.map revSt) accS accO lines
        = linesLoop dec defs { sts := sts, simple := accS.reverse, order := accO.reverse } lines := by
  induction lines with
  | nil =>
    intro sts accS accO
    simp only [linesLoopRev, linesLoop, map_revSt_map_revSt, pure, Except.pure]
  | cons i is ih =>
    intro sts accS accO
    unfold linesLoopRev linesLoop lineStep
    cases hd : dec i with
    | false => rfl
    | true =>
      simp only [defsStepR_eq]
      cases hs : defsStep i defs sts with
      | error e => simp [bind, Except.bind, Except.map]
      | ok v =>
        obtain ⟨sts', outs, ord⟩ := v
        simp [bind, Except.bind, pure, Except.pure, Except.map, ih, List.reverseAux_eq]

def linesLoopFast (dec : Nat → Bool) (defs : List Def) (ls : LSt) (lines : List Nat) :
    Except Err LSt :=
  linesLoopRev dec defs (ls.sts.map revSt) ls.simple.reverse ls.order.reverse lines

@[csimp] theorem linesLoop_eq_linesLoopFast : @linesLoop = @linesLoopFast := by
  funext dec defs ls lines
  simp [linesLoopFast, linesLoopRev_eq]


/-! ### callers of `linesLoop`, restated so that their compiled code uses the fast loop

  `runTask`, `runTaskFrom`, … were compiled in their own modules, before the csimp lemma
  above existed, so their object code still calls the slow `linesLoop`.  The bodies below
  are the bodies of the original definitions, word for word; because they are compiled
  *after* the csimp lemma above (resp. the ones before them), the generated code calls
  the fast callee.  The equalities hold by `rfl` (induction for the recursive one). -/

def runTaskFast (t : TaskIn) : Except Err (List Res × Stats) := do
  let defs := dedupDefs t.defs []
  let ls0 : LSt := { sts := defs.map DSt.init }
  let ls ← linesLoop t.dec defs ls0 (List.range t.n)
  let finals ← eofAll t.n defs ls.sts
  let seqOut := ls.order.flatMap (fun id => (finals.lookup id).getD [])
  let all := ls.simple ++ seqOut
  pure (all, { lines := t.n, results := all.length })

@[csimp] theorem runTask_eq_fast : @runTask = @runTaskFast := rfl

def runTaskFromFast (p : Nat → SeqPersist) (t : TaskIn) : Except Err (List Res × Stats) := do
  let defs := dedupDefs t.defs []
  let ls0 : LSt := { sts := defs.map (DSt.initFrom p) }
  let ls ← linesLoop t.dec defs ls0 (List.range t.n)
  let finals ← eofAll t.n defs ls.sts
  let seqOut := ls.order.flatMap (fun id => (finals.lookup id).getD [])
  let all := ls.simple ++ seqOut
  pure (all, { lines := t.n, results := all.length })

@[csimp] theorem runTaskFrom_eq_fast : @runTaskFrom = @runTaskFromFast := rfl

def executeFast (j : FileJob) : Except Err (List Res × Stats) :=
  if j.empty then .ok ([], { lines := 0, results := 0 }) else runTask j.task

@[csimp] theorem execute_eq_fast : @execute = @executeFast := rfl

def executeAllFast : List FileJob → Except Err (List (List Res × Stats))
  | [] => .ok []
  | j :: js => do
    let r ← execute j
    let rs ← executeAllFast js
    pure (r :: rs)

@[csimp] theorem executeAll_eq_fast : @executeAll = @executeAllFast := by
  funext jobs
  induction jobs with
  | nil => rfl
  | cons j js ih => simp [executeAll, executeAllFast, ih]

def runAllFast (jobs : List FileJob) : Except Err (List (List Res) × RunStats) := do
  let outs ← executeAll jobs
  let n := jobs.length
  let jobsDone := if n = 0 then 0 else if n = 1 then 1 else n
  pure (outs.map (·.1),
        { searches := (jobs.map (·.nregs)).sum, searchesByJob := jobs.map (·.nregs),
          lines := (outs.map (·.2.lines)).sum, results := (outs.map (·.2.results)).sum,
          jobsCompleted := jobsDone, totalJobs := jobsDone })

@[csimp] theorem runAll_eq_fast : @runAll = @runAllFast := rfl

def runErrorsFast (jobs : List FileJob) : List Err :=
  jobs.filterMap fun j => match execute j with
    | .error e => some e
    | .ok _ => none

@[csimp] theorem runErrors_eq_fast : @runErrors = @runErrorsFast := rfl

def executeDiskFast (cfg : FileCfg) (d : DiskFile) : Except Err (List Res × Stats) :=
  if d.sizeZero then .ok ([], { lines := 0, results := 0 })
  else
    match startPos cfg d.content with
    | .error _ => .error .fileSearch
    | .ok p => runTask (cfg.mkTask d.content p)

@[csimp] theorem executeDisk_eq_fast : @executeDisk = @executeDiskFast := rfl


/-! ### `flushBatchesGo`: buffer kept reversed, with its length -/

/-- `flushBatchesGo` with the buffer reversed (`bufR`) and its length (`n`). -/
def flushGoRev {α} (FLUSH MAXB : Nat) : List α → Nat → List α → List (List α)
  | bufR, _, [] => chunks MAXB bufR.reverse
  | bufR, n, r :: rs =>
    if n + 1 ≥ FLUSH then chunks MAXB (r :: bufR).reverse ++ flushGoRev FLUSH MAXB [] 0 rs
    else flushGoRev FLUSH MAXB (r :: bufR) (n + 1) rs

theorem flushGoRev_eq {α} (FLUSH MAXB : Nat) (rs : List α) :
    ∀ (bufR : List α) (n : Nat), n = bufR.length →
      flushGoRev FLUSH MAXB bufR n rs = flushBatchesGo FLUSH MAXB bufR.reverse rs := by
  induction rs with
  | nil => intro bufR n _; rfl
  | cons r rs ih =>
    intro bufR n hn
    subst hn
    unfold flushGoRev flushBatchesGo
    have h0 := ih [] 0 rfl
    have h1 := ih (r :: bufR) (bufR.length + 1) (by simp)
    simp only [List.reverse_nil] at h0
    simp only [List.reverse_cons] at h1 ⊢
    simp only [h0, h1, List.length_append, List.length_reverse, List.length_cons, List.length_nil]

def flushBatchesGoFast {α} (FLUSH MAXB : Nat) (buf rs : List α) : List (List α) :=
  flushGoRev FLUSH MAXB buf.reverse buf.length rs

@[csimp] theorem flushBatchesGo_eq_fast : @flushBatchesGo = @flushBatchesGoFast := by
  funext α FLUSH MAXB buf rs
  simp [flushBatchesGoFast, flushGoRev_eq]

def flushBatchesFast {α} (FLUSH MAXB : Nat) (rs : List α) : List (List α) :=
  flushGoRev FLUSH MAXB [] 0 rs

@[csimp] theorem flushBatches_eq_fast : @flushBatches = @flushBatchesFast := by
  funext α FLUSH MAXB rs
  simp [flushBatches, flushBatchesFast, flushGoRev_eq]

/-- `CState.init`, restated (compiled after the csimp lemma for `flushBatches`). -/
def cstateInitFast {α} (cap : Option Nat) (FLUSH MAXB : Nat) (n : Nat) (seq : Nat → List α) :
    CState α :=
  { cap := cap, ntasks := n,
    tasks := fun t => { remaining := flushBatches FLUSH MAXB (seq t), total := (seq t).length } }

@[csimp] theorem cstateInit_eq_fast : @CState.init = @cstateInitFast := rfl

/-! ### `Spec.firstFrom`: search without materialising the whole range first

  `firstFrom p a n` builds `List.range' a (n - a)` (all of it) and then searches it, so
  each call costs `n - a` even when the answer is the next line.  The loop below stops at
  the first hit. -/

/-- least `j` with `a ≤ j < a + k` and `p j` -/
def firstFromLoop (p : Nat → Bool) : Nat → Nat → Option Nat
  | 0, _ => none
  | k + 1, a => if p a then some a else firstFromLoop p k (a + 1)

theorem firstFromLoop_eq (p : Nat → Bool) (k : Nat) :
    ∀ a, firstFromLoop p k a = (List.range' a k).find? p := by
  induction k with
  | zero => intro a; rfl
  | succ k ih =>
    intro a
    rw [firstFromLoop, List.range'_succ, List.find?_cons, ih]
    cases p a <;> rfl

def firstFromFast (p : Nat → Bool) (a n : Nat) : Option Nat := firstFromLoop p (n - a) a

@[csimp] theorem firstFrom_eq_fast : @Spec.firstFrom = @firstFromFast := by
  funext p a n
  simp [Spec.firstFrom, firstFromFast, firstFromLoop_eq]

open Spec in
def sectionsWithEndFast (st bd en : Nat → Bool) (endEmpty : Bool) (n : Nat) : List Section :=
  (List.range n).filterMap fun i =>
    if st i then
      match firstFrom (fun j => st j || en j) (i + 1) n with
      | some j => if st j then none else some ⟨i, between bd (i + 1) j, some j⟩
      | none => if endEmpty then some ⟨i, between bd (i + 1) n, some n⟩ else none
    else none

@[csimp] theorem sectionsWithEnd_eq_fast : @Spec.sectionsWithEnd = @sectionsWithEndFast := rfl

open Spec in
def sectionsNoEndFast (st bd : Nat → Bool) (n : Nat) : List Section :=
  (List.range n).filterMap fun i =>
    if st i then
      let j := (firstFrom st (i + 1) n).getD n
      some ⟨i, between bd (i + 1) j, none⟩
    else none

@[csimp] theorem sectionsNoEnd_eq_fast : @Spec.sectionsNoEnd = @sectionsNoEndFast := rfl

open Spec in
def sectionsFast (s : SeqDef) (n : Nat) : List Section :=
  let bd : Nat → Bool := match s.body with | some b => hits b | none => fun _ => false
  match s.end_ with
  | some e => sectionsWithEnd (hits s.start) bd (hits e) e.emptyRes.isSome n
  | none => sectionsNoEnd (hits s.start) bd n

@[csimp] theorem sections_eq_fast : @Spec.sections = @sectionsFast := rfl

open Spec in
def activationFast (cons : List (Nat → COut)) (n : Nat) : Option Nat :=
  firstFrom (allPass cons) 0 n

@[csimp] theorem activation_eq_fast : @Spec.activation = @activationFast := rfl

/-! ### axiom audit of the csimp equations (expected ⊆ {propext, Classical.choice, Quot.sound}) -/

#print axioms linesLoop_eq_linesLoopFast
#print axioms runTask_eq_fast
#print axioms runTaskFrom_eq_fast
#print axioms execute_eq_fast
#print axioms executeAll_eq_fast
#print axioms runAll_eq_fast
#print axioms runErrors_eq_fast
#print axioms executeDisk_eq_fast
#print axioms flushBatchesGo_eq_fast
#print axioms flushBatches_eq_fast
#print axioms cstateInit_eq_fast
#print axioms firstFrom_eq_fast
#print axioms sectionsWithEnd_eq_fast
#print axioms sectionsNoEnd_eq_fast
#print axioms sections_eq_fast
#print axioms activation_eq_fast

end Sk.Fast
