/-
  SkModel.Cache — transition system for `MPCacheSimple` (searchkit/utils.py) used by
  several processes on one global path.  Every operation is
      acquire the inter-process cache lock ; (open shelf ; read | write | delete ; close)+ ;
      release
  `get` retries a failed open of the shelf (transient `dbm.gnu.error`) up to `maxOpenRetry`
  times (the failure after that propagates: the operation fails) WHILE HOLDING THE LOCK:
  label `retry p`, which only counts the failed attempt.
  (`bulk_set`: one write per item inside ONE critical section).  The disk is a map
  key ↦ optional value (the record '0' of the per-key shelf).
-/
import SkModel.Basic

namespace Sk

abbrev CKey := Nat

inductive COp
  | set (k : CKey) (v : Val)
  | bulkSet (items : List (CKey × Val))
  | get (k : CKey)
  | unset (k : CKey)
deriving Repr, DecidableEq, Inhabited

/-- one access to the disk inside a critical section -/
inductive CAcc
  | write (k : CKey) (v : Val)
  | read (k : CKey)
  | delete (k : CKey)
deriving Repr, DecidableEq, Inhabited

def COp.accesses : COp → List CAcc
  | .set k v => [.write k v]
  | .bulkSet items => items.map fun p => .write p.1 p.2
  | .get k => [.read k]
  | .unset k => [.delete k]

abbrev Disk := List (CKey × Option Val)          -- newest entry first; lookup = current value

def Disk.value (d : Disk) (k : CKey) : Option Val := (d.lookup k).join

/-- a completed operation with what it returned (`get` only) -/
structure CDone where
  proc : Nat
  op : COp
  ret : Option Val
deriving Repr, DecidableEq, Inhabited

structure CProc where
  todo : List COp                       -- operations still to be issued
  pending : List CAcc := []             -- accesses left in the current critical section
  cur : Option COp := none              -- operation in progress (lock held)
  got : Option Val := none              -- value read by the current `get`
  tries : Nat := 0                      -- failed open attempts of the current `get`
deriving Repr, Inhabited

structure CacheSt where
  disk : Disk := []
  lock : Option Nat := none
  procs : Nat → CProc
  log : List CDone := []                -- completed operations, in order of completion

inductive CacheLbl
  | acquire (p : Nat)
  | access (p : Nat)
  | release (p : Nat)
  | retry (p : Nat)                     -- a failed open inside `get`: sleep, try again
deriving Repr, DecidableEq, Inhabited

/-- `max_open_retry` of `MPCacheSimple.get`: the error propagates once more than this many
    attempts have failed -/
def maxOpenRetry : Nat := 10

def updP (f : Nat → CProc) (p : Nat) (v : CProc) : Nat → CProc := fun x => if x = p then v else f x

def cacheStep (s : CacheSt) : CacheLbl → Option CacheSt
  | .acquire p =>
    let q := s.procs p
    if s.lock = none ∧ q.cur = none then
      match q.todo with
      | op :: rest =>
        let q' : CProc :=
          { todo := rest, pending := op.accesses, cur := some op, got := none, tries := 0 }
        some { s with lock := some p, procs := updP s.procs p q' }
      | [] => none
    else none
  | .access p =>
    let q := s.procs p
    if s.lock = some p then
      match q.pending with
      | .write k v :: rest =>
        let q' : CProc := { q with pending := rest }
        some { s with disk := (k, some v) :: s.disk, procs := updP s.procs p q' }
      | .delete k :: rest =>
        let q' : CProc := { q with pending := rest }
        some { s with disk := (k, none) :: s.disk, procs := updP s.procs p q' }
      | .read k :: rest =>
        let q' : CProc := { q with pending := rest, got := s.disk.value k }
        some { s with procs := updP s.procs p q' }
      | [] => none
    else none
  | .release p =>
    let q := s.procs p
    if s.lock = some p ∧ q.pending = [] then
      match q.cur with
      | some op =>
        let q' : CProc := { q with cur := none }
        let e : CDone := { proc := p, op := op, ret := q.got }
        some { s with lock := none, procs := updP s.procs p q', log := s.log ++ [e] }
      | none => none
    else none
  | .retry p =>
    let q := s.procs p
    if s.lock = some p ∧ q.tries < maxOpenRetry then
      match q.pending with
      | .read _ :: _ =>
        let q' : CProc := { q with tries := q.tries + 1 }
        some { s with procs := updP s.procs p q' }
      | _ => none
    else none

def cacheRun (s : CacheSt) : List CacheLbl → Option CacheSt
  | [] => some s
  | l :: ls => match cacheStep s l with
    | some s' => cacheRun s' ls
    | none => none

def CacheSt.init (progs : Nat → List COp) : CacheSt :=
  { procs := fun p => { todo := progs p } }

/-! ### the specification: one atomic register per key -/

/-- sequential semantics of one operation on the register map: new map, returned value -/
def specApply (d : Disk) : COp → Disk × Option Val
  | .set k v => ((k, some v) :: d, none)
  | .bulkSet items => (items.foldl (fun acc p => (p.1, some p.2) :: acc) d, none)
  | .get k => (d, d.value k)
  | .unset k => ((k, none) :: d, none)

/-- replay a sequential history: every recorded return value must be the register's -/
def specReplay : Disk → List CDone → Option Disk
  | d, [] => some d
  | d, e :: es =>
    let (d', r) := specApply d e.op
    if r = e.ret then specReplay d' es else none

end Sk
