/-
  SkModel.Gzip — `SearchTask.execute`'s open logic (task.py): a file on disk is either
  plain bytes or a gzip archive (decided by `gzip.open(path).peek(1)` succeeding);
  a zero-length *disk* file is skipped; everything after that - the file-level since
  seek, line iteration, searching - runs on the (uncompressed) content through the same
  seek/tell/read interface.
-/
import SkModel.Runner
import SkModel.Seeker

namespace Sk

/-- what is on disk: the uncompressed content `F`, stored as is or gzip-encoded -/
inductive DiskFile
  | plain (F : FileV)
  | gz (F : FileV)          -- any compression level, any number of members

def DiskFile.content : DiskFile → FileV
  | .plain F => F
  | .gz F => F

/-- `os.path.getsize(path) == 0`: a gzip archive is never zero-length -/
def DiskFile.sizeZero : DiskFile → Bool
  | .plain F => F.len == 0
  | .gz _ => false

/-- the search configuration as far as one file is concerned: the optional file-level
    constraint (seeker constants, timestamp oracle on the content, since) and the oracle
    that yields the task tables for the lines from a start offset -/
structure FileCfg where
  seek : Option (SeekK × (Nat → Option Int) × Int)
  mkTask : FileV → Nat → TaskIn        -- content, start offset ↦ tables of the lines read
  nregs : Nat

/-- position the file-level constraint leaves (0 without one) -/
def startPos (cfg : FileCfg) (F : FileV) : Except SeekErr Nat :=
  match cfg.seek with
  | none => .ok 0
  | some (K, ts, since) => applyToFile K F ts since

/-- `execute()` on a disk file: results, statistics -/
def executeDisk (cfg : FileCfg) (d : DiskFile) : Except Err (List Res × Stats) :=
  if d.sizeZero then .ok ([], { lines := 0, results := 0 })
  else
    match startPos cfg d.content with
    | .error _ => .error .fileSearch          -- an AssertionError would surface like this
    | .ok p => runTask (cfg.mkTask d.content p)

end Sk
