/-
  SkModel.StdTs — a CONCRETE timestamp matcher, so that the seeker theorems (C04/C11) can be
  stated about the bytes of a file instead of an oracle table:

    ^(\d{4})-(\d{2})-(\d{2})[\sT]+(\d{2}):(\d{2}):(\d{2})        ("%Y-%m-%d %H:%M:%S")

  applied the way the code applies it: `LogLine.date` reads up to W = MAX_DATETIME_READ_BYTES
  bytes from the start offset of the line (the window may run past the end of the line),
  `extracted_datetime` decodes them (errors='backslashreplace'), `TimestampMatcherBase`
  matches the pattern at the start of the text and `strptime` builds `datetime(...)`; a match
  that is not a real date (ValueError) is no timestamp.

  Domain of the model: bytes are numbers 0..255; `\d` and `\s` know the ASCII characters
  only.  Bytes ≥ 0x80 are neither digits nor separators here - right for undecodable bytes
  (they become a backslash escape) and for every non-digit, non-space character, wrong only
  for UTF-8 encoded Unicode decimal digits / Unicode white space inside the 19+ bytes of
  the timestamp itself.  The correspondence check compares this function with Python's `re`
  on every window of every generated file and counts windows outside the domain.
-/
import SkModel.Since
import SkModel.Seeker

namespace Sk

def isDigitB (b : Nat) : Bool := 48 ≤ b && b ≤ 57

/-- ASCII characters matched by `[\sT]` -/
def isSepB (b : Nat) : Bool :=
  b == 32 || (9 ≤ b && b ≤ 13) || (28 ≤ b && b ≤ 31) || b == 84

def digitsVal (ds : List Nat) : Nat := ds.foldl (fun n b => 10 * n + (b - 48)) 0

/-- `(\d{k})` -/
def takeDigits (k : Nat) (s : List Nat) : Option (Nat × List Nat) :=
  if (s.take k).length = k ∧ (s.take k).all isDigitB then some (digitsVal (s.take k), s.drop k)
  else none

def expectB (b : Nat) : List Nat → Option (List Nat)
  | c :: r => if c = b then some r else none
  | [] => none

/-- the rest of a greedy `[\sT]+` (digits and separators are disjoint, so greedy = maximal) -/
def skipSeps : List Nat → List Nat
  | c :: r => if isSepB c then skipSeps r else c :: r
  | [] => []

/-- the pattern, matched at the start of `s`: the six numeric fields -/
def parseStd (s : List Nat) : Option Civil := do
  let (y, s) ← takeDigits 4 s
  let s ← expectB 45 s
  let (mo, s) ← takeDigits 2 s
  let s ← expectB 45 s
  let (d, s) ← takeDigits 2 s
  match s with
  | c :: r =>
    if isSepB c then do
      let (h, s) ← takeDigits 2 (skipSeps r)
      let s ← expectB 58 s
      let (mi, s) ← takeDigits 2 s
      let s ← expectB 58 s
      let (sec, _) ← takeDigits 2 s
      pure ⟨y, mo, d, h, mi, sec⟩
    else none
  | [] => none

/-- the timestamp (seconds on the proleptic Gregorian time line) of the W-byte window at `off` -/
def stdTs (bs : List Nat) (W : Nat) (off : Nat) : Option Int :=
  match parseStd ((bs.drop off).take W) with
  | some c => if c.valid then some c.toSeconds else none
  | none => none

/-- a file given by its bytes -/
def FileV.ofBytes (bs : List Nat) : FileV :=
  { len := bs.length, isLF := fun i => bs.getD i 0 == 10 }

/-! ### writing timestamps -/

def pad2 (n : Nat) : List Nat := [48 + n / 10 % 10, 48 + n % 10]
def pad4 (n : Nat) : List Nat := [48 + n / 1000 % 10, 48 + n / 100 % 10, 48 + n / 10 % 10, 48 + n % 10]

/-- `strftime("%Y-%m-%d %H:%M:%S")` (19 bytes) -/
def fmtStd (c : Civil) : List Nat :=
  pad4 c.y ++ [45] ++ pad2 c.mo ++ [45] ++ pad2 c.d ++ [32] ++ pad2 c.h ++ [58] ++ pad2 c.mi ++
    [58] ++ pad2 c.s

/-- a log line: optional timestamp, then the message (no line feed inside), then a line feed -/
structure LogLn where
  t : Option Civil
  msg : List Nat
deriving Repr, DecidableEq, Inhabited

def LogLn.bytes (l : LogLn) : List Nat :=
  (match l.t with | some c => fmtStd c | none => []) ++ l.msg ++ [10]

def logBytes (ls : List LogLn) : List Nat := ls.flatMap LogLn.bytes

/-- where a reader must start: the first byte of the first DATED line at or after `since`;
    the end of the file if all dated lines are older; 0 if no line is dated -/
def startOfFirstGo : List LogLn → Int → Option Nat
  | [], _ => none
  | l :: rest, since =>
    match l.t with
    | some c => if c.toSeconds ≥ since then some 0
                else (startOfFirstGo rest since).map (· + l.bytes.length)
    | none => (startOfFirstGo rest since).map (· + l.bytes.length)

def startOfFirst (ls : List LogLn) (since : Int) : Nat :=
  match startOfFirstGo ls since with
  | some o => o
  | none => if ls.any (·.t.isSome) then (logBytes ls).length else 0

end Sk
