/-
  C05 in the multi-process setting (`SkModel.ParEncode` on top of `SkModel.ParStore`):
  the results a finished worker exported read back, through the SHARED store, exactly the
  captured values, tag and sequence id - in every reachable state, for every interleaving.

  Composition of C06 (`C06_finished`, `C06_rets`, `C06_rets_resolve`: every index a finished
  worker handed out resolves in the shared store) with the read side of `SkModel.Encode`
  (`Enc.ResRel.readback` of `SkModel.Proofs.EncodeLemmas`).  The proof is a combinatorial
  induction over `rs` / `r.parts` that peels the worker's program three micro-operations at a
  time; the invariant of the transition system is not re-opened.
-/
import SkModel.ParEncode
import SkModel.Theorems.C06
import SkModel.Theorems.C05

namespace Sk

namespace C05Par
open Enc

/-- the return values `rets` answer the program `prog` soundly with respect to the store `st`:
    the `j`-th return value stands for the value of the `j`-th micro-operation -/
def Good (st : Store) (prog : List (Ns × Option Val)) (rets : List (Option Nat)) : Prop :=
  ∀ (j : Nat) (ns : Ns) (v : Option Val),
    prog[j]? = some (ns, v) → Sound st v ((rets[j]?).getD none)

theorem Good.tail {st : Store} {op : Ns × Option Val} {prog : List (Ns × Option Val)}
    {rets : List (Option Nat)} (H : Good st (op :: prog) rets) : Good st prog (rets.drop 1) := by
  intro j ns v hj
  have h := H (j + 1) ns v (by simpa using hj)
  have e : (rets.drop 1)[j]? = rets[j + 1]? := by
    rw [List.getElem?_drop, Nat.add_comm]
  rw [e]
  exact h

theorem Good.head {st : Store} {ns : Ns} {v : Option Val} {prog : List (Ns × Option Val)}
    {rets : List (Option Nat)} (H : Good st ((ns, v) :: prog) rets) :
    Sound st v (rets.headD none) := by
  have h := H 0 ns v rfl
  cases rets with
  | nil => simpa using h
  | cons a as => simpa using h

theorem Good.tail3 {st : Store} {a b c : Ns × Option Val} {prog : List (Ns × Option Val)}
    {rets : List (Option Nat)} (H : Good st (a :: b :: c :: prog) rets) :
    Good st prog (rets.drop 3) := by
  have h := H.tail.tail.tail
  simpa [List.drop_drop] using h

theorem microOps_append (a b : List (Option Val × Option Val × Option Val)) :
    microOps (a ++ b) = microOps a ++ microOps b := by
  induction a with
  | nil => rfl
  | cons x xs ih =>
    obtain ⟨t, sq, v⟩ := x
    simp [microOps, ih]

/-- peeling the `_save_part` calls of one result -/
theorem parts_spec {st : Store} (t sq : Option Val) :
    ∀ (ps : List Part) (rets : List (Option Nat)) (rest : List (Ns × Option Val)),
      Good st (microOps (ps.map fun p => (t, sq, p.val)) ++ rest) rets →
      All₂ (PartRel st) ps (partsFromRets ps rets).1 ∧ Good st rest (partsFromRets ps rets).2
  | [], rets, rest, H => ⟨.nil, by simpa [microOps, partsFromRets] using H⟩
  | p :: ps, rets, rest, H => by
    have H' : Good st ((Ns.value, p.val) :: (Ns.tag, t) :: (Ns.seq, sq) ::
        (microOps (ps.map fun p => (t, sq, p.val)) ++ rest)) rets := by
      simpa [microOps] using H
    obtain ⟨ih1, ih2⟩ := parts_spec t sq ps (rets.drop 3) rest H'.tail3
    exact ⟨.cons ⟨rfl, rfl, H'.head⟩ ih1, ih2⟩

/-- peeling one result: its parts, then the metadata `add` -/
theorem res_spec {st : Store} (seqVal : Nat → Val) (r : Res) (rs : List Res)
    (rets : List (Option Nat))
    (H : Good st (microOps (addOps seqVal (r :: rs))) rets) :
    ResRel st seqVal r (resFromRets r rets).1 ∧
      Good st (microOps (addOps seqVal rs)) (resFromRets r rets).2 := by
  have H' : Good st (microOps (r.parts.map fun p => (r.tag, r.seqId.map seqVal, p.val)) ++
      ((Ns.value, none) :: (Ns.tag, r.tag) :: (Ns.seq, r.seqId.map seqVal) ::
        microOps (addOps seqVal rs))) rets := by
    simpa [addOps, microOps_append, microOps] using H
  obtain ⟨hp, hg⟩ := parts_spec r.tag (r.seqId.map seqVal) r.parts rets _ H'
  refine ⟨⟨rfl, rfl, rfl, hp, ?_, ?_⟩, hg.tail3⟩
  · have h := hg.tail.head
    simpa [resFromRets] using h
  · have h := hg.tail.tail.head
    simpa [resFromRets, List.drop_drop] using h

theorem all_spec {st : Store} (seqVal : Nat → Val) :
    ∀ (rs : List Res) (rets : List (Option Nat)),
      Good st (microOps (addOps seqVal rs)) rets →
      All₂ (ResRel st seqVal) rs (allFromRets rs rets)
  | [], _, _ => .nil
  | r :: rs, rets, H => by
    obtain ⟨h1, h2⟩ := res_spec seqVal r rs rets H
    exact .cons h1 (all_spec seqVal rs _ h2)

/-- C06 gives `Good` for a finished worker, against the shared store -/
theorem good_of_done {B : Nat} {progs : Nat → List (Ns × Option Val)} {s : PState}
    (hB : 0 < B) (h : PReach B progs s) {w : Nat} (hd : (s.ws w).pc = .done) :
    Good s.sharedStore (progs w) (s.ws w).rets := by
  obtain ⟨-, hlen⟩ := C06_finished hB h w (.inr hd)
  obtain ⟨-, -, hnone, -⟩ := C06_rets hB h w
  intro j ns v hj
  have hjl : j < (s.ws w).rets.length := by
    rw [hlen]
    exact (List.getElem?_eq_some_iff.mp hj).1
  cases v with
  | none =>
    rw [hnone j ns hjl hj]
    exact ⟨fun _ => rfl, fun x hx => by cases hx⟩
  | some x =>
    obtain ⟨i, h1, h2⟩ := C06_rets_resolve hB h hd j ns x hjl hj
    rw [h1]
    refine ⟨fun hx => (by cases hx), fun y hy => ?_⟩
    cases hy
    exact ⟨i, rfl, h2⟩

end C05Par

open Enc C05Par in
/-- C05 in the multi-process setting: worker `w` has built and exported the results `rs`
    (its program is the micro-operations of the `add` calls this makes) and has finished
    `sync()`.  Then every exported result, read through the SHARED store - in any reachable
    state, whatever the other workers have done or are still doing, for every interleaving -
    gives back exactly the captured values, the tag and the sequence id. -/
theorem C05_parallel {B : Nat} {progs : Nat → List (Ns × Option Val)} {s : PState}
    (hB : 0 < B) (h : PReach B progs s) {w : Nat} (hd : (s.ws w).pc = .done)
    (seqVal : Nat → Val) (rs : List Res)
    (hprog : progs w = microOps (addOps seqVal rs)) :
    (allFromRets rs (s.ws w).rets).length = rs.length ∧
    ∀ k (hk : k < rs.length) (hk' : k < (allFromRets rs (s.ws w).rets).length),
      let r := rs[k]; let e := (allFromRets rs (s.ws w).rets)[k]
      e.ln = r.ln ∧ e.sec = r.sec ∧ e.fields = r.fields ∧
      (∀ i, e.getIdx s.sharedStore i = r.getIdx i) ∧
      (∀ nm, e.getName s.sharedStore nm = r.getName nm) ∧
      e.iter s.sharedStore = r.iter ∧
      e.tag s.sharedStore = r.tag ∧
      e.seqId s.sharedStore = r.seqId.map seqVal := by
  have hg : Good s.sharedStore (microOps (addOps seqVal rs)) (s.ws w).rets := by
    rw [← hprog]
    exact good_of_done hB h hd
  have hrel := all_spec seqVal rs _ hg
  exact ⟨hrel.length_eq.symm, fun k hk hk' => (hrel.get k hk hk').readback⟩

/-! ### non-vacuity: a concrete reachable state of a 2-worker system

  Block size 4.  Worker 0 exports one result (two groups, the second unmatched; tag `t0`, no
  sequence id), worker 1 one result of a sequence search (one group, which captured the SAME
  text `a0`; tag `t1`, sequence id 7).  Worker 0 is granted [0,4), worker 1 [4,8); their steps
  are interleaved; worker 0 has finished `sync()` while worker 1 is still in the middle of its
  program (it has not synced anything). -/

def C05Par.demo_seqVal : Nat → Val := fun _ => "q7"

def C05Par.demo_rs0 : List Res :=
  [{ src := 0, ln := 3, tag := some "t0", seqId := none, sec := none,
     parts := [⟨1, some "a0", some "f"⟩, ⟨2, none, none⟩], fields := some ["f"] }]

def C05Par.demo_rs1 : List Res :=
  [{ src := 1, ln := 5, tag := some "t1", seqId := some 7, sec := some (7, 0),
     parts := [⟨0, some "a0", none⟩], fields := none }]

def C05Par.demo_progs : Nat → List (Ns × Option Val)
  | 0 => microOps (addOps C05Par.demo_seqVal C05Par.demo_rs0)
  | 1 => microOps (addOps C05Par.demo_seqVal C05Par.demo_rs1)
  | _ => []

def C05Par.demo_labels : List PLbl :=
  [ .acquire 0, .readPtr 0 0, .readPtr 0 0, .writePtr 0 4, .release 0,
    .acquire 1, .local_ 0, .readPtr 1 4, .local_ 0, .readPtr 1 4, .local_ 0, .writePtr 1 8,
    .release 1, .local_ 1, .local_ 0, .local_ 0, .local_ 0, .local_ 1, .local_ 0, .local_ 0,
    .local_ 0, .syncStart 0, .syncData 0 0 "a0", .local_ 1, .syncData 0 1 "t0", .syncDone 0 ]

open C05Par in
/-- the hypotheses of `C05_parallel` hold in a reachable state, for a non-empty `rs`, while
    another worker is still running; what the theorem then says about that state -/
example : ∃ s, PReach 4 demo_progs s ∧ (s.ws 0).pc = .done ∧ (s.ws 1).pc = .run ∧
    demo_progs 0 = microOps (addOps demo_seqVal demo_rs0) ∧ demo_rs0 ≠ [] ∧
    (s.ws 0).rets = [some 0, some 1, none, none, some 1, none, none, some 1, none] ∧
    (s.ws 1).rets = [some 4, some 5, some 6] ∧
    s.sdata = [(1, "t0"), (0, "a0")] ∧
    allFromRets demo_rs0 (s.ws 0).rets =
      [{ ln := 3, parts := [⟨1, some 0, some "f"⟩, ⟨2, none, none⟩], tagIdx := some 1,
         seqIdx := none, sec := none, fields := some ["f"] }] ∧
    (∀ e ∈ allFromRets demo_rs0 (s.ws 0).rets,
      e.getIdx s.sharedStore 1 = some "a0" ∧ e.getName s.sharedStore "f" = some "a0" ∧
      e.iter s.sharedStore = [some "a0", none] ∧ e.tag s.sharedStore = some "t0" ∧
      e.seqId s.sharedStore = none) := by
  have h : (prun (PState.init 4 demo_progs) demo_labels).isSome = true := by decide
  obtain ⟨s, hs⟩ := Option.isSome_iff_exists.mp h
  have ho : (prun (PState.init 4 demo_progs) demo_labels).map C06_obs =
      some { ptr := 8, lock := none, grants0 := [0], grants1 := [4], pc0 := .done, pc1 := .run,
             sdata := [(1, "t0"), (0, "a0")],
             rets0 := [some 0, some 1, none, none, some 1, none, none, some 1, none],
             rets1 := [some 4, some 5, some 6],
             data0 := [(0, "a0"), (1, "t0")],
             data1 := [(4, "a0"), (5, "t1"), (6, "q7")] } := by decide
  rw [hs] at ho
  simp only [Option.map_some, Option.some.injEq, C06_obs, C06_Obs.mk.injEq] at ho
  obtain ⟨-, -, -, -, h0, h1, hsd, hr0, hr1, -, -⟩ := ho
  have hreach : PReach 4 demo_progs s := ⟨_, hs⟩
  have hall : allFromRets demo_rs0 (s.ws 0).rets =
      [{ ln := 3, parts := [⟨1, some 0, some "f"⟩, ⟨2, none, none⟩], tagIdx := some 1,
         seqIdx := none, sec := none, fields := some ["f"] }] := by
    rw [hr0]; decide
  refine ⟨s, hreach, h0, h1, rfl, by decide, hr0, hr1, hsd, hall, ?_⟩
  -- the read-back facts are obtained from the theorem, not by evaluation
  obtain ⟨hlen, hrb⟩ := C05_parallel (by decide) hreach h0 demo_seqVal demo_rs0 rfl
  intro e he
  obtain ⟨k, hk, rfl⟩ := List.getElem_of_mem he
  have hk0 : k < demo_rs0.length := by rw [← hlen]; exact hk
  have hk1 : k = 0 := by
    have : demo_rs0.length = 1 := rfl
    omega
  subst hk1
  obtain ⟨-, -, -, hi, hn, hit, ht, hq⟩ := hrb 0 hk0 hk
  exact ⟨hi 1, hn "f", hit, ht, hq⟩

end Sk

#print axioms Sk.C05_parallel
