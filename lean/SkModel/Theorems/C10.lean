/-
  C10 — a task that raises or a worker process that dies never hangs the run, never
  leaves anything behind, and the next run works.

  Model: `SkModel.Fault` (`fstep` / `frun`): `n` workers that take the module-level
  results-store lock inside index allocation and inside `sync()`, the info thread that
  takes the same lock now and then, and the main thread of `_run_mp`.  `crash w` kills a
  worker wherever it is (a lock it holds stays held), `killAll` is the executor
  terminating every other worker wherever it is, `raise_ w` is a Python exception in a
  task (`with` releases the lock).  All statements are for every number of workers and
  every label sequence, i.e. every schedule and every fault point.

  * `C10_lock_owner_inv`  who can own the lock, in every reachable state;
  * `C10_no_stuck`, `C10_main_progress`  no reachable state is stuck, and from every
    reachable state the main thread can reach `raised` / `returned` without any further
    fault (the info thread can loop for ever, so this is the meaningful form of "no hang");
  * `C10_outcome`  failure or crash ⇒ the run raises, never returns partial results;
  * `C10_no_leftovers`  at the end the lock is free, both helper threads are joined,
    every worker is finished or gone;
  * `C10_fresh_run_returns`, `C10_clean_run_never_blocks`  the next run (same initial
    state, lock free) returns; without a fault the lock is never orphaned;
  * `C10_orphaned_lock_blocks`  without the reclaim step the crash-inside-allocation
    schedule leads to a state from which the main thread never gets the lock.
-/
import SkModel.Proofs.FaultInv

namespace Sk

open Flt

/-- reachable with `n` workers, by any schedule with any faults -/
def FReach (n : Nat) (s : FState) : Prop := ∃ ls, frun (FState.init n) ls = some s

/-- reachable by a schedule without `crash` / `raise_` -/
def FCleanReach (n : Nat) (s : FState) : Prop :=
  ∃ ls, Flt.Clean ls ∧ frun (FState.init n) ls = some s

theorem FCleanReach.reach {n : Nat} {s : FState} (h : FCleanReach n s) : FReach n s := by
  obtain ⟨ls, _, r⟩ := h
  exact ⟨ls, r⟩

/-- the full inductive invariant (all clauses: `Flt.Inv`) -/
theorem C10_inv {n : Nat} {s : FState} (h : FReach n s) : Flt.Inv n s := inv_reach h

/-- **lock ownership** in every reachable state -/
theorem C10_lock_owner_inv {n : Nat} {s : FState} (h : FReach n s) :
    s.n = n ∧
    (∀ w, s.lock = some (.worker w) →
      w < n ∧ (s.ws w = .inAlloc ∨ s.ws w = .inSync ∨ s.ws w = .dead)) ∧
    (∀ w, (s.ws w = .inAlloc ∨ s.ws w = .inSync) → s.lock = some (.worker w)) ∧
    (s.lock = some .info ↔ s.info = .holding) ∧
    (s.lock = some .main ↔ s.main = .holdsLock) ∧
    (∀ w, s.ws w = .dead → s.broken = true) ∧
    (s.broken = true → s.main ≠ .shutdownWait ∧ s.main ≠ .returned) ∧
    ((s.main = .reclaim ∨ s.main = .holdsLock) → s.broken = true ∧ s.allDead = true) ∧
    (Late s.main → s.broken = true → s.allDead = true ∧ ∀ w, s.lock ≠ some (.worker w)) ∧
    (Late s.main → s.broken = false → s.allDone = true) ∧
    (Late s.main → s.lock = none ∨ s.lock = some .info) ∧
    (s.info = .stopped ↔ (s.main = .teardown ∨ s.main = .raised ∨ s.main = .returned)) := by
  have hi := C10_inv h
  have hn := hi.hn
  refine ⟨hn, hi.lockW, hi.ownW, hi.lockI, hi.lockM, hi.deadBroken, hi.brokenMain, ?_, ?_, ?_,
    late_lock hi, hi.infoStopped⟩
  · intro hm
    have := hi.reclaimDead hm
    exact ⟨this.1, (allDead_iff s).mpr (by rw [hn]; exact this.2)⟩
  · intro hl hb
    have := hi.lateBroken hl hb
    exact ⟨(allDead_iff s).mpr (by rw [hn]; exact this.1), this.2⟩
  · intro hl hb
    exact (allDone_iff s).mpr (by rw [hn]; exact hi.lateClean hl hb)

/-- **main-thread progress**: from every reachable state some schedule - one that needs no
    further fault - reaches a final state -/
theorem C10_main_progress {n : Nat} {s : FState} (h : FReach n s) :
    ∃ ls s', Flt.Clean ls ∧ frun s ls = some s' ∧ s'.final = true := by
  obtain ⟨s', ⟨ls, c, r⟩, f⟩ := fin_all (C10_inv h)
  exact ⟨ls, s', c, r, f⟩

/-- no reachable non-final state is stuck (and the enabled step is not a fault) -/
theorem C10_no_stuck {n : Nat} {s : FState} (h : FReach n s) (hf : s.final = false) :
    ∃ l s', Flt.isFault l = false ∧ fstep s l = some s' := by
  obtain ⟨ls, s', c, r, f⟩ := C10_main_progress h
  obtain ⟨l, t, hl, ht⟩ := first_step r hf f
  exact ⟨l, t, c l hl, ht⟩

theorem C10_no_hang {n : Nat} {s : FState} (h : FReach n s) :
    (s.final = false → ∃ l s', fstep s l = some s') ∧
    ∃ ls s', frun s ls = some s' ∧ s'.final = true := by
  constructor
  · intro hf
    obtain ⟨l, s', _, hs⟩ := C10_no_stuck h hf
    exact ⟨l, s', hs⟩
  · obtain ⟨ls, s', _, r, f⟩ := C10_main_progress h
    exact ⟨ls, s', r, f⟩

theorem FReach.run {n : Nat} {s s' : FState} {ls : List FLbl} (h : FReach n s)
    (r : frun s ls = some s') : FReach n s' := by
  obtain ⟨l0, r0⟩ := h
  exact ⟨l0 ++ ls, by rw [frun_append _ r0]; exact r⟩

/-- **outcome**: a run in which a task failed or a worker died raises; a run that returns
    has every worker `done` -/
theorem C10_outcome {n : Nat} {s : FState} (h : FReach n s) (hf : s.final = true) :
    (s.main = .raised ↔ (s.failed = true ∨ s.broken = true)) ∧
    (s.main = .returned → s.allDone = true) := by
  have hi := C10_inv h
  constructor
  · constructor
    · exact hi.raisedWhy
    · intro hfb
      rcases (final_iff s).mp hf with hm | hm
      · exact hm
      · have := hi.returnedWhy hm
        rcases hfb with h' | h' <;> simp_all
  · intro hm
    have := hi.returnedWhy hm
    exact (allDone_iff s).mpr (by
      rw [hi.hn]; exact hi.lateClean (by simp [Late, hm]) this.2)

/-- after a fault the run ends in `raised` (no further fault needed) -/
theorem C10_main_progress_after_fault {n : Nat} {s : FState} (h : FReach n s)
    (hfb : s.failed = true ∨ s.broken = true) :
    ∃ ls s', Flt.Clean ls ∧ frun s ls = some s' ∧ s'.main = .raised := by
  obtain ⟨ls, s', c, r, f⟩ := C10_main_progress h
  refine ⟨ls, s', c, r, ?_⟩
  have hfl := clean_run_flags c r
  refine (C10_outcome (h.run r) f).1.mpr ?_
  rw [hfl.1, hfl.2]; exact hfb

/-- **no leftovers** in a final state -/
theorem C10_no_leftovers {n : Nat} {s : FState} (h : FReach n s) (hf : s.final = true) :
    s.lock = none ∧ s.info = .stopped ∧ s.resultsJoined = true ∧ s.quiet = true := by
  have hi := C10_inv h
  have hm := (final_iff s).mp hf
  have hl : Late s.main := by rcases hm with h' | h' <;> simp [Late, h']
  have hinfo : s.info = .stopped := hi.infoStopped.mpr (Or.inr hm)
  refine ⟨?_, hinfo, hi.joined (Or.inr (Or.inr hm)), ?_⟩
  · rcases late_lock hi hl with h' | h'
    · exact h'
    · have := hi.lockI.mp h'
      rw [hinfo] at this; cases this
  · rw [quiet_iff, hi.hn]
    intro w hw
    cases hb : s.broken with
    | true => exact Or.inr ((hi.lateBroken hl hb).1 w hw)
    | false => exact Or.inl (hi.lateClean hl hb w hw)

/-- fault-free runs: nothing failed, nobody died, the lock is never orphaned, every
    non-final state has an enabled (fault-free) step and a fault-free path to `returned` -/
theorem C10_clean_run_never_blocks {n : Nat} {s : FState} (h : FCleanReach n s) :
    (s.failed = false ∧ s.broken = false) ∧
    (∀ w, s.lock = some (.worker w) → s.ws w = .inAlloc ∨ s.ws w = .inSync) ∧
    (s.final = false → ∃ l s', Flt.isFault l = false ∧ fstep s l = some s') ∧
    (∃ ls s', Flt.Clean ls ∧ frun s ls = some s' ∧ s'.main = .returned) := by
  have hi := C10_inv h.reach
  have hfl : s.failed = false ∧ s.broken = false := by
    obtain ⟨ls, c, r⟩ := h
    exact clean_run_flags c r
  refine ⟨hfl, ?_, C10_no_stuck h.reach, ?_⟩
  · intro w hl
    rcases (hi.lockW w hl).2 with h' | h' | h'
    · exact Or.inl h'
    · exact Or.inr h'
    · have := hi.deadBroken w h'
      rw [hfl.2] at this; cases this
  · obtain ⟨ls, s', c, r, f⟩ := C10_main_progress h.reach
    have h2 := clean_run_flags c r
    exact ⟨ls, s', c, r, final_clean_returned (C10_inv (h.reach.run r)) f
      (h2.1.trans hfl.1) (h2.2.trans hfl.2)⟩

/-- the next run: from the initial state (lock free, as `C10_no_leftovers` guarantees at
    the end of the previous run) a schedule ends in `returned`, for every `n` -/
theorem C10_fresh_run_returns (n : Nat) :
    ∃ ls s', frun (FState.init n) ls = some s' ∧ s'.main = .returned := by
  obtain ⟨ls, s', _, r, m⟩ :=
    (C10_clean_run_never_blocks (n := n) (s := FState.init n) ⟨[], by simp [Flt.Clean], rfl⟩).2.2.2
  exact ⟨ls, s', r, m⟩

/-! ### why the reclaim step is needed -/

/-- Without `mainReclaim` (`fstepNR`): in every reachable state where the main thread is
    about to take the lock and a worker owns it, the lock is orphaned for ever - whatever
    is scheduled afterwards, the main thread stays in `reclaim`, `mainAcquire` stays
    disabled, no final state is reached, and the only steps that can be taken at all are
    the no-progress steps `infoWant` and `killAll`. -/
theorem C10_orphaned_lock_blocks_general {n : Nat} {s : FState} {w : Nat} (h : FReach n s)
    (hm : s.main = .reclaim) (hl : s.lock = some (.worker w)) :
    ∀ ls s', frunNR s ls = some s' →
      s'.final = false ∧ s'.main = .reclaim ∧ fstepNR s' .mainAcquire = none ∧
      (∃ v, s'.lock = some (.worker v) ∧ s'.ws v = .dead) ∧
      (∀ l t, fstepNR s' l = some t → l = .infoWant ∨ l = .killAll) := by
  intro ls s' r
  have ho := orphan_run (orphan_of_inv (C10_inv h) hm hl) r
  exact ⟨(orphan_blocked ho).1, ho.main, (orphan_blocked ho).2, ho.owner,
    fun l t ht => orphan_enabled ho ht⟩

def C10_crashInAlloc : List FLbl :=
  [.start 0, .wantAlloc 0, .acqAlloc 0, .crash 0, .killAll, .mainSeesBroken]

/-- the state after a crash inside allocation (2 workers), concretely -/
theorem C10_crashInAlloc_view :
    runView 2 C10_crashInAlloc =
      some ⟨[.dead, .dead], some (.worker 0), .idle, .reclaim, true, false, false⟩ := by
  decide

/-- the concrete instance: 2 workers, worker 0 dies inside `preallocate` -/
theorem C10_orphaned_lock_blocks :
    ∃ s, frun (FState.init 2) C10_crashInAlloc = some s ∧
      s.main = .reclaim ∧ s.lock = some (.worker 0) ∧ s.ws 0 = .dead ∧
      (∀ ls s', frunNR s ls = some s' → s'.final = false ∧ fstepNR s' .mainAcquire = none) ∧
      -- whereas with the reclaim step the run finishes
      (∃ ls s', frun s ls = some s' ∧ s'.main = .raised) := by
  have hv := C10_crashInAlloc_view
  simp only [runView, Option.map_eq_some_iff] at hv
  obtain ⟨s, r, hv⟩ := hv
  simp only [view, View.mk.injEq] at hv
  obtain ⟨hws, hl, _, hm, hb, _, _⟩ := hv
  have hr : FReach 2 s := ⟨_, r⟩
  have hd : s.ws 0 = .dead := by
    have := ((C10_inv hr).reclaimDead (Or.inl hm)).2 0 (by decide)
    exact this
  refine ⟨s, r, hm, hl, hd, ?_, ?_⟩
  · intro ls s' r'
    have := C10_orphaned_lock_blocks_general hr hm hl ls s' r'
    exact ⟨this.1, this.2.2.1⟩
  · obtain ⟨ls, s', _, r', m⟩ := C10_main_progress_after_fault hr (Or.inr hb)
    exact ⟨ls, s', r', m⟩

/-! ### non-vacuity: concrete schedules (view = workers, lock, info, main, broken, failed,
    resultsJoined) -/

/-- crash inside allocation while the info thread waits for the lock: the main thread
    reclaims the lock, the info thread gets and releases it, the run raises, lock free -/
theorem C10_ex_crash_in_alloc :
    runView 2 [.start 0, .wantAlloc 0, .acqAlloc 0, .start 1, .infoWant, .crash 0, .killAll,
        .mainSeesBroken, .mainReclaim, .joinResults, .infoAcq, .infoRel, .joinInfo, .teardown] =
      some ⟨[.dead, .dead], none, .stopped, .raised, true, false, true⟩ := by
  decide

/-- the other workers are killed wherever they are: worker 1 dies inside `sync()` holding
    the lock, after worker 0 crashed -/
theorem C10_ex_killed_in_sync :
    runView 2 [.start 0, .start 1, .wantSync 1, .acqSync 1, .crash 0, .killAll,
        .mainSeesBroken, .mainReclaim, .joinResults, .joinInfo, .teardown] =
      some ⟨[.dead, .dead], none, .stopped, .raised, true, false, true⟩ := by
  decide

/-- a task raises inside `sync()`: the lock is released by `with`, the other task is
    waited for, the run raises -/
theorem C10_ex_raise_in_sync :
    runView 2 [.start 0, .wantSync 0, .acqSync 0, .start 1, .wantSync 1, .raise_ 0,
        .mainSeesFailure, .acqSync 1, .relSync 1, .mainAllDone, .joinResults, .joinInfo,
        .teardown] =
      some ⟨[.done, .done], none, .stopped, .raised, false, true, true⟩ := by
  decide

/-- a clean run returns -/
theorem C10_ex_clean :
    runView 2 [.start 0, .wantAlloc 0, .acqAlloc 0, .relAlloc 0, .wantSync 0, .acqSync 0,
        .relSync 0, .start 1, .infoWant, .infoAcq, .wantSync 1, .infoRel, .acqSync 1, .relSync 1,
        .mainAllDone, .joinResults, .joinInfo, .teardown] =
      some ⟨[.done, .done], none, .stopped, .returned, false, false, true⟩ := by
  decide

/-- without the reclaim step the first schedule is not even executable past
    `mainSeesBroken`: `mainAcquire` is refused -/
theorem C10_ex_acquire_refused :
    (frun (FState.init 2) (C10_crashInAlloc ++ [.mainAcquire])).map view = none := by
  decide

end Sk

#print axioms Sk.C10_inv
#print axioms Sk.C10_lock_owner_inv
#print axioms Sk.C10_main_progress
#print axioms Sk.C10_no_stuck
#print axioms Sk.C10_no_hang
#print axioms Sk.C10_main_progress_after_fault
#print axioms Sk.C10_outcome
#print axioms Sk.C10_no_leftovers
#print axioms Sk.C10_clean_run_never_blocks
#print axioms Sk.C10_fresh_run_returns
#print axioms Sk.C10_orphaned_lock_blocks_general
#print axioms Sk.C10_orphaned_lock_blocks
#print axioms Sk.C10_ex_crash_in_alloc
#print axioms Sk.C10_ex_killed_in_sync
#print axioms Sk.C10_ex_raise_in_sync
#print axioms Sk.C10_ex_clean
#print axioms Sk.C10_ex_acquire_refused
