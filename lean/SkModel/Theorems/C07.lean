/-
  C07 — a search that carries its own since constraint(s) is active from the first
  line whose timestamp satisfies all of its constraints: earlier lines (dated or not)
  are not searched by it, every later line is (dated or not), and what it reports is
  what the same search without constraints reports for the lines from there on.
  Other searches registered on the same file are unaffected.

  The statement is proved for *homogeneous* constraint sets (on every line all
  constraints are undecidable or none is: a single constraint, or several constraints
  sharing one timestamp matcher).  `C07_hetero_witness` shows the model (hence the
  code) deviates for heterogeneous sets.
-/
import SkModel.Proofs.Gate
import SkModel.Theorems.C01

namespace Sk

namespace Gate

/-- closed form of the constrained solo run -/
theorem solo_gate_eq (d : Def) (hne : d.cons ≠ []) (n : Nat)
    (hom : Spec.homogeneous d.cons n = true) :
    soloLoop d (DSt.init d) (List.range n) =
      match Spec.activation d.cons n with
      | some a => soloLoop d.unconstrained (DSt.init d.unconstrained) (List.range' a (n - a))
      | none => .ok (DSt.init d, []) := by
  have hr : (DSt.init d).runnable = false := by
    simp only [DSt.init]
    cases h : d.cons with
    | nil => exact absurd h hne
    | cons _ _ => rfl
  have hhom : ∀ i, i < n → Spec.homogeneousAt d.cons i = true := by
    intro i hi
    simp only [Spec.homogeneous, List.all_eq_true, List.mem_range] at hom
    exact hom i hi
  cases hact : Spec.activation d.cons n with
  | none =>
    simp only
    apply solo_skip hne _ _ hr
    intro i hi
    have hi' : i < n := List.mem_range.mp hi
    exact ⟨hhom i hi', activation_none hact i hi'⟩
  | some a =>
    simp only
    obtain ⟨han, hpa, hbefore⟩ := activation_some hact
    have htail : List.range' a (n - a) = a :: List.range' (a + 1) (n - a - 1) := by
      have : n - a = (n - a - 1) + 1 := by omega
      rw [this, List.range'_succ]
      simp
    rw [range_split a n (Nat.le_of_lt han), solo_append, htail]
    rw [solo_skip hne (List.range a) _ hr (by
      intro i hi
      have hi' : i < a := List.mem_range.mp hi
      exact ⟨hhom i (by omega), hbefore i hi'⟩)]
    simp only [bind, Except.bind]
    rw [solo_activate hne a _ hpa]
    cases soloLoop d.unconstrained (DSt.init d.unconstrained) (a :: List.range' (a + 1) (n - a - 1)) with
    | error e => rfl
    | ok q => simp [pure, Except.pure]

theorem init_core (d : Def) : (DSt.init d.unconstrained).core = (DSt.init d).core := rfl

/-! ### simple searches: the spec restricted to the lines from `a` on -/

theorem specLine_ln {sd : SDef} {i : Nat} {p} (h : specLine sd i = some p) : p.1 = i + 1 := by
  unfold specLine at h
  split at h
  · simp only [Option.map_eq_some_iff] at h
    obtain ⟨m, _, rfl⟩ := h; rfl
  · cases h

theorem filter_before (sd : SDef) (a : Nat) (is : List Nat) (h : ∀ i ∈ is, i < a) :
    (is.filterMap (specLine sd)).filter (fun p => decide (a < p.1)) = [] := by
  rw [List.filter_eq_nil_iff]
  intro p hp
  simp only [List.mem_filterMap] at hp
  obtain ⟨i, hi, hs⟩ := hp
  have := specLine_ln hs
  have := h i hi
  simp; omega

theorem filter_after (sd : SDef) (a : Nat) (is : List Nat) (h : ∀ i ∈ is, a ≤ i) :
    (is.filterMap (specLine sd)).filter (fun p => decide (a < p.1)) = is.filterMap (specLine sd) := by
  rw [List.filter_eq_self]
  intro p hp
  simp only [List.mem_filterMap] at hp
  obtain ⟨i, hi, hs⟩ := hp
  have := specLine_ln hs
  have := h i hi
  simp; omega

theorem spec_from (sd : SDef) (a n : Nat) (h : a ≤ n) :
    (Spec.simple sd n).filter (fun p => decide (a < p.1)) =
      (List.range' a (n - a)).filterMap (specLine sd) := by
  rw [spec_simple_eq, range_split a n h, List.filterMap_append, List.filter_append,
    filter_before sd a _ (fun i hi => List.mem_range.mp hi),
    filter_after sd a _ (fun i hi => (List.mem_range'_1.mp hi).1)]
  rfl

/-! ### sequence searches emit no simple results -/

theorem defBody_seq_out {i d s st st' o} (hk : d.kind = .seq s)
    (h : defBody i d st = .ok (st', o)) : o = [] := by
  unfold defBody at h
  split at h
  · rename_i sd hk'; rw [hk] at hk'; cases hk'
  · simp only [bind_ok, pure_ok, Prod.mk.injEq] at h
    obtain ⟨_, _, _, rfl⟩ := h; rfl

theorem defStep_seq_out {i d s st st' o} (hk : d.kind = .seq s)
    (h : defStep i d st = .ok (st', o)) : o = [] := by
  rw [defStep_eq] at h
  split at h
  · simp only [pure_ok, Prod.mk.injEq] at h
    exact h.2.symm
  · exact defBody_seq_out hk h

theorem solo_seq_out {d s} (hk : d.kind = .seq s) : ∀ (is : List Nat) (st stF : DSt) (out : List Res),
    soloLoop d st is = .ok (stF, out) → out = []
  | [], st, stF, out, h => by
    simp only [soloLoop, pure_ok, Prod.mk.injEq] at h
    exact h.2.symm
  | i :: is, st, stF, out, h => by
    simp only [soloLoop, bind_ok, pure_ok, Prod.mk.injEq] at h
    obtain ⟨⟨st1, o⟩, h1, ⟨st2, os⟩, h2, _, rfl⟩ := h
    rw [defStep_seq_out hk h1, solo_seq_out hk is st1 st2 os h2]
    rfl

end Gate

open Gate

/-- C07, core: a constrained definition with a homogeneous constraint set behaves
    exactly like the same definition without constraints run on the lines from the
    activation line on (on no line at all if there is no activation line) — same simple
    results, same sequence state, same error. -/
theorem C07_gate_solo (d : Def) (hne : d.cons ≠ []) (n : Nat)
    (hom : Spec.homogeneous d.cons n = true) :
    let a := (Spec.activation d.cons n).getD n
    (∀ stF out, soloLoop d (DSt.init d) (List.range n) = .ok (stF, out) →
       ∃ stU, soloLoop d.unconstrained (DSt.init d.unconstrained) (List.range' a (n - a)) = .ok (stU, out)
              ∧ stU.core = stF.core) ∧
    (∀ e, soloLoop d (DSt.init d) (List.range n) = .error e →
       soloLoop d.unconstrained (DSt.init d.unconstrained) (List.range' a (n - a)) = .error e) := by
  have heq := solo_gate_eq d hne n hom
  cases hact : Spec.activation d.cons n with
  | none =>
    rw [hact] at heq
    simp only [Option.getD_none, Nat.sub_self, List.range'_zero] at heq ⊢
    refine ⟨?_, ?_⟩
    · intro stF out h
      rw [heq] at h
      cases h
      exact ⟨DSt.init d.unconstrained, rfl, init_core d⟩
    · intro e h
      rw [heq] at h
      cases h
  | some a =>
    rw [hact] at heq
    simp only [Option.getD_some] at heq ⊢
    refine ⟨?_, ?_⟩
    · intro stF out h
      rw [heq] at h
      exact ⟨stF, h, rfl⟩
    · intro e h
      rw [heq] at h
      exact h

/-- end-of-file processing only reads the kind, the id and the core of the state -/
theorem C07_eof_core (n : Nat) (d : Def) (stF stU : DSt) (h : stU.core = stF.core) :
    eofDef n d stF = eofDef n d.unconstrained stU := by
  simp only [DSt.core, Prod.mk.injEq] at h
  obtain ⟨h1, _, h3, h4, _⟩ := h
  unfold eofDef
  simp only [Def.unconstrained, h1, h3, h4]

/-- C07 for single-line searches: the results reported for a search with (homogeneous)
    constraints are exactly the specification's results on the lines from the
    activation line on. -/
theorem C07_gate_exact_simple (t : TaskIn) (hwf : DefsWF t.defs) (d : Def) (sd : SDef)
    (hd : d ∈ t.defs) (hk : d.kind = .simple sd) (hne : d.cons ≠ [])
    (hom : Spec.homogeneous d.cons t.n = true)
    (rs : List Res) (st : Stats) (hrun : runTask t = .ok (rs, st)) :
    (rs.filter (fun r => r.src == d.id)).map (fun r => (r.ln, r.iter)) =
      (Spec.simple sd t.n).filter (fun p => decide ((Spec.activation d.cons t.n).getD t.n < p.1)) := by
  obtain ⟨stF, out, fin, h1, h2, h3⟩ := runTask_proj t hwf d hd rs st hrun
  have hf := eofDef_simple hk h2
  subst hf
  obtain ⟨stU, hU, _⟩ := (C07_gate_solo d hne t.n hom).1 stF out h1
  have hle : (Spec.activation d.cons t.n).getD t.n ≤ t.n := by
    cases hact : Spec.activation d.cons t.n with
    | none => simp
    | some a => simpa using Nat.le_of_lt (activation_some hact).1
  rw [h3, List.append_nil, spec_from sd _ _ hle]
  have hk' : d.unconstrained.kind = .simple sd := hk
  exact (soloLoop_simple hk' _ _ _ _ (by simp [DSt.init, Def.unconstrained]) hU).1

/-- C07 for sequence searches: the reported sections are exactly those of reading the
    lines from the activation line on with the unconstrained state machine. -/
theorem C07_gate_exact_seq (t : TaskIn) (hwf : DefsWF t.defs) (d : Def) (s : SeqDef)
    (hd : d ∈ t.defs) (hk : d.kind = .seq s) (hne : d.cons ≠ [])
    (hom : Spec.homogeneous d.cons t.n = true)
    (rs : List Res) (st : Stats) (hrun : runTask t = .ok (rs, st)) :
    let a := (Spec.activation d.cons t.n).getD t.n
    ∃ stU fin, soloLoop d.unconstrained (DSt.init d.unconstrained) (List.range' a (t.n - a)) = .ok (stU, [])
      ∧ eofDef t.n d.unconstrained stU = .ok fin ∧ rs.filter (fun r => r.src == d.id) = fin := by
  obtain ⟨stF, out, fin, h1, h2, h3⟩ := runTask_proj t hwf d hd rs st hrun
  have ho := solo_seq_out hk _ _ _ _ h1
  subst ho
  obtain ⟨stU, hU, hc⟩ := (C07_gate_solo d hne t.n hom).1 stF [] h1
  refine ⟨stU, fin, hU, ?_, ?_⟩
  · rw [← C07_eof_core t.n d stF stU hc]; exact h2
  · simpa using h3

/-- C07, independence: what is reported for a search does not depend on which other
    searches (constrained or not) are registered on the same file. -/
theorem C07_independent (t1 t2 : TaskIn) (hn : t1.n = t2.n)
    (hwf1 : DefsWF t1.defs) (hwf2 : DefsWF t2.defs) (d : Def) (hd1 : d ∈ t1.defs) (hd2 : d ∈ t2.defs)
    (rs1 rs2 : List Res) (st1 st2 : Stats) (h1 : runTask t1 = .ok (rs1, st1)) (h2 : runTask t2 = .ok (rs2, st2)) :
    rs1.filter (fun r => r.src == d.id) = rs2.filter (fun r => r.src == d.id) := by
  obtain ⟨stF, out, fin, a1, a2, a3⟩ := runTask_proj t1 hwf1 d hd1 rs1 st1 h1
  obtain ⟨stF', out', fin', b1, b2, b3⟩ := runTask_proj t2 hwf2 d hd2 rs2 st2 h2
  rw [hn] at a1 a2
  rw [a1] at b1
  cases b1
  rw [a2] at b2
  cases b2
  rw [a3, b3]

/-! ### the deviation for heterogeneous constraint sets, and non-vacuity -/

namespace C07Ex

/-- matches every line -/
def sdAll : SDef := { pats := [fun _ => some ⟨"x", []⟩] }

/-- two constraints with different matchers: on line 0 the first passes and the second
    cannot decide, on line 1 both pass -/
def dHet : Def :=
  { id := 1, kind := .simple sdAll,
    cons := [fun _ => .pass, fun i => if i = 0 then .undec else .pass] }

def tHet : TaskIn := { n := 2, dec := fun _ => true, defs := [dHet] }

/-- one constraint: line 0 undated, line 1 too old, line 2 passes, line 3 undated -/
def dHom : Def :=
  { id := 1, kind := .simple sdAll,
    cons := [fun i => if i = 1 then .fail else if i = 2 then .pass else .undec] }

def tHom : TaskIn := { n := 4, dec := fun _ => true, defs := [dHom] }

theorem wf1 (d : Def) : DefsWF [d] := by
  intro a ha b hb _
  simp only [List.mem_singleton] at ha hb
  rw [ha, hb]

def lns (t : TaskIn) (id : Nat) : Option (List (Nat × List (Option Val))) :=
  match runTask t with
  | .ok (rs, _) => some ((rs.filter (fun r => r.src == id)).map (fun r => (r.ln, r.iter)))
  | .error _ => none

end C07Ex

open C07Ex in
/-- Without the homogeneity hypothesis `C07_gate_exact_simple` is false: the activation
    line of `dHet` is index 1, yet the model reports a result for line index 0
    (`ln = 1`): a line on which one constraint passes and another cannot decide is
    searched (`line_is_valid`) although the search is not yet runnable. -/
theorem C07_hetero_witness :
    Spec.homogeneous dHet.cons tHet.n = false ∧
    Spec.activation dHet.cons tHet.n = some 1 ∧
    lns tHet dHet.id = some [(1, [some "x"]), (2, [some "x"])] ∧
    (Spec.simple sdAll tHet.n).filter
        (fun p => decide ((Spec.activation dHet.cons tHet.n).getD tHet.n < p.1)) =
      [(2, [some "x"])] := by
  decide

open C07Ex in
/-- the same, in the shape of `C07_gate_exact_simple` minus `hom` -/
theorem C07_hetero_witness' : ∃ (t : TaskIn) (d : Def) (sd : SDef) (rs : List Res) (st : Stats),
    DefsWF t.defs ∧ d ∈ t.defs ∧ d.kind = .simple sd ∧ d.cons ≠ [] ∧ runTask t = .ok (rs, st) ∧
    (rs.filter (fun r => r.src == d.id)).map (fun r => (r.ln, r.iter)) ≠
      (Spec.simple sd t.n).filter (fun p => decide ((Spec.activation d.cons t.n).getD t.n < p.1)) := by
  have hw := C07_hetero_witness
  obtain ⟨_, _, h3, h4⟩ := hw
  unfold lns at h3
  cases h : runTask tHet with
  | error e => rw [h] at h3; cases h3
  | ok p =>
    obtain ⟨rs, st⟩ := p
    rw [h] at h3
    simp only [Option.some.injEq] at h3
    refine ⟨tHet, dHet, sdAll, rs, st, wf1 _, by simp [tHet], rfl, by simp [dHet], h, ?_⟩
    rw [h3, h4]
    decide

open C07Ex in
/-- non-vacuity of `C07_gate_exact_simple`: undated, too old, pass, undated →
    lines 3 and 4 are reported -/
example : Spec.homogeneous dHom.cons tHom.n = true ∧
    Spec.activation dHom.cons tHom.n = some 2 ∧
    lns tHom dHom.id = some [(3, [some "x"]), (4, [some "x"])] ∧
    (Spec.simple sdAll tHom.n).filter
        (fun p => decide ((Spec.activation dHom.cons tHom.n).getD tHom.n < p.1)) =
      [(3, [some "x"]), (4, [some "x"])] := by
  decide

open C07Ex in
example : ∃ rs st, runTask tHom = .ok (rs, st) ∧ DefsWF tHom.defs ∧ dHom ∈ tHom.defs ∧
    dHom.kind = .simple sdAll ∧ dHom.cons ≠ [] ∧ Spec.homogeneous dHom.cons tHom.n = true := by
  have hok : (match runTask tHom with | .ok _ => true | .error _ => false) = true := by decide
  cases h : runTask tHom with
  | error e => rw [h] at hok; cases hok
  | ok p => exact ⟨p.1, p.2, rfl, wf1 _, by simp [tHom], rfl, by simp [dHom], by decide⟩

end Sk

#print axioms Sk.C07_gate_solo
#print axioms Sk.C07_eof_core
#print axioms Sk.C07_gate_exact_simple
#print axioms Sk.C07_gate_exact_seq
#print axioms Sk.C07_independent
#print axioms Sk.C07_hetero_witness
#print axioms Sk.C07_hetero_witness'
