/-
  C12 — gzip-compressed files are searched exactly like their uncompressed content.

  The model of `execute` looks at what is on disk only to decide (a) zero-length → skip,
  (b) gzip or plain → how to obtain the content; everything else is a function of the
  content.  Hence for non-empty content the two are equal by construction, and for empty
  content the gzip archive (not zero-length on disk) is searched and yields exactly what
  the skipped plain file yields: no results, zero statistics - provided reading an empty
  content yields no lines, which is what `mkTask` of an empty content means.

  The weight of C12 is carried by the correspondence check (GzipFile's emulation of
  seek/tell/read is an assumption of this model; it is exactly what the check exercises).
-/
import SkModel.Gzip
import SkModel.Proofs.TaskProj
import SkModel.Proofs.SeekShape

namespace Sk

/-- with no lines to read nothing is reported -/
theorem runTask_no_lines_nil (t : TaskIn) (h : t.n = 0) :
    runTask t = .ok ([], { lines := 0, results := 0 }) := by
  have key : ∀ (defs : List Def),
      eofAll 0 defs (defs.map DSt.init) = .ok (defs.map fun d => (d.id, [])) := by
    intro defs
    induction defs with
    | nil => rfl
    | cons d ds ih =>
      have : eofDef 0 d (DSt.init d) = .ok [] := by
        unfold eofDef DSt.init
        cases d.kind <;> simp [pure, Except.pure]
      simp only [List.map, eofAll, bind, Except.bind, pure, Except.pure, ih, this]
  simp only [runTask, h, List.range_zero, linesLoop, bind, Except.bind, pure, Except.pure, key]
  simp

/-- the file-level seek never fails -/
theorem startPos_ok (cfg : FileCfg) (F : FileV)
    (hK : ∀ K ts since, cfg.seek = some (K, ts, since) → 0 < K.H) :
    ∃ p, startPos cfg F = .ok p := by
  unfold startPos
  split
  · exact ⟨0, rfl⟩
  · rename_i K ts since hs
    exact seek_no_assert K (hK K ts since hs) F ts since

/-- C12: for every content, every search configuration and every file-level constraint,
    the gzip-encoded file gives the same results and statistics as the plain file. -/
theorem C12_gzip_transparent (cfg : FileCfg) (F : FileV)
    (hK : ∀ K ts since, cfg.seek = some (K, ts, since) → 0 < K.H)
    (hempty : F.len = 0 → ∀ p, (cfg.mkTask F p).n = 0) :
    executeDisk cfg (.gz F) = executeDisk cfg (.plain F) := by
  by_cases h : F.len = 0
  · obtain ⟨p, hp⟩ := startPos_ok cfg F hK
    simp only [executeDisk, DiskFile.sizeZero, DiskFile.content, h, beq_self_eq_true, if_true,
      Bool.false_eq_true, if_false, hp]
    exact runTask_no_lines_nil _ (hempty h p)
  · have : (F.len == 0) = false := by simpa using h
    simp only [executeDisk, DiskFile.sizeZero, DiskFile.content, this, Bool.false_eq_true, if_false]

/-- and the run never fails because of the seek (only the task itself can raise) -/
theorem C12_outcome (cfg : FileCfg) (d : DiskFile)
    (hK : ∀ K ts since, cfg.seek = some (K, ts, since) → 0 < K.H) :
    d.sizeZero = true ∨ ∃ p, executeDisk cfg d = runTask (cfg.mkTask d.content p) := by
  by_cases hz : d.sizeZero = true
  · exact Or.inl hz
  · obtain ⟨p, hp⟩ := startPos_ok cfg d.content hK
    refine Or.inr ⟨p, ?_⟩
    simp only [executeDisk, hz, Bool.false_eq_true, if_false, hp]

example : executeDisk { seek := none, mkTask := fun _ _ => { n := 0, dec := fun _ => true, defs := [] },
                        nregs := 0 } (.gz { len := 0, isLF := fun _ => false })
          = .ok ([], { lines := 0, results := 0 }) := by rfl

end Sk

#print axioms Sk.C12_gzip_transparent
#print axioms Sk.C12_outcome
