/-
  SkModel.Theorems.C02Ids — the table of source ids of `SearchCatalog` (search.py):
  `get_source_id` never gives two different path strings the same id, never changes what an
  id handed out earlier means, and `source_id_to_path` of the id of a catalog entry is that
  entry's path - whatever was registered or looked up before or after.  Lookups of foreign
  paths extend the id table only: the files to search and their registrations are those of
  the plain catalog model (SkModel.Catalog.register).
-/
import SkModel.SourceIds
import SkModel.Theorems.C09

namespace Sk

/-- well-formed id table: ids pairwise distinct, paths pairwise distinct, every id below nextId -/
def IdTable.WF (t : IdTable) : Prop :=
  (t.map (·.1)).Nodup ∧ (t.map (·.2)).Nodup ∧ ∀ p ∈ t, p.1 < t.nextId

/-- invariant of every reachable catalog state: the id table is well-formed and every catalog
    entry's path has an id that maps back to it -/
def CatSt.Inv (c : CatSt) : Prop :=
  c.ids.WF ∧ ∀ p ∈ c.files, ∃ i, c.ids.idOf p = some i ∧ c.ids.pathOf i = some p

namespace Ids

/-! ## 1. `nextId` is above every id in the table -/

theorem le_foldl_max (l : List Nat) (a : Nat) : a ≤ l.foldl max a := by
  induction l generalizing a with
  | nil => exact Nat.le_refl _
  | cons x l ih => exact Nat.le_trans (Nat.le_max_left a x) (ih (max a x))

theorem mem_le_foldl_max (l : List Nat) (a x : Nat) (h : x ∈ l) : x ≤ l.foldl max a := by
  induction l generalizing a with
  | nil => cases h
  | cons y l ih =>
    rcases List.mem_cons.1 h with rfl | h
    · exact Nat.le_trans (Nat.le_max_right a x) (le_foldl_max l _)
    · exact ih _ h

theorem lt_nextId (t : IdTable) (p : Nat × String) (h : p ∈ t) : p.1 < t.nextId := by
  cases t with
  | nil => cases h
  | cons a l =>
    show p.1 < ((a :: l).map (·.1)).foldl max 0 + 1
    exact Nat.lt_succ_of_le (mem_le_foldl_max _ 0 p.1 (List.mem_map_of_mem h))

theorem nextId_not_mem (t : IdTable) : t.nextId ∉ t.map (·.1) := by
  intro h
  obtain ⟨p, hp, hpe⟩ := List.mem_map.1 h
  have := lt_nextId t p hp
  omega

/-! ## 2. `pathOf` (`List.lookup`) and `idOf` (`List.find?`) against membership -/

theorem mem_of_pathOf (t : IdTable) (i : Nat) (q : String) (h : t.pathOf i = some q) :
    (i, q) ∈ t := by
  unfold IdTable.pathOf at h
  induction t with
  | nil => simp at h
  | cons a l ih =>
    obtain ⟨j, r⟩ := a
    rw [List.lookup_cons] at h
    by_cases hij : i = j
    · subst hij
      simp at h
      subst h
      exact List.mem_cons_self
    · have : (i == j) = false := by simpa using hij
      rw [this] at h
      exact List.mem_cons_of_mem _ (ih h)

theorem pathOf_of_mem (t : IdTable) (hnd : (t.map (·.1)).Nodup) (i : Nat) (q : String)
    (h : (i, q) ∈ t) : t.pathOf i = some q := by
  unfold IdTable.pathOf
  induction t with
  | nil => cases h
  | cons a l ih =>
    obtain ⟨j, r⟩ := a
    simp only [List.map_cons, List.nodup_cons] at hnd
    rw [List.lookup_cons]
    rcases List.mem_cons.1 h with heq | h
    · cases heq
      simp
    · have hij : i ≠ j := fun e => hnd.1 (e ▸ List.mem_map_of_mem (f := (·.1)) h)
      have : (i == j) = false := by simpa using hij
      rw [this]
      exact ih hnd.2 h

theorem pathOf_none (t : IdTable) (i : Nat) (h : i ∉ t.map (·.1)) : t.pathOf i = none := by
  unfold IdTable.pathOf
  rw [List.lookup_eq_none_iff]
  intro p hp
  have : i ≠ p.1 := fun e => h (e ▸ List.mem_map_of_mem (f := (·.1)) hp)
  simpa using this

theorem mem_of_idOf (t : IdTable) (p : String) (i : Nat) (h : t.idOf p = some i) :
    (i, p) ∈ t := by
  unfold IdTable.idOf at h
  obtain ⟨a, ha, hai⟩ := Option.map_eq_some_iff.1 h
  have h1 := List.mem_of_find?_eq_some ha
  have h2 : a.2 = p := by simpa using List.find?_some ha
  obtain ⟨j, r⟩ := a
  simp only at hai h2
  subst hai h2
  exact h1

theorem idOf_none (t : IdTable) (p : String) (h : t.idOf p = none) : p ∉ t.map (·.2) := by
  unfold IdTable.idOf at h
  rw [Option.map_eq_none_iff, List.find?_eq_none] at h
  intro hm
  obtain ⟨a, ha, hap⟩ := List.mem_map.1 hm
  exact h a ha (by simpa using hap)

theorem idOf_of_mem (t : IdTable) (hnd : (t.map (·.2)).Nodup) (i : Nat) (p : String)
    (h : (i, p) ∈ t) : t.idOf p = some i := by
  unfold IdTable.idOf
  induction t with
  | nil => cases h
  | cons a l ih =>
    obtain ⟨j, r⟩ := a
    simp only [List.map_cons, List.nodup_cons] at hnd
    rcases List.mem_cons.1 h with heq | h
    · cases heq
      simp
    · have hrp : r ≠ p := fun e => hnd.1 (e ▸ List.mem_map_of_mem (f := (·.2)) h)
      have : (r == p) = false := by simpa using hrp
      rw [List.find?_cons, this]
      exact ih hnd.2 h

/-- in a well-formed table `idOf` and `pathOf` are inverse to each other -/
theorem idOf_iff_pathOf (t : IdTable) (h : t.WF) (p : String) (i : Nat) :
    t.idOf p = some i ↔ t.pathOf i = some p :=
  ⟨fun hi => pathOf_of_mem t h.1 i p (mem_of_idOf t p i hi),
   fun hp => idOf_of_mem t h.2.1 i p (mem_of_pathOf t i p hp)⟩

/-! ## 3. the table only grows at the end: what was there stays -/

theorem pathOf_prefix {t t' : IdTable} (h : t <+: t') (i : Nat) (q : String)
    (hq : t.pathOf i = some q) : t'.pathOf i = some q := by
  obtain ⟨s, rfl⟩ := h
  unfold IdTable.pathOf at hq ⊢
  rw [List.lookup_append, hq]
  rfl

theorem idOf_prefix {t t' : IdTable} (h : t <+: t') (p : String) (i : Nat)
    (hp : t.idOf p = some i) : t'.idOf p = some i := by
  obtain ⟨s, rfl⟩ := h
  unfold IdTable.idOf at hp ⊢
  obtain ⟨a, ha, hai⟩ := Option.map_eq_some_iff.1 hp
  rw [List.find?_append, ha]
  simpa using hai

theorem get_some (t : IdTable) (path : String) (i : Nat) (h : t.idOf path = some i) :
    t.get path = (t, i) := by
  unfold IdTable.get
  rw [h]

theorem get_none (t : IdTable) (path : String) (h : t.idOf path = none) :
    t.get path = (t ++ [(t.nextId, path)], t.nextId) := by
  unfold IdTable.get
  rw [h]

theorem get_prefix (t : IdTable) (path : String) : t <+: (t.get path).1 := by
  cases h : t.idOf path with
  | some i => rw [get_some t path i h]; exact List.prefix_refl t
  | none => rw [get_none t path h]; exact List.prefix_append _ _

/-- after `get` the path has the id returned (no well-formedness needed) -/
theorem idOf_get (t : IdTable) (path : String) :
    (t.get path).1.idOf path = some (t.get path).2 := by
  cases h : t.idOf path with
  | some i => rw [get_some t path i h]; exact h
  | none =>
    rw [get_none t path h]
    unfold IdTable.idOf at h ⊢
    rw [Option.map_eq_none_iff] at h
    rw [List.find?_append, h]
    simp

theorem wf_get (t : IdTable) (h : t.WF) (path : String) : (t.get path).1.WF := by
  cases hi : t.idOf path with
  | some i => rw [get_some t path i hi]; exact h
  | none =>
    rw [get_none t path hi]
    refine ⟨?_, ?_, fun p hp => lt_nextId _ p hp⟩
    · rw [List.map_append]
      refine List.nodup_append.2 ⟨h.1, by simp, ?_⟩
      intro a ha b hb e
      simp only [List.map_cons, List.map_nil, List.mem_singleton] at hb
      have hab : a = t.nextId := e.trans hb
      exact nextId_not_mem t (hab ▸ ha)
    · rw [List.map_append]
      refine List.nodup_append.2 ⟨h.2.1, by simp, ?_⟩
      intro a ha b hb e
      simp only [List.map_cons, List.map_nil, List.mem_singleton] at hb
      have hab : a = path := e.trans hb
      exact idOf_none t path hi (hab ▸ ha)

/-! ## 4. the catalog state: entries follow the plain catalog model, ids only grow -/

theorem entries_registerPath (c : CatSt) (s : Nat) (p : String) :
    (c.registerPath s p).entries = Sk.registerPath c.entries s p := by
  unfold CatSt.registerPath
  split <;> rfl

theorem entries_register (e : List String) (c : CatSt) (s : Nat) :
    (c.register s e).entries = Sk.register c.entries s e := by
  induction e generalizing c with
  | nil => rfl
  | cons p e ih =>
    show ((c.registerPath s p).register s e).entries = _
    rw [ih, entries_registerPath]
    rfl

theorem entries_lookup (c : CatSt) (p : String) : (c.lookup p).1.entries = c.entries := rfl

theorem ids_registerPath_prefix (c : CatSt) (s : Nat) (p : String) :
    c.ids <+: (c.registerPath s p).ids := by
  unfold CatSt.registerPath
  split
  · exact List.prefix_refl _
  · exact get_prefix _ _

theorem ids_register_prefix (e : List String) (c : CatSt) (s : Nat) :
    c.ids <+: (c.register s e).ids := by
  induction e generalizing c with
  | nil => exact List.prefix_refl _
  | cons p e ih =>
    show c.ids <+: ((c.registerPath s p).register s e).ids
    exact (ids_registerPath_prefix c s p).trans (ih _)

theorem ids_step_prefix (c : CatSt) (o : CatOp) : c.ids <+: (c.step o).ids := by
  cases o with
  | register s e => exact ids_register_prefix e c s
  | lookup p => exact get_prefix _ _

theorem ids_run_prefix (ops : List CatOp) (c : CatSt) : c.ids <+: (c.run ops).ids := by
  induction ops generalizing c with
  | nil => exact List.prefix_refl _
  | cons o ops ih =>
    show c.ids <+: ((c.step o).run ops).ids
    exact (ids_step_prefix c o).trans (ih _)

/-! ## 5. the invariant -/

theorem inv_init : CatSt.Inv {} :=
  ⟨⟨List.nodup_nil, List.nodup_nil, fun _ h => by cases h⟩, fun _ h => by cases h⟩

/-- the invariant carries over to a state with the same files and a grown, well-formed table -/
theorem inv_of_prefix {c c' : CatSt} (h : c.Inv) (hf : c'.files = c.files)
    (hp : c.ids <+: c'.ids) (hwf : c'.ids.WF) : c'.Inv := by
  refine ⟨hwf, fun p hpm => ?_⟩
  rw [hf] at hpm
  obtain ⟨i, h1, h2⟩ := h.2 p hpm
  exact ⟨i, idOf_prefix hp p i h1, pathOf_prefix hp i p h2⟩

theorem inv_lookup (c : CatSt) (h : c.Inv) (p : String) : (c.lookup p).1.Inv :=
  inv_of_prefix (c' := (c.lookup p).1) h rfl (get_prefix _ _) (wf_get _ h.1 _)

theorem inv_registerPath (c : CatSt) (h : c.Inv) (s : Nat) (p : String) :
    (c.registerPath s p).Inv := by
  by_cases hany : c.entries.any (fun q => q.1 == p) = true
  · have hmem : p ∈ Cat.keys c.entries := (Cat.any_key_iff c.entries p).1 hany
    have hc : c.registerPath s p = { c with entries := Sk.registerPath c.entries s p } := by
      unfold CatSt.registerPath; rw [if_pos hany]
    rw [hc]
    refine inv_of_prefix h ?_ (List.prefix_refl _) h.1
    show Cat.keys (Sk.registerPath c.entries s p) = Cat.keys c.entries
    rw [Cat.registerPath_eq, Cat.keys_addTo, if_pos hmem]
  · have hmem : p ∉ Cat.keys c.entries := fun hm => hany ((Cat.any_key_iff c.entries p).2 hm)
    have hc : c.registerPath s p =
        { entries := Sk.registerPath c.entries s p, ids := (c.ids.get p).1 } := by
      unfold CatSt.registerPath; rw [if_neg hany]
    rw [hc]
    have hwf := wf_get c.ids h.1 p
    refine ⟨hwf, fun q hq => ?_⟩
    have hq' : q ∈ Cat.keys c.entries ++ [p] := by
      have : q ∈ Cat.keys (Sk.registerPath c.entries s p) := hq
      rwa [Cat.registerPath_eq, Cat.keys_addTo, if_neg hmem] at this
    rcases List.mem_append.1 hq' with hq1 | hq1
    · obtain ⟨i, h1, h2⟩ := h.2 q hq1
      exact ⟨i, idOf_prefix (get_prefix _ _) q i h1, pathOf_prefix (get_prefix _ _) i q h2⟩
    · have : q = p := by simpa using hq1
      subst this
      exact ⟨(c.ids.get q).2, idOf_get c.ids q,
        (idOf_iff_pathOf _ hwf q _).1 (idOf_get c.ids q)⟩

theorem inv_register (e : List String) (c : CatSt) (h : c.Inv) (s : Nat) :
    (c.register s e).Inv := by
  induction e generalizing c with
  | nil => exact h
  | cons p e ih =>
    show ((c.registerPath s p).register s e).Inv
    exact ih _ (inv_registerPath c h s p)

theorem inv_step (c : CatSt) (h : c.Inv) (o : CatOp) : (c.step o).Inv := by
  cases o with
  | register s e => exact inv_register e c h s
  | lookup p => exact inv_lookup c h p

theorem inv_run (ops : List CatOp) (c : CatSt) (h : c.Inv) : (c.run ops).Inv := by
  induction ops generalizing c with
  | nil => exact h
  | cons o ops ih =>
    show ((c.step o).run ops).Inv
    exact ih _ (inv_step c h o)

/-- `run` on entries only: lookups are invisible -/
def keepOp : CatOp → Bool
  | .lookup _ => false
  | _ => true

theorem entries_run_filter (ops : List CatOp) (c c' : CatSt) (h : c.entries = c'.entries) :
    (c.run ops).entries = (c'.run (ops.filter keepOp)).entries := by
  induction ops generalizing c c' with
  | nil => exact h
  | cons o ops ih =>
    cases o with
    | register s e =>
      show ((c.register s e).run ops).entries = ((c'.register s e).run (ops.filter keepOp)).entries
      exact ih _ _ (by rw [entries_register, entries_register, h])
    | lookup p =>
      show ((c.lookup p).1.run ops).entries = (c'.run (ops.filter keepOp)).entries
      exact ih _ _ (by rw [entries_lookup, h])

end Ids

open Ids

theorem IdTable.wf_nil : IdTable.WF [] :=
  ⟨List.nodup_nil, List.nodup_nil, fun _ h => by cases h⟩

/-- `get` keeps the table well-formed, never changes what earlier ids mean, and returns an id
    that maps back to exactly the path asked for -/
theorem IdTable.get_spec (t : IdTable) (h : t.WF) (path : String) :
    let r := t.get path
    r.1.WF ∧ r.1.pathOf r.2 = some path ∧ (∀ i q, t.pathOf i = some q → r.1.pathOf i = some q) ∧
    (t.idOf path = some r.2 → r.1 = t) := by
  intro r
  have hwf : r.1.WF := wf_get t h path
  refine ⟨hwf, (idOf_iff_pathOf _ hwf path _).1 (idOf_get t path),
    fun i q hq => pathOf_prefix (get_prefix t path) i q hq, fun hi => ?_⟩
  show (t.get path).1 = t
  rw [get_some t path _ hi]

/-- two different path strings never share an id; the same string always gets the same id -/
theorem IdTable.get_injective (t : IdTable) (h : t.WF) (p q : String) :
    let r1 := t.get p
    let r2 := r1.1.get q
    (r1.2 = r2.2 ↔ p = q) := by
  intro r1 r2
  have h1 := IdTable.get_spec t h p
  have h2 := IdTable.get_spec r1.1 h1.1 q
  constructor
  · intro heq
    have hp : r2.1.pathOf r1.2 = some p := h2.2.2.1 _ _ h1.2.1
    have hq : r2.1.pathOf r2.2 = some q := h2.2.1
    rw [← heq, hp] at hq
    exact Option.some.inj hq
  · intro heq
    subst heq
    show r1.2 = (r1.1.get p).2
    rw [get_some r1.1 p r1.2 (idOf_get t p)]

theorem C02_ids_inv (ops : List CatOp) : (CatSt.run {} ops).Inv :=
  inv_run ops {} inv_init

/-- C02 / C14: a result produced by the task of catalog entry `p` carries `p`'s id and is filed
    under `source_id_to_path` of it, which is `p` itself - whatever else was registered or looked
    up before or after, and however many paths there are -/
theorem C02_filed_under_own_path (ops : List CatOp) (p : String) (hp : p ∈ (CatSt.run {} ops).files)
    (later : List CatOp) :
    ∃ i, (CatSt.run {} ops).ids.idOf p = some i ∧
      (CatSt.run (CatSt.run {} ops) later).ids.pathOf i = some p ∧
      (CatSt.run (CatSt.run {} ops) later).ids.idOf p = some i := by
  obtain ⟨i, h1, h2⟩ := (C02_ids_inv ops).2 p hp
  have hpre := ids_run_prefix later (CatSt.run {} ops)
  exact ⟨i, h1, pathOf_prefix hpre i p h2, idOf_prefix hpre p i h1⟩

/-- C18: asking the catalog about arbitrary paths changes neither the files to search nor their
    registrations (only `register` does) -/
theorem C18_lookups_do_not_register (ops : List CatOp) :
    (CatSt.run {} ops).entries =
      (CatSt.run {} (ops.filter (fun o => match o with | .lookup _ => false | _ => true))).entries := by
  have hf : (fun o : CatOp => match o with | .lookup _ => false | _ => true) = keepOp := by
    funext o; cases o <;> rfl
  rw [hf]
  exact entries_run_filter ops {} {} rfl

/-- the entries are exactly those of the plain catalog model (SkModel.Catalog.register) -/
theorem C02_entries_are_catalog (c : CatSt) (s : Nat) (e : List String) :
    (c.register s e).entries = Sk.register c.entries s e :=
  entries_register e c s

/-! ## non-vacuity: two registrations through overlapping expansions, two foreign lookups
    in between -/

namespace C02IdsEx

def history : List CatOp :=
  [ .register 7 ["d/a.log", "d/b.log"],
    .lookup "elsewhere/x",
    .lookup "elsewhere/y",
    .register 9 ["d/b.log", "d/c.log"] ]

def final : CatSt := CatSt.run {} history

example : final.files = ["d/a.log", "d/b.log", "d/c.log"] := by decide

example : final.entries = [("d/a.log", [7]), ("d/b.log", [7, 9]), ("d/c.log", [9])] := by decide

example : final.ids.idOf "d/a.log" = some 0 ∧ final.ids.idOf "d/b.log" = some 1 ∧
    final.ids.idOf "d/c.log" = some 4 := by decide

example : final.ids.pathOf 0 = some "d/a.log" ∧ final.ids.pathOf 1 = some "d/b.log" ∧
    final.ids.pathOf 4 = some "d/c.log" := by decide

/-- the foreign paths have ids (2 and 3) but are not files to search -/
example : final.ids.pathOf 2 = some "elsewhere/x" ∧ final.ids.pathOf 3 = some "elsewhere/y" ∧
    "elsewhere/x" ∉ final.files ∧ "elsewhere/y" ∉ final.files := by decide

/-- without the lookups: same entries, other ids -/
example : (CatSt.run {} [.register 7 ["d/a.log", "d/b.log"],
      .register 9 ["d/b.log", "d/c.log"]]).entries = final.entries ∧
    (CatSt.run {} [.register 7 ["d/a.log", "d/b.log"],
      .register 9 ["d/b.log", "d/c.log"]]).ids.idOf "d/c.log" = some 2 := by decide

example : final.Inv := C02_ids_inv history

end C02IdsEx

end Sk

#print axioms Sk.IdTable.wf_nil
#print axioms Sk.IdTable.get_spec
#print axioms Sk.IdTable.get_injective
#print axioms Sk.C02_ids_inv
#print axioms Sk.C02_filed_under_own_path
#print axioms Sk.C18_lookups_do_not_register
#print axioms Sk.C02_entries_are_catalog
