/-
  SkModel.Theorems.C04Std — C04 end to end on the BYTES of a log file, with the concrete
  "YYYY-MM-DD HH:MM:SS" matcher of SkModel.StdTs in place of the timestamp oracle.

  * `parseStd_fmtStd`, `stdTs_fmtStd`: a written timestamp is read back (whatever follows it);
    `stdTs_some_valid`: whatever is read is a valid date-time.
  * `C04_std_log`, `C04_std_log_undated`: for a log given as a list of lines (`LogLn`),
    `applyToFile` on `FileV.ofBytes (logBytes ls)` with `stdTs (logBytes ls) W` returns
    `startOfFirst ls since`.  Proof: the line starts of the bytes are the prefix sums of the line
    lengths (`StdLog.lineStarts_log`), the matcher at those starts returns the written
    timestamps (`StdLog.map_ts`), hence the hypotheses of `C04.position_core` hold and
    `Spec.sincePosition` is `startOfFirst` (`StdLog.std_log_core`).
  * `StdLog.hund_of_nondigit`, `StdLog.hruns_of_check`: executable sufficient conditions for the
    hypotheses `hund` and `hruns`.
-/
import SkModel.StdTs
import SkModel.Theorems.C04

namespace Sk

/-- all fields of `c` fit their zero-padded widths (true of every valid date-time) -/
def Civil.fits (c : Civil) : Prop := c.y ≤ 9999 ∧ c.mo ≤ 99 ∧ c.d ≤ 99 ∧ c.h ≤ 99 ∧ c.mi ≤ 99 ∧ c.s ≤ 99

namespace StdLog

theorem daysInMonth_le (y m : Nat) : daysInMonth y m ≤ 31 := by
  unfold daysInMonth
  split <;> (try split) <;> omega

theorem takeDigits_pad2 (n : Nat) (h : n ≤ 99) (rest : List Nat) :
    takeDigits 2 (pad2 n ++ rest) = some (n, rest) := by
  have h1 : (48 ≤ 48 + n / 10 % 10 ∧ 48 + n / 10 % 10 ≤ 57) := by omega
  have h2 : (48 ≤ 48 + n % 10 ∧ 48 + n % 10 ≤ 57) := by omega
  simp [takeDigits, pad2, isDigitB, digitsVal, h1, h2]
  omega

theorem takeDigits_pad4 (n : Nat) (h : n ≤ 9999) (rest : List Nat) :
    takeDigits 4 (pad4 n ++ rest) = some (n, rest) := by
  have h1 : (48 ≤ 48 + n / 1000 % 10 ∧ 48 + n / 1000 % 10 ≤ 57) := by omega
  have h2 : (48 ≤ 48 + n / 100 % 10 ∧ 48 + n / 100 % 10 ≤ 57) := by omega
  have h3 : (48 ≤ 48 + n / 10 % 10 ∧ 48 + n / 10 % 10 ≤ 57) := by omega
  have h4 : (48 ≤ 48 + n % 10 ∧ 48 + n % 10 ≤ 57) := by omega
  simp [takeDigits, pad4, isDigitB, digitsVal, h1, h2, h3, h4]
  omega

theorem skipSeps_pad2 (n : Nat) (rest : List Nat) :
    skipSeps (pad2 n ++ rest) = pad2 n ++ rest := by
  have : isSepB (48 + n / 10 % 10) = false := by
    simp [isSepB]; omega
  simp [pad2, skipSeps, this]

end StdLog

open StdLog

theorem Civil.fits_of_valid (c : Civil) (h : c.valid = true) : c.fits := by
  unfold Civil.valid at h
  simp only [Bool.and_eq_true, decide_eq_true_eq] at h
  have := daysInMonth_le c.y c.mo
  unfold Civil.fits
  omega

/-- writing then reading a timestamp: whatever follows it -/
theorem parseStd_fmtStd (c : Civil) (h : c.fits) (rest : List Nat) :
    parseStd (fmtStd c ++ rest) = some c := by
  obtain ⟨h1, h2, h3, h4, h5, h6⟩ := h
  have e : fmtStd c ++ rest = pad4 c.y ++ (45 :: (pad2 c.mo ++ (45 :: (pad2 c.d ++ (32 ::
      (pad2 c.h ++ (58 :: (pad2 c.mi ++ (58 :: (pad2 c.s ++ rest)))))))))) := by
    simp [fmtStd, List.append_assoc]
  rw [e]
  unfold parseStd
  simp [takeDigits_pad4 _ h1, takeDigits_pad2 _ h2, takeDigits_pad2 _ h3, takeDigits_pad2 _ h4,
    takeDigits_pad2 _ h5, takeDigits_pad2 _ h6, expectB, skipSeps_pad2, isSepB]

theorem StdLog.fmtStd_length (c : Civil) : (fmtStd c).length = 19 := by
  simp [fmtStd, pad2, pad4]

/-- the window at the start of a line written with a valid timestamp yields that timestamp -/
theorem stdTs_fmtStd (c : Civil) (h : c.valid = true) (pre rest : List Nat) (W : Nat) (hW : 19 ≤ W) :
    stdTs (pre ++ fmtStd c ++ rest) W pre.length = some c.toSeconds := by
  unfold stdTs
  have e : ((pre ++ fmtStd c ++ rest).drop pre.length).take W
      = fmtStd c ++ rest.take (W - 19) := by
    rw [List.append_assoc, List.drop_left, List.take_append, fmtStd_length,
      List.take_of_length_le (by rw [fmtStd_length]; exact hW)]
  rw [e, parseStd_fmtStd c (Civil.fits_of_valid c h)]
  simp [h]

/-- what the parser accepts is what Python's `datetime` accepts: a result is always valid -/
theorem stdTs_some_valid (bs : List Nat) (W off : Nat) (t : Int) (h : stdTs bs W off = some t) :
    ∃ c : Civil, c.valid = true ∧ c.toSeconds = t ∧ parseStd ((bs.drop off).take W) = some c := by
  unfold stdTs at h
  cases hp : parseStd ((bs.drop off).take W) with
  | none => rw [hp] at h; cases h
  | some c =>
    rw [hp] at h
    by_cases hv : c.valid = true
    · simp [hv] at h
      exact ⟨c, hv, h, rfl⟩
    · simp [hv] at h

/-! ### the structure of the bytes of a log -/

namespace StdLog
open Sk.C04

/-- the bytes of a line before its line feed -/
def body (l : LogLn) : List Nat := (match l.t with | some c => fmtStd c | none => []) ++ l.msg

theorem bytes_eq (l : LogLn) : l.bytes = body l ++ [10] := rfl

theorem fmtStd_no_lf (c : Civil) : 10 ∉ fmtStd c := by
  simp [fmtStd, pad2, pad4]
  omega

theorem body_no_lf (l : LogLn) (h : 10 ∉ l.msg) : 10 ∉ body l := by
  unfold body
  cases l.t with
  | none => simpa using h
  | some c => simp [fmtStd_no_lf c, h]

theorem logBytes_cons (l : LogLn) (r : List LogLn) :
    logBytes (l :: r) = body l ++ 10 :: logBytes r := by
  simp [logBytes, bytes_eq]

theorem getD_app (x bs : List Nat) (i : Nat) :
    (x ++ 10 :: bs).getD i 0 =
      if i < x.length then x.getD i 0 else if i = x.length then 10
      else bs.getD (i - x.length - 1) 0 := by
  simp only [List.getD_eq_getElem?_getD, List.getElem?_append]
  split
  · rfl
  · split
    · next h => simp [h]
    · next h1 h2 =>
      obtain ⟨k, hk⟩ : ∃ k, i - x.length = k + 1 := ⟨i - x.length - 1, by omega⟩
      rw [hk]
      simp

theorem getD_ne_of_not_mem (x : List Nat) (h : 10 ∉ x) (i : Nat) (hi : i < x.length) :
    x.getD i 0 ≠ 10 := by
  rw [List.getD_eq_getElem?_getD, List.getElem?_eq_getElem hi]
  intro e
  apply h
  simp only [Option.getD_some] at e
  rw [← e]
  exact List.getElem_mem hi

/-- starts of the lines of a log -/
def starts : List LogLn → List Nat
  | [] => []
  | l :: r => 0 :: (starts r).map (· + l.bytes.length)

theorem lineStarts_cons (x bs : List Nat) (hx : 10 ∉ x) :
    Spec.lineStarts (FileV.ofBytes (x ++ 10 :: bs)) =
      0 :: (Spec.lineStarts (FileV.ofBytes bs)).map (· + (x.length + 1)) := by
  unfold Spec.lineStarts FileV.ofBytes
  simp only []
  have hlen : (x ++ 10 :: bs).length = (x.length + 1) + bs.length := by simp; omega
  rw [hlen, List.range_add, List.filter_append]
  have h1 : (List.range (x.length + 1)).filter
      (fun s => s = 0 || (x ++ 10 :: bs).getD (s - 1) 0 == 10) = [0] := by
    rw [List.range_succ_eq_map, List.filter_cons]
    simp only [decide_true, Bool.true_or, if_true, List.filter_map]
    have : (List.range x.length).filter
        ((fun s => decide (s = 0) || (x ++ 10 :: bs).getD (s - 1) 0 == 10) ∘ Nat.succ) = [] := by
      rw [List.filter_eq_nil_iff]
      intro a ha
      have ha' : a < x.length := List.mem_range.1 ha
      simp only [Function.comp, Nat.succ_eq_add_one, Nat.add_sub_cancel]
      rw [getD_app, if_pos ha']
      have := getD_ne_of_not_mem x hx a ha'
      simpa [List.getD_eq_getElem?_getD] using this
    rw [this]; rfl
  rw [h1, List.filter_map]
  simp only [List.singleton_append, List.cons.injEq, true_and]
  have hc : ∀ j, ((fun s => decide (s = 0) || (x ++ 10 :: bs).getD (s - 1) 0 == 10) ∘
      (fun j => x.length + 1 + j)) j = (decide (j = 0) || bs.getD (j - 1) 0 == 10) := by
    intro j
    simp only [Function.comp]
    rw [getD_app]
    by_cases hj : j = 0
    · subst hj; simp
    · have a1 : ¬ (x.length + 1 + j - 1 < x.length) := by omega
      have a2 : ¬ (x.length + 1 + j - 1 = x.length) := by omega
      have a3 : x.length + 1 + j - 1 - x.length - 1 = j - 1 := by omega
      have a4 : ¬ (x.length + 1 + j = 0) := by omega
      simp only [a1, a2, a3, a4, hj, if_false, decide_false, Bool.false_or]
  rw [List.filter_congr (fun j _ => hc j)]
  apply List.map_congr_left
  intro a _
  omega

theorem lineStarts_log : ∀ (ls : List LogLn), (∀ l ∈ ls, 10 ∉ l.msg) →
    Spec.lineStarts (FileV.ofBytes (logBytes ls)) = starts ls
  | [], _ => rfl
  | l :: r, h => by
    rw [logBytes_cons, lineStarts_cons _ _ (body_no_lf l (h l (List.mem_cons_self ..))),
      lineStarts_log r (fun l' hl' => h l' (List.mem_cons_of_mem _ hl'))]
    simp [starts, bytes_eq]

/-! ### the timestamps at the line starts -/

/-- the timestamp a line is written with -/
def tsOf (l : LogLn) : Option Int := l.t.map Civil.toSeconds

/-- per-line hypotheses: a written timestamp is valid; an undated line does not parse -/
def LineOk (W : Nat) (l : LogLn) : Prop :=
  (∀ c, l.t = some c → c.valid = true) ∧
  (l.t = none → ∀ rest, parseStd ((l.msg ++ 10 :: rest).take W) = none)

theorem stdTs_shift (a b : List Nat) (W s : Nat) :
    stdTs (a ++ b) W (s + a.length) = stdTs b W s := by
  unfold stdTs
  have : (a ++ b).drop (s + a.length) = b.drop s := by
    rw [Nat.add_comm, List.drop_append]
    simp
  rw [this]

theorem stdTs_head (W : Nat) (hW : 19 ≤ W) (l : LogLn) (hok : LineOk W l) (rest : List Nat) :
    stdTs (l.bytes ++ rest) W 0 = tsOf l := by
  unfold tsOf
  cases ht : l.t with
  | some c =>
    have e : l.bytes ++ rest = [] ++ fmtStd c ++ (l.msg ++ 10 :: rest) := by
      simp [LogLn.bytes, ht]
    rw [e]
    exact stdTs_fmtStd c (hok.1 c ht) [] _ W hW
  | none =>
    have e : l.bytes ++ rest = l.msg ++ 10 :: rest := by
      simp [LogLn.bytes, ht]
    rw [e]
    unfold stdTs
    rw [List.drop_zero, hok.2 ht rest]
    rfl

theorem logBytes_cons' (l : LogLn) (r : List LogLn) :
    logBytes (l :: r) = l.bytes ++ logBytes r := by
  simp [logBytes]

theorem map_ts (W : Nat) (hW : 19 ≤ W) : ∀ (ls : List LogLn), (∀ l ∈ ls, LineOk W l) →
    (starts ls).map (stdTs (logBytes ls) W) = ls.map tsOf
  | [], _ => rfl
  | l :: r, h => by
    have ih := map_ts W hW r (fun l' hl' => h l' (List.mem_cons_of_mem _ hl'))
    rw [logBytes_cons']
    simp only [starts, List.map_cons, List.map_map]
    rw [stdTs_head W hW l (h l (List.mem_cons_self ..))]
    congr 1
    rw [← ih]
    apply List.map_congr_left
    intro s _
    exact stdTs_shift _ _ _ _

theorem find_ts (W : Nat) (hW : 19 ≤ W) (since : Int) : ∀ (ls : List LogLn),
    (∀ l ∈ ls, LineOk W l) →
    (starts ls).find? (inWin (stdTs (logBytes ls) W) since) = startOfFirstGo ls since
  | [], _ => rfl
  | l :: r, h => by
    have ih := find_ts W hW since r (fun l' hl' => h l' (List.mem_cons_of_mem _ hl'))
    have h0 := stdTs_head W hW l (h l (List.mem_cons_self ..)) (logBytes r)
    have hsh : (inWin (stdTs (l.bytes ++ logBytes r) W) since) ∘ (fun s => s + l.bytes.length)
        = inWin (stdTs (logBytes r) W) since := by
      funext s
      simp only [Function.comp, inWin]
      rw [stdTs_shift]
    have htail : (List.map (fun s => s + l.bytes.length) (starts r)).find?
        (inWin (stdTs (l.bytes ++ logBytes r) W) since)
        = (startOfFirstGo r since).map (· + l.bytes.length) := by
      rw [List.find?_map, hsh, ih]
    rw [logBytes_cons']
    simp only [starts, List.find?_cons, startOfFirstGo]
    have hw : inWin (stdTs (l.bytes ++ logBytes r) W) since 0 =
        (match l.t with | some c => decide (c.toSeconds ≥ since) | none => false) := by
      unfold inWin
      rw [h0]
      unfold tsOf
      cases l.t <;> rfl
    rw [hw, htail]
    cases ht : l.t with
    | none => rfl
    | some c =>
      simp only []
      by_cases hc : c.toSeconds ≥ since
      · simp [hc]
      · simp [hc]

/-! ### runs of undated lines -/

def rstep (acc : Nat × Nat) (o : Option Int) : Nat × Nat :=
  if o.isSome then (0, acc.2) else (acc.1 + 1, max acc.2 (acc.1 + 1))

theorem run_bound (os : List (Option Int)) (A : Nat)
    (hruns : ∀ i n, (∀ j, i ≤ j → j < i + n → os[j]? = some none) → n + 1 ≤ A) :
    ∀ (todo done : List (Option Int)) (acc : Nat × Nat), os = done ++ todo →
      acc.1 ≤ done.length →
      (∀ j, done.length - acc.1 ≤ j → j < done.length → os[j]? = some none) →
      acc.2 + 1 ≤ A → (todo.foldl rstep acc).2 + 1 ≤ A
  | [], _, _, _, _, _, h => h
  | o :: t, done, acc, e, h1, h2, h3 => by
    rw [List.foldl_cons]
    have e' : os = (done ++ [o]) ++ t := by rw [e]; simp
    apply run_bound os A hruns t (done ++ [o]) (rstep acc o) e'
    · unfold rstep
      cases o <;> simp <;> omega
    · intro j hj1 hj2
      unfold rstep at hj1
      cases o with
      | some d => simp at hj1 hj2; omega
      | none =>
        simp at hj1 hj2
        by_cases hj : j < done.length
        · exact h2 j (by omega) hj
        · have : j = done.length := by omega
          rw [this, e]
          simp
    · unfold rstep
      cases o with
      | some d => simpa using h3
      | none =>
        simp only [Option.isSome_none, Bool.false_eq_true, if_false]
        have := hruns (done.length - acc.1) (acc.1 + 1) (by
          intro j hj1 hj2
          by_cases hj : j < done.length
          · exact h2 j (by omega) hj
          · have : j = done.length := by omega
            rw [this, e]
            simp)
        omega

theorem longestUndatedRun_map (F : FileV) (ts : Nat → Option Int) :
    Spec.longestUndatedRun F ts = (((Spec.lineStarts F).map ts).foldl rstep (0, 0)).2 := by
  unfold Spec.longestUndatedRun
  rw [List.foldl_map]
  rfl

/-! the converse, so that `hruns` can be checked by evaluation -/

theorem rstep_inv (acc : Nat × Nat) (o : Option Int) (h : acc.1 ≤ acc.2) :
    (rstep acc o).1 ≤ (rstep acc o).2 ∧ acc.2 ≤ (rstep acc o).2 := by
  unfold rstep
  cases o <;> simp <;> omega

theorem fold_snd_mono : ∀ (os : List (Option Int)) (acc : Nat × Nat), acc.1 ≤ acc.2 →
    acc.2 ≤ (os.foldl rstep acc).2
  | [], _, _ => Nat.le_refl _
  | o :: t, acc, h => by
    have := rstep_inv acc o h
    have := fold_snd_mono t (rstep acc o) this.1
    rw [List.foldl_cons]
    omega

theorem fold_prefix : ∀ (n : Nat) (os : List (Option Int)) (acc : Nat × Nat), acc.1 ≤ acc.2 →
    (∀ j, j < n → os[j]? = some none) → acc.1 + n ≤ (os.foldl rstep acc).2
  | 0, os, acc, h, _ => by have := fold_snd_mono os acc h; omega
  | n + 1, [], _, _, hr => by have := hr 0 (by omega); simp at this
  | n + 1, o :: t, acc, h, hr => by
    have h0 := hr 0 (by omega)
    simp only [List.getElem?_cons_zero, Option.some.injEq] at h0
    subst h0
    have := fold_prefix n t (rstep acc none) (rstep_inv acc none h).1
      (fun j hj => by have := hr (j + 1) (by omega); simpa using this)
    rw [List.foldl_cons]
    have e : (rstep acc none).1 = acc.1 + 1 := by simp [rstep]
    omega

theorem fold_run : ∀ (i : Nat) (os : List (Option Int)) (acc : Nat × Nat), acc.1 ≤ acc.2 →
    ∀ n, (∀ j, i ≤ j → j < i + n → os[j]? = some none) → n ≤ (os.foldl rstep acc).2
  | 0, os, acc, h, n, hr => by
    have := fold_prefix n os acc h (fun j hj => hr j (Nat.zero_le _) (by omega))
    omega
  | i + 1, [], _, _, n, hr => by
    cases n with
    | zero => exact Nat.zero_le _
    | succ n => have := hr (i + 1) (Nat.le_refl _) (by omega); simp at this
  | i + 1, o :: t, acc, h, n, hr => by
    rw [List.foldl_cons]
    apply fold_run i t (rstep acc o) (rstep_inv acc o h).1 n
    intro j h1 h2
    have := hr (j + 1) (by omega) (by omega)
    simpa using this

/-- the longest run of consecutive undated lines of a log (executable) -/
def maxUndatedRun (ls : List LogLn) : Nat := ((ls.map tsOf).foldl rstep (0, 0)).2

/-- the hypothesis `hruns` of `C04_std_log_undated` from an executable check -/
theorem hruns_of_check (ls : List LogLn) (A : Nat) (h : maxUndatedRun ls + 1 ≤ A) :
    ∀ i n, (∀ j, i ≤ j → j < i + n → ∃ l, ls[j]? = some l ∧ l.t = none) → n + 1 ≤ A := by
  intro i n hr
  have := fold_run i (ls.map tsOf) (0, 0) (Nat.le_refl _) n (by
    intro j h1 h2
    obtain ⟨l, a, b⟩ := hr j h1 h2
    rw [List.getElem?_map, a]
    simp [tsOf, b])
  unfold maxUndatedRun at h
  omega

/-! ### line lengths -/

theorem longestLine_le (F : FileV) (M : Nat)
    (h : ∀ e, e ≤ F.len → e - Spec.lineStart F e ≤ M) : Spec.longestLine F ≤ M := by
  rw [longestLine_eq]
  have : ∀ n, n ≤ F.len + 1 → (llAcc F n).2 ≤ M := by
    intro n
    induction n with
    | zero => intro _; exact Nat.zero_le _
    | succ n ih =>
      intro hn
      have ih' := ih (by omega)
      have hf := llAcc_fst F n (by omega)
      have hb := h n (by omega)
      rw [llAcc_succ]
      unfold llStep
      split
      · simp only []; omega
      · split
        · simp only []; omega
        · exact ih'
  exact this _ (Nat.le_refl _)

theorem isLF_ofBytes (bs : List Nat) (i : Nat) :
    (FileV.ofBytes bs).isLF i = (bs.getD i 0 == 10) := rfl

/-- from a line start, a stretch without line feed stays inside the line -/
theorem stretch_le (M : Nat) : ∀ (ls : List LogLn), (∀ l ∈ ls, 10 ∉ l.msg) →
    (∀ l ∈ ls, l.bytes.length - 1 ≤ M) →
    ∀ s ∈ starts ls, ∀ e, s ≤ e →
      (∀ j, s ≤ j → j < e → (logBytes ls).getD j 0 ≠ 10) → e - s ≤ M
  | [], _, _ => by intro s hs; cases hs
  | l :: r, hm, hl => by
    intro s hs e hse hno
    have hlen : l.bytes.length = (body l).length + 1 := by rw [bytes_eq]; simp
    rw [logBytes_cons] at hno
    simp only [starts, List.mem_cons, List.mem_map] at hs
    rcases hs with hs | ⟨s', hs', rfl⟩
    · subst hs
      have := hl l (List.mem_cons_self ..)
      by_cases he : e ≤ (body l).length
      · omega
      · have := hno (body l).length (Nat.zero_le _) (by omega)
        rw [getD_app] at this
        simp at this
    · have ih := stretch_le M r (fun l' hl' => hm l' (List.mem_cons_of_mem _ hl'))
        (fun l' hl' => hl l' (List.mem_cons_of_mem _ hl')) s' hs' (e - l.bytes.length) (by omega)
        (by
          intro j hj1 hj2
          have := hno (j + l.bytes.length) (by omega) (by omega)
          rw [getD_app] at this
          have a1 : ¬ (j + l.bytes.length < (body l).length) := by omega
          have a2 : ¬ (j + l.bytes.length = (body l).length) := by omega
          have a3 : j + l.bytes.length - (body l).length - 1 = j := by omega
          simpa only [a1, a2, a3, if_false] using this)
      omega

theorem short_log (M : Nat) (ls : List LogLn) (hm : ∀ l ∈ ls, 10 ∉ l.msg)
    (hl : ∀ l ∈ ls, l.bytes.length - 1 ≤ M) :
    Spec.longestLine (FileV.ofBytes (logBytes ls)) ≤ M := by
  apply longestLine_le
  intro e he
  obtain ⟨p1, p2, p3⟩ := lineStart_props (FileV.ofBytes (logBytes ls)) e
  by_cases hlt : Spec.lineStart (FileV.ofBytes (logBytes ls)) e < (FileV.ofBytes (logBytes ls)).len
  · have hst : IsStart (FileV.ofBytes (logBytes ls)) (Spec.lineStart (FileV.ofBytes (logBytes ls)) e) := by
      refine ⟨hlt, ?_⟩
      rcases p2 with p2 | ⟨_, _, p2⟩
      · exact Or.inl p2
      · exact Or.inr p2
    have hmem := (mem_lineStarts _ _).2 hst
    rw [lineStarts_log ls hm] at hmem
    apply stretch_le M ls hm hl _ hmem e p1
    intro j hj1 hj2 hc
    apply p3 j hj1 hj2
    refine ⟨by omega, ?_⟩
    rw [isLF_ofBytes, hc]
    rfl
  · omega

/-! ### empty lines and the end of the file are undated -/

theorem parseStd_nil : parseStd [] = none := rfl

theorem parseStd_lf (r : List Nat) : parseStd (10 :: r) = none := by
  unfold parseStd
  simp [takeDigits, isDigitB]

theorem tsOk_std (bs : List Nat) (W : Nat) : TsOk (FileV.ofBytes bs) (stdTs bs W) := by
  refine ⟨?_, ?_⟩
  · intro s hs hlf
    have hs1 : s < bs.length := hs.1
    rw [isLF_ofBytes] at hlf
    have hd : bs.drop s = 10 :: bs.drop (s + 1) := by
      rw [List.drop_eq_getElem_cons hs1]
      congr 1
      rw [List.getD_eq_getElem?_getD, List.getElem?_eq_getElem hs1] at hlf
      simpa using hlf
    unfold stdTs
    rw [hd]
    cases W with
    | zero => simp [parseStd_nil]
    | succ W => rw [List.take_succ_cons, parseStd_lf]
  · unfold stdTs
    have : bs.drop (FileV.ofBytes bs).len = [] := List.drop_length
    rw [this]
    simp [parseStd_nil]

/-! ### the end-to-end statement, per-line hypotheses bundled in `LineOk` -/

theorem std_log_core (K : SeekK) (hH : 0 < K.H) (hE : 0 < K.EXP)
    (W : Nat) (hW : 19 ≤ W) (ls : List LogLn)
    (hok : ∀ l ∈ ls, LineOk W l)
    (hmsg : ∀ l ∈ ls, 10 ∉ l.msg)
    (hshort : ∀ l ∈ ls, l.bytes.length - 1 ≤ (K.EXP - 1) * K.H)
    (hruns : ∀ i n, (∀ j, i ≤ j → j < i + n → ∃ l, ls[j]? = some l ∧ l.t = none) → n + 1 ≤ K.ATT)
    (hmono : (ls.filterMap (fun l => l.t.map Civil.toSeconds)).Pairwise (· ≤ ·))
    (since : Int) :
    applyToFile K (FileV.ofBytes (logBytes ls)) (stdTs (logBytes ls) W) since
      = .ok (startOfFirst ls since) := by
  have hLS := lineStarts_log ls hmsg
  have hmap := map_ts W hW ls hok
  have hany : Spec.anyDated (FileV.ofBytes (logBytes ls)) (stdTs (logBytes ls) W)
      = ls.any (·.t.isSome) := by
    unfold Spec.anyDated
    rw [hLS]
    have : (starts ls).any (fun s => (stdTs (logBytes ls) W s).isSome)
        = ((starts ls).map (stdTs (logBytes ls) W)).any Option.isSome := by
      rw [List.any_map]; rfl
    rw [this, hmap, List.any_map]
    congr 1
    funext l
    simp [tsOf]
  have hpos : Spec.sincePosition (FileV.ofBytes (logBytes ls)) (stdTs (logBytes ls) W) since
      = startOfFirst ls since := by
    unfold Spec.sincePosition startOfFirst
    rw [firstInWindow_eq, hLS, find_ts W hW since ls hok, hany]
    rfl
  rw [← hpos]
  apply position_core K hH hE _ _ since
  · -- dated lines in time order
    intro s1 s2 h1 h2 hle d1 d2 e1 e2
    by_cases heq : s1 = s2
    · subst heq
      rw [e1] at e2; cases e2; exact Int.le_refl _
    · have hL : (Spec.lineStarts (FileV.ofBytes (logBytes ls))).Pairwise (· < ·) := by
        unfold Spec.lineStarts
        exact List.Pairwise.filter _ List.pairwise_lt_range
      have hP : ((Spec.lineStarts (FileV.ofBytes (logBytes ls))).filterMap
          (stdTs (logBytes ls) W)).Pairwise (· ≤ ·) := by
        rw [hLS]
        have : (starts ls).filterMap (stdTs (logBytes ls) W)
            = ((starts ls).map (stdTs (logBytes ls) W)).filterMap id := by
          rw [List.filterMap_map]; rfl
        rw [this, hmap, List.filterMap_map]
        exact hmono
      exact sorted_filterMap _ _ hL hP s1 ((mem_lineStarts _ _).2 h1) s2
        ((mem_lineStarts _ _).2 h2) (by omega) d1 d2 e1 e2
  · -- runs of undated lines
    rw [longestUndatedRun_map, hLS, hmap]
    apply run_bound (ls.map tsOf) K.ATT ?_ (ls.map tsOf) [] (0, 0) (by simp) (Nat.le_refl _)
    · intro j _ hj; simp at hj
    · exact hruns 0 0 (by intro j h1 h2; omega)
    · intro i n h
      apply hruns i n
      intro j a b
      have := h j a b
      rw [List.getElem?_map] at this
      cases hl : ls[j]? with
      | none => rw [hl] at this; simp at this
      | some l =>
        rw [hl] at this
        refine ⟨l, rfl, ?_⟩
        simpa [tsOf] using this
  · exact short_log _ ls hmsg hshort
  · exact tsOk_std _ _

end StdLog

/-- END-TO-END with undated lines (continuation lines, blank lines, banners) mixed in: an undated
    line is one whose window does not parse whatever follows it; runs of them must be shorter
    than the seeker's fallback limit -/
theorem C04_std_log_undated (K : SeekK) (hH : 0 < K.H) (hE : 0 < K.EXP)
    (W : Nat) (hW : 19 ≤ W) (ls : List LogLn)
    (hvalid : ∀ l ∈ ls, ∀ c, l.t = some c → c.valid = true)
    (hund : ∀ l ∈ ls, l.t = none → ∀ rest, parseStd ((l.msg ++ 10 :: rest).take W) = none)
    (hmsg : ∀ l ∈ ls, 10 ∉ l.msg)
    (hshort : ∀ l ∈ ls, l.bytes.length - 1 ≤ (K.EXP - 1) * K.H)
    (hruns : ∀ i n, (∀ j, i ≤ j → j < i + n → ∃ l, ls[j]? = some l ∧ l.t = none) → n + 1 ≤ K.ATT)
    (hmono : (ls.filterMap (fun l => l.t.map Civil.toSeconds)).Pairwise (· ≤ ·))
    (since : Int) :
    applyToFile K (FileV.ofBytes (logBytes ls)) (stdTs (logBytes ls) W) since
      = .ok (startOfFirst ls since) :=
  StdLog.std_log_core K hH hE W hW ls (fun l hl => ⟨hvalid l hl, hund l hl⟩) hmsg hshort hruns
    hmono since

/-- END-TO-END, every line dated: for a log whose lines all start with a valid timestamp, in
    non-decreasing order, none longer than the seeker's limit, the since constraint positions the
    file exactly at the first line at or after `since` (end of file if there is none) -/
theorem C04_std_log (K : SeekK) (hH : 0 < K.H) (hE : 0 < K.EXP) (hA : 1 ≤ K.ATT)
    (W : Nat) (hW : 19 ≤ W) (ls : List LogLn)
    (hdated : ∀ l ∈ ls, ∃ c, l.t = some c ∧ c.valid = true)
    (hmsg : ∀ l ∈ ls, 10 ∉ l.msg)
    (hshort : ∀ l ∈ ls, 19 + l.msg.length ≤ (K.EXP - 1) * K.H)
    (hmono : (ls.filterMap (fun l => l.t.map Civil.toSeconds)).Pairwise (· ≤ ·))
    (since : Int) :
    applyToFile K (FileV.ofBytes (logBytes ls)) (stdTs (logBytes ls) W) since
      = .ok (startOfFirst ls since) := by
  apply C04_std_log_undated K hH hE W hW ls ?_ ?_ hmsg ?_ ?_ hmono since
  · intro l hl c hc
    obtain ⟨c', h1, h2⟩ := hdated l hl
    rw [h1] at hc; cases hc; exact h2
  · intro l hl hn
    obtain ⟨c', h1, _⟩ := hdated l hl
    rw [h1] at hn; cases hn
  · intro l hl
    obtain ⟨c', h1, _⟩ := hdated l hl
    have : l.bytes.length = 19 + l.msg.length + 1 := by
      simp [LogLn.bytes, h1, StdLog.fmtStd_length]; omega
    have := hshort l hl
    omega
  · intro i n h
    cases n with
    | zero => omega
    | succ n =>
      obtain ⟨l, h1, h2⟩ := h i (Nat.le_refl _) (by omega)
      obtain ⟨c', h3, _⟩ := hdated l (List.mem_of_getElem? h1)
      rw [h3] at h2; cases h2

/-! ### a sufficient condition for "undated" and non-vacuity: concrete logs -/

namespace StdLog
open Sk.SeekL1

/-- a window whose first byte is not a digit does not parse -/
theorem parseStd_nondigit (b : Nat) (r : List Nat) (h : isDigitB b = false) :
    parseStd (b :: r) = none := by
  unfold parseStd
  simp [takeDigits, h]

/-- sufficient for the hypothesis `hund` of `C04_std_log_undated`: the message is empty or
    starts with a byte that is not a digit (continuation lines, blank lines, banners) -/
theorem hund_of_nondigit (W : Nat) (msg : List Nat) (h : ∀ b ∈ msg.head?, isDigitB b = false)
    (rest : List Nat) : parseStd ((msg ++ 10 :: rest).take W) = none := by
  cases W with
  | zero => simp [parseStd_nil]
  | succ W =>
    cases msg with
    | nil => rw [List.nil_append, List.take_succ_cons, parseStd_lf]
    | cons b m =>
      rw [List.cons_append, List.take_succ_cons]
      exact parseStd_nondigit b _ (h b (by simp))

/-- H = 4, EXP = 16 (lines up to 60 bytes), ATT = 3 -/
def exK : SeekK := ⟨4, 16, 3⟩

/-- "2024-01-15 10:00:00 a", "2024-01-15 10:00:05 b", "2024-01-15 11:30:00 c": 66 bytes, lines
    start at 0, 22, 44 -/
def exLog : List LogLn :=
  [⟨some ⟨2024, 1, 15, 10, 0, 0⟩, [32, 97]⟩,
   ⟨some ⟨2024, 1, 15, 10, 0, 5⟩, [32, 98]⟩,
   ⟨some ⟨2024, 1, 15, 11, 30, 0⟩, [32, 99]⟩]

example : (⟨2024, 1, 15, 10, 0, 5⟩ : Civil).toSeconds = 63840996005 := by decide

theorem exLog_dated : ∀ l ∈ exLog, ∃ c, l.t = some c ∧ c.valid = true := by
  intro l hl
  simp only [exLog, List.mem_cons, List.not_mem_nil, or_false] at hl
  rcases hl with rfl | rfl | rfl <;> exact ⟨_, rfl, by decide⟩

/-- the theorem, instantiated: every hypothesis holds of the concrete log -/
example (since : Int) :
    applyToFile exK (FileV.ofBytes (logBytes exLog)) (stdTs (logBytes exLog) 64) since
      = .ok (startOfFirst exLog since) :=
  C04_std_log exK (by decide) (by decide) (by decide) 64 (by decide) exLog exLog_dated
    (by decide) (by decide) (by decide) since

/-- the model evaluated by the kernel on the bytes: `since` equal to the second timestamp,
    between the second and third, before all, after all -/
example : applyToFile exK (FileV.ofBytes (logBytes exLog)) (stdTs (logBytes exLog) 64)
    63840996005 = .ok 22 := by decide
example : applyToFile exK (FileV.ofBytes (logBytes exLog)) (stdTs (logBytes exLog) 64)
    63840996006 = .ok 44 := by decide
example : applyToFile exK (FileV.ofBytes (logBytes exLog)) (stdTs (logBytes exLog) 64)
    0 = .ok 0 := by decide
example : applyToFile exK (FileV.ofBytes (logBytes exLog)) (stdTs (logBytes exLog) 64)
    63900000000 = .ok 66 := by decide
example : startOfFirst exLog 63840996005 = 22 := by decide
example : startOfFirst exLog 63900000000 = 66 := by decide

/-- with undated lines: "2024-01-15 10:00:00 a", "  at" (continuation), "" (blank),
    "2024-01-15 10:00:05 b", "2024-01-15 11:30:00 c": lines start at 0, 22, 27, 28, 50;
    72 bytes -/
def exLogU : List LogLn :=
  [⟨some ⟨2024, 1, 15, 10, 0, 0⟩, [32, 97]⟩,
   ⟨none, [32, 32, 97, 116]⟩,
   ⟨none, []⟩,
   ⟨some ⟨2024, 1, 15, 10, 0, 5⟩, [32, 98]⟩,
   ⟨some ⟨2024, 1, 15, 11, 30, 0⟩, [32, 99]⟩]

theorem exLogU_valid : ∀ l ∈ exLogU, ∀ c, l.t = some c → c.valid = true := by
  intro l hl c hc
  simp only [exLogU, List.mem_cons, List.not_mem_nil, or_false] at hl
  rcases hl with rfl | rfl | rfl | rfl | rfl <;> cases hc <;> decide

theorem exLogU_und : ∀ l ∈ exLogU, l.t = none →
    ∀ rest, parseStd ((l.msg ++ 10 :: rest).take 64) = none := by
  intro l hl _ rest
  apply hund_of_nondigit
  simp only [exLogU, List.mem_cons, List.not_mem_nil, or_false] at hl
  rcases hl with rfl | rfl | rfl | rfl | rfl <;> decide

theorem exLogU_runs : ∀ i n,
    (∀ j, i ≤ j → j < i + n → ∃ l, exLogU[j]? = some l ∧ l.t = none) → n + 1 ≤ exK.ATT :=
  hruns_of_check exLogU exK.ATT (by decide)

/-- the theorem, instantiated: every hypothesis holds of the concrete log -/
example (since : Int) :
    applyToFile exK (FileV.ofBytes (logBytes exLogU)) (stdTs (logBytes exLogU) 64) since
      = .ok (startOfFirst exLogU since) :=
  C04_std_log_undated exK (by decide) (by decide) 64 (by decide) exLogU exLogU_valid exLogU_und
    (by decide) (by decide) exLogU_runs (by decide) since

/-- the model evaluated by the kernel: `since` equal to the timestamp of the line after the
    undated run, and a `since` before / after everything -/
example : applyToFile exK (FileV.ofBytes (logBytes exLogU)) (stdTs (logBytes exLogU) 64)
    63840996005 = .ok 28 := by decide
example : applyToFile exK (FileV.ofBytes (logBytes exLogU)) (stdTs (logBytes exLogU) 64)
    63840996006 = .ok 50 := by decide
example : applyToFile exK (FileV.ofBytes (logBytes exLogU)) (stdTs (logBytes exLogU) 64)
    0 = .ok 0 := by decide
example : applyToFile exK (FileV.ofBytes (logBytes exLogU)) (stdTs (logBytes exLogU) 64)
    63900000000 = .ok 72 := by decide
example : startOfFirst exLogU 63840996005 = 28 := by decide

/-- the reader: what was written is read back, and an impossible date is no timestamp -/
example : parseStd (fmtStd ⟨2024, 2, 29, 23, 59, 59⟩ ++ [32, 120]) = some ⟨2024, 2, 29, 23, 59, 59⟩ := by
  decide
example : stdTs (fmtStd ⟨2023, 2, 29, 0, 0, 0⟩ ++ [10]) 64 0 = none := by decide

end StdLog

end Sk

#print axioms Sk.Civil.fits_of_valid
#print axioms Sk.parseStd_fmtStd
#print axioms Sk.stdTs_fmtStd
#print axioms Sk.stdTs_some_valid
#print axioms Sk.C04_std_log
#print axioms Sk.C04_std_log_undated
