/-
  C17 — the statistics of a run describe exactly that run: per-path results are the results
  of that file's task, `results`/`lines`/`searches` are the sums over the catalog, and the job
  counters equal the number of files.
-/
import SkModel.Proofs.RunnerLemmas

namespace Sk
open Sk.Run

theorem C17_stats_exact (jobs : List FileJob) (paths : List (List Res)) (st : RunStats)
    (h : runAll jobs = .ok (paths, st)) :
    st.results = (paths.map List.length).sum ∧
    paths.length = jobs.length ∧
    st.lines = (jobs.map fun j => if j.empty then 0 else j.task.n).sum ∧
    st.searches = (jobs.map (·.nregs)).sum ∧
    st.searchesByJob = jobs.map (·.nregs) ∧
    (2 ≤ jobs.length → st.jobsCompleted = jobs.length ∧ st.totalJobs = jobs.length) ∧
    (jobs.length = 1 → st.jobsCompleted = 1 ∧ st.totalJobs = 1) ∧
    (jobs = [] → st.jobsCompleted = 0 ∧ st.totalJobs = 0 ∧ st.results = 0 ∧ st.lines = 0) ∧
    (∀ k (hk : k < jobs.length), ∃ rs stk, execute jobs[k] = .ok (rs, stk) ∧
      paths[k]? = some rs) := by
  simp only [runAll, bind_ok, pure_ok, Prod.mk.injEq] at h
  obtain ⟨outs, hex, rfl, rfl⟩ := h
  obtain ⟨i1, i2, i3, i4⟩ := executeAll_sums hex
  refine ⟨i2, by simpa using i1, i3, rfl, rfl, ?_, ?_, ?_, i4⟩
  · intro h2
    have h0 : jobs.length ≠ 0 := by omega
    have h1 : jobs.length ≠ 1 := by omega
    simp [h0, h1]
  · intro h1
    simp [h1]
  · rintro rfl
    simp only [executeAll, Except.ok.injEq] at hex
    subst hex
    simp

/-- the job counters equal the number of catalog entries, whatever it is -/
theorem C17_jobs (jobs : List FileJob) (paths : List (List Res)) (st : RunStats)
    (h : runAll jobs = .ok (paths, st)) :
    st.jobsCompleted = jobs.length ∧ st.totalJobs = jobs.length ∧
      st.searchesByJob.length = jobs.length := by
  simp only [runAll, bind_ok, pure_ok, Prod.mk.injEq] at h
  obtain ⟨outs, _, rfl, rfl⟩ := h
  refine ⟨?_, ?_, by simp⟩ <;>
  · simp only
    split
    · omega
    · split <;> omega

/-- each path's results are exactly the results of that file's task — nothing from another
    file, nothing from an earlier run (`runAll` has no other input) -/
theorem C17_per_job (jobs : List FileJob) (paths : List (List Res)) (st : RunStats)
    (h : runAll jobs = .ok (paths, st)) :
    ∀ k (hk : k < jobs.length), ∃ rs stk, execute jobs[k] = .ok (rs, stk) ∧ paths[k]? = some rs ∧
      stk.results = rs.length ∧ stk.lines = (if jobs[k].empty then 0 else jobs[k].task.n) := by
  simp only [runAll, bind_ok, pure_ok, Prod.mk.injEq] at h
  obtain ⟨outs, hex, rfl, rfl⟩ := h
  obtain ⟨_, _, _, i4⟩ := executeAll_sums hex
  intro k hk
  obtain ⟨rs, stk, g1, g2⟩ := i4 k hk
  exact ⟨rs, stk, g1, g2, execute_stats g1⟩

/-- a zero-length file contributes no results and no lines; its searches still count -/
theorem C17_empty_file (j : FileJob) (he : j.empty = true) :
    execute j = .ok ([], { lines := 0, results := 0 }) := by
  simp [execute, he]

/-- the run fails iff some task fails; the error is one of the task errors -/
theorem C17_error (jobs : List FileJob) (e : Err) (h : runAll jobs = .error e) :
    e ∈ runErrors jobs := by
  have hx : executeAll jobs = .error e := by
    simp only [runAll, bind, Except.bind, pure, Except.pure] at h
    cases hx : executeAll jobs with
    | error e' => simp only [hx] at h; cases h; rfl
    | ok v => simp [hx] at h
  clear h
  induction jobs with
  | nil => simp [executeAll] at hx
  | cons j js ih =>
    simp only [executeAll, bind, Except.bind, pure, Except.pure] at hx
    cases hj : execute j with
    | error e' =>
      simp only [hj] at hx
      cases hx
      simp [runErrors, hj]
    | ok v =>
      simp only [hj] at hx
      cases hjs : executeAll js with
      | error e' =>
        simp only [hjs] at hx
        cases hx
        have := ih hjs
        simp only [runErrors, List.filterMap_cons, hj] at this ⊢
        exact this
      | ok w => simp [hjs] at hx

/-! ### non-vacuity -/

private def exDef : Def :=
  { id := 7, kind := .simple { pats := [fun i => if i = 1 then some ⟨"x", []⟩ else none] } }
private def exJobs : List FileJob :=
  [ { task := { n := 3, dec := fun _ => true, defs := [exDef] }, nregs := 1, empty := false },
    { task := { n := 5, dec := fun _ => true, defs := [exDef, exDef] }, nregs := 2, empty := true } ]

example : (runAll exJobs).toOption.map (·.2) =
    some { searches := 3, searchesByJob := [1, 2], lines := 3, results := 1,
           jobsCompleted := 2, totalJobs := 2 } := by decide
example : (runAll exJobs).toOption.map (·.1.map List.length) = some [1, 0] := by decide

end Sk

#print axioms Sk.C17_stats_exact
#print axioms Sk.C17_jobs
#print axioms Sk.C17_per_job
#print axioms Sk.C17_empty_file
#print axioms Sk.C17_error
