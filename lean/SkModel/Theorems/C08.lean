/-
  C08 — the results of a task do not depend on the state that the search-definition objects
  carry over from earlier runs / files: the outcome (also an error), the results, their order,
  line numbers, tags, values and the statistics are identical; only the section ids are renamed
  by an injective per-definition shift, so the grouping into sections is identical too.
-/
import SkModel.Proofs.RunnerLemmas

namespace Sk
open Sk.Run

theorem C08_persist_independent (p : Nat → SeqPersist) (t : TaskIn) :
    runTaskFrom p t = (runTask t).map (fun (x : List Res × Stats) => (x.1.map (shiftSec p), x.2)) :=
  ExRel.map_eq (runTaskFrom_rel p t)

/-- same error -/
theorem C08_same_error (p : Nat → SeqPersist) (t : TaskIn) (e : Err) :
    runTaskFrom p t = .error e ↔ runTask t = .error e := by
  rw [C08_persist_independent]
  cases runTask t <;> simp [Except.map]

/-- same results up to the renaming, same statistics -/
theorem C08_same_ok (p : Nat → SeqPersist) (t : TaskIn) (rs : List Res) (st : Stats)
    (h : runTask t = .ok (rs, st)) :
    runTaskFrom p t = .ok (rs.map (shiftSec p), st) := by
  rw [C08_persist_independent, h]; rfl

/-- the renaming is injective on section ids (for arbitrary results): two results are in the same
    section after the renaming iff they were before -/
theorem C08_same_grouping (p : Nat → SeqPersist) (r1 r2 : Res) :
    (shiftSec p r1).sec = (shiftSec p r2).sec ↔ r1.sec = r2.sec :=
  shiftSec_sec_inj p

theorem C08_sec_none (p : Nat → SeqPersist) (r : Res) :
    (shiftSec p r).sec = none ↔ r.sec = none := by
  cases h : r.sec <;> simp [shiftSec, h]

/-- everything a caller can see of a result, except the opaque section id, is unchanged -/
theorem C08_views (p : Nat → SeqPersist) (r : Res) :
    (shiftSec p r).ln = r.ln ∧ (shiftSec p r).tag = r.tag ∧ (shiftSec p r).parts = r.parts ∧
      (shiftSec p r).seqId = r.seqId ∧ (shiftSec p r).src = r.src ∧
      (shiftSec p r).fields = r.fields :=
  ⟨rfl, rfl, rfl, rfl, rfl, rfl⟩

/-- with no carried state (all counters zero) the renaming is the identity -/
theorem C08_fresh (p : Nat → SeqPersist) (h : ∀ id, (p id).cnt = 0) (r : Res) : shiftSec p r = r := by
  cases r with
  | mk src ln tag seqId sec parts fields =>
    cases sec with
    | none => rfl
    | some a => simp [shiftSec, h]

/-! ### non-vacuity -/

namespace C08

private def mt (v : String) : Option Match := some ⟨v, []⟩

/-- sequence definition 3: start on line 0, body on line 1, end on line 2 -/
def exSeq : Def :=
  { id := 3, kind := .seq
      { start := { pats := [fun i => if i = 0 then mt "S" else none] },
        body := some { pats := [fun i => if i = 1 then mt "B" else none] },
        end_ := some { pats := [fun i => if i = 2 then mt "E" else none] },
        tag := "t" } }

def exTask : TaskIn := { n := 3, dec := fun _ => true, defs := [exSeq] }

/-- the object was left inside a section by an earlier file, having drawn 5 ids -/
def exPersist : Nat → SeqPersist := fun id =>
  if id = 3 then { started := true, cnt := 5, sec := 4 } else {}

/-- what a caller sees of a result -/
structure View where
  ln : Nat
  tag : Option String
  seqId : Option Nat
  vals : List (Option Val)
deriving DecidableEq, Repr

def view (r : Res) : View := ⟨r.ln, r.tag, r.seqId, r.parts.map (·.val)⟩

def exViews : List View :=
  [⟨1, some "t-start", some 3, [some "S"]⟩, ⟨2, some "t-body", some 3, [some "B"]⟩,
   ⟨3, some "t-end", some 3, [some "E"]⟩]

/-- fresh objects: three results in section `(3, 0)` -/
example : (runTask exTask).toOption.map (fun x => x.1.map view) = some exViews := by decide
example : (runTask exTask).toOption.map (fun x => x.1.map (·.sec)) =
    some [some (3, 0), some (3, 0), some (3, 0)] := by decide
example : (runTask exTask).toOption.map (·.2) = some { lines := 3, results := 3 } := by decide

/-- carried state: the same views and statistics, the section id shifted by 5 -/
example : (runTaskFrom exPersist exTask).toOption.map (fun x => x.1.map view) = some exViews := by
  decide
example : (runTaskFrom exPersist exTask).toOption.map (fun x => x.1.map (·.sec)) =
    some [some (3, 5), some (3, 5), some (3, 5)] := by decide
example : (runTaskFrom exPersist exTask).toOption.map (·.2) = some { lines := 3, results := 3 } := by
  decide

/-- two sections: start on lines 0 and 2, end on line 1, an end-of-file match closes the second -/
def exSeq2 : Def :=
  { id := 3, kind := .seq
      { start := { pats := [fun i => if i = 0 ∨ i = 2 then mt "S" else none] },
        end_ := some { pats := [fun i => if i = 1 then mt "E" else none], emptyRes := mt "" },
        tag := "t" } }

def exTask2 : TaskIn := { n := 3, dec := fun _ => true, defs := [exSeq2, exSeq2] }

example : (runTask exTask2).toOption.map (fun x => x.1.map (·.sec)) =
    some [some (3, 0), some (3, 0), some (3, 2), some (3, 2)] := by decide
example : (runTaskFrom exPersist exTask2).toOption.map (fun x => x.1.map (·.sec)) =
    some [some (3, 5), some (3, 5), some (3, 7), some (3, 7)] := by decide
example : (runTaskFrom exPersist exTask2).toOption.map (fun x => x.1.map view) =
    (runTask exTask2).toOption.map (fun x => x.1.map view) := by decide

end C08

end Sk

#print axioms Sk.C08_persist_independent
#print axioms Sk.C08_same_error
#print axioms Sk.C08_same_ok
#print axioms Sk.C08_same_grouping
#print axioms Sk.C08_sec_none
#print axioms Sk.C08_views
#print axioms Sk.C08_fresh
