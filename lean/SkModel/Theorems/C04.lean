/-
  SkModel.Theorems.C04 — the file-level since constraint leaves the file at the first
  line whose timestamp is at or after `since`.

  `applyToFile` (`SearchConstraintSearchSince.apply_to_file` driving
  `LogFileDateSinceSeeker.run`: the first-line shortcut, `bisect_left` over all byte
  offsets with `__getitem__` = "date of the nearest dated line", the exception → position
  mapping) returns exactly `Spec.sincePosition`, for every file whose dated lines are in
  time order, whose runs of undated lines are below the fallback limit and whose lines
  are within the searchable length.
-/
import SkModel.Proofs.SeekBisect
import SkModel.Proofs.Seek4Spec

namespace Sk
open Sk.C04 Sk.SeekL1

/-- hypotheses of C04, all decidable on a concrete file (the harness checks them per
    generated case) -/
structure C04Hyps (K : SeekK) (F : FileV) (ts : Nat → Option Int) : Prop where
  /-- H1: timestamps of dated lines are non-decreasing -/
  mono : ∀ s1 ∈ Spec.lineStarts F, ∀ s2 ∈ Spec.lineStarts F, s1 ≤ s2 →
           ∀ d1 d2, ts s1 = some d1 → ts s2 = some d2 → d1 ≤ d2
  /-- H2: undated lines come in runs well below the fallback limit -/
  runs : 2 * Spec.longestUndatedRun F ts + 4 ≤ K.ATT
  /-- H3: every line is within the searchable length -/
  short : Spec.longestLine F ≤ (K.EXP - 1) * K.H
  /-- H4: a timestamp needs a first byte that is inside the file and is not a line feed
      (so empty lines and the position `len` are undated) -/
  tsShape : ∀ o d, ts o = some d → o < F.len ∧ F.isLF o = false

namespace C04

/-- the probe at an offset, its line start and its date -/
def gOf (K : SeekK) (F : FileV) (ts : Nat → Option Int) (off : Nat) : LLine :=
  match getItem K F ts off with
  | .ok l => l
  | .error _ => default

def dOf (K : SeekK) (F : FileV) (ts : Nat → Option Int) (off : Nat) : Nat :=
  (gOf K F ts off).startOffset.toNat

def aOf (K : SeekK) (F : FileV) (ts : Nat → Option Int) (off : Nat) : Int :=
  (ts (dOf K F ts off)).getD 0

theorem inWin_aOf (K : SeekK) (F : FileV) (ts : Nat → Option Int) (since : Int) (i : Nat)
    (hd : (ts (dOf K F ts i)).isSome = true) (h : since ≤ aOf K F ts i) :
    inWin ts since (dOf K F ts i) = true := by
  unfold aOf at h
  cases hx : ts (dOf K F ts i) with
  | none => rw [hx] at hd; cases hd
  | some d =>
    rw [hx] at h
    exact inWin_of hx (by simpa using h)

/-- C04 with the weakest run bound the proof needs: `longestUndatedRun + 1 ≤ ATT` -/
theorem position_core (K : SeekK) (hH : 0 < K.H) (hE : 0 < K.EXP) (F : FileV)
    (ts : Nat → Option Int) (since : Int)
    (hM : ∀ s1 s2, IsStart F s1 → IsStart F s2 → s1 ≤ s2 →
      ∀ d1 d2, ts s1 = some d1 → ts s2 = some d2 → d1 ≤ d2)
    (hR : Spec.longestUndatedRun F ts + 1 ≤ K.ATT)
    (hS : Spec.longestLine F ≤ (K.EXP - 1) * K.H)
    (hT : TsOk F ts) :
    applyToFile K F ts since = .ok (Spec.sincePosition F ts since) := by
  obtain ⟨r0, h0⟩ := back_ok_any K hH hE F ts hS hT K.ATT F.len (Nat.le_refl _)
  have h0' : tryFindLineWithDate K F ts F.len none false = .ok r0 := h0
  by_cases hsc : shortcutB ts since = true
  · -- the first line is in the window
    rw [apply_shortcut K F ts since r0 h0' hsc]
    unfold shortcutB at hsc
    cases hd : ts 0 with
    | none => rw [hd] at hsc; cases hsc
    | some d =>
      rw [hd] at hsc
      have hge : since ≤ d := by simpa using hsc
      have h00 : IsStart F 0 := by
        refine ⟨?_, Or.inl rfl⟩
        by_cases hc : 0 < F.len
        · exact hc
        · have : F.len = 0 := by omega
          have h2 := hT.2
          rw [this, hd] at h2; cases h2
      have hw := inWin_of hd hge
      unfold Spec.sincePosition
      cases hf : Spec.firstInWindow F ts since with
      | none =>
        have := fiw_none F ts since hf 0 h00
        rw [hw] at this; cases this
      | some s =>
        obtain ⟨_, _, c⟩ := fiw_some F ts since s hf
        by_cases hs0 : s = 0
        · rw [hs0]
        · have := c 0 h00 (by omega)
          rw [hw] at this; cases this
  · by_cases hex : ∃ s, IsStart F s ∧ (ts s).isSome = true
    · -- some line is dated: every probe succeeds
      obtain ⟨s0, hs0, hd0⟩ := hex
      have hgi : ∀ off, off < F.len → ∃ (l : LLine) (d : Nat),
          getItem K F ts off = .ok l ∧ l.startOffset = (d : Int) ∧ Gov F ts off d := by
        intro off ho
        rcases getItem_gov K hH hE F ts hS hT hR off ho with ⟨_, hu⟩ | h
        · exact absurd hd0 (by rw [hu s0 (Nat.zero_le _) hs0.1 hs0]; simp)
        · exact h
      have hg : ∀ i, i < F.len → getItem K F ts i = .ok (gOf K F ts i) := by
        intro i hi
        obtain ⟨l, d, e1, _, _⟩ := hgi i hi
        unfold gOf; rw [e1]
      have hgov : ∀ i, i < F.len → Gov F ts i (dOf K F ts i) := by
        intro i hi
        obtain ⟨l, d, e1, e2, e3⟩ := hgi i hi
        have : dOf K F ts i = d := by
          unfold dOf gOf; rw [e1]; simp only []; rw [e2]; omega
        rw [this]; exact e3
      have ha : ∀ i, i < F.len → (gOf K F ts i).date ts = some (aOf K F ts i) := by
        intro i hi
        have := (hgov i hi).2.1
        show ts (dOf K F ts i) = some ((ts (dOf K F ts i)).getD 0)
        cases hd : ts (dOf K F ts i) with
        | none => rw [hd] at this; cases this
        | some d => rfl
      have hmono : ∀ i j, i ≤ j → j < F.len → aOf K F ts i ≤ aOf K F ts j := by
        intro i j hij hj
        have gi := hgov i (by omega)
        have gj := hgov j hj
        have hle := gov_mono F ts i j _ _ hij gi gj
        obtain ⟨di, hdi⟩ := Option.isSome_iff_exists.1 gi.2.1
        obtain ⟨dj, hdj⟩ := Option.isSome_iff_exists.1 gj.2.1
        unfold aOf
        rw [hdi, hdj]
        exact hM _ _ gi.1 gj.1 hle di dj hdi hdj
      obtain ⟨r, st, hb, hrn, hlo, hhi, hp1, hp2⟩ :=
        bisect_run K F ts since (gOf K F ts) (aOf K F ts) hg ha hmono
      rw [apply_bisect_ok K F ts since r0 h0' hsc r st hb]
      unfold Spec.sincePosition
      cases hf : Spec.firstInWindow F ts since with
      | some s =>
        obtain ⟨c1, c2, c3⟩ := fiw_some F ts since s hf
        obtain ⟨dd, hdd, hge⟩ := inWin_true c2
        have hsd : (ts s).isSome = true := by simp [hdd]
        have hself : dOf K F ts s = s :=
          gov_unique F ts s _ _ (hgov s c1.1) (gov_self F ts s c1 hsd)
        have has : since ≤ aOf K F ts s := by
          unfold aOf; rw [hself, hdd]; exact hge
        have hrs : r ≤ s := by
          by_cases hh : s < r
          · have := hlo s hh; omega
          · omega
        have hrl : r < F.len := by have := c1.1; omega
        rw [hp1 hrl]
        show Except.ok (dOf K F ts r) = Except.ok s
        have h1 : dOf K F ts r ≤ s := gov_le_of_dated F ts r _ s hrs c1 hsd (hgov r hrl)
        have h2 : s ≤ dOf K F ts r := by
          by_cases hh : dOf K F ts r < s
          · have hf' := c3 _ (hgov r hrl).1 hh
            have ht := inWin_aOf K F ts since r (hgov r hrl).2.1 (hhi r (Nat.le_refl _) hrl)
            rw [ht] at hf'; cases hf'
          · omega
        have : dOf K F ts r = s := by omega
        rw [this]
      | none =>
        simp only [anyDated_true F ts s0 hs0 hd0, if_true]
        have : r = F.len := by
          by_cases hh : r < F.len
          · have hf' := fiw_none F ts since hf _ (hgov r hh).1
            have ht := inWin_aOf K F ts since r (hgov r hh).2.1 (hhi r (Nat.le_refl _) hh)
            rw [ht] at hf'; cases hf'
          · omega
        rw [hp2 this]
    · -- no line is dated
      have hU : Und F ts 0 F.len := by
        intro s _ _ hs
        cases hd : ts s with
        | none => rfl
        | some d => exact absurd ⟨s, hs, by simp [hd]⟩ hex
      have hspec : Spec.sincePosition F ts since = 0 := by
        unfold Spec.sincePosition
        cases hf : Spec.firstInWindow F ts since with
        | some s =>
          obtain ⟨a, b, _⟩ := fiw_some F ts since s hf
          obtain ⟨d, hd, _⟩ := inWin_true b
          exact absurd ⟨s, a, by simp [hd]⟩ hex
        | none => simp [anyDated_false F ts hU]
      rw [hspec]
      by_cases hlen : F.len = 0
      · have hb : bisectLoop K F ts since (F.len + 1) 0 F.len {} = .ok (0, {}) := by
          rw [bisectLoop_succ]; simp [hlen]
        rw [apply_bisect_ok K F ts since r0 h0' hsc 0 {} hb]
        simp [hlen]
      · rcases getItem_gov K hH hE F ts hS hT hR ((0 + F.len) / 2) (by omega) with
          ⟨e1, _⟩ | ⟨l, d, _, _, g⟩
        · exact apply_bisect_err K F ts since r0 h0' hsc
            (bisect_first_error K F ts since _ (by omega) e1)
        · exact absurd ⟨d, g.1, g.2.1⟩ hex

end C04

/-- C04: `apply_to_file` positions the file at the first line at or after `since` -/
theorem C04_position (K : SeekK) (hH : 0 < K.H) (hE : 0 < K.EXP) (F : FileV)
    (ts : Nat → Option Int) (since : Int) (h : C04Hyps K F ts) :
    applyToFile K F ts since = .ok (Spec.sincePosition F ts since) :=
  C04.position_core K hH hE F ts since
    (fun s1 s2 h1 h2 => h.mono s1 ((mem_lineStarts F s1).2 h1) s2 ((mem_lineStarts F s2).2 h2))
    (by have := h.runs; omega) h.short (tsOk_of_shape F ts h.tsShape)

/-- C04 under the weakest hypotheses the proof needs: H1 as the executable check
    `Spec.datedMonotone`, the fallback limit exceeding the longest undated run by one (the
    constant of `C04Hyps.runs` is generous), H3, and H4 only for what the seeker looks at:
    empty lines and the end-of-file position are undated -/
theorem C04_position_tight (K : SeekK) (hH : 0 < K.H) (hE : 0 < K.EXP) (F : FileV)
    (ts : Nat → Option Int) (since : Int)
    (mono : Spec.datedMonotone F ts = true)
    (runs : Spec.longestUndatedRun F ts + 1 ≤ K.ATT)
    (short : Spec.longestLine F ≤ (K.EXP - 1) * K.H)
    (emptyUndated : ∀ s ∈ Spec.lineStarts F, F.isLF s = true → ts s = none)
    (endUndated : ts F.len = none) :
    applyToFile K F ts since = .ok (Spec.sincePosition F ts since) :=
  C04.position_core K hH hE F ts since
    (fun s1 s2 h1 h2 => mono_of_datedMonotone F ts mono s1 ((mem_lineStarts F s1).2 h1) s2
      ((mem_lineStarts F s2).2 h2))
    runs short ⟨fun s hs => emptyUndated s ((mem_lineStarts F s).2 hs), endUndated⟩

/-- what `__getitem__` returns (C04's key lemma): the governing dated line of the offset,
    or `tooManyUndated` exactly when no line of the file is dated -/
theorem C04_getItem (K : SeekK) (hH : 0 < K.H) (hE : 0 < K.EXP) (F : FileV)
    (ts : Nat → Option Int) (h : C04Hyps K F ts) (off : Nat) (ho : off < F.len) :
    (getItem K F ts off = .error .tooManyUndated ∧
      ∀ s ∈ Spec.lineStarts F, ts s = none) ∨
    (∃ (l : LLine) (d : Nat), getItem K F ts off = .ok l ∧ l.startOffset = (d : Int) ∧
      d ∈ Spec.lineStarts F ∧ (ts d).isSome = true ∧
      ((d ≤ Spec.lineStart F off ∧
          ∀ s ∈ Spec.lineStarts F, d < s → s ≤ Spec.lineStart F off → ts s = none) ∨
       (Spec.lineStart F off < d ∧ ∀ s ∈ Spec.lineStarts F, s < d → ts s = none))) := by
  rcases getItem_gov K hH hE F ts h.short (tsOk_of_shape F ts h.tsShape)
      (by have := h.runs; omega) off ho with
    ⟨e, hu⟩ | ⟨l, d, e1, e2, g1, g2, g3⟩
  · left
    refine ⟨e, ?_⟩
    intro s hs
    have hs' := (mem_lineStarts F s).1 hs
    exact hu s (Nat.zero_le _) hs'.1 hs'
  · right
    refine ⟨l, d, e1, e2, (mem_lineStarts F d).2 g1, g2, ?_⟩
    rcases g3 with ⟨a, b⟩ | ⟨a, b⟩
    · left
      refine ⟨a, ?_⟩
      intro s hs h1 h2
      exact b s (by omega) (by omega) ((mem_lineStarts F s).1 hs)
    · right
      refine ⟨a, ?_⟩
      intro s hs h1
      exact b s (Nat.zero_le _) h1 ((mem_lineStarts F s).1 hs)

/-! ### non-vacuity: a concrete file -/

namespace C04

/-- 14 bytes, five 2-byte lines, line feeds at 2, 5, 8, 11 (no final line feed):
    lines start at 0, 3, 6, 9, 12 -/
def exF : FileV := ⟨14, fun i => [2, 5, 8, 11].contains i⟩

/-- the lines at 0, 9, 12 are dated 10, 20, 30; the lines at 3 and 6 are an undated run -/
def exTs : Nat → Option Int := fun o =>
  if o = 0 then some 10 else if o = 9 then some 20 else if o = 12 then some 30 else none

/-- H = 4, EXP = 2 (lines up to 4 bytes), ATT = 8 -/
def exK : SeekK := ⟨4, 2, 8⟩

/-- H1 from a decidable check over the line starts -/
theorem mono_of_check (F : FileV) (ts : Nat → Option Int)
    (h : ∀ s1 ∈ Spec.lineStarts F, ∀ s2 ∈ Spec.lineStarts F, s1 ≤ s2 →
      (match ts s1, ts s2 with
       | some d1, some d2 => decide (d1 ≤ d2)
       | _, _ => true) = true) :
    ∀ s1 ∈ Spec.lineStarts F, ∀ s2 ∈ Spec.lineStarts F, s1 ≤ s2 →
      ∀ d1 d2, ts s1 = some d1 → ts s2 = some d2 → d1 ≤ d2 := by
  intro s1 h1 s2 h2 hle d1 d2 e1 e2
  have := h s1 h1 s2 h2 hle
  rw [e1, e2] at this
  simpa using this

theorem exHyps : C04Hyps exK exF exTs where
  mono := mono_of_check exF exTs (by decide)
  runs := by decide
  short := by decide
  tsShape := by
    intro o d h
    unfold exTs at h
    split at h
    · subst_vars; decide
    · split at h
      · subst_vars; decide
      · split at h
        · subst_vars; decide
        · cases h

/-- the specification: the first line dated at or after 20 starts at byte 9 -/
example : Spec.sincePosition exF exTs 20 = 9 := by decide

/-- the model, evaluated by the kernel: `since` equal to the timestamp of the line at 9,
    after the undated run -/
example : applyToFile exK exF exTs 20 = .ok 9 := by decide

/-- the theorem, instantiated -/
example : applyToFile exK exF exTs 20 = .ok (Spec.sincePosition exF exTs 20) :=
  C04_position exK (by decide) (by decide) exF exTs 20 exHyps

/-- a date between two timestamps, a date before all and a date after all -/
example : applyToFile exK exF exTs 25 = .ok 12 := by decide
example : applyToFile exK exF exTs 5 = .ok 0 := by decide
example : applyToFile exK exF exTs 31 = .ok 14 := by decide

/-- the offsets inside the undated run are governed by the dated line before it -/
example : getItem exK exF exTs 7 = .ok ⟨.edge 0, .found 2⟩ := by decide

end C04

end Sk

#print axioms Sk.C04_position
#print axioms Sk.C04_position_tight
#print axioms Sk.C04_getItem
#print axioms Sk.C04.exHyps

/-
  Brute-force sanity check used to fix the hypotheses before proving (not part of the
  build).  Save as `Scratch/C04Brute.lean`, add
      [[lean_exe]]
      name = "c04brute"
      root = "Scratch.C04Brute"
  to a scratch copy of lakefile.toml, `lake build c04brute`, and run
      c04brute <maxLen> <nDates> <H> <EXP> <ATT> <c1> <c0>
  It enumerates every file of length ≤ maxLen (all line-feed masks with lines within
  (EXP-1)*H), every timestamp table with values none/1..nDates on the non-line-feed bytes,
  every since in 0..nDates+1, keeps the cases satisfying H1, H3, H4 and
  `c1 * longestUndatedRun + c0 ≤ ATT`, and compares `applyToFile` with
  `Spec.sincePosition`.  Results: no mismatch with c1 = 1, c0 = 1 for
  (maxLen,nDates,H,EXP,ATT) = (12,2,2,3,3) [15.6M cases], (12,2,3,2,4) [9.1M],
  (11,3,2,3,5) [52M], and several smaller runs; with c1 = 1, c0 = 0 (ATT = run) mismatches
  appear at once (e.g. len 4, line feeds at 1 and 2, ts 3 = 1, ATT = 2: got 0, expected 3),
  so `longestUndatedRun + 1 ≤ ATT` is exactly what is needed.

import SkModel.Seeker
import SkModel.Spec.Lines
open Sk

def mkF (len : Nat) (mask : Nat) : FileV := ⟨len, fun i => i < len && mask.testBit i⟩

def mkTs (tab : Array (Option Int)) : Nat → Option Int := fun o => (tab[o]?).join

def tsShapeB (F : FileV) (tab : Array (Option Int)) : Bool :=
  (List.range tab.size).all fun o => match (tab[o]?).join with
    | some _ => o < F.len && !F.isLF o
    | none => true

def hypsB (K : SeekK) (F : FileV) (tab : Array (Option Int)) (c1 c0 : Nat) : Bool :=
  let ts := mkTs tab
  Spec.datedMonotone F ts && (c1 * Spec.longestUndatedRun F ts + c0 ≤ K.ATT) &&
  (Spec.longestLine F ≤ (K.EXP - 1) * K.H) && tsShapeB F tab

/-- enumerate all tables of length n with entries none/1..v at non-LF offsets -/
partial def tables (F : FileV) (v : Nat) (n : Nat) : List (Array (Option Int)) :=
  if n = 0 then [#[]] else
    let prev := tables F v (n - 1)
    let o := n - 1
    if F.isLF o then prev.map (·.push none)
    else prev.flatMap fun t => (t.push none) :: (List.range v).map fun d => t.push (some ((d : Int) + 1))

def showRes : Except SeekErr Nat → String
  | .ok n => s!"ok {n}"
  | .error e => s!"error {repr e}"

def main (args : List String) : IO Unit := do
  let maxLen := (args[0]? >>= String.toNat?).getD 6
  let v := (args[1]? >>= String.toNat?).getD 2
  let H := (args[2]? >>= String.toNat?).getD 2
  let EXP := (args[3]? >>= String.toNat?).getD 3
  let ATT := (args[4]? >>= String.toNat?).getD 4
  let c1 := (args[5]? >>= String.toNat?).getD 2
  let c0 := (args[6]? >>= String.toNat?).getD 4
  let K : SeekK := ⟨H, EXP, ATT⟩
  let mut total := 0
  let mut checked := 0
  let mut bad := 0
  for len in List.range (maxLen + 1) do
    for mask in List.range (2 ^ len) do
      let F := mkF len mask
      if Spec.longestLine F ≤ (K.EXP - 1) * K.H then
      for tab in tables F v len do
        total := total + 1
        if hypsB K F tab c1 c0 then
          let ts := mkTs tab
          for since in List.range (v + 2) do
            checked := checked + 1
            let r := applyToFile K F ts (since : Int)
            let e := Spec.sincePosition F ts (since : Int)
            match r with
            | .ok p =>
              if p ≠ e then
                bad := bad + 1
                if bad ≤ 20 then
                  IO.println s!"MISMATCH len={len} LFs={(List.range len).filter (F.isLF ·)} ts={tab} since={since}: got {showRes r} expected {e}"
            | .error _ =>
                bad := bad + 1
                if bad ≤ 20 then
                  IO.println s!"MISMATCH len={len} LFs={(List.range len).filter (F.isLF ·)} ts={tab} since={since}: got {showRes r} expected {e}"
  IO.println s!"K={H},{EXP},{ATT} c={c1},{c0} files={total} checked={checked} bad={bad}"
-/
