/-
  SkModel.Theorems.C14 — the retrieval methods of `SearchResultsCollection` are
  consistent views of one multiset of results.
-/
import SkModel.Proofs.CollLemmas

namespace Sk
open Coll14

/-- invariant of reachable collections: distinct paths, every result filed under its own
source, no empty entry -/
theorem C14_reach_inv (c : Coll) (hc : c.Reach) :
    (c.files).Nodup ∧ (∀ p ∈ c.items, ∀ r ∈ p.2, r.src = p.1) ∧ (∀ p ∈ c.items, p.2 ≠ []) :=
  let h := inv_of_reach c hc
  ⟨h.nodup, h.src, h.nonempty⟩

/-- reachable collections are closed under `add` -/
theorem C14_reach_add (c : Coll) (hc : c.Reach) (rs : List CRes) : (c.add rs).Reach :=
  reach_add c hc rs

theorem C14_reach_nil : Coll.Reach [] := ⟨[], rfl⟩

/-- 1. `add` keeps every result exactly once; per path the order of arrival is kept -/
theorem C14_add_multiset (batches : List (List CRes)) :
    ((batches.foldl Coll.add []).all).Perm batches.flatten ∧
    ∀ p, (batches.foldl Coll.add []).findByPath p
      = batches.flatten.filter (fun r => r.src == p) := by
  rw [foldl_add_eq]
  constructor
  · have := perm_gFold (·.src) ([] : Coll) batches.flatten (by simp)
    simpa [Coll.all] using this
  · intro p
    have := lookup_gFold (·.src) ([] : Coll) batches.flatten p
    simpa [Coll.findByPath] using this

/-- 2. `len` is the number of results -/
theorem C14_len (c : Coll) (hc : c.Reach) :
    c.len = c.all.length ∧ c.len = (c.items.map (·.2.length)).sum := by
  have hi := inv_of_reach c hc
  have h2 : c.len = (c.items.map (·.2.length)).sum := by
    unfold Coll.len Coll.files Coll.items
    rw [List.map_map]
    congr 1
    apply List.map_congr_left
    intro e he
    simp only [Function.comp]
    rw [findByPath_of_mem c hi.nodup e he]
  refine ⟨?_, h2⟩
  rw [h2]; unfold Coll.all Coll.items; rw [List.length_flatMap]

/-- 3. `all` and `items()` enumerate the same results; `items()` agrees with `find_by_path` -/
theorem C14_all_items (c : Coll) :
    c.all = c.items.flatMap (·.2) ∧
    ∀ p ∈ c.files, c.items.lookup p = some (c.findByPath p) :=
  ⟨rfl, lookup_of_mem_files c⟩

/-- in a reachable collection every `items()` entry is what `find_by_path` returns -/
theorem C14_items_findByPath (c : Coll) (hc : c.Reach) :
    ∀ e ∈ c.items, c.findByPath e.1 = e.2 :=
  findByPath_of_mem c (inv_of_reach c hc).nodup

theorem C14_unknown_path (c : Coll) (p : Nat) (h : p ∉ c.files) : c.findByPath p = [] :=
  findByPath_unknown c p h

/-- 4. lookups by tag return exactly the results carrying the tag -/
theorem C14_find_by_tag (c : Coll) (hc : c.Reach) (tag : String) :
    c.findByTag tag none = c.all.filter (fun r => r.tag == some tag) ∧
    ∀ p, c.findByTag tag (some p) = (c.findByPath p).filter (fun r => r.tag == some tag) := by
  constructor
  · unfold Coll.findByTag
    simp only
    rw [files_flatMap c (inv_of_reach c hc).nodup
      (fun l => l.filter (fun r => r.tag == some tag))]
    unfold Coll.all
    rw [List.filter_flatMap]
  · intro p
    simp [Coll.findByTag]

theorem C14_find_by_tag_unknown (c : Coll) (tag : String) (p : Nat) (h : p ∉ c.files) :
    c.findByTag tag (some p) = [] := by
  simp [Coll.findByTag, findByPath_unknown c p h]

/-- the sequence results are the results owned by a sequence definition -/
theorem C14_allSeq (c : Coll) (hc : c.Reach) :
    c.allSeq none = c.all.filter (fun r => r.seqId.isSome) ∧
    ∀ p, c.allSeq (some p) = (c.findByPath p).filter (fun r => r.seqId.isSome) := by
  constructor
  · unfold Coll.allSeq
    simp only
    rw [files_flatMap c (inv_of_reach c hc).nodup (fun l => l.filter (fun r => r.seqId.isSome))]
    unfold Coll.all
    rw [List.filter_flatMap]
  · intro p
    simp [Coll.allSeq]

/-- 5. `find_sequence_sections` partitions the matching sequence results into sections -/
theorem C14_sections_partition (c : Coll) (id : Nat) (path : Option Nat) :
    let S := c.findSeqSections id path
    let R := (c.allSeq path).filter (fun r => r.seqId == some id)
    (S.map (·.1)).Nodup ∧
    (S.flatMap (·.2)).Perm R ∧
    (∀ k rs, (k, rs) ∈ S → rs = R.filter (fun r => r.sec == k) ∧ rs ≠ []) ∧
    (∀ k rs, (k, rs) ∈ S → ∀ r ∈ rs, r.seqId = some id ∧ r.sec = k ∧ r ∈ c.all) := by
  intro S R
  refine ⟨sec_keys_nodup c id path, ?_, ?_, ?_⟩
  · have := perm_gFold (·.sec) ([] : Secs) R (by simp)
    simp only [List.flatMap_nil, List.nil_append] at this
    exact this
  · intro k rs h
    obtain ⟨h1, h2, _⟩ := sec_entry c id path k rs h
    exact ⟨h1, h2⟩
  · intro k rs h r hr
    obtain ⟨_, _, h3⟩ := sec_entry c id path k rs h
    obtain ⟨a, b, d⟩ := h3 r hr
    exact ⟨b, d, a⟩

/-- 6. `find_sequence_by_tag` partitions the results of all definitions of the tag -/
theorem C14_by_tag_partition (c : Coll) (ids : List Nat) (path : Option Nat)
    (hsec : ∀ r1 ∈ c.all, ∀ r2 ∈ c.all, r1.seqId.isSome → r2.seqId.isSome →
      r1.sec = r2.sec → r1.src = r2.src ∧ r1.seqId = r2.seqId)
    (hids : ids.Nodup) :
    let T := c.findSeqByTag ids path
    (T.map (·.1)).Nodup ∧
    (T.flatMap (·.2)).Perm
      ((c.allSeq path).filter (fun r => ids.any (fun id => r.seqId == some id))) ∧
    (∀ k rs, (k, rs) ∈ T →
      (∀ r1 ∈ rs, ∀ r2 ∈ rs, r1.src = r2.src ∧ r1.seqId = r2.seqId) ∧ rs ≠ []) ∧
    T = ids.flatMap (fun id => c.findSeqSections id path) := by
  intro T
  have hT : T = ids.flatMap (fun id => c.findSeqSections id path) :=
    findSeqByTag_concat c ids path hsec hids
  refine ⟨findSeqByTag_keys_nodup c ids path, ?_, ?_, hT⟩
  · rw [hT, List.flatMap_assoc]
    refine (perm_flatMap_left ids _
      (fun id => (c.allSeq path).filter (fun r => r.seqId == some id)) ?_).trans
      (perm_filter_any (c.allSeq path) ids hids)
    intro id _
    exact (C14_sections_partition c id path).2.1
  · intro k rs h
    rw [hT] at h
    obtain ⟨id, _, hm⟩ := List.mem_flatMap.1 h
    obtain ⟨_, hne, hall⟩ := sec_entry c id path k rs hm
    refine ⟨?_, hne⟩
    intro r1 h1 r2 h2
    obtain ⟨a1, s1, c1⟩ := hall r1 h1
    obtain ⟨a2, s2, c2⟩ := hall r2 h2
    exact hsec r1 a1 r2 a2 (by rw [s1]; rfl) (by rw [s2]; rfl) (by rw [c1, c2])

/-! ### 7. non-vacuity: two paths, two definitions (ids 5, 6) sharing a tag, a simple
result in between, three sections -/

namespace C14Ex

def r1 : CRes := ⟨1, 1, some "t", some 5, some 10⟩
def r2 : CRes := ⟨2, 1, some "t", some 5, some 10⟩
def r3 : CRes := ⟨3, 1, some "x", none, none⟩          -- simple result
def r4 : CRes := ⟨4, 2, some "t", some 6, some 20⟩
def r5 : CRes := ⟨5, 1, some "t", some 5, some 11⟩
def r6 : CRes := ⟨6, 2, some "t", some 6, some 20⟩

def coll : Coll := [[r1, r2, r3], [r4, r5, r6]].foldl Coll.add []

theorem coll_reach : coll.Reach := ⟨_, rfl⟩

example : coll.items = [(1, [r1, r2, r3, r5]), (2, [r4, r6])] := by decide

example : coll.findSeqByTag [5, 6] none
    = [(some 10, [r1, r2]), (some 11, [r5]), (some 20, [r4, r6])] := by decide

example : coll.findSeqByTag [5, 6] (some 2) = [(some 20, [r4, r6])] := by decide

example : coll.findSeqSections 5 none = [(some 10, [r1, r2]), (some 11, [r5])] := by decide

example : coll.findByTag "t" none = [r1, r2, r5, r4, r6] ∧ coll.len = 6 := by decide

/-- the uniqueness hypothesis of `C14_by_tag_partition` is satisfiable -/
example : ∀ r1 ∈ coll.all, ∀ r2 ∈ coll.all, r1.seqId.isSome → r2.seqId.isSome →
    r1.sec = r2.sec → r1.src = r2.src ∧ r1.seqId = r2.seqId := by decide

end C14Ex

end Sk

#print axioms Sk.C14_reach_inv
#print axioms Sk.C14_reach_add
#print axioms Sk.C14_reach_nil
#print axioms Sk.C14_add_multiset
#print axioms Sk.C14_len
#print axioms Sk.C14_all_items
#print axioms Sk.C14_items_findByPath
#print axioms Sk.C14_unknown_path
#print axioms Sk.C14_find_by_tag
#print axioms Sk.C14_find_by_tag_unknown
#print axioms Sk.C14_allSeq
#print axioms Sk.C14_sections_partition
#print axioms Sk.C14_by_tag_partition
#print axioms Sk.C14Ex.coll_reach
