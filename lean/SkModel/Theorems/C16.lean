/-
  SkModel.Theorems.C16 — the `since` constraint: a line passes exactly when its timestamp is
  at or after `current_date - window` on the (proleptic Gregorian) time line, lines with no
  timestamp are undecided, and the pass/fail counters count decided lines.
-/
import SkModel.Since
import SkModel.Proofs.Calendar

namespace Sk
open Sk.Cal

/-- On valid date-times, `datetime.__lt__` (lexicographic) is the order of the time line. -/
theorem civil_order (a b : Civil) (ha : a.valid = true) (hb : b.valid = true) :
    a.lt b = true ↔ a.toSeconds < b.toSeconds := by
  constructor
  · exact lt_toSeconds a b ha hb
  · intro h
    rcases lt_trichotomy a b with h1 | h1 | h1
    · exact h1
    · subst h1; omega
    · have := lt_toSeconds b a hb ha h1; omega

/-- Distinct valid date-times are distinct instants. -/
theorem civil_toSeconds_inj (a b : Civil) (ha : a.valid = true) (hb : b.valid = true)
    (h : a.toSeconds = b.toSeconds) : a = b := by
  rcases lt_trichotomy a b with h1 | h1 | h1
  · have := lt_toSeconds a b ha hb h1; omega
  · exact h1
  · have := lt_toSeconds b a hb ha h1; omega

/-- The window: `days` if non-zero, otherwise `hours`. -/
theorem C16_window (days hours : Int) :
    windowSeconds days hours = if days ≠ 0 then days * 86400 else hours * 3600 := rfl

/-- The default window (`days = 0`, `hours = 24`) is 24 hours. -/
theorem C16_default_24h : windowSeconds 0 24 = 86400 := by decide

/-- C16: a line passes iff its timestamp is at or after `current_date - window`;
    the boundary instant itself passes. -/
theorem C16_pass_iff (cur ts since : Civil) (hc : cur.valid = true) (ht : ts.valid = true)
    (hs : since.valid = true) (days hours : Int)
    (hsince : since.toSeconds = cur.toSeconds - windowSeconds days hours) :
    applyToLine since (some ts) =
      if cur.toSeconds - windowSeconds days hours ≤ ts.toSeconds then COut.pass else COut.fail := by
  have _ := hc
  have ho := civil_order ts since ht hs
  simp only [applyToLine]
  by_cases hlt : ts.lt since = true
  · have h1 := ho.mp hlt
    rw [if_pos hlt, if_neg (by omega)]
  · have hn : ¬ ts.toSeconds < since.toSeconds := fun h => hlt (ho.mpr h)
    rw [if_neg hlt, if_pos (by omega)]

/-- A line without a timestamp is undecided. -/
theorem C16_undecidable (since : Civil) : applyToLine since none = .undec := rfl

theorem applyMany_cons (since : Civil) (st : SinceStats) (t : Option Civil)
    (ts : List (Option Civil)) :
    applyMany since st (t :: ts) =
      ((applyMany since (applyCount since st t).1 ts).1,
        (applyCount since st t).2 :: (applyMany since (applyCount since st t).1 ts).2) := rfl

theorem applyCount_snd (since : Civil) (st : SinceStats) (t : Option Civil) :
    (applyCount since st t).2 = applyToLine since t := by
  unfold applyCount; cases applyToLine since t <;> rfl

theorem applyMany_spec (since : Civil) (st : SinceStats) (lines : List (Option Civil)) :
    (applyMany since st lines).1.pass =
        st.pass + ((applyMany since st lines).2.filter (· == COut.pass)).length ∧
    (applyMany since st lines).1.fail =
        st.fail + ((applyMany since st lines).2.filter (· == COut.fail)).length ∧
    (applyMany since st lines).2 = lines.map (applyToLine since) ∧
    ((applyMany since st lines).1.pass + (applyMany since st lines).1.fail) =
        st.pass + st.fail + (lines.filter Option.isSome).length := by
  induction lines generalizing st with
  | nil => simp [applyMany]
  | cons t ts ih =>
    obtain ⟨h1, h2, h3, h4⟩ := ih (applyCount since st t).1
    rw [applyMany_cons]
    refine ⟨?_, ?_, ?_, ?_⟩
    · rw [h1]
      cases t with
      | none => simp [applyCount, applyToLine]
      | some c =>
        by_cases hlt : c.lt since = true <;> simp [applyCount, applyToLine, hlt] <;> omega
    · rw [h2]
      cases t with
      | none => simp [applyCount, applyToLine]
      | some c =>
        by_cases hlt : c.lt since = true <;> simp [applyCount, applyToLine, hlt] <;> omega
    · simp only [List.map_cons, h3, applyCount_snd]
    · rw [h4]
      cases t with
      | none => simp [applyCount, applyToLine]
      | some c =>
        by_cases hlt : c.lt since = true <;> simp [applyCount, applyToLine, hlt] <;> omega

/-- Counters: `pass` counts passing lines, `fail` failing ones, `pass + fail` decided lines. -/
theorem C16_counters (since : Civil) (st : SinceStats) (lines : List (Option Civil)) :
    let r := applyMany since st lines
    r.1.pass = st.pass + (r.2.filter (· == COut.pass)).length ∧
    r.1.fail = st.fail + (r.2.filter (· == COut.fail)).length ∧
    r.2 = lines.map (applyToLine since) ∧
    (r.1.pass + r.1.fail) = st.pass + st.fail + (lines.filter Option.isSome).length :=
  applyMany_spec since st lines

/-! ### Non-vacuity: concrete instants (all by kernel evaluation) -/

-- the hypotheses of `C16_pass_iff` are satisfiable: default 24 h window across a leap day
example : (⟨2024,3,1,0,0,0⟩ : Civil).valid = true ∧ (⟨2024,2,29,0,0,0⟩ : Civil).valid = true ∧
    (⟨2024,2,29,0,0,0⟩ : Civil).toSeconds =
      (⟨2024,3,1,0,0,0⟩ : Civil).toSeconds - windowSeconds 0 24 := by decide
-- the boundary instant passes, one second before fails
example : applyToLine ⟨2024,2,29,0,0,0⟩ (some ⟨2024,2,29,0,0,0⟩) = .pass := by decide
example : applyToLine ⟨2024,2,29,0,0,0⟩ (some ⟨2024,2,28,23,59,59⟩) = .fail := by decide
example : applyToLine ⟨2024,2,29,0,0,0⟩ (some ⟨2024,2,29,0,0,1⟩) = .pass := by decide
example : (⟨2024,2,29,0,0,0⟩ : Civil).toSeconds - (⟨2024,2,28,23,59,59⟩ : Civil).toSeconds = 1 := by
  decide
-- `days` takes precedence over `hours`; a 2-day window from 2024-03-01 reaches 2024-02-28
example : windowSeconds 2 7 = 2 * 86400 := by decide
example : (⟨2024,2,28,0,0,0⟩ : Civil).toSeconds =
    (⟨2024,3,1,0,0,0⟩ : Civil).toSeconds - windowSeconds 2 0 := by decide
-- leap day: 2024 has Feb 29, 2023 and 1900 do not, 2000 does
example : (⟨2024,3,1,0,0,0⟩ : Civil).toSeconds - (⟨2024,2,28,0,0,0⟩ : Civil).toSeconds
    = 2 * 86400 := by decide
example : (⟨2023,3,1,0,0,0⟩ : Civil).toSeconds - (⟨2023,2,28,0,0,0⟩ : Civil).toSeconds
    = 86400 := by decide
example : (⟨1900,3,1,0,0,0⟩ : Civil).toSeconds - (⟨1900,2,28,0,0,0⟩ : Civil).toSeconds
    = 86400 := by decide
example : (⟨2000,3,1,0,0,0⟩ : Civil).toSeconds - (⟨2000,2,28,0,0,0⟩ : Civil).toSeconds
    = 2 * 86400 := by decide
example : (⟨2024,2,29,0,0,0⟩ : Civil).valid = true ∧ (⟨2023,2,29,0,0,0⟩ : Civil).valid = false ∧
    (⟨1900,2,29,0,0,0⟩ : Civil).valid = false ∧ (⟨2000,2,29,0,0,0⟩ : Civil).valid = true := by
  decide
example : isLeap 1900 = false ∧ isLeap 2000 = true ∧ isLeap 2024 = true ∧ isLeap 2023 = false := by
  decide
-- year boundary: 2023-12-31 23:59:59 is one second before 2024-01-01 00:00:00
example : (⟨2024,1,1,0,0,0⟩ : Civil).toSeconds - (⟨2023,12,31,23,59,59⟩ : Civil).toSeconds = 1 := by
  decide
example : (⟨2023,12,31,23,59,59⟩ : Civil).lt ⟨2024,1,1,0,0,0⟩ = true := by decide
example : applyToLine ⟨2024,1,1,0,0,0⟩ (some ⟨2023,12,31,23,59,59⟩) = .fail := by decide
example : applyToLine ⟨2024,1,1,0,0,0⟩ (some ⟨2024,1,1,0,0,0⟩) = .pass := by decide
-- Python anchors: date(1,1,1).toordinal() = 1, date(2024,2,29).toordinal() = 738945,
-- date(9999,12,31).toordinal() = 3652059
example : (⟨1,1,1,0,0,0⟩ : Civil).ordinal = 1 ∧ (⟨2024,2,29,0,0,0⟩ : Civil).ordinal = 738945 ∧
    (⟨9999,12,31,0,0,0⟩ : Civil).ordinal = 3652059 := by decide
-- counters on a concrete run: one pass, one fail, one undecided
example : applyMany ⟨2024,2,29,0,0,0⟩ {} [some ⟨2024,2,29,0,0,0⟩, none, some ⟨2024,2,28,23,59,59⟩]
    = ({ pass := 1, fail := 1 }, [.pass, .undec, .fail]) := by decide
-- outside validity the lexicographic order and the time line can disagree (so `valid` is needed)
example : (⟨2024,1,40,0,0,0⟩ : Civil).lt ⟨2024,2,1,0,0,0⟩ = true ∧
    ¬ (⟨2024,1,40,0,0,0⟩ : Civil).toSeconds < (⟨2024,2,1,0,0,0⟩ : Civil).toSeconds := by decide

end Sk

#print axioms Sk.civil_order
#print axioms Sk.civil_toSeconds_inj
#print axioms Sk.C16_window
#print axioms Sk.C16_default_24h
#print axioms Sk.C16_pass_iff
#print axioms Sk.C16_undecidable
#print axioms Sk.C16_counters
#print axioms Sk.applyMany_cons
#print axioms Sk.applyCount_snd
#print axioms Sk.applyMany_spec
