/-
  C05 — round trip of the index encoding of search results (`SearchResult._save_part`,
  `metadata`, `export` → `SearchResultMinimal`; read side `_get_store_id`, `get`,
  `__iter__`, `__getattr__`, `tag`, `sequence_id`; model: `SkModel.Encode`) through the
  de-duplicating store (`SkModel.Store`, C15).

  Every value read back from an exported result — by group index, by field name or by
  iteration — equals the value captured; unmatched optional groups read back as `none`;
  tag and sequence id are those of the search that produced the result.  This holds
  against *any later* state of the store, from *any reachable* start store, whatever
  values / tags / sequence ids coincide textually and wherever the index blocks roll over.

  Standing hypotheses: block size `0 < B`; the blocks `[sup k, sup k + B)` granted to
  this store are pairwise disjoint; the start store is reachable.
-/
import SkModel.Proofs.EncodeLemmas

namespace Sk
open Enc

variable {B : Nat} {pre : Bool} {sup : Nat → Nat}

/-! ### 1. round trip -/

theorem C05_roundtrip (hB : 0 < B)
    (hsup : ∀ i j, i ≠ j → sup i + B ≤ sup j ∨ sup j + B ≤ sup i)
    {st : Store} (hr : Store.Reach B pre sup st) (seqVal : Nat → Val)
    (rs : List Res) (st' : Store) (es : List ERes)
    (h : encodeAll st sup seqVal rs = .ok (st', es))
    (st'' : Store) (ops : List (Option Val × Option Val × Option Val))
    (rs' : List (Option Nat × Option Nat × Option Nat))
    (hext : st'.addAll sup ops = .ok (st'', rs')) :
    es.length = rs.length ∧
    ∀ k (hk : k < rs.length) (hk' : k < es.length),
      let r := rs[k]; let e := es[k]
      e.ln = r.ln ∧ e.sec = r.sec ∧ e.fields = r.fields ∧
      (∀ i, e.getIdx st'' i = r.getIdx i) ∧
      (∀ nm, e.getName st'' nm = r.getName nm) ∧
      e.iter st'' = r.iter ∧
      e.tag st'' = r.tag ∧
      e.seqId st'' = r.seqId.map seqVal := by
  obtain ⟨hr', -, hrel⟩ := encodeAll_spec hB hsup seqVal rs hr h
  have hx : Ext st' st'' := (C15_append_only_addAll hB hsup hr' hext).1
  have hrel' := hrel.imp (fun _ _ => ResRel.mono hx)
  refine ⟨hrel'.length_eq.symm, fun k hk hk' => ?_⟩
  exact (hrel'.get k hk hk').readback

/-- the special case "no later additions": read back through the store as it is right
    after the export -/
theorem C05_roundtrip_now (hB : 0 < B)
    (hsup : ∀ i j, i ≠ j → sup i + B ≤ sup j ∨ sup j + B ≤ sup i)
    {st : Store} (hr : Store.Reach B pre sup st) (seqVal : Nat → Val)
    (rs : List Res) (st' : Store) (es : List ERes)
    (h : encodeAll st sup seqVal rs = .ok (st', es)) :
    es.length = rs.length ∧
    ∀ k (hk : k < rs.length) (hk' : k < es.length),
      let r := rs[k]; let e := es[k]
      e.ln = r.ln ∧ e.sec = r.sec ∧ e.fields = r.fields ∧
      (∀ i, e.getIdx st' i = r.getIdx i) ∧
      (∀ nm, e.getName st' nm = r.getName nm) ∧
      e.iter st' = r.iter ∧
      e.tag st' = r.tag ∧
      e.seqId st' = r.seqId.map seqVal :=
  C05_roundtrip hB hsup hr seqVal rs st' es h st' [] [] rfl

/-- results exported by an *earlier* `encodeAll` stay readable after a later one on the
    same store (two batches of results sharing one store) -/
theorem C05_roundtrip_two_batches (hB : 0 < B)
    (hsup : ∀ i j, i ≠ j → sup i + B ≤ sup j ∨ sup j + B ≤ sup i)
    {st : Store} (hr : Store.Reach B pre sup st) (seqVal : Nat → Val)
    (rs₁ rs₂ : List Res) (st₁ st₂ : Store) (es₁ es₂ : List ERes)
    (h₁ : encodeAll st sup seqVal rs₁ = .ok (st₁, es₁))
    (h₂ : encodeAll st₁ sup seqVal rs₂ = .ok (st₂, es₂)) :
    es₁.length = rs₁.length ∧
    ∀ k (hk : k < rs₁.length) (hk' : k < es₁.length),
      let r := rs₁[k]; let e := es₁[k]
      (∀ i, e.getIdx st₂ i = r.getIdx i) ∧
      (∀ nm, e.getName st₂ nm = r.getName nm) ∧
      e.iter st₂ = r.iter ∧
      e.tag st₂ = r.tag ∧
      e.seqId st₂ = r.seqId.map seqVal := by
  obtain ⟨hr₁, -, hrel⟩ := encodeAll_spec hB hsup seqVal rs₁ hr h₁
  obtain ⟨-, hx, -⟩ := encodeAll_spec hB hsup seqVal rs₂ hr₁ h₂
  have hrel' := hrel.imp (fun _ _ => ResRel.mono hx)
  refine ⟨hrel'.length_eq.symm, fun k hk hk' => ?_⟩
  obtain ⟨-, -, -, h4⟩ := (hrel'.get k hk hk').readback
  exact h4

/-! ### 2. encoding never fails, and leaves a reachable store -/

theorem C05_encode_total (hB : 0 < B)
    (hsup : ∀ i j, i ≠ j → sup i + B ≤ sup j ∨ sup j + B ≤ sup i)
    {st : Store} (hr : Store.Reach B pre sup st) (seqVal : Nat → Val) (rs : List Res) :
    ∃ st' es, encodeAll st sup seqVal rs = .ok (st', es) ∧ Store.Reach B pre sup st' := by
  obtain ⟨st', es, h⟩ := encodeAll_total hB hsup seqVal rs hr
  exact ⟨st', es, h, (encodeAll_spec hB hsup seqVal rs hr h).1⟩

/-! ### 3. unmatched optional groups -/

/-- A part without a value is exported without a store index, so it reads back as `none`
    from every store; a part with a value `x` is exported with an index that resolves to
    `x` in the store after the encoding. Positions, group indices and names are kept. -/
theorem C05_none_is_none (hB : 0 < B)
    (hsup : ∀ i j, i ≠ j → sup i + B ≤ sup j ∨ sup j + B ≤ sup i)
    {st : Store} (hr : Store.Reach B pre sup st) (tag seq : Option Val)
    (ps : List Part) (st' : Store) (es : List EPart)
    (h : encodeParts st sup tag seq ps = .ok (st', es)) :
    es.length = ps.length ∧
    ∀ k (hk : k < ps.length) (hk' : k < es.length),
      es[k].idx = ps[k].idx ∧ es[k].name = ps[k].name ∧
      (ps[k].val = none →
        es[k].sid = none ∧ ∀ st'' : Store, es[k].sid.bind st''.get = none) ∧
      (∀ x, ps[k].val = some x → ∃ i, es[k].sid = some i ∧ st'.get i = some x) := by
  obtain ⟨-, -, hrel⟩ := encodeParts_spec hB hsup tag seq ps hr h
  refine ⟨hrel.length_eq.symm, fun k hk hk' => ?_⟩
  obtain ⟨h1, h2, h3⟩ := hrel.get k hk hk'
  refine ⟨h1, h2, fun hn => ?_, h3.2⟩
  have := h3.1 hn
  exact ⟨this, fun st'' => by rw [this]; rfl⟩

/-- iteration yields `none` exactly at the unmatched positions, in any later store -/
theorem C05_iter_none (hB : 0 < B)
    (hsup : ∀ i j, i ≠ j → sup i + B ≤ sup j ∨ sup j + B ≤ sup i)
    {st : Store} (hr : Store.Reach B pre sup st) (seqVal : Nat → Val)
    (r : Res) (st' : Store) (e : ERes)
    (h : encodeRes st sup r (r.seqId.map seqVal) = .ok (st', e))
    (st'' : Store) (ops : List (Option Val × Option Val × Option Val))
    (rs' : List (Option Nat × Option Nat × Option Nat))
    (hext : st'.addAll sup ops = .ok (st'', rs')) :
    (e.iter st'').length = r.parts.length ∧
    ∀ k (hk : k < r.parts.length) (hk' : k < (e.iter st'').length),
      (e.iter st'')[k] = r.parts[k].val := by
  obtain ⟨hr', -, hrel⟩ := encodeRes_spec hB hsup seqVal hr h
  have hx : Ext st' st'' := (C15_append_only_addAll hB hsup hr' hext).1
  have hit : e.iter st'' = r.iter := (hrel.mono hx).readback.2.2.2.2.2.1
  refine ⟨by rw [hit]; simp [Res.iter], fun k hk hk' => ?_⟩
  simp [hit, Res.iter]

/-! ### 4. non-vacuity: B = 2, blocks [0,2), [10,12), [20,22), …; two results:
    the first has tag "t" and captures the value "t" (its own tag text) in the named
    group 1, nothing in the optional group 2, "x" in the named group 3; the second
    belongs to sequence 7 whose stored id is the text "x" (equal to a captured value),
    captures "x" again, "u" (its own tag text) and "y". -/

def C05_demo_sup : Nat → Nat := fun k => 10 * k
def C05_demo_seqVal : Nat → Val := fun _ => "x"

def C05_demo_rs : List Res :=
  [ { src := 0, ln := 3, tag := some "t", seqId := none, sec := none,
      parts := [⟨1, some "t", some "a"⟩, ⟨2, none, none⟩, ⟨3, some "x", some "c"⟩],
      fields := some ["a", "b", "c"] },
    { src := 1, ln := 5, tag := some "u", seqId := some 7, sec := some (7, 0),
      parts := [⟨1, some "x", none⟩, ⟨2, some "u", none⟩, ⟨3, some "y", none⟩],
      fields := none } ]

def C05_demo := encodeAll { B := 2, pre := true } C05_demo_sup C05_demo_seqVal C05_demo_rs

/-- iteration, tag and sequence id read back through the final store (after both encodes) -/
example : C05_demo.toOption.map (fun r => r.2.map (fun e => e.iter r.1)) =
    some [[some "t", none, some "x"], [some "x", some "u", some "y"]] := by decide

example : C05_demo.toOption.map (fun r => r.2.map (fun e => (e.tag r.1, e.seqId r.1))) =
    some [(some "t", none), (some "u", some "x")] := by decide

/-- `get(1)`, `get(2)`, `get(3)`: the unmatched group 2 of the first result reads `none` -/
example : C05_demo.toOption.map (fun r => r.2.map (fun e =>
      (e.getIdx r.1 1, e.getIdx r.1 2, e.getIdx r.1 3))) =
    some [(some "t", none, some "x"), (some "x", some "u", some "y")] := by decide

/-- `get("a")`, `get("b")`, `get("c")` -/
example : C05_demo.toOption.map (fun r => r.2.map (fun e =>
      (e.getName r.1 "a", e.getName r.1 "b", e.getName r.1 "c"))) =
    some [(some "t", none, some "x"), (none, none, none)] := by decide

/-- … which is exactly what the direct read side gives on the captured results -/
example : C05_demo.toOption.map (fun r => r.2.map (fun e => e.iter r.1)) =
    some (C05_demo_rs.map (·.iter)) := by decide

example : C05_demo.toOption.map (fun r => r.2.map (fun e => (e.tag r.1, e.seqId r.1))) =
    some (C05_demo_rs.map fun r => (r.tag, r.seqId.map C05_demo_seqVal)) := by decide

example : C05_demo.toOption.map (fun r => r.2.map (fun e =>
      (e.getIdx r.1 1, e.getIdx r.1 2, e.getIdx r.1 3))) =
    some (C05_demo_rs.map fun r => (r.getIdx 1, r.getIdx 2, r.getIdx 3)) := by decide

example : C05_demo.toOption.map (fun r => r.2.map (fun e =>
      (e.getName r.1 "a", e.getName r.1 "b", e.getName r.1 "c"))) =
    some (C05_demo_rs.map fun r => (r.getName "a", r.getName "b", r.getName "c")) := by decide

/-- the store: "t" (value and tag of result 0) is stored once, at index 0; "x" (a value in
    both results and the sequence id of the second) once, at index 1; "u" (value and tag of
    result 1) once, at index 10; the block [0,2) rolled over to [10,12). -/
example : C05_demo.toOption.map (fun r => (r.1.data, r.1.nblocks, r.1.alloc)) =
    some ([(0, "t"), (1, "x"), (10, "u"), (11, "y")], 2, some 10) := by decide

/-- the exported indices: the unmatched group has none -/
example : C05_demo.toOption.map (fun r => r.2.map (fun e => e.parts.map (·.sid))) =
    some [[some 0, none, some 1], [some 1, some 10, some 11]] := by decide

example : C05_demo.toOption.map (fun r => r.2.map (fun e => (e.tagIdx, e.seqIdx))) =
    some [(some 0, none), (some 10, some 1)] := by decide

/-- the hypotheses of the theorems are satisfied by the demo -/
example : ∀ i j : Nat, i ≠ j → C05_demo_sup i + 2 ≤ C05_demo_sup j ∨
    C05_demo_sup j + 2 ≤ C05_demo_sup i := by
  intro i j h; simp only [C05_demo_sup]; omega

example : ∃ st' es, C05_demo = .ok (st', es) ∧ Store.Reach 2 true C05_demo_sup st' :=
  C05_encode_total (by decide) (by intro i j h; simp only [C05_demo_sup]; omega)
    (Store.Reach.init 2 true C05_demo_sup) C05_demo_seqVal C05_demo_rs

end Sk

#print axioms Sk.C05_roundtrip
#print axioms Sk.C05_roundtrip_now
#print axioms Sk.C05_roundtrip_two_batches
#print axioms Sk.C05_encode_total
#print axioms Sk.C05_none_is_none
#print axioms Sk.C05_iter_none
