/-
  SkModel.Theorems.C11 — the seeker's line lookup is exact.

  `findTokenReverse` / `findToken` (the chunked scans for a line feed, `SEEK_HORIZON`
  bytes at a time, at most `MAX_SEEK_HORIZON_EXPAND` chunks) return exactly the line feed
  the declarative specification names, or refuse with the max-line-length error — never
  a wrong offset; `tryFindLine` returns exactly the line containing the offset whenever
  that line is at most `(EXP - 1) * H` bytes long, and for longer lines is exact or
  refuses (no assertion failure).  For all files, offsets and constants.
-/
import SkModel.Proofs.SeekL1

namespace Sk
open Sk.SeekL1

/-- 1. the backward scan is exact -/
theorem ftr_exact (K : SeekK) (hH : 0 < K.H) (hE : 0 < K.EXP) (F : FileV) (s : Nat)
    (hs : s ≤ F.len) :
    findTokenReverse K F s =
      match Spec.lastLFBefore F s with
      | some i => if s - i ≤ K.EXP * K.H then .ok (.found i) else .error .maxLineLen
      | none   => if s ≤ (K.EXP - 1) * K.H then .ok (.edge 0) else .error .maxLineLen := by
  unfold findTokenReverse
  rw [ftrLoop_eq K hH F s K.EXP s (-(K.H : Int)) hs (by omega), lastLFBefore_eq]
  unfold ftrR
  obtain ⟨e, he⟩ : ∃ e, K.EXP = e + 1 := ⟨K.EXP - 1, by omega⟩
  have hmul : (e + 1) * K.H = e * K.H + K.H := Nat.succ_mul _ _
  rw [he, Nat.add_sub_cancel, hmul]
  cases rfindLF F 0 s with
  | some i => rfl
  | none =>
    simp only []
    by_cases hc : s ≤ e * K.H
    · have : s + K.H ≤ e * K.H + K.H := by omega
      simp only [hc, this, if_true]
    · have : ¬ (s + K.H ≤ e * K.H + K.H) := by omega
      simp only [hc, this, if_false]

/-- 2. the forward scan is exact -/
theorem ft_exact (K : SeekK) (hH : 0 < K.H) (hE : 0 < K.EXP) (F : FileV) (s : Nat)
    (hs : s ≤ F.len) :
    findToken K F s =
      match Spec.firstLFFrom F s (F.len - s) with
      | some j => if j - s < K.EXP * K.H then .ok (.found j) else .error .maxLineLen
      | none   =>
        if F.len - s ≤ (K.EXP - 1) * K.H then .ok (.edge F.len) else .error .maxLineLen := by
  unfold findToken
  rw [ftLoop_eq K hH F K.EXP s (F.len - s) (by omega), firstLFFrom_eq]
  unfold ftR
  obtain ⟨e, he⟩ : ∃ e, K.EXP = e + 1 := ⟨K.EXP - 1, by omega⟩
  have hmul : (e + 1) * K.H = e * K.H + K.H := Nat.succ_mul _ _
  rw [he, Nat.add_sub_cancel, hmul]
  cases findLF F s (F.len - s) with
  | some j => rfl
  | none =>
    simp only []
    by_cases hc : F.len - s ≤ e * K.H
    · have : F.len - s + K.H ≤ e * K.H + K.H := by omega
      simp only [hc, this, if_true]
    · have : ¬ (F.len - s + K.H ≤ e * K.H + K.H) := by omega
      simp only [hc, this, if_false]

/-! ### 5. soundness of the scans for any start offset -/

theorem ftr_found_sound (K : SeekK) (F : FileV) (s : Nat) (i : Int)
    (h : findTokenReverse K F s = .ok (.found i)) :
    ∃ n : Nat, i = n ∧ n < s ∧ n < F.len ∧ F.isLF n = true :=
  ftrLoop_found K F s K.EXP _ (Int.le_refl _) h

theorem ftr_found_sound_nat (K : SeekK) (F : FileV) (s i : Nat)
    (h : findTokenReverse K F s = .ok (.found i)) :
    i < s ∧ i < F.len ∧ F.isLF i = true := by
  obtain ⟨n, h1, h2⟩ := ftr_found_sound K F s i h
  have : i = n := by omega
  subst this; exact h2

theorem ftr_edge_sound (K : SeekK) (F : FileV) (s : Nat) (e : Int)
    (h : findTokenReverse K F s = .ok (.edge e)) : e = 0 :=
  ftrLoop_edge K F s K.EXP _ h

theorem ft_found_sound (K : SeekK) (F : FileV) (s : Nat) (j : Int)
    (h : findToken K F s = .ok (.found j)) :
    ∃ n : Nat, j = n ∧ s ≤ n ∧ n < F.len ∧ F.isLF n = true :=
  ftLoop_found K F K.EXP s h

theorem ft_found_sound_nat (K : SeekK) (F : FileV) (s j : Nat)
    (h : findToken K F s = .ok (.found j)) :
    s ≤ j ∧ j < F.len ∧ F.isLF j = true := by
  obtain ⟨n, h1, h2⟩ := ft_found_sound K F s j h
  have : j = n := by omega
  subst this; exact h2

theorem ft_edge_sound (K : SeekK) (F : FileV) (s : Nat) (e : Int)
    (h : findToken K F s = .ok (.edge e)) : e = F.len :=
  ftLoop_edge K F K.EXP s h

/-- the scans only ever fail with the max-line-length error -/
theorem ftr_error (K : SeekK) (hH : 0 < K.H) (hE : 0 < K.EXP) (F : FileV) (s : Nat)
    (hs : s ≤ F.len) (e : SeekErr) (h : findTokenReverse K F s = .error e) :
    e = .maxLineLen := by
  rw [ftr_exact K hH hE F s hs] at h
  split at h <;> split at h <;> cases h <;> rfl

theorem ft_error (K : SeekK) (hH : 0 < K.H) (hE : 0 < K.EXP) (F : FileV) (s : Nat)
    (hs : s ≤ F.len) (e : SeekErr) (h : findToken K F s = .error e) :
    e = .maxLineLen := by
  rw [ft_exact K hH hE F s hs] at h
  split at h <;> split at h <;> cases h <;> rfl

namespace SeekL1

/-! ### `tryFindLine` -/

theorem tryFindLine_err1 (K : SeekK) (F : FileV) (o : Nat) (e : SeekErr)
    (h : findToken K F o = .error e) : tryFindLine K F o none none = .error e := by
  unfold tryFindLine
  simp only [h]
  rfl

theorem tryFindLine_err2 (K : SeekK) (F : FileV) (o : Nat) (elf : Tok) (e : SeekErr)
    (h1 : findToken K F o = .ok elf) (h2 : findTokenReverse K F o = .error e) :
    tryFindLine K F o none none = .error e := by
  unfold tryFindLine
  simp only [h1, h2]
  rfl

theorem tryFindLine_ok (K : SeekK) (F : FileV) (o : Nat) (slf elf : Tok)
    (h1 : findToken K F o = .ok elf) (h2 : findTokenReverse K F o = .ok slf)
    (hc : slf.off ≤ F.len ∧ 0 ≤ slf.off ∧ elf.off ≤ F.len ∧ 0 ≤ elf.off ∧ slf.off ≤ elf.off) :
    tryFindLine K F o none none = .ok ⟨slf, elf⟩ := by
  unfold tryFindLine
  simp only [h1, h2]
  show (if _ then _ else _) = _
  rw [if_pos hc]
  rfl

/-- the start line feed the specification names -/
def specSlf (F : FileV) (o : Nat) : Tok :=
  match Spec.lastLFBefore F o with
  | some i => .found i
  | none => .edge 0

/-- the end line feed the specification names -/
def specElf (F : FileV) (o : Nat) : Tok :=
  match Spec.firstLFFrom F o (F.len - o) with
  | some j => .found j
  | none => .edge F.len

theorem ftr_ok_eq (K : SeekK) (hH : 0 < K.H) (hE : 0 < K.EXP) (F : FileV) (o : Nat)
    (ho : o ≤ F.len) (t : Tok) (h : findTokenReverse K F o = .ok t) : t = specSlf F o := by
  rw [ftr_exact K hH hE F o ho] at h
  unfold specSlf
  cases h0 : Spec.lastLFBefore F o <;> rw [h0] at h <;> simp only [] at h <;>
    split at h <;> cases h <;> rfl

theorem ft_ok_eq (K : SeekK) (hH : 0 < K.H) (hE : 0 < K.EXP) (F : FileV) (o : Nat)
    (ho : o ≤ F.len) (t : Tok) (h : findToken K F o = .ok t) : t = specElf F o := by
  rw [ft_exact K hH hE F o ho] at h
  unfold specElf
  cases h0 : Spec.firstLFFrom F o (F.len - o) <;> rw [h0] at h <;> simp only [] at h <;>
    split at h <;> cases h <;> rfl

theorem spec_assert (F : FileV) (o : Nat) :
    (specSlf F o).off ≤ F.len ∧ 0 ≤ (specSlf F o).off ∧ (specElf F o).off ≤ F.len ∧
      0 ≤ (specElf F o).off ∧ (specSlf F o).off ≤ (specElf F o).off := by
  unfold specSlf specElf
  cases h1 : Spec.lastLFBefore F o with
  | some i =>
    have hi := lastLFBefore_some h1
    cases h2 : Spec.firstLFFrom F o (F.len - o) with
    | some j =>
      have hj := firstLFFrom_some h2
      simp only [Tok.off]; omega
    | none => simp only [Tok.off]; omega
  | none =>
    cases h2 : Spec.firstLFFrom F o (F.len - o) with
    | some j =>
      have hj := firstLFFrom_some h2
      simp only [Tok.off]; omega
    | none => simp only [Tok.off]; omega

theorem specSlf_start (F : FileV) (o : Nat) (e : Tok) :
    (⟨specSlf F o, e⟩ : LLine).startOffset = Spec.lineStart F o := by
  unfold specSlf Spec.lineStart LLine.startOffset
  cases Spec.lastLFBefore F o with
  | some i => simp
  | none => simp

theorem specElf_eq (F : FileV) (o : Nat) :
    specElf F o =
      if Spec.lineEnd F o < F.len then Tok.found (Spec.lineEnd F o) else Tok.edge F.len := by
  unfold specElf Spec.lineEnd
  cases h : Spec.firstLFFrom F o (F.len - o) with
  | some j =>
    have hj := (firstLFFrom_some h).2.2.1
    simp [hj]
  | none => simp

theorem lineStart_le (F : FileV) (o : Nat) : Spec.lineStart F o ≤ o := by
  unfold Spec.lineStart
  cases h : Spec.lastLFBefore F o with
  | some i => have := (lastLFBefore_some h).1; simp only []; omega
  | none => simp

theorem le_lineEnd (F : FileV) (o : Nat) (ho : o ≤ F.len) :
    o ≤ Spec.lineEnd F o ∧ Spec.lineEnd F o ≤ F.len := by
  unfold Spec.lineEnd
  cases h : Spec.firstLFFrom F o (F.len - o) with
  | some j => have := firstLFFrom_some h; simp only [Option.getD_some]; omega
  | none => simp only [Option.getD_none]; omega

end SeekL1

/-- 4. `tryFindLine` is exact or refuses, for lines of any length -/
theorem C11_line_exact_or_refuses (K : SeekK) (hH : 0 < K.H) (hE : 0 < K.EXP) (F : FileV)
    (o : Nat) (ho : o ≤ F.len) :
    tryFindLine K F o none none = .error .maxLineLen ∨
    ∃ l, tryFindLine K F o none none = .ok l ∧ l.startOffset = Spec.lineStart F o ∧
      l.elf = (if Spec.lineEnd F o < F.len then Tok.found (Spec.lineEnd F o)
               else Tok.edge F.len) := by
  cases h1 : findToken K F o with
  | error e =>
    left
    rw [tryFindLine_err1 K F o e h1, ft_error K hH hE F o ho e h1]
  | ok elf =>
    cases h2 : findTokenReverse K F o with
    | error e =>
      left
      rw [tryFindLine_err2 K F o elf e h1 h2, ftr_error K hH hE F o ho e h2]
    | ok slf =>
      right
      have e1 := ft_ok_eq K hH hE F o ho elf h1
      have e2 := ftr_ok_eq K hH hE F o ho slf h2
      subst e1 e2
      exact ⟨_, tryFindLine_ok K F o _ _ h1 h2 (spec_assert F o), specSlf_start F o _,
        specElf_eq F o⟩

/-- 3. C11: the line containing `o` is found exactly when it is at most `(EXP-1)*H` long -/
theorem C11_line_exact (K : SeekK) (hH : 0 < K.H) (hE : 0 < K.EXP) (F : FileV) (o : Nat)
    (ho : o ≤ F.len)
    (hshort : Spec.lineEnd F o - Spec.lineStart F o ≤ (K.EXP - 1) * K.H) :
    ∃ l, tryFindLine K F o none none = .ok l ∧
      l.startOffset = Spec.lineStart F o ∧
      l.elf = (if Spec.lineEnd F o < F.len then Tok.found (Spec.lineEnd F o)
               else Tok.edge F.len) ∧
      l.endOffset = (if Spec.lineEnd F o < F.len then (Spec.lineEnd F o : Int) - 1
                     else F.len) := by
  obtain ⟨e, he⟩ : ∃ e, K.EXP = e + 1 := ⟨K.EXP - 1, by omega⟩
  have hmul : (e + 1) * K.H = e * K.H + K.H := Nat.succ_mul _ _
  rw [he, Nat.add_sub_cancel] at hshort
  have hls := lineStart_le F o
  have hle := le_lineEnd F o ho
  have h1 : findToken K F o = .ok (specElf F o) := by
    rw [ft_exact K hH hE F o ho, he, Nat.add_sub_cancel, hmul]
    unfold specElf
    unfold Spec.lineEnd at hshort hle
    cases h : Spec.firstLFFrom F o (F.len - o) with
    | some j =>
      rw [h] at hshort hle
      simp only [Option.getD_some] at hshort hle
      have : j - o < e * K.H + K.H := by omega
      simp only [this, if_true]
    | none =>
      rw [h] at hshort hle
      simp only [Option.getD_none] at hshort hle
      have : F.len - o ≤ e * K.H := by omega
      simp only [this, if_true]
  have h2 : findTokenReverse K F o = .ok (specSlf F o) := by
    rw [ftr_exact K hH hE F o ho, he, Nat.add_sub_cancel, hmul]
    unfold specSlf
    unfold Spec.lineStart at hshort hls
    cases h : Spec.lastLFBefore F o with
    | some i =>
      rw [h] at hshort hls
      simp only [] at hshort hls
      have : o - i ≤ e * K.H + K.H := by omega
      simp only [this, if_true]
    | none =>
      rw [h] at hshort hls
      simp only [] at hshort hls
      have : o ≤ e * K.H := by omega
      simp only [this, if_true]
  refine ⟨_, tryFindLine_ok K F o _ _ h1 h2 (spec_assert F o), specSlf_start F o _,
    specElf_eq F o, ?_⟩
  unfold LLine.endOffset
  simp only [specElf_eq F o]
  by_cases hc : Spec.lineEnd F o < F.len
  · simp only [hc, if_true]
  · simp only [hc, if_false]

/-! ### 6. non-vacuity: concrete lookups evaluated by the kernel -/

namespace SeekL1
/-- decidable equality of results, for `decide` (scoped: active under `open Sk.SeekL1`) -/
scoped instance instDecEqExcept {ε α : Type} [DecidableEq ε] [DecidableEq α] :
    DecidableEq (Except ε α)
  | .ok a, .ok b => if h : a = b then isTrue (by rw [h]) else isFalse (fun h' => h (by cases h'; rfl))
  | .error a, .error b =>
    if h : a = b then isTrue (by rw [h]) else isFalse (fun h' => h (by cases h'; rfl))
  | .ok _, .error _ => isFalse (fun h => by cases h)
  | .error _, .ok _ => isFalse (fun h => by cases h)
end SeekL1

/-- 15 bytes, line feeds at 2 and 9: lines `[0,2]`, `[3,9]`, `[10,15)` -/
def SeekL1.exF : FileV := ⟨15, fun i => [2, 9].contains i⟩

/-- H = 4, EXP = 3: from offset 7 the first chunk `[3,7)` has no line feed, the line feed
    at 2 sits in the partial chunk `[0,3)` at the start of the file -/
example : tryFindLine ⟨4, 3, 5⟩ exF 7 none none = .ok ⟨.found 2, .found 9⟩ := by decide

example : findTokenReverse ⟨4, 3, 5⟩ exF 7 = .ok (.found 2) := by decide

/-- the last line: end of file reached forwards -/
example : tryFindLine ⟨4, 3, 5⟩ exF 12 none none = .ok ⟨.found 9, .edge 15⟩ := by decide

/-- the first line: start of file reached backwards, through the partial chunk -/
example : tryFindLine ⟨4, 3, 5⟩ exF 1 none none = .ok ⟨.edge 0, .found 2⟩ := by decide

/-- H = 2, EXP = 3 (at most 6 bytes scanned): from offset 9 the line feed at 2 is 7 bytes
    back — the lookup refuses -/
example : tryFindLine ⟨2, 3, 5⟩ exF 9 none none = .error .maxLineLen := by decide

example : findTokenReverse ⟨2, 3, 5⟩ exF 9 = .error .maxLineLen := by decide

/-- 15 bytes, one line feed at 2: from offset 4 the end of the file is 11 > (3-1)*4 bytes
    ahead — the forward scan refuses -/
example : tryFindLine ⟨4, 3, 5⟩ ⟨15, fun i => [2].contains i⟩ 4 none none =
    .error .maxLineLen := by decide

/-- the hypotheses of `C11_line_exact` are satisfiable: the instance at offset 7 -/
example : ∃ l, tryFindLine ⟨4, 3, 5⟩ exF 7 none none = .ok l ∧ l.startOffset = 3 ∧
    l.endOffset = 8 := by
  obtain ⟨l, h1, h2, _, h4⟩ := C11_line_exact ⟨4, 3, 5⟩ (by decide) (by decide) exF 7
    (by decide) (by decide)
  refine ⟨l, h1, ?_, ?_⟩
  · rw [h2]; decide
  · rw [h4]; decide

end Sk

#print axioms Sk.ftr_exact
#print axioms Sk.ft_exact
#print axioms Sk.C11_line_exact
#print axioms Sk.C11_line_exact_or_refuses
#print axioms Sk.ftr_found_sound
#print axioms Sk.ftr_found_sound_nat
#print axioms Sk.ftr_edge_sound
#print axioms Sk.ft_found_sound
#print axioms Sk.ft_found_sound_nat
#print axioms Sk.ft_edge_sound
#print axioms Sk.ftr_error
#print axioms Sk.ft_error
