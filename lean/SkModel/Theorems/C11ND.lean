/-
  C11 / C04 for the non-destructive form of `apply_to_file`: the offset it returns is the one the
  destructive form seeks to, and the file is left at 0 or at the end of the file.
-/
import SkModel.SeekerND
import SkModel.Proofs.SeekShape

namespace Sk

/-- the returned offset is exactly where the destructive form leaves the file -/
theorem C04_nd_returns_same (K : SeekK) (F : FileV) (ts : Nat → Option Int) (since : Int) :
    (applyToFileND K F ts since).map (·.1) = applyToFile K F ts since := by
  unfold applyToFileND applyToFile
  cases h : seekerRun K F ts since 0 with
  | ok p => rfl
  | error e => cases e <;> rfl

/-- the position the non-destructive form leaves: 0 or EOF -/
theorem C11_nd_position_shape (K : SeekK) (F : FileV) (ts : Nat → Option Int) (since : Int)
    (r : Nat × Nat) (h : applyToFileND K F ts since = .ok r) : r.2 = 0 ∨ r.2 = F.len := by
  unfold applyToFileND at h
  split at h <;> first
    | (injection h with h; subst h; exact Or.inl rfl)
    | (injection h with h; subst h; exact Or.inr rfl)
    | cases h

/-- it never fails where the destructive form does not -/
theorem C11_nd_no_assert (K : SeekK) (hH : 0 < K.H) (F : FileV) (ts : Nat → Option Int)
    (since : Int) : applyToFileND K F ts since ≠ .error .assertFailed := by
  intro h
  have e := C04_nd_returns_same K F ts since
  rw [h] at e
  obtain ⟨p, hp⟩ := seek_no_assert K hH F ts since
  rw [hp] at e
  cases e

end Sk

#print axioms Sk.C04_nd_returns_same
#print axioms Sk.C11_nd_position_shape
#print axioms Sk.C11_nd_no_assert
