/-
  C16 on the bytes of a line, for the standard timestamp format: `apply_to_line` of a since
  constraint on a line that starts with a written timestamp passes iff that timestamp is at or
  after `current_date - window`; a line whose start does not parse is undecided.
  (`SkModel.StdTs.parseStd` is the concrete matcher; `C16_pass_iff` the calendar argument.)
-/
import SkModel.Theorems.C16
import SkModel.Theorems.C04Std

namespace Sk

/-- `extracted_datetime` of the standard matcher on the bytes of a line -/
def stdExtract (line : List Nat) : Option Civil :=
  match parseStd line with
  | some c => if c.valid then some c else none
  | none => none

theorem stdExtract_fmtStd (ts : Civil) (ht : ts.valid = true) (rest : List Nat) :
    stdExtract (fmtStd ts ++ rest) = some ts := by
  unfold stdExtract
  rw [parseStd_fmtStd ts (Civil.fits_of_valid ts ht) rest]
  simp [ht]

/-- what is extracted is a real date-time -/
theorem stdExtract_valid (line : List Nat) (c : Civil) (h : stdExtract line = some c) :
    c.valid = true := by
  unfold stdExtract at h
  split at h
  · split at h
    · cases h; assumption
    · cases h
  · cases h

/-- C16, end to end for one line -/
theorem C16_std_line (cur ts since : Civil) (hc : cur.valid = true) (ht : ts.valid = true)
    (hs : since.valid = true) (days hours : Int)
    (hsince : since.toSeconds = cur.toSeconds - windowSeconds days hours) (rest : List Nat) :
    applyToLine since (stdExtract (fmtStd ts ++ rest)) =
      if cur.toSeconds - windowSeconds days hours ≤ ts.toSeconds then COut.pass else COut.fail := by
  rw [stdExtract_fmtStd ts ht rest]
  exact C16_pass_iff cur ts since hc ht hs days hours hsince

/-- a line that does not start with a timestamp of this format is undecided -/
theorem C16_std_undecided (since : Civil) (line : List Nat) (h : parseStd line = none) :
    applyToLine since (stdExtract line) = .undec := by
  simp [stdExtract, h, applyToLine]

/-- a look-alike that is not a real date (e.g. 2023-02-30) is undecided as well -/
theorem C16_std_lookalike (since : Civil) (line : List Nat) (c : Civil)
    (h : parseStd line = some c) (hv : c.valid = false) :
    applyToLine since (stdExtract line) = .undec := by
  simp [stdExtract, h, hv, applyToLine]

example : stdExtract (fmtStd ⟨2024, 2, 29, 23, 59, 59⟩ ++ [32, 120]) = some ⟨2024, 2, 29, 23, 59, 59⟩ := by
  decide
example : applyToLine ⟨2024, 1, 1, 0, 0, 0⟩ (stdExtract (fmtStd ⟨2023, 2, 30, 0, 0, 0⟩)) = .undec := by
  decide

end Sk

#print axioms Sk.C16_std_line
#print axioms Sk.C16_std_undecided
#print axioms Sk.C16_std_lookalike
#print axioms Sk.stdExtract_valid
