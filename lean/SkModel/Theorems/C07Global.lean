/-
  SkModel.Theorems.C07Global — `apply_global` over a searcher's history of `add` calls:
  the restriction set holds exactly the searches some `add` call opted out (each once); the
  searches registered on a path are those of the `add` calls whose expansion contains the
  path; the file-level constraint is skipped on a path iff some search registered on it
  (through ANY path form) was opted out by SOME `add` call of the same searcher; the decision
  depends on the expansions only, and a searcher without opt-outs applies the constraint
  everywhere.
-/
import SkModel.Searcher
import SkModel.Theorems.C09

namespace Sk.Srch
open Sk Sk.Cat

/-! ## 1. the catalog part: searches registered on a path -/

/-- the value stored for `q` after one registration: `search` appended once per occurrence of
    `q` in the expansion (no `Nodup` assumption on the expansion) -/
theorem getG_register (exp : List String) (es : Entries) (search : Nat) (q : String) :
    getG (register es search exp) q = getG es q ++ List.replicate (exp.count q) search := by
  induction exp generalizing es with
  | nil => simp [register]
  | cons p exp ih =>
    show getG (register (registerPath es search p) search exp) q = _
    rw [ih, registerPath_eq, getG_addTo, List.count_cons]
    by_cases hq : q = p
    · subst hq
      simp [List.replicate_succ]
    · have : (p == q) = false := by simpa using fun h => hq h.symm
      simp [hq, this]

theorem searchesOn_eq_getG (s : SearcherSt) (path : String) :
    s.searchesOn path = getG s.entries path := rfl

theorem addAll_nil (s : SearcherSt) : s.addAll [] = s := rfl

theorem addAll_cons (s : SearcherSt) (op : AddOp) (ops : List AddOp) :
    s.addAll (op :: ops) = (s.add op).addAll ops := rfl

theorem addAll_append (s : SearcherSt) (ops ops' : List AddOp) :
    s.addAll (ops ++ ops') = (s.addAll ops).addAll ops' := by
  simp [SearcherSt.addAll, List.foldl_append]

theorem searchesOn_add (s : SearcherSt) (op : AddOp) (path : String) :
    (s.add op).searchesOn path =
      s.searchesOn path ++ List.replicate (op.expanded.count path) op.search := by
  simp only [searchesOn_eq_getG, SearcherSt.add, getG_register]

/-- exact form: the searches of the `add` calls, in call order, once per occurrence of the
    path in the call's expansion -/
theorem searchesOn_addAll (s : SearcherSt) (ops : List AddOp) (path : String) :
    (s.addAll ops).searchesOn path =
      s.searchesOn path ++
        ops.flatMap (fun op => List.replicate (op.expanded.count path) op.search) := by
  induction ops generalizing s with
  | nil => simp [addAll_nil]
  | cons op ops ih =>
    rw [addAll_cons, ih, searchesOn_add, List.flatMap_cons, List.append_assoc]

theorem searchesOn_empty (path : String) : ({} : SearcherSt).searchesOn path = [] := rfl

theorem mem_searchesOn_addAll (s : SearcherSt) (ops : List AddOp) (path : String) (i : Nat) :
    i ∈ (s.addAll ops).searchesOn path ↔
      i ∈ s.searchesOn path ∨ ∃ op ∈ ops, op.search = i ∧ path ∈ op.expanded := by
  rw [searchesOn_addAll, List.mem_append, List.mem_flatMap]
  apply or_congr Iff.rfl
  constructor
  · rintro ⟨op, hop, hi⟩
    have := List.mem_replicate.1 hi
    exact ⟨op, hop, this.2.symm, List.count_pos_iff.1 (Nat.pos_of_ne_zero this.1)⟩
  · rintro ⟨op, hop, rfl, hp⟩
    exact ⟨op, hop, List.mem_replicate.2
      ⟨Nat.pos_iff_ne_zero.1 (List.count_pos_iff.2 hp), rfl⟩⟩

/-! ## 2. the restriction set -/

theorem restr_add (s : SearcherSt) (op : AddOp) :
    (s.add op).restr =
      if op.agc || s.restr.contains op.search then s.restr else s.restr ++ [op.search] := rfl

theorem restr_add_nodup (s : SearcherSt) (op : AddOp) (h : s.restr.Nodup) :
    (s.add op).restr.Nodup := by
  rw [restr_add]
  split
  · exact h
  · rename_i hc
    simp only [Bool.or_eq_true, List.contains_eq_mem, decide_eq_true_eq, not_or] at hc
    refine List.nodup_append.2 ⟨h, by simp, ?_⟩
    intro a ha b hb
    simp only [List.mem_singleton] at hb
    subst hb
    intro hab; subst hab; exact hc.2 ha

theorem mem_restr_add (s : SearcherSt) (op : AddOp) (i : Nat) :
    i ∈ (s.add op).restr ↔ i ∈ s.restr ∨ (op.search = i ∧ op.agc = false) := by
  rw [restr_add]
  split
  · rename_i hc
    simp only [Bool.or_eq_true, List.contains_eq_mem, decide_eq_true_eq] at hc
    constructor
    · exact Or.inl
    · rintro (h | ⟨rfl, hagc⟩)
      · exact h
      · rcases hc with hc | hc
        · rw [hagc] at hc; exact absurd hc (by simp)
        · exact hc
  · rename_i hc
    simp only [Bool.or_eq_true, List.contains_eq_mem, decide_eq_true_eq, not_or,
      Bool.not_eq_true] at hc
    simp only [List.mem_append, List.mem_singleton]
    constructor
    · rintro (h | rfl)
      · exact Or.inl h
      · exact Or.inr ⟨rfl, hc.1⟩
    · rintro (h | ⟨rfl, _⟩)
      · exact Or.inl h
      · exact Or.inr rfl

theorem restr_addAll_nodup (s : SearcherSt) (ops : List AddOp) (h : s.restr.Nodup) :
    (s.addAll ops).restr.Nodup := by
  induction ops generalizing s with
  | nil => exact h
  | cons op ops ih => exact ih _ (restr_add_nodup s op h)

theorem mem_restr_addAll (s : SearcherSt) (ops : List AddOp) (i : Nat) :
    i ∈ (s.addAll ops).restr ↔
      i ∈ s.restr ∨ ∃ op ∈ ops, op.search = i ∧ op.agc = false := by
  induction ops generalizing s with
  | nil => simp [addAll_nil]
  | cons op ops ih =>
    rw [addAll_cons, ih, mem_restr_add]
    constructor
    · rintro ((h | h) | ⟨o, ho, h⟩)
      · exact Or.inl h
      · exact Or.inr ⟨op, List.mem_cons_self, h⟩
      · exact Or.inr ⟨o, List.mem_cons_of_mem _ ho, h⟩
    · rintro (h | ⟨o, ho, h⟩)
      · exact Or.inl (Or.inl h)
      · rcases List.mem_cons.1 ho with rfl | ho
        · exact Or.inl (Or.inr h)
        · exact Or.inr ⟨o, ho, h⟩

/-! ## 3. `apply_global` -/

theorem globalApplies_false_iff (s : SearcherSt) (path : String) :
    s.globalApplies path = false ↔ ∃ i, i ∈ s.searchesOn path ∧ i ∈ s.restr := by
  unfold SearcherSt.globalApplies
  rw [List.all_eq_false]
  constructor
  · rintro ⟨i, hi, hc⟩
    exact ⟨i, hi, by simpa using hc⟩
  · rintro ⟨i, hi, hr⟩
    exact ⟨i, hi, by simpa using hr⟩

/-- the state reached from a given searcher depends only on the
    (search, expansion, opt-out) triples of the `add` calls -/
theorem addAll_congr (s : SearcherSt) (ops ops' : List AddOp)
    (h : ops.map (fun o => (o.search, o.expanded, o.agc)) =
      ops'.map (fun o => (o.search, o.expanded, o.agc))) :
    s.addAll ops = s.addAll ops' := by
  have inj : ∀ a b : AddOp,
      (a.search, a.expanded, a.agc) = (b.search, b.expanded, b.agc) → a = b := by
    intro a b hab
    cases a; cases b
    simp only [Prod.mk.injEq] at hab
    obtain ⟨h1, h2, h3⟩ := hab
    subst h1 h2 h3; rfl
  have : ops = ops' := by
    induction ops generalizing ops' with
    | nil => cases ops' with
      | nil => rfl
      | cons b t => simp at h
    | cons a t ih => cases ops' with
      | nil => simp at h
      | cons b t' =>
        simp only [List.map_cons, List.cons.injEq] at h
        rw [inj a b h.1, ih t' h.2]
  rw [this]

end Sk.Srch

namespace Sk
open Srch

/-- the restriction set of a searcher built by `ops` from a NEW searcher: exactly the searches
    some `add` call opted out, each once -/
theorem C07_restr_exact (ops : List AddOp) :
    let s := SearcherSt.addAll {} ops
    s.restr.Nodup ∧ ∀ i, i ∈ s.restr ↔ ∃ op ∈ ops, op.search = i ∧ op.agc = false := by
  intro s
  refine ⟨restr_addAll_nodup {} ops List.nodup_nil, ?_⟩
  intro i
  show i ∈ (SearcherSt.addAll {} ops).restr ↔ _
  rw [mem_restr_addAll]
  constructor
  · rintro (h | h)
    · exact absurd h (by show i ∉ ([] : List Nat); simp)
    · exact h
  · exact Or.inr

/-- the searches registered on a path: those of the `add` calls whose expansion contains the
    path (in order of the calls, once per occurrence in an expansion) -/
theorem C07_searches_on (ops : List AddOp) (path : String) (i : Nat) :
    i ∈ (SearcherSt.addAll {} ops).searchesOn path ↔
      ∃ op ∈ ops, op.search = i ∧ path ∈ op.expanded := by
  rw [mem_searchesOn_addAll, searchesOn_empty]
  simp

/-- exact (ordered, with multiplicity) form of `C07_searches_on` -/
theorem C07_searches_on_exact (ops : List AddOp) (path : String) :
    (SearcherSt.addAll {} ops).searchesOn path =
      ops.flatMap (fun op => List.replicate (op.expanded.count path) op.search) := by
  rw [searchesOn_addAll, searchesOn_empty, List.nil_append]

/-- `apply_global` skips the file-level constraint on `path` iff some search registered on that
    path - through ANY expansion (file, directory or glob form) - was opted out by SOME `add`
    call of this searcher -/
theorem C07_global_applies_iff (ops : List AddOp) (path : String) :
    (SearcherSt.addAll {} ops).globalApplies path = false ↔
      ∃ op₁ ∈ ops, ∃ op₂ ∈ ops, op₁.search = op₂.search ∧ path ∈ op₁.expanded ∧
        op₂.agc = false := by
  rw [globalApplies_false_iff]
  constructor
  · rintro ⟨i, hs, hr⟩
    obtain ⟨o1, ho1, hi1, hp⟩ := (C07_searches_on ops path i).1 hs
    obtain ⟨o2, ho2, hi2, ha⟩ := ((C07_restr_exact ops).2 i).1 hr
    exact ⟨o1, ho1, o2, ho2, hi1.trans hi2.symm, hp, ha⟩
  · rintro ⟨o1, ho1, o2, ho2, he, hp, ha⟩
    exact ⟨o1.search, (C07_searches_on ops path _).2 ⟨o1, ho1, rfl, hp⟩,
      ((C07_restr_exact ops).2 _).2 ⟨o2, ho2, he.symm, ha⟩⟩

/-- the decision does not depend on HOW the paths were denoted: two histories of `add` calls
    whose expansions agree give the same decision for every path -/
theorem C07_global_path_form_irrelevant (ops ops' : List AddOp)
    (h : ops.map (fun o => (o.search, o.expanded, o.agc)) =
      ops'.map (fun o => (o.search, o.expanded, o.agc)))
    (path : String) :
    (SearcherSt.addAll {} ops).globalApplies path =
      (SearcherSt.addAll {} ops').globalApplies path := by
  rw [addAll_congr {} ops ops' h]

/-- searchers do not share the set: what was added to another searcher is irrelevant
    (stated as: the state after `ops` is a function of `ops` alone, and a searcher with no
    opt-out applies the constraint everywhere) -/
theorem C07_no_optout_applies_everywhere (ops : List AddOp) (h : ∀ op ∈ ops, op.agc = true)
    (path : String) : (SearcherSt.addAll {} ops).globalApplies path = true := by
  cases hg : (SearcherSt.addAll {} ops).globalApplies path with
  | true => rfl
  | false =>
    obtain ⟨_, _, o2, ho2, _, _, ha⟩ := (C07_global_applies_iff ops path).1 hg
    rw [h o2 ho2] at ha
    exact absurd ha (by simp)

/-! ## non-vacuity -/

namespace C07Gex

/-- search 1 on a file; search 2 on a directory expanding to two files, opted out;
    search 2 again (not opted out this time) on a third file; search 3 on a fourth -/
def hist : List AddOp :=
  [ ⟨1, ["/v/a.log"], true⟩,
    ⟨2, ["/v/a.log", "/v/b.log"], false⟩,
    ⟨2, ["/v/c.log"], true⟩,
    ⟨3, ["/v/d.log"], true⟩ ]

/-- the 3-`add` history asked for -/
def hist3 : List AddOp :=
  [ ⟨1, ["/v/a.log"], true⟩,
    ⟨2, ["/v/b.log", "/v/c.log"], false⟩,
    ⟨3, ["/v/d.log", "/v/c.log"], true⟩ ]

example : (SearcherSt.addAll {} hist3).restr = [2] := by decide
example : (SearcherSt.addAll {} hist3).entries =
    [("/v/a.log", [1]), ("/v/b.log", [2]), ("/v/c.log", [2, 3]), ("/v/d.log", [3])] := by decide
example : (SearcherSt.addAll {} hist3).searchesOn "/v/c.log" = [2, 3] := by decide
example : (SearcherSt.addAll {} hist3).searchesOn "/v/a.log" = [1] := by decide
example : (SearcherSt.addAll {} hist3).searchesOn "/v/nowhere" = [] := by decide
-- restricted paths: both files of the opted-out two-file expansion
example : (SearcherSt.addAll {} hist3).globalApplies "/v/b.log" = false := by decide
example : (SearcherSt.addAll {} hist3).globalApplies "/v/c.log" = false := by decide
-- unrestricted paths
example : (SearcherSt.addAll {} hist3).globalApplies "/v/a.log" = true := by decide
example : (SearcherSt.addAll {} hist3).globalApplies "/v/d.log" = true := by decide
example : (SearcherSt.addAll {} hist3).globalApplies "/v/nowhere" = true := by decide

-- the opt-out of one `add` call reaches the same search registered by ANOTHER call
example : (SearcherSt.addAll {} hist).restr = [2] := by decide
example : (SearcherSt.addAll {} hist).searchesOn "/v/a.log" = [1, 2] := by decide
example : (SearcherSt.addAll {} hist).globalApplies "/v/a.log" = false := by decide
example : (SearcherSt.addAll {} hist).globalApplies "/v/c.log" = false := by decide
example : (SearcherSt.addAll {} hist).globalApplies "/v/d.log" = true := by decide
-- a repeated opt-out is stored once
example : (SearcherSt.addAll {} (hist ++ [⟨2, ["/v/e.log"], false⟩])).restr = [2] := by decide

-- a separate (new) searcher with the same calls minus the opt-out applies it everywhere
example : (SearcherSt.addAll {} [⟨1, ["/v/a.log"], true⟩, ⟨2, ["/v/a.log", "/v/b.log"], true⟩]
    ).globalApplies "/v/a.log" = true := by decide

end C07Gex

end Sk

#print axioms Sk.C07_restr_exact
#print axioms Sk.C07_searches_on
#print axioms Sk.C07_searches_on_exact
#print axioms Sk.C07_global_applies_iff
#print axioms Sk.C07_global_path_form_irrelevant
#print axioms Sk.C07_no_optout_applies_everywhere
