/-
  C06 — concurrent workers of `ResultStoreParallel` (model: `SkModel.ParStore`).

  Every theorem holds for every block size `B > 0`, every assignment of programs to workers
  (`progs : Nat → List (Ns × Option Val)`, any number of workers) and every label sequence,
  i.e. every interleaving of the workers at the granularity of single shared-state accesses.
  They are corollaries of the invariants of `SkModel.Proofs.ParInv*`.
-/
import SkModel.Proofs.ParInv
import SkModel.Proofs.ParInvLocal
import SkModel.Proofs.ParInvSync
import SkModel.Proofs.ParInvLive
import SkModel.Proofs.ParInvProgress

namespace Sk
open StoreInv Par

/-- states reachable from the initial state by some interleaving -/
def PReach (B : Nat) (progs : Nat → List (Ns × Option Val)) (s : PState) : Prop :=
  ∃ ls, prun (PState.init B progs) ls = some s

namespace Par

theorem prun_induct {P : PState → Prop}
    (hstep : ∀ s l s', P s → pstep s l = some s' → P s') :
    ∀ (ls : List PLbl) (s s' : PState), P s → prun s ls = some s' → P s'
  | [], s, s', h, hr => by simp only [prun, Option.some.injEq] at hr; subst hr; exact h
  | l :: ls, s, s', h, hr => by
    simp only [prun] at hr
    split at hr
    · rename_i s1 hs1
      exact prun_induct hstep ls s1 s' (hstep s l s1 h hs1) hr
    · cases hr

/-- all invariants together -/
structure Inv (B : Nat) (progs : Nat → List (Ns × Option Val)) (s : PState) : Prop where
  i1 : Inv1 B s
  i2 : Inv2 B s
  i3 : Inv3 s
  i4 : Inv4 progs s
  i5 : Inv5 s

theorem inv_init {B : Nat} (hB : 0 < B) (progs : Nat → List (Ns × Option Val)) :
    Inv B progs (PState.init B progs) :=
  ⟨Inv1.init B progs, Inv2.init hB progs, Inv3.init B progs, Inv4.init B progs, Inv5.init B progs⟩

theorem inv_step {B : Nat} {progs : Nat → List (Ns × Option Val)} {s : PState} {l : PLbl}
    {s' : PState} (hB : 0 < B) (h : Inv B progs s) (hs : pstep s l = some s') : Inv B progs s' := by
  have hs' := step_of_pstep hs
  exact ⟨inv1_step h.i1 hs', inv2_step hB h.i1 h.i2 hs', inv3_step hB h.i1 h.i2 h.i3 hs',
    inv4_step hB h.i1 h.i2 h.i4 hs', inv5_step h.i2 h.i5 hs'⟩

theorem reach_inv {B : Nat} {progs : Nat → List (Ns × Option Val)} {s : PState} (hB : 0 < B)
    (h : PReach B progs s) : Inv B progs s := by
  obtain ⟨ls, hr⟩ := h
  exact prun_induct (P := Inv B progs) (fun _ _ _ hi hs => inv_step hB hi hs) ls _ _
    (inv_init hB progs) hr

theorem prodSteps_le {B : Nat} {progs : Nat → List (Ns × Option Val)} (hB : 0 < B) (W : List Nat) :
    ∀ (ls : List PLbl) (s s' : PState), Inv B progs s → prun s ls = some s' →
      prodSteps W s ls + total W s' ≤ total W s
  | [], s, s', _, hr => by
    simp only [prun, Option.some.injEq] at hr; subst hr; simp [prodSteps]
  | l :: ls, s, s', h, hr => by
    simp only [prun] at hr
    split at hr
    · rename_i s1 hs1
      have ih := prodSteps_le hB W ls s1 s' (inv_step hB h hs1) hr
      obtain ⟨hle, hlt⟩ := total_step hB h.i1 h.i2 h.i5 (step_of_pstep hs1) W
      simp only [prodSteps, hs1]
      split
      · rename_i hc
        have := hlt hc.1 hc.2; omega
      · omega
    · cases hr

theorem reach_inv12 {B : Nat} {progs : Nat → List (Ns × Option Val)} {s : PState} (hB : 0 < B)
    (h : PReach B progs s) : Inv1 B s ∧ Inv2 B s :=
  ⟨(reach_inv hB h).i1, (reach_inv hB h).i2⟩

theorem reach_inv1 {B : Nat} {progs : Nat → List (Ns × Option Val)} {s : PState}
    (h : PReach B progs s) : Inv1 B s := by
  obtain ⟨ls, hr⟩ := h
  refine prun_induct (P := fun s => Inv1 B s) ?_ ls _ _ (Inv1.init B progs) hr
  intro s l s' h1 hs
  exact inv1_step h1 (step_of_pstep hs)

end Par

variable {B : Nat} {progs : Nat → List (Ns × Option Val)} {s : PState}

/-! ### 1. blocks granted to workers never overlap, and lie below the pointer -/

theorem C06_disjoint (h : PReach B progs s) :
    (∀ (w1 w2 i1 i2 : Nat) (h1 : i1 < (s.ws w1).grants.length) (h2 : i2 < (s.ws w2).grants.length),
      (w1, i1) ≠ (w2, i2) →
      (s.ws w1).grants[i1] + B ≤ (s.ws w2).grants[i2] ∨
      (s.ws w2).grants[i2] + B ≤ (s.ws w1).grants[i1]) ∧
    (∀ w g, g ∈ (s.ws w).grants → g + B ≤ s.ptr) := by
  have inv := reach_inv1 h
  refine ⟨?_, inv.below⟩
  intro w1 w2 i1 i2 h1 h2 hne
  refine inv.disj w1 w2 i1 i2 _ _ (List.getElem?_eq_getElem h1) (List.getElem?_eq_getElem h2) ?_
  rintro rfl rfl; exact hne rfl

/-- the lock discipline behind it: a worker inside `preallocate` holds the lock, the lock holder
    is inside `preallocate` or `sync`, and what the holder has read is still the pointer -/
theorem C06_lock (h : PReach B progs s) :
    s.B = B ∧
    (∀ w, (s.ws w).pc = .locked ∨ (s.ws w).pc = .read1 ∨ (s.ws w).pc = .read2 ∨ (s.ws w).pc = .wrote →
      s.lock = some w) ∧
    (∀ w, s.lock = some w → (s.ws w).pc = .locked ∨ (s.ws w).pc = .read1 ∨ (s.ws w).pc = .read2 ∨
      (s.ws w).pc = .wrote ∨ (s.ws w).pc = .sync) ∧
    (∀ w, (s.ws w).pc = .read1 ∨ (s.ws w).pc = .read2 → (s.ws w).r1 = s.ptr) ∧
    (∀ w, (s.ws w).pc = .read2 → (s.ws w).r2 = s.ptr) := by
  have inv := reach_inv1 h
  refine ⟨inv.hB, ?_, ?_, inv.r1ok, inv.r2ok⟩
  · intro w hc
    apply inv.holds
    rcases hc with hc | hc | hc | hc <;> simp [hc, crit]
  · intro w hl
    rcases inv.held w hl with hc | hc
    · revert hc
      cases (s.ws w).pc <;> simp [crit]
    · simp [hc]

/-! ### 2. every worker's local store satisfies the C15 invariant w.r.t. its own grants -/

/-- The local store of worker `w` satisfies `Store.Inv` for a totally disjoint supplier that
    agrees with `PW.sup` on the blocks granted so far (and continues with fresh blocks above the
    pointer); and `w` holds at most one block it has not started to use. -/
theorem C06_local_inv (hB : 0 < B) (h : PReach B progs s) (w : Nat) :
    (∃ sup' : Nat → Nat,
      (∀ i j, i ≠ j → sup' i + B ≤ sup' j ∨ sup' j + B ≤ sup' i) ∧
      (∀ k, k < (s.ws w).grants.length → sup' k = (s.ws w).sup k) ∧
      Store.Inv B true sup' (s.ws w).st) ∧
    (s.ws w).st.nblocks ≤ (s.ws w).grants.length ∧
    (s.ws w).grants.length ≤ (s.ws w).st.nblocks + 1 := by
  obtain ⟨h1, h2⟩ := reach_inv12 hB h
  refine ⟨⟨supx B s.ptr (s.ws w).grants, h1.supx_disjoint w, ?_, h2.linv w⟩, h2.nb_le w, h2.gl_le w⟩
  intro k hk; rw [supx_lt hk, sup_lt hk]

/-- … hence for *every* supplier that agrees with `PW.sup` on the granted blocks -/
theorem C06_local_inv_any (hB : 0 < B) (h : PReach B progs s) (w : Nat) (sup' : Nat → Nat)
    (hs : ∀ k, k < (s.ws w).grants.length → sup' k = (s.ws w).sup k) :
    Store.Inv B true sup' (s.ws w).st := by
  obtain ⟨-, h2⟩ := reach_inv12 hB h
  refine inv_congr_sup hB ?_ (h2.linv w)
  intro k hk
  have hk' : k < (s.ws w).grants.length := by have := h2.nb_le w; omega
  rw [hs k hk', supx_lt hk', sup_lt hk']

/-- every index of the local store lies in one of the worker's granted blocks -/
theorem C06_indices_in_blocks (hB : 0 < B) (h : PReach B progs s) (w : Nat) :
    ∀ i ∈ (s.ws w).st.data.map (·.1), ∃ g ∈ (s.ws w).grants, g ≤ i ∧ i < g + B := by
  obtain ⟨-, h2⟩ := reach_inv12 hB h
  intro i hi
  rw [(h2.linv w).keys, List.mem_map] at hi
  obtain ⟨j, hj, rfl⟩ := hi
  rw [List.mem_range] at hj
  have hq : j / B < (s.ws w).grants.length := by
    have := h2.nb_le w
    have h3 : (s.ws w).st.nblocks = ((s.ws w).st.data.length + B - 1) / B := (h2.linv w).nblk
    have := div_lt_nblk hB hj
    omega
  refine ⟨(s.ws w).grants[j / B], List.getElem_mem hq, ?_⟩
  simp only [slot, if_true, supx_lt hq]
  have := Nat.mod_lt j hB
  omega

/-- the indices of a local store are pairwise distinct (one value per index) -/
theorem C06_local_keys_nodup (hB : 0 < B) (h : PReach B progs s) (w : Nat) :
    ((s.ws w).st.data.map (·.1)).Nodup := by
  obtain ⟨h1, h2⟩ := reach_inv12 hB h
  exact (h2.linv w).keys_nodup hB (h1.supx_disjoint w)

/-! ### 3. two workers never hand out the same index -/

theorem C06_no_shared_index (hB : 0 < B) (h : PReach B progs s) {w1 w2 : Nat} (hne : w1 ≠ w2) :
    ∀ i1 ∈ (s.ws w1).st.data.map (·.1), ∀ i2 ∈ (s.ws w2).st.data.map (·.1), i1 ≠ i2 := by
  intro i1 hi1 i2 hi2 e
  subst e
  obtain ⟨g1, hg1, a1, b1⟩ := C06_indices_in_blocks hB h w1 i1 hi1
  obtain ⟨g2, hg2, a2, b2⟩ := C06_indices_in_blocks hB h w2 i1 hi2
  obtain ⟨k1, hk1⟩ := List.getElem?_of_mem hg1
  obtain ⟨k2, hk2⟩ := List.getElem?_of_mem hg2
  have := (reach_inv1 h).disj w1 w2 k1 k2 g1 g2 hk1 hk2 (fun e => absurd e hne)
  omega

/-! ### 4. after `sync`, every index a worker handed out resolves in the shared store -/

/-- the shared data only contains items of local stores, and contains what was synced -/
theorem C06_shared_data (hB : 0 < B) (h : PReach B progs s) :
    (∀ e, e ∈ s.sdata → ∃ w, e ∈ (s.ws w).st.data) ∧
    (∀ w e, e ∈ (s.ws w).synced → e ∈ s.sdata) ∧
    (∀ w, (s.ws w).pc = .done → ∀ e, e ∈ (s.ws w).st.data → e ∈ (s.ws w).synced) :=
  ⟨(reach_inv hB h).i3.sd_src, (reach_inv hB h).i3.synced_sub, (reach_inv hB h).i3.done_all⟩

/-- whatever the shared store returns for an index of worker `w` is `w`'s value — at any time,
    whether or not anybody has finished -/
theorem C06_shared_lookup_sound (hB : 0 < B) (h : PReach B progs s) {w idx : Nat} {v v' : Val}
    (hm : (idx, v) ∈ (s.ws w).st.data) (hl : s.sdata.lookup idx = some v') : v' = v := by
  have inv := reach_inv hB h
  obtain ⟨w', hw'⟩ := inv.i3.sd_src _ (mem_of_lookup hl)
  have hk : idx ∈ (s.ws w).st.data.map (·.1) := List.mem_map.mpr ⟨(idx, v), hm, rfl⟩
  have hk' : idx ∈ (s.ws w').st.data.map (·.1) := List.mem_map.mpr ⟨(idx, v'), hw', rfl⟩
  by_cases hww : w' = w
  · subst hww
    have hn := C06_local_keys_nodup hB h w'
    have e1 := lookup_of_mem hn hm
    have e2 := lookup_of_mem hn hw'
    rw [e1] at e2; exact (Option.some.inj e2).symm
  · exact absurd rfl (C06_no_shared_index hB h hww idx hk' idx hk)

/-- a worker that has finished `sync` finds every one of its items in the shared store
    (the other workers may still be running) -/
theorem C06_resolve_worker (hB : 0 < B) (h : PReach B progs s) {w : Nat}
    (hd : (s.ws w).pc = .done) :
    ∀ idx v, (idx, v) ∈ (s.ws w).st.data → s.sdata.lookup idx = some v := by
  intro idx v hm
  have inv := reach_inv hB h
  have hsd : (idx, v) ∈ s.sdata := inv.i3.synced_sub w _ (inv.i3.done_all w hd _ hm)
  cases hl : s.sdata.lookup idx with
  | none =>
    have := List.lookup_eq_none_iff.mp hl (idx, v) hsd
    simp at this
  | some v' => rw [C06_shared_lookup_sound hB h hm hl]

theorem C06_resolve (hB : 0 < B) (h : PReach B progs s) (hd : ∀ w, (s.ws w).pc = .done) :
    ∀ w idx v, (idx, v) ∈ (s.ws w).st.data → s.sdata.lookup idx = some v :=
  fun w => C06_resolve_worker hB h (hd w)

/-- The micro-operations executed so far are a prefix of the program, one return value each;
    the index returned for a stored value resolves to it in the local store. -/
theorem C06_rets (hB : 0 < B) (h : PReach B progs s) (w : Nat) :
    (s.ws w).ops = (progs w).drop (s.ws w).rets.length ∧
    (s.ws w).rets.length ≤ (progs w).length ∧
    (∀ (k : Nat) (ns : Ns), k < (s.ws w).rets.length → (progs w)[k]? = some (ns, none) →
      (s.ws w).rets[k]? = some none) ∧
    (∀ (k : Nat) (ns : Ns) (x : Val), k < (s.ws w).rets.length → (progs w)[k]? = some (ns, some x) →
      ∃ i, (s.ws w).rets[k]? = some (some i) ∧ (s.ws w).st.get i = some x) := by
  have inv := reach_inv hB h
  refine ⟨inv.i4.ops_eq w, inv.i4.len w, ?_, ?_⟩
  · intro k ns hk hop
    obtain ⟨r, hr, hret⟩ := inv.i4.ret w k _ hk hop
    rw [hr, hret.1 rfl]
  · intro k ns x hk hop
    obtain ⟨r, hr, hret⟩ := inv.i4.ret w k _ hk hop
    obtain ⟨i, rfl, hm⟩ := hret.2 x rfl
    exact ⟨i, hr, lookup_of_mem (C06_local_keys_nodup hB h w) hm⟩

/-- every index a finished worker returned resolves in the shared store to the value stored
    under it -/
theorem C06_rets_resolve (hB : 0 < B) (h : PReach B progs s) {w : Nat}
    (hd : (s.ws w).pc = .done) (k : Nat) (ns : Ns) (x : Val)
    (hk : k < (s.ws w).rets.length) (hop : (progs w)[k]? = some (ns, some x)) :
    ∃ i, (s.ws w).rets[k]? = some (some i) ∧ s.sdata.lookup i = some x := by
  obtain ⟨-, -, -, hr⟩ := C06_rets hB h w
  obtain ⟨i, h1, h2⟩ := hr k ns x hk hop
  exact ⟨i, h1, C06_resolve_worker hB h hd i x (mem_of_lookup h2)⟩

/-! ### 5. no interleaving deadlocks -/

/-- In every reachable state, as long as worker `w` is not `done`, some step is enabled: if the
    lock is held, the holder's next step (`readPtr`/`writePtr`/`release`), otherwise a step of `w`
    itself (a local micro-op — which cannot fail —, `acquire`, `syncStart`, `syncData`, `syncDone`). -/
theorem C06_nodeadlock (hB : 0 < B) (h : PReach B progs s) (w : Nat) (hnd : (s.ws w).pc ≠ .done) :
    ∃ l s', pstep s l = some s' := by
  have inv := reach_inv hB h
  obtain ⟨l, hl, -, -⟩ := enabled hB inv.i1 inv.i2 hnd
  obtain ⟨s', hs'⟩ := Option.isSome_iff_exists.mp hl
  exact ⟨l, s', hs'⟩

/-- … more precisely: the enabled step belongs to the lock holder if there is one and to `w`
    otherwise, and it is *productive* (not one of the repeatable reverse-map accesses of `sync`,
    not a re-write of an item already synced), so that it decreases `C06_progress_measure`. -/
theorem C06_nodeadlock_productive (hB : 0 < B) (h : PReach B progs s) (w : Nat)
    (hnd : (s.ws w).pc ≠ .done) :
    ∃ l s', pstep s l = some s' ∧ actor l = s.lock.getD w ∧ productive s l := by
  have inv := reach_inv hB h
  obtain ⟨l, hl, ha, hp⟩ := enabled hB inv.i1 inv.i2 hnd
  obtain ⟨s', hs'⟩ := Option.isSome_iff_exists.mp hl
  exact ⟨l, s', hs', ha, hp⟩

/-- a local micro-operation that is ready never raises "failed to get store allocation" -/
theorem C06_no_alloc_error (hB : 0 < B) (h : PReach B progs s) (w : Nat)
    {ns : Ns} {v : Option Val} {rest : List (Ns × Option Val)}
    (hops : (s.ws w).ops = (ns, v) :: rest) (hready : (s.ws w).localReady = true) :
    ∃ st' r, (s.ws w).st.addTo (s.ws w).sup ns v = .ok (st', r) := by
  have inv := reach_inv hB h
  obtain ⟨st', r, e, -⟩ := local_spec hB inv.i1 inv.i2 w hops hready
  exact ⟨st', r, e⟩

/-- The progress measure of a finite set `W` of workers (the model has infinitely many workers,
    all of which have to `sync`, so a global measure would be infinite).  Per worker: remaining
    micro-ops, phase of the `preallocate` protocol, items not yet synced, lock still held. -/
def C06_measure (W : List Nat) (s : PState) : Nat := Par.total W s

/-- No step increases the measure; every *productive* step (`Par.productive`: any step except
    `syncRevRead`, `syncRevWrite`, and a `syncData` of an item that is already synced) of a worker
    in `W` strictly decreases it.  NB the excepted steps can be repeated for ever in the model:
    `sync`'s writes are not guarded by "not yet written". -/
theorem C06_progress_measure (hB : 0 < B) (h : PReach B progs s) (W : List Nat) {l : PLbl}
    {s' : PState} (hs : pstep s l = some s') :
    C06_measure W s' ≤ C06_measure W s ∧
    (productive s l → actor l ∈ W → C06_measure W s' < C06_measure W s) := by
  have inv := reach_inv hB h
  exact total_step hB inv.i1 inv.i2 inv.i5 (step_of_pstep hs) W

theorem C06_measure_zero (W : List Nat) (s : PState) :
    C06_measure W s = 0 ↔ ∀ w, w ∈ W → (s.ws w).pc = .done := total_eq_zero W s

/-- along any continuation of a reachable state, the workers in `W` make at most
    `C06_measure W s` productive steps: every schedule terminates up to the repeatable steps -/
theorem C06_bounded_work (hB : 0 < B) (h : PReach B progs s) (W : List Nat) {ls : List PLbl}
    {s' : PState} (hr : prun s ls = some s') :
    prodSteps W s ls + C06_measure W s' ≤ C06_measure W s :=
  prodSteps_le hB W ls s s' (reach_inv hB h) hr

/-- a worker in `sync` or `done` has executed its whole program -/
theorem C06_finished (hB : 0 < B) (h : PReach B progs s) (w : Nat)
    (hd : (s.ws w).pc = .sync ∨ (s.ws w).pc = .done) :
    (s.ws w).ops = [] ∧ (s.ws w).rets.length = (progs w).length := by
  have inv := reach_inv hB h
  have ho := inv.i5.fin w hd
  refine ⟨ho, ?_⟩
  have h1 := inv.i4.ops_eq w
  have h2 := inv.i4.len w
  rw [ho] at h1
  have := congrArg List.length h1
  simp only [List.length_nil, List.length_drop] at this
  omega

/-! ### 6. non-vacuity: B = 2, two workers alternating at every possible step

  Worker 0 stores a0 (tag t0) and b0; worker 1 stores a1 (tag t1) and a1 again (sequence id q1).
  Worker 0 is granted [0,2) and [4,6), worker 1 [2,4) and [6,8); worker 0 syncs under the lock,
  worker 1 without it. -/

def C06_demo_progs : Nat → List (Ns × Option Val)
  | 0 => microOps [(some "t0", none, some "a0"), (none, none, some "b0")]
  | 1 => microOps [(some "t1", none, some "a1"), (none, some "q1", some "a1")]
  | _ => []

def C06_demo_labels : List PLbl :=
  [ .acquire 0, .readPtr 0 0, .readPtr 0 0, .writePtr 0 2, .release 0,
    .acquire 1, .local_ 0, .readPtr 1 2, .local_ 0, .readPtr 1 2, .local_ 0, .writePtr 1 4,
    .release 1, .acquire 0, .local_ 1, .readPtr 0 4, .local_ 1, .readPtr 0 4, .local_ 1,
    .writePtr 0 6, .local_ 1, .release 0, .local_ 1, .local_ 0, .acquire 1, .local_ 0,
    .readPtr 1 6, .local_ 0, .readPtr 1 6, .writePtr 1 8, .release 1,
    .acquire 0, .local_ 1, .syncData 0 0 "a0", .syncStart 1, .syncData 0 1 "t0",
    .syncData 1 2 "a1", .syncData 0 4 "b0", .syncData 1 3 "t1",
    .syncRevRead 0 .value "a0" false, .syncData 1 6 "q1", .syncRevWrite 0 .value "a0" 0,
    .syncRevRead 1 .value "a1" false, .syncRevRead 0 .value "b0" false,
    .syncRevWrite 1 .value "a1" 2, .syncRevWrite 0 .value "b0" 4,
    .syncRevRead 1 .tag "t1" false, .syncRevRead 0 .tag "t0" false,
    .syncRevWrite 1 .tag "t1" 3, .syncRevWrite 0 .tag "t0" 1,
    .syncRevRead 1 .seq "q1" false, .release 0, .syncRevWrite 1 .seq "q1" 6,
    .syncDone 0, .syncDone 1 ]

/-- first-order view of a state (workers 0 and 1) -/
structure C06_Obs where
  ptr : Nat
  lock : Option Nat
  grants0 : List Nat
  grants1 : List Nat
  pc0 : PPc
  pc1 : PPc
  sdata : List (Nat × Val)
  rets0 : List (Option Nat)
  rets1 : List (Option Nat)
  data0 : List (Nat × Val)
  data1 : List (Nat × Val)
deriving DecidableEq, Repr

def C06_obs (s : PState) : C06_Obs :=
  { ptr := s.ptr, lock := s.lock, grants0 := (s.ws 0).grants, grants1 := (s.ws 1).grants,
    pc0 := (s.ws 0).pc, pc1 := (s.ws 1).pc, sdata := s.sdata,
    rets0 := (s.ws 0).rets, rets1 := (s.ws 1).rets,
    data0 := (s.ws 0).st.data, data1 := (s.ws 1).st.data }

example : (prun (PState.init 2 C06_demo_progs) C06_demo_labels).map C06_obs =
    some { ptr := 8, lock := none, grants0 := [0, 4], grants1 := [2, 6], pc0 := .done, pc1 := .done,
           sdata := [(6, "q1"), (3, "t1"), (4, "b0"), (2, "a1"), (1, "t0"), (0, "a0")],
           rets0 := [some 0, some 1, none, some 4, none, none],
           rets1 := [some 2, some 3, none, some 2, none, some 6],
           data0 := [(0, "a0"), (1, "t0"), (4, "b0")],
           data1 := [(2, "a1"), (3, "t1"), (6, "q1")] } := by decide

/-- the demo state is reachable, so all theorems above apply to it -/
example : ∃ s, PReach 2 C06_demo_progs s ∧ (s.ws 0).pc = .done ∧ (s.ws 1).pc = .done ∧
    s.sdata.lookup 4 = some "b0" ∧ s.sdata.lookup 2 = some "a1" := by
  have h : (prun (PState.init 2 C06_demo_progs) C06_demo_labels).isSome = true := by decide
  obtain ⟨s, hs⟩ := Option.isSome_iff_exists.mp h
  have ho : (prun (PState.init 2 C06_demo_progs) C06_demo_labels).map
      (fun s => ((s.ws 0).pc, (s.ws 1).pc, s.sdata.lookup 4, s.sdata.lookup 2)) =
      some (.done, .done, some "b0", some "a1") := by decide
  rw [hs] at ho
  simp only [Option.map_some, Option.some.injEq, Prod.mk.injEq] at ho
  exact ⟨s, ⟨_, hs⟩, ho.1, ho.2.1, ho.2.2.1, ho.2.2.2⟩

/-- the measure of the two workers goes from 112 to 0 along the demo run, in 43 productive steps
    (the other 12 steps are the reverse-map accesses) -/
example : C06_measure [0, 1] (PState.init 2 C06_demo_progs) = 112 ∧
    (prun (PState.init 2 C06_demo_progs) C06_demo_labels).map (C06_measure [0, 1]) = some 0 ∧
    prodSteps [0, 1] (PState.init 2 C06_demo_progs) C06_demo_labels = 43 := by decide

end Sk

#print axioms Sk.C06_disjoint
#print axioms Sk.C06_lock
#print axioms Sk.C06_local_inv
#print axioms Sk.C06_local_inv_any
#print axioms Sk.C06_indices_in_blocks
#print axioms Sk.C06_local_keys_nodup
#print axioms Sk.C06_no_shared_index
#print axioms Sk.C06_shared_data
#print axioms Sk.C06_shared_lookup_sound
#print axioms Sk.C06_resolve_worker
#print axioms Sk.C06_resolve
#print axioms Sk.C06_rets
#print axioms Sk.C06_rets_resolve
#print axioms Sk.C06_nodeadlock
#print axioms Sk.C06_nodeadlock_productive
#print axioms Sk.C06_no_alloc_error
#print axioms Sk.C06_progress_measure
#print axioms Sk.C06_measure_zero
#print axioms Sk.C06_bounded_work
#print axioms Sk.C06_finished
