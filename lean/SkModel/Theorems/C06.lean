/-
  C06 — concurrent workers of `ResultStoreParallel` (model: `SkModel.ParStore`).

  Every theorem holds for every block size `B > 0`, every assignment of programs to workers
  (`progs : Nat → List (Ns × Option Val)`, any number of workers) and every label sequence,
  i.e. every interleaving of the workers at the granularity of single shared-state accesses.
  They are corollaries of the invariants of `SkModel.Proofs.ParInv*`.
-/
import SkModel.Proofs.ParInv
import SkModel.Proofs.ParInvLocal
import SkModel.Proofs.ParInvSync

namespace Sk
open StoreInv Par

/-- states reachable from the initial state by some interleaving -/
def PReach (B : Nat) (progs : Nat → List (Ns × Option Val)) (s : PState) : Prop :=
  ∃ ls, prun (PState.init B progs) ls = some s

namespace Par

theorem prun_induct {P : PState → Prop}
    (hstep : ∀ s l s', P s → pstep s l = some s' → P s') :
    ∀ (ls : List PLbl) (s s' : PState), P s → prun s ls = some s' → P s'
  | [], s, s', h, hr => by simp only [prun, Option.some.injEq] at hr; subst hr; exact h
  | l :: ls, s, s', h, hr => by
    simp only [prun] at hr
    split at hr
    · rename_i s1 hs1
      exact prun_induct hstep ls s1 s' (hstep s l s1 h hs1) hr
    · cases hr

/-- all invariants together -/
structure Inv (B : Nat) (progs : Nat → List (Ns × Option Val)) (s : PState) : Prop where
  i1 : Inv1 B s
  i2 : Inv2 B s
  i3 : Inv3 s
  i4 : Inv4 progs s

theorem inv_init {B : Nat} (hB : 0 < B) (progs : Nat → List (Ns × Option Val)) :
    Inv B progs (PState.init B progs) :=
  ⟨Inv1.init B progs, Inv2.init hB progs, Inv3.init B progs, Inv4.init B progs⟩

theorem inv_step {B : Nat} {progs : Nat → List (Ns × Option Val)} {s : PState} {l : PLbl}
    {s' : PState} (hB : 0 < B) (h : Inv B progs s) (hs : pstep s l = some s') : Inv B progs s' := by
  have hs' := step_of_pstep hs
  exact ⟨inv1_step h.i1 hs', inv2_step hB h.i1 h.i2 hs', inv3_step hB h.i1 h.i2 h.i3 hs',
    inv4_step hB h.i1 h.i2 h.i4 hs'⟩

theorem reach_inv {B : Nat} {progs : Nat → List (Ns × Option Val)} {s : PState} (hB : 0 < B)
    (h : PReach B progs s) : Inv B progs s := by
  obtain ⟨ls, hr⟩ := h
  exact prun_induct (P := Inv B progs) (fun _ _ _ hi hs => inv_step hB hi hs) ls _ _
    (inv_init hB progs) hr

theorem reach_inv12 {B : Nat} {progs : Nat → List (Ns × Option Val)} {s : PState} (hB : 0 < B)
    (h : PReach B progs s) : Inv1 B s ∧ Inv2 B s :=
  ⟨(reach_inv hB h).i1, (reach_inv hB h).i2⟩

theorem reach_inv1 {B : Nat} {progs : Nat → List (Ns × Option Val)} {s : PState}
    (h : PReach B progs s) : Inv1 B s := by
  obtain ⟨ls, hr⟩ := h
  refine prun_induct (P := fun s => Inv1 B s) ?_ ls _ _ (Inv1.init B progs) hr
  intro s l s' h1 hs
  exact inv1_step h1 (step_of_pstep hs)

end Par

variable {B : Nat} {progs : Nat → List (Ns × Option Val)} {s : PState}

/-! ### 1. blocks granted to workers never overlap, and lie below the pointer -/

theorem C06_disjoint (h : PReach B progs s) :
    (∀ (w1 w2 i1 i2 : Nat) (h1 : i1 < (s.ws w1).grants.length) (h2 : i2 < (s.ws w2).grants.length),
      (w1, i1) ≠ (w2, i2) →
      (s.ws w1).grants[i1] + B ≤ (s.ws w2).grants[i2] ∨
      (s.ws w2).grants[i2] + B ≤ (s.ws w1).grants[i1]) ∧
    (∀ w g, g ∈ (s.ws w).grants → g + B ≤ s.ptr) := by
  have inv := reach_inv1 h
  refine ⟨?_, inv.below⟩
  intro w1 w2 i1 i2 h1 h2 hne
  refine inv.disj w1 w2 i1 i2 _ _ (List.getElem?_eq_getElem h1) (List.getElem?_eq_getElem h2) ?_
  rintro rfl rfl; exact hne rfl

/-- the lock discipline behind it: a worker inside `preallocate` holds the lock, the lock holder
    is inside `preallocate` or `sync`, and what the holder has read is still the pointer -/
theorem C06_lock (h : PReach B progs s) :
    s.B = B ∧
    (∀ w, (s.ws w).pc = .locked ∨ (s.ws w).pc = .read1 ∨ (s.ws w).pc = .read2 ∨ (s.ws w).pc = .wrote →
      s.lock = some w) ∧
    (∀ w, s.lock = some w → (s.ws w).pc = .locked ∨ (s.ws w).pc = .read1 ∨ (s.ws w).pc = .read2 ∨
      (s.ws w).pc = .wrote ∨ (s.ws w).pc = .sync) ∧
    (∀ w, (s.ws w).pc = .read1 ∨ (s.ws w).pc = .read2 → (s.ws w).r1 = s.ptr) ∧
    (∀ w, (s.ws w).pc = .read2 → (s.ws w).r2 = s.ptr) := by
  have inv := reach_inv1 h
  refine ⟨inv.hB, ?_, ?_, inv.r1ok, inv.r2ok⟩
  · intro w hc
    apply inv.holds
    rcases hc with hc | hc | hc | hc <;> simp [hc, crit]
  · intro w hl
    rcases inv.held w hl with hc | hc
    · revert hc
      cases (s.ws w).pc <;> simp [crit]
    · simp [hc]

/-! ### 2. every worker's local store satisfies the C15 invariant w.r.t. its own grants -/

/-- The local store of worker `w` satisfies `Store.Inv` for a totally disjoint supplier that
    agrees with `PW.sup` on the blocks granted so far (and continues with fresh blocks above the
    pointer); and `w` holds at most one block it has not started to use. -/
theorem C06_local_inv (hB : 0 < B) (h : PReach B progs s) (w : Nat) :
    (∃ sup' : Nat → Nat,
      (∀ i j, i ≠ j → sup' i + B ≤ sup' j ∨ sup' j + B ≤ sup' i) ∧
      (∀ k, k < (s.ws w).grants.length → sup' k = (s.ws w).sup k) ∧
      Store.Inv B true sup' (s.ws w).st) ∧
    (s.ws w).st.nblocks ≤ (s.ws w).grants.length ∧
    (s.ws w).grants.length ≤ (s.ws w).st.nblocks + 1 := by
  obtain ⟨h1, h2⟩ := reach_inv12 hB h
  refine ⟨⟨supx B s.ptr (s.ws w).grants, h1.supx_disjoint w, ?_, h2.linv w⟩, h2.nb_le w, h2.gl_le w⟩
  intro k hk; rw [supx_lt hk, sup_lt hk]

/-- … hence for *every* supplier that agrees with `PW.sup` on the granted blocks -/
theorem C06_local_inv_any (hB : 0 < B) (h : PReach B progs s) (w : Nat) (sup' : Nat → Nat)
    (hs : ∀ k, k < (s.ws w).grants.length → sup' k = (s.ws w).sup k) :
    Store.Inv B true sup' (s.ws w).st := by
  obtain ⟨-, h2⟩ := reach_inv12 hB h
  refine inv_congr_sup hB ?_ (h2.linv w)
  intro k hk
  have hk' : k < (s.ws w).grants.length := by have := h2.nb_le w; omega
  rw [hs k hk', supx_lt hk', sup_lt hk']

/-- every index of the local store lies in one of the worker's granted blocks -/
theorem C06_indices_in_blocks (hB : 0 < B) (h : PReach B progs s) (w : Nat) :
    ∀ i ∈ (s.ws w).st.data.map (·.1), ∃ g ∈ (s.ws w).grants, g ≤ i ∧ i < g + B := by
  obtain ⟨-, h2⟩ := reach_inv12 hB h
  intro i hi
  rw [(h2.linv w).keys, List.mem_map] at hi
  obtain ⟨j, hj, rfl⟩ := hi
  rw [List.mem_range] at hj
  have hq : j / B < (s.ws w).grants.length := by
    have := h2.nb_le w
    have h3 : (s.ws w).st.nblocks = ((s.ws w).st.data.length + B - 1) / B := (h2.linv w).nblk
    have := div_lt_nblk hB hj
    omega
  refine ⟨(s.ws w).grants[j / B], List.getElem_mem hq, ?_⟩
  simp only [slot, if_true, supx_lt hq]
  have := Nat.mod_lt j hB
  omega

/-- the indices of a local store are pairwise distinct (one value per index) -/
theorem C06_local_keys_nodup (hB : 0 < B) (h : PReach B progs s) (w : Nat) :
    ((s.ws w).st.data.map (·.1)).Nodup := by
  obtain ⟨h1, h2⟩ := reach_inv12 hB h
  exact (h2.linv w).keys_nodup hB (h1.supx_disjoint w)

/-! ### 3. two workers never hand out the same index -/

theorem C06_no_shared_index (hB : 0 < B) (h : PReach B progs s) {w1 w2 : Nat} (hne : w1 ≠ w2) :
    ∀ i1 ∈ (s.ws w1).st.data.map (·.1), ∀ i2 ∈ (s.ws w2).st.data.map (·.1), i1 ≠ i2 := by
  intro i1 hi1 i2 hi2 e
  subst e
  obtain ⟨g1, hg1, a1, b1⟩ := C06_indices_in_blocks hB h w1 i1 hi1
  obtain ⟨g2, hg2, a2, b2⟩ := C06_indices_in_blocks hB h w2 i1 hi2
  obtain ⟨k1, hk1⟩ := List.getElem?_of_mem hg1
  obtain ⟨k2, hk2⟩ := List.getElem?_of_mem hg2
  have := (reach_inv1 h).disj w1 w2 k1 k2 g1 g2 hk1 hk2 (fun e => absurd e hne)
  omega

/-! ### 4. after `sync`, every index a worker handed out resolves in the shared store -/

/-- the shared data only contains items of local stores, and contains what was synced -/
theorem C06_shared_data (hB : 0 < B) (h : PReach B progs s) :
    (∀ e, e ∈ s.sdata → ∃ w, e ∈ (s.ws w).st.data) ∧
    (∀ w e, e ∈ (s.ws w).synced → e ∈ s.sdata) ∧
    (∀ w, (s.ws w).pc = .done → ∀ e, e ∈ (s.ws w).st.data → e ∈ (s.ws w).synced) :=
  ⟨(reach_inv hB h).i3.sd_src, (reach_inv hB h).i3.synced_sub, (reach_inv hB h).i3.done_all⟩

/-- whatever the shared store returns for an index of worker `w` is `w`'s value — at any time,
    whether or not anybody has finished -/
theorem C06_shared_lookup_sound (hB : 0 < B) (h : PReach B progs s) {w idx : Nat} {v v' : Val}
    (hm : (idx, v) ∈ (s.ws w).st.data) (hl : s.sdata.lookup idx = some v') : v' = v := by
  have inv := reach_inv hB h
  obtain ⟨w', hw'⟩ := inv.i3.sd_src _ (mem_of_lookup hl)
  have hk : idx ∈ (s.ws w).st.data.map (·.1) := List.mem_map.mpr ⟨(idx, v), hm, rfl⟩
  have hk' : idx ∈ (s.ws w').st.data.map (·.1) := List.mem_map.mpr ⟨(idx, v'), hw', rfl⟩
  by_cases hww : w' = w
  · subst hww
    have hn := C06_local_keys_nodup hB h w'
    have e1 := lookup_of_mem hn hm
    have e2 := lookup_of_mem hn hw'
    rw [e1] at e2; exact (Option.some.inj e2).symm
  · exact absurd rfl (C06_no_shared_index hB h hww idx hk' idx hk)

/-- a worker that has finished `sync` finds every one of its items in the shared store
    (the other workers may still be running) -/
theorem C06_resolve_worker (hB : 0 < B) (h : PReach B progs s) {w : Nat}
    (hd : (s.ws w).pc = .done) :
    ∀ idx v, (idx, v) ∈ (s.ws w).st.data → s.sdata.lookup idx = some v := by
  intro idx v hm
  have inv := reach_inv hB h
  have hsd : (idx, v) ∈ s.sdata := inv.i3.synced_sub w _ (inv.i3.done_all w hd _ hm)
  cases hl : s.sdata.lookup idx with
  | none =>
    have := List.lookup_eq_none_iff.mp hl (idx, v) hsd
    simp at this
  | some v' => rw [C06_shared_lookup_sound hB h hm hl]

theorem C06_resolve (hB : 0 < B) (h : PReach B progs s) (hd : ∀ w, (s.ws w).pc = .done) :
    ∀ w idx v, (idx, v) ∈ (s.ws w).st.data → s.sdata.lookup idx = some v :=
  fun w => C06_resolve_worker hB h (hd w)

/-- The micro-operations executed so far are a prefix of the program, one return value each;
    the index returned for a stored value resolves to it in the local store. -/
theorem C06_rets (hB : 0 < B) (h : PReach B progs s) (w : Nat) :
    (s.ws w).ops = (progs w).drop (s.ws w).rets.length ∧
    (s.ws w).rets.length ≤ (progs w).length ∧
    (∀ (k : Nat) (ns : Ns), k < (s.ws w).rets.length → (progs w)[k]? = some (ns, none) →
      (s.ws w).rets[k]? = some none) ∧
    (∀ (k : Nat) (ns : Ns) (x : Val), k < (s.ws w).rets.length → (progs w)[k]? = some (ns, some x) →
      ∃ i, (s.ws w).rets[k]? = some (some i) ∧ (s.ws w).st.get i = some x) := by
  have inv := reach_inv hB h
  refine ⟨inv.i4.ops_eq w, inv.i4.len w, ?_, ?_⟩
  · intro k ns hk hop
    obtain ⟨r, hr, hret⟩ := inv.i4.ret w k _ hk hop
    rw [hr, hret.1 rfl]
  · intro k ns x hk hop
    obtain ⟨r, hr, hret⟩ := inv.i4.ret w k _ hk hop
    obtain ⟨i, rfl, hm⟩ := hret.2 x rfl
    exact ⟨i, hr, lookup_of_mem (C06_local_keys_nodup hB h w) hm⟩

/-- every index a finished worker returned resolves in the shared store to the value stored
    under it -/
theorem C06_rets_resolve (hB : 0 < B) (h : PReach B progs s) {w : Nat}
    (hd : (s.ws w).pc = .done) (k : Nat) (ns : Ns) (x : Val)
    (hk : k < (s.ws w).rets.length) (hop : (progs w)[k]? = some (ns, some x)) :
    ∃ i, (s.ws w).rets[k]? = some (some i) ∧ s.sdata.lookup i = some x := by
  obtain ⟨-, -, -, hr⟩ := C06_rets hB h w
  obtain ⟨i, h1, h2⟩ := hr k ns x hk hop
  exact ⟨i, h1, C06_resolve_worker hB h hd i x (mem_of_lookup h2)⟩

end Sk

#print axioms Sk.C06_disjoint
#print axioms Sk.C06_lock
#print axioms Sk.C06_local_inv
#print axioms Sk.C06_local_inv_any
#print axioms Sk.C06_indices_in_blocks
#print axioms Sk.C06_local_keys_nodup
#print axioms Sk.C06_no_shared_index
#print axioms Sk.C06_shared_data
#print axioms Sk.C06_shared_lookup_sound
#print axioms Sk.C06_resolve_worker
#print axioms Sk.C06_resolve
#print axioms Sk.C06_rets
#print axioms Sk.C06_rets_resolve
