/-
  C13 — content alone cannot make a search fail.

  With a lenient decode policy (every line decodes) the run returns normally; with strict
  decoding it raises UnicodeDecodeError exactly when some searched line is not valid
  UTF-8; content never causes any other failure.

  The hypothesis `Def.WF` is a condition on the *configuration* (and on what the regular
  expressions can return), not on the content: when field names are used, every captured
  group has one (`field_info` has as many names as the pattern has groups, and patterns
  have at least one group).  The last examples show it is needed: a definition whose
  field list is shorter than its groups does raise FileSearchException.

  Termination is by construction: every model function is total, defined by structural
  recursion with the code's own fuel.
-/
import SkModel.Gzip
import SkModel.Proofs.Outcome
import SkModel.Theorems.C12

namespace Sk

open Out

/-- `store_result` never raises for a match a well-formed definition can produce -/
theorem mkParts_ok {d : SDef} {m : Match} (hwf : d.WF)
    (hm : (∃ i, d.run i = some m) ∨ d.emptyRes = some m) : ∃ ps, mkParts d m = .ok ps :=
  mkParts_isOk hwf hm

/-- a definition never raises on a line, whatever its state -/
theorem defStep_ok (i : Nat) (d : Def) (st : DSt) (hwf : d.WF) :
    ∃ r, defStep i d st = .ok r :=
  defStep_isOk hwf

/-- one line fails iff it does not decode, and then with UnicodeDecodeError -/
theorem lineStep_outcome (dec : Nat → Bool) (defs : List Def) (ls : LSt) (i : Nat)
    (hwf : ∀ d ∈ defs, d.WF) :
    (dec i = true → ∃ ls', lineStep dec defs ls i = .ok ls') ∧
    (dec i = false → lineStep dec defs ls i = .error .unicodeDecode) :=
  ⟨fun h => lineStep_dec hwf h, fun h => lineStep_undec h⟩

/-- the loop over an arbitrary list of lines fails iff some line of the list does not
    decode, and then with UnicodeDecodeError -/
theorem linesLoop_outcome (dec : Nat → Bool) (defs : List Def) (ls : LSt) (is : List Nat)
    (hwf : ∀ d ∈ defs, d.WF) :
    ((∀ i ∈ is, dec i = true) → ∃ ls', linesLoop dec defs ls is = .ok ls') ∧
    ((∃ i ∈ is, dec i = false) → linesLoop dec defs ls is = .error .unicodeDecode) :=
  ⟨fun h => linesLoop_isOk hwf is ls h, fun h => linesLoop_undec hwf is ls h⟩

theorem C13_task_outcome (t : TaskIn) (hwf : ∀ d ∈ t.defs, d.WF) :
    ((∀ i, i < t.n → t.dec i = true) → ∃ rs st, runTask t = .ok (rs, st)) ∧
    ((∃ i, i < t.n ∧ t.dec i = false) → runTask t = .error .unicodeDecode) ∧
    (∀ e, runTask t = .error e → e = .unicodeDecode) := by
  have hd := dedup_wf hwf
  have hok : (∀ i, i < t.n → t.dec i = true) → ∃ rs st, runTask t = .ok (rs, st) := by
    intro hall
    have : IsOk (runTask t) := by
      unfold runTask
      refine isOk_bind (linesLoop_isOk hd _ _ ?_) fun ls _ => ?_
      · intro i hi; exact hall i (List.mem_range.mp hi)
      · exact isOk_bind (eofAll_isOk t.n _ ls.sts hd) fun _ _ => isOk_pure _
    obtain ⟨⟨rs, st⟩, h⟩ := this
    exact ⟨rs, st, h⟩
  have herr : (∃ i, i < t.n ∧ t.dec i = false) → runTask t = .error .unicodeDecode := by
    rintro ⟨i, hi, hdec⟩
    unfold runTask
    exact error_bind (linesLoop_undec hd _ _ ⟨i, List.mem_range.mpr hi, hdec⟩)
  refine ⟨hok, herr, ?_⟩
  intro e he
  by_cases hall : ∀ i, i < t.n → t.dec i = true
  · obtain ⟨rs, st, h⟩ := hok hall
    rw [h] at he; cases he
  · have hex : ∃ i, i < t.n ∧ t.dec i = false := by
      apply Classical.byContradiction
      intro hne
      apply hall
      intro i hi
      cases hdi : t.dec i with
      | true => rfl
      | false => exact absurd ⟨i, hi, hdi⟩ hne
    rw [herr hex] at he
    cases he; rfl

/-- strict decoding: the run raises UnicodeDecodeError exactly when some searched line is
    not valid UTF-8 -/
theorem C13_task_iff (t : TaskIn) (hwf : ∀ d ∈ t.defs, d.WF) :
    runTask t = .error .unicodeDecode ↔ ∃ i, i < t.n ∧ t.dec i = false := by
  obtain ⟨h1, h2, _⟩ := C13_task_outcome t hwf
  refine ⟨fun he => ?_, h2⟩
  apply Classical.byContradiction
  intro hne
  have hall : ∀ i, i < t.n → t.dec i = true := by
    intro i hi
    cases hdi : t.dec i with
    | true => rfl
    | false => exact absurd ⟨i, hi, hdi⟩ hne
  obtain ⟨rs, st, h⟩ := h1 hall
  rw [h] at he; cases he

/-- C13 for a file on disk (plain or gzip), with an optional file-level constraint.

    The seek never raises (`startPos_ok`, from `seek_no_assert`): the seeker's `assert`s,
    its "section id is None" check and store allocation errors are not even constructors
    reachable here - `SeekErr` is only the internal assertion channel, which is shown
    unreachable for `0 < K.H`; `executeDisk` would surface it as `.fileSearch`, and the
    theorem says that never happens. -/
theorem C13_file_outcome (cfg : FileCfg) (d : DiskFile)
    (hK : ∀ K ts since, cfg.seek = some (K, ts, since) → 0 < K.H)
    (hwf : ∀ p, ∀ df ∈ (cfg.mkTask d.content p).defs, df.WF) :
    (∀ e, executeDisk cfg d = .error e → e = .unicodeDecode) ∧
    ((∀ p i, (cfg.mkTask d.content p).dec i = true) → ∃ rs st, executeDisk cfg d = .ok (rs, st)) := by
  rcases C12_outcome cfg d hK with hz | ⟨p, hp⟩
  · have : executeDisk cfg d = .ok ([], { lines := 0, results := 0 }) := by
      simp only [executeDisk, hz, if_true]
    exact ⟨fun e he => (by rw [this] at he; cases he), fun _ => ⟨_, _, this⟩⟩
  · obtain ⟨h1, _, h3⟩ := C13_task_outcome (cfg.mkTask d.content p) (hwf p)
    rw [hp]
    exact ⟨h3, fun hdec => h1 fun i _ => hdec p i⟩

/-! ### non-vacuity -/

namespace C13ex

/-- one capturing group, matching every line -/
def m1 : Match := { g0 := "s:ab", groups := [some "s:a"] }
/-- two capturing groups -/
def m2 : Match := { g0 := "s:ab", groups := [some "s:a", some "s:b"] }

def good : Def :=
  { id := 1, kind := .simple { pats := [fun _ => some m1], fields := some ["f1"] } }

/-- mis-configured: two groups, one field name -/
def bad : Def :=
  { id := 2, kind := .simple { pats := [fun _ => some m2], fields := some ["f1"] } }

def strict : TaskIn := { n := 3, dec := fun i => i != 1, defs := [good] }
def lenient : TaskIn := { n := 3, dec := fun _ => true, defs := [good] }
def misconf : TaskIn := { n := 3, dec := fun _ => true, defs := [bad] }

/-- `Except` has no `DecidableEq` in core; a local one so that the examples go by `decide` -/
local instance {α : Type} [DecidableEq α] : DecidableEq (Except Err α) := fun a b =>
  match a, b with
  | .ok x, .ok y => if h : x = y then isTrue (by rw [h]) else isFalse (fun h' => by cases h'; exact h rfl)
  | .error x, .error y =>
    if h : x = y then isTrue (by rw [h]) else isFalse (fun h' => by cases h'; exact h rfl)
  | .ok _, .error _ => isFalse (fun h => by cases h)
  | .error _, .ok _ => isFalse (fun h => by cases h)

/-- the well-formed definition is well-formed -/
example : good.WF := by
  refine Or.inr (Or.inr ⟨["f1"], rfl, ?_⟩)
  intro m hm
  have : m = m1 := by
    rcases hm with ⟨i, hi⟩ | he
    · simp [SDef.run] at hi; exact hi.symm
    · cases he
  subst this
  decide

/-- a 3-line task whose line 1 does not decode raises UnicodeDecodeError -/
example : runTask strict = .error .unicodeDecode := by decide

/-- the same content under a lenient policy returns normally -/
example : (runTask lenient).toBool = true := by decide

example : runTask lenient = .ok
    ([ { src := 1, ln := 1, tag := none, seqId := none, sec := none,
         parts := [⟨1, some "s:a", some "f1"⟩], fields := some ["f1"] },
       { src := 1, ln := 2, tag := none, seqId := none, sec := none,
         parts := [⟨1, some "s:a", some "f1"⟩], fields := some ["f1"] },
       { src := 1, ln := 3, tag := none, seqId := none, sec := none,
         parts := [⟨1, some "s:a", some "f1"⟩], fields := some ["f1"] } ],
     { lines := 3, results := 3 }) := by decide

/-- a mis-configured definition (fewer field names than groups) DOES raise
    FileSearchException although every line decodes: WF is needed -/
example : runTask misconf = .error .fileSearch := by decide

/-- and it is indeed not well-formed -/
example : ¬ bad.WF := by
  intro h
  rcases h with h | h | ⟨fs, hfs, hall⟩
  · cases h
  · cases h
  · cases hfs
    have := (hall m2 (Or.inl ⟨0, rfl⟩)).2
    exact absurd this (by decide)

end C13ex

end Sk

#print axioms Sk.mkParts_ok
#print axioms Sk.defStep_ok
#print axioms Sk.lineStep_outcome
#print axioms Sk.linesLoop_outcome
#print axioms Sk.C13_task_outcome
#print axioms Sk.C13_task_iff
#print axioms Sk.C13_file_outcome
