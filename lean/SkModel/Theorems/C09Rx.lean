/-
  SkModel.Theorems.C09Rx — the hand-written model of the three regular expressions of the
  log-rotation code (SkModel.NameRx) does what the oracle of SkModel.Catalog assumes on
  well-formed names: `stem.log` is the live log (key 0), `stem.log.N` / `stem.log.N.gz` are
  rotated copies of the same stem with key N, names without ".log" are plain; and, end to end,
  a directory with one log keeps the live log and the `depth` lowest-numbered copies in
  numeric order.  Helper lemmas live in `Sk.Rx`.
-/
import SkModel.NameRx
import SkModel.Theorems.C09

namespace Sk

/-- a well-formed log stem: non-empty, no white space (`\S+`) -/
def WFStem (s : List Char) : Prop := s ≠ [] ∧ allNonSpace s = true

instance (s : List Char) : Decidable (WFStem s) := by unfold WFStem; infer_instance

/-- `stem.log` -/
def liveName (stem : List Char) : List Char := stem ++ dotLog
/-- `stem.log.N` -/
def rotName (stem : List Char) (n : Nat) : List Char := stem ++ dotLog ++ '.' :: Nat.toDigits 10 n
/-- `stem.log.N.gz` -/
def rotGzName (stem : List Char) (n : Nat) : List Char := rotName stem n ++ ['.', 'g', 'z']

end Sk

namespace Sk.Rx
open Sk

/-! ### characters -/

theorem digit_cases {c : Char} (h : isDigitCh c = true) :
    c = '0' ∨ c = '1' ∨ c = '2' ∨ c = '3' ∨ c = '4' ∨ c = '5' ∨ c = '6' ∨ c = '7' ∨ c = '8' ∨
      c = '9' := by
  simp only [isDigitCh, Bool.and_eq_true, decide_eq_true_eq] at h
  have hc := Char.ofNat_toNat c
  have : c.toNat = 48 ∨ c.toNat = 49 ∨ c.toNat = 50 ∨ c.toNat = 51 ∨ c.toNat = 52 ∨
      c.toNat = 53 ∨ c.toNat = 54 ∨ c.toNat = 55 ∨ c.toNat = 56 ∨ c.toNat = 57 := by omega
  rcases this with h | h | h | h | h | h | h | h | h | h <;> rw [h] at hc <;> subst hc <;> decide

theorem digit_nonSpace {c : Char} (h : isDigitCh c = true) : isSpaceCh c = false := by
  rcases digit_cases h with h | h | h | h | h | h | h | h | h | h <;> subst h <;> decide

theorem digit_ne {c x : Char} (h : isDigitCh c = true) (hx : isDigitCh x = false) : c ≠ x := by
  intro e; subst e; rw [h] at hx; cases hx

theorem isDigitCh_of_isDigit {c : Char} (h : c.isDigit = true) : isDigitCh c = true := by
  simp only [Char.isDigit, Bool.and_eq_true, decide_eq_true_eq] at h
  simp only [isDigitCh, Bool.and_eq_true, decide_eq_true_eq]
  have h1 : (48 : Nat) ≤ c.val.toNat := by simpa using (UInt32.le_iff_toNat_le.1 h.1)
  have h2 : c.val.toNat ≤ 57 := by simpa using (UInt32.le_iff_toNat_le.1 h.2)
  exact ⟨h1, h2⟩

theorem digits_isDigit (n : Nat) : ∀ c ∈ Nat.toDigits 10 n, isDigitCh c = true :=
  fun _ hc => isDigitCh_of_isDigit (Nat.isDigit_of_mem_toDigits (by decide) (by decide) hc)

theorem natOfDigits_toDigits (n : Nat) : natOfDigits (Nat.toDigits 10 n) = n :=
  Nat.ofDigitChars_ten_toDigits

/-! ### lists -/

theorem allNonSpace_append (a b : List Char) :
    allNonSpace (a ++ b) = (allNonSpace a && allNonSpace b) := by
  simp [allNonSpace]

theorem allNonSpace_of_digits {ds : List Char} (h : ∀ c ∈ ds, isDigitCh c = true) :
    allNonSpace ds = true := by
  unfold allNonSpace
  rw [List.all_eq_true]
  intro c hc
  simp [digit_nonSpace (h c hc)]

theorem nonSpaceRun_of_all {s : List Char} (h : allNonSpace s = true) : nonSpaceRun s = s := by
  induction s with
  | nil => rfl
  | cons c s ih =>
    simp only [allNonSpace, List.all_cons, Bool.and_eq_true] at h
    simp only [nonSpaceRun, List.takeWhile_cons, h.1, if_true]
    congr 1
    exact ih (by simpa [allNonSpace] using h.2)

/-- head of the reversed filtered range: the largest index satisfying `p` -/
theorem range_filter_reverse_head (p : Nat → Bool) (k : Nat) (hk : p k = true) :
    ∀ n, k < n → (∀ i, k < i → i < n → p i = false) →
      ∃ rest, ((List.range n).filter p).reverse = k :: rest := by
  intro n
  induction n with
  | zero => intro h; omega
  | succ n ih =>
    intro hkn hgt
    rw [List.range_succ, List.filter_append, List.reverse_append]
    by_cases hkn' : k = n
    · subst hkn'
      exact ⟨((List.range k).filter p).reverse, by simp [hk]⟩
    · have hpn : p n = false := hgt n (by omega) (by omega)
      obtain ⟨rest, hr⟩ := ih (by omega) (fun i h1 h2 => hgt i h1 (by omega))
      exact ⟨rest, by simp [hpn, hr]⟩

theorem range_filter_reverse_nil (p : Nat → Bool) (n : Nat) (h : ∀ i, i < n → p i = false) :
    ((List.range n).filter p).reverse = [] := by
  rw [List.reverse_eq_nil_iff, List.filter_eq_nil_iff]
  intro i hi
  simp [h i (List.mem_range.1 hi)]

theorem takeWhile_append_stop {p : Char → Bool} {a b : List Char} {x : Char}
    (ha : ∀ c ∈ a, p c = true) (hx : p x = false) : (a ++ x :: b).takeWhile p = a := by
  induction a with
  | nil => simp [hx]
  | cons c a ih =>
    simp only [List.cons_append, List.takeWhile_cons, ha c List.mem_cons_self, if_true]
    congr 1
    exact ih (fun c hc => ha c (List.mem_cons_of_mem _ hc))

theorem endsWith_append_self (suf a : List Char) : endsWith suf (a ++ suf) = true := by
  unfold endsWith
  rw [List.reverse_append, List.isPrefixOf_iff_prefix]
  exact List.prefix_append _ _

/-- a string whose last character is not `g` does not end with ".log" -/
theorem endsWith_dotLog_false (s : List Char) (c : Char) (hc : c ≠ 'g') :
    endsWith dotLog (s ++ [c]) = false := by
  unfold endsWith dotLog
  have : ('g' == c) = false := by simpa using fun h : 'g' = c => hc h.symm
  simp [List.isPrefixOf, this]

theorem stripFinalNL_concat (s : List Char) (c : Char) (hc : c ≠ '\n') :
    stripFinalNL (s ++ [c]) = s ++ [c] := by
  unfold stripFinalNL
  split
  · rename_i r heq
    simp at heq
    exact absurd heq.1 hc
  · rfl

/-- if `l` does not occur in `t`, ".log" starts nowhere in `t` -/
theorem no_dotLog_of_no_l {t : List Char} (h : 'l' ∉ t) (j : Nat) :
    dotLog.isPrefixOf (t.drop j) = false := by
  cases hp : dotLog.isPrefixOf (t.drop j) with
  | false => rfl
  | true =>
    rw [List.isPrefixOf_iff_prefix] at hp
    have : 'l' ∈ t.drop j := hp.subset (by simp [dotLog])
    exact absurd (List.mem_of_mem_drop this) h


/-! ### the regular expressions -/

theorem no_dotLog_after {t : List Char} (hl : 'l' ∉ t) (j : Nat) (hj : 1 ≤ j) :
    dotLog.isPrefixOf ((dotLog ++ t).drop j) = false := by
  match j, hj with
  | 1, _ => simp [dotLog, List.isPrefixOf]
  | 2, _ => simp [dotLog, List.isPrefixOf]
  | 3, _ => simp [dotLog, List.isPrefixOf]
  | j + 4, _ => exact no_dotLog_of_no_l hl j

theorem dotLogPositions_head (stem t : List Char) (hs : stem ≠ []) (hl : 'l' ∉ t) :
    ∃ rest, dotLogPositions (stem ++ dotLog ++ t) = stem.length :: rest := by
  have hlen : 1 ≤ stem.length := List.length_pos_iff.2 hs
  unfold dotLogPositions
  apply range_filter_reverse_head
  · have : (stem ++ dotLog ++ t).drop stem.length = dotLog ++ t := by
      rw [List.append_assoc, List.drop_left' rfl]
    rw [this]
    simp [startsWith, List.isPrefixOf_iff_prefix, hlen]
  · simp [dotLog]
  · intro i h1 _
    have : (stem ++ dotLog ++ t).drop i = (dotLog ++ t).drop (i - stem.length) := by
      rw [List.append_assoc, List.drop_append, List.drop_eq_nil_of_le (by omega), List.nil_append]
    rw [this]
    simp [startsWith, no_dotLog_after hl (i - stem.length) (by omega)]


theorem rxStemLog_eq (stem t : List Char) (h : WFStem stem) (ht : allNonSpace t = true)
    (hl : 'l' ∉ t) : rxStemLog (stem ++ dotLog ++ t) = some stem := by
  have hall : allNonSpace (stem ++ dotLog ++ t) = true := by
    rw [allNonSpace_append, allNonSpace_append, h.2, ht]; decide
  obtain ⟨rest, hr⟩ := dotLogPositions_head stem t h.1 hl
  unfold rxStemLog
  simp only [nonSpaceRun_of_all hall, hr]
  rw [List.append_assoc, List.take_left' rfl]

/-- classification of `stem ++ ".log" ++ t` when `t` is non-space and has no `l` -/
theorem classify_eq (stem t : List Char) (h : WFStem stem) (ht : allNonSpace t = true)
    (hl : 'l' ∉ t) :
    classifyName (String.ofList (stem ++ dotLog ++ t)) =
      if endsWith dotLog (stem ++ dotLog ++ t) then .live (String.ofList stem)
      else .rotated (String.ofList stem) := by
  unfold classifyName
  simp only [String.toList_ofList, rxStemLog_eq stem t h ht hl]

theorem digits_ne_nil (n : Nat) : Nat.toDigits 10 n ≠ [] := Nat.toDigits_ne_nil

/-- a non-empty digit list ends with a digit -/
theorem digits_concat {ds : List Char} (hne : ds ≠ []) (hd : ∀ c ∈ ds, isDigitCh c = true) :
    ∃ init d, ds = init ++ [d] ∧ isDigitCh d = true := by
  refine ⟨ds.dropLast, ds.getLast hne, (List.dropLast_concat_getLast hne).symm, ?_⟩
  exact hd _ (List.getLast_mem hne)

theorem l_not_digit {ds : List Char} (hd : ∀ c ∈ ds, isDigitCh c = true) : 'l' ∉ ds :=
  fun h => absurd (hd _ h) (by decide)

theorem splitTrailingDigits_eq (p ds : List Char) (hd : ∀ c ∈ ds, isDigitCh c = true) :
    splitTrailingDigits (p ++ '.' :: ds) = (p ++ ['.'], ds) := by
  unfold splitTrailingDigits
  have hrev : (p ++ '.' :: ds).reverse = ds.reverse ++ '.' :: p.reverse := by simp
  have htw : (ds.reverse ++ '.' :: p.reverse).takeWhile isDigitCh = ds.reverse :=
    takeWhile_append_stop (fun c hc => hd c (List.mem_reverse.1 hc)) (by decide)
  simp only [hrev, htw, List.drop_left' rfl]
  simp

/-- `\S+\.log\.(\d+)` on `stem.log.<digits>` -/
theorem rxLogN_eq (stem ds : List Char) (h : WFStem stem) (hne : ds ≠ [])
    (hd : ∀ c ∈ ds, isDigitCh c = true) :
    rxLogN (stem ++ dotLog ++ '.' :: ds) = some (natOfDigits ds) := by
  have hall : allNonSpace (stem ++ dotLog ++ '.' :: ds) = true := by
    rw [allNonSpace_append, allNonSpace_append, h.2,
      show '.' :: ds = ['.'] ++ ds from rfl, allNonSpace_append, allNonSpace_of_digits hd]
    decide
  have hends : endsWith (dotLog ++ ['.']) (stem ++ dotLog ++ ['.']) = true := by
    rw [List.append_assoc]; exact endsWith_append_self _ _
  have hemp : ds.isEmpty = false := by cases ds with | nil => exact absurd rfl hne | cons => rfl
  unfold rxLogN
  rw [splitTrailingDigits_eq _ ds hd]
  simp only [hall, hends, hemp]
  simp [dotLog, h.1]

end Sk.Rx

namespace Sk.Rx
open Sk

theorem rot_facts (stem ds : List Char) (h : WFStem stem) (hne : ds ≠ [])
    (hd : ∀ c ∈ ds, isDigitCh c = true) :
    classifyName (String.ofList (stem ++ dotLog ++ '.' :: ds)) = .rotated (String.ofList stem) ∧
    logrotateKey (stem ++ dotLog ++ '.' :: ds) = natOfDigits ds := by
  obtain ⟨init, d, hds, hdd⟩ := digits_concat hne hd
  have hshape : stem ++ dotLog ++ '.' :: ds = (stem ++ dotLog ++ '.' :: init) ++ [d] := by
    rw [hds]; simp
  have hends : endsWith dotLog (stem ++ dotLog ++ '.' :: ds) = false := by
    rw [hshape]; exact endsWith_dotLog_false _ _ (digit_ne hdd (by decide))
  have hstrip : stripFinalNL (stem ++ dotLog ++ '.' :: ds) = stem ++ dotLog ++ '.' :: ds := by
    rw [hshape]; exact stripFinalNL_concat _ _ (digit_ne hdd (by decide))
  have ht : allNonSpace ('.' :: ds) = true := by
    rw [show '.' :: ds = ['.'] ++ ds from rfl, allNonSpace_append, allNonSpace_of_digits hd]
    decide
  have hl : 'l' ∉ '.' :: ds := by
    intro hm
    rcases List.mem_cons.1 hm with h1 | h1
    · exact absurd h1 (by decide)
    · exact l_not_digit hd h1
  constructor
  · rw [classify_eq stem _ h ht hl, hends]; rfl
  · unfold logrotateKey
    simp only [hstrip, hends, rxLogN_eq stem ds h hne hd]
    simp

theorem rxLogN_none_of_last (s : List Char) (c : Char) (hc : isDigitCh c = false) :
    rxLogN (s ++ [c]) = none := by
  unfold rxLogN splitTrailingDigits
  simp [hc]

theorem gz_facts (stem ds : List Char) (h : WFStem stem) (hne : ds ≠ [])
    (hd : ∀ c ∈ ds, isDigitCh c = true) :
    classifyName (String.ofList ((stem ++ dotLog ++ '.' :: ds) ++ ['.', 'g', 'z'])) =
      .rotated (String.ofList stem) ∧
    logrotateKey ((stem ++ dotLog ++ '.' :: ds) ++ ['.', 'g', 'z']) = natOfDigits ds := by
  have hshape : (stem ++ dotLog ++ '.' :: ds) ++ ['.', 'g', 'z'] =
      (stem ++ dotLog ++ '.' :: ds ++ ['.', 'g']) ++ ['z'] := by simp
  have hshape2 : (stem ++ dotLog ++ '.' :: ds) ++ ['.', 'g', 'z'] =
      stem ++ dotLog ++ ('.' :: ds ++ ['.', 'g', 'z']) := by simp
  have hends : endsWith dotLog ((stem ++ dotLog ++ '.' :: ds) ++ ['.', 'g', 'z']) = false := by
    rw [hshape]; exact endsWith_dotLog_false _ _ (by decide)
  have hstrip : stripFinalNL ((stem ++ dotLog ++ '.' :: ds) ++ ['.', 'g', 'z']) =
      (stem ++ dotLog ++ '.' :: ds) ++ ['.', 'g', 'z'] := by
    rw [hshape]; exact stripFinalNL_concat _ _ (by decide)
  have hnone : rxLogN ((stem ++ dotLog ++ '.' :: ds) ++ ['.', 'g', 'z']) = none := by
    rw [hshape]; exact rxLogN_none_of_last _ _ (by decide)
  have ht : allNonSpace ('.' :: ds ++ ['.', 'g', 'z']) = true := by
    rw [show '.' :: ds ++ ['.', 'g', 'z'] = ['.'] ++ (ds ++ ['.', 'g', 'z']) from rfl,
      allNonSpace_append, allNonSpace_append, allNonSpace_of_digits hd]
    decide
  have hl : 'l' ∉ '.' :: ds ++ ['.', 'g', 'z'] := by
    intro hm
    rcases List.mem_cons.1 hm with h1 | h1
    · exact absurd h1 (by decide)
    · rcases List.mem_append.1 h1 with h2 | h2
      · exact l_not_digit hd h2
      · exact absurd h2 (by decide)
  constructor
  · rw [hshape2, classify_eq stem _ h ht hl, ← hshape2, hends]; rfl
  · have hgz : endsWith ['.', 'g', 'z'] ((stem ++ dotLog ++ '.' :: ds) ++ ['.', 'g', 'z']) = true :=
      endsWith_append_self _ _
    have htake : ((stem ++ dotLog ++ '.' :: ds) ++ ['.', 'g', 'z']).take
        (((stem ++ dotLog ++ '.' :: ds) ++ ['.', 'g', 'z']).length - ['.', 'g', 'z'].length) =
        stem ++ dotLog ++ '.' :: ds := by
      apply List.take_left'
      simp only [List.length_append, List.length_cons, List.length_nil]
      omega
    unfold logrotateKey
    simp only [hstrip, hends, hnone, hgz, htake, rxLogN_eq stem ds h hne hd]
    simp

/-! ### one log in a directory -/

open Sk.Cat

/-- folding rotated entries of one stem into a one-group dict -/
theorem groupsFrom_single (S : String) (es acc : List DirEntry)
    (h : ∀ e ∈ es, e.cls = .rotated S) :
    groupsFrom [(S, acc)] es = [(S, acc ++ es)] := by
  induction es generalizing acc with
  | nil => simp [groupsFrom]
  | cons e es ih =>
    have hc : e.cls = .rotated S := h e List.mem_cons_self
    have hstep : groupStep [(S, acc)] e = [(S, acc ++ [e])] := by
      simp [groupStep, hc, groupAddE]
    show groupsFrom (groupStep [(S, acc)] e) es = _
    rw [hstep, ih _ (fun e' he' => h e' (List.mem_cons_of_mem _ he'))]
    simp

theorem groups_flatMap_single (S : String) (es : List DirEntry) (d : Nat)
    (h : ∀ e ∈ es, e.cls = .rotated S) :
    (groupsFrom [] es).flatMap (fun p => cut d p.2) = cut d es := by
  cases es with
  | nil => simp [groupsFrom, cut_nil]
  | cons e es =>
    have hc : e.cls = .rotated S := h e List.mem_cons_self
    have hstep : groupStep [] e = [(S, [e])] := by
      simp [groupStep, hc, groupAddE]
    show (groupsFrom (groupStep [] e) es).flatMap _ = _
    rw [hstep, groupsFrom_single S es [e] (fun e' he' => h e' (List.mem_cons_of_mem _ he'))]
    simp

theorem keptOf_rotated (S : String) (es : List DirEntry) (h : ∀ e ∈ es, e.cls = .rotated S) :
    keptOf es = [] := by
  unfold keptOf
  rw [List.filterMap_eq_nil_iff]
  intro e he
  rw [h e he]

/-- `filteredDir` of a live log followed by rotated copies of the same stem -/
theorem filteredDir_live_rots (S : String) (lv : DirEntry) (es : List DirEntry) (d : Nat)
    (hlf : lv.isFile = true) (hlc : lv.cls = .live S)
    (hf : ∀ e ∈ es, e.isFile = true) (hc : ∀ e ∈ es, e.cls = .rotated S) :
    filteredDir (lv :: es) d = (S ++ ".log") :: cut d es := by
  have hfilt : (lv :: es).filter (·.isFile) = lv :: es := by
    rw [List.filter_eq_self]
    intro e he
    rcases List.mem_cons.1 he with rfl | he
    · exact hlf
    · exact hf e he
  rw [filteredDir_eq, hfilt]
  have hk : keptOf (lv :: es) = [S ++ ".log"] := by
    have := keptOf_rotated S es hc
    unfold keptOf at this ⊢
    rw [List.filterMap_cons, hlc, this]
  have hg : groupsFrom [] (lv :: es) = groupsFrom [] es := by
    show groupsFrom (groupStep [] lv) es = _
    simp [groupStep, hlc]
  rw [hk, hg, groups_flatMap_single S es d hc]
  rfl

/-- the stable insertion sort by key and `mergeSort` on the keys agree -/
theorem sortByKey_map_eq (f : Nat → DirEntry) (hkey : ∀ n, (f n).key = n) (ns : List Nat) :
    sortByKey (ns.map f) = (ns.mergeSort (fun a b => decide (a ≤ b))).map f := by
  have hsorted : (ns.mergeSort (fun a b => decide (a ≤ b))).Pairwise
      (fun a b => decide (a ≤ b) = true) :=
    List.pairwise_mergeSort (by intro a b c; simp; omega) (by intro a b; simp; omega) ns
  apply List.Perm.eq_of_pairwise (le := fun a b : DirEntry => a.key ≤ b.key)
  · intro a b ha hb hab hba
    obtain ⟨n, _, rfl⟩ := List.mem_map.1 (mem_sortByKey.1 ha)
    obtain ⟨m, _, rfl⟩ := List.mem_map.1 hb
    rw [hkey, hkey] at hab hba
    have : n = m := by omega
    rw [this]
  · exact sortByKey_sorted _
  · rw [List.pairwise_map]
    refine hsorted.imp ?_
    intro a b hab
    rw [hkey, hkey]
    simpa using hab
  · exact (sortByKey_perm _).trans ((List.mergeSort_perm ns _).map f).symm

end Sk.Rx

namespace Sk
open Sk.Rx

/-- the live log: classified as live with its stem (the greedy `(\S+)` takes the LAST ".log",
    so a stem may itself contain ".log"), sort key 0 -/
theorem C09_rx_live (stem : List Char) (h : WFStem stem) :
    classifyName (String.ofList (liveName stem)) = .live (String.ofList stem) ∧
    logrotateKey (liveName stem) = 0 := by
  have hlen : 1 ≤ stem.length := List.length_pos_iff.2 h.1
  have hends : endsWith dotLog (stem ++ dotLog) = true := endsWith_append_self _ _
  constructor
  · have := classify_eq stem [] h rfl (by simp)
    simp only [List.append_nil] at this
    rw [liveName, this, hends]; rfl
  · have hstrip : stripFinalNL (stem ++ dotLog) = stem ++ dotLog := by
      have := stripFinalNL_concat (stem ++ ['.', 'l', 'o']) 'g' (by decide)
      simpa [dotLog] using this
    have hall : allNonSpace (stem ++ dotLog) = true := by
      rw [allNonSpace_append, h.2]; decide
    unfold logrotateKey liveName
    simp only [hstrip, hall, hends]
    rw [if_pos]
    simp [dotLog]; omega

/-- rotated copy N: classified as rotated with the same stem, sort key N (for EVERY N, also
    beyond the 100000 that unmatched names get) -/
theorem C09_rx_rotated (stem : List Char) (h : WFStem stem) (n : Nat) :
    classifyName (String.ofList (rotName stem n)) = .rotated (String.ofList stem) ∧
    logrotateKey (rotName stem n) = n := by
  have := rot_facts stem (Nat.toDigits 10 n) h (digits_ne_nil n) (digits_isDigit n)
  rw [natOfDigits_toDigits] at this
  exact this

theorem C09_rx_rotated_gz (stem : List Char) (h : WFStem stem) (n : Nat) :
    classifyName (String.ofList (rotGzName stem n)) = .rotated (String.ofList stem) ∧
    logrotateKey (rotGzName stem n) = n := by
  have := gz_facts stem (Nat.toDigits 10 n) h (digits_ne_nil n) (digits_isDigit n)
  rw [natOfDigits_toDigits] at this
  exact this

/-- a name whose leading non-space run contains no ".log" after its first character is not a log -/
theorem C09_rx_plain (s : List Char)
    (h : ∀ i, 1 ≤ i → dotLog.isPrefixOf ((nonSpaceRun s).drop i) = false) :
    classifyName (String.ofList s) = .plain := by
  have hpos : dotLogPositions (nonSpaceRun s) = [] := by
    unfold dotLogPositions
    apply range_filter_reverse_nil
    intro i _
    by_cases hi : 1 ≤ i
    · simp [startsWith, h i hi]
    · simp [hi]
  unfold classifyName rxStemLog
  simp only [String.toList_ofList, hpos]

/-- hence the numeric order of rotation numbers is the sort order -/
theorem C09_rx_key_mono (stem : List Char) (h : WFStem stem) (n m : Nat) :
    n < m ↔ logrotateKey (rotName stem n) < logrotateKey (rotName stem m) := by
  rw [(C09_rx_rotated stem h n).2, (C09_rx_rotated stem h m).2]

/-- END-TO-END for one log: a directory holding the live log and rotated copies with pairwise
    distinct numbers `ns` (in ANY listing order, plain or .gz per `gz n`): what is kept is the
    live log followed by the `depth` lowest-numbered copies in ascending numeric order
    (numeric, not lexicographic: 2 before 10). -/
theorem C09_rx_dir_one_log (stem : List Char) (h : WFStem stem) (ns : List Nat) (hnd : ns.Nodup)
    (gz : Nat → Bool) (depth : Nat) :
    let nm := fun n => String.ofList (if gz n then rotGzName stem n else rotName stem n)
    filteredDir (mkDirEntry (String.ofList (liveName stem)) true :: ns.map fun n => mkDirEntry (nm n) true) depth
      = String.ofList (liveName stem) :: ((ns.mergeSort (fun a b => decide (a ≤ b))).take depth).map nm := by
  intro nm
  have _ := hnd
  have hcls : ∀ n, classifyName (nm n) = .rotated (String.ofList stem) := by
    intro n
    show classifyName (String.ofList (if gz n then rotGzName stem n else rotName stem n)) = _
    cases gz n
    · exact (C09_rx_rotated stem h n).1
    · exact (C09_rx_rotated_gz stem h n).1
  have hkey : ∀ n, (mkDirEntry (nm n) true).key = n := by
    intro n
    show logrotateKey (String.ofList (if gz n then rotGzName stem n else rotName stem n)).toList = n
    rw [String.toList_ofList]
    cases gz n
    · exact (C09_rx_rotated stem h n).2
    · exact (C09_rx_rotated_gz stem h n).2
  have hlive : String.ofList (liveName stem) = String.ofList stem ++ ".log" := by
    rw [liveName, String.ofList_append]; rfl
  rw [filteredDir_live_rots (String.ofList stem) _ _ depth rfl (C09_rx_live stem h).1
    (by intro e he; obtain ⟨n, _, rfl⟩ := List.mem_map.1 he; rfl)
    (by intro e he; obtain ⟨n, _, rfl⟩ := List.mem_map.1 he; exact hcls n)]
  rw [← hlive]
  congr 1
  unfold Sk.Cat.cut
  rw [sortByKey_map_eq _ hkey, ← List.map_take, List.map_map]
  rfl

/-! ## non-vacuity -/

example : WFStem "sys.log.old".toList := by decide
example : WFStem "a".toList := by decide
example : ¬ WFStem "a b".toList := by decide
example : liveName "a".toList = "a.log".toList := by decide
example : rotName "a".toList 10 = "a.log.10".toList := by decide
example : rotGzName "sys.log.old".toList 123 = "sys.log.old.log.123.gz".toList := by decide
example : logrotateKey "a.log".toList = 0 := by decide
example : logrotateKey "a.log.10".toList = 10 := by decide
example : logrotateKey "a.log.10.gz".toList = 10 := by decide
example : logrotateKey "a.log.10.g".toList = 10 := by decide
example : logrotateKey "a.log.200000".toList = 200000 := by decide
example : logrotateKey "a.log.bak".toList = 100000 := by decide
example : logrotateKey "notes.txt".toList = 100000 := by decide
example : classifyName "sys.log.old.log.3" = .rotated "sys.log.old" := by decide
example : classifyName "sys.log.old.log" = .live "sys.log.old" := by decide
example : classifyName "notes.txt" = .plain := by decide
example : classifyName ".log" = .plain := by decide
/-- the hypothesis of `C09_rx_plain` holds for a concrete plain name -/
example : ∀ i, 1 ≤ i → dotLog.isPrefixOf ((nonSpaceRun "notes.txt".toList).drop i) = false := by
  intro i _
  exact Sk.Rx.no_dotLog_of_no_l (by decide) i
/-- a concrete instance of the end-to-end statement: 2 before 10, `.gz` mixed in -/
example :
    filteredDir
      [mkDirEntry "a.log" true, mkDirEntry "a.log.10" true, mkDirEntry "a.log.2.gz" true,
        mkDirEntry "a.log.1" true, mkDirEntry "a.log.3" true] 3
      = ["a.log", "a.log.1", "a.log.2.gz", "a.log.3"] := by decide

end Sk

#print axioms Sk.C09_rx_live
#print axioms Sk.C09_rx_rotated
#print axioms Sk.C09_rx_rotated_gz
#print axioms Sk.C09_rx_plain
#print axioms Sk.C09_rx_key_mono
#print axioms Sk.C09_rx_dir_one_log
