/-
  C02 — a multi-process run returns only after every result produced by the search tasks
  has been collected, each under its own path (task.py `_flush_results_buffer`/`put_result`,
  search.py `_run_mp`/`_get_results`/`_purge_results`; model: `SkModel.Collect`).

  The theorems hold for all element types, any number `n` of tasks, all result lists
  `seq t`, every queue capacity (`none` = unbounded, or `some c`), all `FLUSH`, all
  `1 ≤ MAXB`, and *every* schedule (= every list of labels accepted by `cstep`).  The queue
  is FIFO per producer only (`takeFirst`).

  0. `chunks_flatten`, `flush_flatten`, `flush_sizes`, `flush_total`: cutting a task's results
     into transit batches loses / duplicates / reorders nothing, every batch is non-empty and
     holds at most `MAXB` results.
  1. `C02_inv` (+ `C02_inv_counts`, `C02_Inv`): in every reachable state, for every source,
     collected ++ in flight ++ not yet put = the task's results.
  2. `C02_final`: in phase `returned` the queue is empty and `collected src = seq src`.
  3. `C02_purge_exit_enabled`: purge never waits for ever on the counters.
  4. `C02_progress` (no reachable deadlock, needs `1 ≤ c` for a bounded queue),
     `C02_terminates`, `C02_run_bounded` (every schedule is finite: at most `Col.mu s` steps).
  5. `C02_purgeGet_live`: the collector thread may leave while a batch is still queued (it
     sees the queue empty, then the stop flag; a batch can land in between); the purge loop
     then collects it: in phase `purge` with a non-empty queue, `purgeGet` of the head entry's
     source is enabled (and `C02_purge_counts`: once the queue is empty the counters agree).
-/
import SkModel.Proofs.CollectInv

namespace Sk
open Col

/-! ### 0. transit batches -/

theorem chunks_flatten {α} {k : Nat} (hk : 1 ≤ k) (xs : List α) : (chunks k xs).flatten = xs :=
  Col.chunks_flatten k hk _ xs (Nat.le_refl _)

theorem flush_flatten {α} (FLUSH : Nat) {MAXB : Nat} (hM : 1 ≤ MAXB) (rs : List α) :
    (flushBatches FLUSH MAXB rs).flatten = rs := by
  simp [flushBatches, flushGo_flatten FLUSH MAXB hM]

theorem flush_sizes {α} (FLUSH : Nat) {MAXB : Nat} (hM : 1 ≤ MAXB) (rs : List α) :
    ∀ b ∈ flushBatches FLUSH MAXB rs, 1 ≤ b.length ∧ b.length ≤ MAXB :=
  flushGo_sizes FLUSH MAXB hM rs []

theorem flush_total {α} (FLUSH : Nat) {MAXB : Nat} (hM : 1 ≤ MAXB) (rs : List α) :
    ((flushBatches FLUSH MAXB rs).map List.length).sum = rs.length := by
  simp [flushBatches, flush_total_go FLUSH MAXB hM]

/-! ### 1. the invariant -/

variable {α : Type} {cap : Option Nat} {FLUSH MAXB n : Nat} {seq : Nat → List α}

/-- the full inductive invariant (`Col.Inv`) holds in every reachable state -/
theorem C02_Inv (hM : 1 ≤ MAXB) {ls : List CLbl} {s : CState α}
    (hr : crun (CState.init cap FLUSH MAXB n seq) ls = some s) : Inv cap n seq s :=
  inv_run ls (inv_init cap FLUSH MAXB n hM seq) hr

/-- nothing lost, nothing duplicated, nothing misfiled, order kept -/
theorem C02_inv (hM : 1 ≤ MAXB) {ls : List CLbl} {s : CState α}
    (hr : crun (CState.init cap FLUSH MAXB n seq) ls = some s) :
    (∀ src, src < n →
      s.collected src ++ ((s.queue.filter (·.1 == src)).flatMap (·.2))
        ++ (s.tasks src).remaining.flatten = seq src) ∧
    (∀ src, n ≤ src → s.collected src = []) ∧
    (∀ e ∈ s.queue, e.1 < n) := by
  have hi := C02_Inv hM hr
  exact ⟨hi.data, hi.out, hi.qsrc⟩

/-- supporting clauses: counters, finished tasks, phases, constants -/
theorem C02_inv_counts (hM : 1 ≤ MAXB) {ls : List CLbl} {s : CState α}
    (hr : crun (CState.init cap FLUSH MAXB n seq) ls = some s) :
    s.ncollected = ((List.range n).map (fun t => (s.collected t).length)).sum ∧
    s.expected
      = ((List.range n).map (fun t => if (s.tasks t).finished then (seq t).length else 0)).sum ∧
    (∀ t, t < n → (s.tasks t).finished = true → (s.tasks t).remaining = []) ∧
    (s.phase ≠ .waiting → ∀ t, t < n → (s.tasks t).finished = true) ∧
    (s.phase = .returned → s.queue = []) ∧
    (∀ t, t < n → (s.tasks t).total = (seq t).length) ∧
    s.ntasks = n ∧ s.cap = cap := by
  have hi := C02_Inv hM hr
  exact ⟨hi.ncol, hi.exp, hi.fin, hi.phase, hi.drained, hi.total, hi.ntasks, hi.cap⟩

/-! ### 2. what `run()` returns -/

theorem C02_final (hM : 1 ≤ MAXB) {ls : List CLbl} {s : CState α}
    (hr : crun (CState.init cap FLUSH MAXB n seq) ls = some s) (hp : s.phase = .returned) :
    s.queue = [] ∧ ∀ src, s.collected src = (if src < n then seq src else []) := by
  have hi := C02_Inv hM hr
  have hq := hi.drained hp
  exact ⟨hq, collected_all hi (hi.phase (by rw [hp]; simp)) hq⟩

/-! ### 3. the purge loop can leave -/

theorem C02_purge_exit_enabled (hM : 1 ≤ MAXB) {ls : List CLbl} {s : CState α}
    (hr : crun (CState.init cap FLUSH MAXB n seq) ls = some s) (hp : s.phase = .purge)
    (hq : s.queue = []) : s.expected ≤ s.ncollected := by
  have hi := C02_Inv hM hr
  exact Nat.le_of_eq (counts_agree hi (hi.phase (by rw [hp]; simp)) hq)

/-- indeed the two counters agree as soon as the purge has emptied the queue -/
theorem C02_purge_counts (hM : 1 ≤ MAXB) {ls : List CLbl} {s : CState α}
    (hr : crun (CState.init cap FLUSH MAXB n seq) ls = some s) (hp : s.phase = .purge) :
    s.queue = [] → s.expected = s.ncollected := by
  intro hq
  have hi := C02_Inv hM hr
  exact counts_agree hi (hi.phase (by rw [hp]; simp)) hq

/-- the collector thread may have left with batches still queued; the purge loop can always
    take the oldest one: `purgeGet` of the head entry's source is enabled -/
theorem C02_purgeGet_live (_hM : 1 ≤ MAXB) {ls : List CLbl} {s : CState α}
    (_hr : crun (CState.init cap FLUSH MAXB n seq) ls = some s) (hp : s.phase = .purge)
    {src : Nat} {b : List α} {q : List (Nat × List α)} (hq : s.queue = (src, b) :: q) :
    (cstep s (.purgeGet src)).isSome := by
  simp only [cstep, hp, if_true, hq, takeFirst_head, Option.isSome_some]

/-! ### 4. no deadlock, every schedule terminates -/

theorem C02_progress (hM : 1 ≤ MAXB) (hc : ∀ c, cap = some c → 1 ≤ c)
    {ls : List CLbl} {s : CState α}
    (hr : crun (CState.init cap FLUSH MAXB n seq) ls = some s) (hp : s.phase ≠ .returned) :
    ∃ l s', cstep s l = some s' :=
  progress (C02_Inv hM hr) hc hp

/-- every step strictly decreases the measure `Col.mu` (from any state, reachable or not) -/
theorem C02_terminates {s s' : CState α} {l : CLbl} (h : cstep s l = some s') :
    mu s' < mu s :=
  mu_step h

/-- no schedule accepted from `s` is longer than `mu s` -/
theorem C02_run_bounded (s : CState α) (ls : List CLbl) (h : crun s ls ≠ none) :
    ls.length ≤ mu s := by
  cases h' : crun s ls with
  | none => exact absurd h' h
  | some s' => have := mu_run ls h'; omega

/-- a maximal schedule (nothing enabled any more) from the initial state has returned -/
theorem C02_maximal_returns (hM : 1 ≤ MAXB) (hc : ∀ c, cap = some c → 1 ≤ c)
    {ls : List CLbl} {s : CState α}
    (hr : crun (CState.init cap FLUSH MAXB n seq) ls = some s)
    (hmax : ∀ l, cstep s l = none) :
    s.phase = .returned ∧ s.queue = [] ∧
      ∀ src, s.collected src = (if src < n then seq src else []) := by
  have hp : s.phase = .returned := by
    apply Classical.byContradiction
    intro hp
    obtain ⟨l, s', h⟩ := C02_progress hM hc hr hp
    rw [hmax l] at h
    simp at h
  exact ⟨hp, C02_final hM hr hp⟩

/-! ### 5. non-vacuity -/

def C02_demo_seq : Nat → List Nat
  | 0 => [1, 2, 3]
  | 1 => [4, 5]
  | _ => []

/-- observable part of a state (the state itself has function fields) -/
structure C02Obs where
  phase : CPhase
  queue : List (Nat × List Nat)
  collected0 : List Nat
  collected1 : List Nat
  ncollected : Nat
  expected : Nat
deriving DecidableEq, Repr

def C02_obs (s : CState Nat) : C02Obs :=
  ⟨s.phase, s.queue, s.collected 0, s.collected 1, s.ncollected, s.expected⟩

/-- the demo system: 2 tasks, `FLUSH = 2`, `MAXB = 2` -/
def C02_demo_init (cap : Option Nat) : CState Nat := CState.init cap 2 2 2 C02_demo_seq

/-- the same state written out (`chunks` is defined by well-founded recursion, which plain
    `decide` does not unfold; `simp` does) -/
def C02_demo_init' (cap : Option Nat) : CState Nat :=
  { cap := cap, ntasks := 2,
    tasks := fun t => match t with
      | 0 => { remaining := [[1, 2], [3]], total := 3 }
      | 1 => { remaining := [[4, 5]], total := 2 }
      | _ => { remaining := [], total := 0 } }

theorem C02_demo_init_eq (cap : Option Nat) : C02_demo_init cap = C02_demo_init' cap := by
  unfold C02_demo_init C02_demo_init' CState.init
  congr 1
  funext t
  match t with
  | 0 => simp [C02_demo_seq, flushBatches, flushBatchesGo, chunks]
  | 1 => simp [C02_demo_seq, flushBatches, flushBatchesGo, chunks]
  | _ + 2 => simp [C02_demo_seq, flushBatches, flushBatchesGo, chunks]

/-- task 0 puts its last batch, both tasks finish and the main thread tells the collector to
    stop while that batch is still queued; here the collector drains it before leaving (it
    need not: see `C02_demo_sched_late`) -/
def C02_demo_sched : List CLbl :=
  [.put 0, .threadGet 0, .put 1, .finish 1, .threadGet 1, .put 0, .finish 0,
   .stopThread, .threadGet 0, .threadExit, .purgeExit]

example : (crun (C02_demo_init (some 1)) C02_demo_sched).map C02_obs
    = some ⟨.returned, [], [1, 2, 3], [4, 5], 5, 5⟩ := by
  rw [C02_demo_init_eq]; decide

/-- the state just after `stopThread`: one batch still queued -/
example : (crun (C02_demo_init (some 1)) (C02_demo_sched.take 8)).map C02_obs
    = some ⟨.stopping, [(0, [3])], [1, 2], [4, 5], 4, 5⟩ := by
  rw [C02_demo_init_eq]; decide

/-- with capacity 1 a second `put` must wait for the collector -/
example : (crun (C02_demo_init (some 1)) [.put 0, .put 1]).map C02_obs = none := by
  rw [C02_demo_init_eq]; decide

/-- unbounded queue: a batch of task 1 overtakes one of task 0, the result is the same -/
example : (crun (C02_demo_init none)
      [.put 0, .put 0, .put 1, .threadGet 1, .finish 0, .finish 1, .threadGet 0,
       .stopThread, .threadGet 0, .threadExit, .purgeExit]).map C02_obs
    = some ⟨.returned, [], [1, 2, 3], [4, 5], 5, 5⟩ := by
  rw [C02_demo_init_eq]; decide

/-- in this run the collector drained the queue before leaving, so `purgeGet` finds nothing
    (it is refused on an empty queue) -/
example : (crun (C02_demo_init (some 1)) (C02_demo_sched.take 10 ++ [.purgeGet 0])).map C02_obs = none := by
  rw [C02_demo_init_eq]; decide

/-- the collector leaves right after `stopThread` while task 0's last batch is still queued;
    the purge collects it and only then returns -/
def C02_demo_sched_late : List CLbl :=
  [.put 0, .threadGet 0, .put 1, .finish 1, .threadGet 1, .put 0, .finish 0,
   .stopThread, .threadExit, .purgeGet 0, .purgeExit]

example : (crun (C02_demo_init (some 1)) C02_demo_sched_late).map C02_obs
    = some ⟨.returned, [], [1, 2, 3], [4, 5], 5, 5⟩ := by
  rw [C02_demo_init_eq]; decide

/-- the state just after `threadExit`: phase `purge`, one batch still queued, counters differ -/
example : (crun (C02_demo_init (some 1)) (C02_demo_sched_late.take 9)).map C02_obs
    = some ⟨.purge, [(0, [3])], [1, 2], [4, 5], 4, 5⟩ := by
  rw [C02_demo_init_eq]; decide

/-- there `purgeExit` is refused (queue not empty, counters not yet equal) -/
example : (crun (C02_demo_init (some 1)) (C02_demo_sched_late.take 9 ++ [.purgeExit])).map C02_obs
    = none := by
  rw [C02_demo_init_eq]; decide

end Sk

#print axioms Sk.chunks_flatten
#print axioms Sk.flush_flatten
#print axioms Sk.flush_sizes
#print axioms Sk.flush_total
#print axioms Sk.C02_Inv
#print axioms Sk.C02_inv
#print axioms Sk.C02_inv_counts
#print axioms Sk.C02_final
#print axioms Sk.C02_purge_exit_enabled
#print axioms Sk.C02_purge_counts
#print axioms Sk.C02_purgeGet_live
#print axioms Sk.C02_progress
#print axioms Sk.C02_terminates
#print axioms Sk.C02_run_bounded
#print axioms Sk.C02_maximal_returns
#print axioms Sk.C02_demo_init_eq
