/-
  C03 — sequence search reports exactly the complete sections; none is ever lost.

  For every line table, every set of registered definitions (duplicates, simple and
  sequence searches, constrained or not) and every unconstrained sequence search `d`
  among them, what the task reports for `d` is exactly the rendering of the
  declaratively specified complete sections `Spec.sections`, in line order, each
  section under its own section id - whatever else is registered on the file
  (`runTask_proj`) and whatever happens later in the file (the specification of a
  section only looks at the lines up to the one that closes it).
-/
import SkModel.Proofs.TaskProj
import SkModel.Proofs.SeqCore

namespace Sk

theorem C03_sections_exact (t : TaskIn) (hwf : DefsWF t.defs) (d : Def) (s : SeqDef)
    (hd : d ∈ t.defs) (hk : d.kind = .seq s) (hc : d.cons = [])
    (rs : List Res) (st : Stats) (hrun : runTask t = .ok (rs, st)) :
    ∃ ids : List Nat, ids.Pairwise (· < ·) ∧ ids.length = (Spec.sections s t.n).length ∧
      (rs.filter (fun r => r.src == d.id)).map Res.view =
        ((Spec.sections s t.n).zip ids).flatMap (fun p => renderSection d.id s t.n p.1 p.2) := by
  obtain ⟨stF, out, fin, h1, h2, h3⟩ := runTask_proj t hwf d hd rs st hrun
  obtain ⟨hout, ids, hids, hlen, hview⟩ := seq_solo_spec_sorted d s hk hc t.n stF out fin h1 h2
  refine ⟨ids, hids, hlen, ?_⟩
  rw [h3, hout, List.nil_append]
  exact hview

/-- every result reported for `d` carries `d`'s sequence identity -/
theorem C03_identity (t : TaskIn) (hwf : DefsWF t.defs) (d : Def) (s : SeqDef)
    (hd : d ∈ t.defs) (hk : d.kind = .seq s) (hc : d.cons = [])
    (rs : List Res) (st : Stats) (hrun : runTask t = .ok (rs, st)) :
    ∀ r ∈ rs.filter (fun r => r.src == d.id), r.seqId = some d.id := by
  obtain ⟨stF, out, fin, h1, h2, h3⟩ := runTask_proj t hwf d hd rs st hrun
  obtain ⟨hout, _⟩ := seq_solo_spec_sorted d s hk hc t.n stF out fin h1 h2
  intro r hr
  rw [h3, hout, List.nil_append] at hr
  exact (seq_solo_src d s hk hc t.n stF out fin h1 h2 r hr).2

/-! Non-vacuity: lines S,B,E,S,S,B,E (the input on which the pinned tree lost the first
    section) give two sections; the model and the specification compute them. -/
namespace C03Ex

def cls : List String := ["S", "B", "E", "S", "S", "B", "E"]
def sdOf (c : String) : SDef :=
  { pats := [fun i => if cls[i]? = some c then some { g0 := c, groups := [] } else none] }
def s : SeqDef := { start := sdOf "S", body := some (sdOf "B"), end_ := some (sdOf "E"), tag := "q" }
def t : TaskIn := { n := 7, dec := fun _ => true, defs := [{ id := 0, kind := .seq s }] }

example : Spec.sections s 7 = [⟨0, [1], some 2⟩, ⟨4, [5], some 6⟩] := by decide

example : (match runTask t with
    | .ok (rs, _) => rs.map (fun r => (r.sec, r.ln))
    | .error _ => []) =
    [(some (0, 0), 1), (some (0, 0), 2), (some (0, 0), 3),
     (some (0, 3), 5), (some (0, 3), 6), (some (0, 3), 7)] := by decide

end C03Ex

end Sk

#print axioms Sk.C03_sections_exact
#print axioms Sk.C03_identity
