/-
  C15 — the de-duplicating result store (`ResultStoreBase`, model: `SkModel.Store`).

  Every theorem is a corollary of the invariant `Store.Inv` established in
  `SkModel.Proofs.StoreInv` for every store reachable from the empty store.
  Standing hypotheses: block size `0 < B`, and the blocks `[sup k, sup k + B)` granted
  to this store are pairwise disjoint.
-/
import SkModel.Proofs.StoreInv

namespace Sk
open StoreInv

variable {B : Nat} {pre : Bool} {sup : Nat → Nat}

/-! ### 1. the "failed to get store allocation" error is unreachable -/

theorem C15_no_alloc_error (hB : 0 < B)
    (hsup : ∀ i j, i ≠ j → sup i + B ≤ sup j ∨ sup j + B ≤ sup i)
    (pre : Bool) (ops : List (Option Val × Option Val × Option Val)) :
    ∃ st rs, Store.addAll { B := B, pre := pre } sup ops = .ok (st, rs) := by
  obtain ⟨st, rs, e, -, -⟩ := Store.Inv.addAll_spec hB hsup ops (Store.Inv.init hB pre sup)
  exact ⟨st, rs, e⟩

theorem C15_no_alloc_error_step (hB : 0 < B)
    (hsup : ∀ i j, i ≠ j → sup i + B ≤ sup j ∨ sup j + B ≤ sup i)
    {st : Store} (h : Store.Reach B pre sup st) (t s v : Option Val) :
    ∃ st' r, st.add sup t s v = .ok (st', r) := by
  obtain ⟨st', ti, si, vi, e, -⟩ := (h.inv hB hsup).add_spec hB hsup t s v
  exact ⟨st', _, e⟩

/-- the same for any continuation of a reachable store -/
theorem C15_no_alloc_error_from (hB : 0 < B)
    (hsup : ∀ i j, i ≠ j → sup i + B ≤ sup j ∨ sup j + B ≤ sup i)
    {st : Store} (h : Store.Reach B pre sup st)
    (ops : List (Option Val × Option Val × Option Val)) :
    ∃ st' rs, st.addAll sup ops = .ok (st', rs) := by
  obtain ⟨st', rs, e, -, -⟩ := Store.Inv.addAll_spec hB hsup ops (h.inv hB hsup)
  exact ⟨st', rs, e⟩

/-! ### 2. one value per index, one index per value -/

theorem C15_injective (hB : 0 < B)
    (hsup : ∀ i j, i ≠ j → sup i + B ≤ sup j ∨ sup j + B ≤ sup i)
    {st : Store} (h : Store.Reach B pre sup st) :
    (st.data.map (·.1)).Nodup ∧ (st.data.map (·.2)).Nodup :=
  ⟨(h.inv hB hsup).keys_nodup hB hsup, (h.inv hB hsup).vals⟩

/-! ### 3. the store is append-only: an index, once handed out, resolves to its value for ever -/

theorem Store.get_of_append {st st' : Store} (hx : ∃ ext, st'.data = st.data ++ ext)
    {i : Nat} {x : Val} (hg : st.get i = some x) : st'.get i = some x := by
  obtain ⟨ext, he⟩ := hx
  exact List.IsPrefix.lookup_eq_some ⟨ext, he.symm⟩ hg

theorem C15_append_only (hB : 0 < B)
    (hsup : ∀ i j, i ≠ j → sup i + B ≤ sup j ∨ sup j + B ≤ sup i)
    {st st' : Store} {t s v : Option Val} {r} (h : Store.Reach B pre sup st)
    (e : st.add sup t s v = .ok (st', r)) :
    (∃ ext, st'.data = st.data ++ ext) ∧ ∀ i x, st.get i = some x → st'.get i = some x := by
  obtain ⟨st1, ti, si, vi, e1, hx, -⟩ := (h.inv hB hsup).add_spec hB hsup t s v
  rw [e] at e1; cases e1
  exact ⟨hx, fun _ _ hg => Store.get_of_append hx hg⟩

/-- … and the same between a reachable store and any later store of the same history -/
theorem C15_append_only_addAll (hB : 0 < B)
    (hsup : ∀ i j, i ≠ j → sup i + B ≤ sup j ∨ sup j + B ≤ sup i)
    {st st' : Store} {ops rs} (h : Store.Reach B pre sup st)
    (e : st.addAll sup ops = .ok (st', rs)) :
    (∃ ext, st'.data = st.data ++ ext) ∧ (∀ i x, st.get i = some x → st'.get i = some x) ∧
      Store.Reach B pre sup st' := by
  obtain ⟨st1, rs1, e1, hx, -⟩ := Store.Inv.addAll_spec hB hsup ops (h.inv hB hsup)
  rw [e] at e1; cases e1
  exact ⟨hx, fun _ _ hg => Store.get_of_append hx hg, h.addAll e⟩

/-! ### 4. `add` returns, for each component, an index that resolves to it -/

theorem C15_add_returns (hB : 0 < B)
    (hsup : ∀ i j, i ≠ j → sup i + B ≤ sup j ∨ sup j + B ≤ sup i)
    {st st' : Store} {t s v : Option Val} {ti si vi : Option Nat}
    (h : Store.Reach B pre sup st)
    (e : st.add sup t s v = .ok (st', (ti, si, vi))) :
    ((v = none → vi = none) ∧ ∀ x, v = some x → ∃ i, vi = some i ∧ st'.get i = some x) ∧
    ((t = none → ti = none) ∧ ∀ x, t = some x → ∃ i, ti = some i ∧ st'.get i = some x) ∧
    ((s = none → si = none) ∧ ∀ x, s = some x → ∃ i, si = some i ∧ st'.get i = some x) := by
  obtain ⟨st1, ti1, si1, vi1, e1, -, rv, rt, rs, inv'⟩ := (h.inv hB hsup).add_spec hB hsup t s v
  rw [e] at e1; cases e1
  have hn := inv'.keys_nodup hB hsup
  have conv : ∀ {c ci}, st'.Ret c ci →
      (c = none → ci = none) ∧ ∀ x, c = some x → ∃ i, ci = some i ∧ st'.get i = some x := by
    intro c ci hr
    refine ⟨hr.1, fun x hx => ?_⟩
    obtain ⟨i, h1, h2⟩ := hr.2 x hx
    exact ⟨i, h1, lookup_of_mem hn h2⟩
  exact ⟨conv rv, conv rt, conv rs⟩

/-! ### 5. equal values ⇔ same index -/

theorem C15_equal_iff (hB : 0 < B)
    (hsup : ∀ i j, i ≠ j → sup i + B ≤ sup j ∨ sup j + B ≤ sup i)
    {st : Store} (h : Store.Reach B pre sup st) {i j : Nat} {x y : Val}
    (hi : st.get i = some x) (hj : st.get j = some y) : i = j ↔ x = y := by
  constructor
  · rintro rfl; rw [hi] at hj; exact Option.some.inj hj
  · rintro rfl
    exact fst_unique (h.inv hB hsup).vals (mem_of_lookup hi) (mem_of_lookup hj)

/-! ### 6. the reverse maps are sound and have no duplicate keys -/

theorem C15_reverse_maps_sound (hB : 0 < B)
    (hsup : ∀ i j, i ≠ j → sup i + B ≤ sup j ∨ sup j + B ≤ sup i)
    {st : Store} (h : Store.Reach B pre sup st) :
    (∀ ns v i, (v, i) ∈ st.rev ns → st.get i = some v) ∧
    (∀ ns, ((st.rev ns).map (·.1)).Nodup) := by
  have inv := h.inv hB hsup
  exact ⟨fun ns v i hm => lookup_of_mem (inv.keys_nodup hB hsup) (inv.rev_sound ns v i hm),
    inv.rev_nodup⟩

/-! ### 7. without a pre-allocator the indices are 0, 1, 2, … -/

theorem C15_plain_indices (hB : 0 < B)
    (hsup : ∀ i j, i ≠ j → sup i + B ≤ sup j ∨ sup j + B ≤ sup i)
    {st : Store} (h : Store.Reach B pre sup st) (hpre : pre = false) :
    st.data.map (·.1) = List.range st.data.length := by
  subst hpre
  have hid : slot false sup B = id := by funext i; simp [slot]
  rw [(h.inv hB hsup).keys, hid, List.map_id]

/-! ### 8. with a pre-allocator the indices are the granted blocks, in order, and a block
    is requested only when the previous one is exhausted -/

theorem C15_block_indices (hB : 0 < B)
    (hsup : ∀ i j, i ≠ j → sup i + B ≤ sup j ∨ sup j + B ≤ sup i)
    {st : Store} (h : Store.Reach B pre sup st) (hpre : pre = true) :
    st.data.map (·.1) =
      ((List.range st.nblocks).flatMap (fun k => List.range' (sup k) B)).take st.data.length ∧
    st.nblocks = (st.data.length + B - 1) / B := by
  subst hpre
  have inv := h.inv hB hsup
  have hn : st.nblocks = (st.data.length + B - 1) / B := inv.nblk
  refine ⟨?_, hn⟩
  rw [inv.keys]
  apply slots_eq_take_blocks hB
  rw [hn]
  have h1 := Nat.div_add_mod (st.data.length + B - 1) B
  have h2 := Nat.mod_lt (st.data.length + B - 1) hB
  rw [Nat.mul_comm]; omega

/-- the current block is the last one granted -/
theorem C15_current_block (hB : 0 < B)
    (hsup : ∀ i j, i ≠ j → sup i + B ≤ sup j ∨ sup j + B ≤ sup i)
    {st : Store} (h : Store.Reach B pre sup st) :
    st.alloc = if st.nblocks = 0 then none else some (sup (st.nblocks - 1)) :=
  (h.inv hB hsup).alloc

/-! ### 9. non-vacuity: a concrete run (B = 2, blocks [0,2), [10,12), [20,22), …) with a
    repeated value, a value reused as a tag, and roll-overs exactly at block boundaries -/

def C15_demo_ops : List (Option Val × Option Val × Option Val) :=
  [ (some "t1", some "s1", some "a"),
    (some "t1", none,      some "b"),
    (none,      none,      some "c"),
    (some "a",  none,      some "a"),
    (none,      some "s1", some "d") ]

def C15_demo := Store.addAll { B := 2, pre := true } (fun k => 10 * k) C15_demo_ops

example : C15_demo.toOption.map (·.2) =
    some [ (some 1, some 10, some 0),
           (some 1, none,    some 11),
           (none,   none,    some 20),
           (some 0, none,    some 0),
           (none,   some 10, some 21) ] := by decide

example : C15_demo.toOption.map (fun r => (r.1.data, r.1.nblocks, r.1.alloc)) =
    some ([(0, "a"), (1, "t1"), (10, "s1"), (11, "b"), (20, "c"), (21, "d")], 3, some 20) := by
  decide

example : ∀ i j : Nat, i ≠ j → (fun k => 10 * k) i + 2 ≤ (fun k => 10 * k) j ∨
    (fun k => 10 * k) j + 2 ≤ (fun k => 10 * k) i := by
  intro i j h; simp only; omega

end Sk

#print axioms Sk.C15_no_alloc_error
#print axioms Sk.C15_no_alloc_error_step
#print axioms Sk.C15_no_alloc_error_from
#print axioms Sk.C15_injective
#print axioms Sk.C15_append_only
#print axioms Sk.C15_append_only_addAll
#print axioms Sk.C15_add_returns
#print axioms Sk.C15_equal_iff
#print axioms Sk.C15_reverse_maps_sound
#print axioms Sk.C15_plain_indices
#print axioms Sk.C15_block_indices
#print axioms Sk.C15_current_block
