/-
  SkModel.Theorems.C09 — registering a search against a directory or a glob searches exactly
  the regular files that path denotes, except that for each log only the `depth`
  lowest-numbered rotated copies are kept; the live `stem.log` and non-log files are always
  kept; sub-directories are ignored.  A file reached through several registrations has one
  entry with all searches registered for it.
-/
import SkModel.Proofs.CatalogLemmas

namespace Sk
open Cat

/-! ## 1. `sortByKey` is a (stable) sort; the cut keeps the lowest keys -/

theorem C09_sort_perm (es : List DirEntry) : (sortByKey es).Perm es := sortByKey_perm es

theorem C09_sort_sorted (es : List DirEntry) :
    (sortByKey es).Pairwise (fun a b => a.key ≤ b.key) := sortByKey_sorted es

/-- stability: entries with equal keys keep their input order -/
theorem C09_sort_stable (es : List DirEntry) (k : Nat) :
    (sortByKey es).filter (fun x => x.key == k) = es.filter (fun x => x.key == k) :=
  sortByKey_stable es k

/-- kept prefix `K`, dropped suffix `D` -/
theorem C09_sort_cut (es : List DirEntry) (d : Nat) :
    let K := (sortByKey es).take d
    let D := (sortByKey es).drop d
    K.length = min d es.length ∧ (K ++ D).Perm es ∧ ∀ a ∈ K, ∀ b ∈ D, a.key ≤ b.key :=
  ⟨take_sort_length es d, take_drop_sort_perm es d, take_le_drop_sort es d⟩

/-! ## 2. `filteredDir` is exact -/

/-- nothing invented, no sub-directory -/
theorem C09_only_files (l : List DirEntry) (hwf : WFList l) (depth : Nat) :
    ∀ p ∈ filteredDir l depth, ∃ e ∈ l, e.isFile = true ∧ e.path = p := by
  intro p hp
  rcases (mem_filteredDir l hwf depth p).1 hp with ⟨e, he, hf, _, hpe⟩ | ⟨s, hs⟩
  · exact ⟨e, he, hf, hpe⟩
  · obtain ⟨e, he, hpe⟩ := mem_cut hs
    have := mem_rot.1 he
    exact ⟨e, this.1, this.2.1, hpe⟩

/-- the live log and files that are not logs are always kept -/
theorem C09_plain_live_kept (l : List DirEntry) (hwf : WFList l) (depth : Nat) :
    ∀ e ∈ l, e.isFile = true → (e.cls = .plain ∨ ∃ s, e.cls = .live s) →
      e.path ∈ filteredDir l depth := by
  intro e he hf hc
  exact (mem_filteredDir l hwf depth _).2 (Or.inl ⟨e, he, hf, hc, rfl⟩)

/-- grouping lemma: the dict built by the fold of `filteredDir` has distinct stems, and the
    group of stem `s` is exactly the rotated file entries of stem `s`, in input order
    (a stem is present iff it has at least one rotated copy) -/
theorem C09_groups (l : List DirEntry) :
    ∃ stems : List String, stems.Nodup ∧
      (l.filter (·.isFile)).foldl (fun g e => match e.cls with
        | .rotated stem => groupAddE g stem e
        | _ => g) [] =
        stems.map (fun s => (s, l.filter (fun e => e.isFile && e.cls == .rotated s))) ∧
      ∀ s, s ∈ stems ↔ l.filter (fun e => e.isFile && e.cls == .rotated s) ≠ [] := by
  refine ⟨keys (groupsOf l), keys_groupsOf_nodup l, groupsOf_eq l, ?_⟩
  intro s
  constructor
  · intro hs
    rcases mem_keys_groupsFrom _ [] s hs with h0 | ⟨e, he, hc⟩
    · simp [keys] at h0
    · have hel := List.mem_filter.1 he
      have : e ∈ rot l s := mem_rot.2 ⟨hel.1, hel.2, hc⟩
      exact List.ne_nil_of_mem this
  · intro hne
    have : getG (groupsOf l) s ≠ [] := by rw [getG_groupsOf]; exact hne
    exact List.mem_map.2 ⟨_, mem_of_getG_ne_nil _ s this, rfl⟩

/-- exact form of the cap: the output restricted to the rotated copies of stem `s` is the
    group sorted by key and cut at `depth` -/
theorem C09_rotated_exact (l : List DirEntry) (hwf : WFList l) (depth : Nat) (s : String) :
    let R := l.filter (fun e => e.isFile && e.cls == .rotated s)
    (filteredDir l depth).filter (fun p => R.any (·.path == p)) =
      ((sortByKey R).take depth).map (·.path) :=
  filteredDir_filter_rot l hwf depth s

/-- tie-tolerant form of the cap: of the rotated copies `R` of stem `s`, exactly the entries
    of `K` are in the output; `K` has `min depth |R|` distinct members of `R`, and every kept
    copy has a key ≤ every copy that was left out -/
theorem C09_rotated_capped (l : List DirEntry) (hwf : WFList l) (depth : Nat) (s : String) :
    let out := filteredDir l depth
    let R := l.filter (fun e => e.isFile && e.cls == .rotated s)
    let K := (sortByKey R).take depth
    (∀ a ∈ K, a ∈ R) ∧ (K.map (·.path)).Nodup ∧ K.length = min depth R.length ∧
      (∀ e ∈ R, e.path ∈ out ↔ e ∈ K) ∧
      (∀ a ∈ K, ∀ b ∈ R, b.path ∉ out → a.key ≤ b.key) := by
  intro out R K
  have hKR : ∀ a ∈ K, a ∈ R := fun a ha => mem_sortByKey.1 (List.mem_of_mem_take ha)
  have hRl : ∀ e ∈ R, e ∈ l := fun e he => (mem_rot.1 he).1
  have hiff : ∀ e ∈ R, e.path ∈ out ↔ e ∈ K := by
    intro e he
    constructor
    · intro ho
      have hq : e.path ∈ out.filter (fun p => R.any (·.path == p)) :=
        List.mem_filter.2 ⟨ho, List.any_eq_true.2 ⟨e, he, by simp⟩⟩
      rw [show out.filter (fun p => R.any (·.path == p)) = K.map (·.path) from
        filteredDir_filter_rot l hwf depth s] at hq
      obtain ⟨e', he', hpe⟩ := List.mem_map.1 hq
      have : e' = e := path_inj hwf.1 (hRl e' (hKR e' he')) (hRl e he) hpe
      exact this ▸ he'
    · intro hk
      exact (mem_filteredDir l hwf depth _).2
        (Or.inr ⟨s, List.mem_map.2 ⟨e, hk, rfl⟩⟩)
  refine ⟨hKR, cut_nodup l hwf depth s, take_sort_length R depth, hiff, ?_⟩
  intro a ha b hb hbo
  have hbK : b ∉ K := fun h => hbo ((hiff b hb).2 h)
  have hbs : b ∈ sortByKey R := mem_sortByKey.2 hb
  rw [← List.take_append_drop depth (sortByKey R)] at hbs
  rcases List.mem_append.1 hbs with h | h
  · exact absurd h hbK
  · exact take_le_drop_sort R depth a ha b h

/-- each file is searched once -/
theorem C09_no_dup (l : List DirEntry) (hwf : WFList l) (depth : Nat) :
    (filteredDir l depth).Nodup := filteredDir_nodup l hwf depth

/-! ## 3. extreme depths -/

/-- depth 0: no rotated copy is kept -/
theorem C09_depth_zero (l : List DirEntry) (hwf : WFList l) :
    ∀ e ∈ l, ∀ s, e.cls = .rotated s → e.path ∉ filteredDir l 0 := by
  intro e he s hc ho
  rcases (mem_filteredDir l hwf 0 _).1 ho with ⟨e', he', _, hc', hpe⟩ | ⟨s', hs'⟩
  · have : e' = e := path_inj hwf.1 he' he hpe
    subst this
    rcases hc' with hc' | ⟨st, hc'⟩ <;> rw [hc'] at hc <;> exact absurd hc (by simp)
  · rw [cut_zero] at hs'
    exact absurd hs' (by simp)

/-- depth ≥ number of entries: every file is kept -/
theorem C09_depth_large (l : List DirEntry) (hwf : WFList l) (depth : Nat)
    (hd : l.length ≤ depth) :
    (∀ e ∈ l, e.isFile = true → e.path ∈ filteredDir l depth) ∧
      (filteredDir l depth).Perm ((l.filter (·.isFile)).map (·.path)) := by
  have hall : ∀ e ∈ l, e.isFile = true → e.path ∈ filteredDir l depth := by
    intro e he hf
    rw [mem_filteredDir l hwf]
    cases hc : e.cls with
    | plain => exact Or.inl ⟨e, he, hf, Or.inl hc, rfl⟩
    | live st => exact Or.inl ⟨e, he, hf, Or.inr ⟨st, hc⟩, rfl⟩
    | rotated st =>
      refine Or.inr ⟨st, ?_⟩
      have hlen : (rot l st).length ≤ depth :=
        Nat.le_trans (List.length_filter_le _ _) hd
      rw [cut_of_le hlen]
      exact List.mem_map.2 ⟨e, mem_sortByKey.2 (mem_rot.2 ⟨he, hf, hc⟩), rfl⟩
  refine ⟨hall, ?_⟩
  rw [List.perm_ext_iff_of_nodup (filteredDir_nodup l hwf depth)
    (List.Sublist.nodup (List.filter_sublist.map _) hwf.1)]
  intro p
  constructor
  · intro hp
    obtain ⟨e, he, hf, hpe⟩ := C09_only_files l hwf depth p hp
    exact List.mem_map.2 ⟨e, List.mem_filter.2 ⟨he, hf⟩, hpe⟩
  · intro hp
    obtain ⟨e, he, hpe⟩ := List.mem_map.1 hp
    have := List.mem_filter.1 he
    exact hpe ▸ hall e this.1 this.2

/-! ## 4. `expandPath` -/

theorem C09_expand_file (path : String) (d : Nat) : expandPath path .file d = [path] := rfl

theorem C09_expand_dir (path : String) (l : List DirEntry) (d : Nat) :
    expandPath path (.dir l) d = filteredDir l d := rfl

theorem C09_expand_other (path : String) (g : List DirEntry) (d : Nat) :
    expandPath path (.other g) d = filteredDir g d := rfl

/-! ## 5. `register`: one entry per path, searches appended -/

theorem C09_merge_once (es : Entries) (search : Nat) (expanded : List String)
    (hes : (es.map (·.1)).Nodup) (hexp : expanded.Nodup) :
    let es' := register es search expanded
    (es'.map (·.1)).Nodup ∧
    (∀ p ∈ expanded, p ∈ es'.map (·.1)) ∧
    (∀ p, p ∈ es'.map (·.1) ↔ p ∈ es.map (·.1) ∨ p ∈ expanded) ∧
    (∀ p ∈ expanded, ∀ ss, es.lookup p = some ss → es'.lookup p = some (ss ++ [search])) ∧
    (∀ p ∈ expanded, es.lookup p = none → es'.lookup p = some [search]) ∧
    (∀ p, p ∉ expanded → es'.lookup p = es.lookup p) := by
  intro es'
  refine ⟨keys_register_nodup expanded es search hes,
    fun p hp => (mem_keys_register expanded es search p).2 (Or.inr hp),
    fun p => mem_keys_register expanded es search p, ?_, ?_, ?_⟩
  · intro p hp ss hss
    show (register es search expanded).lookup p = _
    rw [lookup_register expanded hexp, if_pos hp, hss]; rfl
  · intro p hp hnone
    show (register es search expanded).lookup p = _
    rw [lookup_register expanded hexp, if_pos hp, hnone]; rfl
  · intro p hp
    show (register es search expanded).lookup p = _
    rw [lookup_register expanded hexp, if_neg hp]

/-- after any sequence of registrations a path has one entry carrying all the searches
    registered for it, in registration order -/
theorem C09_entries_spec (regs : List (Nat × List String)) (hregs : ∀ r ∈ regs, r.2.Nodup)
    (p : String) :
    let es := regs.foldl (fun acc r => register acc r.1 r.2) []
    (es.map (·.1)).Nodup ∧
    es.lookup p =
      (let ss := regs.filterMap (fun r => if r.2.contains p then some r.1 else none)
       if ss = [] then none else some ss) := by
  intro es
  refine ⟨keys_registerAll_nodup regs [] List.nodup_nil, ?_⟩
  show (regs.foldl (fun acc r => register acc r.1 r.2) []).lookup p = _
  rw [lookup_registerAll regs hregs [] p]
  show combine none (searchesFor regs p) = _
  unfold combine searchesFor
  simp only [Option.getD_none, List.nil_append]

/-! ## 6. non-vacuity -/

namespace C09ex

def listing : List DirEntry :=
  [ ⟨"a.log.10", true, .rotated "a", 10⟩,
    ⟨"a.log.1", true, .rotated "a", 1⟩,
    ⟨"sub", false, .plain, 100000⟩,
    ⟨"a.log", true, .live "a", 0⟩,
    ⟨"a.log.3", true, .rotated "a", 3⟩,
    ⟨"notes.txt", true, .plain, 100000⟩,
    ⟨"b.log.1", true, .rotated "b", 1⟩,
    ⟨"a.log.2", true, .rotated "a", 2⟩ ]

example : filteredDir listing 2 = ["a.log", "notes.txt", "a.log.1", "a.log.2", "b.log.1"] := by
  decide

example : filteredDir listing 0 = ["a.log", "notes.txt"] := by decide

example : filteredDir listing 8 =
    ["a.log", "notes.txt", "a.log.1", "a.log.2", "a.log.3", "a.log.10", "b.log.1"] := by decide

example : WFList listing := by
  refine ⟨by decide, ?_⟩
  intro e he s hc
  simp only [listing, List.mem_cons, List.not_mem_nil, or_false] at he
  rcases he with rfl | rfl | rfl | rfl | rfl | rfl | rfl | rfl <;> simp at hc
  subst hc; rfl

example : register (register [] 7 ["x", "y"]) 9 ["y", "z"] =
    [("x", [7]), ("y", [7, 9]), ("z", [9])] := by decide

end C09ex

end Sk

#print axioms Sk.C09_sort_perm
#print axioms Sk.C09_sort_sorted
#print axioms Sk.C09_sort_stable
#print axioms Sk.C09_sort_cut
#print axioms Sk.C09_only_files
#print axioms Sk.C09_plain_live_kept
#print axioms Sk.C09_groups
#print axioms Sk.C09_rotated_exact
#print axioms Sk.C09_rotated_capped
#print axioms Sk.C09_no_dup
#print axioms Sk.C09_depth_zero
#print axioms Sk.C09_depth_large
#print axioms Sk.C09_expand_file
#print axioms Sk.C09_expand_dir
#print axioms Sk.C09_expand_other
#print axioms Sk.C09_merge_once
#print axioms Sk.C09_entries_spec
