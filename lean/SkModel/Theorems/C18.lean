/-
  C18 — worker parallelism never exceeds min(max_parallel_tasks, CPUs, files);
  in the pool every task is taken exactly once by one of at most `n` workers.
-/
import SkModel.Proofs.RunnerLemmas

namespace Sk
open Sk.Run

/-! ### 1. `num_parallel_tasks` -/

theorem C18_bounds (m c f : Nat) (hc : 1 ≤ c) :
    1 ≤ numParallel m c f ∧ numParallel m c f ≤ (if m = 0 then 1 else min m c) ∧
      numParallel m c f ≤ max f 1 := by
  unfold numParallel
  split <;> split <;> omega

theorem C18_value {m c f : Nat} (hm : 1 ≤ m) (_hc : 1 ≤ c) (hf : 1 ≤ f) :
    numParallel m c f = min m (min c f) := by
  unfold numParallel
  split <;> split <;> omega

theorem C18_zero_means_one {c f : Nat} (hf : 1 ≤ f) : numParallel 0 c f = 1 := by
  unfold numParallel
  split <;> simp <;> omega

/-! ### 2. in-process / pool -/

theorem C18_plan (m c : Nat) :
    plan m c 1 = .inProcess ∧ plan m c 0 = .nothing ∧
      ∀ f, 2 ≤ f → plan m c f = .pool (numParallel m c f) := by
  refine ⟨by simp [plan], by simp [plan], ?_⟩
  intro f hf
  have h0 : f ≠ 0 := by omega
  have h1 : f ≠ 1 := by omega
  simp [plan, h0, h1]

/-- the pool never has more workers than `max_parallel_tasks`, CPUs, or files -/
theorem C18_plan_pool_bound {m c f w : Nat} (hc : 1 ≤ c) (h : plan m c f = .pool w) :
    1 ≤ w ∧ w ≤ (if m = 0 then 1 else min m c) ∧ w ≤ f := by
  unfold plan at h
  split at h
  · cases h
  · split at h
    · cases h
    · cases h
      have := C18_bounds m c f hc
      refine ⟨this.1, this.2.1, ?_⟩
      have := this.2.2
      omega

/-! ### 3. the pool as a transition system -/

/-- the state in which `tasks` have been submitted and nothing has been taken -/
def poolInit (tasks : List Nat) : PoolSt := { pending := tasks, busy := [], finished := [] }

/-- every task is pending, in progress or finished exactly once — never executed twice, never lost
    (holds for every task list; with `tasks.Nodup` the three parts are pairwise disjoint and
    duplicate free, `C18_pool_once_nodup`). -/
theorem C18_pool_once {n : Nat} {tasks : List Nat} {ls : List PoolLbl} {s : PoolSt}
    (_hnd : tasks.Nodup) (h : poolRun n (poolInit tasks) ls = some s) :
    (s.finished.map (·.2) ++ s.busy.map (·.2) ++ s.pending).Perm tasks :=
  (poolRun_inv (PoolInv.init n tasks) h).once

theorem C18_pool_once_nodup {n : Nat} {tasks : List Nat} {ls : List PoolLbl} {s : PoolSt}
    (hnd : tasks.Nodup) (h : poolRun n (poolInit tasks) ls = some s) :
    (s.finished.map (·.2) ++ s.busy.map (·.2) ++ s.pending).Nodup :=
  (C18_pool_once hnd h).nodup_iff.mpr hnd

theorem C18_pool_workers {n : Nat} {tasks : List Nat} {ls : List PoolLbl} {s : PoolSt}
    (_hnd : tasks.Nodup) (h : poolRun n (poolInit tasks) ls = some s) :
    (∀ e ∈ s.busy, e.1 < n) ∧ (∀ e ∈ s.finished, e.1 < n) ∧ (s.busy.map (·.1)).Nodup ∧
      s.busy.length ≤ n ∧
      ((s.finished.map (·.1)).eraseDups).length ≤ n ∧
      ((s.finished.map (·.1) ++ s.busy.map (·.1)).eraseDups).length ≤ n := by
  have hi := poolRun_inv (PoolInv.init n tasks) h
  refine ⟨hi.busyLt, hi.finLt, hi.busyNodup, ?_, ?_, ?_⟩
  · have := nodup_bound n _ hi.busyNodup (by
      intro x hx
      simp only [List.mem_map] at hx
      obtain ⟨e, he, rfl⟩ := hx
      exact hi.busyLt e he)
    simpa using this
  · refine nodup_bound n _ (nodup_eraseDups _ _ (Nat.le_refl _)) ?_
    intro x hx
    rw [List.mem_eraseDups, List.mem_map] at hx
    obtain ⟨e, he, rfl⟩ := hx
    exact hi.finLt e he
  · refine nodup_bound n _ (nodup_eraseDups _ _ (Nat.le_refl _)) ?_
    intro x hx
    rw [List.mem_eraseDups, List.mem_append, List.mem_map, List.mem_map] at hx
    rcases hx with ⟨e, he, rfl⟩ | ⟨e, he, rfl⟩
    · exact hi.finLt e he
    · exact hi.busyLt e he

theorem C18_pool_final {n : Nat} {tasks : List Nat} {ls : List PoolLbl} {s : PoolSt}
    (hnd : tasks.Nodup) (h : poolRun n (poolInit tasks) ls = some s)
    (hdone : s.pending = [] ∧ s.busy = []) :
    (s.finished.map (·.2)).Perm tasks := by
  have := C18_pool_once hnd h
  simpa [hdone.1, hdone.2] using this

/-- no deadlock while work is left, and every step strictly decreases
    `2 * pending + busy`: every schedule terminates (after at most `2 * tasks.length` steps). -/
theorem C18_pool_progress {n : Nat} (hn : 1 ≤ n) (s : PoolSt) :
    (s.pending ≠ [] ∨ s.busy ≠ [] → ∃ l s', poolStep n s l = some s') ∧
    (∀ l s', poolStep n s l = some s' →
      2 * s'.pending.length + s'.busy.length < 2 * s.pending.length + s.busy.length) :=
  ⟨poolStep_progress hn, fun _ _ h => poolStep_measure h⟩

theorem C18_pool_schedule_length {n : Nat} : ∀ {ls : List PoolLbl} {s s' : PoolSt},
    poolRun n s ls = some s' →
    ls.length + (2 * s'.pending.length + s'.busy.length) ≤ 2 * s.pending.length + s.busy.length
  | [], s, s', h => by
    simp only [poolRun, Option.some.injEq] at h
    subst h; simp
  | l :: ls, s, s', h => by
    simp only [poolRun] at h
    cases hs : poolStep n s l with
    | none => simp [hs] at h
    | some s1 =>
      simp only [hs] at h
      have := C18_pool_schedule_length h
      have := poolStep_measure hs
      simp only [poolMeasure] at this
      simp only [List.length_cons]
      omega

/-! ### 4. non-vacuity -/

example : numParallel 4 8 3 = 3 := by decide
example : numParallel 2 8 30 = 2 := by decide
example : numParallel 0 8 30 = 1 := by decide
example : plan 4 8 3 = .pool 3 := by decide

/-- a complete schedule of three tasks on two workers -/
example : poolRun 2 (poolInit [10, 11, 12])
    [.take 0, .take 1, .finish 1, .take 1, .finish 0, .finish 1]
    = some { pending := [], busy := [], finished := [(1, 12), (0, 10), (1, 11)] } := by decide

/-- a third worker does not exist; a busy worker cannot take a second task;
    a task cannot be taken when nothing is pending -/
example : poolStep 2 (poolInit [10, 11, 12]) (.take 2) = none := by decide
example : poolRun 2 (poolInit [10, 11, 12]) [.take 0, .take 0] = none := by decide
example : poolRun 2 (poolInit [10]) [.take 0, .take 1] = none := by decide
example : poolRun 2 (poolInit [10]) [.finish 0] = none := by decide

end Sk

#print axioms Sk.C18_bounds
#print axioms Sk.C18_value
#print axioms Sk.C18_zero_means_one
#print axioms Sk.C18_plan
#print axioms Sk.C18_plan_pool_bound
#print axioms Sk.C18_pool_once
#print axioms Sk.C18_pool_once_nodup
#print axioms Sk.C18_pool_workers
#print axioms Sk.C18_pool_final
#print axioms Sk.C18_pool_progress
#print axioms Sk.C18_pool_schedule_length
