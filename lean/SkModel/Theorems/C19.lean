/-
  C19 — `MPCacheSimple` used by several processes on one path is linearizable: the log of
  completed operations, in order of completion (= order of critical sections), is a legal
  sequential history of one atomic register per key; per-process program order is respected;
  no operation is lost or duplicated; the system never deadlocks and every process takes a
  bounded number of steps.  `get` may retry a failed open of the shelf (label `retry p`) up
  to `maxOpenRetry` times while holding the lock: a retry changes nothing observable.
-/
import SkModel.Proofs.CacheInv

namespace Sk

open Cch

/-- 1. linearizability -/
theorem C19_linearizable (progs : Nat → List COp) (s : CacheSt)
    (hr : ∃ ls, cacheRun (CacheSt.init progs) ls = some s) :
    ∃ d, specReplay [] s.log = some d ∧ (s.lock = none → ∀ k, s.disk.value k = d.value k) := by
  obtain ⟨d, h1, h2, _⟩ := (inv_reach progs s hr).lin
  exact ⟨d, h1, fun hl k => by rw [h2 hl]⟩

/-- 1'. the disk is literally the specification's register map between critical sections -/
theorem C19_linearizable_eq (progs : Nat → List COp) (s : CacheSt)
    (hr : ∃ ls, cacheRun (CacheSt.init progs) ls = some s) :
    ∃ d, specReplay [] s.log = some d ∧ (s.lock = none → s.disk = d) := by
  obtain ⟨d, h1, h2, _⟩ := (inv_reach progs s hr).lin
  exact ⟨d, h1, h2⟩

/-- 1''. every logged operation returned what the atomic registers, after exactly the
    operations logged before it, return; in particular a `get` returned the register value -/
theorem C19_returns (progs : Nat → List COp) (s : CacheSt)
    (hr : ∃ ls, cacheRun (CacheSt.init progs) ls = some s)
    (pre post : List CDone) (e : CDone) (hlog : s.log = pre ++ e :: post) :
    ∃ d, specReplay [] pre = some d ∧ e.ret = (specApply d e.op).2 ∧
      ∀ k, e.op = .get k → e.ret = d.value k := by
  obtain ⟨d', h1, _⟩ := (inv_reach progs s hr).lin
  rw [hlog, specReplay_append] at h1
  cases hpre : specReplay [] pre with
  | none => simp [hpre] at h1
  | some d =>
    simp only [hpre, Option.bind_some, specReplay_cons] at h1
    split at h1
    · rename_i hret
      refine ⟨d, rfl, hret.symm, ?_⟩
      intro k hk
      rw [← hret, hk]; rfl
    · cases h1

/-- 2a. the log only grows, by at most one entry per step, and an operation is appended
    exactly at its `release` (with the value its critical section read) -/
theorem C19_order_respected_step (s s' : CacheSt) (l : CacheLbl)
    (h : cacheStep s l = some s') :
    (∃ ext, s'.log = s.log ++ ext ∧ ext.length ≤ 1) ∧
    ((∃ p op, l = .release p ∧ s.lock = some p ∧ (s.procs p).cur = some op ∧
        s'.log = s.log ++ [{ proc := p, op := op, ret := (s.procs p).got }])
     ∨ ((∀ p, l ≠ .release p) ∧ s'.log = s.log)) := by
  cases step_of _ _ _ h with
  | acquire p op rest hl hc ht =>
    exact ⟨⟨[], by simp [stAcquire], by simp⟩, Or.inr ⟨fun q hq => (by cases hq), rfl⟩⟩
  | access p a rest hl hp =>
    exact ⟨⟨[], by simp [stAccess], by simp⟩, Or.inr ⟨fun q hq => (by cases hq), rfl⟩⟩
  | release p op hl hp hc =>
    exact ⟨⟨[_], rfl, by simp⟩, Or.inl ⟨p, op, rfl, hl, hc, rfl⟩⟩
  | retry p k rest hl hp ht =>
    exact ⟨⟨[], by simp [stRetry], by simp⟩, Or.inr ⟨fun q hq => (by cases hq), rfl⟩⟩

/-- 2b. at most one operation is inside a critical section, and it is the lock holder's -/
theorem C19_order_respected (progs : Nat → List COp) (s : CacheSt)
    (hr : ∃ ls, cacheRun (CacheSt.init progs) ls = some s) :
    (∀ p q, (s.procs p).cur.isSome → (s.procs q).cur.isSome → p = q) ∧
    (∀ p, (s.procs p).cur.isSome ↔ s.lock = some p) := by
  have hi := inv_reach progs s hr
  refine ⟨?_, hi.curlock⟩
  intro p q hp hq
  have h1 := (hi.curlock p).1 hp
  have h2 := (hi.curlock q).1 hq
  rw [h1] at h2
  exact Option.some.inj h2

/-- 3. per-process program order; nothing lost, nothing duplicated -/
theorem C19_per_process_order (progs : Nat → List COp) (s : CacheSt)
    (hr : ∃ ls, cacheRun (CacheSt.init progs) ls = some s) (p : Nat) :
    (s.log.filter (·.proc == p)).map (·.op) ++ ((s.procs p).cur.toList) ++ (s.procs p).todo
      = progs p :=
  (inv_reach progs s hr).order p

/-- 4. no deadlock: as long as some process has work left, some transition is enabled -/
theorem C19_nodeadlock (progs : Nat → List COp) (s : CacheSt)
    (hr : ∃ ls, cacheRun (CacheSt.init progs) ls = some s) (p : Nat)
    (h : (s.procs p).todo ≠ [] ∨ (s.procs p).cur.isSome) :
    ∃ l s', cacheStep s l = some s' :=
  progress progs s (inv_reach progs s hr) p h

/-- 4'. along any run process `p` takes at most
    `Σ_{op ∈ progs p} (Σ_{a ∈ accesses op} accCost a + 2)` steps, retries included, where a
    read costs `maxOpenRetry + 1` (up to `maxOpenRetry` failed opens, then the read) and
    any other access 1 -/
theorem C19_run_bounded (progs : Nat → List COp) (ls : List CacheLbl) (s : CacheSt)
    (h : cacheRun (CacheSt.init progs) ls = some s) (p : Nat) :
    (ls.filter (fun l => lblProc l == p)).length ≤ costR (progs p) := by
  have := muR_run ls _ s p h
  simp [muR, CacheSt.init, pendMu] at this
  omega

/-- 4''. the steps of `p` other than retries obey the bound of the retry-free system:
    `Σ_{op ∈ progs p} (|accesses op| + 2)` -/
theorem C19_run_bounded_noretry (progs : Nat → List COp) (ls : List CacheLbl) (s : CacheSt)
    (h : cacheRun (CacheSt.init progs) ls = some s) (p : Nat) :
    (ls.filter (fun l => lblProc l == p && !isRetry l)).length ≤ cost (progs p) := by
  have := mu_run ls _ s p h
  simp [mu, CacheSt.init] at this
  omega

/-- the two bounds on concrete operations: a `get` may take 13 steps instead of 3 -/
example : cost [.get 0] = 3 ∧ costR [.get 0] = maxOpenRetry + 3 ∧
    costR [.set 0 "a", .bulkSet [(0, "b"), (1, "c")], .unset 1] =
      cost [.set 0 "a", .bulkSet [(0, "b"), (1, "c")], .unset 1] := by decide

/-! ### retries -/

/-- 5. a failed open is retried only by the lock holder, inside its critical section, and
    changes neither the disk nor the lock nor the log -/
theorem C19_retry_holds_lock (s s' : CacheSt) (p : Nat)
    (h : cacheStep s (.retry p) = some s') :
    s.lock = some p ∧ s'.lock = some p ∧ s'.disk = s.disk ∧ s'.log = s.log := by
  cases step_of _ _ _ h with
  | retry p k rest hl hp ht => exact ⟨hl, hl, rfl, rfl⟩

/-- 5'. it happens in front of a read, at most `maxOpenRetry` times per critical
    section, and only counts the attempt -/
theorem C19_retry_step (s s' : CacheSt) (p : Nat)
    (h : cacheStep s (.retry p) = some s') :
    (∃ k rest, (s.procs p).pending = .read k :: rest) ∧
    (s.procs p).tries < maxOpenRetry ∧
    (s'.procs p).tries = (s.procs p).tries + 1 ∧
    (s'.procs p).pending = (s.procs p).pending ∧ (s'.procs p).cur = (s.procs p).cur ∧
    (s'.procs p).got = (s.procs p).got ∧ (s'.procs p).todo = (s.procs p).todo ∧
    ∀ q, q ≠ p → s'.procs q = s.procs q := by
  cases step_of _ _ _ h with
  | retry p k rest hl hp ht =>
    refine ⟨⟨k, rest, hp⟩, ht, by simp [stRetry], by simp [stRetry], by simp [stRetry],
      by simp [stRetry], by simp [stRetry], ?_⟩
    intro q hq
    simp [stRetry, updP_other _ _ _ _ hq]

/-- 6. from states equal up to the attempt counters, the run without its retries ends in a
    state equal up to the attempt counters -/
theorem C19_retry_invisible_from (s t s' : CacheSt) (ls : List CacheLbl) (he : EqvT s t)
    (h : cacheRun s ls = some s') :
    ∃ t', cacheRun t (ls.filter (fun l => match l with | .retry _ => false | _ => true))
        = some t' ∧ EqvT s' t' :=
  eqvT_run ls s s' t he h

/-- 6'. removing all retries from a run gives a run with the same final disk, lock and log -/
theorem C19_retry_invisible (progs : Nat → List COp) (ls : List CacheLbl) (s : CacheSt)
    (h : cacheRun (CacheSt.init progs) ls = some s) :
    ∃ s', cacheRun (CacheSt.init progs)
        (ls.filter (fun l => match l with | .retry _ => false | _ => true)) = some s' ∧
      s'.disk = s.disk ∧ s'.lock = s.lock ∧ s'.log = s.log := by
  obtain ⟨t', ht', he⟩ := eqvT_run ls _ s _ (EqvT.refl _) h
  exact ⟨t', ht', he.disk.symm, he.lock.symm, he.log.symm⟩

/-! ### non-vacuity -/

def C19_demo_progs : Nat → List COp
  | 0 => [.set 0 "a", .bulkSet [(0, "b"), (1, "c")], .unset 1]
  | 1 => [.get 0, .get 1]
  | _ => []

def C19_obs (s : CacheSt) : Disk × Option Nat × List CDone := (s.disk, s.lock, s.log)

/-- process 1's `get 0` waits for process 0's `set 0 "a"` and returns "a"; `get 1` after
    `bulk_set` and `unset 1` returns nothing -/
example :
    (cacheRun (CacheSt.init C19_demo_progs)
      [.acquire 0, .access 0, .release 0,
       .acquire 1, .access 1, .release 1,
       .acquire 0, .access 0, .access 0, .release 0,
       .acquire 0, .access 0, .release 0,
       .acquire 1, .access 1, .release 1]).map C19_obs =
    some ([(1, none), (1, some "c"), (0, some "b"), (0, some "a")], none,
      [⟨0, .set 0 "a", none⟩, ⟨1, .get 0, some "a"⟩,
       ⟨0, .bulkSet [(0, "b"), (1, "c")], none⟩, ⟨0, .unset 1, none⟩,
       ⟨1, .get 1, none⟩]) := by decide

/-- a second acquire while the lock is held is refused; so is a release before the access -/
example :
    (cacheRun (CacheSt.init C19_demo_progs) [.acquire 0, .acquire 1]).map C19_obs = none ∧
    (cacheRun (CacheSt.init C19_demo_progs) [.acquire 0, .release 0]).map C19_obs = none := by
  decide

/-- retries of a reader while a writer is blocked -/
def C19_retry_progs : Nat → List COp
  | 0 => [.set 0 "a", .set 0 "b"]
  | 1 => [.get 0]
  | _ => []

/-- process 1's `get 0` fails to open the shelf twice and sleeps holding the lock; process
    0's `set 0 "b"` cannot get in (its `acquire` is refused after either retry), so the `get`
    returns "a", the value written before it, and `set 0 "b"` is logged after it -/
example :
    (cacheRun (CacheSt.init C19_retry_progs)
      [.acquire 0, .access 0, .release 0,
       .acquire 1, .retry 1, .retry 1, .access 1, .release 1,
       .acquire 0, .access 0, .release 0]).map C19_obs =
    some ([(0, some "b"), (0, some "a")], none,
      [⟨0, .set 0 "a", none⟩, ⟨1, .get 0, some "a"⟩, ⟨0, .set 0 "b", none⟩]) := by decide

/-- the writer blocked: after either retry process 0's `acquire` is refused; process 1 still
    holds the lock and nothing but `set 0 "a"` has completed -/
example :
    (cacheRun (CacheSt.init C19_retry_progs)
      [.acquire 0, .access 0, .release 0,
       .acquire 1, .retry 1, .acquire 0]).map C19_obs = none ∧
    (cacheRun (CacheSt.init C19_retry_progs)
      [.acquire 0, .access 0, .release 0,
       .acquire 1, .retry 1, .retry 1, .acquire 0]).map C19_obs = none ∧
    (cacheRun (CacheSt.init C19_retry_progs)
      [.acquire 0, .access 0, .release 0,
       .acquire 1, .retry 1, .retry 1]).map C19_obs =
    some ([(0, some "a")], some 1, [⟨0, .set 0 "a", none⟩]) := by decide

/-- a retry needs the lock and a read in front of it: none outside a critical section, none
    in a `set`, none after the read; `maxOpenRetry = 10` retries are possible, an 11th is
    not (the error propagates: the operation fails) -/
example :
    (cacheRun (CacheSt.init C19_retry_progs) [.retry 1]).map C19_obs = none ∧
    (cacheRun (CacheSt.init C19_retry_progs) [.acquire 0, .retry 0]).map C19_obs = none ∧
    (cacheRun (CacheSt.init C19_retry_progs) [.acquire 1, .retry 0]).map C19_obs = none ∧
    (cacheRun (CacheSt.init C19_retry_progs)
      [.acquire 1, .access 1, .retry 1]).map C19_obs = none ∧
    ((cacheRun (CacheSt.init C19_retry_progs)
      (.acquire 1 :: List.replicate 10 (.retry 1) ++ [.access 1, .release 1])).map C19_obs =
      some ([], none, [⟨1, .get 0, none⟩])) ∧
    (cacheRun (CacheSt.init C19_retry_progs)
      (.acquire 1 :: List.replicate 11 (.retry 1))).map C19_obs = none := by decide

end Sk

#print axioms Sk.C19_linearizable
#print axioms Sk.C19_linearizable_eq
#print axioms Sk.C19_returns
#print axioms Sk.C19_order_respected_step
#print axioms Sk.C19_order_respected
#print axioms Sk.C19_per_process_order
#print axioms Sk.C19_nodeadlock
#print axioms Sk.C19_run_bounded
#print axioms Sk.C19_run_bounded_noretry
#print axioms Sk.C19_retry_holds_lock
#print axioms Sk.C19_retry_step
#print axioms Sk.C19_retry_invisible_from
#print axioms Sk.C19_retry_invisible
