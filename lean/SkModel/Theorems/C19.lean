/-
  C19 — `MPCacheSimple` used by several processes on one path is linearizable: the log of
  completed operations, in order of completion (= order of critical sections), is a legal
  sequential history of one atomic register per key; per-process program order is respected;
  no operation is lost or duplicated; the system never deadlocks and every process takes a
  bounded number of steps.
-/
import SkModel.Proofs.CacheInv

namespace Sk

open Cch

/-- 1. linearizability -/
theorem C19_linearizable (progs : Nat → List COp) (s : CacheSt)
    (hr : ∃ ls, cacheRun (CacheSt.init progs) ls = some s) :
    ∃ d, specReplay [] s.log = some d ∧ (s.lock = none → ∀ k, s.disk.value k = d.value k) := by
  obtain ⟨d, h1, h2, _⟩ := (inv_reach progs s hr).lin
  exact ⟨d, h1, fun hl k => by rw [h2 hl]⟩

/-- 1'. the disk is literally the specification's register map between critical sections -/
theorem C19_linearizable_eq (progs : Nat → List COp) (s : CacheSt)
    (hr : ∃ ls, cacheRun (CacheSt.init progs) ls = some s) :
    ∃ d, specReplay [] s.log = some d ∧ (s.lock = none → s.disk = d) := by
  obtain ⟨d, h1, h2, _⟩ := (inv_reach progs s hr).lin
  exact ⟨d, h1, h2⟩

/-- 1''. every logged operation returned what the atomic registers, after exactly the
    operations logged before it, return; in particular a `get` returned the register value -/
theorem C19_returns (progs : Nat → List COp) (s : CacheSt)
    (hr : ∃ ls, cacheRun (CacheSt.init progs) ls = some s)
    (pre post : List CDone) (e : CDone) (hlog : s.log = pre ++ e :: post) :
    ∃ d, specReplay [] pre = some d ∧ e.ret = (specApply d e.op).2 ∧
      ∀ k, e.op = .get k → e.ret = d.value k := by
  obtain ⟨d', h1, _⟩ := (inv_reach progs s hr).lin
  rw [hlog, specReplay_append] at h1
  cases hpre : specReplay [] pre with
  | none => simp [hpre] at h1
  | some d =>
    simp only [hpre, Option.bind_some, specReplay_cons] at h1
    split at h1
    · rename_i hret
      refine ⟨d, rfl, hret.symm, ?_⟩
      intro k hk
      rw [← hret, hk]; rfl
    · cases h1

/-- 2a. the log only grows, by at most one entry per step, and an operation is appended
    exactly at its `release` (with the value its critical section read) -/
theorem C19_order_respected_step (s s' : CacheSt) (l : CacheLbl)
    (h : cacheStep s l = some s') :
    (∃ ext, s'.log = s.log ++ ext ∧ ext.length ≤ 1) ∧
    ((∃ p op, l = .release p ∧ s.lock = some p ∧ (s.procs p).cur = some op ∧
        s'.log = s.log ++ [{ proc := p, op := op, ret := (s.procs p).got }])
     ∨ ((∀ p, l ≠ .release p) ∧ s'.log = s.log)) := by
  cases step_of _ _ _ h with
  | acquire p op rest hl hc ht =>
    exact ⟨⟨[], by simp [stAcquire], by simp⟩, Or.inr ⟨fun q hq => (by cases hq), rfl⟩⟩
  | access p a rest hl hp =>
    exact ⟨⟨[], by simp [stAccess], by simp⟩, Or.inr ⟨fun q hq => (by cases hq), rfl⟩⟩
  | release p op hl hp hc =>
    exact ⟨⟨[_], rfl, by simp⟩, Or.inl ⟨p, op, rfl, hl, hc, rfl⟩⟩

/-- 2b. at most one operation is inside a critical section, and it is the lock holder's -/
theorem C19_order_respected (progs : Nat → List COp) (s : CacheSt)
    (hr : ∃ ls, cacheRun (CacheSt.init progs) ls = some s) :
    (∀ p q, (s.procs p).cur.isSome → (s.procs q).cur.isSome → p = q) ∧
    (∀ p, (s.procs p).cur.isSome ↔ s.lock = some p) := by
  have hi := inv_reach progs s hr
  refine ⟨?_, hi.curlock⟩
  intro p q hp hq
  have h1 := (hi.curlock p).1 hp
  have h2 := (hi.curlock q).1 hq
  rw [h1] at h2
  exact Option.some.inj h2

/-- 3. per-process program order; nothing lost, nothing duplicated -/
theorem C19_per_process_order (progs : Nat → List COp) (s : CacheSt)
    (hr : ∃ ls, cacheRun (CacheSt.init progs) ls = some s) (p : Nat) :
    (s.log.filter (·.proc == p)).map (·.op) ++ ((s.procs p).cur.toList) ++ (s.procs p).todo
      = progs p :=
  (inv_reach progs s hr).order p

/-- 4. no deadlock: as long as some process has work left, some transition is enabled -/
theorem C19_nodeadlock (progs : Nat → List COp) (s : CacheSt)
    (hr : ∃ ls, cacheRun (CacheSt.init progs) ls = some s) (p : Nat)
    (h : (s.procs p).todo ≠ [] ∨ (s.procs p).cur.isSome) :
    ∃ l s', cacheStep s l = some s' :=
  progress progs s (inv_reach progs s hr) p h

/-- 4'. along any run process `p` takes at most `Σ_{op ∈ progs p} (|accesses op| + 2)` steps -/
theorem C19_run_bounded (progs : Nat → List COp) (ls : List CacheLbl) (s : CacheSt)
    (h : cacheRun (CacheSt.init progs) ls = some s) (p : Nat) :
    (ls.filter (fun l => lblProc l == p)).length ≤ cost (progs p) := by
  have := mu_run ls _ s p h
  simp [mu, CacheSt.init] at this
  omega

/-! ### non-vacuity -/

def C19_demo_progs : Nat → List COp
  | 0 => [.set 0 "a", .bulkSet [(0, "b"), (1, "c")], .unset 1]
  | 1 => [.get 0, .get 1]
  | _ => []

def C19_obs (s : CacheSt) : Disk × Option Nat × List CDone := (s.disk, s.lock, s.log)

/-- process 1's `get 0` waits for process 0's `set 0 "a"` and returns "a"; `get 1` after
    `bulk_set` and `unset 1` returns nothing -/
example :
    (cacheRun (CacheSt.init C19_demo_progs)
      [.acquire 0, .access 0, .release 0,
       .acquire 1, .access 1, .release 1,
       .acquire 0, .access 0, .access 0, .release 0,
       .acquire 0, .access 0, .release 0,
       .acquire 1, .access 1, .release 1]).map C19_obs =
    some ([(1, none), (1, some "c"), (0, some "b"), (0, some "a")], none,
      [⟨0, .set 0 "a", none⟩, ⟨1, .get 0, some "a"⟩,
       ⟨0, .bulkSet [(0, "b"), (1, "c")], none⟩, ⟨0, .unset 1, none⟩,
       ⟨1, .get 1, none⟩]) := by decide

/-- a second acquire while the lock is held is refused; so is a release before the access -/
example :
    (cacheRun (CacheSt.init C19_demo_progs) [.acquire 0, .acquire 1]).map C19_obs = none ∧
    (cacheRun (CacheSt.init C19_demo_progs) [.acquire 0, .release 0]).map C19_obs = none := by
  decide

end Sk

#print axioms Sk.C19_linearizable
#print axioms Sk.C19_linearizable_eq
#print axioms Sk.C19_returns
#print axioms Sk.C19_order_respected_step
#print axioms Sk.C19_order_respected
#print axioms Sk.C19_per_process_order
#print axioms Sk.C19_nodeadlock
#print axioms Sk.C19_run_bounded
