/-
  C01 — a single-line search without constraints reports exactly one result per
  matching line, ascending, 1-based, carrying the prescribed values, whatever other
  searches are registered.
-/
import SkModel.Proofs.TaskProj
import SkModel.Spec.Simple

namespace Sk

/-! ### values stored for a match -/

theorem savePart_val {fields idx v p} (h : savePart fields idx v = .ok p) : p.val = v := by
  unfold savePart at h
  split at h
  · split at h
    · cases h
    · split at h
      · cases h; rfl
      · cases h
  · cases h; rfl

theorem savePartsFrom_vals {fields : Option (List String)} : ∀ {vs : List (Option Val)} {k ps},
    savePartsFrom fields k vs = .ok ps → ps.map (·.val) = vs
  | [], _, _, h => by
    simp only [savePartsFrom] at h; cases h; rfl
  | v :: vs, k, ps, h => by
    simp only [savePartsFrom, bind_ok, pure_ok] at h
    obtain ⟨p, h1, ps', h2, rfl⟩ := h
    simp [savePart_val h1, savePartsFrom_vals h2]

theorem mkParts_vals {d : SDef} {m : Match} {ps} (h : mkParts d m = .ok ps) :
    ps.map (·.val) = Spec.values d m := by
  unfold mkParts at h
  unfold Spec.values
  split at h
  · rename_i hs
    cases h; simp [hs]
  · rename_i hs
    split at h
    · rename_i hg
      simp only [bind_ok, pure_ok] at h
      obtain ⟨p, h1, rfl⟩ := h
      simp [hs, hg, savePart_val h1]
    · rename_i hg
      simp [hs, hg, savePartsFrom_vals h]

/-! ### `SearchDef.run` against the specification -/

theorem findSome_eq_firstMatch (pats : List (Nat → Option Match)) (i : Nat) :
    pats.findSome? (fun p => p i) = (pats.filterMap (fun p => p i)).head? := by
  rw [List.head?_filterMap]

theorem run_eq_spec (sd : SDef) (i : Nat) :
    sd.run i = if Spec.hintOk sd i then Spec.firstMatch sd i else none := by
  unfold SDef.run Spec.hintOk Spec.firstMatch
  cases sd.hint <;> simp [List.head?_filterMap]

/-- the specification's per-line entry -/
def specLine (sd : SDef) (i : Nat) : Option (Nat × List (Option Val)) :=
  if Spec.hintOk sd i then (Spec.firstMatch sd i).map (fun m => (i + 1, Spec.values sd m)) else none

theorem spec_simple_eq (sd : SDef) (n : Nat) : Spec.simple sd n = (List.range n).filterMap (specLine sd) := rfl

def SimpleMeta (sd : SDef) (r : Res) : Prop :=
  r.tag = sd.tag ∧ r.seqId = none ∧ r.sec = none ∧ r.fields = sd.fields

theorem defStep_simple {i d sd st st' o} (hk : d.kind = .simple sd) (hr : st.runnable = true)
    (h : defStep i d st = .ok (st', o)) :
    st' = st ∧ o.map (fun r => (r.ln, r.iter)) = (specLine sd i).toList ∧ ∀ r ∈ o, SimpleMeta sd r := by
  rw [defStep_eq, gate_runnable hr] at h
  simp only at h
  unfold defBody at h
  split at h
  · rename_i sd' hk'
    rw [hk] at hk'
    cases hk'
    unfold specLine
    rw [run_eq_spec] at h
    split at h
    · rename_i m hm
      simp only [bind_ok, pure_ok, Prod.mk.injEq] at h
      obtain ⟨r, hr, rfl, rfl⟩ := h
      simp only [mkSimpleRes, bind_ok, pure_ok] at hr
      obtain ⟨ps, hps, rfl⟩ := hr
      refine ⟨rfl, ?_, ?_⟩
      · split at hm
        · rename_i hh
          simp [hm, hh, Res.iter, mkParts_vals hps]
        · cases hm
      · intro r hr
        simp only [List.mem_singleton] at hr
        subst hr
        exact ⟨rfl, rfl, rfl, rfl⟩
    · rename_i hm
      simp only [pure_ok, Prod.mk.injEq] at h
      obtain ⟨rfl, rfl⟩ := h
      refine ⟨rfl, ?_, by simp⟩
      split at hm
      · rename_i hh
        simp [hm, hh]
      · rename_i hh
        simp [hh]
  · rename_i s hk'
    rw [hk] at hk'
    cases hk'

theorem soloLoop_simple {d sd} (hk : d.kind = .simple sd) :
    ∀ (is : List Nat) (st stF : DSt) (out : List Res), st.runnable = true →
      soloLoop d st is = .ok (stF, out) →
      out.map (fun r => (r.ln, r.iter)) = is.filterMap (specLine sd) ∧ ∀ r ∈ out, SimpleMeta sd r
  | [], st, stF, out, _, h => by
    simp only [soloLoop, pure_ok, Prod.mk.injEq] at h
    obtain ⟨_, rfl⟩ := h
    simp
  | i :: is, st, stF, out, hr, h => by
    simp only [soloLoop, bind_ok, pure_ok, Prod.mk.injEq] at h
    obtain ⟨⟨st1, o⟩, h1, ⟨st2, os⟩, h2, _, rfl⟩ := h
    obtain ⟨rfl, g1, g2⟩ := defStep_simple hk hr h1
    obtain ⟨k1, k2⟩ := soloLoop_simple hk is st1 st2 os hr h2
    refine ⟨?_, ?_⟩
    · rw [List.map_append, g1, k1, List.filterMap_cons]
      cases specLine sd i <;> simp
    · intro r hr
      rcases List.mem_append.mp hr with h | h
      · exact g2 r h
      · exact k2 r h

theorem eofDef_simple {n d sd st fin} (hk : d.kind = .simple sd) (h : eofDef n d st = .ok fin) :
    fin = [] := by
  unfold eofDef at h
  split at h
  · simp only [pure_ok] at h; exact h.symm
  · rename_i s hk'
    rw [hk] at hk'
    cases hk'

theorem C01_core (t : TaskIn) (hwf : DefsWF t.defs) (d : Def) (sd : SDef)
    (hd : d ∈ t.defs) (hk : d.kind = .simple sd) (hc : d.cons = [])
    (rs : List Res) (st : Stats) (hrun : runTask t = .ok (rs, st)) :
    (rs.filter (fun r => r.src == d.id)).map (fun r => (r.ln, r.iter)) = Spec.simple sd t.n ∧
    ∀ r ∈ rs.filter (fun r => r.src == d.id), SimpleMeta sd r := by
  obtain ⟨stF, out, fin, h1, h2, h3⟩ := runTask_proj t hwf d hd rs st hrun
  have hf := eofDef_simple hk h2
  subst hf
  rw [h3, List.append_nil, spec_simple_eq]
  exact soloLoop_simple hk _ _ _ _ (by simp [DSt.init, hc]) h1

/-- C01: for every line table, every set of registered definitions (simple and sequence,
    constrained or not, duplicates allowed) and every unconstrained single-line search `d`
    among them, the results reported for `d` are exactly one per matching line, ascending,
    with 1-based numbers and the prescribed values. -/
theorem C01_simple_exact (t : TaskIn) (hwf : DefsWF t.defs) (d : Def) (sd : SDef)
    (hd : d ∈ t.defs) (hk : d.kind = .simple sd) (hc : d.cons = [])
    (rs : List Res) (st : Stats) (hrun : runTask t = .ok (rs, st)) :
    (rs.filter (fun r => r.src == d.id)).map (fun r => (r.ln, r.iter)) = Spec.simple sd t.n :=
  (C01_core t hwf d sd hd hk hc rs st hrun).1

/-- and each of them carries the search's tag and no sequence identity -/
theorem C01_simple_meta (t : TaskIn) (hwf : DefsWF t.defs) (d : Def) (sd : SDef)
    (hd : d ∈ t.defs) (hk : d.kind = .simple sd) (hc : d.cons = [])
    (rs : List Res) (st : Stats) (hrun : runTask t = .ok (rs, st)) :
    ∀ r ∈ rs.filter (fun r => r.src == d.id),
      r.tag = sd.tag ∧ r.seqId = none ∧ r.sec = none ∧ r.fields = sd.fields :=
  (C01_core t hwf d sd hd hk hc rs st hrun).2

/-! ### non-vacuity -/

namespace C01Ex

/-- two patterns: the first matches line 1 only, the second lines 2 and 3; the hint
    rejects line 3 -/
def sd : SDef :=
  { hint := some (fun i => i != 2),
    pats := [fun i => if i = 0 then some ⟨"a", []⟩ else none,
             fun i => if i = 1 ∨ i = 2 then some ⟨"b c", [some "c"]⟩ else none],
    tag := some "T" }

def d1 : Def := { id := 1, kind := .simple sd }

/-- a sequence search registered alongside, constrained, starting on line 1 -/
def d2 : Def :=
  { id := 2,
    kind := .seq { start := { pats := [fun i => if i = 0 then some ⟨"s", []⟩ else none] }, tag := "S" },
    cons := [fun _ => .pass] }

def t : TaskIn := { n := 3, dec := fun _ => true, defs := [d2, d1, d2] }

theorem wf : DefsWF t.defs := by
  intro a ha b hb he
  simp only [t, List.mem_cons, List.not_mem_nil, or_false] at ha hb
  rcases ha with rfl | rfl | rfl <;> rcases hb with rfl | rfl | rfl <;>
    first | rfl | (simp [d1, d2] at he)

end C01Ex

example : (match runTask C01Ex.t with
    | .ok (rs, st) => (rs.map (fun r => (r.src, r.ln, r.iter)), st.lines, st.results)
    | .error _ => ([], 0, 0)) =
    ([(1, 1, [some "a"]), (1, 2, [some "c"]), (2, 1, [some "s"])], 3, 3) := by
  decide

example : ∃ rs st, runTask C01Ex.t = .ok (rs, st) ∧ DefsWF C01Ex.t.defs ∧ C01Ex.d1 ∈ C01Ex.t.defs ∧
    C01Ex.d1.kind = .simple C01Ex.sd ∧ C01Ex.d1.cons = [] ∧
    Spec.simple C01Ex.sd C01Ex.t.n = [(1, [some "a"]), (2, [some "c"])] := by
  have hok : (match runTask C01Ex.t with | .ok _ => true | .error _ => false) = true := by decide
  cases h : runTask C01Ex.t with
  | error e => rw [h] at hok; cases hok
  | ok p =>
    exact ⟨p.1, p.2, rfl, C01Ex.wf, by simp [C01Ex.t], rfl, rfl, by decide⟩

end Sk

#print axioms Sk.runTask_proj
#print axioms Sk.runTask_stats
#print axioms Sk.C01_simple_exact
#print axioms Sk.C01_simple_meta
