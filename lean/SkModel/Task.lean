/-
  SkModel.Task — implementation-layer model of `searchkit/task.py`
  (`SearchDef.run`, `SearchResult.store_result/_save_part`,
  `SearchTask._simple_search/_sequence_search/_process_sequence_results/_run_search`)
  and of `SearchConstraintsManager.apply_single` (search.py).

  The model follows the code's control flow: outer loop over lines, inner loop over
  the (de-duplicated) search definitions in registration order, per-definition
  mutable state (`runnable`, the sequence mark and section id, the per-sequence
  result list), the global insertion order of the sequence-result dictionary, the
  end-of-file processing.  What is *not* here: the result store (values are carried
  directly; `SkModel.Store`/`SkModel.Result` model the index encoding and C05 proves
  the round trip) and the buffering/batching of results (`SkModel.Flush`).
-/
import SkModel.Basic

namespace Sk

/-- A `SearchDef`: optional hint, pattern list, and what it does on each line. -/
structure SDef where
  hint : Option (Nat → Bool) := none        -- `hint.search(line_i)` is truthy
  pats : List (Nat → Option Match)          -- `pattern.match(line_i)` per pattern, in list order
  emptyRes : Option Match := none           -- `self.run('')`, used at end of file
  store : Bool := true                      -- store_result_contents
  tag : Option String := none
  fields : Option (List String) := none     -- ResultFieldInfo names (None if absent/empty)

/-- `SearchDef.run(line_i)`: the hint gates, then the first pattern that matches wins. -/
def SDef.run (d : SDef) (i : Nat) : Option Match :=
  match d.hint with
  | some h => if h i then d.pats.findSome? (fun p => p i) else none
  | none => d.pats.findSome? (fun p => p i)

structure Part where
  idx : Nat
  val : Option Val
  name : Option String
deriving Repr, DecidableEq, Inhabited

/-- `SearchResult._save_part`: a captured value gets the field name registered for its
    group; `index_to_name` raises for a group that has no field (configuration error,
    surfaces as FileSearchException). -/
def savePart (fields : Option (List String)) (idx : Nat) (v : Option Val) : Except Err Part :=
  match v, fields with
  | some _, some fs =>
    if idx = 0 then .error .fileSearch else
    match fs[idx - 1]? with
    | some nm => .ok ⟨idx, v, some nm⟩
    | none => .error .fileSearch
  | _, _ => .ok ⟨idx, v, none⟩

def savePartsFrom (fields : Option (List String)) : Nat → List (Option Val) → Except Err (List Part)
  | _, [] => .ok []
  | k, v :: vs => do
    let p ← savePart fields k v
    let ps ← savePartsFrom fields (k + 1) vs
    pure (p :: ps)

/-- `SearchResult.store_result`. -/
def mkParts (d : SDef) (m : Match) : Except Err (List Part) :=
  if !d.store then .ok []
  else if m.groups.isEmpty then do
    let p ← savePart d.fields 0 (some m.g0)
    pure [p]
  else savePartsFrom d.fields 1 m.groups

structure Res where
  src : Nat                         -- ghost: id of the definition that produced it
  ln : Nat                          -- 1-based line number
  tag : Option String
  seqId : Option Nat                -- id of the owning sequence definition
  sec : Option (Nat × Nat)          -- section id: (sequence def id, n-th id drawn by that def)
  parts : List Part
  fields : Option (List String)
deriving Repr, DecidableEq, Inhabited

structure SeqDef where
  start : SDef
  body : Option SDef := none
  end_ : Option SDef := none
  tag : String

inductive Kind
  | simple (d : SDef)
  | seq (s : SeqDef)

structure Def where
  id : Nat                          -- object identity (the uuid)
  kind : Kind
  cons : List (Nat → COut) := []    -- per-search constraints: outcome on each line

/-- `SearchConstraintsManager.apply_single` → (line_is_valid, all_constraints_passed). -/
def applySingleGo : List COut → Bool → Bool → Bool × Bool
  | [], any, all => (any, all)
  | .pass :: r, _, all => applySingleGo r true all
  | .undec :: r, any, _ => applySingleGo r any false
  | .fail :: _, _, _ => (false, false)

def applySingle (outs : List COut) : Bool × Bool :=
  if outs.isEmpty then (true, true) else applySingleGo outs false true

/-- Mutable per-definition state of one `_run_search`. -/
structure DSt where
  runnable : Bool
  started : Bool := false           -- SequenceSearchDef._mark == 1
  cnt : Nat := 0                    -- how many section ids this definition has drawn
  sec : Nat := 0                    -- current section id (local part)
  seqRes : List Res := []           -- sequence_results[seq_id]
  everAdded : Bool := false         -- seq_id is a key of sequence_results
deriving Repr, Inhabited

def DSt.init (d : Def) : DSt := { runnable := d.cons.isEmpty }

def seqTagOf (s : SeqDef) (sfx : String) : Option String := some (s.tag ++ sfx)

def mkSeqRes (id : Nat) (s : SeqDef) (sfx : String) (sd : SDef) (ln : Nat) (sec : Nat) (m : Match) :
    Except Err Res := do
  let ps ← mkParts sd m
  pure { src := id, ln := ln, tag := seqTagOf s sfx, seqId := some id, sec := some (id, sec),
         parts := ps, fields := sd.fields }

/-- `_sequence_search` on line `i` for the sequence definition `s` (id `id`). -/
def seqStep (id : Nat) (s : SeqDef) (i : Nat) (st : DSt) : Except Err DSt :=
  let ret0 := s.start.run i
  -- "if the ending is defined and we match a start while already in a section, start again"
  let (st, ret, viaEnd) :=
    match s.end_ with
    | some e =>
      if st.started then
        if ret0.isSome then
          ({ st with seqRes := st.seqRes.filter (fun r => r.sec != some (id, st.sec)),
                     started := false }, ret0, false)
        else (st, e.run i, true)
      else (st, ret0, false)
    | none => (st, ret0, false)
  match ret with
  | some m =>
    if !st.started then do
      -- start(): draw a new section id
      let sec := st.cnt
      let r ← mkSeqRes id s "-start" s.start (i + 1) sec m
      pure { st with started := true, cnt := st.cnt + 1, sec := sec,
                     seqRes := st.seqRes ++ [r], everAdded := true }
    else
      match s.end_ with
      | some e => do
        -- an end match closes the section; stop() draws a new id
        let _ := viaEnd
        let r ← mkSeqRes id s "-end" e (i + 1) st.sec m
        pure { st with started := false, cnt := st.cnt + 1, sec := st.cnt,
                       seqRes := st.seqRes ++ [r], everAdded := true }
      | none => do
        -- no end defined: complete the section and start the next one
        let sec := st.cnt + 1
        let r ← mkSeqRes id s "-start" s.start (i + 1) sec m
        pure { st with started := true, cnt := st.cnt + 2, sec := sec,
                       seqRes := st.seqRes ++ [r], everAdded := true }
  | none =>
    if st.started then
      match s.body with
      | some b =>
        match b.run i with
        | some m => do
          let r ← mkSeqRes id s "-body" b (i + 1) st.sec m
          pure { st with seqRes := st.seqRes ++ [r], everAdded := true }
        | none => pure st
      | none => pure st
    else pure st

def mkSimpleRes (id : Nat) (d : SDef) (ln : Nat) (m : Match) : Except Err Res := do
  let ps ← mkParts d m
  pure { src := id, ln := ln, tag := d.tag, seqId := none, sec := none, parts := ps, fields := d.fields }

/-- One definition on one line: constraint gating, then the search.
    Returns the new state and the simple results emitted (0 or 1). -/
def defStep (i : Nat) (d : Def) (st : DSt) : Except Err (DSt × List Res) :=
  let gate : Option DSt :=
    if st.runnable then some st
    else
      let (valid, allp) := applySingle (d.cons.map (fun c => c i))
      if valid then some { st with runnable := allp } else none
  match gate with
  | none => pure (st, [])
  | some st =>
    match d.kind with
    | .simple sd =>
      match sd.run i with
      | some m => do
        let r ← mkSimpleRes d.id sd (i + 1) m
        pure (st, [r])
      | none => pure (st, [])
    | .seq s => do
      let st' ← seqStep d.id s i st
      pure (st', [])

/-- Loop state of `_run_search`. -/
structure LSt where
  sts : List DSt                    -- aligned with the definition list
  simple : List Res := []           -- simple results in emission order
  order : List Nat := []            -- keys of `sequence_results` in insertion order
deriving Repr, Inhabited

def defsStep (i : Nat) : List Def → List DSt → Except Err (List DSt × List Res × List Nat)
  | d :: ds, st :: sts => do
    let (st', out) ← defStep i d st
    let (sts', outs, ord) ← defsStep i ds sts
    let newKey := if st'.everAdded && !st.everAdded then [d.id] else []
    pure (st' :: sts', out ++ outs, newKey ++ ord)
  | _, _ => pure ([], [], [])

def lineStep (dec : Nat → Bool) (defs : List Def) (ls : LSt) (i : Nat) : Except Err LSt :=
  if !dec i then .error .unicodeDecode
  else do
    let (sts', outs, ord) ← defsStep i defs ls.sts
    pure { sts := sts', simple := ls.simple ++ outs, order := ls.order ++ ord }

def linesLoop (dec : Nat → Bool) (defs : List Def) : LSt → List Nat → Except Err LSt
  | ls, [] => pure ls
  | ls, i :: is => do
    let ls' ← lineStep dec defs ls i
    linesLoop dec defs ls' is

/-- First occurrence of each definition object (`search_defs` is a dict keyed by object). -/
def dedupDefs : List Def → List Nat → List Def
  | [], _ => []
  | d :: ds, seen => if seen.contains d.id then dedupDefs ds seen else d :: dedupDefs ds (d.id :: seen)

/-- End-of-file handling of one sequence definition: returns its final result list. -/
def eofDef (n : Nat) (d : Def) (st : DSt) : Except Err (List Res) :=
  match d.kind with
  | .simple _ => pure []
  | .seq s =>
    if st.started then
      match s.end_ with
      | none => pure st.seqRes
      | some e =>
        match e.emptyRes with
        | some m => do
          let r ← mkSeqRes d.id s "-end" e (n + 1) st.sec m
          pure (st.seqRes ++ [r])
        | none => pure (st.seqRes.filter (fun r => r.sec != some (d.id, st.sec)))
    else pure st.seqRes

def eofAll (n : Nat) : List Def → List DSt → Except Err (List (Nat × List Res))
  | d :: ds, st :: sts => do
    let r ← eofDef n d st
    let rs ← eofAll n ds sts
    pure ((d.id, r) :: rs)
  | _, _ => pure []

structure Stats where
  lines : Nat
  results : Nat
deriving Repr, DecidableEq, Inhabited

structure TaskIn where
  n : Nat                           -- number of lines read from the start position
  dec : Nat → Bool                  -- line i decodes under the chosen policy
  defs : List Def                   -- info['searches'], duplicates possible

/-- `_run_search` + the final flush: the results filed for this path, in order. -/
def runTask (t : TaskIn) : Except Err (List Res × Stats) := do
  let defs := dedupDefs t.defs []
  let ls0 : LSt := { sts := defs.map DSt.init }
  let ls ← linesLoop t.dec defs ls0 (List.range t.n)
  let finals ← eofAll t.n defs ls.sts
  let seqOut := ls.order.flatMap (fun id => (finals.lookup id).getD [])
  let all := ls.simple ++ seqOut
  pure (all, { lines := t.n, results := all.length })

end Sk
