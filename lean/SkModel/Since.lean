/-
  SkModel.Since — implementation-layer model of `SearchConstraintSearchSince`
  (constraints.py): the window (`days` if non-zero, otherwise `hours`, 24 by default),
  `since_date = current_date - timedelta(days, hours)`, `_line_date_is_valid`
  (`ts < since_date` fails), `apply_to_line` with its pass/fail counters, and the civil
  calendar needed to say what `datetime` comparison and `timedelta` subtraction mean
  (Python's proleptic Gregorian `_ymd2ord`).
-/
import SkModel.Basic

namespace Sk

structure Civil where
  y : Nat
  mo : Nat
  d : Nat
  h : Nat
  mi : Nat
  s : Nat
deriving Repr, DecidableEq, Inhabited

def isLeap (y : Nat) : Bool := y % 4 == 0 && (y % 100 != 0 || y % 400 == 0)

def daysInMonth (y m : Nat) : Nat :=
  match m with
  | 1 => 31 | 2 => if isLeap y then 29 else 28 | 3 => 31 | 4 => 30 | 5 => 31 | 6 => 30
  | 7 => 31 | 8 => 31 | 9 => 30 | 10 => 31 | 11 => 30 | 12 => 31 | _ => 0

/-- what `datetime(y, mo, d, h, mi, s)` accepts -/
def Civil.valid (c : Civil) : Bool :=
  1 ≤ c.y && c.y ≤ 9999 && 1 ≤ c.mo && c.mo ≤ 12 && 1 ≤ c.d && c.d ≤ daysInMonth c.y c.mo &&
  c.h < 24 && c.mi < 60 && c.s < 60

/-- `_days_before_year` -/
def daysBeforeYear (y : Nat) : Nat :=
  let y1 := y - 1
  y1 * 365 + y1 / 4 - y1 / 100 + y1 / 400

/-- `_days_before_month` -/
def daysBeforeMonthCommon (m : Nat) : Nat :=
  match m with
  | 1 => 0 | 2 => 31 | 3 => 59 | 4 => 90 | 5 => 120 | 6 => 151 | 7 => 181 | 8 => 212
  | 9 => 243 | 10 => 273 | 11 => 304 | 12 => 334 | _ => 0

def daysBeforeMonth (y m : Nat) : Nat :=
  daysBeforeMonthCommon m + (if m > 2 && isLeap y then 1 else 0)

/-- `_ymd2ord`: 1 = 0001-01-01 -/
def Civil.ordinal (c : Civil) : Nat := daysBeforeYear c.y + daysBeforeMonth c.y c.mo + c.d

/-- seconds on the proleptic Gregorian time line (what `timedelta` arithmetic is about) -/
def Civil.toSeconds (c : Civil) : Int :=
  (((c.ordinal : Int) * 24 + c.h) * 60 + c.mi) * 60 + c.s

/-- `datetime.__lt__`: lexicographic on (y, mo, d, h, mi, s) -/
def Civil.lt (a b : Civil) : Bool :=
  a.y < b.y || (a.y == b.y && (a.mo < b.mo || (a.mo == b.mo && (a.d < b.d || (a.d == b.d &&
  (a.h < b.h || (a.h == b.h && (a.mi < b.mi || (a.mi == b.mi && a.s < b.s)))))))))

/-- the constructor's normalisation: `if days: hours = 0` ; `hours or 0` -/
def windowSeconds (days hours : Int) : Int :=
  if days ≠ 0 then days * 86400 else hours * 3600

/-- `apply_to_line` outcome given the extracted timestamp -/
def applyToLine (since : Civil) (ts : Option Civil) : COut :=
  match ts with
  | none => .undec
  | some t => if t.lt since then .fail else .pass

structure SinceStats where
  pass : Nat := 0
  fail : Nat := 0
deriving Repr, DecidableEq, Inhabited

/-- one `apply_to_line` call with its counters -/
def applyCount (since : Civil) (st : SinceStats) (ts : Option Civil) : SinceStats × COut :=
  match applyToLine since ts with
  | .pass => ({ st with pass := st.pass + 1 }, .pass)
  | .fail => ({ st with fail := st.fail + 1 }, .fail)
  | .undec => (st, .undec)

def applyMany (since : Civil) : SinceStats → List (Option Civil) → SinceStats × List COut
  | st, [] => (st, [])
  | st, t :: ts =>
    let (st', o) := applyCount since st t
    let (st'', os) := applyMany since st' ts
    (st'', o :: os)

end Sk
