/-
  SkModel.Result — the read side of a search result (`SearchResultBase._get_store_id`,
  `get`, `__iter__`, `SearchResultMinimal.__getattr__`), stated directly on captured
  values.  `SkModel.Store` gives the same functions over the index encoding and C05
  proves they agree.
-/
import SkModel.Task

namespace Sk

/-- `result.get(i)` for an integer group index. -/
def Res.getIdx (r : Res) (i : Nat) : Option Val :=
  (r.parts.find? (fun p => p.idx == i && p.val.isSome)).bind (·.val)

/-- `result.get('name')` for a field name. -/
def Res.getName (r : Res) (nm : String) : Option Val :=
  (r.parts.find? (fun p => p.name == some nm && p.val.isSome)).bind (·.val)

/-- `result.NAME`: defined only for registered field names. -/
def Res.attr (r : Res) (nm : String) : Option (Option Val) :=
  match r.fields with
  | some fs => if fs.contains nm then some (r.getName nm) else none
  | none => none

/-- `list(result)`. -/
def Res.iter (r : Res) : List (Option Val) := r.parts.map (·.val)

end Sk
