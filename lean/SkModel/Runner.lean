/-
  SkModel.Runner — `FileSearcher.run()` above the single task (search.py):
  `num_parallel_tasks`, the choice in-process / pool, per-file `execute`
  (zero-length shortcut), assembly of the per-path results and of the run statistics,
  the object state that survives a run (`Persist`), and the worker pool as a transition
  system (each pending task taken once by one of ≤ n workers).
-/
import SkModel.Task

namespace Sk

/-- `FileSearcher.num_parallel_tasks` -/
def numParallel (maxParallel cpus files : Nat) : Nat :=
  min (if files = 0 then 1 else files) (if maxParallel = 0 then 1 else min maxParallel cpus)

inductive Plan
  | nothing                 -- empty catalog
  | inProcess               -- exactly one file: searched by the calling process
  | pool (workers : Nat)    -- two or more files: ProcessPoolExecutor(max_workers)
deriving Repr, DecidableEq, Inhabited

def plan (maxParallel cpus files : Nat) : Plan :=
  if files = 0 then .nothing
  else if files = 1 then .inProcess
  else .pool (numParallel maxParallel cpus files)

/-- one catalog entry -/
structure FileJob where
  task : TaskIn               -- lines from the position the file-level constraint left
  nregs : Nat                 -- len(entry['searches']), duplicates included
  empty : Bool                -- os.path.getsize(path) == 0

/-- `SearchTask.execute` -/
def execute (j : FileJob) : Except Err (List Res × Stats) :=
  if j.empty then .ok ([], { lines := 0, results := 0 }) else runTask j.task

structure RunStats where
  searches : Nat
  searchesByJob : List Nat
  lines : Nat
  results : Nat
  jobsCompleted : Nat
  totalJobs : Nat
deriving Repr, DecidableEq, Inhabited

def executeAll : List FileJob → Except Err (List (List Res × Stats))
  | [] => .ok []
  | j :: js => do
    let r ← execute j
    let rs ← executeAll js
    pure (r :: rs)

/-- `run()`: per-path results (catalog order) and the statistics of this run.
    An error of any task makes the run fail (which error surfaces when several tasks fail
    depends on completion order; `runErrors` lists the candidates). -/
def runAll (jobs : List FileJob) : Except Err (List (List Res) × RunStats) := do
  let outs ← executeAll jobs
  let n := jobs.length
  let jobsDone := if n = 0 then 0 else if n = 1 then 1 else n
  pure (outs.map (·.1),
        { searches := (jobs.map (·.nregs)).sum, searchesByJob := jobs.map (·.nregs),
          lines := (outs.map (·.2.lines)).sum, results := (outs.map (·.2.results)).sum,
          jobsCompleted := jobsDone, totalJobs := jobsDone })

def runErrors (jobs : List FileJob) : List Err :=
  jobs.filterMap fun j => match execute j with
    | .error e => some e
    | .ok _ => none

/-! ### state that survives a run -/

/-- what a `SequenceSearchDef` object keeps between runs -/
structure SeqPersist where
  started : Bool := false       -- _mark == 1 (a previous file ended inside a section)
  cnt : Nat := 0                -- section ids drawn so far (uuid4 freshness)
  sec : Nat := 0                -- _section_id

/-- `_run_search` starts every definition from its object state: `reset()` clears the
    mark; the id counter simply continues. -/
def DSt.initFrom (p : Nat → SeqPersist) (d : Def) : DSt :=
  { runnable := d.cons.isEmpty, started := false, cnt := (p d.id).cnt, sec := (p d.id).sec }

def runTaskFrom (p : Nat → SeqPersist) (t : TaskIn) : Except Err (List Res × Stats) := do
  let defs := dedupDefs t.defs []
  let ls0 : LSt := { sts := defs.map (DSt.initFrom p) }
  let ls ← linesLoop t.dec defs ls0 (List.range t.n)
  let finals ← eofAll t.n defs ls.sts
  let seqOut := ls.order.flatMap (fun id => (finals.lookup id).getD [])
  let all := ls.simple ++ seqOut
  pure (all, { lines := t.n, results := all.length })

/-- renaming of section ids by a per-definition shift -/
def shiftSec (p : Nat → SeqPersist) (r : Res) : Res :=
  { r with sec := r.sec.map fun (id, k) => (id, k + (p id).cnt) }

/-! ### the worker pool -/

structure PoolSt where
  pending : List Nat                    -- task ids not yet taken, submission order
  busy : List (Nat × Nat)               -- (worker, task) in progress
  finished : List (Nat × Nat)           -- (worker, task) completed
deriving Repr, DecidableEq, Inhabited

inductive PoolLbl
  | take (w : Nat)
  | finish (w : Nat)
deriving Repr, DecidableEq, Inhabited

/-- `n` workers numbered `0..n-1`; an idle worker takes the next pending task -/
def poolStep (n : Nat) (s : PoolSt) : PoolLbl → Option PoolSt
  | .take w =>
    if w < n ∧ !(s.busy.any (·.1 == w)) then
      match s.pending with
      | t :: rest => some { s with pending := rest, busy := (w, t) :: s.busy }
      | [] => none
    else none
  | .finish w =>
    match s.busy.find? (·.1 == w) with
    | some e => some { s with busy := s.busy.filter (fun x => x.1 != w), finished := e :: s.finished }
    | none => none

def poolRun (n : Nat) (s : PoolSt) : List PoolLbl → Option PoolSt
  | [] => some s
  | l :: ls => match poolStep n s l with
    | some s' => poolRun n s' ls
    | none => none

end Sk
