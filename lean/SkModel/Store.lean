/-
  SkModel.Store — implementation-layer model of `searchkit/results_store.py`
  (`ResultStoreBase`: `allocations`, `_allocate_next`, `_add_to_store`, `add`) and of
  the index encoding of results (`SearchResult._save_part/metadata`, the read side of
  `SearchResultBase`).

  A store is: `data` (index ↦ value, a Python dict in insertion order), three reverse
  maps (value ↦ index) for values / tags / sequence ids, and — when a pre-allocator is
  configured — the current block of indices.  The pre-allocator is a parameter
  `sup : Nat → Nat`: the k-th block ever requested by this store is
  `[sup k, sup k + B)`.  (For a worker of the parallel store `sup` is whatever the
  shared allocation pointer handed out; `SkModel.ParStore` proves those blocks are
  pairwise disjoint for every interleaving.)
-/
import SkModel.Basic

namespace Sk

inductive StoreErr
  | alloc                     -- ResultStoreException("failed to get store allocation")
deriving Repr, DecidableEq, Inhabited

structure Store where
  B : Nat                               -- prealloc_block_size
  pre : Bool                            -- f_preallocator is set
  data : List (Nat × Val) := []         -- self.data, insertion order
  vs : List (Val × Nat) := []           -- value_store
  ts : List (Val × Nat) := []           -- tag_store
  ss : List (Val × Nat) := []           -- sequence_id_store
  alloc : Option Nat := none            -- start of the current block (_allocations)
  nblocks : Nat := 0                    -- blocks requested so far
deriving Repr, DecidableEq, Inhabited

def Store.hasKey (st : Store) (i : Nat) : Bool := st.data.any (fun p => p.1 == i)

/-- `store.get(idx)` -/
def Store.get (st : Store) (i : Nat) : Option Val := st.data.lookup i

/-- The `allocations` property: request the first block, or a new one when the data
    size is a multiple of the block size and the last index of the current block is in
    use. Returns the updated store (the block, if any, is in `alloc`). -/
def Store.refresh (st : Store) (sup : Nat → Nat) : Store :=
  if !st.pre then st
  else match st.alloc with
    | none => { st with alloc := some (sup st.nblocks), nblocks := st.nblocks + 1 }
    | some a =>
      if !st.data.isEmpty && st.data.length % st.B == 0 && st.hasKey (a + st.B - 1) then
        { st with alloc := some (sup st.nblocks), nblocks := st.nblocks + 1 }
      else st

/-- `_allocate_next(value)`: reuse the index of an equal value anywhere in `data`,
    else the first free index of the current block, else (no pre-allocator) `len(data)`. -/
def Store.allocNext (st : Store) (sup : Nat → Nat) (v : Val) : Except StoreErr (Store × Nat) :=
  match st.data.find? (fun p => p.2 == v) with
  | some p => .ok (st, p.1)
  | none =>
    let st := st.refresh sup
    match st.alloc with
    | some a =>
      match (List.range' a st.B).find? (fun i => !st.hasKey i) with
      | some i => .ok ({ st with data := st.data ++ [(i, v)] }, i)
      | none => .error .alloc
    | none =>
      let i := st.data.length
      .ok ({ st with data := st.data ++ [(i, v)] }, i)

inductive Ns | value | tag | seq
deriving Repr, DecidableEq, Inhabited

def Store.rev (st : Store) : Ns → List (Val × Nat)
  | .value => st.vs
  | .tag => st.ts
  | .seq => st.ss

def Store.setRev (st : Store) (ns : Ns) (m : List (Val × Nat)) : Store :=
  match ns with
  | .value => { st with vs := m }
  | .tag => { st with ts := m }
  | .seq => { st with ss := m }

/-- `_add_to_store(value, store)` without an explicit index. -/
def Store.addTo (st : Store) (sup : Nat → Nat) (ns : Ns) (v : Option Val) :
    Except StoreErr (Store × Option Nat) :=
  match v with
  | none => .ok (st, none)
  | some v =>
    match (st.rev ns).lookup v with
    | some i => .ok (st, some i)
    | none => do
      let (st', i) ← st.allocNext sup v
      pure (st'.setRev ns (st'.rev ns ++ [(v, i)]), some i)

/-- `add(tag, sequence_id, value)` → (tag_idx, sequence_id_idx, value_idx);
    the value is stored first, then the tag, then the sequence id. -/
def Store.add (st : Store) (sup : Nat → Nat) (tag seq value : Option Val) :
    Except StoreErr (Store × (Option Nat × Option Nat × Option Nat)) := do
  let (st, vi) ← st.addTo sup .value value
  let (st, ti) ← st.addTo sup .tag tag
  let (st, si) ← st.addTo sup .seq seq
  pure (st, (ti, si, vi))

/-- a history of additions: every intermediate store and every returned triple -/
def Store.addAll (st : Store) (sup : Nat → Nat) :
    List (Option Val × Option Val × Option Val) →
    Except StoreErr (Store × List (Option Nat × Option Nat × Option Nat))
  | [] => .ok (st, [])
  | (t, s, v) :: ops => do
    let (st', r) ← st.add sup t s v
    let (st'', rs) ← Store.addAll st' sup ops
    pure (st'', r :: rs)

end Sk
