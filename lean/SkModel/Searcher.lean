/-
  SkModel.Searcher — what a `FileSearcher` object remembers between `add()` calls
  (search.py): the catalog entries (`SearchCatalog.register`, modelled in SkModel.Catalog)
  and `SearchConstraintsManager.global_restrictions`, the set of ids of searches that were
  added with `allow_global_constraints=False`; and `apply_global`'s decision whether the
  file-level constraint is applied to a file: it is skipped as soon as ANY search registered
  on that file is in the set (whatever path form - file, directory, glob - it was
  registered through, and whichever `add` call opted it out).

  Both pieces of state belong to ONE searcher object: a new `FileSearcher` starts with an
  empty catalog and an empty set.
-/
import SkModel.Catalog

namespace Sk

structure SearcherSt where
  entries : Entries := []
  restr : List Nat := []            -- global_restrictions (a set: no duplicates)
deriving Repr, DecidableEq, Inhabited

/-- one `FileSearcher.add(searchdef, path, allow_global_constraints)`; `expanded` is what the
    catalog makes of `path` (`expandPath`) -/
structure AddOp where
  search : Nat
  expanded : List String
  agc : Bool
deriving Repr, DecidableEq, Inhabited

def SearcherSt.add (s : SearcherSt) (op : AddOp) : SearcherSt :=
  { entries := register s.entries op.search op.expanded,
    restr := if op.agc || s.restr.contains op.search then s.restr else s.restr ++ [op.search] }

def SearcherSt.addAll (s : SearcherSt) (ops : List AddOp) : SearcherSt := ops.foldl SearcherSt.add s

/-- the searches registered for a path -/
def SearcherSt.searchesOn (s : SearcherSt) (path : String) : List Nat :=
  (s.entries.lookup path).getD []

/-- `apply_global`: is the file-level constraint (if the searcher has one) applied to `path` -/
def SearcherSt.globalApplies (s : SearcherSt) (path : String) : Bool :=
  (s.searchesOn path).all fun i => !s.restr.contains i

end Sk
