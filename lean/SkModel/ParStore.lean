/-
  SkModel.ParStore — transition system for concurrent workers of `ResultStoreParallel`
  (searchkit/results_store.py), at the granularity of individual shared-state accesses
  and lock operations.

  Shared: the allocation pointer (`alloc_pointer.value`), the module lock
  (`RESULTS_STORE_LOCK`), the shared `data` dict and the three shared reverse maps.
  Per worker: its local `ResultStoreSimple` (the `Store` model), the blocks it has been
  granted, its program (a list of micro-operations: one `_add_to_store` per component of
  each `add(tag, sequence_id, value)`, value first) and a program counter.

  `preallocate(size)`:   acquire ; current = ptr (readPtr) ; ptr += size (readPtr, writePtr) ;
                         release        — the granted block is `[current, current+size)`.
  `sync()`:              (acquire) ; data[idx] = value for every local item ;
                         per reverse map: `value in map` (read), `map[value] = idx` (write) ;
                         (release).
  The step relation requires the lock for the pointer accesses of `preallocate` only; the
  writes of `sync` are enabled with or without the lock (the theorems do not need it), so
  that implementation traces ⊆ model traces survives a refactoring of `sync`.
-/
import SkModel.Store

namespace Sk

/-- would `_add_to_store(v, <ns map>)` on this local store ask the pre-allocator for a block? -/
def Store.needsBlock (st : Store) (ns : Ns) (v : Option Val) : Bool :=
  match v with
  | none => false
  | some x =>
    if ((st.rev ns).lookup x).isSome then false
    else if (st.data.find? (fun p => p.2 == x)).isSome then false
    else (st.refresh (fun _ => 0)).nblocks != st.nblocks

inductive PPc
  | run          -- executing its program (local steps / asking for blocks)
  | locked       -- inside preallocate, lock held, nothing read yet
  | read1        -- `current = ptr.value` done
  | read2        -- the read of `ptr.value += size` done
  | wrote        -- pointer written, block granted, lock still held
  | sync         -- inside sync()
  | done
deriving Repr, DecidableEq, Inhabited

structure PW where
  ops : List (Ns × Option Val)            -- remaining micro-operations
  st : Store                              -- local store
  grants : List Nat := []                 -- starts of the blocks granted so far, in order
  pc : PPc := .run
  r1 : Nat := 0                           -- `current`
  r2 : Nat := 0                           -- value read by `+=`
  rets : List (Option Nat) := []          -- index returned by each executed micro-op
  synced : List (Nat × Val) := []         -- local items already written to the shared data
deriving Repr, Inhabited

structure PState where
  B : Nat
  ptr : Nat := 0
  lock : Option Nat := none
  sdata : List (Nat × Val) := []          -- shared data; newest write first (`lookup` = dict read)
  srev : Ns → List (Val × Nat) := fun _ => []
  ws : Nat → PW

def updW (f : Nat → PW) (w : Nat) (v : PW) : Nat → PW := fun x => if x = w then v else f x

inductive PLbl
  | local_ (w : Nat)                              -- one micro-op on the local store
  | acquire (w : Nat)
  | readPtr (w : Nat) (seen : Nat)
  | writePtr (w : Nat) (val : Nat)
  | release (w : Nat)
  | syncStart (w : Nat)                           -- enter sync() without the lock
  | syncData (w : Nat) (idx : Nat) (v : Val)      -- shared.data[idx] = v
  | syncRevRead (w : Nat) (ns : Ns) (v : Val) (seen : Bool)   -- `v in shared.<ns map>`
  | syncRevWrite (w : Nat) (ns : Ns) (v : Val) (idx : Nat)    -- shared.<ns map>[v] = idx
  | syncDone (w : Nat)
deriving Repr, Inhabited

/-- the block supplier of worker `p`: the k-th block it requested starts at `grants[k]` -/
def PW.sup (p : PW) : Nat → Nat := fun k => p.grants.getD k 0

/-- the next micro-op can run without asking for a block -/
def PW.localReady (p : PW) : Bool :=
  match p.ops with
  | [] => false
  | (ns, v) :: _ => !(p.st.needsBlock ns v) || p.st.nblocks < p.grants.length

def setRevS (f : Ns → List (Val × Nat)) (ns : Ns) (m : List (Val × Nat)) : Ns → List (Val × Nat) :=
  fun x => if x = ns then m else f x

def pstep (s : PState) : PLbl → Option PState
  | .local_ w =>
    let p := s.ws w
    if p.pc = .run ∧ p.localReady then
      match p.ops with
      | (ns, v) :: rest =>
        match p.st.addTo p.sup ns v with
        | .ok (st', i) =>
          some { s with ws := updW s.ws w { p with ops := rest, st := st', rets := p.rets ++ [i] } }
        | .error _ => none
      | [] => none
    else none
  | .acquire w =>
    let p := s.ws w
    if s.lock = none ∧ p.pc = .run then
      match p.ops with
      | [] => some { s with lock := some w, ws := updW s.ws w { p with pc := .sync } }
      | _ :: _ =>
        if !p.localReady then some { s with lock := some w, ws := updW s.ws w { p with pc := .locked } }
        else none
    else none
  | .readPtr w seen =>
    let p := s.ws w
    if s.lock = some w ∧ seen = s.ptr then
      if p.pc = .locked then some { s with ws := updW s.ws w { p with pc := .read1, r1 := s.ptr } }
      else if p.pc = .read1 then some { s with ws := updW s.ws w { p with pc := .read2, r2 := s.ptr } }
      else none
    else none
  | .writePtr w val =>
    let p := s.ws w
    if s.lock = some w ∧ p.pc = .read2 ∧ val = p.r2 + s.B then
      some { s with ptr := val,
                    ws := updW s.ws w { p with pc := .wrote, grants := p.grants ++ [p.r1] } }
    else none
  | .release w =>
    let p := s.ws w
    if s.lock = some w then
      if p.pc = .wrote then some { s with lock := none, ws := updW s.ws w { p with pc := .run } }
      else if p.pc = .sync then some { s with lock := none }
      else none
    else none
  | .syncStart w =>
    let p := s.ws w
    if p.pc = .run ∧ p.ops = [] then some { s with ws := updW s.ws w { p with pc := .sync } }
    else none
  | .syncData w idx v =>
    let p := s.ws w
    if p.pc = .sync ∧ p.st.data.contains (idx, v) then
      some { s with sdata := (idx, v) :: s.sdata,
                    ws := updW s.ws w { p with synced := (idx, v) :: p.synced } }
    else none
  | .syncRevRead w ns v seen =>
    let p := s.ws w
    if p.pc = .sync ∧ seen = ((s.srev ns).lookup v).isSome then some s else none
  | .syncRevWrite w ns v idx =>
    let p := s.ws w
    if p.pc = .sync ∧ (p.st.rev ns).contains (v, idx) then
      some { s with srev := setRevS s.srev ns ((v, idx) :: s.srev ns) }
    else none
  | .syncDone w =>
    let p := s.ws w
    if p.pc = .sync ∧ s.lock ≠ some w ∧ p.st.data.all (fun it => p.synced.contains it) then
      some { s with ws := updW s.ws w { p with pc := .done } }
    else none

def prun (s : PState) : List PLbl → Option PState
  | [] => some s
  | l :: ls => match pstep s l with
    | some s' => prun s' ls
    | none => none

/-- micro-operations of a list of `add(tag, sequence_id, value)` calls (value first) -/
def microOps : List (Option Val × Option Val × Option Val) → List (Ns × Option Val)
  | [] => []
  | (t, sq, v) :: rest => (.value, v) :: (.tag, t) :: (.seq, sq) :: microOps rest

/-- initial state: `n` workers (numbered 0..n-1) with their programs, block size `B` -/
def PState.init (B : Nat) (progs : Nat → List (Ns × Option Val)) : PState :=
  { B := B, ws := fun w => { ops := progs w, st := { B := B, pre := true } } }

end Sk
