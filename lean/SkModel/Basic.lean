/-
  SkModel.Basic — shared vocabulary of the searchkit model.

  Nothing here (or in any other model file) imports anything outside core Lean, so
  the line-protocol driver can be linked as a native executable.

  Conventions
  * A *line* is an index `i : Nat` (0-based) into the lines read from the position
    at which the search starts; what a regular expression, the UTF-8 codec or a
    timestamp matcher says about line `i` is an *oracle* `Nat → …` (universally
    quantified in theorems, a finite table computed with Python's own `re`,
    `codecs` and `datetime` in the correspondence check).
  * Values captured by a search are opaque strings (`Val`); the harness renders
    Python values canonically (`s:<text>`, `i:<int>`).
-/

namespace Sk

abbrev Val := String

/-- What `re.Match` exposes that searchkit looks at: `group(0)` and `groups()`. -/
structure Match where
  g0 : Val
  groups : List (Option Val)
deriving Repr, DecidableEq, Inhabited

/-- The exception classes that can leave `SearchTask.execute`. -/
inductive Err
  | unicodeDecode            -- UnicodeDecodeError (re-raised as is)
  | fileSearch               -- FileSearchException (anything else)
deriving Repr, DecidableEq, Inhabited

/-- Outcome of `apply_to_line` of one constraint on one line. -/
inductive COut
  | pass | fail | undec
deriving Repr, DecidableEq, Inhabited

/-- `xs.chunks k` : consecutive slices of length `k` (last one may be shorter). -/
def chunks {α} (k : Nat) (xs : List α) : List (List α) :=
  if h : k = 0 ∨ xs = [] then [] else
    xs.take k :: chunks k (xs.drop k)
termination_by xs.length
decreasing_by
  simp only [List.length_drop]
  have : xs.length ≠ 0 := by
    intro h0; exact h (Or.inr (List.length_eq_zero_iff.mp h0))
  omega

end Sk
