/-
  Specification layer for C07 — from which line on a search that carries its own since
  constraint(s) is active.
-/
import SkModel.Task
import SkModel.Spec.Sequence

namespace Sk.Spec

/-- every constraint of the search is decided on line `i` and passes -/
def allPass (cons : List (Nat → COut)) (i : Nat) : Bool :=
  cons.all fun c => c i == .pass

/-- first line (0-based) whose timestamp satisfies all constraints of the search -/
def activation (cons : List (Nat → COut)) (n : Nat) : Option Nat :=
  firstFrom (allPass cons) 0 n

/-- On every line the constraints agree on whether the line has a timestamp: all are
    undecidable or none is (one constraint; several constraints with the same matcher). -/
def homogeneousAt (cons : List (Nat → COut)) (i : Nat) : Bool :=
  cons.all (fun c => c i == .undec) || cons.all (fun c => c i != .undec)

def homogeneous (cons : List (Nat → COut)) (n : Nat) : Bool :=
  (List.range n).all (homogeneousAt cons)

end Sk.Spec
