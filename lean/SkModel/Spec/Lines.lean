/-
  Specification layer for C11 and C04 — lines of a byte string and the position a
  file-level since constraint must leave the file at, written declaratively.
-/
import SkModel.Seeker

namespace Sk.Spec

/-- greatest `i < o` with `isLF i` (scan down from `o`) -/
def lastLFBefore (F : FileV) : Nat → Option Nat
  | 0 => none
  | o + 1 => if o < F.len && F.isLF o then some o else lastLFBefore F o

/-- least `i` with `o ≤ i < len` and `isLF i`; `fuel` = number of positions to look at -/
def firstLFFrom (F : FileV) (o : Nat) : Nat → Option Nat
  | 0 => none
  | k + 1 => if o < F.len && F.isLF o then some o else firstLFFrom F (o + 1) k

/-- first byte of the line containing byte `o` (a line feed belongs to the line it ends) -/
def lineStart (F : FileV) (o : Nat) : Nat :=
  match lastLFBefore F o with
  | some i => i + 1
  | none => 0

/-- position of the line feed ending the line containing `o`, or `len` -/
def lineEnd (F : FileV) (o : Nat) : Nat :=
  (firstLFFrom F o (F.len - o)).getD F.len

/-- the starts of the lines a reader iterating from offset 0 sees -/
def lineStarts (F : FileV) : List Nat :=
  (List.range F.len).filter fun s => s = 0 || F.isLF (s - 1)

/-- first byte of the first line whose timestamp is at or after `since` -/
def firstInWindow (F : FileV) (ts : Nat → Option Int) (since : Int) : Option Nat :=
  (lineStarts F).find? fun s => match ts s with
    | some d => d ≥ since
    | none => false

def anyDated (F : FileV) (ts : Nat → Option Int) : Bool :=
  (lineStarts F).any fun s => (ts s).isSome

/-- C04: where searching must start -/
def sincePosition (F : FileV) (ts : Nat → Option Int) (since : Int) : Nat :=
  match firstInWindow F ts since with
  | some s => s
  | none => if anyDated F ts then F.len else 0

/-! Hypotheses of C04, all decidable on a concrete file. -/

/-- H1: timestamps of dated lines are non-decreasing -/
def datedMonotone (F : FileV) (ts : Nat → Option Int) : Bool :=
  let ds := (lineStarts F).filterMap ts
  (ds.zip ds.tail).all fun p => p.1 ≤ p.2

/-- length of the longest run of consecutive undated lines -/
def longestUndatedRun (F : FileV) (ts : Nat → Option Int) : Nat :=
  ((lineStarts F).foldl (fun (acc : Nat × Nat) s =>
      if (ts s).isSome then (0, acc.2) else (acc.1 + 1, max acc.2 (acc.1 + 1))) (0, 0)).2

/-- H3: longest line (bytes between consecutive line feeds / file ends) -/
def longestLine (F : FileV) : Nat :=
  ((List.range (F.len + 1)).foldl (fun (acc : Nat × Nat) i =>
      if i < F.len && F.isLF i then (0, max acc.2 acc.1)
      else if i = F.len then (0, max acc.2 acc.1) else (acc.1 + 1, acc.2)) (0, 0)).2

end Sk.Spec
