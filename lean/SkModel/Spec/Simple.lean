/-
  Specification layer for C01 — what the property prescribes for one single-line
  search, written without reference to the search loop: one entry per line the search
  matches, in ascending order, numbered from 1, carrying the groups of the first
  pattern of the list that matches (the whole match when that pattern has no groups).
-/
import SkModel.Task

namespace Sk.Spec

/-- the hint, when there is one, occurs in line `i` -/
def hintOk (d : SDef) (i : Nat) : Bool :=
  match d.hint with
  | some h => h i
  | none => true

/-- the first pattern of the list that matches line `i` -/
def firstMatch (d : SDef) (i : Nat) : Option Match :=
  (d.pats.filterMap (fun p => p i)).head?

/-- the values a result carries: the groups, or the whole match when there are none;
    nothing when contents are not stored -/
def values (d : SDef) (m : Match) : List (Option Val) :=
  if !d.store then [] else if m.groups.isEmpty then [some m.g0] else m.groups

/-- (1-based line number, values) for every matching line, ascending -/
def simple (d : SDef) (n : Nat) : List (Nat × List (Option Val)) :=
  (List.range n).filterMap fun i =>
    if hintOk d i then (firstMatch d i).map (fun m => (i + 1, values d m)) else none

end Sk.Spec
