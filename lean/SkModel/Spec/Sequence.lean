/-
  Specification layer for C03 — the complete sections of a line-by-line reading,
  written declaratively (no state machine): which lines open a section, where it is
  closed, what lies in between.
-/
import SkModel.Task

namespace Sk.Spec

/-- least `j` with `a ≤ j < n` and `p j` -/
def firstFrom (p : Nat → Bool) (a n : Nat) : Option Nat :=
  (List.range' a (n - a)).find? p

/-- the `k` with `a ≤ k < b` and `p k`, ascending -/
def between (p : Nat → Bool) (a b : Nat) : List Nat :=
  (List.range' a (b - a)).filter p

/-- A complete section, by 0-based line index: its start line, its body lines and,
    for a sequence with an end, the line that closed it (`n` = closed at end of file by
    an end pattern that matches the empty string). -/
structure Section where
  start : Nat
  bodies : List Nat
  end_ : Option Nat
deriving Repr, DecidableEq

/-- Sequence *with* an end.  Every start line opens a section.  It is closed by the
    first later line matching start or end: if that line matches start the section is
    discarded (restart), otherwise it is complete.  If no such line exists the section
    is complete only if the end pattern matches the empty string. -/
def sectionsWithEnd (st bd en : Nat → Bool) (endEmpty : Bool) (n : Nat) : List Section :=
  (List.range n).filterMap fun i =>
    if st i then
      match firstFrom (fun j => st j || en j) (i + 1) n with
      | some j => if st j then none else some ⟨i, between bd (i + 1) j, some j⟩
      | none => if endEmpty then some ⟨i, between bd (i + 1) n, some n⟩ else none
    else none

/-- Sequence *without* an end: every start line opens a section that is closed by the
    next start line or by end of file. -/
def sectionsNoEnd (st bd : Nat → Bool) (n : Nat) : List Section :=
  (List.range n).filterMap fun i =>
    if st i then
      let j := (firstFrom st (i + 1) n).getD n
      some ⟨i, between bd (i + 1) j, none⟩
    else none

/-- which lines a sub-definition matches -/
def hits (d : SDef) (i : Nat) : Bool := (d.run i).isSome

def sections (s : SeqDef) (n : Nat) : List Section :=
  let bd : Nat → Bool := match s.body with | some b => hits b | none => fun _ => false
  match s.end_ with
  | some e => sectionsWithEnd (hits s.start) bd (hits e) e.emptyRes.isSome n
  | none => sectionsNoEnd (hits s.start) bd n

/-- A reported result, stripped of its section id: role suffix, 1-based line, match. -/
structure Item where
  role : String
  ln : Nat
  m : Match
deriving Repr, DecidableEq

def itemsOf (s : SeqDef) (n : Nat) (sec : Section) : List Item :=
  let startI := match s.start.run sec.start with
    | some m => [⟨"-start", sec.start + 1, m⟩] | none => []
  let bodyI := match s.body with
    | some b => sec.bodies.filterMap fun k => (b.run k).map fun m => ⟨"-body", k + 1, m⟩
    | none => []
  let endI := match s.end_, sec.end_ with
    | some e, some j =>
      (if j < n then e.run j else e.emptyRes).toList.map fun m => ⟨"-end", j + 1, m⟩
    | _, _ => []
  startI ++ bodyI ++ endI

end Sk.Spec
