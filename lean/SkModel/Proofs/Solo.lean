/-
  SkModel.Proofs.Solo — one definition run alone over the lines.  The projection
  theorem (SkModel.Proofs.TaskProj) shows that what `runTask` reports for a definition
  is what that definition produces alone: this is the "however many other searches are
  registered" / "do not influence each other" half of C01, C03 and C07.
-/
import SkModel.Task
import SkModel.Result

namespace Sk

/-- `defStep` of a single definition folded over the lines: final state and the simple
    results it emitted. -/
def soloLoop (d : Def) : DSt → List Nat → Except Err (DSt × List Res)
  | st, [] => pure (st, [])
  | st, i :: is => do
    let (st', o) ← defStep i d st
    let (st'', os) ← soloLoop d st' is
    pure (st'', o ++ os)

/-- an id denotes one definition object -/
def DefsWF (defs : List Def) : Prop :=
  ∀ d1 ∈ defs, ∀ d2 ∈ defs, d1.id = d2.id → d1 = d2

/-- what an observer sees of a sequence result: section id, tag, line number, values -/
def Res.view (r : Res) : Option (Nat × Nat) × Option String × Nat × List (Option Val) :=
  (r.sec, r.tag, r.ln, r.iter)

end Sk
