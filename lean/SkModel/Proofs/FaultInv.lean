/-
  SkModel.Proofs.FaultInv — inductive invariant and liveness constructions for the
  fault transition system `SkModel.Fault` (crash / raise inside a multi-process run).
-/
import SkModel.Fault

namespace Sk.Flt
open Sk

/-! ### basic helpers -/

theorem updF_apply (f : Nat → FWPc) (w : Nat) (v : FWPc) (x : Nat) :
    updF f w v x = if x = w then v else f x := rfl

@[simp] theorem updF_same (f : Nat → FWPc) (w : Nat) (v : FWPc) : updF f w v w = v := by
  simp [updF]

@[simp] theorem updF_other (f : Nat → FWPc) {w x : Nat} (v : FWPc) (h : x ≠ w) :
    updF f w v x = f x := by
  simp [updF, h]

theorem allDead_iff (s : FState) : s.allDead = true ↔ ∀ w, w < s.n → s.ws w = .dead := by
  simp [FState.allDead, List.all_eq_true]

theorem allDone_iff (s : FState) : s.allDone = true ↔ ∀ w, w < s.n → s.ws w = .done := by
  simp [FState.allDone, List.all_eq_true]

theorem quiet_iff (s : FState) :
    s.quiet = true ↔ ∀ w, w < s.n → (s.ws w = .done ∨ s.ws w = .dead) := by
  simp [FState.quiet, List.all_eq_true]

theorem final_iff (s : FState) : s.final = true ↔ (s.main = .raised ∨ s.main = .returned) := by
  simp [FState.final]

theorem final_false_iff (s : FState) :
    s.final = false ↔ (s.main ≠ .raised ∧ s.main ≠ .returned) := by
  simp [FState.final]

/-- the main thread is past the point where it deals with the store lock -/
def Late (m : FMain) : Prop :=
  m = .joinResults ∨ m = .joinInfo ∨ m = .teardown ∨ m = .raised ∨ m = .returned

/-! ### the invariant -/

structure Inv (n : Nat) (s : FState) : Prop where
  hn : s.n = n
  /-- a worker that owns the lock is inside a locked region - or died there -/
  lockW : ∀ w, s.lock = some (.worker w) →
    w < n ∧ (s.ws w = .inAlloc ∨ s.ws w = .inSync ∨ s.ws w = .dead)
  /-- a live worker inside a locked region owns the lock -/
  ownW : ∀ w, (s.ws w = .inAlloc ∨ s.ws w = .inSync) → s.lock = some (.worker w)
  lockI : s.lock = some .info ↔ s.info = .holding
  lockM : s.lock = some .main ↔ s.main = .holdsLock
  /-- workers only die after a crash -/
  deadBroken : ∀ w, s.ws w = .dead → s.broken = true
  brokenMain : s.broken = true → s.main ≠ .shutdownWait ∧ s.main ≠ .returned
  swFailed : s.main = .shutdownWait → s.failed = true
  reclaimDead : (s.main = .reclaim ∨ s.main = .holdsLock) →
    s.broken = true ∧ ∀ w, w < n → s.ws w = .dead
  lateBroken : Late s.main → s.broken = true →
    (∀ w, w < n → s.ws w = .dead) ∧ ∀ w, s.lock ≠ some (.worker w)
  lateClean : Late s.main → s.broken = false → ∀ w, w < n → s.ws w = .done
  infoStopped : s.info = .stopped ↔
    (s.main = .teardown ∨ s.main = .raised ∨ s.main = .returned)
  joined : (s.main = .joinInfo ∨ s.main = .teardown ∨ s.main = .raised ∨ s.main = .returned) →
    s.resultsJoined = true
  raisedWhy : s.main = .raised → (s.failed = true ∨ s.broken = true)
  returnedWhy : s.main = .returned → s.failed = false ∧ s.broken = false

theorem inv_init (n : Nat) : Inv n (FState.init n) := by
  constructor <;> simp [FState.init, Late]

macro "inv_close" : tactic =>
  `(tactic| (constructor <;>
    (simp only [updF_apply, Late, allDead_iff, allDone_iff, quiet_iff, Bool.not_eq_true',
      Bool.not_eq_true] at *) <;> grind))

theorem inv_start {n : Nat} {s s' : FState} {w : Nat} (hi : Inv n s)
    (h : fstep s (.start w) = some s') : Inv n s' := by
  obtain ⟨hn, lockW, ownW, lockI, lockM, deadBroken, brokenMain, swFailed, reclaimDead,
    lateBroken, lateClean, infoStopped, joined, raisedWhy, returnedWhy⟩ := hi
  simp only [fstep] at h
  repeat' (split at h)
  all_goals first | (cases h; done) | (cases h; inv_close)

theorem inv_wantAlloc {n : Nat} {s s' : FState} {w : Nat} (hi : Inv n s)
    (h : fstep s (.wantAlloc w) = some s') : Inv n s' := by
  obtain ⟨hn, lockW, ownW, lockI, lockM, deadBroken, brokenMain, swFailed, reclaimDead,
    lateBroken, lateClean, infoStopped, joined, raisedWhy, returnedWhy⟩ := hi
  simp only [fstep] at h
  repeat' (split at h)
  all_goals first | (cases h; done) | (cases h; inv_close)

theorem inv_acqAlloc {n : Nat} {s s' : FState} {w : Nat} (hi : Inv n s)
    (h : fstep s (.acqAlloc w) = some s') : Inv n s' := by
  obtain ⟨hn, lockW, ownW, lockI, lockM, deadBroken, brokenMain, swFailed, reclaimDead,
    lateBroken, lateClean, infoStopped, joined, raisedWhy, returnedWhy⟩ := hi
  simp only [fstep] at h
  repeat' (split at h)
  all_goals first | (cases h; done) | (cases h; inv_close)

theorem inv_relAlloc {n : Nat} {s s' : FState} {w : Nat} (hi : Inv n s)
    (h : fstep s (.relAlloc w) = some s') : Inv n s' := by
  obtain ⟨hn, lockW, ownW, lockI, lockM, deadBroken, brokenMain, swFailed, reclaimDead,
    lateBroken, lateClean, infoStopped, joined, raisedWhy, returnedWhy⟩ := hi
  simp only [fstep] at h
  repeat' (split at h)
  all_goals first | (cases h; done) | (cases h; inv_close)

theorem inv_wantSync {n : Nat} {s s' : FState} {w : Nat} (hi : Inv n s)
    (h : fstep s (.wantSync w) = some s') : Inv n s' := by
  obtain ⟨hn, lockW, ownW, lockI, lockM, deadBroken, brokenMain, swFailed, reclaimDead,
    lateBroken, lateClean, infoStopped, joined, raisedWhy, returnedWhy⟩ := hi
  simp only [fstep] at h
  repeat' (split at h)
  all_goals first | (cases h; done) | (cases h; inv_close)

theorem inv_acqSync {n : Nat} {s s' : FState} {w : Nat} (hi : Inv n s)
    (h : fstep s (.acqSync w) = some s') : Inv n s' := by
  obtain ⟨hn, lockW, ownW, lockI, lockM, deadBroken, brokenMain, swFailed, reclaimDead,
    lateBroken, lateClean, infoStopped, joined, raisedWhy, returnedWhy⟩ := hi
  simp only [fstep] at h
  repeat' (split at h)
  all_goals first | (cases h; done) | (cases h; inv_close)

theorem inv_relSync {n : Nat} {s s' : FState} {w : Nat} (hi : Inv n s)
    (h : fstep s (.relSync w) = some s') : Inv n s' := by
  obtain ⟨hn, lockW, ownW, lockI, lockM, deadBroken, brokenMain, swFailed, reclaimDead,
    lateBroken, lateClean, infoStopped, joined, raisedWhy, returnedWhy⟩ := hi
  simp only [fstep] at h
  repeat' (split at h)
  all_goals first | (cases h; done) | (cases h; inv_close)

theorem inv_crash {n : Nat} {s s' : FState} {w : Nat} (hi : Inv n s)
    (h : fstep s (.crash w) = some s') : Inv n s' := by
  obtain ⟨hn, lockW, ownW, lockI, lockM, deadBroken, brokenMain, swFailed, reclaimDead,
    lateBroken, lateClean, infoStopped, joined, raisedWhy, returnedWhy⟩ := hi
  simp only [fstep] at h
  repeat' (split at h)
  all_goals first | (cases h; done) | (cases h; inv_close)

theorem inv_raise_ {n : Nat} {s s' : FState} {w : Nat} (hi : Inv n s)
    (h : fstep s (.raise_ w) = some s') : Inv n s' := by
  obtain ⟨hn, lockW, ownW, lockI, lockM, deadBroken, brokenMain, swFailed, reclaimDead,
    lateBroken, lateClean, infoStopped, joined, raisedWhy, returnedWhy⟩ := hi
  simp only [fstep] at h
  repeat' (split at h)
  all_goals first | (cases h; done) | (cases h; inv_close)

theorem inv_killAll {n : Nat} {s s' : FState} (hi : Inv n s)
    (h : fstep s .killAll = some s') : Inv n s' := by
  obtain ⟨hn, lockW, ownW, lockI, lockM, deadBroken, brokenMain, swFailed, reclaimDead,
    lateBroken, lateClean, infoStopped, joined, raisedWhy, returnedWhy⟩ := hi
  simp only [fstep] at h
  repeat' (split at h)
  all_goals first | (cases h; done) | (cases h; inv_close)

theorem inv_infoWant {n : Nat} {s s' : FState} (hi : Inv n s)
    (h : fstep s .infoWant = some s') : Inv n s' := by
  obtain ⟨hn, lockW, ownW, lockI, lockM, deadBroken, brokenMain, swFailed, reclaimDead,
    lateBroken, lateClean, infoStopped, joined, raisedWhy, returnedWhy⟩ := hi
  simp only [fstep] at h
  repeat' (split at h)
  all_goals first | (cases h; done) | (cases h; inv_close)

theorem inv_infoAcq {n : Nat} {s s' : FState} (hi : Inv n s)
    (h : fstep s .infoAcq = some s') : Inv n s' := by
  obtain ⟨hn, lockW, ownW, lockI, lockM, deadBroken, brokenMain, swFailed, reclaimDead,
    lateBroken, lateClean, infoStopped, joined, raisedWhy, returnedWhy⟩ := hi
  simp only [fstep] at h
  repeat' (split at h)
  all_goals first | (cases h; done) | (cases h; inv_close)

theorem inv_infoRel {n : Nat} {s s' : FState} (hi : Inv n s)
    (h : fstep s .infoRel = some s') : Inv n s' := by
  obtain ⟨hn, lockW, ownW, lockI, lockM, deadBroken, brokenMain, swFailed, reclaimDead,
    lateBroken, lateClean, infoStopped, joined, raisedWhy, returnedWhy⟩ := hi
  simp only [fstep] at h
  repeat' (split at h)
  all_goals first | (cases h; done) | (cases h; inv_close)

theorem inv_mainSeesFailure {n : Nat} {s s' : FState} (hi : Inv n s)
    (h : fstep s .mainSeesFailure = some s') : Inv n s' := by
  obtain ⟨hn, lockW, ownW, lockI, lockM, deadBroken, brokenMain, swFailed, reclaimDead,
    lateBroken, lateClean, infoStopped, joined, raisedWhy, returnedWhy⟩ := hi
  simp only [fstep] at h
  repeat' (split at h)
  all_goals first | (cases h; done) | (cases h; inv_close)

theorem inv_mainSeesBroken {n : Nat} {s s' : FState} (hi : Inv n s)
    (h : fstep s .mainSeesBroken = some s') : Inv n s' := by
  obtain ⟨hn, lockW, ownW, lockI, lockM, deadBroken, brokenMain, swFailed, reclaimDead,
    lateBroken, lateClean, infoStopped, joined, raisedWhy, returnedWhy⟩ := hi
  simp only [fstep] at h
  repeat' (split at h)
  all_goals first | (cases h; done) | (cases h; inv_close)

theorem inv_mainAllDone {n : Nat} {s s' : FState} (hi : Inv n s)
    (h : fstep s .mainAllDone = some s') : Inv n s' := by
  obtain ⟨hn, lockW, ownW, lockI, lockM, deadBroken, brokenMain, swFailed, reclaimDead,
    lateBroken, lateClean, infoStopped, joined, raisedWhy, returnedWhy⟩ := hi
  simp only [fstep] at h
  repeat' (split at h)
  all_goals first | (cases h; done) | (cases h; inv_close)

theorem inv_mainAcquire {n : Nat} {s s' : FState} (hi : Inv n s)
    (h : fstep s .mainAcquire = some s') : Inv n s' := by
  obtain ⟨hn, lockW, ownW, lockI, lockM, deadBroken, brokenMain, swFailed, reclaimDead,
    lateBroken, lateClean, infoStopped, joined, raisedWhy, returnedWhy⟩ := hi
  simp only [fstep] at h
  repeat' (split at h)
  all_goals first | (cases h; done) | (cases h; inv_close)

theorem inv_mainReclaim {n : Nat} {s s' : FState} (hi : Inv n s)
    (h : fstep s .mainReclaim = some s') : Inv n s' := by
  obtain ⟨hn, lockW, ownW, lockI, lockM, deadBroken, brokenMain, swFailed, reclaimDead,
    lateBroken, lateClean, infoStopped, joined, raisedWhy, returnedWhy⟩ := hi
  simp only [fstep] at h
  repeat' (split at h)
  all_goals first | (cases h; done) | (cases h; inv_close)

theorem inv_mainRelease {n : Nat} {s s' : FState} (hi : Inv n s)
    (h : fstep s .mainRelease = some s') : Inv n s' := by
  obtain ⟨hn, lockW, ownW, lockI, lockM, deadBroken, brokenMain, swFailed, reclaimDead,
    lateBroken, lateClean, infoStopped, joined, raisedWhy, returnedWhy⟩ := hi
  simp only [fstep] at h
  repeat' (split at h)
  all_goals first | (cases h; done) | (cases h; inv_close)

theorem inv_joinResults {n : Nat} {s s' : FState} (hi : Inv n s)
    (h : fstep s .joinResults = some s') : Inv n s' := by
  obtain ⟨hn, lockW, ownW, lockI, lockM, deadBroken, brokenMain, swFailed, reclaimDead,
    lateBroken, lateClean, infoStopped, joined, raisedWhy, returnedWhy⟩ := hi
  simp only [fstep] at h
  repeat' (split at h)
  all_goals first | (cases h; done) | (cases h; inv_close)

theorem inv_joinInfo {n : Nat} {s s' : FState} (hi : Inv n s)
    (h : fstep s .joinInfo = some s') : Inv n s' := by
  obtain ⟨hn, lockW, ownW, lockI, lockM, deadBroken, brokenMain, swFailed, reclaimDead,
    lateBroken, lateClean, infoStopped, joined, raisedWhy, returnedWhy⟩ := hi
  simp only [fstep] at h
  repeat' (split at h)
  all_goals first | (cases h; done) | (cases h; inv_close)

theorem inv_teardown {n : Nat} {s s' : FState} (hi : Inv n s)
    (h : fstep s .teardown = some s') : Inv n s' := by
  obtain ⟨hn, lockW, ownW, lockI, lockM, deadBroken, brokenMain, swFailed, reclaimDead,
    lateBroken, lateClean, infoStopped, joined, raisedWhy, returnedWhy⟩ := hi
  simp only [fstep] at h
  repeat' (split at h)
  all_goals first | (cases h; done) | (cases h; inv_close)

theorem inv_step {n : Nat} {s s' : FState} {l : FLbl} (hi : Inv n s)
    (h : fstep s l = some s') : Inv n s' := by
  cases l with
  | start w => exact inv_start hi h
  | wantAlloc w => exact inv_wantAlloc hi h
  | acqAlloc w => exact inv_acqAlloc hi h
  | relAlloc w => exact inv_relAlloc hi h
  | wantSync w => exact inv_wantSync hi h
  | acqSync w => exact inv_acqSync hi h
  | relSync w => exact inv_relSync hi h
  | crash w => exact inv_crash hi h
  | raise_ w => exact inv_raise_ hi h
  | killAll => exact inv_killAll hi h
  | infoWant => exact inv_infoWant hi h
  | infoAcq => exact inv_infoAcq hi h
  | infoRel => exact inv_infoRel hi h
  | mainSeesFailure => exact inv_mainSeesFailure hi h
  | mainSeesBroken => exact inv_mainSeesBroken hi h
  | mainAllDone => exact inv_mainAllDone hi h
  | mainAcquire => exact inv_mainAcquire hi h
  | mainReclaim => exact inv_mainReclaim hi h
  | mainRelease => exact inv_mainRelease hi h
  | joinResults => exact inv_joinResults hi h
  | joinInfo => exact inv_joinInfo hi h
  | teardown => exact inv_teardown hi h

theorem inv_run {n : Nat} {ls : List FLbl} : ∀ {s s' : FState}, Inv n s → frun s ls = some s' → Inv n s' := by
  induction ls with
  | nil => intro s s' hi h; simp only [frun, Option.some.injEq] at h; exact h ▸ hi
  | cons l ls ih =>
    intro s s' hi h
    simp only [frun] at h
    split at h
    · next t ht => exact ih (inv_step hi ht) h
    · cases h

theorem inv_reach {n : Nat} {s : FState} (h : ∃ ls, frun (FState.init n) ls = some s) : Inv n s := by
  obtain ⟨ls, h⟩ := h
  exact inv_run (inv_init n) h

/-! ### schedules -/

theorem frun_cons {s t : FState} {l : FLbl} (ls : List FLbl) (h : fstep s l = some t) :
    frun s (l :: ls) = frun t ls := by
  simp [frun, h]

theorem frun_append {a : List FLbl} : ∀ {s t : FState} (b : List FLbl), frun s a = some t →
    frun s (a ++ b) = frun t b := by
  induction a with
  | nil => intro s t b h; simp only [frun, Option.some.injEq] at h; simp [h]
  | cons l a ih =>
    intro s t b h
    simp only [frun] at h
    split at h
    · next u hu => rw [List.cons_append, frun_cons _ hu]; exact ih b h
    · cases h

/-- fault labels -/
def isFault : FLbl → Bool
  | .crash _ => true
  | .raise_ _ => true
  | _ => false

/-- a schedule without `crash` / `raise_` -/
def Clean (ls : List FLbl) : Prop := ∀ l, l ∈ ls → isFault l = false

/-- `s'` is reachable from `s` by a fault-free schedule -/
def Drv (s s' : FState) : Prop := ∃ ls, Clean ls ∧ frun s ls = some s'

theorem Drv.refl (s : FState) : Drv s s := ⟨[], by simp [Clean], rfl⟩

theorem Drv.trans {a b c : FState} (h1 : Drv a b) (h2 : Drv b c) : Drv a c := by
  obtain ⟨l1, c1, r1⟩ := h1
  obtain ⟨l2, c2, r2⟩ := h2
  refine ⟨l1 ++ l2, ?_, ?_⟩
  · intro l hl
    rcases List.mem_append.mp hl with h | h
    · exact c1 l h
    · exact c2 l h
  · rw [frun_append _ r1]; exact r2

theorem Drv.step {s t : FState} {l : FLbl} (h : fstep s l = some t) (hl : isFault l = false) :
    Drv s t :=
  ⟨[l], by simpa [Clean] using hl, by simp [frun, h]⟩

theorem Drv.inv {n : Nat} {s t : FState} (hi : Inv n s) (h : Drv s t) : Inv n t := by
  obtain ⟨ls, _, r⟩ := h
  exact inv_run hi r

/-- a final state is reachable from `s` by a fault-free schedule -/
def CanFinish (s : FState) : Prop := ∃ s', Drv s s' ∧ s'.final = true

theorem CanFinish.of_step {s t : FState} {l : FLbl} (h : fstep s l = some t)
    (hl : isFault l = false) (hf : CanFinish t) : CanFinish s := by
  obtain ⟨s', d, f⟩ := hf
  exact ⟨s', (Drv.step h hl).trans d, f⟩

theorem CanFinish.of_drv {s t : FState} (h : Drv s t) (hf : CanFinish t) : CanFinish s := by
  obtain ⟨s', d, f⟩ := hf
  exact ⟨s', h.trans d, f⟩

/-! ### the end game: `teardown`, `joinInfo`, `joinResults`, `holdsLock`, `reclaim` -/

theorem fin_teardown {n : Nat} {s : FState} (_hi : Inv n s) (hm : s.main = .teardown) :
    CanFinish s := by
  refine ⟨{ s with main := if s.failed ∨ s.broken then .raised else .returned }, ?_, ?_⟩
  · exact Drv.step (l := .teardown) (by simp [fstep, hm]) rfl
  · simp only [FState.final]; split <;> simp

theorem late_lock {n : Nat} {s : FState} (hi : Inv n s) (hl : Late s.main) :
    s.lock = none ∨ s.lock = some .info := by
  cases hk : s.lock with
  | none => exact Or.inl rfl
  | some o =>
    cases o with
    | info => exact Or.inr rfl
    | main =>
      have := hi.lockM.mp hk
      simp [Late, this] at hl
    | worker w =>
      exfalso
      have hw := hi.lockW w hk
      cases hb : s.broken with
      | true => exact (hi.lateBroken hl hb).2 w hk
      | false =>
        have hd := hi.lateClean hl hb w hw.1
        have hdb := hi.deadBroken w
        simp [hd] at hw

theorem fin_joinInfo_idle {n : Nat} {s : FState} (hi : Inv n s) (hm : s.main = .joinInfo)
    (hinfo : s.info = .idle) : CanFinish s := by
  have h : fstep s .joinInfo = some { s with main := .teardown, info := .stopped } := by
    simp [fstep, hm, hinfo]
  exact CanFinish.of_step h rfl (fin_teardown (inv_step hi h) rfl)

theorem fin_joinInfo_holding {n : Nat} {s : FState} (hi : Inv n s) (hm : s.main = .joinInfo)
    (hinfo : s.info = .holding) : CanFinish s := by
  have h : fstep s .infoRel = some { s with info := .idle, lock := none } := by
    simp [fstep, hinfo]
  exact CanFinish.of_step h rfl (fin_joinInfo_idle (inv_step hi h) hm rfl)

theorem fin_joinInfo {n : Nat} {s : FState} (hi : Inv n s) (hm : s.main = .joinInfo) :
    CanFinish s := by
  cases hinfo : s.info with
  | idle => exact fin_joinInfo_idle hi hm hinfo
  | holding => exact fin_joinInfo_holding hi hm hinfo
  | waiting =>
    have hl : s.lock = none := by
      rcases late_lock hi (by simp [Late, hm]) with h | h
      · exact h
      · have := hi.lockI.mp h; simp [hinfo] at this
    have h : fstep s .infoAcq = some { s with info := .holding, lock := some .info } := by
      simp [fstep, hinfo, hl]
    exact CanFinish.of_step h rfl (fin_joinInfo_holding (inv_step hi h) hm rfl)
  | stopped =>
    have := hi.infoStopped.mp hinfo
    simp [hm] at this

theorem fin_joinResults {n : Nat} {s : FState} (hi : Inv n s) (hm : s.main = .joinResults) :
    CanFinish s := by
  have h : fstep s .joinResults = some { s with main := .joinInfo, resultsJoined := true } := by
    simp [fstep, hm]
  exact CanFinish.of_step h rfl (fin_joinInfo (inv_step hi h) rfl)

theorem fin_holdsLock {n : Nat} {s : FState} (hi : Inv n s) (hm : s.main = .holdsLock) :
    CanFinish s := by
  have h : fstep s .mainRelease = some { s with main := .joinResults, lock := none } := by
    simp [fstep, hm]
  exact CanFinish.of_step h rfl (fin_joinResults (inv_step hi h) rfl)

theorem fin_reclaim_free {n : Nat} {s : FState} (hi : Inv n s) (hm : s.main = .reclaim)
    (hl : s.lock = none) : CanFinish s := by
  have h : fstep s .mainAcquire = some { s with main := .holdsLock, lock := some .main } := by
    simp [fstep, hm, hl]
  exact CanFinish.of_step h rfl (fin_holdsLock (inv_step hi h) rfl)

/-- the heart of the repair: with the lock orphaned by a dead worker the main thread
    reclaims it and finishes -/
theorem fin_reclaim {n : Nat} {s : FState} (hi : Inv n s) (hm : s.main = .reclaim) :
    CanFinish s := by
  cases hl : s.lock with
  | none => exact fin_reclaim_free hi hm hl
  | some o =>
    cases o with
    | worker w =>
      have hw := (hi.lockW w hl).1
      have hd : s.ws w = .dead := (hi.reclaimDead (Or.inl hm)).2 w hw
      have h : fstep s .mainReclaim = some { s with main := .joinResults, lock := none } := by
        simp [fstep, hm, hl, hd]
      exact CanFinish.of_step h rfl (fin_joinResults (inv_step hi h) rfl)
    | info =>
      have hinfo := hi.lockI.mp hl
      have h : fstep s .infoRel = some { s with info := .idle, lock := none } := by
        simp [fstep, hinfo]
      exact CanFinish.of_step h rfl (fin_reclaim_free (inv_step hi h) hm rfl)
    | main =>
      have := hi.lockM.mp hl
      simp [hm] at this

theorem fin_broken_waiting {n : Nat} {s : FState} (hi : Inv n s) (hm : s.main = .waiting)
    (hb : s.broken = true) : CanFinish s := by
  have h1 : fstep s .killAll = some { s with ws := fun w => if w < s.n then .dead else s.ws w } := by
    simp [fstep, hb]
  have hi1 := inv_step hi h1
  refine CanFinish.of_step h1 rfl ?_
  have h2 : fstep { s with ws := fun w => if w < s.n then .dead else s.ws w } .mainSeesBroken
      = some { s with ws := fun w => if w < s.n then .dead else s.ws w, main := .reclaim } := by
    simp +contextual [fstep, hm, hb, allDead_iff]
  exact CanFinish.of_step h2 rfl (fin_reclaim (inv_step hi1 h2) rfl)

theorem fin_final {s : FState} (h : s.final = true) : CanFinish s := ⟨s, Drv.refl s, h⟩

theorem fin_broken {n : Nat} {s : FState} (hi : Inv n s) (hb : s.broken = true) :
    CanFinish s := by
  cases hm : s.main with
  | waiting => exact fin_broken_waiting hi hm hb
  | shutdownWait => exact absurd hm (hi.brokenMain hb).1
  | reclaim => exact fin_reclaim hi hm
  | holdsLock => exact fin_holdsLock hi hm
  | joinResults => exact fin_joinResults hi hm
  | joinInfo => exact fin_joinInfo hi hm
  | teardown => exact fin_teardown hi hm
  | raised => exact fin_final (by simp [FState.final, hm])
  | returned => exact fin_final (by simp [FState.final, hm])

/-! ### no crash so far: every worker can be driven to `done` -/

/-- what a fault-free worker / info-thread move leaves unchanged -/
structure Frame (s s' : FState) : Prop where
  n : s'.n = s.n
  main : s'.main = s.main
  failed : s'.failed = s.failed
  broken : s'.broken = s.broken
  done : ∀ v, s.ws v = .done → s'.ws v = .done

theorem Frame.refl (s : FState) : Frame s s := ⟨rfl, rfl, rfl, rfl, fun _ h => h⟩

theorem Frame.trans {a b c : FState} (h1 : Frame a b) (h2 : Frame b c) : Frame a c :=
  ⟨h2.n.trans h1.n, h2.main.trans h1.main, h2.failed.trans h1.failed, h2.broken.trans h1.broken,
    fun v h => h2.done v (h1.done v h)⟩

/-- fault-free move that keeps main phase, flags and finished workers -/
def Mv (s s' : FState) : Prop := Drv s s' ∧ Frame s s'

theorem Mv.refl (s : FState) : Mv s s := ⟨Drv.refl s, Frame.refl s⟩
theorem Mv.trans {a b c : FState} (h1 : Mv a b) (h2 : Mv b c) : Mv a c :=
  ⟨h1.1.trans h2.1, h1.2.trans h2.2⟩

/-- no crash has happened and the main thread is still waiting for the workers -/
structure Good (n : Nat) (s : FState) : Prop where
  inv : Inv n s
  nb : s.broken = false
  wait : s.main = .waiting ∨ s.main = .shutdownWait

theorem Good.mv {n : Nat} {s s' : FState} (hg : Good n s) (h : Mv s s') : Good n s' :=
  ⟨h.1.inv hg.inv, by rw [h.2.broken]; exact hg.nb, by rw [h.2.main]; exact hg.wait⟩

theorem Good.alive {n : Nat} {s : FState} (hg : Good n s) (w : Nat) : s.ws w ≠ .dead := by
  intro h
  have := hg.inv.deadBroken w h
  simp [hg.nb] at this

/-- the lock can always be freed: its holder is a live worker or the info thread -/
theorem free_lock {n : Nat} {s : FState} (hg : Good n s) :
    ∃ s', Mv s s' ∧ s'.lock = none ∧
      (∀ v, s.ws v = .wantAlloc → s'.ws v = .wantAlloc) ∧
      (∀ v, s.ws v = .wantSync → s'.ws v = .wantSync) := by
  cases hl : s.lock with
  | none => exact ⟨s, Mv.refl s, hl, fun _ h => h, fun _ h => h⟩
  | some o =>
    cases o with
    | main =>
      have := hg.inv.lockM.mp hl
      rcases hg.wait with h | h <;> simp [h] at this
    | info =>
      have hinfo := hg.inv.lockI.mp hl
      have h : fstep s .infoRel = some { s with info := .idle, lock := none } := by
        simp [fstep, hinfo]
      exact ⟨_, ⟨Drv.step h rfl, ⟨rfl, rfl, rfl, rfl, fun _ h => h⟩⟩, rfl, fun _ h => h, fun _ h => h⟩
    | worker w =>
      have hw := hg.inv.lockW w hl
      have hwn : w < s.n := by rw [hg.inv.hn]; exact hw.1
      rcases hw.2 with hs | hs | hs
      · have h : fstep s (.relAlloc w) = some { s with ws := updF s.ws w .running, lock := none } := by
          simp [fstep, hwn, hs]
        refine ⟨_, ⟨Drv.step h rfl, ⟨rfl, rfl, rfl, rfl, ?_⟩⟩, rfl, ?_, ?_⟩ <;>
          (intro v hv; simp only [updF_apply]; split <;> simp_all)
      · have h : fstep s (.relSync w) = some { s with ws := updF s.ws w .done, lock := none } := by
          simp [fstep, hwn, hs]
        refine ⟨_, ⟨Drv.step h rfl, ⟨rfl, rfl, rfl, rfl, ?_⟩⟩, rfl, ?_, ?_⟩ <;>
          (intro v hv; simp only [updF_apply]; split <;> simp_all)
      · exact absurd hs (hg.alive w)

/-- one worker move `ws w := x` (lock unchanged) as an `Mv` -/
theorem mv_ws {s : FState} {l : FLbl} {w : Nat} {x : FWPc} {lk : Option FOwner}
    (h : fstep s l = some { s with ws := updF s.ws w x, lock := lk }) (hl : isFault l = false)
    (hnd : s.ws w ≠ .done) : Mv s { s with ws := updF s.ws w x, lock := lk } := by
  refine ⟨Drv.step h hl, ⟨rfl, rfl, rfl, rfl, ?_⟩⟩
  intro v hv
  simp only [updF_apply]
  split
  · next e => subst e; exact absurd hv hnd
  · exact hv

def Done (w : Nat) (s : FState) : Prop := ∃ s', Mv s s' ∧ s'.ws w = .done

theorem Done.of_mv {w : Nat} {s t : FState} (h : Mv s t) (hd : Done w t) : Done w s := by
  obtain ⟨s', m, d⟩ := hd
  exact ⟨s', h.trans m, d⟩

theorem drive_inSync {n : Nat} {s : FState} {w : Nat} (_hg : Good n s) (hw : w < s.n)
    (hs : s.ws w = .inSync) : Done w s := by
  have h : fstep s (.relSync w) = some { s with ws := updF s.ws w .done, lock := none } := by
    simp [fstep, hw, hs]
  exact ⟨_, mv_ws h rfl (by simp [hs]), by simp⟩

theorem drive_wantSync {n : Nat} {s : FState} {w : Nat} (hg : Good n s) (hw : w < s.n)
    (hs : s.ws w = .wantSync) : Done w s := by
  obtain ⟨s1, m1, hl, _, hk⟩ := free_lock hg
  have hs1 := hk w hs
  have hw1 : w < s1.n := by rw [m1.2.n]; exact hw
  have h : fstep s1 (.acqSync w) =
      some { s1 with ws := updF s1.ws w .inSync, lock := some (.worker w) } := by
    simp [fstep, hw1, hs1, hl]
  have m2 := mv_ws h rfl (by simp [hs1])
  exact Done.of_mv (m1.trans m2) (drive_inSync ((hg.mv m1).mv m2) hw1 (by simp))

theorem drive_running {n : Nat} {s : FState} {w : Nat} (hg : Good n s) (hw : w < s.n)
    (hs : s.ws w = .running) : Done w s := by
  have h : fstep s (.wantSync w) = some { s with ws := updF s.ws w .wantSync, lock := s.lock } := by
    simp [fstep, hw, hs]
  have m := mv_ws h rfl (by simp [hs])
  exact Done.of_mv m (drive_wantSync (hg.mv m) hw (by simp))

theorem drive_inAlloc {n : Nat} {s : FState} {w : Nat} (hg : Good n s) (hw : w < s.n)
    (hs : s.ws w = .inAlloc) : Done w s := by
  have h : fstep s (.relAlloc w) = some { s with ws := updF s.ws w .running, lock := none } := by
    simp [fstep, hw, hs]
  have m := mv_ws h rfl (by simp [hs])
  exact Done.of_mv m (drive_running (hg.mv m) hw (by simp))

theorem drive_wantAlloc {n : Nat} {s : FState} {w : Nat} (hg : Good n s) (hw : w < s.n)
    (hs : s.ws w = .wantAlloc) : Done w s := by
  obtain ⟨s1, m1, hl, hk, _⟩ := free_lock hg
  have hs1 := hk w hs
  have hw1 : w < s1.n := by rw [m1.2.n]; exact hw
  have h : fstep s1 (.acqAlloc w) =
      some { s1 with ws := updF s1.ws w .inAlloc, lock := some (.worker w) } := by
    simp [fstep, hw1, hs1, hl]
  have m2 := mv_ws h rfl (by simp [hs1])
  exact Done.of_mv (m1.trans m2) (drive_inAlloc ((hg.mv m1).mv m2) hw1 (by simp))

theorem drive_idle {n : Nat} {s : FState} {w : Nat} (hg : Good n s) (hw : w < s.n)
    (hs : s.ws w = .idle) : Done w s := by
  have h : fstep s (.start w) = some { s with ws := updF s.ws w .running, lock := s.lock } := by
    simp [fstep, hw, hs]
  have m := mv_ws h rfl (by simp [hs])
  exact Done.of_mv m (drive_running (hg.mv m) hw (by simp))

/-- a live worker can be driven to `done` as long as no crash has happened -/
theorem drive_worker {n : Nat} {s : FState} {w : Nat} (hg : Good n s) (hw : w < s.n) :
    Done w s := by
  cases hs : s.ws w with
  | idle => exact drive_idle hg hw hs
  | running => exact drive_running hg hw hs
  | wantAlloc => exact drive_wantAlloc hg hw hs
  | inAlloc => exact drive_inAlloc hg hw hs
  | wantSync => exact drive_wantSync hg hw hs
  | inSync => exact drive_inSync hg hw hs
  | done => exact ⟨s, Mv.refl s, hs⟩
  | dead => exact absurd hs (hg.alive w)

theorem drive_all {n : Nat} : ∀ (k : Nat) {s : FState}, Good n s → k ≤ s.n →
    ∃ s', Mv s s' ∧ ∀ v, v < k → s'.ws v = .done := by
  intro k
  induction k with
  | zero => intro s _ _; exact ⟨s, Mv.refl s, fun v hv => absurd hv (Nat.not_lt_zero v)⟩
  | succ k ih =>
    intro s hg hk
    obtain ⟨s1, m1, d1⟩ := ih hg (Nat.le_of_succ_le hk)
    have hk1 : k < s1.n := by rw [m1.2.n]; exact hk
    obtain ⟨s2, m2, d2⟩ := drive_worker (hg.mv m1) hk1
    refine ⟨s2, m1.trans m2, ?_⟩
    intro v hv
    rcases Nat.lt_succ_iff_lt_or_eq.mp hv with h | h
    · exact m2.2.done v (d1 v h)
    · rw [h]; exact d2

theorem fin_allDone {n : Nat} {s : FState} (hg : Good n s) (hd : ∀ v, v < s.n → s.ws v = .done) :
    CanFinish s := by
  have hb := hg.nb
  have had : s.allDone = true := (allDone_iff s).mpr hd
  have hq : s.quiet = true := (quiet_iff s).mpr fun v hv => Or.inl (hd v hv)
  have sw : ∀ t : FState, Inv n t → t.main = .shutdownWait → t.broken = false →
      t.quiet = true → CanFinish t := by
    intro t hit hm hb hq
    have h : fstep t .mainAllDone = some { t with main := .joinResults } := by
      simp [fstep, hm, hb, hq]
    exact CanFinish.of_step h rfl (fin_joinResults (inv_step hit h) rfl)
  rcases hg.wait with hm | hm
  · cases hf : s.failed with
    | false =>
      have h : fstep s .mainAllDone = some { s with main := .joinResults } := by
        simp [fstep, hm, hb, hf, had]
      exact CanFinish.of_step h rfl (fin_joinResults (inv_step hg.inv h) rfl)
    | true =>
      have h : fstep s .mainSeesFailure = some { s with main := .shutdownWait } := by
        simp [fstep, hm, hb, hf]
      exact CanFinish.of_step h rfl (sw _ (inv_step hg.inv h) rfl hb hq)
  · exact sw s hg.inv hm hb hq

theorem fin_good {n : Nat} {s : FState} (hg : Good n s) : CanFinish s := by
  obtain ⟨s1, m1, d1⟩ := drive_all s.n hg (Nat.le_refl _)
  refine CanFinish.of_drv m1.1 (fin_allDone (hg.mv m1) ?_)
  intro v hv
  rw [m1.2.n] at hv
  exact d1 v hv

/-- **main-thread progress**: from every state satisfying the invariant a final state is
    reachable, by a schedule that contains no further fault -/
theorem fin_all {n : Nat} {s : FState} (hi : Inv n s) : CanFinish s := by
  cases hb : s.broken with
  | true => exact fin_broken hi hb
  | false =>
    cases hm : s.main with
    | waiting => exact fin_good ⟨hi, hb, Or.inl hm⟩
    | shutdownWait => exact fin_good ⟨hi, hb, Or.inr hm⟩
    | reclaim => have := (hi.reclaimDead (Or.inl hm)).1; simp [hb] at this
    | holdsLock => have := (hi.reclaimDead (Or.inr hm)).1; simp [hb] at this
    | joinResults => exact fin_joinResults hi hm
    | joinInfo => exact fin_joinInfo hi hm
    | teardown => exact fin_teardown hi hm
    | raised => exact fin_final (by simp [FState.final, hm])
    | returned => exact fin_final (by simp [FState.final, hm])

/-! ### one-step version, fault-free runs -/

theorem first_step {s s' : FState} {ls : List FLbl} (h : frun s ls = some s')
    (hf : s.final = false) (hf' : s'.final = true) : ∃ l t, l ∈ ls ∧ fstep s l = some t := by
  cases ls with
  | nil =>
    simp only [frun, Option.some.injEq] at h
    rw [h, hf'] at hf; cases hf
  | cons l ls =>
    simp only [frun] at h
    split at h
    · next t ht => exact ⟨l, t, by simp, ht⟩
    · cases h

theorem clean_step_flags {s s' : FState} {l : FLbl} (h : fstep s l = some s')
    (hl : isFault l = false) : s'.failed = s.failed ∧ s'.broken = s.broken := by
  cases l <;> simp only [isFault] at hl <;> try cases hl
  all_goals
    simp only [fstep] at h
    repeat' (split at h)
  all_goals first | (cases h; done) | (cases h; exact ⟨rfl, rfl⟩)

theorem clean_run_flags {ls : List FLbl} : ∀ {s s' : FState}, Clean ls → frun s ls = some s' →
    s'.failed = s.failed ∧ s'.broken = s.broken := by
  induction ls with
  | nil => intro s s' _ h; simp only [frun, Option.some.injEq] at h; subst h; exact ⟨rfl, rfl⟩
  | cons l ls ih =>
    intro s s' hc h
    simp only [frun] at h
    split at h
    · next t ht =>
      have h1 := clean_step_flags ht (hc l (by simp))
      have h2 := ih (fun x hx => hc x (by simp [hx])) h
      exact ⟨h2.1.trans h1.1, h2.2.trans h1.2⟩
    · cases h

theorem drv_flags {s s' : FState} (h : Drv s s') :
    s'.failed = s.failed ∧ s'.broken = s.broken := by
  obtain ⟨ls, c, r⟩ := h
  exact clean_run_flags c r

/-- a final state without failure and crash is `returned` -/
theorem final_clean_returned {n : Nat} {s : FState} (hi : Inv n s) (hf : s.final = true)
    (h1 : s.failed = false) (h2 : s.broken = false) : s.main = .returned := by
  rcases (final_iff s).mp hf with h | h
  · rcases hi.raisedWhy h with h' | h' <;> simp_all
  · exact h

/-! ### the system without the reclaim step -/

/-- `fstep` with `mainReclaim` removed (the code before the repair) -/
def fstepNR (s : FState) (l : FLbl) : Option FState :=
  if l = .mainReclaim then none else fstep s l

def frunNR (s : FState) : List FLbl → Option FState
  | [] => some s
  | l :: ls => match fstepNR s l with
    | some s' => frunNR s' ls
    | none => none

/-- main is about to take the lock, which is owned by a dead worker; everybody is dead -/
structure Orphan (s : FState) : Prop where
  main : s.main = .reclaim
  owner : ∃ w, s.lock = some (.worker w) ∧ s.ws w = .dead
  dead : ∀ v, v < s.n → s.ws v = .dead
  info : s.info ≠ .holding

theorem orphan_step {s s' : FState} {l : FLbl} (ho : Orphan s) (h : fstepNR s l = some s') :
    Orphan s' := by
  obtain ⟨hm, ⟨w, hl, hd⟩, hdead, hinfo⟩ := ho
  simp only [fstepNR] at h
  split at h
  · cases h
  · cases l <;> simp only [fstep] at h
    all_goals (repeat' (split at h))
    all_goals first
      | (cases h; done)
      | (cases h
         first
          | (exfalso; simp_all; done)
          | (exfalso; grind)
          | (refine ⟨by simp_all, ⟨w, by simp_all, by simp_all⟩, by simp_all, by simp_all⟩))

theorem orphan_run {ls : List FLbl} : ∀ {s s' : FState}, Orphan s → frunNR s ls = some s' →
    Orphan s' := by
  induction ls with
  | nil => intro s s' ho h; simp only [frunNR, Option.some.injEq] at h; exact h ▸ ho
  | cons l ls ih =>
    intro s s' ho h
    simp only [frunNR] at h
    split at h
    · next t ht => exact ih (orphan_step ho ht) h
    · cases h

theorem orphan_of_inv {n : Nat} {s : FState} {w : Nat} (hi : Inv n s) (hm : s.main = .reclaim)
    (hl : s.lock = some (.worker w)) : Orphan s := by
  have hd := (hi.reclaimDead (Or.inl hm)).2
  refine ⟨hm, ⟨w, hl, hd w (hi.lockW w hl).1⟩, fun v hv => hd v (hi.hn ▸ hv), ?_⟩
  intro h
  have := hi.lockI.mpr h
  rw [hl] at this; cases this

theorem orphan_blocked {s : FState} (ho : Orphan s) :
    s.final = false ∧ fstepNR s .mainAcquire = none := by
  obtain ⟨hm, ⟨w, hl, hd⟩, _, _⟩ := ho
  constructor
  · simp [FState.final, hm]
  · simp [fstepNR, fstep, hl]

/-- with the lock orphaned and no reclaim step, only no-progress steps are enabled -/
theorem orphan_enabled {s s' : FState} {l : FLbl} (ho : Orphan s) (h : fstepNR s l = some s') :
    l = .infoWant ∨ l = .killAll := by
  obtain ⟨hm, ⟨w, hl, hd⟩, hdead, hinfo⟩ := ho
  simp only [fstepNR] at h
  split at h
  · cases h
  · cases l <;> simp only [fstep] at h
    all_goals (repeat' (split at h))
    all_goals first
      | (cases h; done)
      | (simp; done)
      | (exfalso; simp_all; done)
      | (exfalso; grind)

/-! ### first-order view of a state, for `decide` -/

/-- worker states, lock, info thread, main thread, broken, failed, resultsJoined -/
structure View where
  ws : List FWPc
  lock : Option FOwner
  info : FInfo
  main : FMain
  broken : Bool
  failed : Bool
  resultsJoined : Bool
deriving DecidableEq, Repr

def view (s : FState) : View :=
  ⟨(List.range s.n).map s.ws, s.lock, s.info, s.main, s.broken, s.failed, s.resultsJoined⟩

def runView (n : Nat) (ls : List FLbl) : Option View := (frun (FState.init n) ls).map view

end Sk.Flt
