/-
  SkModel.Proofs.ParInv — inversion of the step function of `SkModel.ParStore`, lemmas on the
  local store used by the concurrent proofs, and the lock / pointer / disjointness invariant.
-/
import SkModel.ParStore
import SkModel.Proofs.StoreInv

namespace Sk.Par
open Sk StoreInv

/-! ### `updW` -/

@[simp] theorem updW_same (f : Nat → PW) (w : Nat) (v : PW) : updW f w v w = v := by simp [updW]
@[simp] theorem updW_other (f : Nat → PW) (w : Nat) (v : PW) (x : Nat) (h : x ≠ w) :
    updW f w v x = f x := by simp [updW, h]

/-! ### the step function as a relation -/

inductive Step (s : PState) : PLbl → PState → Prop
  | local_ (w : Nat) (ns : Ns) (v : Option Val) (rest : List (Ns × Option Val)) (st' : Store)
      (i : Option Nat)
      (hpc : (s.ws w).pc = .run) (hready : (s.ws w).localReady = true)
      (hops : (s.ws w).ops = (ns, v) :: rest)
      (hadd : (s.ws w).st.addTo (s.ws w).sup ns v = .ok (st', i)) :
      Step s (.local_ w)
        { s with ws := updW s.ws w { s.ws w with ops := rest, st := st', rets := (s.ws w).rets ++ [i] } }
  | acquireSync (w : Nat) (hlock : s.lock = none) (hpc : (s.ws w).pc = .run)
      (hops : (s.ws w).ops = []) :
      Step s (.acquire w) { s with lock := some w, ws := updW s.ws w { s.ws w with pc := .sync } }
  | acquireBlk (w : Nat) (hlock : s.lock = none) (hpc : (s.ws w).pc = .run)
      (hops : (s.ws w).ops ≠ []) (hnr : (s.ws w).localReady = false) :
      Step s (.acquire w) { s with lock := some w, ws := updW s.ws w { s.ws w with pc := .locked } }
  | read1 (w : Nat) (hlock : s.lock = some w) (hpc : (s.ws w).pc = .locked) :
      Step s (.readPtr w s.ptr) { s with ws := updW s.ws w { s.ws w with pc := .read1, r1 := s.ptr } }
  | read2 (w : Nat) (hlock : s.lock = some w) (hpc : (s.ws w).pc = .read1) :
      Step s (.readPtr w s.ptr) { s with ws := updW s.ws w { s.ws w with pc := .read2, r2 := s.ptr } }
  | writePtr (w : Nat) (hlock : s.lock = some w) (hpc : (s.ws w).pc = .read2) :
      Step s (.writePtr w ((s.ws w).r2 + s.B))
        { s with ptr := (s.ws w).r2 + s.B,
                 ws := updW s.ws w { s.ws w with pc := .wrote, grants := (s.ws w).grants ++ [(s.ws w).r1] } }
  | releaseBlk (w : Nat) (hlock : s.lock = some w) (hpc : (s.ws w).pc = .wrote) :
      Step s (.release w) { s with lock := none, ws := updW s.ws w { s.ws w with pc := .run } }
  | releaseSync (w : Nat) (hlock : s.lock = some w) (hpc : (s.ws w).pc = .sync) :
      Step s (.release w) { s with lock := none }
  | syncStart (w : Nat) (hpc : (s.ws w).pc = .run) (hops : (s.ws w).ops = []) :
      Step s (.syncStart w) { s with ws := updW s.ws w { s.ws w with pc := .sync } }
  | syncData (w : Nat) (idx : Nat) (v : Val) (hpc : (s.ws w).pc = .sync)
      (hmem : (idx, v) ∈ (s.ws w).st.data) :
      Step s (.syncData w idx v)
        { s with sdata := (idx, v) :: s.sdata,
                 ws := updW s.ws w { s.ws w with synced := (idx, v) :: (s.ws w).synced } }
  | syncRevRead (w : Nat) (ns : Ns) (v : Val) (hpc : (s.ws w).pc = .sync) :
      Step s (.syncRevRead w ns v ((s.srev ns).lookup v).isSome) s
  | syncRevWrite (w : Nat) (ns : Ns) (v : Val) (idx : Nat) (hpc : (s.ws w).pc = .sync)
      (hmem : (v, idx) ∈ (s.ws w).st.rev ns) :
      Step s (.syncRevWrite w ns v idx) { s with srev := setRevS s.srev ns ((v, idx) :: s.srev ns) }
  | syncDone (w : Nat) (hpc : (s.ws w).pc = .sync) (hlock : s.lock ≠ some w)
      (hall : ∀ it ∈ (s.ws w).st.data, it ∈ (s.ws w).synced) :
      Step s (.syncDone w) { s with ws := updW s.ws w { s.ws w with pc := .done } }

theorem step_of_pstep {s : PState} {l : PLbl} {s' : PState} (h : pstep s l = some s') :
    Step s l s' := by
  cases l with
  | local_ w =>
    simp only [pstep] at h
    split at h
    · rename_i hc
      split at h
      · rename_i ns v rest hops
        split at h
        · rename_i st' i hadd
          cases h
          exact Step.local_ w ns v rest st' i hc.1 hc.2 hops hadd
        · cases h
      · cases h
    · cases h
  | acquire w =>
    simp only [pstep] at h
    split at h
    · rename_i hc
      split at h
      · rename_i hops
        cases h
        exact Step.acquireSync w hc.1 hc.2 hops
      · rename_i a rest hops
        split at h
        · rename_i hnr
          cases h
          exact Step.acquireBlk w hc.1 hc.2 (by rw [hops]; simp) (by simpa using hnr)
        · cases h
    · cases h
  | readPtr w seen =>
    simp only [pstep] at h
    split at h
    · rename_i hc
      obtain ⟨hl, rfl⟩ := hc
      split at h
      · rename_i hpc
        cases h
        exact Step.read1 w hl hpc
      · split at h
        · rename_i hpc
          cases h
          exact Step.read2 w hl hpc
        · cases h
    · cases h
  | writePtr w val =>
    simp only [pstep] at h
    split at h
    · rename_i hc
      obtain ⟨hl, hpc, rfl⟩ := hc
      cases h
      exact Step.writePtr w hl hpc
    · cases h
  | release w =>
    simp only [pstep] at h
    split at h
    · rename_i hl
      split at h
      · rename_i hpc
        cases h
        exact Step.releaseBlk w hl hpc
      · split at h
        · rename_i hpc
          cases h
          exact Step.releaseSync w hl hpc
        · cases h
    · cases h
  | syncStart w =>
    simp only [pstep] at h
    split at h
    · rename_i hc
      cases h
      exact Step.syncStart w hc.1 hc.2
    · cases h
  | syncData w idx v =>
    simp only [pstep] at h
    split at h
    · rename_i hc
      cases h
      exact Step.syncData w idx v hc.1 (by simpa using hc.2)
    · cases h
  | syncRevRead w ns v seen =>
    simp only [pstep] at h
    split at h
    · rename_i hc
      obtain ⟨hpc, rfl⟩ := hc
      cases h
      exact Step.syncRevRead w ns v hpc
    · cases h
  | syncRevWrite w ns v idx =>
    simp only [pstep] at h
    split at h
    · rename_i hc
      cases h
      exact Step.syncRevWrite w ns v idx hc.1 (by simpa using hc.2)
    · cases h
  | syncDone w =>
    simp only [pstep] at h
    split at h
    · rename_i hc
      cases h
      refine Step.syncDone w hc.1 hc.2.1 ?_
      have := hc.2.2
      simpa [List.all_eq_true] using this
    · cases h

/-! ### the local store: what `refresh` / `addTo` need from the supplier -/

/-- the `allocations` property asks the pre-allocator for a block -/
def trig (st : Store) : Bool :=
  st.pre && (match st.alloc with
    | none => true
    | some a => !st.data.isEmpty && st.data.length % st.B == 0 && st.hasKey (a + st.B - 1))

theorem refresh_eq (st : Store) (sup : Nat → Nat) :
    st.refresh sup = if trig st then
      { st with alloc := some (sup st.nblocks), nblocks := st.nblocks + 1 } else st := by
  unfold Store.refresh trig
  cases hp : st.pre
  · simp
  · cases ha : st.alloc with
    | none => simp
    | some a =>
      simp only [Bool.not_true, Bool.false_eq_true, if_false, Bool.true_and]

theorem refresh_congr (st : Store) {sup1 sup2 : Nat → Nat}
    (h : trig st = false ∨ sup1 st.nblocks = sup2 st.nblocks) :
    st.refresh sup1 = st.refresh sup2 := by
  rw [refresh_eq, refresh_eq]
  rcases h with h | h
  · simp [h]
  · rw [h]

theorem needsBlock_some (st : Store) (ns : Ns) (x : Val)
    (hl : (st.rev ns).lookup x = none) (hf : st.data.find? (fun p => p.2 == x) = none) :
    st.needsBlock ns (some x) = trig st := by
  simp only [Store.needsBlock, hl, hf, Option.isSome_none, Bool.false_eq_true, if_false]
  rw [refresh_eq]
  cases trig st <;> simp

theorem addTo_congr (st : Store) (ns : Ns) (v : Option Val) {sup1 sup2 : Nat → Nat}
    (h : st.needsBlock ns v = false ∨ sup1 st.nblocks = sup2 st.nblocks) :
    st.addTo sup1 ns v = st.addTo sup2 ns v := by
  cases v with
  | none => rfl
  | some x =>
    simp only [Store.addTo]
    cases hl : (st.rev ns).lookup x with
    | some i => rfl
    | none =>
      have : st.allocNext sup1 x = st.allocNext sup2 x := by
        simp only [Store.allocNext]
        cases hf : st.data.find? (fun p => p.2 == x) with
        | some p => rfl
        | none =>
          rw [needsBlock_some st ns x hl hf] at h
          simp only [refresh_congr st h]
      simp only [this]

theorem setRev_nblocks (st : Store) (ns : Ns) (m : List (Val × Nat)) :
    (st.setRev ns m).nblocks = st.nblocks := by cases ns <;> rfl

/-- a micro-op requests at most one block, and only when `needsBlock` says so -/
theorem addTo_nblocks {st st' : Store} {sup : Nat → Nat} {ns : Ns} {v : Option Val} {r : Option Nat}
    (h : st.addTo sup ns v = .ok (st', r)) :
    st'.nblocks = st.nblocks ∨ (st.needsBlock ns v = true ∧ st'.nblocks = st.nblocks + 1) := by
  cases v with
  | none => simp only [Store.addTo] at h; cases h; exact Or.inl rfl
  | some x =>
    simp only [Store.addTo] at h
    cases hl : (st.rev ns).lookup x with
    | some i => rw [hl] at h; cases h; exact Or.inl rfl
    | none =>
      rw [hl] at h
      simp only [bind, Except.bind, pure, Except.pure] at h
      split at h
      · cases h
      · rename_i y hy
        obtain ⟨st1, i⟩ := y
        simp only [Except.ok.injEq, Prod.mk.injEq] at h
        obtain ⟨rfl, -⟩ := h
        rw [setRev_nblocks]
        simp only [Store.allocNext] at hy
        cases hf : st.data.find? (fun p => p.2 == x) with
        | some p => rw [hf] at hy; cases hy; exact Or.inl rfl
        | none =>
          rw [hf] at hy
          rw [needsBlock_some st ns x hl hf]
          have hnb : (st.refresh sup).nblocks = st.nblocks ∨
              (trig st = true ∧ (st.refresh sup).nblocks = st.nblocks + 1) := by
            rw [refresh_eq]; cases trig st <;> simp
          simp only at hy
          split at hy
          · split at hy
            · cases hy; exact hnb
            · cases hy
          · cases hy; exact hnb

/-! ### invariant 1: lock, pointer, pairwise disjoint grants -/

theorem updW_proj {α : Sort _} (f : PW → α) (ws : Nat → PW) (w : Nat) (p' : PW)
    (h : f p' = f (ws w)) : ∀ x, f (updW ws w p' x) = f (ws x) := by
  intro x
  by_cases hx : x = w
  · subst hx; rw [updW_same]; exact h
  · rw [updW_other _ _ _ _ hx]

/-- inside `preallocate`, between `acquire` and `release` -/
def crit : PPc → Bool
  | .locked | .read1 | .read2 | .wrote => true
  | _ => false

structure Inv1 (B : Nat) (s : PState) : Prop where
  hB : s.B = B
  below : ∀ w g, g ∈ (s.ws w).grants → g + B ≤ s.ptr
  disj : ∀ (w1 w2 i1 i2 a b : Nat), (s.ws w1).grants[i1]? = some a → (s.ws w2).grants[i2]? = some b →
      (w1 = w2 → i1 ≠ i2) → a + B ≤ b ∨ b + B ≤ a
  holds : ∀ w, crit (s.ws w).pc = true → s.lock = some w
  held : ∀ h, s.lock = some h → crit (s.ws h).pc = true ∨ (s.ws h).pc = .sync
  r1ok : ∀ w, (s.ws w).pc = .read1 ∨ (s.ws w).pc = .read2 → (s.ws w).r1 = s.ptr
  r2ok : ∀ w, (s.ws w).pc = .read2 → (s.ws w).r2 = s.ptr

theorem Inv1.init (B : Nat) (progs : Nat → List (Ns × Option Val)) : Inv1 B (PState.init B progs) := by
  refine ⟨rfl, ?_, ?_, ?_, ?_, ?_, ?_⟩
  · intro w g hg; simp [PState.init] at hg
  · intro w1 w2 i1 i2 a b h1; simp [PState.init] at h1
  · intro w hc; simp [PState.init, crit] at hc
  · intro h hl; simp [PState.init] at hl
  · intro w hc; simp [PState.init] at hc
  · intro w hc; simp [PState.init] at hc

theorem Inv1.congr {B : Nat} {s s' : PState} (h : Inv1 B s) (hB : s'.B = s.B) (hptr : s'.ptr = s.ptr)
    (hlock : s'.lock = s.lock)
    (hg : ∀ x, (s'.ws x).grants = (s.ws x).grants) (hpc : ∀ x, (s'.ws x).pc = (s.ws x).pc)
    (hr1 : ∀ x, (s'.ws x).r1 = (s.ws x).r1) (hr2 : ∀ x, (s'.ws x).r2 = (s.ws x).r2) : Inv1 B s' := by
  refine ⟨hB.trans h.hB, ?_, ?_, ?_, ?_, ?_, ?_⟩
  · intro w g; rw [hg, hptr]; exact h.below w g
  · intro w1 w2 i1 i2 a b; rw [hg, hg]; exact h.disj w1 w2 i1 i2 a b
  · intro w; rw [hpc, hlock]; exact h.holds w
  · intro x; rw [hpc, hlock]; exact h.held x
  · intro w; rw [hpc, hr1, hptr]; exact h.r1ok w
  · intro w; rw [hpc, hr2, hptr]; exact h.r2ok w

/-- a step that leaves pointer and grants alone -/
theorem Inv1.frame {B : Nat} {s s' : PState} (h : Inv1 B s) (hptr : s'.ptr = s.ptr)
    (hg : ∀ x, (s'.ws x).grants = (s.ws x).grants) :
    (∀ w g, g ∈ (s'.ws w).grants → g + B ≤ s'.ptr) ∧
    (∀ (w1 w2 i1 i2 a b : Nat), (s'.ws w1).grants[i1]? = some a → (s'.ws w2).grants[i2]? = some b →
      (w1 = w2 → i1 ≠ i2) → a + B ≤ b ∨ b + B ≤ a) := by
  constructor
  · intro w g; rw [hg, hptr]; exact h.below w g
  · intro w1 w2 i1 i2 a b; rw [hg, hg]; exact h.disj w1 w2 i1 i2 a b

theorem lock_ne {s : PState} {w x : Nat} (hl : s.lock = some w) (hx : x ≠ w) : s.lock ≠ some x := by
  rw [hl]; intro e; exact hx (Option.some.inj e).symm

theorem inv1_step {B : Nat} {s : PState} {l : PLbl} {s' : PState} (h : Inv1 B s) (hs : Step s l s') :
    Inv1 B s' := by
  cases hs with
  | local_ w ns v rest st' i hpc hready hops hadd =>
    exact h.congr rfl rfl rfl (updW_proj (·.grants) _ _ _ rfl) (updW_proj (·.pc) _ _ _ rfl)
      (updW_proj (·.r1) _ _ _ rfl) (updW_proj (·.r2) _ _ _ rfl)
  | syncData w idx v hpc hmem =>
    exact h.congr rfl rfl rfl (updW_proj (·.grants) _ _ _ rfl) (updW_proj (·.pc) _ _ _ rfl)
      (updW_proj (·.r1) _ _ _ rfl) (updW_proj (·.r2) _ _ _ rfl)
  | syncRevRead w ns v hpc => exact h
  | syncRevWrite w ns v idx hpc hmem =>
    exact h.congr rfl rfl rfl (fun _ => rfl) (fun _ => rfl) (fun _ => rfl) (fun _ => rfl)
  | acquireSync w hlock hpc hops =>
    obtain ⟨hb, hd⟩ := h.frame (s' := { s with lock := some w, ws := updW s.ws w { s.ws w with pc := .sync } })
      rfl (updW_proj (·.grants) _ _ _ rfl)
    refine ⟨h.hB, hb, hd, ?_, ?_, ?_, ?_⟩
    · intro x hc
      by_cases hx : x = w
      · subst hx; rfl
      · simp only [updW_other _ _ _ _ hx] at hc
        have := h.holds x hc; rw [hlock] at this; cases this
    · intro x hl
      have : w = x := Option.some.inj hl
      subst this; right; simp
    · intro x hc
      by_cases hx : x = w
      · subst hx; simp at hc
      · simp only [updW_other _ _ _ _ hx] at hc ⊢; exact h.r1ok x hc
    · intro x hc
      by_cases hx : x = w
      · subst hx; simp at hc
      · simp only [updW_other _ _ _ _ hx] at hc ⊢; exact h.r2ok x hc
  | acquireBlk w hlock hpc hops hnr =>
    obtain ⟨hb, hd⟩ := h.frame (s' := { s with lock := some w, ws := updW s.ws w { s.ws w with pc := .locked } })
      rfl (updW_proj (·.grants) _ _ _ rfl)
    refine ⟨h.hB, hb, hd, ?_, ?_, ?_, ?_⟩
    · intro x hc
      by_cases hx : x = w
      · subst hx; rfl
      · simp only [updW_other _ _ _ _ hx] at hc
        have := h.holds x hc; rw [hlock] at this; cases this
    · intro x hl
      have : w = x := Option.some.inj hl
      subst this; left; simp [crit]
    · intro x hc
      by_cases hx : x = w
      · subst hx; simp at hc
      · simp only [updW_other _ _ _ _ hx] at hc ⊢; exact h.r1ok x hc
    · intro x hc
      by_cases hx : x = w
      · subst hx; simp at hc
      · simp only [updW_other _ _ _ _ hx] at hc ⊢; exact h.r2ok x hc
  | read1 w hlock hpc =>
    obtain ⟨hb, hd⟩ := h.frame (s' := { s with ws := updW s.ws w { s.ws w with pc := .read1, r1 := s.ptr } })
      rfl (updW_proj (·.grants) _ _ _ rfl)
    refine ⟨h.hB, hb, hd, ?_, ?_, ?_, ?_⟩
    · intro x hc
      by_cases hx : x = w
      · subst hx; exact hlock
      · simp only [updW_other _ _ _ _ hx] at hc; exact h.holds x hc
    · intro x hl
      have : w = x := Option.some.inj (hlock.symm.trans hl)
      subst this; left; simp [crit]
    · intro x hc
      by_cases hx : x = w
      · subst hx; simp
      · simp only [updW_other _ _ _ _ hx] at hc ⊢; exact h.r1ok x hc
    · intro x hc
      by_cases hx : x = w
      · subst hx; simp at hc
      · simp only [updW_other _ _ _ _ hx] at hc ⊢; exact h.r2ok x hc
  | read2 w hlock hpc =>
    obtain ⟨hb, hd⟩ := h.frame (s' := { s with ws := updW s.ws w { s.ws w with pc := .read2, r2 := s.ptr } })
      rfl (updW_proj (·.grants) _ _ _ rfl)
    refine ⟨h.hB, hb, hd, ?_, ?_, ?_, ?_⟩
    · intro x hc
      by_cases hx : x = w
      · subst hx; exact hlock
      · simp only [updW_other _ _ _ _ hx] at hc; exact h.holds x hc
    · intro x hl
      have : w = x := Option.some.inj (hlock.symm.trans hl)
      subst this; left; simp [crit]
    · intro x hc
      by_cases hx : x = w
      · subst hx; simp; exact h.r1ok x (Or.inl hpc)
      · simp only [updW_other _ _ _ _ hx] at hc ⊢; exact h.r1ok x hc
    · intro x hc
      by_cases hx : x = w
      · subst hx; simp
      · simp only [updW_other _ _ _ _ hx] at hc ⊢; exact h.r2ok x hc
  | writePtr w hlock hpc =>
    have e1 := h.r1ok w (Or.inr hpc)
    have e2 := h.r2ok w hpc
    have eB := h.hB
    have notcrit : ∀ x, x ≠ w → crit (s.ws x).pc = false := by
      intro x hx
      cases hc : crit (s.ws x).pc with
      | false => rfl
      | true => exact absurd (h.holds x hc) (lock_ne hlock hx)
    refine ⟨h.hB, ?_, ?_, ?_, ?_, ?_, ?_⟩
    · intro x g hg
      show g + B ≤ (s.ws w).r2 + s.B
      by_cases hx : x = w
      · subst hx
        simp only [updW_same, List.mem_append, List.mem_singleton] at hg
        rcases hg with hg | rfl
        · have := h.below x g hg; omega
        · omega
      · simp only [updW_other _ _ _ _ hx] at hg
        have := h.below x g hg; omega
    · -- the new block starts at the old pointer: above every block granted before
      have old : ∀ (x j c : Nat), (s.ws x).grants[j]? = some c → c + B ≤ (s.ws w).r1 := by
        intro x j c hc
        have := h.below x c (List.mem_of_getElem? hc); omega
      have getw : ∀ (j c : Nat), (updW s.ws w { s.ws w with pc := .wrote, grants := (s.ws w).grants ++ [(s.ws w).r1] } w).grants[j]? = some c →
          ((s.ws w).grants[j]? = some c) ∨ (j = (s.ws w).grants.length ∧ c = (s.ws w).r1) := by
        intro j c hc
        simp only [updW_same] at hc
        by_cases hj : j < (s.ws w).grants.length
        · rw [List.getElem?_append_left hj] at hc; exact Or.inl hc
        · rw [List.getElem?_append_right (by omega)] at hc
          right
          cases hk : j - (s.ws w).grants.length with
          | zero => rw [hk] at hc; simp at hc; exact ⟨by omega, hc.symm⟩
          | succ k => rw [hk] at hc; simp at hc
      intro w1 w2 i1 i2 a b h1 h2 hne
      by_cases hx1 : w1 = w <;> by_cases hx2 : w2 = w
      · subst hx1; subst hx2
        rcases getw _ _ h1 with h1 | ⟨j1, rfl⟩ <;> rcases getw _ _ h2 with h2 | ⟨j2, rfl⟩
        · exact h.disj _ _ _ _ _ _ h1 h2 hne
        · left; exact old _ _ _ h1
        · right; exact old _ _ _ h2
        · exact absurd (j1.trans j2.symm) (hne rfl)
      · subst hx1
        simp only [updW_other _ _ _ _ hx2] at h2
        rcases getw _ _ h1 with h1 | ⟨j1, rfl⟩
        · exact h.disj _ _ _ _ _ _ h1 h2 (fun e => absurd e.symm hx2)
        · right; exact old _ _ _ h2
      · subst hx2
        simp only [updW_other _ _ _ _ hx1] at h1
        rcases getw _ _ h2 with h2 | ⟨j2, rfl⟩
        · exact h.disj _ _ _ _ _ _ h1 h2 (fun e => absurd e hx1)
        · left; exact old _ _ _ h1
      · simp only [updW_other _ _ _ _ hx1] at h1
        simp only [updW_other _ _ _ _ hx2] at h2
        exact h.disj _ _ _ _ _ _ h1 h2 hne
    · intro x hc
      by_cases hx : x = w
      · subst hx; exact hlock
      · simp only [updW_other _ _ _ _ hx] at hc; exact h.holds x hc
    · intro x hl
      have : w = x := Option.some.inj (hlock.symm.trans hl)
      subst this; left; simp [crit]
    · intro x hc
      by_cases hx : x = w
      · subst hx; simp at hc
      · simp only [updW_other _ _ _ _ hx] at hc
        have := notcrit x hx
        rcases hc with hc | hc <;> simp [hc, crit] at this
    · intro x hc
      by_cases hx : x = w
      · subst hx; simp at hc
      · simp only [updW_other _ _ _ _ hx] at hc
        have := notcrit x hx
        simp [hc, crit] at this
  | releaseBlk w hlock hpc =>
    obtain ⟨hb, hd⟩ := h.frame (s' := { s with lock := none, ws := updW s.ws w { s.ws w with pc := .run } })
      rfl (updW_proj (·.grants) _ _ _ rfl)
    refine ⟨h.hB, hb, hd, ?_, ?_, ?_, ?_⟩
    · intro x hc
      by_cases hx : x = w
      · subst hx; simp [crit] at hc
      · simp only [updW_other _ _ _ _ hx] at hc
        exact absurd (h.holds x hc) (lock_ne hlock hx)
    · intro x hl; cases hl
    · intro x hc
      by_cases hx : x = w
      · subst hx; simp at hc
      · simp only [updW_other _ _ _ _ hx] at hc ⊢; exact h.r1ok x hc
    · intro x hc
      by_cases hx : x = w
      · subst hx; simp at hc
      · simp only [updW_other _ _ _ _ hx] at hc ⊢; exact h.r2ok x hc
  | releaseSync w hlock hpc =>
    refine ⟨h.hB, h.below, h.disj, ?_, ?_, h.r1ok, h.r2ok⟩
    · intro x hc
      by_cases hx : x = w
      · subst hx; rw [hpc] at hc; simp [crit] at hc
      · exact absurd (h.holds x hc) (lock_ne hlock hx)
    · intro x hl; cases hl
  | syncStart w hpc hops =>
    obtain ⟨hb, hd⟩ := h.frame (s' := { s with ws := updW s.ws w { s.ws w with pc := .sync } })
      rfl (updW_proj (·.grants) _ _ _ rfl)
    refine ⟨h.hB, hb, hd, ?_, ?_, ?_, ?_⟩
    · intro x hc
      by_cases hx : x = w
      · subst hx; simp [crit] at hc
      · simp only [updW_other _ _ _ _ hx] at hc; exact h.holds x hc
    · intro x hl
      by_cases hx : x = w
      · subst hx; right; simp
      · simp only [updW_other _ _ _ _ hx]; exact h.held x hl
    · intro x hc
      by_cases hx : x = w
      · subst hx; simp at hc
      · simp only [updW_other _ _ _ _ hx] at hc ⊢; exact h.r1ok x hc
    · intro x hc
      by_cases hx : x = w
      · subst hx; simp at hc
      · simp only [updW_other _ _ _ _ hx] at hc ⊢; exact h.r2ok x hc
  | syncDone w hpc hlock hall =>
    obtain ⟨hb, hd⟩ := h.frame (s' := { s with ws := updW s.ws w { s.ws w with pc := .done } })
      rfl (updW_proj (·.grants) _ _ _ rfl)
    refine ⟨h.hB, hb, hd, ?_, ?_, ?_, ?_⟩
    · intro x hc
      by_cases hx : x = w
      · subst hx; simp [crit] at hc
      · simp only [updW_other _ _ _ _ hx] at hc; exact h.holds x hc
    · intro x hl
      by_cases hx : x = w
      · subst hx; exact absurd hl hlock
      · simp only [updW_other _ _ _ _ hx]; exact h.held x hl
    · intro x hc
      by_cases hx : x = w
      · subst hx; simp at hc
      · simp only [updW_other _ _ _ _ hx] at hc ⊢; exact h.r1ok x hc
    · intro x hc
      by_cases hx : x = w
      · subst hx; simp at hc
      · simp only [updW_other _ _ _ _ hx] at hc ⊢; exact h.r2ok x hc

end Sk.Par
