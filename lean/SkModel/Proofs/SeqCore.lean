/-
  SkModel.Proofs.SeqCore — C03 for one sequence definition run alone: the state machine
  `seqStep` + `eofDef` reports exactly the complete sections of `Spec.sections`.
-/
import SkModel.Proofs.Solo
import SkModel.Spec.Sequence
import SkModel.Spec.Simple
import SkModel.Proofs.SeqCoreAbs

set_option linter.unusedSimpArgs false

namespace Sk

open Spec

/-- the sub-definition a role suffix refers to -/
def roleDef (s : SeqDef) (role : String) : SDef :=
  if role == "-start" then s.start else if role == "-body" then s.body.getD s.start else s.end_.getD s.start

def renderSection (id : Nat) (s : SeqDef) (n : Nat) (sec : Spec.Section) (k : Nat) :
    List (Option (Nat × Nat) × Option String × Nat × List (Option Val)) :=
  (Spec.itemsOf s n sec).map fun it =>
    (some (id, k), some (s.tag ++ it.role), it.ln, Spec.values (roleDef s it.role) it.m)

/-! ### stored parts carry the specified values -/

theorem savePart_val_sc {f : Option (List String)} {idx : Nat} {v : Option Val} {p : Part}
    (h : savePart f idx v = .ok p) : p.val = v := by
  unfold savePart at h
  split at h
  · split at h
    · cases h
    · split at h
      · cases h; rfl
      · cases h
  · cases h; rfl

theorem savePartsFrom_val {f : Option (List String)} :
    ∀ (vs : List (Option Val)) (k : Nat) (ps : List Part),
      savePartsFrom f k vs = .ok ps → ps.map (·.val) = vs := by
  intro vs
  induction vs with
  | nil => intro k ps h; simp [savePartsFrom] at h; subst h; rfl
  | cons v vs ih =>
    intro k ps h
    simp only [savePartsFrom, bind, Except.bind, pure, Except.pure] at h
    cases h1 : savePart f k v with
    | error e => simp [h1] at h
    | ok p =>
      cases h2 : savePartsFrom f (k + 1) vs with
      | error e => simp [h1, h2] at h
      | ok ps' =>
        simp [h1, h2] at h
        subst h
        simp [savePart_val_sc h1, ih _ _ h2]

theorem mkParts_val {d : SDef} {m : Match} {ps : List Part} (h : mkParts d m = .ok ps) :
    ps.map (·.val) = Spec.values d m := by
  unfold mkParts at h
  unfold Spec.values
  split at h
  · cases h; simp [*]
  · split at h
    · simp only [bind, Except.bind, pure, Except.pure] at h
      cases h1 : savePart d.fields 0 (some m.g0) with
      | error e => simp [h1] at h
      | ok p =>
        simp [h1] at h
        subst h
        simp [*, savePart_val_sc h1]
    · simp [*, savePartsFrom_val _ _ _ h]

theorem mkSeqRes_view {id : Nat} {s : SeqDef} {sfx : String} {sd : SDef} {ln sec : Nat}
    {m : Match} {r : Res} (h : mkSeqRes id s sfx sd ln sec m = .ok r) :
    r.view = (some (id, sec), some (s.tag ++ sfx), ln, Spec.values sd m) := by
  simp only [mkSeqRes, bind, Except.bind, pure, Except.pure] at h
  cases h1 : mkParts sd m with
  | error e => simp [h1] at h
  | ok ps =>
    simp [h1] at h
    subst h
    simp [Res.view, Res.iter, seqTagOf, mkParts_val h1]

/-! ### rendering lemmas -/

/-- which lines the body sub-definition matches (nothing when there is no body) -/
def bpOf (s : SeqDef) : Nat → Bool :=
  match s.body with | some b => hits b | none => fun _ => false

abbrev View := Option (Nat × Nat) × Option String × Nat × List (Option Val)

theorem render_sec {id : Nat} {s : SeqDef} {n : Nat} {sec : Spec.Section} {k : Nat} {v : View}
    (h : v ∈ renderSection id s n sec k) : v.1 = some (id, k) := by
  simp only [renderSection, List.mem_map] at h
  obtain ⟨it, _, rfl⟩ := h
  rfl

theorem render_start {id : Nat} {s : SeqDef} {n i k : Nat} {m : Match}
    (h : s.start.run i = some m) :
    renderSection id s n ⟨i, [], none⟩ k =
      [(some (id, k), some (s.tag ++ "-start"), i + 1, Spec.values s.start m)] := by
  simp only [renderSection, itemsOf, h]
  cases s.body <;> cases s.end_ <;> simp [roleDef]

theorem render_body_snoc {id : Nat} {s : SeqDef} {n a i k : Nat} {bs : List Nat} {b : SDef}
    {m : Match} (hb : s.body = some b) (h : b.run i = some m) :
    renderSection id s n ⟨a, bs ++ [i], none⟩ k =
      renderSection id s n ⟨a, bs, none⟩ k ++
        [(some (id, k), some (s.tag ++ "-body"), i + 1, Spec.values b m)] := by
  simp only [renderSection, itemsOf, hb, List.filterMap_append]
  cases s.end_ <;> simp [roleDef, h, hb]

theorem render_close_line {id : Nat} {s : SeqDef} {n a j k : Nat} {bs : List Nat} {e : SDef}
    {m : Match} (he : s.end_ = some e) (hj : j < n) (h : e.run j = some m) :
    renderSection id s n ⟨a, bs, some j⟩ k =
      renderSection id s n ⟨a, bs, none⟩ k ++
        [(some (id, k), some (s.tag ++ "-end"), j + 1, Spec.values e m)] := by
  simp [renderSection, itemsOf, he, hj, h, roleDef]

theorem render_close_eof {id : Nat} {s : SeqDef} {n a k : Nat} {bs : List Nat} {e : SDef}
    {m : Match} (he : s.end_ = some e) (h : e.emptyRes = some m) :
    renderSection id s n ⟨a, bs, some n⟩ k =
      renderSection id s n ⟨a, bs, none⟩ k ++
        [(some (id, k), some (s.tag ++ "-end"), n + 1, Spec.values e m)] := by
  simp [renderSection, itemsOf, he, h, roleDef]

/-! ### the simulation relation -/

def openRender (id : Nat) (s : SeqDef) (n : Nat) (o : Option (Nat × List Nat)) (k : Nat) :
    List View :=
  match o with
  | none => []
  | some (a, bs) => renderSection id s n ⟨a, bs, none⟩ k

def closedRender (id : Nat) (s : SeqDef) (n : Nat) (cl : List Spec.Section) (ids : List Nat) :
    List View :=
  (cl.zip ids).flatMap (fun p => renderSection id s n p.1 p.2)

structure Rel (id : Nat) (s : SeqDef) (n : Nat) (st : DSt) (A : ASt) (ids : List Nat) : Prop where
  run : st.runnable = true
  len : ids.length = A.closed.length
  sorted : ids.Pairwise (· < ·)
  ltcnt : ∀ k ∈ ids, k < st.cnt
  started : st.started = A.opn.isSome
  cur : st.started = true → st.sec < st.cnt ∧ ∀ k ∈ ids, k < st.sec
  view : st.seqRes.map Res.view = closedRender id s n A.closed ids ++ openRender id s n A.opn st.sec

theorem closedRender_snoc (id : Nat) (s : SeqDef) (n : Nat) (cl : List Spec.Section)
    (ids : List Nat) (x : Spec.Section) (k : Nat) (h : ids.length = cl.length) :
    closedRender id s n (cl ++ [x]) (ids ++ [k]) =
      closedRender id s n cl ids ++ renderSection id s n x k := by
  simp [closedRender, List.zip_append h.symm]

theorem closedRender_sec {id : Nat} {s : SeqDef} {n : Nat} {cl : List Spec.Section}
    {ids : List Nat} {v : View} (h : v ∈ closedRender id s n cl ids) :
    ∃ k ∈ ids, v.1 = some (id, k) := by
  simp only [closedRender, List.mem_flatMap] at h
  obtain ⟨p, hp, hv⟩ := h
  exact ⟨p.2, (List.of_mem_zip hp).2, render_sec hv⟩

theorem filter_view (l : List Res) (id k : Nat) :
    (l.filter (fun r => r.sec != some (id, k))).map Res.view =
      (l.map Res.view).filter (fun v => v.1 != some (id, k)) := by
  rw [List.filter_map]
  rfl

theorem filter_closed_open {id : Nat} {s : SeqDef} {n : Nat} {cl : List Spec.Section}
    {ids : List Nat} {o : Option (Nat × List Nat)} {k : Nat} (h : ∀ k' ∈ ids, k' < k) :
    (closedRender id s n cl ids ++ openRender id s n o k).filter (fun v => v.1 != some (id, k)) =
      closedRender id s n cl ids := by
  rw [List.filter_append]
  have h1 : (closedRender id s n cl ids).filter (fun v => v.1 != some (id, k)) =
      closedRender id s n cl ids := by
    rw [List.filter_eq_self]
    intro v hv
    obtain ⟨k', hk', hv'⟩ := closedRender_sec hv
    have := h k' hk'
    simp [hv']
    omega
  have h2 : (openRender id s n o k).filter (fun v => v.1 != some (id, k)) = [] := by
    rw [List.filter_eq_nil_iff]
    intro v hv
    cases o with
    | none => simp [openRender] at hv
    | some ab =>
      simp only [openRender] at hv
      simp [render_sec hv]
  rw [h1, h2, List.append_nil]

/-! ### one line of the state machine preserves the relation -/

theorem rel_stepWE {id : Nat} {s : SeqDef} {n : Nat} {e : SDef} {i : Nat} {st st' : DSt} {A : ASt}
    {ids : List Nat} (he : s.end_ = some e) (hi : i < n) (hR : Rel id s n st A ids)
    (h : seqStep id s i st = .ok st') :
    ∃ ids', Rel id s n st' (absStepWE (hits s.start) (bpOf s) (hits e) A i) ids' := by
  obtain ⟨cl, o⟩ := A
  obtain ⟨hrun, hlen, hsorted, hlt, hstarted, hcur, hview⟩ := hR
  simp only at hlen hstarted hview
  cases o with
  | none =>
    have hst : st.started = false := by simpa using hstarted
    cases hs : s.start.run i with
    | none =>
      simp only [seqStep, he, hst, hs] at h
      simp [bind, Except.bind, pure, Except.pure, hst] at h
      subst h
      refine ⟨ids, ?_⟩
      simp only [absStepWE, hits, hs, Option.isSome_none]
      exact ⟨hrun, hlen, hsorted, hlt, hstarted, hcur, hview⟩
    | some m =>
      simp only [seqStep, he, hst, hs] at h
      simp [bind, Except.bind, pure, Except.pure, hst] at h
      cases hr : mkSeqRes id s "-start" s.start (i + 1) st.cnt m with
      | error err => simp [hr, hst] at h
      | ok r =>
        simp [hr, hst] at h
        subst h
        refine ⟨ids, ?_⟩
        simp only [absStepWE, hits, hs, Option.isSome_some, if_true]
        refine ⟨hrun, hlen, hsorted, ?_, rfl, ?_, ?_⟩
        · intro k hk; have := hlt k hk; simp; omega
        · intro _; exact ⟨by simp, hlt⟩
        · simp [hview, openRender, render_start hs, mkSeqRes_view hr]
  | some ab =>
    obtain ⟨a, bs⟩ := ab
    have hst : st.started = true := by simpa using hstarted
    obtain ⟨hsec, hids⟩ := hcur hst
    cases hs : s.start.run i with
    | some m =>
      simp only [seqStep, he, hst, hs] at h
      simp [bind, Except.bind, pure, Except.pure, hst] at h
      cases hr : mkSeqRes id s "-start" s.start (i + 1) st.cnt m with
      | error err => simp [hr, hst] at h
      | ok r =>
        simp [hr, hst] at h
        subst h
        refine ⟨ids, ?_⟩
        simp only [absStepWE, hits, hs, Option.isSome_some, if_true]
        refine ⟨hrun, hlen, hsorted, ?_, rfl, ?_, ?_⟩
        · intro k hk; have := hlt k hk; simp; omega
        · intro _; exact ⟨by simp, hlt⟩
        · simp only [List.map_append, filter_view, hview, filter_closed_open hids]
          simp [openRender, render_start hs, mkSeqRes_view hr]
    | none =>
      simp only [seqStep, he, hst, hs] at h
      simp [bind, Except.bind, pure, Except.pure, hst] at h
      cases hen : e.run i with
      | some m =>
        simp only [hen] at h
        cases hr : mkSeqRes id s "-end" e (i + 1) st.sec m with
        | error err => simp [hr, hst] at h
        | ok r =>
          simp [hr, hst] at h
          subst h
          refine ⟨ids ++ [st.sec], ?_⟩
          simp only [absStepWE, hits, hs, hen, Option.isSome_some, Option.isSome_none, if_true]
          refine ⟨hrun, by simp [hlen], ?_, ?_, rfl, ?_, ?_⟩
          · rw [List.pairwise_append]
            refine ⟨hsorted, by simp, ?_⟩
            intro k hk k' hk'
            simp at hk'
            subst hk'
            exact hids k hk
          · intro k hk
            simp at hk ⊢
            rcases hk with hk | hk
            · have := hlt k hk; omega
            · omega
          · intro hc; simp at hc
          · simp only [Bool.false_eq_true, ↓reduceIte]
            rw [closedRender_snoc _ _ _ _ _ _ _ hlen, render_close_line he hi hen]
            simp [hview, openRender, mkSeqRes_view hr]
      | none =>
        simp only [hen] at h
        cases hb : s.body with
        | none =>
          simp [hb] at h
          subst h
          refine ⟨ids, ?_⟩
          simp only [absStepWE, hits, hs, hen, bpOf, hb, Option.isSome_none]
          exact ⟨hrun, hlen, hsorted, hlt, hstarted, hcur, hview⟩
        | some b =>
          simp only [hb] at h
          cases hbr : b.run i with
          | none =>
            simp [hbr] at h
            subst h
            refine ⟨ids, ?_⟩
            simp only [absStepWE, hits, hs, hen, bpOf, hb, hbr, Option.isSome_none]
            exact ⟨hrun, hlen, hsorted, hlt, hstarted, hcur, hview⟩
          | some m =>
            simp only [hbr] at h
            cases hr : mkSeqRes id s "-body" b (i + 1) st.sec m with
            | error err => simp [hr, hst] at h
            | ok r =>
              simp [hr, hst] at h
              subst h
              refine ⟨ids, ?_⟩
              simp only [absStepWE, hits, hs, hen, bpOf, hb, hbr, Option.isSome_none,
                Option.isSome_some, if_true]
              refine ⟨hrun, hlen, hsorted, hlt, by simp [hst], fun _ => ⟨hsec, hids⟩, ?_⟩
              simp [hview, openRender, render_body_snoc hb hbr, mkSeqRes_view hr]

theorem rel_stepNE {id : Nat} {s : SeqDef} {n : Nat} {i : Nat} {st st' : DSt} {A : ASt}
    {ids : List Nat} (he : s.end_ = none) (hR : Rel id s n st A ids)
    (h : seqStep id s i st = .ok st') :
    ∃ ids', Rel id s n st' (absStepNE (hits s.start) (bpOf s) A i) ids' := by
  obtain ⟨cl, o⟩ := A
  obtain ⟨hrun, hlen, hsorted, hlt, hstarted, hcur, hview⟩ := hR
  simp only at hlen hstarted hview
  cases o with
  | none =>
    have hst : st.started = false := by simpa using hstarted
    cases hs : s.start.run i with
    | none =>
      simp only [seqStep, he, hst, hs] at h
      simp [bind, Except.bind, pure, Except.pure, hst] at h
      subst h
      refine ⟨ids, ?_⟩
      simp only [absStepNE, hits, hs, Option.isSome_none]
      exact ⟨hrun, hlen, hsorted, hlt, hstarted, hcur, hview⟩
    | some m =>
      simp only [seqStep, he, hst, hs] at h
      simp [bind, Except.bind, pure, Except.pure, hst] at h
      cases hr : mkSeqRes id s "-start" s.start (i + 1) st.cnt m with
      | error err => simp [hr, hst] at h
      | ok r =>
        simp [hr, hst] at h
        subst h
        refine ⟨ids, ?_⟩
        simp only [absStepNE, hits, hs, Option.isSome_some, if_true]
        refine ⟨hrun, hlen, hsorted, ?_, rfl, ?_, ?_⟩
        · intro k hk; have := hlt k hk; simp; omega
        · intro _; exact ⟨by simp, hlt⟩
        · simp [hview, openRender, render_start hs, mkSeqRes_view hr]
  | some ab =>
    obtain ⟨a, bs⟩ := ab
    have hst : st.started = true := by simpa using hstarted
    obtain ⟨hsec, hids⟩ := hcur hst
    cases hs : s.start.run i with
    | some m =>
      simp only [seqStep, he, hst, hs] at h
      simp [bind, Except.bind, pure, Except.pure, hst] at h
      cases hr : mkSeqRes id s "-start" s.start (i + 1) (st.cnt + 1) m with
      | error err => simp [hr, hst] at h
      | ok r =>
        simp [hr, hst] at h
        subst h
        refine ⟨ids ++ [st.sec], ?_⟩
        simp only [absStepNE, hits, hs, Option.isSome_some, if_true]
        refine ⟨hrun, by simp [hlen], ?_, ?_, rfl, ?_, ?_⟩
        · rw [List.pairwise_append]
          refine ⟨hsorted, by simp, ?_⟩
          intro k hk k' hk'
          simp at hk'
          subst hk'
          exact hids k hk
        · intro k hk
          simp at hk ⊢
          rcases hk with hk | hk
          · have := hlt k hk; omega
          · omega
        · intro _
          refine ⟨by simp, ?_⟩
          intro k hk
          simp at hk ⊢
          rcases hk with hk | hk
          · have := hlt k hk; omega
          · omega
        · rw [closedRender_snoc _ _ _ _ _ _ _ hlen]
          simp [hview, openRender, render_start hs, mkSeqRes_view hr]
    | none =>
      simp only [seqStep, he, hst, hs] at h
      simp [bind, Except.bind, pure, Except.pure, hst] at h
      cases hb : s.body with
      | none =>
        simp [hb] at h
        subst h
        refine ⟨ids, ?_⟩
        simp only [absStepNE, hits, hs, bpOf, hb, Option.isSome_none]
        exact ⟨hrun, hlen, hsorted, hlt, hstarted, hcur, hview⟩
      | some b =>
        simp only [hb] at h
        cases hbr : b.run i with
        | none =>
          simp [hbr] at h
          subst h
          refine ⟨ids, ?_⟩
          simp only [absStepNE, hits, hs, bpOf, hb, hbr, Option.isSome_none]
          exact ⟨hrun, hlen, hsorted, hlt, hstarted, hcur, hview⟩
        | some m =>
          simp only [hbr] at h
          cases hr : mkSeqRes id s "-body" b (i + 1) st.sec m with
          | error err => simp [hr] at h
          | ok r =>
            simp [hr] at h
            subst h
            refine ⟨ids, ?_⟩
            simp only [absStepNE, hits, hs, bpOf, hb, hbr, Option.isSome_none,
              Option.isSome_some, if_true]
            refine ⟨hrun, hlen, hsorted, hlt, by simp [hst], fun _ => ⟨hsec, hids⟩, ?_⟩
            simp [hview, openRender, render_body_snoc hb hbr, mkSeqRes_view hr]

/-! ### the loop, end of file, and the theorem -/

def absStepS (s : SeqDef) : ASt → Nat → ASt :=
  match s.end_ with
  | some e => absStepWE (hits s.start) (bpOf s) (hits e)
  | none => absStepNE (hits s.start) (bpOf s)

def absFinS (s : SeqDef) (n : Nat) (A : ASt) : List Spec.Section :=
  match s.end_ with
  | some e => absFinWE e.emptyRes.isSome n A
  | none => absFinNE A

theorem sections_eq_abs (s : SeqDef) (n : Nat) :
    Spec.sections s n = absFinS s n ((List.range n).foldl (absStepS s) ⟨[], none⟩) := by
  unfold Spec.sections absFinS absStepS
  cases s.end_ with
  | none => exact (absNE_spec _ _ _).symm
  | some e => exact (absWE_spec _ _ _ _ _).symm

theorem rel_step {id : Nat} {s : SeqDef} {n : Nat} {i : Nat} {st st' : DSt} {A : ASt}
    {ids : List Nat} (hi : i < n) (hR : Rel id s n st A ids)
    (h : seqStep id s i st = .ok st') :
    ∃ ids', Rel id s n st' (absStepS s A i) ids' := by
  unfold absStepS
  cases he : s.end_ with
  | none => exact rel_stepNE he hR h
  | some e => exact rel_stepWE he hi hR h

theorem defStep_seq {d : Def} {s : SeqDef} {i : Nat} {st st' : DSt} {o : List Res}
    (hk : d.kind = .seq s) (hr : st.runnable = true) (h : defStep i d st = .ok (st', o)) :
    o = [] ∧ seqStep d.id s i st = .ok st' := by
  simp only [defStep, hr, if_true, hk, bind, Except.bind, pure, Except.pure] at h
  cases h1 : seqStep d.id s i st with
  | error e => simp [h1] at h
  | ok st1 =>
    simp [h1] at h
    simp [h.1, h.2]

theorem solo_rel {d : Def} {s : SeqDef} {n : Nat} (hk : d.kind = .seq s) :
    ∀ (lines : List Nat) (st : DSt) (A : ASt) (ids : List Nat) (stF : DSt) (out : List Res),
      (∀ i ∈ lines, i < n) → Rel d.id s n st A ids → soloLoop d st lines = .ok (stF, out) →
      out = [] ∧ ∃ ids', Rel d.id s n stF (lines.foldl (absStepS s) A) ids' := by
  intro lines
  induction lines with
  | nil =>
    intro st A ids stF out _ hR h
    simp [soloLoop, pure, Except.pure] at h
    obtain ⟨rfl, rfl⟩ := h
    exact ⟨rfl, ids, hR⟩
  | cons i is ih =>
    intro st A ids stF out hl hR h
    simp only [soloLoop, bind, Except.bind, pure, Except.pure] at h
    cases h1 : defStep i d st with
    | error e => simp [h1] at h
    | ok p1 =>
      obtain ⟨st1, o1⟩ := p1
      cases h2 : soloLoop d st1 is with
      | error e => simp [h1, h2] at h
      | ok p2 =>
        obtain ⟨st2, o2⟩ := p2
        simp [h1, h2] at h
        obtain ⟨rfl, rfl⟩ := h
        obtain ⟨ho1, hs1⟩ := defStep_seq hk hR.run h1
        obtain ⟨ids1, hR1⟩ := rel_step (hl i (by simp)) hR hs1
        obtain ⟨ho2, ids2, hR2⟩ := ih st1 _ ids1 st2 o2 (fun j hj => hl j (by simp [hj])) hR1 h2
        exact ⟨by simp [ho1, ho2], ids2, by simpa using hR2⟩

theorem rel_init (d : Def) (s : SeqDef) (n : Nat) (hc : d.cons = []) :
    Rel d.id s n (DSt.init d) ⟨[], none⟩ [] := by
  refine ⟨by simp [DSt.init, hc], rfl, by simp, by simp, by simp [DSt.init], by simp [DSt.init], ?_⟩
  simp [DSt.init, closedRender, openRender]

theorem rel_eof {d : Def} {s : SeqDef} {n : Nat} {st : DSt} {A : ASt} {ids : List Nat}
    {fin : List Res} (hk : d.kind = .seq s) (hR : Rel d.id s n st A ids)
    (h : eofDef n d st = .ok fin) :
    ∃ ids', ids'.Pairwise (· < ·) ∧ ids'.length = (absFinS s n A).length ∧
      fin.map Res.view = closedRender d.id s n (absFinS s n A) ids' := by
  obtain ⟨cl, o⟩ := A
  obtain ⟨hrun, hlen, hsorted, hlt, hstarted, hcur, hview⟩ := hR
  simp only at hlen hstarted hview
  cases o with
  | none =>
    have hst : st.started = false := by simpa using hstarted
    simp [eofDef, hk, hst, pure, Except.pure] at h
    subst h
    refine ⟨ids, hsorted, ?_, ?_⟩
    · unfold absFinS; cases s.end_ <;> simp [absFinWE, absFinNE, hlen]
    · unfold absFinS; cases s.end_ <;> simp [absFinWE, absFinNE, hview, openRender]
  | some ab =>
    obtain ⟨a, bs⟩ := ab
    have hst : st.started = true := by simpa using hstarted
    obtain ⟨hsec, hids⟩ := hcur hst
    have hsorted' : (ids ++ [st.sec]).Pairwise (· < ·) := by
      rw [List.pairwise_append]
      refine ⟨hsorted, by simp, ?_⟩
      intro k hk k' hk'
      simp at hk'
      subst hk'
      exact hids k hk
    unfold absFinS
    cases he : s.end_ with
    | none =>
      simp [eofDef, hk, hst, he, pure, Except.pure] at h
      subst h
      refine ⟨ids ++ [st.sec], hsorted', by simp [absFinNE, hlen], ?_⟩
      simp only [absFinNE]
      rw [closedRender_snoc _ _ _ _ _ _ _ hlen]
      simp [hview, openRender]
    | some e =>
      cases hem : e.emptyRes with
      | none =>
        simp [eofDef, hk, hst, he, hem, pure, Except.pure] at h
        subst h
        refine ⟨ids, hsorted, by simp [absFinWE, hlen, hem], ?_⟩
        simp only [absFinWE, hem, Option.isSome_none, Bool.false_eq_true, if_false]
        rw [filter_view, hview, filter_closed_open hids]
      | some m =>
        simp [eofDef, hk, hst, he, hem, bind, Except.bind, pure, Except.pure] at h
        cases hr : mkSeqRes d.id s "-end" e (n + 1) st.sec m with
        | error err => simp [hr] at h
        | ok r =>
          simp [hr] at h
          subst h
          refine ⟨ids ++ [st.sec], hsorted', by simp [absFinWE, hlen, hem], ?_⟩
          simp only [absFinWE, hem, Option.isSome_some, if_true]
          rw [closedRender_snoc _ _ _ _ _ _ _ hlen, render_close_eof he hem]
          simp [hview, openRender, mkSeqRes_view hr]

/-- **C03, single definition.**  A sequence definition with no per-search constraints, run
    alone over lines `0..n-1` and then through end-of-file processing, reports exactly the
    specified complete sections, in order, each under its own section id (the ids are
    strictly increasing, in particular pairwise distinct). -/
theorem seq_solo_spec_sorted (d : Def) (s : SeqDef) (hk : d.kind = .seq s) (hc : d.cons = [])
    (n : Nat) (stF : DSt) (out fin : List Res)
    (h1 : soloLoop d (DSt.init d) (List.range n) = .ok (stF, out))
    (h2 : eofDef n d stF = .ok fin) :
    out = [] ∧
    ∃ ids : List Nat, ids.Pairwise (· < ·) ∧ ids.length = (Spec.sections s n).length ∧
      fin.map Res.view =
        ((Spec.sections s n).zip ids).flatMap (fun p => renderSection d.id s n p.1 p.2) := by
  obtain ⟨ho, ids1, hR⟩ := solo_rel hk (List.range n) _ _ _ stF out
    (fun i hi => by simpa using hi) (rel_init d s n hc) h1
  obtain ⟨ids, hs, hl, hv⟩ := rel_eof hk hR h2
  rw [← sections_eq_abs] at hl hv
  exact ⟨ho, ids, hs, hl, hv⟩

theorem seq_solo_spec (d : Def) (s : SeqDef) (hk : d.kind = .seq s) (hc : d.cons = [])
    (n : Nat) (stF : DSt) (out fin : List Res)
    (h1 : soloLoop d (DSt.init d) (List.range n) = .ok (stF, out))
    (h2 : eofDef n d stF = .ok fin) :
    out = [] ∧
    ∃ ids : List Nat, ids.Nodup ∧ ids.length = (Spec.sections s n).length ∧
      fin.map Res.view =
        ((Spec.sections s n).zip ids).flatMap (fun p => renderSection d.id s n p.1 p.2) := by
  obtain ⟨ho, ids, hs, hl, hv⟩ := seq_solo_spec_sorted d s hk hc n stF out fin h1 h2
  exact ⟨ho, ids, hs.imp (fun h => Nat.ne_of_lt h), hl, hv⟩


/-! ### provenance of the results (ghost fields) -/

theorem mkSeqRes_src_sc {id : Nat} {s : SeqDef} {sfx : String} {sd : SDef} {ln sec : Nat}
    {m : Match} {r : Res} (h : mkSeqRes id s sfx sd ln sec m = .ok r) :
    r.src = id ∧ r.seqId = some id := by
  simp only [mkSeqRes, bind, Except.bind, pure, Except.pure] at h
  cases h1 : mkParts sd m with
  | error e => simp [h1] at h
  | ok ps =>
    simp [h1] at h
    subst h
    simp

theorem seqStep_src {id : Nat} {s : SeqDef} {i : Nat} {st st' : DSt}
    (hP : ∀ r ∈ st.seqRes, r.src = id ∧ r.seqId = some id)
    (h : seqStep id s i st = .ok st') :
    ∀ r ∈ st'.seqRes, r.src = id ∧ r.seqId = some id := by
  have key : ∀ (l : List Res) (v : Res) (sfx : String) (sd : SDef) (ln sec : Nat) (m : Match),
      (∀ r ∈ l, r.src = id ∧ r.seqId = some id) → mkSeqRes id s sfx sd ln sec m = .ok v →
      ∀ r ∈ l ++ [v], r.src = id ∧ r.seqId = some id := by
    intro l v sfx sd ln sec m hl hv r hr
    simp at hr
    rcases hr with hr | rfl
    · exact hl r hr
    · exact mkSeqRes_src_sc hv
  have hfil : ∀ k, ∀ r ∈ st.seqRes.filter (fun r => r.sec != some (id, k)),
      r.src = id ∧ r.seqId = some id := by
    intro k r hr
    exact hP r (List.mem_filter.mp hr).1
  cases he : s.end_ <;> cases hst : st.started <;> cases hs : s.start.run i <;>
    simp only [seqStep, he, hst, hs] at h <;>
    simp [bind, Except.bind, pure, Except.pure, hst] at h <;>
    (repeat' split at h) <;>
    (try cases h) <;>
    first
    | exact hP
    | exact key _ _ _ _ _ _ _ hP ‹_›
    | exact key _ _ _ _ _ _ _ (hfil _) ‹_›

theorem solo_src {d : Def} {s : SeqDef} {n : Nat} (hk : d.kind = .seq s) :
    ∀ (lines : List Nat) (st : DSt) (A : ASt) (ids : List Nat) (stF : DSt) (out : List Res),
      (∀ i ∈ lines, i < n) → Rel d.id s n st A ids →
      (∀ r ∈ st.seqRes, r.src = d.id ∧ r.seqId = some d.id) →
      soloLoop d st lines = .ok (stF, out) →
      ∀ r ∈ stF.seqRes, r.src = d.id ∧ r.seqId = some d.id := by
  intro lines
  induction lines with
  | nil =>
    intro st A ids stF out _ _ hP h
    simp [soloLoop, pure, Except.pure] at h
    obtain ⟨rfl, rfl⟩ := h
    exact hP
  | cons i is ih =>
    intro st A ids stF out hl hR hP h
    simp only [soloLoop, bind, Except.bind, pure, Except.pure] at h
    cases h1 : defStep i d st with
    | error e => simp [h1] at h
    | ok p1 =>
      obtain ⟨st1, o1⟩ := p1
      cases h2 : soloLoop d st1 is with
      | error e => simp [h1, h2] at h
      | ok p2 =>
        obtain ⟨st2, o2⟩ := p2
        simp [h1, h2] at h
        obtain ⟨rfl, rfl⟩ := h
        obtain ⟨_, hs1⟩ := defStep_seq hk hR.run h1
        obtain ⟨ids1, hR1⟩ := rel_step (hl i (by simp)) hR hs1
        exact ih st1 _ ids1 st2 o2 (fun j hj => hl j (by simp [hj])) hR1 (seqStep_src hP hs1) h2

theorem eof_src {d : Def} {s : SeqDef} {n : Nat} {st : DSt} {fin : List Res}
    (hk : d.kind = .seq s) (hP : ∀ r ∈ st.seqRes, r.src = d.id ∧ r.seqId = some d.id)
    (h : eofDef n d st = .ok fin) :
    ∀ r ∈ fin, r.src = d.id ∧ r.seqId = some d.id := by
  simp only [eofDef, hk] at h
  split at h
  · split at h
    · cases h; exact hP
    · split at h
      · simp only [bind, Except.bind, pure, Except.pure] at h
        split at h
        · cases h
        · cases h
          intro r hr
          simp at hr
          rcases hr with hr | rfl
          · exact hP r hr
          · exact mkSeqRes_src_sc ‹_›
      · cases h
        intro r hr
        exact hP r (List.mem_filter.mp hr).1
  · cases h; exact hP

/-- every reported result is attributed to the definition itself -/
theorem seq_solo_src (d : Def) (s : SeqDef) (hk : d.kind = .seq s) (hc : d.cons = [])
    (n : Nat) (stF : DSt) (out fin : List Res)
    (h1 : soloLoop d (DSt.init d) (List.range n) = .ok (stF, out))
    (h2 : eofDef n d stF = .ok fin) :
    ∀ r ∈ fin, r.src = d.id ∧ r.seqId = some d.id :=
  eof_src hk
    (solo_src hk (List.range n) _ _ _ stF out (fun i hi => by simpa using hi) (rel_init d s n hc)
      (by simp [DSt.init]) h1) h2


end Sk
