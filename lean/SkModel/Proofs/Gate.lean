/-
  SkModel.Proofs.Gate — helper lemmas for C07: the per-definition constraint gate.
  Before the activation line every line is skipped (under homogeneity); from the
  activation line on, the constrained definition runs exactly like the same
  definition without constraints.
-/
import SkModel.Proofs.TaskProj
import SkModel.Spec.Gate

namespace Sk

/-- the same definition object without its constraints -/
def Def.unconstrained (d : Def) : Def := { d with cons := [] }

/-- the parts of the per-definition state that survive gating -/
def DSt.core (st : DSt) := (st.started, st.cnt, st.sec, st.seqRes, st.everAdded)

namespace Gate

/-! ### `applySingleGo` -/

theorem go_allUndec : ∀ (l : List COut) (any all : Bool), (∀ c ∈ l, c = .undec) →
    applySingleGo l any all = (any, if l.isEmpty then all else false)
  | [], any, all, _ => by simp [applySingleGo]
  | c :: r, any, all, h => by
    have hc : c = .undec := h c (by simp)
    subst hc
    have hr := go_allUndec r any false (fun c hc => h c (by simp [hc]))
    simp only [applySingleGo, hr]
    cases r <;> simp

theorem go_fail : ∀ (l : List COut) (any all : Bool), (∀ c ∈ l, c ≠ .undec) →
    (∃ c ∈ l, c ≠ .pass) → applySingleGo l any all = (false, false)
  | [], _, _, _, h2 => by obtain ⟨c, hc, _⟩ := h2; cases hc
  | c :: r, any, all, h1, h2 => by
    cases c with
    | undec => exact absurd rfl (h1 .undec (by simp))
    | fail => simp [applySingleGo]
    | pass =>
      simp only [applySingleGo]
      apply go_fail r true all (fun c hc => h1 c (by simp [hc]))
      obtain ⟨c, hc, hne⟩ := h2
      simp only [List.mem_cons] at hc
      rcases hc with rfl | hc
      · exact absurd rfl hne
      · exact ⟨c, hc, hne⟩

theorem go_allPass : ∀ (l : List COut) (all : Bool), (∀ c ∈ l, c = .pass) → l ≠ [] →
    applySingleGo l true all = (true, all) ∧ ∀ any, applySingleGo l any all = (true, all)
  | [], _, _, hne => absurd rfl hne
  | c :: r, all, h, _ => by
    have hc : c = .pass := h c (by simp)
    subst hc
    cases r with
    | nil => simp [applySingleGo]
    | cons c' r' =>
      have := go_allPass (c' :: r') all (fun c hc => h c (by simp [hc])) (by simp)
      simp only [applySingleGo]
      exact ⟨this.1, fun _ => this.1⟩

/-! ### the gate on one line -/

theorem applySingle_allPass {cons : List (Nat → COut)} {i : Nat} (hne : cons ≠ [])
    (hp : Spec.allPass cons i = true) : applySingle (cons.map (fun c => c i)) = (true, true) := by
  unfold applySingle
  have hne' : cons.map (fun c => c i) ≠ [] := by simpa using hne
  have he : (cons.map (fun c => c i)).isEmpty = false := by
    cases cons with
    | nil => exact absurd rfl hne
    | cons _ _ => rfl
  rw [he]
  simp only [Bool.false_eq_true, if_false]
  refine (go_allPass _ true ?_ hne').2 false
  intro c hc
  simp only [List.mem_map] at hc
  obtain ⟨f, hf, rfl⟩ := hc
  simp only [Spec.allPass, List.all_eq_true] at hp
  simpa using hp f hf

theorem applySingle_skip {cons : List (Nat → COut)} {i : Nat} (hne : cons ≠ [])
    (hh : Spec.homogeneousAt cons i = true) (hp : Spec.allPass cons i = false) :
    applySingle (cons.map (fun c => c i)) = (false, false) := by
  unfold applySingle
  have he : (cons.map (fun c => c i)).isEmpty = false := by
    cases cons with
    | nil => exact absurd rfl hne
    | cons _ _ => rfl
  rw [he]
  simp only [Bool.false_eq_true, if_false]
  simp only [Spec.homogeneousAt, Bool.or_eq_true, List.all_eq_true] at hh
  rcases hh with hu | hd
  · rw [go_allUndec _ false true]
    · simp [he]
    · intro c hc
      simp only [List.mem_map] at hc
      obtain ⟨f, hf, rfl⟩ := hc
      simpa using hu f hf
  · apply go_fail
    · intro c hc
      simp only [List.mem_map] at hc
      obtain ⟨f, hf, rfl⟩ := hc
      simpa using hd f hf
    · have : ¬ (∀ f ∈ cons, (f i == COut.pass) = true) := by
        intro hall
        have : Spec.allPass cons i = true := by
          simp only [Spec.allPass, List.all_eq_true]; exact hall
        rw [hp] at this; cases this
      simp only [Classical.not_forall] at this
      obtain ⟨f, hf, hnp⟩ := this
      exact ⟨f i, List.mem_map.mpr ⟨f, hf, rfl⟩, by simpa using hnp⟩

theorem gate_skip {d : Def} {i : Nat} {st : DSt} (hr : st.runnable = false) (hne : d.cons ≠ [])
    (hh : Spec.homogeneousAt d.cons i = true) (hp : Spec.allPass d.cons i = false) :
    gate i d st = none := by
  simp [gate, hr, applySingle_skip hne hh hp]

theorem gate_activate {d : Def} {i : Nat} {st : DSt} (hr : st.runnable = false) (hne : d.cons ≠ [])
    (hp : Spec.allPass d.cons i = true) :
    gate i d st = some { st with runnable := true } := by
  simp [gate, hr, applySingle_allPass hne hp]

theorem defStep_skip {d : Def} {i : Nat} {st : DSt} (hr : st.runnable = false) (hne : d.cons ≠ [])
    (hh : Spec.homogeneousAt d.cons i = true) (hp : Spec.allPass d.cons i = false) :
    defStep i d st = .ok (st, []) := by
  rw [defStep_eq, gate_skip hr hne hh hp]; rfl

/-! ### the body does not look at the constraints and keeps `runnable` -/

theorem defBody_unc (i : Nat) (d : Def) (st : DSt) :
    defBody i d.unconstrained st = defBody i d st := rfl

theorem defStep_run {d : Def} {i : Nat} {st : DSt} (hr : st.runnable = true) :
    defStep i d st = defBody i d st := by
  rw [defStep_eq, gate_runnable hr]

theorem seqStep_runnable {id s i st st'} (h : seqStep id s i st = .ok st') :
    st'.runnable = st.runnable := by
  unfold seqStep at h
  cases hE : s.end_ <;> cases hS : st.started <;> cases hR : s.start.run i <;>
    simp [hE, hS, hR, pure_ok] at h
  all_goals (repeat' split at h)
  all_goals try simp only [map_ok, pure_ok] at h
  all_goals first
    | (subst h; rfl)
    | (obtain ⟨r, hr, rfl⟩ := h; rfl)

theorem defBody_runnable {i d st st' o} (h : defBody i d st = .ok (st', o)) :
    st'.runnable = st.runnable := by
  unfold defBody at h
  split at h
  · split at h
    · simp only [bind_ok, pure_ok, Prod.mk.injEq] at h
      obtain ⟨r, _, rfl, _⟩ := h; rfl
    · simp only [pure_ok, Prod.mk.injEq] at h
      obtain ⟨rfl, _⟩ := h; rfl
  · simp only [bind_ok, pure_ok, Prod.mk.injEq] at h
    obtain ⟨s', hs, rfl, _⟩ := h
    exact seqStep_runnable hs

/-! ### `soloLoop` -/

theorem solo_cons (d : Def) (st : DSt) (i : Nat) (is : List Nat) :
    soloLoop d st (i :: is) = (defStep i d st >>= fun p =>
      soloLoop d p.1 is >>= fun q => pure (q.1, p.2 ++ q.2)) := rfl

theorem solo_append (d : Def) : ∀ (xs ys : List Nat) (st : DSt),
    soloLoop d st (xs ++ ys) = (soloLoop d st xs >>= fun p =>
      soloLoop d p.1 ys >>= fun q => pure (q.1, p.2 ++ q.2))
  | [], ys, st => by
    simp only [List.nil_append, soloLoop, pure, Except.pure, bind, Except.bind]
    cases soloLoop d st ys <;> rfl
  | x :: xs, ys, st => by
    rw [List.cons_append, solo_cons, solo_cons]
    cases h1 : defStep x d st with
    | error e => rfl
    | ok p =>
      simp only [bind, Except.bind]
      have ih := solo_append d xs ys p.1
      simp only [bind, Except.bind] at ih
      rw [ih]
      cases h2 : soloLoop d p.1 xs with
      | error e => rfl
      | ok q =>
        simp only [pure, Except.pure]
        cases h3 : soloLoop d q.1 ys with
        | error e => rfl
        | ok r => simp [List.append_assoc]

/-- lines on which the gate rejects leave no trace -/
theorem solo_skip {d : Def} (hne : d.cons ≠ []) : ∀ (is : List Nat) (st : DSt),
    st.runnable = false →
    (∀ i ∈ is, Spec.homogeneousAt d.cons i = true ∧ Spec.allPass d.cons i = false) →
    soloLoop d st is = .ok (st, [])
  | [], st, _, _ => rfl
  | i :: is, st, hr, h => by
    have hi := h i (by simp)
    rw [solo_cons, defStep_skip hr hne hi.1 hi.2]
    simp only [bind, Except.bind]
    rw [solo_skip hne is st hr (fun j hj => h j (by simp [hj]))]
    rfl

/-- once runnable, the constrained definition runs like the unconstrained one -/
theorem solo_run (d : Def) : ∀ (is : List Nat) (st : DSt), st.runnable = true →
    soloLoop d st is = soloLoop d.unconstrained st is
  | [], _, _ => rfl
  | i :: is, st, hr => by
    rw [solo_cons, solo_cons, defStep_run hr, defStep_run (d := d.unconstrained) hr, defBody_unc]
    cases h1 : defBody i d st with
    | error e => rfl
    | ok p =>
      have hp : p.1.runnable = true := by
        have := defBody_runnable (st' := p.1) (o := p.2) h1
        rw [this, hr]
      simp only [bind, Except.bind]
      rw [solo_run d is p.1 hp]

/-- the activation line and everything after it -/
theorem solo_activate {d : Def} (hne : d.cons ≠ []) (a : Nat) (is : List Nat)
    (hp : Spec.allPass d.cons a = true) :
    soloLoop d (DSt.init d) (a :: is) =
      soloLoop d.unconstrained (DSt.init d.unconstrained) (a :: is) := by
  have hr : (DSt.init d).runnable = false := by
    simp only [DSt.init]
    cases h : d.cons with
    | nil => exact absurd h hne
    | cons _ _ => rfl
  have hinit : ({ DSt.init d with runnable := true } : DSt) = DSt.init d.unconstrained := by
    simp [DSt.init, Def.unconstrained]
  have hru : (DSt.init d.unconstrained).runnable = true := by
    simp [DSt.init, Def.unconstrained]
  rw [solo_cons, solo_cons, defStep_run hru, defStep_eq, gate_activate hr hne hp]
  simp only
  rw [hinit, defBody_unc]
  cases h1 : defBody a d (DSt.init d.unconstrained) with
  | error e => rfl
  | ok p =>
    have hp : p.1.runnable = true := by
      have := defBody_runnable (st' := p.1) (o := p.2) h1
      rw [this, hru]
    simp only [bind, Except.bind]
    rw [solo_run d is p.1 hp]

/-! ### the activation line -/

theorem activation_some {cons : List (Nat → COut)} {n a : Nat}
    (h : Spec.activation cons n = some a) :
    a < n ∧ Spec.allPass cons a = true ∧ ∀ i, i < a → Spec.allPass cons i = false := by
  unfold Spec.activation Spec.firstFrom at h
  rw [List.find?_eq_some_iff_append] at h
  obtain ⟨hp, as, bs, he, hb⟩ := h
  simp only [Nat.sub_zero] at he
  have hl : n = as.length + (bs.length + 1) := by
    have : (List.range' 0 n).length = (as ++ a :: bs).length := by rw [he]
    simpa using this
  have hlen : as.length = a := by
    have h1 : (List.range' 0 n)[as.length]? = some a := by
      rw [he]; simp
    rw [List.getElem?_range' (by omega)] at h1
    simp at h1; omega
  have han : a < n := by omega
  refine ⟨han, hp, ?_⟩
  intro i hi
  have hmem : i ∈ as := by
    have h2 : (List.range' 0 n)[i]? = some i := by
      rw [List.getElem?_range' (by omega)]
      simp
    rw [he, List.getElem?_append_left (by omega)] at h2
    exact List.mem_of_getElem? h2
  have := hb i hmem
  simpa using this

theorem activation_none {cons : List (Nat → COut)} {n : Nat}
    (h : Spec.activation cons n = none) : ∀ i, i < n → Spec.allPass cons i = false := by
  unfold Spec.activation Spec.firstFrom at h
  rw [List.find?_eq_none] at h
  intro i hi
  have := h i (by simp [List.mem_range']; omega)
  simpa using this

theorem range_split (a n : Nat) (h : a ≤ n) :
    List.range n = List.range a ++ List.range' a (n - a) := by
  rw [List.range_eq_range', List.range_eq_range']
  have := List.range'_append_1 (s := 0) (m := a) (n := n - a)
  simp only [Nat.zero_add] at this
  rw [this]
  congr 1; omega

end Gate

end Sk
