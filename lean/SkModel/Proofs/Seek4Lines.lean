/-
  SkModel.Proofs.Seek4Lines — helper facts for C04 about lines of a file:
  line starts, `Spec.lineStart` / `Spec.lineEnd`, the bound on line lengths given by
  `Spec.longestLine`, and the running count of undated lines behind
  `Spec.longestUndatedRun`.
-/
import SkModel.Theorems.C11

namespace Sk.C04
open Sk Sk.SeekL1

/-- `s` is the first byte of a line a reader sees (`s ∈ Spec.lineStarts F`) -/
def IsStart (F : FileV) (s : Nat) : Prop := s < F.len ∧ (s = 0 ∨ F.isLF (s - 1) = true)

theorem mem_lineStarts (F : FileV) (s : Nat) : s ∈ Spec.lineStarts F ↔ IsStart F s := by
  simp [Spec.lineStarts, IsStart, List.mem_filter, List.mem_range]

/-- all line starts in `[a, b)` are undated -/
def Und (F : FileV) (ts : Nat → Option Int) (a b : Nat) : Prop :=
  ∀ s, a ≤ s → s < b → IsStart F s → ts s = none

/-- H4 in the form the proof uses: empty lines and the position `len` are undated -/
def TsOk (F : FileV) (ts : Nat → Option Int) : Prop :=
  (∀ s, IsStart F s → F.isLF s = true → ts s = none) ∧ ts F.len = none

theorem tsOk_of_shape (F : FileV) (ts : Nat → Option Int)
    (h : ∀ o d, ts o = some d → o < F.len ∧ F.isLF o = false) : TsOk F ts := by
  refine ⟨?_, ?_⟩
  · intro s _ hlf
    cases hd : ts s with
    | none => rfl
    | some d => have := (h s d hd).2; rw [hlf] at this; cases this
  · cases hd : ts F.len with
    | none => rfl
    | some d => have := (h _ d hd).1; omega

/-! ### `lineStart` -/

theorem lineStart_succ (F : FileV) (n : Nat) :
    Spec.lineStart F (n + 1) = if n < F.len && F.isLF n then n + 1 else Spec.lineStart F n := by
  unfold Spec.lineStart
  rw [Spec.lastLFBefore]
  by_cases hc : (n < F.len && F.isLF n) = true
  · simp only [hc, if_true]
  · simp only [hc]
    simp

theorem lineStart_props (F : FileV) (o : Nat) :
    Spec.lineStart F o ≤ o ∧
    (Spec.lineStart F o = 0 ∨
      (1 ≤ Spec.lineStart F o ∧ Spec.lineStart F o - 1 < F.len ∧
        F.isLF (Spec.lineStart F o - 1) = true)) ∧
    ∀ j, Spec.lineStart F o ≤ j → j < o → ¬(j < F.len ∧ F.isLF j = true) := by
  unfold Spec.lineStart
  cases h : Spec.lastLFBefore F o with
  | some i =>
    obtain ⟨h1, h2, h3, h4⟩ := lastLFBefore_some h
    refine ⟨by simp only []; omega, Or.inr ⟨by simp only []; omega, by simpa using h2, by simpa using h3⟩, ?_⟩
    intro j hj1 hj2
    exact h4 j (by simp only [] at hj1; omega) hj2
  | none =>
    refine ⟨Nat.zero_le _, Or.inl rfl, ?_⟩
    intro j _ hj2
    exact lastLFBefore_none h j hj2

theorem lineStart_unique (F : FileV) (o s : Nat) (h1 : s ≤ o)
    (h2 : s = 0 ∨ (1 ≤ s ∧ s - 1 < F.len ∧ F.isLF (s - 1) = true))
    (h3 : ∀ j, s ≤ j → j < o → ¬(j < F.len ∧ F.isLF j = true)) :
    Spec.lineStart F o = s := by
  obtain ⟨p1, p2, p3⟩ := lineStart_props F o
  by_cases hlt : Spec.lineStart F o < s
  · rcases h2 with h2 | ⟨h2, h2', h2''⟩
    · omega
    · exact absurd ⟨h2', h2''⟩ (p3 (s - 1) (by omega) (by omega))
  · by_cases hgt : s < Spec.lineStart F o
    · rcases p2 with p2 | ⟨p2, p2', p2''⟩
      · omega
      · exact absurd ⟨p2', p2''⟩ (h3 (Spec.lineStart F o - 1) (by omega) (by omega))
    · omega

theorem lineStart_isStart (F : FileV) (o : Nat) (ho : o < F.len) :
    IsStart F (Spec.lineStart F o) := by
  obtain ⟨p1, p2, _⟩ := lineStart_props F o
  refine ⟨by omega, ?_⟩
  rcases p2 with p2 | ⟨_, _, p2⟩
  · exact Or.inl p2
  · exact Or.inr p2

theorem lineStart_self (F : FileV) (s : Nat) (h : IsStart F s) : Spec.lineStart F s = s := by
  apply lineStart_unique F s s (Nat.le_refl _)
  · rcases h.2 with h2 | h2
    · exact Or.inl h2
    · by_cases h0 : s = 0
      · exact Or.inl h0
      · exact Or.inr ⟨by omega, by have := h.1; omega, h2⟩
  · intro j h1 h2; omega

theorem lineStart_mono (F : FileV) (a b : Nat) (h : a ≤ b) :
    Spec.lineStart F a ≤ Spec.lineStart F b := by
  obtain ⟨p1, p2, p3⟩ := lineStart_props F a
  obtain ⟨q1, q2, q3⟩ := lineStart_props F b
  by_cases hlt : Spec.lineStart F b < Spec.lineStart F a
  · rcases p2 with p2 | ⟨p2, p2', p2''⟩
    · omega
    · exact absurd ⟨p2', p2''⟩ (q3 (Spec.lineStart F a - 1) (by omega) (by omega))
  · omega

/-- a line start `s ≤ o` is at most the start of the line containing `o` -/
theorem start_le_lineStart (F : FileV) (s o : Nat) (hs : IsStart F s) (h : s ≤ o) :
    s ≤ Spec.lineStart F o := by
  have := lineStart_mono F s o h
  rw [lineStart_self F s hs] at this
  exact this

/-! ### the tokens the lookups return -/

theorem specSlf_cases (F : FileV) (o : Nat) :
    (specSlf F o = .edge 0 ∧ Spec.lineStart F o = 0) ∨
    (∃ q : Nat, specSlf F o = .found (q : Int) ∧ Spec.lineStart F o = q + 1 ∧ q < o ∧
      q < F.len ∧ F.isLF q = true) := by
  unfold specSlf Spec.lineStart
  cases h : Spec.lastLFBefore F o with
  | none => exact Or.inl ⟨rfl, rfl⟩
  | some q =>
    obtain ⟨h1, h2, h3, _⟩ := lastLFBefore_some h
    exact Or.inr ⟨q, rfl, rfl, h1, h2, h3⟩

theorem specElf_cases (F : FileV) (o : Nat) :
    (specElf F o = .edge (F.len : Int) ∧ ∀ j, o ≤ j → ¬(j < F.len ∧ F.isLF j = true)) ∨
    (∃ e : Nat, specElf F o = .found (e : Int) ∧ o ≤ e ∧ e < F.len ∧ F.isLF e = true ∧
      ∀ j, o ≤ j → j < e → ¬(j < F.len ∧ F.isLF j = true)) := by
  unfold specElf
  cases h : Spec.firstLFFrom F o (F.len - o) with
  | none =>
    refine Or.inl ⟨rfl, ?_⟩
    intro j hj hc
    exact firstLFFrom_none h j hj (by omega) hc
  | some e =>
    obtain ⟨h1, _, h3, h4, h5⟩ := firstLFFrom_some h
    exact Or.inr ⟨e, rfl, h1, h3, h4, h5⟩

/-! ### `Spec.longestLine` bounds every line -/

def llStep (F : FileV) (acc : Nat × Nat) (i : Nat) : Nat × Nat :=
  if i < F.len && F.isLF i then (0, max acc.2 acc.1)
  else if i = F.len then (0, max acc.2 acc.1) else (acc.1 + 1, acc.2)

def llAcc (F : FileV) (n : Nat) : Nat × Nat := (List.range n).foldl (llStep F) (0, 0)

theorem longestLine_eq (F : FileV) : Spec.longestLine F = (llAcc F (F.len + 1)).2 := rfl

theorem llAcc_succ (F : FileV) (n : Nat) : llAcc F (n + 1) = llStep F (llAcc F n) n := by
  unfold llAcc
  rw [List.range_succ, List.foldl_append]
  rfl

theorem llAcc_fst (F : FileV) (n : Nat) (hn : n ≤ F.len) :
    (llAcc F n).1 = n - Spec.lineStart F n := by
  induction n with
  | zero => rfl
  | succ n ih =>
    rw [llAcc_succ, lineStart_succ]
    unfold llStep
    have p := (lineStart_props F n).1
    by_cases hc : (n < F.len && F.isLF n) = true
    · simp only [hc, if_true]; omega
    · have hne : ¬ n = F.len := by omega
      simp only [hc, hne, if_false, ih (by omega)]
      simp only [Bool.false_eq_true, if_false]
      omega

theorem llAcc_snd_mono (F : FileV) (n m : Nat) (h : n ≤ m) : (llAcc F n).2 ≤ (llAcc F m).2 := by
  induction m with
  | zero => have : n = 0 := by omega
            subst this; exact Nat.le_refl _
  | succ m ih =>
    by_cases hnm : n = m + 1
    · subst hnm; exact Nat.le_refl _
    · have := ih (by omega)
      rw [llAcc_succ]
      unfold llStep
      split
      · simp only []; omega
      · split
        · simp only []; omega
        · exact this

theorem llAcc_end (F : FileV) (e : Nat) (he : (e < F.len ∧ F.isLF e = true) ∨ e = F.len) :
    (llAcc F e).1 ≤ (llAcc F (e + 1)).2 := by
  rw [llAcc_succ]
  unfold llStep
  rcases he with ⟨h1, h2⟩ | h
  · have : (e < F.len && F.isLF e) = true := by simp [h1, h2]
    simp only [this, if_true]; omega
  · split
    · simp only []; omega
    · simp only [h]; omega

/-- H3 in usable form: the line containing `o` has at most `longestLine` bytes before its
    line feed -/
theorem short_line (F : FileV) (o : Nat) (ho : o ≤ F.len) :
    Spec.lineEnd F o - Spec.lineStart F o ≤ Spec.longestLine F := by
  have hle := le_lineEnd F o ho
  -- the end of the line is a line feed or the end of the file
  have hend : (Spec.lineEnd F o < F.len ∧ F.isLF (Spec.lineEnd F o) = true) ∨
      Spec.lineEnd F o = F.len := by
    unfold Spec.lineEnd
    cases h : Spec.firstLFFrom F o (F.len - o) with
    | none => right; rfl
    | some j => left; have := firstLFFrom_some h; exact ⟨this.2.2.1, this.2.2.2.1⟩
  have hno : ∀ j, o ≤ j → j < Spec.lineEnd F o → ¬(j < F.len ∧ F.isLF j = true) := by
    unfold Spec.lineEnd
    cases h : Spec.firstLFFrom F o (F.len - o) with
    | none =>
      intro j h1 h2 hc
      simp only [Option.getD_none] at h2
      exact firstLFFrom_none h j h1 (by omega) hc
    | some e =>
      intro j h1 h2
      simp only [Option.getD_some] at h2
      exact (firstLFFrom_some h).2.2.2.2 j h1 h2
  obtain ⟨p1, p2, p3⟩ := lineStart_props F o
  have hsame : Spec.lineStart F (Spec.lineEnd F o) = Spec.lineStart F o := by
    apply lineStart_unique F _ _ (by omega)
    · rcases p2 with p2 | p2
      · exact Or.inl p2
      · exact Or.inr p2
    · intro j h1 h2
      by_cases hj : j < o
      · exact p3 j h1 hj
      · exact hno j (by omega) h2
  have h1 := llAcc_fst F (Spec.lineEnd F o) hle.2
  have h2 := llAcc_end F (Spec.lineEnd F o) hend
  have h3 := llAcc_snd_mono F (Spec.lineEnd F o + 1) (F.len + 1) (by omega)
  rw [longestLine_eq]
  rw [hsame] at h1
  omega

/-! ### the running count of undated lines -/

def runStep (ts : Nat → Option Int) (acc : Nat × Nat) (s : Nat) : Nat × Nat :=
  if (ts s).isSome then (0, acc.2) else (acc.1 + 1, max acc.2 (acc.1 + 1))

def runAcc (F : FileV) (ts : Nat → Option Int) (n : Nat) : Nat × Nat :=
  ((List.range n).filter fun s => s = 0 || F.isLF (s - 1)).foldl (runStep ts) (0, 0)

theorem longestUndatedRun_eq (F : FileV) (ts : Nat → Option Int) :
    Spec.longestUndatedRun F ts = (runAcc F ts F.len).2 := rfl

theorem runAcc_succ (F : FileV) (ts : Nat → Option Int) (n : Nat) :
    runAcc F ts (n + 1) =
      if (n = 0 || F.isLF (n - 1)) = true then runStep ts (runAcc F ts n) n
      else runAcc F ts n := by
  unfold runAcc
  rw [List.range_succ, List.filter_append, List.foldl_append]
  by_cases hc : (n = 0 || F.isLF (n - 1)) = true
  · simp only [hc, if_true, List.filter_cons, List.filter_nil, List.foldl_cons, List.foldl_nil]
  · simp [hc]

/-- number of consecutive undated line starts immediately before position `n` -/
def U (F : FileV) (ts : Nat → Option Int) (n : Nat) : Nat := (runAcc F ts n).1

theorem U_succ_start (F : FileV) (ts : Nat → Option Int) (s : Nat) (hs : IsStart F s)
    (hu : ts s = none) : U F ts (s + 1) = U F ts s + 1 := by
  unfold U
  rw [runAcc_succ]
  have : (s = 0 || F.isLF (s - 1)) = true := by
    rcases hs.2 with h | h <;> simp [h]
  simp only [this, if_true]
  unfold runStep
  simp [hu]

theorem U_succ_le (F : FileV) (ts : Nat → Option Int) (n : Nat) (hn : n < F.len)
    (hu : IsStart F n → ts n = none) : U F ts n ≤ U F ts (n + 1) := by
  unfold U
  rw [runAcc_succ]
  by_cases hc : (n = 0 || F.isLF (n - 1)) = true
  · have hs : IsStart F n := by
      refine ⟨hn, ?_⟩
      simpa using hc
    simp only [hc, if_true]
    unfold runStep
    simp [hu hs]
  · simp only [hc]; exact Nat.le_refl _

theorem U_le_of_und (F : FileV) (ts : Nat → Option Int) (a b : Nat) (hab : a ≤ b)
    (hb : b ≤ F.len) (hu : Und F ts a b) : U F ts a ≤ U F ts b := by
  induction b with
  | zero => have : a = 0 := by omega
            subst this; exact Nat.le_refl _
  | succ b ih =>
    by_cases hab' : a = b + 1
    · subst hab'; exact Nat.le_refl _
    · have h1 := ih (by omega) (by omega) (fun s h1 h2 h3 => hu s h1 (by omega) h3)
      have h2 := U_succ_le F ts b (by omega) (fun hs => hu b (by omega) (by omega) hs)
      omega

theorem runAcc_fst_le_snd (F : FileV) (ts : Nat → Option Int) (n : Nat) :
    (runAcc F ts n).1 ≤ (runAcc F ts n).2 := by
  induction n with
  | zero => exact Nat.le_refl _
  | succ n ih =>
    rw [runAcc_succ]
    split
    · unfold runStep
      split
      · simp only []; omega
      · simp only []; omega
    · exact ih

theorem runAcc_snd_mono (F : FileV) (ts : Nat → Option Int) (n m : Nat) (h : n ≤ m) :
    (runAcc F ts n).2 ≤ (runAcc F ts m).2 := by
  induction m with
  | zero => have : n = 0 := by omega
            subst this; exact Nat.le_refl _
  | succ m ih =>
    by_cases hnm : n = m + 1
    · subst hnm; exact Nat.le_refl _
    · have := ih (by omega)
      rw [runAcc_succ]
      split
      · unfold runStep
        split
        · simp only []; omega
        · simp only []; omega
      · exact this

/-- H2 in usable form -/
theorem U_le_run (F : FileV) (ts : Nat → Option Int) (n : Nat) (hn : n ≤ F.len) :
    U F ts n ≤ Spec.longestUndatedRun F ts := by
  have h1 := runAcc_fst_le_snd F ts n
  have h2 := runAcc_snd_mono F ts n F.len hn
  rw [longestUndatedRun_eq]
  unfold U
  omega

end Sk.C04
