/-
  SkModel.Proofs.RunnerLemmas — helper lemmas about `SkModel.Runner`:
  the worker pool invariant, `executeAll`, and the simulation between a task started from
  fresh definition objects (`runTask`) and from objects that carry state (`runTaskFrom`).
-/
import SkModel.Runner
import SkModel.Proofs.TaskProj

namespace Sk.Run
open Sk

/-! ### generic list facts -/

theorem nodup_bound : ∀ (n : Nat) (l : List Nat), l.Nodup → (∀ x ∈ l, x < n) → l.length ≤ n
  | 0, l, _, h => by
    cases l with
    | nil => simp
    | cons a as => exact absurd (h a (by simp)) (by omega)
  | n + 1, l, hd, h => by
    by_cases hm : n ∈ l
    · have ih := nodup_bound n (l.erase n) (hd.erase n) (by
        intro x hx
        have := (hd.mem_erase_iff).mp hx
        have := h x this.2
        omega)
      rw [List.length_erase_of_mem hm] at ih
      omega
    · have ih := nodup_bound n l hd (by
        intro x hx
        have := h x hx
        have : x ≠ n := fun e => hm (e ▸ hx)
        omega)
      omega

theorem nodup_eraseDups : ∀ (k : Nat) (l : List Nat), l.length ≤ k → l.eraseDups.Nodup
  | _, [], _ => by simp
  | 0, _ :: _, h => by simp at h
  | k + 1, a :: as, h => by
    rw [List.eraseDups_cons, List.nodup_cons]
    have hl : (as.filter fun b => !b == a).length ≤ k := by
      have := List.length_filter_le (fun b => !b == a) as
      simp only [List.length_cons] at h
      omega
    refine ⟨?_, nodup_eraseDups k _ hl⟩
    intro hm
    rw [List.mem_eraseDups, List.mem_filter] at hm
    simp at hm

/-! ### the worker pool -/

/-- invariant of the pool transition system for `n` workers and the submitted `tasks` -/
structure PoolInv (n : Nat) (tasks : List Nat) (s : PoolSt) : Prop where
  once : (s.finished.map (·.2) ++ s.busy.map (·.2) ++ s.pending).Perm tasks
  busyLt : ∀ e ∈ s.busy, e.1 < n
  finLt : ∀ e ∈ s.finished, e.1 < n
  busyNodup : (s.busy.map (·.1)).Nodup

theorem PoolInv.init (n : Nat) (tasks : List Nat) :
    PoolInv n tasks { pending := tasks, busy := [], finished := [] } :=
  ⟨by simp, by simp, by simp, by simp⟩

theorem filter_ne_of_not_mem (w : Nat) : ∀ (l : List (Nat × Nat)), w ∉ l.map (·.1) →
    l.filter (fun x => x.1 != w) = l
  | [], _ => rfl
  | x :: xs, h => by
    simp only [List.map_cons, List.mem_cons, not_or] at h
    have hx : (x.1 != w) = true := by simp [Ne.symm h.1]
    simp only [List.filter_cons, hx, if_true]
    rw [filter_ne_of_not_mem w xs h.2]

theorem find_perm (w : Nat) : ∀ (l : List (Nat × Nat)) (e : Nat × Nat), (l.map (·.1)).Nodup →
    l.find? (·.1 == w) = some e →
    e.1 = w ∧ e ∈ l ∧ l.Perm (e :: l.filter (fun x => x.1 != w))
  | [], _, _, h => by simp at h
  | x :: xs, e, hd, h => by
    simp only [List.map_cons, List.nodup_cons] at hd
    by_cases hx : x.1 = w
    · have hb : (x.1 == w) = true := by simp [hx]
      simp only [List.find?_cons, hb, Option.some.injEq] at h
      subst h
      refine ⟨hx, by simp, ?_⟩
      have hb' : (x.1 != w) = false := by simp [hx]
      simp only [List.filter_cons, hb']
      rw [filter_ne_of_not_mem w xs (hx ▸ hd.1)]
      exact List.Perm.refl _
    · have hb : (x.1 == w) = false := by simp [hx]
      simp only [List.find?_cons, hb] at h
      obtain ⟨h1, h2, h3⟩ := find_perm w xs e hd.2 h
      refine ⟨h1, by simp [h2], ?_⟩
      have hb' : (x.1 != w) = true := by simp [hx]
      simp only [List.filter_cons, hb', if_true]
      exact (List.Perm.cons x h3).trans (List.Perm.swap e x _)

theorem poolStep_inv {n tasks s l s'} (hi : PoolInv n tasks s) (h : poolStep n s l = some s') :
    PoolInv n tasks s' := by
  cases l with
  | take w =>
    simp only [poolStep] at h
    split at h
    · rename_i hc
      obtain ⟨hw, hidle⟩ := hc
      cases hp : s.pending with
      | nil => simp [hp] at h
      | cons t rest =>
        simp only [hp, Option.some.injEq] at h
        subst h
        refine ⟨?_, ?_, hi.finLt, ?_⟩
        · have := hi.once
          rw [hp] at this
          simp only [List.map_cons, List.append_assoc] at this ⊢
          refine List.Perm.trans ?_ this
          refine List.Perm.append_left _ ?_
          simp only [List.cons_append]
          exact List.perm_middle.symm
        · intro e he
          simp only [List.mem_cons] at he
          rcases he with rfl | he
          · exact hw
          · exact hi.busyLt e he
        · simp only [List.map_cons, List.nodup_cons]
          refine ⟨?_, hi.busyNodup⟩
          intro hm
          simp only [List.mem_map] at hm
          obtain ⟨e, he, hew⟩ := hm
          simp only [Bool.not_eq_true', List.any_eq_false] at hidle
          have := hidle e he
          simp [hew] at this
    · cases h
  | finish w =>
    simp only [poolStep] at h
    cases hf : s.busy.find? (·.1 == w) with
    | none => simp [hf] at h
    | some e =>
      simp only [hf, Option.some.injEq] at h
      subst h
      obtain ⟨h1, h2, h3⟩ := find_perm w s.busy e hi.busyNodup hf
      refine ⟨?_, ?_, ?_, ?_⟩
      · refine List.Perm.trans ?_ hi.once
        simp only [List.map_cons, List.append_assoc, List.cons_append]
        have h4 : (s.busy.map (·.2)).Perm (e.2 :: (s.busy.filter (fun x => x.1 != w)).map (·.2)) := by
          have := h3.map (·.2)
          simpa using this
        refine List.Perm.trans List.perm_middle.symm ?_
        refine List.Perm.append_left _ ?_
        simp only [← List.cons_append]
        exact List.Perm.append_right _ h4.symm
      · intro x hx
        exact hi.busyLt x (List.mem_filter.mp hx).1
      · intro x hx
        simp only [List.mem_cons] at hx
        rcases hx with rfl | hx
        · exact hi.busyLt _ h2
        · exact hi.finLt x hx
      · exact List.Nodup.sublist (List.Sublist.map _ List.filter_sublist) hi.busyNodup

theorem poolRun_inv {n tasks} : ∀ {ls s s'}, PoolInv n tasks s → poolRun n s ls = some s' →
    PoolInv n tasks s'
  | [], s, s', hi, h => by
    simp only [poolRun, Option.some.injEq] at h
    exact h ▸ hi
  | l :: ls, s, s', hi, h => by
    simp only [poolRun] at h
    cases hs : poolStep n s l with
    | none => simp [hs] at h
    | some s1 =>
      simp only [hs] at h
      exact poolRun_inv (poolStep_inv hi hs) h

def poolMeasure (s : PoolSt) : Nat := 2 * s.pending.length + s.busy.length

theorem poolStep_measure {n s l s'} (h : poolStep n s l = some s') :
    poolMeasure s' < poolMeasure s := by
  cases l with
  | take w =>
    simp only [poolStep] at h
    split at h
    · cases hp : s.pending with
      | nil => simp [hp] at h
      | cons t rest =>
        simp only [hp, Option.some.injEq] at h
        subst h
        simp only [poolMeasure, hp, List.length_cons]
        omega
    · cases h
  | finish w =>
    simp only [poolStep] at h
    cases hf : s.busy.find? (·.1 == w) with
    | none => simp [hf] at h
    | some e =>
      simp only [hf, Option.some.injEq] at h
      subst h
      have hmem := List.mem_of_find?_eq_some hf
      have hp := List.find?_some hf
      have : (s.busy.filter (fun x => x.1 != w)).length < s.busy.length := by
        rw [List.length_filter_lt_length_iff_exists]
        exact ⟨e, hmem, by simpa using hp⟩
      simp only [poolMeasure]
      omega

theorem poolStep_progress {n s} (hn : 1 ≤ n) (h : s.pending ≠ [] ∨ s.busy ≠ []) :
    ∃ l s', poolStep n s l = some s' := by
  cases hb : s.busy with
  | cons e es =>
    refine ⟨.finish e.1, ?_⟩
    simp [poolStep, hb]
  | nil =>
    cases hp : s.pending with
    | nil => simp [hb, hp] at h
    | cons t rest =>
      refine ⟨.take 0, ?_⟩
      have : 0 < n := by omega
      simp [poolStep, hb, hp, this]

/-! ### `execute` / `executeAll` -/

theorem execute_stats {j : FileJob} {rs : List Res} {st : Stats} (h : execute j = .ok (rs, st)) :
    st.results = rs.length ∧ st.lines = (if j.empty then 0 else j.task.n) := by
  unfold execute at h
  split at h
  · rename_i he
    cases h
    simp [he]
  · rename_i he
    have := runTask_stats _ _ _ h
    simp [he, this.1, this.2]

theorem executeAll_sums : ∀ {jobs : List FileJob} {outs : List (List Res × Stats)},
    executeAll jobs = .ok outs →
    outs.length = jobs.length ∧
    (outs.map (·.2.results)).sum = ((outs.map (·.1)).map List.length).sum ∧
    (outs.map (·.2.lines)).sum = (jobs.map fun j => if j.empty then 0 else j.task.n).sum ∧
    ∀ k (hk : k < jobs.length), ∃ rs stk, execute jobs[k] = .ok (rs, stk) ∧
      (outs.map (·.1))[k]? = some rs
  | [], outs, h => by
    simp only [executeAll, Except.ok.injEq] at h
    subst h; simp
  | j :: js, outs, h => by
    simp only [executeAll, bind_ok, pure_ok] at h
    obtain ⟨⟨rs, st⟩, h1, os, h2, rfl⟩ := h
    obtain ⟨i1, i2, i3, i4⟩ := executeAll_sums h2
    have hs := execute_stats h1
    refine ⟨by simp [i1], ?_, ?_, ?_⟩
    · simp only [List.map_cons, List.sum_cons, i2, hs.1]
    · simp only [List.map_cons, List.sum_cons, i3, hs.2]
    · intro k hk
      cases k with
      | zero => exact ⟨rs, st, h1, by simp⟩
      | succ k =>
        simp only [List.length_cons, Nat.add_lt_add_iff_right] at hk
        obtain ⟨rs', st', g1, g2⟩ := i4 k hk
        exact ⟨rs', st', by simpa using g1, by simpa using g2⟩

end Sk.Run
