/-
  SkModel.Proofs.RunnerLemmas — helper lemmas about `SkModel.Runner`:
  the worker pool invariant, `executeAll`, and the simulation between a task started from
  fresh definition objects (`runTask`) and from objects that carry state (`runTaskFrom`).
-/
import SkModel.Runner
import SkModel.Proofs.TaskProj

namespace Sk.Run
open Sk

/-! ### generic list facts -/

theorem nodup_bound : ∀ (n : Nat) (l : List Nat), l.Nodup → (∀ x ∈ l, x < n) → l.length ≤ n
  | 0, l, _, h => by
    cases l with
    | nil => simp
    | cons a as => exact absurd (h a (by simp)) (by omega)
  | n + 1, l, hd, h => by
    by_cases hm : n ∈ l
    · have ih := nodup_bound n (l.erase n) (hd.erase n) (by
        intro x hx
        have := (hd.mem_erase_iff).mp hx
        have := h x this.2
        omega)
      rw [List.length_erase_of_mem hm] at ih
      omega
    · have ih := nodup_bound n l hd (by
        intro x hx
        have := h x hx
        have : x ≠ n := fun e => hm (e ▸ hx)
        omega)
      omega

theorem nodup_eraseDups : ∀ (k : Nat) (l : List Nat), l.length ≤ k → l.eraseDups.Nodup
  | _, [], _ => by simp
  | 0, _ :: _, h => by simp at h
  | k + 1, a :: as, h => by
    rw [List.eraseDups_cons, List.nodup_cons]
    have hl : (as.filter fun b => !b == a).length ≤ k := by
      have := List.length_filter_le (fun b => !b == a) as
      simp only [List.length_cons] at h
      omega
    refine ⟨?_, nodup_eraseDups k _ hl⟩
    intro hm
    rw [List.mem_eraseDups, List.mem_filter] at hm
    simp at hm

/-! ### the worker pool -/

/-- invariant of the pool transition system for `n` workers and the submitted `tasks` -/
structure PoolInv (n : Nat) (tasks : List Nat) (s : PoolSt) : Prop where
  once : (s.finished.map (·.2) ++ s.busy.map (·.2) ++ s.pending).Perm tasks
  busyLt : ∀ e ∈ s.busy, e.1 < n
  finLt : ∀ e ∈ s.finished, e.1 < n
  busyNodup : (s.busy.map (·.1)).Nodup

theorem PoolInv.init (n : Nat) (tasks : List Nat) :
    PoolInv n tasks { pending := tasks, busy := [], finished := [] } :=
  ⟨by simp, by simp, by simp, by simp⟩

theorem filter_ne_of_not_mem (w : Nat) : ∀ (l : List (Nat × Nat)), w ∉ l.map (·.1) →
    l.filter (fun x => x.1 != w) = l
  | [], _ => rfl
  | x :: xs, h => by
    simp only [List.map_cons, List.mem_cons, not_or] at h
    have hx : (x.1 != w) = true := by simp [Ne.symm h.1]
    simp only [List.filter_cons, hx, if_true]
    rw [filter_ne_of_not_mem w xs h.2]

theorem find_perm (w : Nat) : ∀ (l : List (Nat × Nat)) (e : Nat × Nat), (l.map (·.1)).Nodup →
    l.find? (·.1 == w) = some e →
    e.1 = w ∧ e ∈ l ∧ l.Perm (e :: l.filter (fun x => x.1 != w))
  | [], _, _, h => by simp at h
  | x :: xs, e, hd, h => by
    simp only [List.map_cons, List.nodup_cons] at hd
    by_cases hx : x.1 = w
    · have hb : (x.1 == w) = true := by simp [hx]
      simp only [List.find?_cons, hb, Option.some.injEq] at h
      subst h
      refine ⟨hx, by simp, ?_⟩
      have hb' : (x.1 != w) = false := by simp [hx]
      simp only [List.filter_cons, hb']
      rw [filter_ne_of_not_mem w xs (hx ▸ hd.1)]
      exact List.Perm.refl _
    · have hb : (x.1 == w) = false := by simp [hx]
      simp only [List.find?_cons, hb] at h
      obtain ⟨h1, h2, h3⟩ := find_perm w xs e hd.2 h
      refine ⟨h1, by simp [h2], ?_⟩
      have hb' : (x.1 != w) = true := by simp [hx]
      simp only [List.filter_cons, hb', if_true]
      exact (List.Perm.cons x h3).trans (List.Perm.swap e x _)

theorem poolStep_inv {n tasks s l s'} (hi : PoolInv n tasks s) (h : poolStep n s l = some s') :
    PoolInv n tasks s' := by
  cases l with
  | take w =>
    simp only [poolStep] at h
    split at h
    · rename_i hc
      obtain ⟨hw, hidle⟩ := hc
      cases hp : s.pending with
      | nil => simp [hp] at h
      | cons t rest =>
        simp only [hp, Option.some.injEq] at h
        subst h
        refine ⟨?_, ?_, hi.finLt, ?_⟩
        · have := hi.once
          rw [hp] at this
          simp only [List.map_cons, List.append_assoc] at this ⊢
          refine List.Perm.trans ?_ this
          refine List.Perm.append_left _ ?_
          simp only [List.cons_append]
          exact List.perm_middle.symm
        · intro e he
          simp only [List.mem_cons] at he
          rcases he with rfl | he
          · exact hw
          · exact hi.busyLt e he
        · simp only [List.map_cons, List.nodup_cons]
          refine ⟨?_, hi.busyNodup⟩
          intro hm
          simp only [List.mem_map] at hm
          obtain ⟨e, he, hew⟩ := hm
          simp only [Bool.not_eq_true', List.any_eq_false] at hidle
          have := hidle e he
          simp [hew] at this
    · cases h
  | finish w =>
    simp only [poolStep] at h
    cases hf : s.busy.find? (·.1 == w) with
    | none => simp [hf] at h
    | some e =>
      simp only [hf, Option.some.injEq] at h
      subst h
      obtain ⟨h1, h2, h3⟩ := find_perm w s.busy e hi.busyNodup hf
      refine ⟨?_, ?_, ?_, ?_⟩
      · refine List.Perm.trans ?_ hi.once
        simp only [List.map_cons, List.append_assoc, List.cons_append]
        have h4 : (s.busy.map (·.2)).Perm (e.2 :: (s.busy.filter (fun x => x.1 != w)).map (·.2)) := by
          have := h3.map (·.2)
          simpa using this
        refine List.Perm.trans List.perm_middle.symm ?_
        refine List.Perm.append_left _ ?_
        simp only [← List.cons_append]
        exact List.Perm.append_right _ h4.symm
      · intro x hx
        exact hi.busyLt x (List.mem_filter.mp hx).1
      · intro x hx
        simp only [List.mem_cons] at hx
        rcases hx with rfl | hx
        · exact hi.busyLt _ h2
        · exact hi.finLt x hx
      · exact List.Nodup.sublist (List.Sublist.map _ List.filter_sublist) hi.busyNodup

theorem poolRun_inv {n tasks} : ∀ {ls s s'}, PoolInv n tasks s → poolRun n s ls = some s' →
    PoolInv n tasks s'
  | [], s, s', hi, h => by
    simp only [poolRun, Option.some.injEq] at h
    exact h ▸ hi
  | l :: ls, s, s', hi, h => by
    simp only [poolRun] at h
    cases hs : poolStep n s l with
    | none => simp [hs] at h
    | some s1 =>
      simp only [hs] at h
      exact poolRun_inv (poolStep_inv hi hs) h

def poolMeasure (s : PoolSt) : Nat := 2 * s.pending.length + s.busy.length

theorem poolStep_measure {n s l s'} (h : poolStep n s l = some s') :
    poolMeasure s' < poolMeasure s := by
  cases l with
  | take w =>
    simp only [poolStep] at h
    split at h
    · cases hp : s.pending with
      | nil => simp [hp] at h
      | cons t rest =>
        simp only [hp, Option.some.injEq] at h
        subst h
        simp only [poolMeasure, hp, List.length_cons]
        omega
    · cases h
  | finish w =>
    simp only [poolStep] at h
    cases hf : s.busy.find? (·.1 == w) with
    | none => simp [hf] at h
    | some e =>
      simp only [hf, Option.some.injEq] at h
      subst h
      have hmem := List.mem_of_find?_eq_some hf
      have hp := List.find?_some hf
      have : (s.busy.filter (fun x => x.1 != w)).length < s.busy.length := by
        rw [List.length_filter_lt_length_iff_exists]
        exact ⟨e, hmem, by simpa using hp⟩
      simp only [poolMeasure]
      omega

theorem poolStep_progress {n s} (hn : 1 ≤ n) (h : s.pending ≠ [] ∨ s.busy ≠ []) :
    ∃ l s', poolStep n s l = some s' := by
  cases hb : s.busy with
  | cons e es =>
    refine ⟨.finish e.1, ?_⟩
    simp [poolStep, hb]
  | nil =>
    cases hp : s.pending with
    | nil => simp [hb, hp] at h
    | cons t rest =>
      refine ⟨.take 0, ?_⟩
      have : 0 < n := by omega
      simp [poolStep, hb, hp, this]

/-! ### `execute` / `executeAll` -/

theorem execute_stats {j : FileJob} {rs : List Res} {st : Stats} (h : execute j = .ok (rs, st)) :
    st.results = rs.length ∧ st.lines = (if j.empty then 0 else j.task.n) := by
  unfold execute at h
  split at h
  · rename_i he
    cases h
    simp [he]
  · rename_i he
    have := runTask_stats _ _ _ h
    simp [he, this.1, this.2]

theorem executeAll_sums : ∀ {jobs : List FileJob} {outs : List (List Res × Stats)},
    executeAll jobs = .ok outs →
    outs.length = jobs.length ∧
    (outs.map (·.2.results)).sum = ((outs.map (·.1)).map List.length).sum ∧
    (outs.map (·.2.lines)).sum = (jobs.map fun j => if j.empty then 0 else j.task.n).sum ∧
    ∀ k (hk : k < jobs.length), ∃ rs stk, execute jobs[k] = .ok (rs, stk) ∧
      (outs.map (·.1))[k]? = some rs
  | [], outs, h => by
    simp only [executeAll, Except.ok.injEq] at h
    subst h; simp
  | j :: js, outs, h => by
    simp only [executeAll, bind_ok, pure_ok] at h
    obtain ⟨⟨rs, st⟩, h1, os, h2, rfl⟩ := h
    obtain ⟨i1, i2, i3, i4⟩ := executeAll_sums h2
    have hs := execute_stats h1
    refine ⟨by simp [i1], ?_, ?_, ?_⟩
    · simp only [List.map_cons, List.sum_cons, i2, hs.1]
    · simp only [List.map_cons, List.sum_cons, i3, hs.2]
    · intro k hk
      cases k with
      | zero => exact ⟨rs, st, h1, by simp⟩
      | succ k =>
        simp only [List.length_cons, Nat.add_lt_add_iff_right] at hk
        obtain ⟨rs', st', g1, g2⟩ := i4 k hk
        exact ⟨rs', st', by simpa using g1, by simpa using g2⟩

/-! ### simulation: fresh definition objects vs. objects carrying state -/

/-- two computations fail with the same error or succeed with related values -/
def ExRel {α β : Type} (R : α → β → Prop) : Except Err α → Except Err β → Prop
  | .ok a, .ok b => R a b
  | .error e, .error e' => e = e'
  | _, _ => False

theorem ExRel.bind {α β α' β' : Type} {R : α → β → Prop} {S : α' → β' → Prop}
    {x : Except Err α} {y : Except Err β} {f : α → Except Err α'} {g : β → Except Err β'}
    (h : ExRel R x y) (hf : ∀ a b, R a b → ExRel S (f a) (g b)) : ExRel S (x >>= f) (y >>= g) := by
  cases x <;> cases y <;> simp only [ExRel] at h
  · subst h; simp [Bind.bind, Except.bind, ExRel]
  · simp only [Bind.bind, Except.bind]; exact hf _ _ h

theorem ExRel.pure {α β : Type} {R : α → β → Prop} {a : α} {b : β} (h : R a b) :
    ExRel R (Pure.pure a : Except Err α) (Pure.pure b) := h

theorem ExRel.ok {α β : Type} {R : α → β → Prop} {a : α} {b : β} (h : R a b) :
    ExRel R (.ok a : Except Err α) (.ok b) := h

theorem ExRel.mono {α β : Type} {R S : α → β → Prop} {x : Except Err α} {y : Except Err β}
    (h : ExRel R x y) (hrs : ∀ a b, R a b → S a b) : ExRel S x y := by
  cases x <;> cases y <;> simp only [ExRel] at h ⊢
  · exact h
  · exact hrs _ _ h

theorem ExRel.map_eq {α β : Type} {f : α → β} {x : Except Err α} {y : Except Err β}
    (h : ExRel (fun a b => b = f a) x y) : y = x.map f := by
  cases x <;> cases y <;> simp only [ExRel] at h
  · subst h; rfl
  · subst h; rfl

variable (p : Nat → SeqPersist)

theorem shiftSec_none {r : Res} (h : r.sec = none) : shiftSec p r = r := by
  cases r; simp_all [shiftSec]

theorem shiftSec_some {r : Res} {id k : Nat} (h : r.sec = some (id, k)) :
    (shiftSec p r).sec = some (id, k + (p id).cnt) := by
  simp [shiftSec, h]

theorem mkSeqRes_rel {id : Nat} {s : SeqDef} {sfx : String} {sd : SDef} {ln sec sec' : Nat} {m : Match}
    (h : sec' = sec + (p id).cnt) :
    ExRel (fun r r' => r' = shiftSec p r ∧ r.sec = some (id, sec))
      (mkSeqRes id s sfx sd ln sec m) (mkSeqRes id s sfx sd ln sec' m) := by
  subst h
  unfold mkSeqRes
  cases mkParts sd m with
  | error e => simp [Bind.bind, Except.bind, ExRel]
  | ok ps => simp [Bind.bind, Except.bind, ExRel, Pure.pure, Except.pure, shiftSec]

theorem mkSimpleRes_sec {id sd ln m r} (h : mkSimpleRes id sd ln m = .ok r) : r.sec = none := by
  simp only [mkSimpleRes, bind_ok, pure_ok] at h
  obtain ⟨ps, _, rfl⟩ := h; rfl

/-- per-definition simulation relation (`st` fresh run, `st'` run from carried state) -/
structure Rel (id : Nat) (st st' : DSt) : Prop where
  runnable : st'.runnable = st.runnable
  started : st'.started = st.started
  cnt : st'.cnt = st.cnt + (p id).cnt
  sec : st.started = true → st'.sec = st.sec + (p id).cnt
  seqRes : st'.seqRes = st.seqRes.map (shiftSec p)
  everAdded : st'.everAdded = st.everAdded
  secInv : ∀ r ∈ st.seqRes, ∃ k, r.sec = some (id, k)

theorem filter_shift {id sec : Nat} : ∀ (l : List Res), (∀ r ∈ l, ∃ k, r.sec = some (id, k)) →
    (l.map (shiftSec p)).filter (fun r => r.sec != some (id, sec + (p id).cnt))
      = (l.filter (fun r => r.sec != some (id, sec))).map (shiftSec p)
  | [], _ => rfl
  | r :: rs, h => by
    obtain ⟨k, hk⟩ := h r (by simp)
    have ih := filter_shift (id := id) (sec := sec) rs (fun x hx => h x (by simp [hx]))
    simp only [List.map_cons, List.filter_cons, shiftSec_some p hk, hk, ih]
    by_cases hks : k = sec
    · subst hks; simp
    · have : k + (p id).cnt ≠ sec + (p id).cnt := by omega
      simp [hks]

theorem push_rel {id : Nat} {s : SeqDef} {sfx : String} {sd : SDef} {ln k k' : Nat} {m : Match}
    {mk mk' : Res → DSt} (hk : k' = k + (p id).cnt)
    (h : ∀ r, r.sec = some (id, k) → Rel p id (mk r) (mk' (shiftSec p r))) :
    ExRel (Rel p id) (mkSeqRes id s sfx sd ln k m >>= fun r => pure (mk r))
      (mkSeqRes id s sfx sd ln k' m >>= fun r => pure (mk' r)) := by
  refine ExRel.bind (mkSeqRes_rel p hk) ?_
  rintro r r' ⟨rfl, hr⟩
  exact ExRel.pure (h r hr)

theorem mem_snoc_inv {id : Nat} {l : List Res} {r : Res} {k : Nat}
    (h7 : ∀ r ∈ l, ∃ k, r.sec = some (id, k)) (hr : r.sec = some (id, k)) :
    ∀ x ∈ l ++ [r], ∃ k, x.sec = some (id, k) := by
  intro x hx
  simp only [List.mem_append, List.mem_singleton] at hx
  rcases hx with h | rfl
  · exact h7 _ h
  · exact ⟨_, hr⟩

theorem mem_filter_inv {id : Nat} {l : List Res} {q : Res → Bool}
    (h7 : ∀ r ∈ l, ∃ k, r.sec = some (id, k)) :
    ∀ x ∈ l.filter q, ∃ k, x.sec = some (id, k) :=
  fun x hx => h7 x (List.mem_filter.mp hx).1

theorem seqStep_rel {id : Nat} {s : SeqDef} {i : Nat} {st st' : DSt} (hr : Rel p id st st') :
    ExRel (Rel p id) (seqStep id s i st) (seqStep id s i st') := by
  obtain ⟨h1, h2, h3, h4, h5, h6, h7⟩ := hr
  obtain ⟨run, started, cnt, sec, seqRes, ever⟩ := st
  obtain ⟨run', started', cnt', sec', seqRes', ever'⟩ := st'
  simp only at h1 h2 h3 h4 h5 h6 h7
  subst h1 h2 h3 h5 h6
  unfold seqStep
  cases hE : s.end_ <;> cases started' <;> cases hR : s.start.run i <;>
    simp only [Option.isSome, if_true, if_false, Bool.false_eq_true, Bool.not_true, Bool.not_false]
  case none.false.none =>
    exact ExRel.pure ⟨rfl, rfl, rfl, (fun h => by cases h), rfl, rfl, h7⟩
  case some.false.none =>
    exact ExRel.pure ⟨rfl, rfl, rfl, (fun h => by cases h), rfl, rfl, h7⟩
  case none.false.some =>
    refine push_rel p rfl ?_
    intro r hr
    exact ⟨rfl, rfl, by simp only; omega, fun _ => rfl, by simp, rfl, mem_snoc_inv h7 hr⟩
  case some.false.some =>
    refine push_rel p rfl ?_
    intro r hr
    exact ⟨rfl, rfl, by simp only; omega, fun _ => rfl, by simp, rfl, mem_snoc_inv h7 hr⟩
  case none.true.some =>
    refine push_rel p (by omega) ?_
    intro r hr
    exact ⟨rfl, rfl, by simp only; omega, fun _ => by simp only; omega, by simp, rfl,
      mem_snoc_inv h7 hr⟩
  case some.true.some =>
    have h4 := h4 rfl
    subst h4
    refine push_rel p rfl ?_
    intro r hr
    exact ⟨rfl, rfl, by simp only; omega, fun _ => rfl, by simp [filter_shift p _ h7], rfl,
      mem_snoc_inv (mem_filter_inv h7) hr⟩
  case none.true.none =>
    have h4 := h4 rfl
    subst h4
    cases s.body with
    | none => exact ExRel.pure ⟨rfl, rfl, rfl, fun _ => rfl, rfl, rfl, h7⟩
    | some b =>
      simp only
      cases b.run i with
      | none => exact ExRel.pure ⟨rfl, rfl, rfl, fun _ => rfl, rfl, rfl, h7⟩
      | some m =>
        refine push_rel p rfl ?_
        intro r hr
        exact ⟨rfl, rfl, rfl, fun _ => rfl, by simp, rfl, mem_snoc_inv h7 hr⟩
  case some.true.none e =>
    have h4 := h4 rfl
    subst h4
    cases e.run i with
    | some m =>
      refine push_rel p rfl ?_
      intro r hr
      exact ⟨rfl, rfl, by simp only; omega, (fun h => by cases h), by simp, rfl, mem_snoc_inv h7 hr⟩
    | none =>
      simp only
      cases s.body with
      | none => exact ExRel.pure ⟨rfl, rfl, rfl, fun _ => rfl, rfl, rfl, h7⟩
      | some b =>
        simp only
        cases b.run i with
        | none => exact ExRel.pure ⟨rfl, rfl, rfl, fun _ => rfl, rfl, rfl, h7⟩
        | some m =>
          refine push_rel p rfl ?_
          intro r hr
          exact ⟨rfl, rfl, rfl, fun _ => rfl, by simp, rfl, mem_snoc_inv h7 hr⟩

theorem Rel.setRunnable {id : Nat} {st st' : DSt} (h : Rel p id st st') (b : Bool) :
    Rel p id { st with runnable := b } { st' with runnable := b } :=
  ⟨rfl, h.started, h.cnt, h.sec, h.seqRes, h.everAdded, h.secInv⟩

theorem gate_rel {i : Nat} {d : Def} {st st' : DSt} (h : Rel p d.id st st') :
    (gate i d st = none ∧ gate i d st' = none) ∨
      ∃ g g', gate i d st = some g ∧ gate i d st' = some g' ∧ Rel p d.id g g' := by
  unfold gate
  rw [h.runnable]
  cases st.runnable with
  | true => exact Or.inr ⟨st, st', by simp, by simp, h⟩
  | false =>
    simp only [Bool.false_eq_true, if_false]
    cases (applySingle (d.cons.map fun c => c i)) with
    | mk valid allp =>
      cases valid with
      | false => exact Or.inl ⟨by simp, by simp⟩
      | true => exact Or.inr ⟨_, _, by simp, by simp, h.setRunnable p allp⟩

/-- relation between the outputs of one definition on one line -/
def StepRel (id : Nat) (a b : DSt × List Res) : Prop :=
  Rel p id a.1 b.1 ∧ b.2 = a.2.map (shiftSec p)

theorem defBody_rel {i : Nat} {d : Def} {st st' : DSt} (h : Rel p d.id st st') :
    ExRel (StepRel p d.id) (defBody i d st) (defBody i d st') := by
  unfold defBody
  cases d.kind with
  | simple sd =>
    simp only
    cases sd.run i with
    | none => exact ExRel.pure ⟨h, rfl⟩
    | some m =>
      simp only
      cases hm : mkSimpleRes d.id sd (i + 1) m with
      | error e => simp [Bind.bind, Except.bind, ExRel]
      | ok r =>
        simp only [Bind.bind, Except.bind]
        refine ExRel.pure ⟨h, ?_⟩
        simp [shiftSec_none p (mkSimpleRes_sec hm)]
  | seq s =>
    simp only
    refine ExRel.bind (seqStep_rel p h) ?_
    intro a b hab
    exact ExRel.pure ⟨hab, rfl⟩

theorem defStep_rel {i : Nat} {d : Def} {st st' : DSt} (h : Rel p d.id st st') :
    ExRel (StepRel p d.id) (defStep i d st) (defStep i d st') := by
  rw [defStep_eq, defStep_eq]
  rcases gate_rel p (i := i) h with ⟨h1, h2⟩ | ⟨g, g', h1, h2, h3⟩
  · rw [h1, h2]; exact ExRel.pure ⟨h, rfl⟩
  · rw [h1, h2]; exact defBody_rel p h3

/-- aligned state lists related definition by definition -/
def AllRel : List Def → List DSt → List DSt → Prop
  | d :: ds, st :: sts, st' :: sts' => Rel p d.id st st' ∧ AllRel ds sts sts'
  | _ :: _, [], [] => True
  | [], _, _ => True
  | _, _, _ => False

def StepsRel (defs : List Def) (a b : List DSt × List Res × List Nat) : Prop :=
  AllRel p defs a.1 b.1 ∧ b.2.1 = a.2.1.map (shiftSec p) ∧ b.2.2 = a.2.2

theorem defsStep_rel {i : Nat} : ∀ {defs : List Def} {sts sts' : List DSt}, AllRel p defs sts sts' →
    ExRel (StepsRel p defs) (defsStep i defs sts) (defsStep i defs sts')
  | [], _, _, _ => by
    simp only [defsStep]
    exact ExRel.pure ⟨by simp [AllRel], rfl, rfl⟩
  | _ :: _, [], [], _ => by
    simp only [defsStep]
    exact ExRel.pure ⟨by simp [AllRel], rfl, rfl⟩
  | _ :: _, [], _ :: _, h => by simp [AllRel] at h
  | _ :: _, _ :: _, [], h => by simp [AllRel] at h
  | d :: ds, st :: sts, st' :: sts', h => by
    simp only [AllRel] at h
    simp only [defsStep]
    refine ExRel.bind (defStep_rel p (i := i) h.1) ?_
    rintro ⟨a1, o1⟩ ⟨b1, o1'⟩ ⟨hab, ho⟩
    simp only at hab ho
    subst ho
    refine ExRel.bind (defsStep_rel (i := i) h.2) ?_
    rintro ⟨as, os, od⟩ ⟨bs, os', od'⟩ ⟨habs, hos, hod⟩
    simp only at habs hos hod
    subst hos hod
    refine ExRel.pure ⟨?_, ?_, ?_⟩
    · simp only [AllRel]; exact ⟨hab, habs⟩
    · simp
    · simp only [hab.everAdded, h.1.everAdded]

def LRel (defs : List Def) (a b : LSt) : Prop :=
  AllRel p defs a.sts b.sts ∧ b.simple = a.simple.map (shiftSec p) ∧ b.order = a.order

theorem lineStep_rel {dec : Nat → Bool} {defs : List Def} {a b : LSt} (i : Nat)
    (h : LRel p defs a b) : ExRel (LRel p defs) (lineStep dec defs a i) (lineStep dec defs b i) := by
  unfold lineStep
  cases dec i with
  | false => simp [ExRel]
  | true =>
    simp only [Bool.not_true, Bool.false_eq_true, if_false]
    refine ExRel.bind (defsStep_rel p (i := i) h.1) ?_
    rintro ⟨as, os, od⟩ ⟨bs, os', od'⟩ ⟨habs, hos, hod⟩
    simp only at habs hos hod
    subst hos hod
    exact ExRel.pure ⟨habs, by simp [h.2.1], by simp [h.2.2]⟩

theorem linesLoop_rel {dec : Nat → Bool} {defs : List Def} : ∀ (is : List Nat) {a b : LSt},
    LRel p defs a b → ExRel (LRel p defs) (linesLoop dec defs a is) (linesLoop dec defs b is)
  | [], _, _, h => by
    simp only [linesLoop]; exact ExRel.pure h
  | i :: is, _, _, h => by
    simp only [linesLoop]
    exact ExRel.bind (lineStep_rel p i h) (fun _ _ h' => linesLoop_rel is h')

theorem eofDef_rel {n : Nat} {d : Def} {st st' : DSt} (h : Rel p d.id st st') :
    ExRel (fun a b => b = a.map (shiftSec p)) (eofDef n d st) (eofDef n d st') := by
  unfold eofDef
  cases d.kind with
  | simple sd => exact ExRel.pure rfl
  | seq s =>
    simp only [h.started]
    cases hS : st.started with
    | false => exact ExRel.pure h.seqRes
    | true =>
      simp only [if_true]
      have hsec := h.sec hS
      cases s.end_ with
      | none => exact ExRel.pure h.seqRes
      | some e =>
        simp only
        cases e.emptyRes with
        | none =>
          refine ExRel.pure ?_
          rw [h.seqRes, hsec, filter_shift p _ h.secInv]
        | some m =>
          simp only
          refine ExRel.bind (mkSeqRes_rel p hsec) ?_
          rintro r r' ⟨rfl, _⟩
          refine ExRel.pure ?_
          simp [h.seqRes]

def shiftFinals (fs : List (Nat × List Res)) : List (Nat × List Res) :=
  fs.map fun x => (x.1, x.2.map (shiftSec p))

theorem eofAll_rel {n : Nat} : ∀ {defs : List Def} {sts sts' : List DSt}, AllRel p defs sts sts' →
    ExRel (fun a b => b = shiftFinals p a) (eofAll n defs sts) (eofAll n defs sts')
  | [], _, _, _ => by
    simp only [eofAll]; exact ExRel.pure rfl
  | _ :: _, [], [], _ => by
    simp only [eofAll]; exact ExRel.pure rfl
  | _ :: _, [], _ :: _, h => by simp [AllRel] at h
  | _ :: _, _ :: _, [], h => by simp [AllRel] at h
  | d :: ds, st :: sts, st' :: sts', h => by
    simp only [AllRel] at h
    simp only [eofAll]
    refine ExRel.bind (eofDef_rel p (n := n) h.1) ?_
    rintro r r' rfl
    refine ExRel.bind (eofAll_rel (n := n) h.2) ?_
    rintro rs rs' rfl
    exact ExRel.pure (by simp [shiftFinals])

theorem lookup_shiftFinals (id : Nat) : ∀ (fs : List (Nat × List Res)),
    ((shiftFinals p fs).lookup id).getD [] = ((fs.lookup id).getD []).map (shiftSec p)
  | [] => by simp [shiftFinals]
  | (k, rs) :: fs => by
    have ih := lookup_shiftFinals id fs
    simp only [shiftFinals, List.map_cons, List.lookup_cons] at ih ⊢
    cases id == k <;> simp [ih]

theorem flatMap_shiftFinals (fs : List (Nat × List Res)) : ∀ (order : List Nat),
    order.flatMap (fun id => ((shiftFinals p fs).lookup id).getD [])
      = (order.flatMap (fun id => (fs.lookup id).getD [])).map (shiftSec p)
  | [] => rfl
  | x :: xs => by
    have ih := flatMap_shiftFinals fs xs
    rw [List.flatMap_cons, List.flatMap_cons, List.map_append, ih, lookup_shiftFinals]

theorem Rel.init (d : Def) : Rel p d.id (DSt.init d) (DSt.initFrom p d) :=
  ⟨rfl, rfl, by simp [DSt.init, DSt.initFrom], by simp [DSt.init], rfl, rfl, by simp [DSt.init]⟩

theorem AllRel.init : ∀ (defs : List Def), AllRel p defs (defs.map DSt.init) (defs.map (DSt.initFrom p))
  | [] => by simp [AllRel]
  | d :: ds => by
    simp only [List.map_cons, AllRel]
    exact ⟨Rel.init p d, AllRel.init ds⟩

theorem runTaskFrom_rel (t : TaskIn) :
    ExRel (fun a b => b = (a.1.map (shiftSec p), a.2)) (runTask t) (runTaskFrom p t) := by
  unfold runTask runTaskFrom
  refine ExRel.bind (linesLoop_rel p (List.range t.n) (a := { sts := _ }) (b := { sts := _ })
    ⟨AllRel.init p _, rfl, rfl⟩) ?_
  rintro ls ls' ⟨h1, h2, h3⟩
  refine ExRel.bind (eofAll_rel p (n := t.n) h1) ?_
  rintro fs fs' rfl
  refine ExRel.pure ?_
  simp only [h2, h3, flatMap_shiftFinals, List.map_append, List.length_append, List.length_map]

theorem shiftSec_sec_inj {r1 r2 : Res} :
    (shiftSec p r1).sec = (shiftSec p r2).sec ↔ r1.sec = r2.sec := by
  constructor
  · intro h
    simp only [shiftSec] at h
    cases h1 : r1.sec with
    | none =>
      cases h2 : r2.sec with
      | none => rfl
      | some b => simp [h1, h2] at h
    | some a =>
      cases h2 : r2.sec with
      | none => simp [h1, h2] at h
      | some b =>
        obtain ⟨a1, a2⟩ := a
        obtain ⟨b1, b2⟩ := b
        simp only [h1, h2, Option.map_some, Option.some.injEq, Prod.mk.injEq] at h
        obtain ⟨rfl, h⟩ := h
        have : a2 = b2 := by omega
        rw [this]
  · intro h
    simp only [shiftSec, h]

end Sk.Run
