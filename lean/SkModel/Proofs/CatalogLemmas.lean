/-
  SkModel.Proofs.CatalogLemmas — helper lemmas for property C09 (SearchCatalog model):
  `sortByKey` is a stable sort, the grouping fold of `filteredDir`, `registerPath`/`register`.
-/
import SkModel.Catalog

namespace Sk.Cat
open Sk

/-! ## 1. `sortByKey` -/

/-- sorted by `key` (ties allowed) -/
abbrev Sorted (l : List DirEntry) : Prop := l.Pairwise (fun a b => a.key ≤ b.key)

theorem insertByKey_perm (e : DirEntry) (l : List DirEntry) :
    (insertByKey e l).Perm (e :: l) := by
  induction l with
  | nil => exact .refl _
  | cons x xs ih =>
    simp only [insertByKey]
    split
    · exact .refl _
    · exact (List.Perm.cons x ih).trans (List.Perm.swap e x xs)

theorem foldl_insert_perm (es acc : List DirEntry) :
    (es.foldl (fun acc e => insertByKey e acc) acc).Perm (acc ++ es) := by
  induction es generalizing acc with
  | nil => simp
  | cons e es ih =>
    simp only [List.foldl_cons]
    refine (ih _).trans ?_
    exact ((insertByKey_perm e acc).append_right es).trans List.perm_middle.symm

theorem sortByKey_perm (es : List DirEntry) : (sortByKey es).Perm es := by
  simpa [sortByKey] using foldl_insert_perm es []

theorem insertByKey_sorted (e : DirEntry) (l : List DirEntry) (h : Sorted l) :
    Sorted (insertByKey e l) := by
  induction l with
  | nil => simp [insertByKey, Sorted]
  | cons x xs ih =>
    have hx := List.pairwise_cons.1 h
    simp only [insertByKey]
    split
    · rename_i hlt
      refine List.pairwise_cons.2 ⟨?_, h⟩
      intro y hy
      rcases List.mem_cons.1 hy with rfl | hy
      · omega
      · have := hx.1 y hy; omega
    · rename_i hge
      refine List.pairwise_cons.2 ⟨?_, ih hx.2⟩
      intro y hy
      have hy' := (insertByKey_perm e xs).mem_iff.1 hy
      rcases List.mem_cons.1 hy' with rfl | hy'
      · omega
      · exact hx.1 y hy'

theorem foldl_insert_sorted (es acc : List DirEntry) (h : Sorted acc) :
    Sorted (es.foldl (fun acc e => insertByKey e acc) acc) := by
  induction es generalizing acc with
  | nil => simpa
  | cons e es ih => exact ih _ (insertByKey_sorted e acc h)

theorem sortByKey_sorted (es : List DirEntry) : Sorted (sortByKey es) :=
  foldl_insert_sorted es [] List.Pairwise.nil

theorem sortByKey_length (es : List DirEntry) : (sortByKey es).length = es.length :=
  (sortByKey_perm es).length_eq

theorem sortByKey_nil : sortByKey [] = [] := rfl

theorem mem_sortByKey {es : List DirEntry} {e : DirEntry} : e ∈ sortByKey es ↔ e ∈ es :=
  (sortByKey_perm es).mem_iff

/-- the kept prefix has `min d n` elements -/
theorem take_sort_length (es : List DirEntry) (d : Nat) :
    ((sortByKey es).take d).length = min d es.length := by
  simp [List.length_take, sortByKey_length]

/-- kept ++ dropped is a permutation of the input -/
theorem take_drop_sort_perm (es : List DirEntry) (d : Nat) :
    ((sortByKey es).take d ++ (sortByKey es).drop d).Perm es := by
  rw [List.take_append_drop]; exact sortByKey_perm es

/-- every kept copy has a key ≤ every dropped copy (ties allowed) -/
theorem take_le_drop_sort (es : List DirEntry) (d : Nat) :
    ∀ a ∈ (sortByKey es).take d, ∀ b ∈ (sortByKey es).drop d, a.key ≤ b.key := by
  have h := sortByKey_sorted es
  rw [← List.take_append_drop d (sortByKey es)] at h
  exact (List.pairwise_append.1 h).2.2

/-- stability of one insertion into a sorted list -/
theorem insertByKey_filter_key (e : DirEntry) (l : List DirEntry) (h : Sorted l) (k : Nat) :
    (insertByKey e l).filter (fun x => x.key == k) =
      l.filter (fun x => x.key == k) ++ (if e.key == k then [e] else []) := by
  induction l with
  | nil => simp [insertByKey, List.filter_cons]
  | cons x xs ih =>
    have hx := List.pairwise_cons.1 h
    simp only [insertByKey]
    split
    · rename_i hlt
      by_cases hk : e.key = k
      · have hnone : (x :: xs).filter (fun y => y.key == k) = [] := by
          apply List.filter_eq_nil_iff.2
          intro y hy
          rcases List.mem_cons.1 hy with rfl | hy
          · simp; omega
          · have := hx.1 y hy; simp; omega
        rw [List.filter_cons, hnone]; simp [hk]
      · rw [List.filter_cons]; simp [hk]
    · rw [List.filter_cons, ih hx.2, List.filter_cons]
      split <;> simp

theorem foldl_insert_filter_key (es acc : List DirEntry) (h : Sorted acc) (k : Nat) :
    (es.foldl (fun acc e => insertByKey e acc) acc).filter (fun x => x.key == k) =
      acc.filter (fun x => x.key == k) ++ es.filter (fun x => x.key == k) := by
  induction es generalizing acc with
  | nil => simp
  | cons e es ih =>
    simp only [List.foldl_cons]
    rw [ih _ (insertByKey_sorted e acc h), insertByKey_filter_key e acc h, List.filter_cons]
    split <;> simp

/-- stability: entries with equal keys keep their input order -/
theorem sortByKey_stable (es : List DirEntry) (k : Nat) :
    (sortByKey es).filter (fun x => x.key == k) = es.filter (fun x => x.key == k) := by
  simpa [sortByKey] using foldl_insert_filter_key es [] List.Pairwise.nil k

/-! ## 2. insertion-ordered dict with list values (`groupAddE`, `registerPath`) -/

section AddTo
variable {γ : Type}

/-- `d.setdefault(k, []).append(x)` on an insertion-ordered dict -/
def addTo (g : List (String × List γ)) (k : String) (x : γ) : List (String × List γ) :=
  if g.any (fun p => p.1 == k) then
    g.map (fun p => if p.1 == k then (p.1, p.2 ++ [x]) else p)
  else g ++ [(k, [x])]

/-- the keys of a dict -/
abbrev keys (g : List (String × List γ)) : List String := g.map (·.1)

theorem any_key_iff (g : List (String × List γ)) (k : String) :
    g.any (fun p => p.1 == k) = true ↔ k ∈ keys g := by
  simp only [List.any_eq_true, beq_iff_eq, keys, List.mem_map]

theorem keys_addTo (g : List (String × List γ)) (k : String) (x : γ) :
    keys (addTo g k x) = if k ∈ keys g then keys g else keys g ++ [k] := by
  unfold addTo
  by_cases h : k ∈ keys g
  · rw [if_pos ((any_key_iff g k).2 h), if_pos h]
    simp only [keys, List.map_map]
    apply List.map_congr_left
    intro p _
    simp only [Function.comp]
    split <;> rfl
  · have h' : ¬ (g.any (fun p => p.1 == k) = true) := fun hh => h ((any_key_iff g k).1 hh)
    rw [if_neg h', if_neg h]
    simp [keys]

theorem keys_addTo_nodup (g : List (String × List γ)) (k : String) (x : γ)
    (h : (keys g).Nodup) : (keys (addTo g k x)).Nodup := by
  rw [keys_addTo]
  split
  · exact h
  · rename_i hk
    refine List.nodup_append.2 ⟨h, by simp, ?_⟩
    intro a ha b hb
    simp only [List.mem_singleton] at hb
    subst hb
    intro hab; subst hab; exact hk ha

theorem mem_keys_addTo (g : List (String × List γ)) (k : String) (x : γ) (q : String) :
    q ∈ keys (addTo g k x) ↔ q ∈ keys g ∨ q = k := by
  rw [keys_addTo]
  split
  · rename_i hk
    constructor
    · exact Or.inl
    · rintro (h | rfl)
      · exact h
      · exact hk
  · simp

theorem lookup_none_of_not_mem (g : List (String × List γ)) (k : String) (h : k ∉ keys g) :
    g.lookup k = none := by
  induction g with
  | nil => rfl
  | cons p g ih =>
    obtain ⟨a, v⟩ := p
    simp only [keys, List.map_cons, List.mem_cons, not_or] at h
    rw [List.lookup_cons]
    have : (k == a) = false := by simpa using h.1
    rw [this]
    exact ih h.2

theorem lookup_some_of_mem_keys (g : List (String × List γ)) (k : String) (h : k ∈ keys g) :
    ∃ v, g.lookup k = some v := by
  induction g with
  | nil => simp [keys] at h
  | cons p g ih =>
    obtain ⟨a, v⟩ := p
    rw [List.lookup_cons]
    by_cases hk : k = a
    · subst hk; simp
    · have : (k == a) = false := by simpa using hk
      rw [this]
      simp only [keys, List.map_cons, List.mem_cons] at h
      rcases h with h | h
      · exact absurd h hk
      · exact ih h

theorem mem_of_lookup (g : List (String × List γ)) (k : String) (v : List γ)
    (h : g.lookup k = some v) : (k, v) ∈ g := by
  induction g with
  | nil => simp at h
  | cons p g ih =>
    obtain ⟨a, w⟩ := p
    rw [List.lookup_cons] at h
    by_cases hk : k = a
    · subst hk
      simp at h
      subst h
      exact List.mem_cons_self
    · have : (k == a) = false := by simpa using hk
      rw [this] at h
      exact List.mem_cons_of_mem _ (ih h)

theorem lookup_of_mem_nodup (g : List (String × List γ)) (k : String) (v : List γ)
    (hn : (keys g).Nodup) (h : (k, v) ∈ g) : g.lookup k = some v := by
  induction g with
  | nil => simp at h
  | cons p g ih =>
    obtain ⟨a, w⟩ := p
    simp only [keys, List.map_cons, List.nodup_cons] at hn
    rw [List.lookup_cons]
    rcases List.mem_cons.1 h with h1 | h1
    · cases h1; simp
    · have hne : k ≠ a := by
        intro hk; subst hk
        exact hn.1 (List.mem_map.2 ⟨(k, v), h1, rfl⟩)
      have : (k == a) = false := by simpa using hne
      rw [this]
      exact ih hn.2 h1

theorem lookup_map_upd (g : List (String × List γ)) (k q : String) (f : List γ → List γ) :
    (g.map (fun p => if p.1 == k then (p.1, f p.2) else p)).lookup q =
      if q = k then (g.lookup q).map f else g.lookup q := by
  induction g with
  | nil => simp
  | cons p g ih =>
    obtain ⟨a, v⟩ := p
    have e1 : (if (a == k) = true then (a, f v) else (a, v))
        = (a, if a = k then f v else v) := by
      by_cases hak : a = k <;> simp [hak]
    simp only [List.map_cons]
    rw [e1, List.lookup_cons, List.lookup_cons, ih]
    by_cases hq : q = a
    · subst hq
      by_cases hqk : q = k <;> simp [hqk]
    · have : (q == a) = false := by simpa using hq
      simp [this]

/-- reading the dict after one `addTo` -/
theorem lookup_addTo (g : List (String × List γ)) (k : String) (x : γ) (q : String) :
    (addTo g k x).lookup q =
      if q = k then some ((g.lookup k).getD [] ++ [x]) else g.lookup q := by
  unfold addTo
  by_cases h : k ∈ keys g
  · rw [if_pos ((any_key_iff g k).2 h), lookup_map_upd g k q (fun v => v ++ [x])]
    by_cases hq : q = k
    · subst hq
      obtain ⟨v, hv⟩ := lookup_some_of_mem_keys g q h
      simp [hv]
    · simp [hq]
  · have h' : ¬ (g.any (fun p => p.1 == k) = true) := fun hh => h ((any_key_iff g k).1 hh)
    rw [if_neg h', List.lookup_append]
    by_cases hq : q = k
    · subst hq
      simp [lookup_none_of_not_mem g q h]
    · have : (q == k) = false := by simpa using hq
      simp [hq, List.lookup_cons, this]

/-- value stored for a key, `[]` when absent -/
def getG (g : List (String × List γ)) (s : String) : List γ := (g.lookup s).getD []

theorem getG_addTo (g : List (String × List γ)) (k : String) (x : γ) (s : String) :
    getG (addTo g k x) s = if s = k then getG g s ++ [x] else getG g s := by
  unfold getG
  rw [lookup_addTo]
  by_cases h : s = k
  · subst h; simp
  · simp [h]

theorem getG_of_mem (g : List (String × List γ)) (hn : (keys g).Nodup) (p : String × List γ)
    (hp : p ∈ g) : getG g p.1 = p.2 := by
  unfold getG
  rw [lookup_of_mem_nodup g p.1 p.2 hn hp]; rfl

theorem mem_of_getG_ne_nil (g : List (String × List γ)) (s : String) (h : getG g s ≠ []) :
    (s, getG g s) ∈ g := by
  unfold getG at h ⊢
  cases hl : g.lookup s with
  | none => rw [hl] at h; exact absurd rfl h
  | some v => exact mem_of_lookup g s v hl

theorem flatMap_congr_mem {α β : Type} (l : List α) (f f' : α → List β)
    (h : ∀ a ∈ l, f a = f' a) : l.flatMap f = l.flatMap f' := by
  induction l with
  | nil => rfl
  | cons a l ih =>
    simp only [List.flatMap_cons]
    rw [h a List.mem_cons_self, ih (fun b hb => h b (List.mem_cons_of_mem _ hb))]

/-- selecting the one group of key `s` out of a flat-map over a dict with distinct keys -/
theorem flatMap_select {β : Type} (g : List (String × List γ)) (hn : (keys g).Nodup)
    (F : List γ → List β) (hF : F [] = []) (s : String) :
    g.flatMap (fun p => if p.1 == s then F p.2 else []) = F (getG g s) := by
  induction g with
  | nil => simp [getG, hF]
  | cons p g ih =>
    obtain ⟨a, v⟩ := p
    simp only [keys, List.map_cons, List.nodup_cons] at hn
    simp only [List.flatMap_cons]
    by_cases ha : a = s
    · subst ha
      have hnone : g.lookup a = none := lookup_none_of_not_mem g a hn.1
      rw [ih hn.2]
      simp [getG, hnone, hF]
    · have : (a == s) = false := by simpa using ha
      have h2 : (s == a) = false := by simpa using (Ne.symm ha)
      rw [ih hn.2]
      simp [getG, this, h2, List.lookup_cons]

end AddTo

end Sk.Cat

namespace Sk

/-- well-formed listing: paths pairwise distinct, a live entry's path is `stem ++ ".log"` -/
def WFList (l : List DirEntry) : Prop :=
  (l.map (·.path)).Nodup ∧ ∀ e ∈ l, ∀ s, e.cls = .live s → e.path = s ++ ".log"

end Sk

namespace Sk.Cat
open Sk

/-! ## 3. the grouping fold and `filteredDir` -/

theorem groupAddE_eq (g : List (String × List DirEntry)) (s : String) (e : DirEntry) :
    groupAddE g s e = addTo g s e := rfl

/-- one step of the grouping fold of `filteredDir` -/
def groupStep (g : List (String × List DirEntry)) (e : DirEntry) :
    List (String × List DirEntry) :=
  match e.cls with
  | .rotated stem => groupAddE g stem e
  | _ => g

/-- the grouping fold -/
def groupsFrom (g : List (String × List DirEntry)) (files : List DirEntry) :
    List (String × List DirEntry) := files.foldl groupStep g

/-- the non-rotated part of the output -/
def keptOf (files : List DirEntry) : List String :=
  files.filterMap fun e => match e.cls with
    | .plain => some e.path
    | .live stem => some (stem ++ ".log")
    | .rotated _ => none

/-- sort a group, cut at `depth`, project to paths -/
def cut (depth : Nat) (es : List DirEntry) : List String :=
  ((sortByKey es).take depth).map (·.path)

/-- the rotated file entries of stem `s`, in input order -/
def rot (l : List DirEntry) (s : String) : List DirEntry :=
  l.filter (fun e => e.isFile && e.cls == .rotated s)

theorem filteredDir_eq (l : List DirEntry) (d : Nat) :
    filteredDir l d = keptOf (l.filter (·.isFile)) ++
      (groupsFrom [] (l.filter (·.isFile))).flatMap (fun p => cut d p.2) := rfl

theorem cut_nil (d : Nat) : cut d [] = [] := by simp [cut, sortByKey_nil]

theorem cut_zero (es : List DirEntry) : cut 0 es = [] := by simp [cut]

theorem rot_eq (l : List DirEntry) (s : String) :
    rot l s = (l.filter (·.isFile)).filter (fun e => e.cls == .rotated s) := by
  unfold rot
  rw [List.filter_filter]
  congr 1
  funext e
  exact Bool.and_comm _ _

theorem mem_rot {l : List DirEntry} {s : String} {e : DirEntry} :
    e ∈ rot l s ↔ e ∈ l ∧ e.isFile = true ∧ e.cls = .rotated s := by
  simp [rot]

theorem keys_groupStep_nodup (g : List (String × List DirEntry)) (e : DirEntry)
    (h : (keys g).Nodup) : (keys (groupStep g e)).Nodup := by
  unfold groupStep
  split
  · exact keys_addTo_nodup g _ e h
  · exact h

theorem getG_groupStep (g : List (String × List DirEntry)) (e : DirEntry) (s : String) :
    getG (groupStep g e) s =
      getG g s ++ (if e.cls == .rotated s then [e] else []) := by
  unfold groupStep
  split
  · rename_i stem hc
    rw [groupAddE_eq, getG_addTo, hc]
    by_cases h : s = stem
    · subst h; simp
    · have : ¬ (stem = s) := fun hh => h hh.symm
      simp [h, this]
  · rename_i hc
    have : (e.cls == NameCls.rotated s) = false := by
      cases hcl : e.cls with
      | rotated st => exact absurd hcl (hc st)
      | plain => simp
      | live st => simp
    simp [this]

theorem keys_groupsFrom_nodup (files : List DirEntry) (g : List (String × List DirEntry))
    (h : (keys g).Nodup) : (keys (groupsFrom g files)).Nodup := by
  induction files generalizing g with
  | nil => exact h
  | cons e files ih => exact ih _ (keys_groupStep_nodup g e h)

/-- grouping lemma: the group stored for stem `s` is the rotated entries of stem `s`
    in input order (appended to what was there) -/
theorem getG_groupsFrom (files : List DirEntry) (g : List (String × List DirEntry))
    (s : String) :
    getG (groupsFrom g files) s = getG g s ++ files.filter (fun e => e.cls == .rotated s) := by
  induction files generalizing g with
  | nil => simp [groupsFrom]
  | cons e files ih =>
    show getG (groupsFrom (groupStep g e) files) s = _
    rw [ih, getG_groupStep, List.filter_cons]
    split <;> simp

/-- a stem only enters the dict through a rotated entry of that stem -/
theorem mem_keys_groupsFrom (files : List DirEntry) (g : List (String × List DirEntry))
    (s : String) (h : s ∈ keys (groupsFrom g files)) :
    s ∈ keys g ∨ ∃ e ∈ files, e.cls = .rotated s := by
  induction files generalizing g with
  | nil => exact Or.inl h
  | cons e files ih =>
    rcases ih (groupStep g e) h with h1 | ⟨e', he', hc⟩
    · unfold groupStep at h1
      split at h1
      · rename_i stem hc
        rw [groupAddE_eq, mem_keys_addTo] at h1
        rcases h1 with h1 | rfl
        · exact Or.inl h1
        · exact Or.inr ⟨e, List.mem_cons_self, hc⟩
      · exact Or.inl h1
    · exact Or.inr ⟨e', List.mem_cons_of_mem _ he', hc⟩

/-- the groups computed by `filteredDir` -/
abbrev groupsOf (l : List DirEntry) : List (String × List DirEntry) :=
  groupsFrom [] (l.filter (·.isFile))

theorem keys_groupsOf_nodup (l : List DirEntry) : (keys (groupsOf l)).Nodup :=
  keys_groupsFrom_nodup _ [] List.nodup_nil

theorem getG_groupsOf (l : List DirEntry) (s : String) : getG (groupsOf l) s = rot l s := by
  rw [groupsOf, getG_groupsFrom, rot_eq]; simp [getG]

theorem groupsOf_snd (l : List DirEntry) (p : String × List DirEntry) (hp : p ∈ groupsOf l) :
    p.2 = rot l p.1 := by
  rw [← getG_groupsOf, getG_of_mem _ (keys_groupsOf_nodup l) p hp]

/-- the groups are exactly `(s, rot l s)` for distinct stems `s` -/
theorem groupsOf_eq (l : List DirEntry) :
    groupsOf l = (keys (groupsOf l)).map (fun s => (s, rot l s)) := by
  rw [keys, List.map_map]
  conv => lhs; rw [← List.map_id (groupsOf l)]
  apply List.map_congr_left
  intro p hp
  simp only [Function.comp, id]
  rw [← groupsOf_snd l p hp]

theorem mem_groups_flatMap (l : List DirEntry) (d : Nat) (p : String) :
    p ∈ (groupsOf l).flatMap (fun q => cut d q.2) ↔ ∃ s, p ∈ cut d (rot l s) := by
  rw [List.mem_flatMap]
  constructor
  · rintro ⟨q, hq, hp⟩
    exact ⟨q.1, by rw [← groupsOf_snd l q hq]; exact hp⟩
  · rintro ⟨s, hp⟩
    have hne : getG (groupsOf l) s ≠ [] := by
      rw [getG_groupsOf]
      intro h0
      rw [h0, cut_nil] at hp
      exact absurd hp (by simp)
    refine ⟨_, mem_of_getG_ne_nil _ s hne, ?_⟩
    simpa [getG_groupsOf] using hp

theorem mem_cut {d : Nat} {es : List DirEntry} {p : String} (h : p ∈ cut d es) :
    ∃ e ∈ es, e.path = p := by
  obtain ⟨e, he, rfl⟩ := List.mem_map.1 h
  exact ⟨e, mem_sortByKey.1 (List.mem_of_mem_take he), rfl⟩

theorem cut_of_le {d : Nat} {es : List DirEntry} (h : es.length ≤ d) :
    cut d es = (sortByKey es).map (·.path) := by
  unfold cut
  rw [List.take_of_length_le (by rw [sortByKey_length]; exact h)]

theorem path_inj {l : List DirEntry} (h : (l.map (·.path)).Nodup) {a b : DirEntry}
    (ha : a ∈ l) (hb : b ∈ l) (hab : a.path = b.path) : a = b := by
  induction l with
  | nil => simp at ha
  | cons x xs ih =>
    simp only [List.map_cons, List.nodup_cons, List.mem_map, not_exists, not_and] at h
    rcases List.mem_cons.1 ha with rfl | ha' <;> rcases List.mem_cons.1 hb with rfl | hb'
    · rfl
    · exact absurd hab.symm (h.1 b hb')
    · exact absurd hab (h.1 a ha')
    · exact ih h.2 ha' hb'

theorem mem_keptOf (l : List DirEntry) (hwf : WFList l) (p : String) :
    p ∈ keptOf (l.filter (·.isFile)) ↔
      ∃ e ∈ l, e.isFile = true ∧ (e.cls = .plain ∨ ∃ s, e.cls = .live s) ∧ e.path = p := by
  unfold keptOf
  rw [List.mem_filterMap]
  constructor
  · rintro ⟨e, he, hp⟩
    obtain ⟨hel, hf⟩ := List.mem_filter.1 he
    refine ⟨e, hel, hf, ?_⟩
    cases hc : e.cls with
    | plain => rw [hc] at hp; simp at hp; exact ⟨Or.inl rfl, hp⟩
    | live st =>
      rw [hc] at hp; simp at hp
      exact ⟨Or.inr ⟨st, rfl⟩, by rw [hwf.2 e hel st hc]; exact hp⟩
    | rotated st => rw [hc] at hp; simp at hp
  · rintro ⟨e, hel, hf, hc, hp⟩
    refine ⟨e, List.mem_filter.2 ⟨hel, hf⟩, ?_⟩
    rcases hc with hc | ⟨st, hc⟩
    · rw [hc]; simp [hp]
    · rw [hc]; simp; rw [← hwf.2 e hel st hc]; exact hp

/-- membership in the output of `filteredDir` -/
theorem mem_filteredDir (l : List DirEntry) (hwf : WFList l) (d : Nat) (p : String) :
    p ∈ filteredDir l d ↔
      (∃ e ∈ l, e.isFile = true ∧ (e.cls = .plain ∨ ∃ s, e.cls = .live s) ∧ e.path = p) ∨
      (∃ s, p ∈ cut d (rot l s)) := by
  rw [filteredDir_eq, List.mem_append, mem_keptOf l hwf, ← mem_groups_flatMap]

theorem keptOf_eq_map (files : List DirEntry)
    (h : ∀ e ∈ files, ∀ s, e.cls = .live s → e.path = s ++ ".log") :
    keptOf files =
      (files.filter (fun e => match e.cls with | .rotated _ => false | _ => true)).map (·.path) := by
  induction files with
  | nil => rfl
  | cons e files ih =>
    have ih' := ih (fun e' he' => h e' (List.mem_cons_of_mem _ he'))
    unfold keptOf at ih' ⊢
    rw [List.filterMap_cons, List.filter_cons]
    cases hc : e.cls with
    | plain => simp [ih']
    | live st => simp [ih', h e List.mem_cons_self st hc]
    | rotated st => simp [ih']

theorem keptOf_nodup (l : List DirEntry) (hwf : WFList l) :
    (keptOf (l.filter (·.isFile))).Nodup := by
  rw [keptOf_eq_map _ (fun e he => hwf.2 e (List.mem_filter.1 he).1)]
  exact List.Sublist.nodup
    ((List.filter_sublist.trans List.filter_sublist).map _) hwf.1

theorem cut_nodup (l : List DirEntry) (hwf : WFList l) (d : Nat) (s : String) :
    (cut d (rot l s)).Nodup := by
  unfold cut
  refine List.Sublist.nodup ((List.take_sublist d _).map _) ?_
  rw [((sortByKey_perm (rot l s)).map _).nodup_iff]
  exact List.Sublist.nodup (List.filter_sublist.map _) hwf.1

theorem filteredDir_nodup (l : List DirEntry) (hwf : WFList l) (d : Nat) :
    (filteredDir l d).Nodup := by
  rw [filteredDir_eq]
  refine List.nodup_append.2 ⟨keptOf_nodup l hwf, ?_, ?_⟩
  · show List.Pairwise (· ≠ ·) _
    rw [List.pairwise_flatMap]
    constructor
    · intro q hq
      rw [groupsOf_snd l q hq]
      exact cut_nodup l hwf d q.1
    · have hk := keys_groupsOf_nodup l
      have hk' : (groupsOf l).Pairwise (fun a b => a.1 ≠ b.1) := by
        have := hk
        unfold keys at this
        exact (List.pairwise_map.1 this)
      refine List.Pairwise.imp_of_mem ?_ hk'
      intro a b ha hb hab x hx y hy hxy
      rw [groupsOf_snd l a ha] at hx
      rw [groupsOf_snd l b hb] at hy
      obtain ⟨ex, hex, rfl⟩ := mem_cut hx
      obtain ⟨ey, hey, hyp⟩ := mem_cut hy
      have hex' := mem_rot.1 hex
      have hey' := mem_rot.1 hey
      have heq : ex = ey := path_inj hwf.1 hex'.1 hey'.1 (hxy.trans hyp.symm)
      subst heq
      have := hex'.2.2.symm.trans hey'.2.2
      exact hab (NameCls.rotated.inj this)
  · intro x hx y hy hxy
    subst hxy
    obtain ⟨e, hel, hf, hc, hp⟩ := (mem_keptOf l hwf x).1 hx
    obtain ⟨s, hs⟩ := (mem_groups_flatMap l d x).1 hy
    obtain ⟨e', he', hp'⟩ := mem_cut hs
    have he'' := mem_rot.1 he'
    have heq : e = e' := path_inj hwf.1 hel he''.1 (hp.trans hp'.symm)
    subst heq
    rcases hc with hc | ⟨st, hc⟩ <;> rw [hc] at he'' <;> exact absurd he''.2.2 (by simp)

/-- exact form of the cap: the output restricted to the paths of the rotated copies of stem `s`
    is the sorted group cut at `depth` -/
theorem filteredDir_filter_rot (l : List DirEntry) (hwf : WFList l) (d : Nat) (s : String) :
    (filteredDir l d).filter (fun p => (rot l s).any (·.path == p)) = cut d (rot l s) := by
  rw [filteredDir_eq, List.filter_append, List.filter_flatMap]
  have h1 : (keptOf (l.filter (·.isFile))).filter (fun p => (rot l s).any (·.path == p)) = [] := by
    apply List.filter_eq_nil_iff.2
    intro p hp hq
    obtain ⟨e, hel, hf, hc, hpe⟩ := (mem_keptOf l hwf p).1 hp
    obtain ⟨e', he', hpe'⟩ := List.any_eq_true.1 hq
    have hpe'' : e'.path = p := by simpa using hpe'
    have he'' := mem_rot.1 he'
    have heq : e = e' := path_inj hwf.1 hel he''.1 (hpe.trans hpe''.symm)
    subst heq
    rcases hc with hc | ⟨st, hc⟩ <;> rw [hc] at he'' <;> exact absurd he''.2.2 (by simp)
  rw [h1, List.nil_append]
  rw [flatMap_congr_mem (groupsOf l) _ (fun q => if q.1 == s then cut d q.2 else []) ?_]
  · rw [flatMap_select _ (keys_groupsOf_nodup l) (cut d) (cut_nil d) s, getG_groupsOf]
  · intro q hq
    have hq2 := groupsOf_snd l q hq
    by_cases hs : q.1 = s
    · have : (q.1 == s) = true := by simpa using hs
      rw [this, if_pos rfl]
      apply List.filter_eq_self.2
      intro x hx
      rw [hq2, hs] at hx
      obtain ⟨e, he, hpe⟩ := mem_cut hx
      exact List.any_eq_true.2 ⟨e, he, by simpa using hpe⟩
    · have : (q.1 == s) = false := by simpa using hs
      rw [this]
      simp only [Bool.false_eq_true, if_false]
      apply List.filter_eq_nil_iff.2
      intro x hx hq'
      rw [hq2] at hx
      obtain ⟨e, he, hpe⟩ := mem_cut hx
      obtain ⟨e', he', hpe'⟩ := List.any_eq_true.1 hq'
      have hpe'' : e'.path = x := by simpa using hpe'
      have h1 := mem_rot.1 he
      have h2 := mem_rot.1 he'
      have heq : e = e' := path_inj hwf.1 h1.1 h2.1 (hpe.trans hpe''.symm)
      subst heq
      exact hs (NameCls.rotated.inj (h1.2.2.symm.trans h2.2.2))

/-! ## 4. `registerPath` / `register` -/

theorem registerPath_eq (es : Entries) (search : Nat) (path : String) :
    registerPath es search path = addTo es path search := rfl

theorem keys_register_nodup (exp : List String) (es : Entries) (search : Nat)
    (h : (keys es).Nodup) : (keys (register es search exp)).Nodup := by
  induction exp generalizing es with
  | nil => exact h
  | cons p exp ih =>
    show (keys (register (registerPath es search p) search exp)).Nodup
    exact ih _ (keys_addTo_nodup es p search h)

theorem mem_keys_register (exp : List String) (es : Entries) (search : Nat) (q : String) :
    q ∈ keys (register es search exp) ↔ q ∈ keys es ∨ q ∈ exp := by
  induction exp generalizing es with
  | nil => simp [register]
  | cons p exp ih =>
    show q ∈ keys (register (registerPath es search p) search exp) ↔ _
    rw [ih, registerPath_eq, mem_keys_addTo, List.mem_cons]
    constructor
    · rintro ((h | h) | h)
      · exact Or.inl h
      · exact Or.inr (Or.inl h)
      · exact Or.inr (Or.inr h)
    · rintro (h | h | h)
      · exact Or.inl (Or.inl h)
      · exact Or.inl (Or.inr h)
      · exact Or.inr h

/-- reading the catalog after one registration -/
theorem lookup_register (exp : List String) (hexp : exp.Nodup) (es : Entries) (search : Nat)
    (q : String) :
    (register es search exp).lookup q =
      if q ∈ exp then some ((es.lookup q).getD [] ++ [search]) else es.lookup q := by
  induction exp generalizing es with
  | nil => simp [register]
  | cons p exp ih =>
    have hn := List.nodup_cons.1 hexp
    show (register (registerPath es search p) search exp).lookup q = _
    rw [ih hn.2, registerPath_eq, lookup_addTo]
    by_cases hq : q ∈ exp
    · have hqp : q ≠ p := fun h => hn.1 (h ▸ hq)
      simp [hq, hqp]
    · by_cases hqp : q = p
      · subst hqp; simp [hq]
      · simp [hq, hqp]

/-- how one registration combines with what was there -/
def combine (o : Option (List Nat)) (ss : List Nat) : Option (List Nat) :=
  if ss = [] then o else some (o.getD [] ++ ss)

/-- the searches registered for `p` by a list of registrations, in order -/
def searchesFor (regs : List (Nat × List String)) (p : String) : List Nat :=
  regs.filterMap (fun r => if r.2.contains p then some r.1 else none)

theorem lookup_registerAll (regs : List (Nat × List String))
    (hregs : ∀ r ∈ regs, r.2.Nodup) (acc : Entries) (p : String) :
    (regs.foldl (fun acc r => register acc r.1 r.2) acc).lookup p =
      combine (acc.lookup p) (searchesFor regs p) := by
  induction regs generalizing acc with
  | nil => simp [combine, searchesFor]
  | cons r regs ih =>
    simp only [List.foldl_cons]
    rw [ih (fun r' hr' => hregs r' (List.mem_cons_of_mem _ hr')),
      lookup_register r.2 (hregs r List.mem_cons_self)]
    unfold searchesFor
    rw [List.filterMap_cons]
    by_cases hp : p ∈ r.2
    · have : r.2.contains p = true := by simpa using hp
      simp only [hp, this, if_true]
      generalize List.filterMap (fun r : Nat × List String =>
        if r.2.contains p = true then some r.1 else none) regs = ss
      unfold combine
      by_cases hss : ss = []
      · subst hss; simp
      · simp [hss]
    · have : r.2.contains p = false := by simpa using hp
      simp [hp]

theorem keys_registerAll_nodup (regs : List (Nat × List String)) (acc : Entries)
    (h : (keys acc).Nodup) :
    (keys (regs.foldl (fun acc r => register acc r.1 r.2) acc)).Nodup := by
  induction regs generalizing acc with
  | nil => exact h
  | cons r regs ih => exact ih _ (keys_register_nodup r.2 acc r.1 h)

end Sk.Cat
