/-
  SkModel.Proofs.SeekShape — shape of the positions produced by the since-seeker and
  unreachability of the range assertions of `try_find_line`.
-/
import SkModel.Seeker

set_option linter.unusedSimpArgs false

namespace Sk

/-- `p` is 0 or the first byte after a line feed of the file -/
def IsLineStart (F : FileV) (p : Int) : Prop :=
  p = 0 ∨ ∃ i : Nat, p = (i : Int) + 1 ∧ i < F.len ∧ F.isLF i = true

namespace SeekShape

/-! ### scans -/

theorem rfindLF_some {F : FileV} {a k i : Nat} (h : rfindLF F a k = some i) :
    a ≤ i ∧ i < a + k ∧ i < F.len ∧ F.isLF i = true := by
  induction k with
  | zero => simp [rfindLF] at h
  | succ k ih =>
    simp only [rfindLF] at h
    split at h
    · rename_i hc
      simp only [Bool.and_eq_true, decide_eq_true_eq] at hc
      cases h
      exact ⟨by omega, by omega, hc.1, hc.2⟩
    · obtain ⟨h1, h2, h3, h4⟩ := ih h
      exact ⟨h1, by omega, h3, h4⟩

theorem findLF_some {F : FileV} {k : Nat} : ∀ {a i : Nat}, findLF F a k = some i →
    a ≤ i ∧ i < a + k ∧ i < F.len ∧ F.isLF i = true := by
  induction k with
  | zero => intro a i h; simp [findLF] at h
  | succ k ih =>
    intro a i h
    simp only [findLF] at h
    split at h
    · rename_i hc
      simp only [Bool.and_eq_true, decide_eq_true_eq] at hc
      cases h
      exact ⟨by omega, by omega, hc.1, hc.2⟩
    · obtain ⟨h1, h2, h3, h4⟩ := ih h
      exact ⟨by omega, by omega, h3, h4⟩

/-- a start-of-line token: beginning of file, or a real line feed below `bound` -/
def StartTok (F : FileV) (bound : Nat) (t : Tok) : Prop :=
  t = .edge 0 ∨ ∃ i : Nat, t = .found (i : Int) ∧ i < F.len ∧ F.isLF i = true ∧ i < bound

/-- an end-of-line token: end of file, or a real line feed at or after `bound` -/
def EndTok (F : FileV) (bound : Nat) (t : Tok) : Prop :=
  t = .edge (F.len : Int) ∨ ∃ j : Nat, t = .found (j : Int) ∧ j < F.len ∧ F.isLF j = true ∧ bound ≤ j

theorem ftr_window (K : SeekK) (start : Nat) (cur : Int) (hc : cur ≤ -(K.H : Int)) :
    (if (start : Int) + cur > 0 then ((start : Int) + cur).toNat else 0) +
      (if (start : Int) + cur > 0 then K.H else ((K.H : Int) + ((start : Int) + cur)).toNat) ≤ start := by
  split <;> omega

theorem ftrLoop_ok (K : SeekK) (F : FileV) (start : Nat) :
    ∀ (fuel : Nat) (cur : Int) (t : Tok), cur ≤ -(K.H : Int) →
      ftrLoop K F start fuel cur = .ok t → StartTok F start t := by
  intro fuel
  induction fuel with
  | zero => intro cur t _ h; simp [ftrLoop] at h
  | succ fuel ih =>
    intro cur t hc h
    simp only [ftrLoop] at h
    have hw := ftr_window K start cur hc
    generalize (if (start : Int) + cur > 0 then ((start : Int) + cur).toNat else 0) = readOff at h hw
    generalize (if (start : Int) + cur > 0 then K.H else ((K.H : Int) + ((start : Int) + cur)).toNat) = readSize at h hw
    split at h
    · cases h; exact Or.inl rfl
    · split at h
      · rename_i i hi
        cases h
        obtain ⟨h1, h2, h3, h4⟩ := rfindLF_some hi
        refine Or.inr ⟨i, rfl, h3, h4, ?_⟩
        simp only [readLen] at h2
        omega
      · split at h
        · cases h
        · split at h
          · cases h; exact Or.inl rfl
          · exact ih _ _ (by omega) h

theorem ftrLoop_err (K : SeekK) (F : FileV) (start : Nat) :
    ∀ (fuel : Nat) (cur : Int) (e : SeekErr),
      ftrLoop K F start fuel cur = .error e → e = .maxLineLen := by
  intro fuel
  induction fuel with
  | zero => intro cur e h; simp [ftrLoop] at h; exact h.symm
  | succ fuel ih =>
    intro cur e h
    simp only [ftrLoop] at h
    generalize (if (start : Int) + cur > 0 then ((start : Int) + cur).toNat else 0) = readOff at h
    generalize (if (start : Int) + cur > 0 then K.H else ((K.H : Int) + ((start : Int) + cur)).toNat) = readSize at h
    split at h
    · cases h
    · split at h
      · cases h
      · split at h
        · cases h; rfl
        · split at h
          · cases h
          · exact ih _ _ h

theorem ftLoop_ok (K : SeekK) (F : FileV) (start : Nat) :
    ∀ (fuel : Nat) (pos : Nat) (t : Tok), start ≤ pos →
      ftLoop K F fuel pos = .ok t → EndTok F start t := by
  intro fuel
  induction fuel with
  | zero => intro pos t _ h; simp [ftLoop] at h
  | succ fuel ih =>
    intro pos t hp h
    simp only [ftLoop] at h
    split at h
    · cases h; exact Or.inl rfl
    · split at h
      · rename_i i hi
        cases h
        obtain ⟨h1, h2, h3, h4⟩ := findLF_some hi
        exact Or.inr ⟨i, rfl, h3, h4, by omega⟩
      · exact ih _ _ (by omega) h

theorem ftLoop_err (K : SeekK) (F : FileV) :
    ∀ (fuel : Nat) (pos : Nat) (e : SeekErr),
      ftLoop K F fuel pos = .error e → e = .maxLineLen := by
  intro fuel
  induction fuel with
  | zero => intro pos e h; simp [ftLoop] at h; exact h.symm
  | succ fuel ih =>
    intro pos e h
    simp only [ftLoop] at h
    split at h
    · cases h
    · split at h
      · cases h
      · exact ih _ _ h

theorem findTokenReverse_ok {K : SeekK} {F : FileV} {start : Nat} {t : Tok}
    (h : findTokenReverse K F start = .ok t) : StartTok F start t :=
  ftrLoop_ok K F start _ _ _ (Int.le_refl _) h

theorem findTokenReverse_err {K : SeekK} {F : FileV} {start : Nat} {e : SeekErr}
    (h : findTokenReverse K F start = .error e) : e = .maxLineLen :=
  ftrLoop_err K F start _ _ _ h

theorem findToken_ok {K : SeekK} {F : FileV} {start : Nat} {t : Tok}
    (h : findToken K F start = .ok t) : EndTok F start t :=
  ftLoop_ok K F start _ _ _ (Nat.le_refl _) h

theorem findToken_err {K : SeekK} {F : FileV} {start : Nat} {e : SeekErr}
    (h : findToken K F start = .error e) : e = .maxLineLen :=
  ftLoop_err K F _ _ _ h

/-! ### `try_find_line` -/

def elfOf (K : SeekK) (F : FileV) (epi : Nat) : Option Int → Except SeekErr Tok
  | none => findToken K F epi
  | some o => .ok (.found o)

def slfOf (K : SeekK) (F : FileV) (epi : Nat) : Option Int → Except SeekErr Tok
  | none => findTokenReverse K F epi
  | some o => .ok (.found o)

abbrev RangeOK (F : FileV) (slf elf : Tok) : Prop :=
  slf.off ≤ F.len ∧ 0 ≤ slf.off ∧ elf.off ≤ F.len ∧ 0 ≤ elf.off ∧ slf.off ≤ elf.off


theorem tryFindLine_eq (K : SeekK) (F : FileV) (epi : Nat) (so eo : Option Int) :
    tryFindLine K F epi so eo =
      (elfOf K F epi eo).bind fun elf => (slfOf K F epi so).bind fun slf =>
        if RangeOK F slf elf then .ok ⟨slf, elf⟩ else .error .assertFailed := by
  cases so <;> cases eo <;> rfl

theorem tfl_ok {K : SeekK} {F : FileV} {epi : Nat} {so eo : Option Int} {l : LLine}
    (h : tryFindLine K F epi so eo = .ok l) :
    elfOf K F epi eo = .ok l.elf ∧ slfOf K F epi so = .ok l.slf ∧ RangeOK F l.slf l.elf := by
  rw [tryFindLine_eq] at h
  cases he : elfOf K F epi eo with
  | error e => rw [he] at h; cases h
  | ok elf =>
    cases hs : slfOf K F epi so with
    | error e => rw [he, hs] at h; cases h
    | ok slf =>
      rw [he, hs] at h
      simp only [Except.bind] at h
      split at h
      · cases h; exact ⟨rfl, rfl, by assumption⟩
      · cases h

theorem elfOf_err {K : SeekK} {F : FileV} {epi : Nat} {eo : Option Int} {e : SeekErr}
    (h : elfOf K F epi eo = .error e) : e = .maxLineLen := by
  cases eo with
  | none => exact findToken_err h
  | some o => cases h

theorem slfOf_err {K : SeekK} {F : FileV} {epi : Nat} {so : Option Int} {e : SeekErr}
    (h : slfOf K F epi so = .error e) : e = .maxLineLen := by
  cases so with
  | none => exact findTokenReverse_err h
  | some o => cases h

theorem tfl_assert {K : SeekK} {F : FileV} {epi : Nat} {so eo : Option Int}
    (h : tryFindLine K F epi so eo = .error .assertFailed) :
    ∃ elf slf, elfOf K F epi eo = .ok elf ∧ slfOf K F epi so = .ok slf ∧ ¬ RangeOK F slf elf := by
  rw [tryFindLine_eq] at h
  cases he : elfOf K F epi eo with
  | error e =>
    rw [he] at h
    have := elfOf_err he
    subst this
    cases h
  | ok elf =>
    cases hs : slfOf K F epi so with
    | error e =>
      rw [he, hs] at h
      have := slfOf_err hs
      subst this
      cases h
    | ok slf =>
      rw [he, hs] at h
      simp only [Except.bind] at h
      split at h
      · cases h
      · exact ⟨elf, slf, rfl, rfl, by assumption⟩

@[simp] theorem off_found (o : Int) : (Tok.found o).off = o := rfl
@[simp] theorem off_edge (o : Int) : (Tok.edge o).off = o := rfl

theorem StartTok.range {F : FileV} {b : Nat} {t : Tok} (h : StartTok F b t) :
    0 ≤ t.off ∧ t.off ≤ F.len ∧ t.off ≤ b := by
  rcases h with rfl | ⟨i, rfl, h1, _, h3⟩
  · simp only [off_found, off_edge]; omega
  · simp only [off_found, off_edge]; omega

theorem EndTok.range {F : FileV} {b : Nat} {t : Tok} (h : EndTok F b t) :
    0 ≤ t.off ∧ t.off ≤ F.len ∧ (t = .edge (F.len : Int) ∨ (b : Int) ≤ t.off) := by
  rcases h with rfl | ⟨i, rfl, h1, _, h3⟩
  · refine ⟨?_, ?_, Or.inl rfl⟩ <;> simp only [off_edge] <;> omega
  · refine ⟨?_, ?_, Or.inr ?_⟩ <;> simp only [off_found] <;> omega

theorem tfl_na_nn (K : SeekK) (F : FileV) (epi : Nat) :
    tryFindLine K F epi none none ≠ .error .assertFailed := by
  intro h
  obtain ⟨elf, slf, he, hs, hr⟩ := tfl_assert h
  have h1 := (findToken_ok he).range
  have h2 := (findTokenReverse_ok hs).range
  apply hr
  rcases h1 with ⟨a1, a2, rfl | a3⟩
  · simp only [RangeOK, off_found, off_edge] at *; omega
  · simp only [RangeOK]; omega

theorem tfl_na_bwd (K : SeekK) (F : FileV) (epi : Nat) (o : Int)
    (h0 : 0 ≤ o) (h1 : o ≤ F.len) (h2 : (epi : Int) ≤ o) :
    tryFindLine K F epi none (some o) ≠ .error .assertFailed := by
  intro h
  obtain ⟨elf, slf, he, hs, hr⟩ := tfl_assert h
  cases he
  have h2 := (findTokenReverse_ok hs).range
  apply hr
  simp only [RangeOK, off_found, off_edge]; omega

theorem tfl_na_fwd (K : SeekK) (F : FileV) (epi : Nat) (o : Int)
    (h0 : 0 ≤ o) (h1 : o ≤ F.len) (h2 : o ≤ (epi : Int)) :
    tryFindLine K F epi (some o) none ≠ .error .assertFailed := by
  intro h
  obtain ⟨elf, slf, he, hs, hr⟩ := tfl_assert h
  cases hs
  have h1 := (findToken_ok he).range
  apply hr
  rcases h1 with ⟨a1, a2, rfl | a3⟩
  · simp only [RangeOK, off_found, off_edge] at *; omega
  · simp only [RangeOK, off_found, off_edge]; omega

theorem bind_na {α β : Type} {x : Except SeekErr α} {f : α → Except SeekErr β}
    (hx : x ≠ .error .assertFailed) (hf : ∀ v, x = .ok v → f v ≠ .error .assertFailed) :
    x.bind f ≠ .error .assertFailed := by
  cases x with
  | error e => intro h; apply hx; simpa [Except.bind] using h
  | ok v => exact hf v rfl

theorem bind_ok {α β : Type} {x : Except SeekErr α} {f : α → Except SeekErr β} {r : β}
    (h : x.bind f = .ok r) : ∃ v, x = .ok v ∧ f v = .ok r := by
  cases x with
  | error e => cases h
  | ok v => exact ⟨v, rfl, h⟩

/-! ### `try_find_line_with_date` -/

/-- start token that is a real line boundary -/
def RealStart (F : FileV) (t : Tok) : Prop :=
  t = .edge 0 ∨ ∃ i : Nat, t = .found (i : Int) ∧ i < F.len ∧ F.isLF i = true

/-- end token that is a real line boundary -/
def RealEnd (F : FileV) (t : Tok) : Prop :=
  t = .edge (F.len : Int) ∨ ∃ j : Nat, t = .found (j : Int) ∧ j < F.len ∧ F.isLF j = true

theorem StartTok.real {F : FileV} {b : Nat} {t : Tok} (h : StartTok F b t) : RealStart F t := by
  rcases h with rfl | ⟨i, rfl, h1, h2, _⟩
  · exact Or.inl rfl
  · exact Or.inr ⟨i, rfl, h1, h2⟩

theorem EndTok.real {F : FileV} {b : Nat} {t : Tok} (h : EndTok F b t) : RealEnd F t := by
  rcases h with rfl | ⟨i, rfl, h1, h2, _⟩
  · exact Or.inl rfl
  · exact Or.inr ⟨i, rfl, h1, h2⟩

theorem twd_bwd_succ (K : SeekK) (F : FileV) (ts : Nat → Option Int) (fuel off : Nat)
    (lfo : Option Int) :
    twdLoop K F ts false (fuel + 1) off lfo =
      (tryFindLine K F off none lfo).bind fun l =>
        match l.date ts with
        | some _ => .ok (some l)
        | none =>
          if l.slf.off - 1 < 0 ∨ l.slf.off - 1 > F.len then .ok none
          else twdLoop K F ts false fuel (l.slf.off - 1).toNat (some l.slf.off) := rfl

theorem twd_fwd_succ (K : SeekK) (F : FileV) (ts : Nat → Option Int) (fuel off : Nat)
    (lfo : Option Int) :
    twdLoop K F ts true (fuel + 1) off lfo =
      (tryFindLine K F off lfo none).bind fun l =>
        match l.date ts with
        | some _ => .ok (some l)
        | none =>
          if l.elf.off + 1 < 0 ∨ l.elf.off + 1 > F.len then .ok none
          else twdLoop K F ts true fuel (l.elf.off + 1).toNat (some l.elf.off) := rfl

/-- backwards walk: every hit starts at a real line boundary and is dated -/
theorem twd_bwd_res (K : SeekK) (F : FileV) (ts : Nat → Option Int) :
    ∀ (fuel off : Nat) (lfo : Option Int) (l : LLine),
      twdLoop K F ts false fuel off lfo = .ok (some l) →
        RealStart F l.slf ∧ RangeOK F l.slf l.elf ∧ (l.date ts).isSome := by
  intro fuel
  induction fuel with
  | zero => intro off lfo l h; simp [twdLoop] at h
  | succ fuel ih =>
    intro off lfo l h
    rw [twd_bwd_succ] at h
    obtain ⟨l0, h0, h⟩ := bind_ok h
    obtain ⟨_, hs, hr⟩ := tfl_ok h0
    split at h
    · rename_i d hd
      cases h
      exact ⟨(findTokenReverse_ok hs).real, hr, by simp [hd]⟩
    · split at h
      · cases h
      · exact ih _ _ _ h

theorem twd_bwd_na (K : SeekK) (F : FileV) (ts : Nat → Option Int) :
    ∀ (fuel off : Nat) (lfo : Option Int),
      (∀ o, lfo = some o → 0 ≤ o ∧ o ≤ F.len ∧ (off : Int) ≤ o) →
        twdLoop K F ts false fuel off lfo ≠ .error .assertFailed := by
  intro fuel
  induction fuel with
  | zero => intro off lfo _ h; simp [twdLoop] at h
  | succ fuel ih =>
    intro off lfo hl
    rw [twd_bwd_succ]
    apply bind_na
    · cases lfo with
      | none => exact tfl_na_nn K F off
      | some o =>
        obtain ⟨a, b, c⟩ := hl o rfl
        exact tfl_na_bwd K F off o a b c
    · intro l0 h0
      obtain ⟨_, hs, hr⟩ := tfl_ok h0
      split
      · intro h; cases h
      · split
        · intro h; cases h
        · rename_i hg
          apply ih
          intro o ho
          cases ho
          simp only [RangeOK] at hr
          omega

/-- forwards walk: a hit starts at the caller's line feed or at a real one, ends at a real
    line boundary, and is dated -/
theorem twd_fwd_res (K : SeekK) (F : FileV) (ts : Nat → Option Int) :
    ∀ (fuel off : Nat) (lfo : Option Int) (l : LLine),
      twdLoop K F ts true fuel off lfo = .ok (some l) →
        ((∃ o, lfo = some o ∧ l.slf = .found o) ∨ RealStart F l.slf) ∧ RealEnd F l.elf ∧
          RangeOK F l.slf l.elf ∧ (l.date ts).isSome := by
  intro fuel
  induction fuel with
  | zero => intro off lfo l h; simp [twdLoop] at h
  | succ fuel ih =>
    intro off lfo l h
    rw [twd_fwd_succ] at h
    obtain ⟨l0, h0, h⟩ := bind_ok h
    obtain ⟨he, hs, hr⟩ := tfl_ok h0
    have hend := findToken_ok he
    split at h
    · rename_i d hd
      cases h
      refine ⟨?_, hend.real, hr, by simp [hd]⟩
      cases lfo with
      | none => exact Or.inr (findTokenReverse_ok hs).real
      | some o => injection hs with hs; exact Or.inl ⟨o, rfl, hs.symm⟩
    · split at h
      · cases h
      · rename_i hg
        obtain ⟨h1, h2, h3, h4⟩ := ih _ _ _ h
        refine ⟨Or.inr ?_, h2, h3, h4⟩
        rcases h1 with ⟨o, ho, hso⟩ | h1
        · cases ho
          rcases hend with hE | ⟨j, hj, j1, j2, _⟩
          · rw [hE] at hg; simp only [off_edge] at hg; omega
          · rw [hj] at hso; simp only [off_found] at hso
            exact Or.inr ⟨j, hso, j1, j2⟩
        · exact h1

theorem twd_fwd_na (K : SeekK) (F : FileV) (ts : Nat → Option Int) :
    ∀ (fuel off : Nat) (lfo : Option Int),
      (∀ o, lfo = some o → 0 ≤ o ∧ o ≤ F.len ∧ o ≤ (off : Int)) →
        twdLoop K F ts true fuel off lfo ≠ .error .assertFailed := by
  intro fuel
  induction fuel with
  | zero => intro off lfo _ h; simp [twdLoop] at h
  | succ fuel ih =>
    intro off lfo hl
    rw [twd_fwd_succ]
    apply bind_na
    · cases lfo with
      | none => exact tfl_na_nn K F off
      | some o =>
        obtain ⟨a, b, c⟩ := hl o rfl
        exact tfl_na_fwd K F off o a b c
    · intro l0 h0
      obtain ⟨_, hs, hr⟩ := tfl_ok h0
      split
      · intro h; cases h
      · split
        · intro h; cases h
        · rename_i hg
          apply ih
          intro o ho
          cases ho
          simp only [RangeOK] at hr
          omega

/-! ### `__getitem__` -/

def fin (r : Option LLine) : Except SeekErr LLine :=
  match r with
  | some l => .ok l
  | none => .error .tooManyUndated

theorem getItem_eq (K : SeekK) (F : FileV) (ts : Nat → Option Int) (off : Nat) :
    getItem K F ts off =
      (tryFindLineWithDate K F ts off none false).bind fun r =>
        match r with
        | some l => .ok l
        | none =>
          (tryFindLineWithDate K F ts (off + 1) (some (off : Int)) true).bind fun r =>
            match r with
            | some l =>
              if l.slf.off = off ∧ !(off < F.len && F.isLF off) then
                match l.elf with
                | .found e => (tryFindLineWithDate K F ts (e + 1).toNat (some e) true).bind fin
                | .edge _ => .error .tooManyUndated
              else .ok l
            | none => .error .tooManyUndated := rfl

theorem getItem_res {K : SeekK} {F : FileV} {ts : Nat → Option Int} {off : Nat} {l : LLine}
    (h : getItem K F ts off = .ok l) :
    RealStart F l.slf ∧ RangeOK F l.slf l.elf ∧ (l.date ts).isSome := by
  rw [getItem_eq] at h
  obtain ⟨r1, h1, h⟩ := bind_ok h
  cases r1 with
  | some l1 =>
    dsimp only at h
    injection h with h
    subst h
    exact twd_bwd_res K F ts _ _ _ _ h1
  | none =>
    dsimp only at h
    obtain ⟨r2, h2, h⟩ := bind_ok h
    cases r2 with
    | none => cases h
    | some l2 =>
      dsimp only at h
      obtain ⟨a1, a2, a3, a4⟩ := twd_fwd_res K F ts _ _ _ _ h2
      split at h
      · split at h
        · rename_i e he
          obtain ⟨r3, h3, h⟩ := bind_ok h
          cases r3 with
          | none => cases h
          | some l3 =>
            simp only [fin] at h
            injection h with h
            subst h
            obtain ⟨b1, b2, b3, b4⟩ := twd_fwd_res K F ts _ _ _ _ h3
            refine ⟨?_, b3, b4⟩
            rcases b1 with ⟨o, ho, hso⟩ | b1
            · injection ho with ho
              subst ho
              rw [he] at a2
              rcases a2 with a2 | ⟨j, hj, j1, j2⟩
              · cases a2
              · injection hj with hj
                subst hj
                exact Or.inr ⟨j, hso, j1, j2⟩
            · exact b1
        · cases h
      · rename_i hc
        injection h with h
        subst h
        refine ⟨?_, a3, a4⟩
        rcases a1 with ⟨o, ho, hso⟩ | a1
        · injection ho with ho
          subst ho
          rw [hso] at hc
          simp only [off_found, true_and, Bool.not_eq_true', Bool.not_eq_false,
            Bool.and_eq_true, decide_eq_true_eq] at hc
          exact Or.inr ⟨off, hso, hc.1, hc.2⟩
        · exact a1

theorem getItem_na (K : SeekK) (F : FileV) (ts : Nat → Option Int) (off : Nat)
    (hoff : off ≤ F.len) : getItem K F ts off ≠ .error .assertFailed := by
  rw [getItem_eq]
  apply bind_na
  · apply twd_bwd_na
    intro o ho; cases ho
  · intro r1 _
    cases r1 with
    | some l1 => intro h; cases h
    | none =>
      dsimp only
      apply bind_na
      · apply twd_fwd_na
        intro o ho
        injection ho with ho
        subst ho
        omega
      · intro r2 h2
        cases r2 with
        | none => intro h; cases h
        | some l2 =>
          dsimp only
          obtain ⟨a1, a2, a3, a4⟩ := twd_fwd_res K F ts _ _ _ _ h2
          split
          · split
            · rename_i e he
              apply bind_na
              · apply twd_fwd_na
                intro o ho
                injection ho with ho
                subst ho
                rw [he] at a3
                simp only [RangeOK, off_found] at a3
                omega
              · intro r3 _
                cases r3 <;> (intro h; cases h)
            · intro h; cases h
          · intro h; cases h

/-! ### bisection, `run`, `apply_to_file` -/

theorem bis_inv (K : SeekK) (F : FileV) (ts : Nat → Option Int) (since : Int)
    (P : LLine → Prop)
    (hP : ∀ off l, off < F.len → getItem K F ts off = .ok l → P l) :
    ∀ (fuel lo hi : Nat) (st : BisSt) (r : Nat) (st' : BisSt), hi ≤ F.len →
      (∀ l, st.lineInfo = some l → P l) →
      bisectLoop K F ts since fuel lo hi st = .ok (r, st') →
        ∀ l, st'.lineInfo = some l → P l := by
  intro fuel
  induction fuel with
  | zero =>
    intro lo hi st r st' _ hst h
    simp only [bisectLoop] at h
    injection h with h
    injection h with _ h
    subst h
    exact hst
  | succ fuel ih =>
    intro lo hi st r st' hhi hst h
    simp only [bisectLoop] at h
    split at h
    · rename_i hlt
      split at h
      · cases h
      · rename_i l0 hg
        have hPl : P l0 := hP _ _ (by omega) hg
        split at h
        · refine ih _ _ _ _ _ hhi ?_ h
          intro l hl
          dsimp only at hl
          split at hl
          · injection hl with hl; subst hl; exact hPl
          · exact hst l hl
        · refine ih _ _ _ _ _ (by omega) ?_ h
          intro l hl
          dsimp only at hl
          split at hl
          · injection hl with hl; subst hl; exact hPl
          · exact hst l hl
    · injection h with h
      injection h with _ h
      subst h
      exact hst

theorem bis_na (K : SeekK) (F : FileV) (ts : Nat → Option Int) (since : Int) :
    ∀ (fuel lo hi : Nat) (st : BisSt) (e : SeekErr) (st' : BisSt), hi ≤ F.len →
      bisectLoop K F ts since fuel lo hi st = .error (e, st') → e ≠ .assertFailed := by
  intro fuel
  induction fuel with
  | zero =>
    intro lo hi st e st' _ h
    simp only [bisectLoop] at h
    cases h
  | succ fuel ih =>
    intro lo hi st e st' hhi h
    simp only [bisectLoop] at h
    split at h
    · rename_i hlt
      split at h
      · rename_i e0 hg
        injection h with h
        injection h with h _
        subst h
        intro he
        subst he
        exact getItem_na K F ts _ (by omega) hg
      · split at h
        · exact ih _ _ _ _ _ hhi h
        · exact ih _ _ _ _ _ (by omega) h
    · cases h

theorem seekerRun_eq (K : SeekK) (F : FileV) (ts : Nat → Option Int) (since : Int)
    (pos0 : Nat) :
    seekerRun K F ts since pos0 =
      (tryFindLineWithDate K F ts F.len none false).bind fun _ =>
        if (match ts 0 with
            | some d => decide (d ≥ since)
            | none => false) = true then .ok (pos0 : Int)
        else
          match bisectLoop K F ts since (F.len + 1) 0 F.len {} with
          | .error (.tooManyUndated, st) =>
            if st.foundAny then .error .tooManyUndated else .error .noTimestamps
          | .error (e, _) => .error e
          | .ok (_, st) =>
            match st.lineInfo with
            | some l => .ok l.startOffset
            | none => .error .noValidLines := rfl

/-- what `run` can return: the initial position, or the start of a dated real line -/
theorem seekerRun_ok {K : SeekK} {F : FileV} {ts : Nat → Option Int} {since : Int}
    {pos0 : Nat} {p : Int} (h : seekerRun K F ts since pos0 = .ok p) :
    p = pos0 ∨ ∃ l : LLine, p = l.startOffset ∧ RealStart F l.slf := by
  rw [seekerRun_eq] at h
  obtain ⟨_, _, h⟩ := bind_ok h
  generalize (match ts 0 with
            | some d => decide (d ≥ since)
            | none => false) = sc at h
  split at h
  · injection h with h; exact Or.inl h.symm
  · cases hb : bisectLoop K F ts since (F.len + 1) 0 F.len {} with
    | error es =>
      obtain ⟨e, st⟩ := es
      rw [hb] at h
      cases e <;> dsimp only at h <;> (try split at h) <;> cases h
    | ok rs =>
      obtain ⟨r, st⟩ := rs
      rw [hb] at h
      dsimp only at h
      split at h
      · rename_i l hl
        injection h with h
        refine Or.inr ⟨l, h.symm, ?_⟩
        refine bis_inv K F ts since (fun l => RealStart F l.slf)
          (fun off l _ hg => (getItem_res hg).1) _ _ _ _ _ _ (Nat.le_refl _) ?_ hb l hl
        intro l hl; cases hl
      · cases h

theorem seekerRun_na (K : SeekK) (F : FileV) (ts : Nat → Option Int) (since : Int)
    (pos0 : Nat) : seekerRun K F ts since pos0 ≠ .error .assertFailed := by
  rw [seekerRun_eq]
  apply bind_na
  · apply twd_bwd_na
    intro o ho; cases ho
  · intro _ _
    generalize (match ts 0 with
            | some d => decide (d ≥ since)
            | none => false) = sc
    split
    · intro h; cases h
    · cases hb : bisectLoop K F ts since (F.len + 1) 0 F.len {} with
      | error es =>
        obtain ⟨e, st⟩ := es
        have hne := bis_na K F ts since _ _ _ _ _ _ (Nat.le_refl _) hb
        cases e <;> dsimp only <;> (try split) <;> (intro h; first | exact hne rfl | cases h)
      | ok rs =>
        obtain ⟨r, st⟩ := rs
        dsimp only
        split <;> (intro h; cases h)

theorem RealStart_lineStart {F : FileV} {l : LLine} (h : RealStart F l.slf) :
    IsLineStart F l.startOffset ∧ 0 ≤ l.startOffset ∧ l.startOffset ≤ F.len := by
  obtain ⟨slf, elf⟩ := l
  dsimp only at h
  rcases h with rfl | ⟨i, rfl, h1, h2⟩
  · show IsLineStart F 0 ∧ 0 ≤ (0 : Int) ∧ (0 : Int) ≤ F.len
    exact ⟨Or.inl rfl, by omega, by omega⟩
  · show IsLineStart F ((i : Int) + 1) ∧ 0 ≤ (i : Int) + 1 ∧ (i : Int) + 1 ≤ F.len
    exact ⟨Or.inr ⟨i, rfl, h1, h2⟩, by omega, by omega⟩

end SeekShape

/-- only dated lines are returned by `__getitem__` -/
theorem getItem_dated (K : SeekK) (F : FileV) (ts : Nat → Option Int) (off : Nat) (l : LLine)
    (h : getItem K F ts off = .ok l) : (l.date ts).isSome :=
  (SeekShape.getItem_res h).2.2

/-- `__getitem__` returns lines that start at 0 or right after a line feed of the file
    (holds for every `off`; the bisection only uses `off < F.len`) -/
theorem getItem_lineStart (K : SeekK) (F : FileV) (ts : Nat → Option Int) (off : Nat)
    (l : LLine) (_hoff : off < F.len) (h : getItem K F ts off = .ok l) :
    IsLineStart F l.startOffset ∧ 0 ≤ l.startOffset ∧ l.startOffset ≤ F.len :=
  SeekShape.RealStart_lineStart (SeekShape.getItem_res h).1

theorem seek_no_assert (K : SeekK) (_hH : 0 < K.H) (F : FileV) (ts : Nat → Option Int)
    (since : Int) : ∃ p, applyToFile K F ts since = .ok p := by
  unfold applyToFile
  split
  · exact ⟨_, rfl⟩
  · exact ⟨_, rfl⟩
  · exact ⟨_, rfl⟩
  · exact ⟨_, rfl⟩
  · exact ⟨_, rfl⟩
  · rename_i h
    exact absurd h (SeekShape.seekerRun_na K F ts since 0)

theorem C11_position_shape (K : SeekK) (_hH : 0 < K.H) (F : FileV) (ts : Nat → Option Int)
    (since : Int) (p : Nat) (h : applyToFile K F ts since = .ok p) :
    p = 0 ∨ p = F.len ∨ ∃ i, p = i + 1 ∧ i < F.len ∧ F.isLF i = true := by
  unfold applyToFile at h
  split at h
  · rename_i q hq
    injection h with h
    subst h
    rcases SeekShape.seekerRun_ok hq with hq | ⟨l, hl, hr⟩
    · subst hq; exact Or.inl rfl
    · subst hl
      rcases (SeekShape.RealStart_lineStart hr).1 with h0 | ⟨i, hi, h1, h2⟩
      · rw [h0]; exact Or.inl rfl
      · rw [hi]; exact Or.inr (Or.inr ⟨i, by omega, h1, h2⟩)
  · injection h with h; exact Or.inl h.symm
  · injection h with h; exact Or.inr (Or.inl h.symm)
  · injection h with h; exact Or.inl h.symm
  · injection h with h; exact Or.inr (Or.inl h.symm)
  · cases h

end Sk

#print axioms Sk.C11_position_shape
#print axioms Sk.seek_no_assert
#print axioms Sk.getItem_dated
#print axioms Sk.getItem_lineStart
