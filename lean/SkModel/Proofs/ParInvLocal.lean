/-
  SkModel.Proofs.ParInvLocal — invariant 2 of the concurrent store: every worker's local
  store satisfies the C15 invariant `Store.Inv` with respect to the blocks it was granted.

  `Store.Inv` and its lemmas want a total, pairwise disjoint supplier.  A worker's `PW.sup`
  is only meaningful below `grants.length`; `supx` extends the granted blocks by fresh blocks
  above the shared pointer (`ptr + k*B`), which are disjoint from every granted block because
  all granted blocks lie below the pointer (invariant 1).
-/
import SkModel.Proofs.ParInv

namespace Sk.Par
open Sk StoreInv

/-- the blocks granted so far, continued by fresh blocks above the pointer -/
def supx (B ptr : Nat) (grants : List Nat) : Nat → Nat := fun k => grants.getD k (ptr + k * B)

theorem supx_lt {B ptr : Nat} {grants : List Nat} {k : Nat} (h : k < grants.length) :
    supx B ptr grants k = grants[k] := by
  simp [supx, List.getD_eq_getElem?_getD, h]

theorem supx_ge {B ptr : Nat} {grants : List Nat} {k : Nat} (h : grants.length ≤ k) :
    supx B ptr grants k = ptr + k * B := by
  simp [supx, List.getD_eq_getElem?_getD, h]

theorem sup_lt {p : PW} {k : Nat} (h : k < p.grants.length) : p.sup k = p.grants[k] := by
  simp [PW.sup, List.getD_eq_getElem?_getD, h]

theorem supx_disjoint {B ptr : Nat} {grants : List Nat}
    (hbelow : ∀ g, g ∈ grants → g + B ≤ ptr)
    (hdisj : ∀ (i j a b : Nat), grants[i]? = some a → grants[j]? = some b → i ≠ j →
      a + B ≤ b ∨ b + B ≤ a) :
    BlocksDisjoint (supx B ptr grants) B := by
  intro i j hne
  by_cases hi : i < grants.length <;> by_cases hj : j < grants.length
  · rw [supx_lt hi, supx_lt hj]
    exact hdisj i j _ _ (List.getElem?_eq_getElem hi) (List.getElem?_eq_getElem hj) hne
  · rw [supx_lt hi, supx_ge (by omega)]
    have := hbelow _ (List.getElem_mem hi)
    left; omega
  · rw [supx_ge (by omega), supx_lt hj]
    have := hbelow _ (List.getElem_mem hj)
    right; omega
  · rw [supx_ge (by omega), supx_ge (by omega)]
    rcases Nat.lt_or_gt_of_ne hne with h | h
    · left
      have : (i + 1) * B ≤ j * B := Nat.mul_le_mul_right B h
      rw [Nat.succ_mul] at this; omega
    · right
      have : (j + 1) * B ≤ i * B := Nat.mul_le_mul_right B h
      rw [Nat.succ_mul] at this; omega

theorem div_lt_nblk {B L i : Nat} (hB : 0 < B) (hi : i < L) : i / B < (L + B - 1) / B := by
  rw [Nat.div_lt_iff_lt_mul hB]
  have h1 := Nat.div_add_mod (L + B - 1) B
  have h2 := Nat.mod_lt (L + B - 1) hB
  rw [Nat.mul_comm]; omega

/-- `Store.Inv` looks at the supplier only below `nblocks` -/
theorem inv_congr_sup {B : Nat} {sup sup' : Nat → Nat} {st : Store} (hB : 0 < B)
    (h : ∀ k, k < st.nblocks → sup k = sup' k) (inv : Store.Inv B true sup st) :
    Store.Inv B true sup' st := by
  obtain ⟨a1, a2, a3, a4, a5, a6, a7, a8⟩ := inv
  refine ⟨a1, a2, ?_, a4, a5, a6, a7, ?_⟩
  · rw [a3]
    apply List.map_congr_left
    intro i hi
    rw [List.mem_range] at hi
    simp only [slot, if_true]
    rw [h (i / B)]
    rw [a7]; simp only [if_true]
    exact div_lt_nblk hB hi
  · rw [a8]
    split
    · rfl
    · rw [h _ (by omega)]

structure Inv2 (B : Nat) (s : PState) : Prop where
  linv : ∀ w, Store.Inv B true (supx B s.ptr (s.ws w).grants) (s.ws w).st
  nb_le : ∀ w, (s.ws w).st.nblocks ≤ (s.ws w).grants.length
  gl_le : ∀ w, (s.ws w).grants.length ≤ (s.ws w).st.nblocks + 1
  lk : ∀ w, (s.ws w).pc = .locked ∨ (s.ws w).pc = .read1 ∨ (s.ws w).pc = .read2 →
    (s.ws w).grants.length ≤ (s.ws w).st.nblocks

theorem Inv2.init {B : Nat} (hB : 0 < B) (progs : Nat → List (Ns × Option Val)) :
    Inv2 B (PState.init B progs) := by
  refine ⟨?_, ?_, ?_, ?_⟩
  · intro w; exact Store.Inv.init hB true _
  · intro w; simp [PState.init]
  · intro w; simp [PState.init]
  · intro w; simp [PState.init]

/-- the supplier of worker `w` in a state satisfying invariant 1 is totally disjoint -/
theorem Inv1.supx_disjoint {B : Nat} {s : PState} (h : Inv1 B s) (w : Nat) :
    BlocksDisjoint (supx B s.ptr (s.ws w).grants) B :=
  Par.supx_disjoint (h.below w) (fun i j a b h1 h2 hne => h.disj w w i j a b h1 h2 (fun _ => hne))

/-- pointer, local stores and grants unchanged -/
theorem Inv2.frame {B : Nat} {s s' : PState} (h : Inv2 B s) (hptr : s'.ptr = s.ptr)
    (hst : ∀ x, (s'.ws x).st = (s.ws x).st) (hg : ∀ x, (s'.ws x).grants = (s.ws x).grants) :
    (∀ w, Store.Inv B true (supx B s'.ptr (s'.ws w).grants) (s'.ws w).st) ∧
    (∀ w, (s'.ws w).st.nblocks ≤ (s'.ws w).grants.length) ∧
    (∀ w, (s'.ws w).grants.length ≤ (s'.ws w).st.nblocks + 1) := by
  refine ⟨?_, ?_, ?_⟩
  · intro w; rw [hptr, hst, hg]; exact h.linv w
  · intro w; rw [hst, hg]; exact h.nb_le w
  · intro w; rw [hst, hg]; exact h.gl_le w

theorem Inv2.congr {B : Nat} {s s' : PState} (h : Inv2 B s) (hptr : s'.ptr = s.ptr)
    (hst : ∀ x, (s'.ws x).st = (s.ws x).st) (hg : ∀ x, (s'.ws x).grants = (s.ws x).grants)
    (hpc : ∀ x, (s'.ws x).pc = (s.ws x).pc) : Inv2 B s' := by
  obtain ⟨a, b, c⟩ := h.frame hptr hst hg
  refine ⟨a, b, c, ?_⟩
  intro w; rw [hpc, hst, hg]; exact h.lk w

/-- a ready micro-op sees the same blocks through `PW.sup` and through `supx` -/
theorem addTo_sup_eq {B ptr : Nat} {p : PW} {ns : Ns} {v : Option Val} {rest : List (Ns × Option Val)}
    (hops : p.ops = (ns, v) :: rest) (hready : p.localReady = true) :
    p.st.addTo p.sup ns v = p.st.addTo (supx B ptr p.grants) ns v := by
  apply addTo_congr
  simp only [PW.localReady, hops, Bool.or_eq_true, Bool.not_eq_true', decide_eq_true_eq] at hready
  rcases hready with h | h
  · exact Or.inl h
  · right; rw [sup_lt h, supx_lt h]

/-- what a ready micro-op does to the local store -/
theorem local_spec {B : Nat} {s : PState} (hB : 0 < B) (h1 : Inv1 B s) (h2 : Inv2 B s) (w : Nat)
    {ns : Ns} {v : Option Val} {rest : List (Ns × Option Val)}
    (hops : (s.ws w).ops = (ns, v) :: rest) (hready : (s.ws w).localReady = true) :
    ∃ st' r, (s.ws w).st.addTo (s.ws w).sup ns v = .ok (st', r) ∧
      (∃ ext, st'.data = (s.ws w).st.data ++ ext) ∧ st'.Ret v r ∧
      Store.Inv B true (supx B s.ptr (s.ws w).grants) st' ∧
      (s.ws w).st.nblocks ≤ st'.nblocks ∧ st'.nblocks ≤ (s.ws w).grants.length := by
  obtain ⟨st', r, e, hext, hret, inv'⟩ :=
    (h2.linv w).addTo_spec hB (h1.supx_disjoint w) ns v
  rw [← addTo_sup_eq (B := B) (ptr := s.ptr) hops hready] at e
  refine ⟨st', r, e, hext, hret, inv', ?_, ?_⟩
  · rcases addTo_nblocks e with h | ⟨-, h⟩ <;> omega
  · have := h2.nb_le w
    rcases addTo_nblocks e with h | ⟨hn, h⟩
    · omega
    · simp only [PW.localReady, hops, hn, Bool.not_true, Bool.false_or, decide_eq_true_eq] at hready
      omega

theorem inv2_step {B : Nat} {s : PState} {l : PLbl} {s' : PState} (hB : 0 < B) (h1 : Inv1 B s)
    (h : Inv2 B s) (hs : Step s l s') : Inv2 B s' := by
  cases hs with
  | local_ w ns v rest st' i hpc hready hops hadd =>
    obtain ⟨st1, r, e, -, -, inv', hle, hge⟩ := local_spec hB h1 h w hops hready
    rw [hadd] at e
    simp only [Except.ok.injEq, Prod.mk.injEq] at e
    obtain ⟨rfl, rfl⟩ := e
    refine ⟨?_, ?_, ?_, ?_⟩
    · intro x
      by_cases hx : x = w
      · subst hx; simp only [updW_same]; exact inv'
      · simp only [updW_other _ _ _ _ hx]; exact h.linv x
    · intro x
      by_cases hx : x = w
      · subst hx; simp only [updW_same]; exact hge
      · simp only [updW_other _ _ _ _ hx]; exact h.nb_le x
    · intro x
      by_cases hx : x = w
      · subst hx; simp only [updW_same]; have := h.gl_le x; omega
      · simp only [updW_other _ _ _ _ hx]; exact h.gl_le x
    · intro x hc
      by_cases hx : x = w
      · subst hx; simp only [updW_same] at hc; rw [hpc] at hc; simp at hc
      · simp only [updW_other _ _ _ _ hx] at hc ⊢; exact h.lk x hc
  | syncData w idx v hpc hmem =>
    exact h.congr rfl (updW_proj (·.st) _ _ _ rfl) (updW_proj (·.grants) _ _ _ rfl)
      (updW_proj (·.pc) _ _ _ rfl)
  | syncRevRead w ns v hpc => exact h
  | syncRevWrite w ns v idx hpc hmem =>
    exact h.congr rfl (fun _ => rfl) (fun _ => rfl) (fun _ => rfl)
  | releaseSync w hlock hpc =>
    exact h.congr rfl (fun _ => rfl) (fun _ => rfl) (fun _ => rfl)
  | acquireSync w hlock hpc hops =>
    obtain ⟨a, b, c⟩ := h.frame (s' := { s with lock := some w, ws := updW s.ws w { s.ws w with pc := .sync } })
      rfl (updW_proj (·.st) _ _ _ rfl) (updW_proj (·.grants) _ _ _ rfl)
    refine ⟨a, b, c, ?_⟩
    intro x hc
    by_cases hx : x = w
    · subst hx; simp at hc
    · simp only [updW_other _ _ _ _ hx] at hc ⊢; exact h.lk x hc
  | acquireBlk w hlock hpc hops hnr =>
    obtain ⟨a, b, c⟩ := h.frame (s' := { s with lock := some w, ws := updW s.ws w { s.ws w with pc := .locked } })
      rfl (updW_proj (·.st) _ _ _ rfl) (updW_proj (·.grants) _ _ _ rfl)
    refine ⟨a, b, c, ?_⟩
    intro x hc
    by_cases hx : x = w
    · subst hx
      simp only [updW_same]
      cases ho : (s.ws x).ops with
      | nil => exact absurd ho hops
      | cons op rest =>
        obtain ⟨ns, v⟩ := op
        simp only [PW.localReady, ho, Bool.or_eq_false_iff, decide_eq_false_iff_not] at hnr
        omega
    · simp only [updW_other _ _ _ _ hx] at hc ⊢; exact h.lk x hc
  | read1 w hlock hpc =>
    obtain ⟨a, b, c⟩ := h.frame (s' := { s with ws := updW s.ws w { s.ws w with pc := .read1, r1 := s.ptr } })
      rfl (updW_proj (·.st) _ _ _ rfl) (updW_proj (·.grants) _ _ _ rfl)
    refine ⟨a, b, c, ?_⟩
    intro x hc
    by_cases hx : x = w
    · subst hx; simp only [updW_same]; exact h.lk x (Or.inl hpc)
    · simp only [updW_other _ _ _ _ hx] at hc ⊢; exact h.lk x hc
  | read2 w hlock hpc =>
    obtain ⟨a, b, c⟩ := h.frame (s' := { s with ws := updW s.ws w { s.ws w with pc := .read2, r2 := s.ptr } })
      rfl (updW_proj (·.st) _ _ _ rfl) (updW_proj (·.grants) _ _ _ rfl)
    refine ⟨a, b, c, ?_⟩
    intro x hc
    by_cases hx : x = w
    · subst hx; simp only [updW_same]; exact h.lk x (Or.inr (Or.inl hpc))
    · simp only [updW_other _ _ _ _ hx] at hc ⊢; exact h.lk x hc
  | releaseBlk w hlock hpc =>
    obtain ⟨a, b, c⟩ := h.frame (s' := { s with lock := none, ws := updW s.ws w { s.ws w with pc := .run } })
      rfl (updW_proj (·.st) _ _ _ rfl) (updW_proj (·.grants) _ _ _ rfl)
    refine ⟨a, b, c, ?_⟩
    intro x hc
    by_cases hx : x = w
    · subst hx; simp at hc
    · simp only [updW_other _ _ _ _ hx] at hc ⊢; exact h.lk x hc
  | syncStart w hpc hops =>
    obtain ⟨a, b, c⟩ := h.frame (s' := { s with ws := updW s.ws w { s.ws w with pc := .sync } })
      rfl (updW_proj (·.st) _ _ _ rfl) (updW_proj (·.grants) _ _ _ rfl)
    refine ⟨a, b, c, ?_⟩
    intro x hc
    by_cases hx : x = w
    · subst hx; simp at hc
    · simp only [updW_other _ _ _ _ hx] at hc ⊢; exact h.lk x hc
  | syncDone w hpc hlock hall =>
    obtain ⟨a, b, c⟩ := h.frame (s' := { s with ws := updW s.ws w { s.ws w with pc := .done } })
      rfl (updW_proj (·.st) _ _ _ rfl) (updW_proj (·.grants) _ _ _ rfl)
    refine ⟨a, b, c, ?_⟩
    intro x hc
    by_cases hx : x = w
    · subst hx; simp at hc
    · simp only [updW_other _ _ _ _ hx] at hc ⊢; exact h.lk x hc
  | writePtr w hlock hpc =>
    have e1 := h1.r1ok w (Or.inr hpc)
    have e2 := h1.r2ok w hpc
    have hlen := h.lk w (Or.inr (Or.inr hpc))
    refine ⟨?_, ?_, ?_, ?_⟩
    · intro x
      by_cases hx : x = w
      · subst hx
        simp only [updW_same]
        refine inv_congr_sup hB ?_ (h.linv x)
        intro k hk
        have hk' : k < (s.ws x).grants.length := by have := h.nb_le x; omega
        rw [supx_lt hk', supx_lt (by simp; omega), List.getElem_append_left hk']
      · simp only [updW_other _ _ _ _ hx]
        refine inv_congr_sup hB ?_ (h.linv x)
        intro k hk
        have hk' : k < (s.ws x).grants.length := by have := h.nb_le x; omega
        rw [supx_lt hk', supx_lt hk']
    · intro x
      by_cases hx : x = w
      · subst hx; simp only [updW_same, List.length_append]; have := h.nb_le x; omega
      · simp only [updW_other _ _ _ _ hx]; exact h.nb_le x
    · intro x
      by_cases hx : x = w
      · subst hx; simp only [updW_same, List.length_append, List.length_singleton]; omega
      · simp only [updW_other _ _ _ _ hx]; exact h.gl_le x
    · intro x hc
      by_cases hx : x = w
      · subst hx; simp at hc
      · simp only [updW_other _ _ _ _ hx] at hc ⊢; exact h.lk x hc

end Sk.Par
