/-
  SkModel.Proofs.SeqCoreAbs — the pure half of C03: a small left-to-right machine over
  line classes (`closed` sections and the `open` one) computes exactly the declarative
  `Spec.sectionsWithEnd` / `Spec.sectionsNoEnd`.  No reference to `seqStep` here.
-/
import SkModel.Spec.Sequence

namespace Sk

open Spec

/-- abstract state: the complete sections so far and the open one (start line, bodies) -/
structure ASt where
  closed : List Spec.Section
  opn : Option (Nat × List Nat)

/-! ### `firstFrom` / `between` -/

theorem firstFrom_self (p : Nat → Bool) (a n : Nat) (h : a < n) (hp : p a = true) :
    firstFrom p a n = some a := by
  unfold firstFrom
  obtain ⟨k, hk⟩ : ∃ k, n - a = k + 1 := ⟨n - a - 1, by omega⟩
  rw [hk, List.range'_succ, List.find?_cons]
  simp [hp]

theorem firstFrom_skip (p : Nat → Bool) (a n : Nat) (h : a < n) (hp : p a = false) :
    firstFrom p a n = firstFrom p (a + 1) n := by
  unfold firstFrom
  obtain ⟨k, hk⟩ : ∃ k, n - a = k + 1 := ⟨n - a - 1, by omega⟩
  have hk' : n - (a + 1) = k := by omega
  rw [hk, hk', List.range'_succ, List.find?_cons]
  simp [hp]

theorem firstFrom_end (p : Nat → Bool) (n : Nat) : firstFrom p n n = none := by
  simp [firstFrom]

theorem firstFrom_ge (p : Nat → Bool) (a n j : Nat) (h : firstFrom p a n = some j) :
    a ≤ j ∧ j < n := by
  unfold firstFrom at h
  have := List.mem_of_find?_eq_some h
  rw [List.mem_range'_1] at this
  omega

theorem between_self (p : Nat → Bool) (a : Nat) : between p a a = [] := by
  simp [between]

theorem between_step (p : Nat → Bool) (a j : Nat) (h : a < j) :
    between p a j = (if p a then [a] else []) ++ between p (a + 1) j := by
  unfold between
  obtain ⟨k, hk⟩ : ∃ k, j - a = k + 1 := ⟨j - a - 1, by omega⟩
  have hk' : j - (a + 1) = k := by omega
  rw [hk, hk', List.range'_succ, List.filter_cons]
  split <;> simp

/-! ### sequence with an end -/

def absStepWE (sp bp ep : Nat → Bool) (A : ASt) (i : Nat) : ASt :=
  match A.opn with
  | some (a, bs) =>
    if sp i then ⟨A.closed, some (i, [])⟩
    else if ep i then ⟨A.closed ++ [⟨a, bs, some i⟩], none⟩
    else if bp i then ⟨A.closed, some (a, bs ++ [i])⟩
    else A
  | none => if sp i then ⟨A.closed, some (i, [])⟩ else A

def absFinWE (endEmpty : Bool) (n : Nat) (A : ASt) : List Spec.Section :=
  match A.opn with
  | some (a, bs) => if endEmpty then A.closed ++ [⟨a, bs, some n⟩] else A.closed
  | none => A.closed

/-- what the open section will contribute, seen from line `a` on -/
def contribWE (sp bp ep : Nat → Bool) (endEmpty : Bool) (n : Nat)
    (o : Option (Nat × List Nat)) (a : Nat) : List Spec.Section :=
  match o with
  | none => []
  | some (a0, bs) =>
    match firstFrom (fun j => sp j || ep j) a n with
    | some j => if sp j then [] else [⟨a0, bs ++ between bp a j, some j⟩]
    | none => if endEmpty then [⟨a0, bs ++ between bp a n, some n⟩] else []

def fWE (sp bp ep : Nat → Bool) (endEmpty : Bool) (n : Nat) (i : Nat) : Option Spec.Section :=
  if sp i then
    match firstFrom (fun j => sp j || ep j) (i + 1) n with
    | some j => if sp j then none else some ⟨i, between bp (i + 1) j, some j⟩
    | none => if endEmpty then some ⟨i, between bp (i + 1) n, some n⟩ else none
  else none

theorem sectionsWithEnd_eq (sp bp ep : Nat → Bool) (endEmpty : Bool) (n : Nat) :
    sectionsWithEnd sp bp ep endEmpty n = (List.range n).filterMap (fWE sp bp ep endEmpty n) := rfl

theorem fWE_start (sp bp ep : Nat → Bool) (endEmpty : Bool) (n a : Nat) (h : sp a = true) :
    (fWE sp bp ep endEmpty n a).toList = contribWE sp bp ep endEmpty n (some (a, [])) (a + 1) := by
  simp only [fWE, h, contribWE, if_true, List.nil_append]
  split
  · split <;> simp
  · split <;> simp

theorem absWE_gen (sp bp ep : Nat → Bool) (endEmpty : Bool) (n : Nat) :
    ∀ (k a : Nat) (A : ASt), a + k = n →
      absFinWE endEmpty n ((List.range' a k).foldl (absStepWE sp bp ep) A) =
        A.closed ++ contribWE sp bp ep endEmpty n A.opn a ++
          (List.range' a k).filterMap (fWE sp bp ep endEmpty n) := by
  intro k
  induction k with
  | zero =>
    intro a A h
    have : a = n := by omega
    subst this
    obtain ⟨cl, o⟩ := A
    cases o with
    | none => simp [absFinWE, contribWE]
    | some ab =>
      obtain ⟨a0, bs⟩ := ab
      simp only [List.range'_zero, List.foldl_nil, absFinWE, contribWE, firstFrom_end,
        between_self, List.append_nil, List.filterMap_nil]
      split <;> simp
  | succ k ih =>
    intro a A h
    have han : a < n := by omega
    rw [List.range'_succ, List.foldl_cons, ih (a + 1) _ (by omega), List.filterMap_cons]
    obtain ⟨cl, o⟩ := A
    cases o with
    | none =>
      by_cases hs : sp a = true
      · have h1 := fWE_start sp bp ep endEmpty n a hs
        simp only [absStepWE, hs, if_true]
        rw [← h1]
        cases fWE sp bp ep endEmpty n a <;> simp [contribWE]
      · have hs' : sp a = false := by simpa using hs
        simp [absStepWE, hs', contribWE, fWE]
    | some ab =>
      obtain ⟨a0, bs⟩ := ab
      by_cases hs : sp a = true
      · have h1 := fWE_start sp bp ep endEmpty n a hs
        have hf : firstFrom (fun j => sp j || ep j) a n = some a :=
          firstFrom_self _ a n han (by simp [hs])
        simp only [absStepWE, hs, if_true]
        rw [← h1]
        simp only [contribWE, hf, hs, if_true]
        cases fWE sp bp ep endEmpty n a <;> simp
      · have hs' : sp a = false := by simpa using hs
        have hfa : fWE sp bp ep endEmpty n a = none := by simp [fWE, hs']
        by_cases he : ep a = true
        · have hf : firstFrom (fun j => sp j || ep j) a n = some a :=
            firstFrom_self _ a n han (by simp [he])
          simp [absStepWE, hs', he, contribWE, hf, hfa, between_self]
        · have he' : ep a = false := by simpa using he
          have hf : firstFrom (fun j => sp j || ep j) a n
              = firstFrom (fun j => sp j || ep j) (a + 1) n :=
            firstFrom_skip _ a n han (by simp [hs', he'])
          have hb : ∀ j, a + 1 ≤ j → bs ++ between bp a j
              = (bs ++ if bp a then [a] else []) ++ between bp (a + 1) j := by
            intro j hj
            rw [between_step bp a j (by omega), List.append_assoc]
          simp only [absStepWE, hs', he', hfa, contribWE, hf]
          cases hff : firstFrom (fun j => sp j || ep j) (a + 1) n with
          | some j =>
            have hj := (firstFrom_ge _ _ _ _ hff).1
            have := hb j hj
            by_cases hbp : bp a = true
            · simp [hbp] at this ⊢
              simp [this]
            · have hbp' : bp a = false := by simpa using hbp
              simp [hbp'] at this ⊢
              simp [this]
          | none =>
            have := hb n (by omega)
            by_cases hbp : bp a = true
            · simp [hbp] at this ⊢
              simp [this]
            · have hbp' : bp a = false := by simpa using hbp
              simp [hbp'] at this ⊢
              simp [this]

theorem absWE_spec (sp bp ep : Nat → Bool) (endEmpty : Bool) (n : Nat) :
    absFinWE endEmpty n ((List.range n).foldl (absStepWE sp bp ep) ⟨[], none⟩) =
      sectionsWithEnd sp bp ep endEmpty n := by
  rw [sectionsWithEnd_eq, List.range_eq_range', absWE_gen sp bp ep endEmpty n n 0 _ (by omega)]
  simp [contribWE]

/-! ### sequence without an end -/

def absStepNE (sp bp : Nat → Bool) (A : ASt) (i : Nat) : ASt :=
  if sp i then
    match A.opn with
    | some (a, bs) => ⟨A.closed ++ [⟨a, bs, none⟩], some (i, [])⟩
    | none => ⟨A.closed, some (i, [])⟩
  else
    match A.opn with
    | some (a, bs) => if bp i then ⟨A.closed, some (a, bs ++ [i])⟩ else A
    | none => A

def absFinNE (A : ASt) : List Spec.Section :=
  match A.opn with
  | some (a, bs) => A.closed ++ [⟨a, bs, none⟩]
  | none => A.closed

def contribNE (sp bp : Nat → Bool) (n : Nat) (o : Option (Nat × List Nat)) (a : Nat) :
    List Spec.Section :=
  match o with
  | none => []
  | some (a0, bs) => [⟨a0, bs ++ between bp a ((firstFrom sp a n).getD n), none⟩]

def fNE (sp bp : Nat → Bool) (n : Nat) (i : Nat) : Option Spec.Section :=
  if sp i then
    let j := (firstFrom sp (i + 1) n).getD n
    some ⟨i, between bp (i + 1) j, none⟩
  else none

theorem sectionsNoEnd_eq (sp bp : Nat → Bool) (n : Nat) :
    sectionsNoEnd sp bp n = (List.range n).filterMap (fNE sp bp n) := rfl

theorem absNE_gen (sp bp : Nat → Bool) (n : Nat) :
    ∀ (k a : Nat) (A : ASt), a + k = n →
      absFinNE ((List.range' a k).foldl (absStepNE sp bp) A) =
        A.closed ++ contribNE sp bp n A.opn a ++ (List.range' a k).filterMap (fNE sp bp n) := by
  intro k
  induction k with
  | zero =>
    intro a A h
    have : a = n := by omega
    subst this
    obtain ⟨cl, o⟩ := A
    cases o with
    | none => simp [absFinNE, contribNE]
    | some ab =>
      obtain ⟨a0, bs⟩ := ab
      simp [absFinNE, contribNE, firstFrom_end, between_self]
  | succ k ih =>
    intro a A h
    have han : a < n := by omega
    rw [List.range'_succ, List.foldl_cons, ih (a + 1) _ (by omega), List.filterMap_cons]
    obtain ⟨cl, o⟩ := A
    by_cases hs : sp a = true
    · have hf : firstFrom sp a n = some a := firstFrom_self _ a n han hs
      cases o with
      | none => simp [absStepNE, hs, contribNE, fNE]
      | some ab =>
        obtain ⟨a0, bs⟩ := ab
        simp [absStepNE, hs, contribNE, fNE, hf, between_self]
    · have hs' : sp a = false := by simpa using hs
      have hf : firstFrom sp a n = firstFrom sp (a + 1) n := firstFrom_skip _ a n han hs'
      cases o with
      | none => simp [absStepNE, hs', contribNE, fNE]
      | some ab =>
        obtain ⟨a0, bs⟩ := ab
        have hj : a + 1 ≤ (firstFrom sp (a + 1) n).getD n := by
          cases hff : firstFrom sp (a + 1) n with
          | some j => have := (firstFrom_ge _ _ _ _ hff).1; simpa using this
          | none => simp; omega
        have hb := between_step bp a _ hj
        by_cases hbp : bp a = true
        · simp [hbp] at hb
          simp [absStepNE, hs', contribNE, fNE, hf, hbp, hb]
        · have hbp' : bp a = false := by simpa using hbp
          simp [hbp'] at hb
          simp [absStepNE, hs', contribNE, fNE, hf, hbp', hb]

theorem absNE_spec (sp bp : Nat → Bool) (n : Nat) :
    absFinNE ((List.range n).foldl (absStepNE sp bp) ⟨[], none⟩) = sectionsNoEnd sp bp n := by
  rw [sectionsNoEnd_eq, List.range_eq_range', absNE_gen sp bp n n 0 _ (by omega)]
  simp [contribNE]

end Sk
