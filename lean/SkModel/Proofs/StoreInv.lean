import SkModel.Store

namespace Sk.StoreInv

/-! ### arithmetic -/

theorem ar_div_succ {B L : Nat} (hB : 0 < B) : (L + 1 + B - 1) / B = L / B + 1 := by
  have : L + 1 + B - 1 = L + B := by omega
  rw [this, Nat.add_div_right _ hB]

theorem ar_mod0 {B L : Nat} (hB : 0 < B) (h0 : L % B = 0) (hL : 0 < L) :
    (L + B - 1) / B = L / B ∧ (L - 1) / B = L / B - 1 ∧ (L - 1) % B = B - 1 ∧ 1 ≤ L / B := by
  have h1 := Nat.div_add_mod L B
  have hq : 1 ≤ L / B := by
    rcases Nat.eq_zero_or_pos (L / B) with h | h
    · rw [h] at h1; simp at h1; omega
    · exact h
  obtain ⟨q, hq'⟩ : ∃ q, L / B = q + 1 := ⟨L / B - 1, by omega⟩
  rw [hq', Nat.mul_succ] at h1
  refine ⟨?_, ?_, ?_, by omega⟩
  · rw [hq']; apply Nat.div_eq_of_lt_le
    · rw [Nat.succ_mul, Nat.mul_comm]; omega
    · rw [Nat.succ_mul, Nat.succ_mul, Nat.mul_comm]; omega
  · rw [hq', Nat.add_sub_cancel]; apply Nat.div_eq_of_lt_le
    · rw [Nat.mul_comm]; omega
    · rw [Nat.succ_mul, Nat.mul_comm]; omega
  · have : L - 1 = B * q + (B - 1) := by omega
    rw [this, Nat.mul_add_mod]; exact Nat.mod_eq_of_lt (by omega)

theorem ar_modne {B L : Nat} (hB : 0 < B) (h0 : L % B ≠ 0) : (L + B - 1) / B = L / B + 1 := by
  have h1 := Nat.div_add_mod L B
  have h2 := Nat.mod_lt L hB
  apply Nat.div_eq_of_lt_le
  · rw [Nat.succ_mul, Nat.mul_comm]; omega
  · rw [Nat.succ_mul, Nat.succ_mul, Nat.mul_comm]; omega

theorem ar_block {B L j : Nat} (hB : 0 < B) (hj : j < L % B) :
    B * (L / B) + j < L ∧ (B * (L / B) + j) / B = L / B ∧ (B * (L / B) + j) % B = j := by
  have h1 := Nat.div_add_mod L B
  have h2 := Nat.mod_lt L hB
  refine ⟨by omega, ?_, ?_⟩
  · rw [Nat.mul_add_div hB, Nat.div_eq_of_lt (show j < B by omega)]; rfl
  · rw [Nat.mul_add_mod]; exact Nat.mod_eq_of_lt (by omega)

/-! ### slots: the index handed out for the `i`-th new value -/

/-- index given to the `i`-th distinct value stored -/
def slot (pre : Bool) (sup : Nat → Nat) (B i : Nat) : Nat :=
  if pre then sup (i / B) + i % B else i

def BlocksDisjoint (sup : Nat → Nat) (B : Nat) : Prop :=
  ∀ i j, i ≠ j → sup i + B ≤ sup j ∨ sup j + B ≤ sup i

theorem slot_inj {pre sup B} (hB : 0 < B) (hsup : BlocksDisjoint sup B) {i j : Nat}
    (h : slot pre sup B i = slot pre sup B j) : i = j := by
  unfold slot at h
  cases pre
  · simpa using h
  · simp only [if_true] at h
    have hi := Nat.mod_lt i hB
    have hj := Nat.mod_lt j hB
    have hq : i / B = j / B := by
      apply Classical.byContradiction; intro hne
      have := hsup _ _ hne; omega
    rw [hq] at h
    have h1 := Nat.div_add_mod i B
    have h2 := Nat.div_add_mod j B
    rw [hq] at h1; omega

theorem slots_nodup {pre sup B} (hB : 0 < B) (hsup : BlocksDisjoint sup B) (L : Nat) :
    ((List.range L).map (slot pre sup B)).Nodup := by
  rw [List.Nodup, List.pairwise_map]
  exact (List.nodup_range (n := L)).imp (fun hne h => hne (slot_inj hB hsup h))

theorem slot_not_mem {pre sup B} (hB : 0 < B) (hsup : BlocksDisjoint sup B) (L : Nat) :
    slot pre sup B L ∉ (List.range L).map (slot pre sup B) := by
  intro h
  rw [List.mem_map] at h
  obtain ⟨j, hj, he⟩ := h
  have := slot_inj hB hsup he
  rw [List.mem_range] at hj; omega

theorem find_first_free (p : Nat → Bool) : ∀ (m a B : Nat), m < B →
    (∀ j, j < m → p (a + j) = false) → p (a + m) = true →
    (List.range' a B).find? p = some (a + m)
  | 0, a, B, hm, _, h2 => by
    obtain ⟨B', rfl⟩ : ∃ B', B = B' + 1 := ⟨B - 1, by omega⟩
    rw [List.range'_succ, List.find?_cons]
    simp at h2; simp [h2]
  | m + 1, a, B, hm, h1, h2 => by
    obtain ⟨B', rfl⟩ : ∃ B', B = B' + 1 := ⟨B - 1, by omega⟩
    rw [List.range'_succ, List.find?_cons]
    have h0 := h1 0 (by omega)
    simp at h0
    simp only [h0]
    have := find_first_free p m (a + 1) B' (by omega)
      (fun j hj => by have := h1 (j + 1) (by omega); rwa [show a + 1 + j = a + (j + 1) by omega])
      (by rwa [show a + 1 + m = a + (m + 1) by omega])
    rw [this]; congr 1; omega

/-! ### the flattened granted blocks -/

def blocks (sup : Nat → Nat) (B n : Nat) : List Nat :=
  (List.range n).flatMap (fun k => List.range' (sup k) B)

theorem blocks_succ (sup B n) : blocks sup B (n + 1) = blocks sup B n ++ List.range' (sup n) B := by
  simp [blocks, List.range_succ, List.flatMap_append]

theorem blocks_length (sup B n) : (blocks sup B n).length = n * B := by
  induction n with
  | zero => simp [blocks]
  | succ n ih => rw [blocks_succ, List.length_append, ih, List.length_range', Nat.succ_mul]

theorem blocks_getElem? {sup B} (hB : 0 < B) : ∀ n i, i < n * B →
    (blocks sup B n)[i]? = some (slot true sup B i)
  | 0, i, h => by simp at h
  | n + 1, i, h => by
    rw [blocks_succ]
    by_cases hi : i < n * B
    · rw [List.getElem?_append_left (by rwa [blocks_length])]
      exact blocks_getElem? hB n i hi
    · rw [List.getElem?_append_right (by rw [blocks_length]; omega), blocks_length]
      rw [Nat.succ_mul] at h
      have hq : i / B = n := Nat.div_eq_of_lt_le (by omega) (by rw [Nat.succ_mul]; omega)
      have h1 := Nat.div_add_mod i B
      rw [hq, Nat.mul_comm] at h1
      rw [List.getElem?_range' (by omega)]
      simp only [slot, if_true, hq]
      congr 1; omega

theorem slots_eq_take_blocks {sup B} (hB : 0 < B) (n L : Nat) (h : L ≤ n * B) :
    (List.range L).map (slot true sup B) = (blocks sup B n).take L := by
  apply List.ext_getElem?
  intro i
  by_cases hi : i < L
  · rw [List.getElem?_take_of_lt hi, blocks_getElem? hB n i (by omega)]
    simp [hi]
  · rw [List.getElem?_eq_none (by simp; omega), List.getElem?_eq_none (by simp; omega)]

/-! ### association lists -/

theorem lookup_of_mem {α β} [BEq α] [LawfulBEq α] : ∀ {l : List (α × β)} {a : α} {b : β},
    (l.map (·.1)).Nodup → (a, b) ∈ l → l.lookup a = some b
  | [], _, _, _, h => by simp at h
  | (a', b') :: l, a, b, hn, h => by
    rw [List.map_cons, List.nodup_cons] at hn
    rw [List.lookup_cons]
    rcases List.mem_cons.mp h with h' | h'
    · cases h'; simp
    · have hne : a ≠ a' := by
        rintro rfl; exact hn.1 (List.mem_map.mpr ⟨(a, b), h', rfl⟩)
      have : (a == a') = false := by simpa using hne
      simp only [this]
      exact lookup_of_mem hn.2 h'

theorem mem_of_lookup {α β} [BEq α] [LawfulBEq α] {l : List (α × β)} {a : α} {b : β}
    (h : l.lookup a = some b) : (a, b) ∈ l := by
  obtain ⟨l₁, l₂, rfl, _⟩ := List.lookup_eq_some_iff.mp h
  simp

theorem fst_unique {α β} : ∀ {l : List (α × β)} {i j : α} {x : β},
    (l.map (·.2)).Nodup → (i, x) ∈ l → (j, x) ∈ l → i = j
  | [], _, _, _, _, h, _ => by simp at h
  | p :: l, i, j, x, hn, h1, h2 => by
    rw [List.map_cons, List.nodup_cons] at hn
    rcases List.mem_cons.mp h1 with e1 | m1 <;> rcases List.mem_cons.mp h2 with e2 | m2
    · rw [← e2] at e1; exact (Prod.mk.inj e1).1
    · subst e1
      exact absurd (show x ∈ l.map (·.2) from List.mem_map.mpr ⟨(j, x), m2, rfl⟩) hn.1
    · subst e2
      exact absurd (show x ∈ l.map (·.2) from List.mem_map.mpr ⟨(i, x), m1, rfl⟩) hn.1
    · exact fst_unique hn.2 m1 m2

end Sk.StoreInv

namespace Sk
open StoreInv

/-! ### the store invariant -/

structure Store.Inv (B : Nat) (pre : Bool) (sup : Nat → Nat) (st : Store) : Prop where
  hB : st.B = B
  hpre : st.pre = pre
  keys : st.data.map (·.1) = (List.range st.data.length).map (slot pre sup B)
  vals : (st.data.map (·.2)).Nodup
  rev_sound : ∀ ns v i, (v, i) ∈ st.rev ns → (i, v) ∈ st.data
  rev_nodup : ∀ ns, ((st.rev ns).map (·.1)).Nodup
  nblk : st.nblocks = if pre then (st.data.length + B - 1) / B else 0
  alloc : st.alloc = if st.nblocks = 0 then none else some (sup (st.nblocks - 1))

theorem Store.Inv.init {B} (hB : 0 < B) (pre sup) : Store.Inv B pre sup { B := B, pre := pre } := by
  refine ⟨rfl, rfl, rfl, by simp, ?_, ?_, ?_, rfl⟩
  · intro ns v i h; cases ns <;> simp [Store.rev] at h
  · intro ns; cases ns <;> simp [Store.rev]
  · cases pre
    · rfl
    · simp only [List.length_nil, if_true]
      rw [Nat.zero_add]; exact (Nat.div_eq_of_lt (by omega)).symm

theorem Store.hasKey_iff (st : Store) (i : Nat) : st.hasKey i = true ↔ i ∈ st.data.map (·.1) := by
  simp [Store.hasKey, List.any_eq_true]

theorem Store.Inv.hasKey_slot {B pre sup st} (inv : Store.Inv B pre sup st) {j : Nat}
    (hj : j < st.data.length) : st.hasKey (slot pre sup B j) = true := by
  rw [Store.hasKey_iff, inv.keys]
  exact List.mem_map.mpr ⟨j, List.mem_range.mpr hj, rfl⟩

theorem Store.Inv.hasKey_slot_len {B pre sup st} (hB : 0 < B) (hsup : BlocksDisjoint sup B)
    (inv : Store.Inv B pre sup st) : st.hasKey (slot pre sup B st.data.length) = false := by
  rw [← Bool.not_eq_true, Store.hasKey_iff, inv.keys]
  exact slot_not_mem hB hsup _

theorem Store.Inv.keys_nodup {B pre sup st} (hB : 0 < B) (hsup : BlocksDisjoint sup B)
    (inv : Store.Inv B pre sup st) : (st.data.map (·.1)).Nodup := by
  rw [inv.keys]; exact slots_nodup hB hsup _

theorem Store.Inv.refresh_eq {B sup st} (hB : 0 < B)
    (inv : Store.Inv B true sup st) :
    st.refresh sup = { st with alloc := some (sup (st.data.length / B)),
                               nblocks := st.data.length / B + 1 } := by
  have hk : ∀ j, j < st.data.length → slot true sup B j ∈ st.data.map (·.1) :=
    fun j hj => (Store.hasKey_iff _ _).mp (inv.hasKey_slot (j := j) hj)
  obtain ⟨hB', hpre, -, -, -, -, nblk, alloc⟩ := inv
  obtain ⟨B', pre', data, vs, ts, ss, al, nb⟩ := st
  simp only [if_true] at hB' hpre nblk alloc hk
  subst hB' hpre
  by_cases hL : data.length = 0
  · have hnb : nb = 0 := by rw [nblk, hL, Nat.zero_add]; exact Nat.div_eq_of_lt (by omega)
    subst hnb
    simp only [if_true] at alloc
    subst alloc
    simp [Store.refresh, hL]
  · by_cases hr : data.length % B' = 0
    · obtain ⟨h1, h2, h3, h4⟩ := ar_mod0 hB hr (by omega)
      rw [h1] at nblk
      have hnb0 : nb ≠ 0 := by omega
      rw [if_neg hnb0] at alloc
      have hkey := hk (data.length - 1) (by omega)
      simp only [slot, if_true, h2, h3] at hkey
      have he : sup (nb - 1) + B' - 1 = sup (data.length / B' - 1) + (B' - 1) := by
        rw [nblk]; omega
      have hne : data ≠ [] := by intro h; simp [h] at hL
      subst alloc
      rw [← he] at hkey
      have hkey' := (Store.hasKey_iff (Store.mk B' true data vs ts ss (some (sup (nb - 1))) nb) _).mpr hkey
      subst nblk
      simp only [Store.refresh]
      simp [hr, hne, hkey']
    · have h1 := ar_modne hB hr
      rw [h1] at nblk
      subst nblk
      simp only [Nat.add_sub_cancel] at alloc
      rw [if_neg (Nat.succ_ne_zero _)] at alloc
      subst alloc
      simp [Store.refresh, hr]

theorem Store.Inv.push {B pre sup st st'} (hB : 0 < B) (inv : Store.Inv B pre sup st) (v : Val)
    (h1 : st'.B = st.B) (h2 : st'.pre = st.pre)
    (h3 : st'.data = st.data ++ [(slot pre sup B st.data.length, v)])
    (hv : v ∉ st.data.map (·.2))
    (h4 : ∀ ns, st'.rev ns = st.rev ns)
    (h5 : st'.nblocks = if pre then st.data.length / B + 1 else 0)
    (h6 : st'.alloc = if pre then some (sup (st.data.length / B)) else none) :
    Store.Inv B pre sup st' := by
  have hlen : st'.data.length = st.data.length + 1 := by rw [h3]; simp
  refine ⟨h1.trans inv.hB, h2.trans inv.hpre, ?_, ?_, ?_, ?_, ?_, ?_⟩
  · rw [hlen, h3, List.map_append, inv.keys, List.range_succ, List.map_append]; rfl
  · rw [h3, List.map_append, List.nodup_append]
    refine ⟨inv.vals, by simp, ?_⟩
    intro a ha b hb
    simp only [List.map_cons, List.map_nil, List.mem_singleton] at hb
    subst hb; rintro rfl; exact hv ha
  · intro ns w i h
    rw [h4] at h; rw [h3]
    exact List.mem_append_left _ (inv.rev_sound ns w i h)
  · intro ns; rw [h4]; exact inv.rev_nodup ns
  · rw [h5, hlen]
    cases pre
    · rfl
    · simp only [if_true]; exact (ar_div_succ hB).symm
  · rw [h6, h5]
    cases pre
    · rfl
    · simp

theorem find?_snd_none {data : List (Nat × Val)} {v : Val}
    (hf : data.find? (fun p => p.2 == v) = none) : v ∉ data.map (·.2) := by
  rw [List.find?_eq_none] at hf
  intro h
  obtain ⟨p, hp, rfl⟩ := List.mem_map.mp h
  exact hf p hp (by simp)

theorem Store.Inv.allocNext_fresh {B pre sup st} (hB : 0 < B) (hsup : BlocksDisjoint sup B)
    (inv : Store.Inv B pre sup st) (v : Val)
    (hf : st.data.find? (fun p => p.2 == v) = none) :
    ∃ st', st.allocNext sup v = .ok (st', slot pre sup B st.data.length) ∧
      st'.data = st.data ++ [(slot pre sup B st.data.length, v)] ∧
      (∀ ns, st'.rev ns = st.rev ns) ∧ Store.Inv B pre sup st' := by
  have hv := find?_snd_none hf
  cases pre
  · have hnb : st.nblocks = 0 := inv.nblk
    have hal : st.alloc = none := by rw [inv.alloc, hnb]; rfl
    have hr : st.refresh sup = st := by simp [Store.refresh, inv.hpre]
    refine ⟨{ st with data := st.data ++ [(st.data.length, v)] }, ?_, rfl, ?_, ?_⟩
    · simp only [Store.allocNext, hf, hr, hal]; rfl
    · intro ns; cases ns <;> rfl
    · exact inv.push hB v rfl rfl rfl hv (by intro ns; cases ns <;> rfl) hnb hal
  · have hr := inv.refresh_eq hB
    have hfind : (List.range' (sup (st.data.length / B)) st.B).find? (fun i => !st.hasKey i)
        = some (sup (st.data.length / B) + st.data.length % B) := by
      rw [inv.hB]
      apply find_first_free _ _ _ _ (Nat.mod_lt _ hB)
      · intro j hj
        obtain ⟨a1, a2, a3⟩ := ar_block hB hj
        have := inv.hasKey_slot a1
        simp only [slot, if_true, a2, a3] at this
        simp [this]
      · have := inv.hasKey_slot_len hB hsup
        simp only [slot, if_true] at this
        simp [this]
    refine ⟨{ st with alloc := some (sup (st.data.length / B)), nblocks := st.data.length / B + 1,
                      data := st.data ++ [(slot true sup B st.data.length, v)] }, ?_, rfl, ?_, ?_⟩
    · have hk : (fun i => !(st.refresh sup).hasKey i) = (fun i => !st.hasKey i) := by rw [hr]; rfl
      have hB' : (st.refresh sup).B = st.B := by rw [hr]
      have hal : (st.refresh sup).alloc = some (sup (st.data.length / B)) := by rw [hr]
      simp only [Store.allocNext, hf, hal, hB', hk, hfind]
      rw [hr]; rfl
    · intro ns; cases ns <;> rfl
    · exact inv.push hB v rfl rfl rfl hv (by intro ns; cases ns <;> rfl) rfl rfl

theorem Store.Inv.allocNext_spec {B pre sup st} (hB : 0 < B) (hsup : BlocksDisjoint sup B)
    (inv : Store.Inv B pre sup st) (v : Val) :
    ∃ st' i, st.allocNext sup v = .ok (st', i) ∧ (∃ ext, st'.data = st.data ++ ext) ∧
      (i, v) ∈ st'.data ∧ (∀ ns, st'.rev ns = st.rev ns) ∧ Store.Inv B pre sup st' := by
  cases hf : st.data.find? (fun p => p.2 == v) with
  | some p =>
    have hp := List.mem_of_find?_eq_some hf
    have hv : p.2 = v := by simpa using List.find?_some hf
    refine ⟨st, p.1, ?_, ⟨[], by simp⟩, ?_, fun _ => rfl, inv⟩
    · simp only [Store.allocNext, hf]
    · rw [← hv]; exact hp
  | none =>
    obtain ⟨st', h1, h2, h3, h4⟩ := inv.allocNext_fresh hB hsup v hf
    exact ⟨st', _, h1, ⟨_, h2⟩, by rw [h2]; simp, h3, h4⟩

theorem Store.setRev_rev (st : Store) (ns ns' : Ns) (m : List (Val × Nat)) :
    (st.setRev ns m).rev ns' = if ns' = ns then m else st.rev ns' := by
  cases ns <;> cases ns' <;> simp [Store.setRev, Store.rev]

theorem Store.setRev_data (st : Store) (ns : Ns) (m : List (Val × Nat)) :
    (st.setRev ns m).data = st.data := by cases ns <;> rfl

theorem Store.Inv.setRev {B pre sup st} (inv : Store.Inv B pre sup st) (ns : Ns) (v : Val) (i : Nat)
    (hm : (i, v) ∈ st.data) (hv : v ∉ (st.rev ns).map (·.1)) :
    Store.Inv B pre sup (st.setRev ns (st.rev ns ++ [(v, i)])) := by
  obtain ⟨a1, a2, a3, a4, a5, a6, a7, a8⟩ := inv
  refine ⟨?_, ?_, ?_, ?_, ?_, ?_, ?_, ?_⟩
  · cases ns <;> exact a1
  · cases ns <;> exact a2
  · rw [Store.setRev_data]; exact a3
  · rw [Store.setRev_data]; exact a4
  · intro ns' w j h
    rw [Store.setRev_data]
    rw [Store.setRev_rev] at h
    split at h
    · rcases List.mem_append.mp h with h | h
      · exact a5 ns w j h
      · simp only [List.mem_singleton, Prod.mk.injEq] at h
        obtain ⟨rfl, rfl⟩ := h; exact hm
    · exact a5 ns' w j h
  · intro ns'
    rw [Store.setRev_rev]
    split
    · rw [List.map_append, List.nodup_append]
      refine ⟨a6 ns, by simp, ?_⟩
      intro a ha b hb
      simp only [List.map_cons, List.map_nil, List.mem_singleton] at hb
      subst hb; rintro rfl; exact hv ha
    · exact a6 ns'
  · cases ns <;> exact a7
  · cases ns <;> exact a8

/-- what `add` promises about a component `c` and the index `ci` returned for it -/
def Store.Ret (st : Store) (c : Option Val) (ci : Option Nat) : Prop :=
  (c = none → ci = none) ∧ ∀ x, c = some x → ∃ i, ci = some i ∧ (i, x) ∈ st.data

theorem Store.Ret.mono {st st' : Store} {c ci} (h : st.Ret c ci) (hext : ∃ ext, st'.data = st.data ++ ext) :
    st'.Ret c ci := by
  obtain ⟨ext, he⟩ := hext
  refine ⟨h.1, fun x hx => ?_⟩
  obtain ⟨i, h1, h2⟩ := h.2 x hx
  exact ⟨i, h1, by rw [he]; exact List.mem_append_left _ h2⟩

theorem Store.Inv.addTo_spec {B pre sup st} (hB : 0 < B) (hsup : BlocksDisjoint sup B)
    (inv : Store.Inv B pre sup st) (ns : Ns) (v : Option Val) :
    ∃ st' r, st.addTo sup ns v = .ok (st', r) ∧ (∃ ext, st'.data = st.data ++ ext) ∧
      st'.Ret v r ∧ Store.Inv B pre sup st' := by
  cases v with
  | none =>
    exact ⟨st, none, rfl, ⟨[], by simp⟩, ⟨fun _ => rfl, fun x hx => by cases hx⟩, inv⟩
  | some v =>
    cases hl : (st.rev ns).lookup v with
    | some i =>
      refine ⟨st, some i, by simp only [Store.addTo, hl], ⟨[], by simp⟩, ⟨nofun, ?_⟩, inv⟩
      intro x hx; cases hx
      exact ⟨i, rfl, inv.rev_sound ns _ _ (mem_of_lookup hl)⟩
    | none =>
      obtain ⟨st', i, h1, h2, h3, h4, h5⟩ := inv.allocNext_spec hB hsup v
      have hv : v ∉ (st'.rev ns).map (·.1) := by
        rw [h4]
        intro hm
        obtain ⟨p, hp, rfl⟩ := List.mem_map.mp hm
        have := List.lookup_eq_none_iff.mp hl p hp
        simp at this
      refine ⟨st'.setRev ns (st'.rev ns ++ [(v, i)]), some i, ?_, ?_, ⟨nofun, ?_⟩,
        h5.setRev ns v i h3 hv⟩
      · simp only [Store.addTo, hl, h1, bind, Except.bind, pure, Except.pure]
      · rw [Store.setRev_data]; exact h2
      · intro x hx; cases hx
        exact ⟨i, rfl, by rw [Store.setRev_data]; exact h3⟩

theorem Store.Inv.add_spec {B pre sup st} (hB : 0 < B) (hsup : BlocksDisjoint sup B)
    (inv : Store.Inv B pre sup st) (t s v : Option Val) :
    ∃ st' ti si vi, st.add sup t s v = .ok (st', (ti, si, vi)) ∧
      (∃ ext, st'.data = st.data ++ ext) ∧
      st'.Ret v vi ∧ st'.Ret t ti ∧ st'.Ret s si ∧ Store.Inv B pre sup st' := by
  obtain ⟨st1, vi, e1, x1, r1, inv1⟩ := inv.addTo_spec hB hsup .value v
  obtain ⟨st2, ti, e2, x2, r2, inv2⟩ := inv1.addTo_spec hB hsup .tag t
  obtain ⟨st3, si, e3, x3, r3, inv3⟩ := inv2.addTo_spec hB hsup .seq s
  refine ⟨st3, ti, si, vi, ?_, ?_, ?_, r2.mono x3, r3, inv3⟩
  · simp only [Store.add, e1, e2, e3, bind, Except.bind, pure, Except.pure]
  · obtain ⟨a, ha⟩ := x1; obtain ⟨b, hb⟩ := x2; obtain ⟨c, hc⟩ := x3
    exact ⟨a ++ b ++ c, by rw [hc, hb, ha]; simp⟩
  · refine r1.mono ?_
    obtain ⟨b, hb⟩ := x2; obtain ⟨c, hc⟩ := x3
    exact ⟨b ++ c, by rw [hc, hb]; simp⟩

theorem Store.Inv.addAll_spec {B pre sup} (hB : 0 < B) (hsup : BlocksDisjoint sup B) :
    ∀ (ops : List (Option Val × Option Val × Option Val)) {st}, Store.Inv B pre sup st →
    ∃ st' rs, st.addAll sup ops = .ok (st', rs) ∧ (∃ ext, st'.data = st.data ++ ext) ∧
      Store.Inv B pre sup st'
  | [], st, inv => ⟨st, [], rfl, ⟨[], by simp⟩, inv⟩
  | (t, s, v) :: ops, st, inv => by
    obtain ⟨st1, ti, si, vi, e1, ⟨a, ha⟩, -, -, -, inv1⟩ := inv.add_spec hB hsup t s v
    obtain ⟨st2, rs, e2, ⟨b, hb⟩, inv2⟩ := Store.Inv.addAll_spec hB hsup ops inv1
    refine ⟨st2, (ti, si, vi) :: rs, ?_, ⟨a ++ b, by rw [hb, ha]; simp⟩, inv2⟩
    simp only [Store.addAll, e1, e2, bind, Except.bind, pure, Except.pure]

/-- stores reachable from the empty store by a history of `add` calls -/
def Store.Reach (B : Nat) (pre : Bool) (sup : Nat → Nat) (st : Store) : Prop :=
  ∃ ops rs, Store.addAll { B := B, pre := pre } sup ops = .ok (st, rs)

theorem Store.Reach.inv {B pre sup st} (hB : 0 < B) (hsup : BlocksDisjoint sup B)
    (h : Store.Reach B pre sup st) : Store.Inv B pre sup st := by
  obtain ⟨ops, rs, e⟩ := h
  obtain ⟨st', rs', e', -, inv⟩ := Store.Inv.addAll_spec hB hsup ops (Store.Inv.init hB pre sup)
  rw [e] at e'; cases e'; exact inv

theorem Store.addAll_append (sup) : ∀ (ops₁ ops₂ : List (Option Val × Option Val × Option Val))
    {st st₁ st₂ : Store} {rs₁ rs₂},
    st.addAll sup ops₁ = .ok (st₁, rs₁) → st₁.addAll sup ops₂ = .ok (st₂, rs₂) →
    st.addAll sup (ops₁ ++ ops₂) = .ok (st₂, rs₁ ++ rs₂)
  | [], ops₂, st, st₁, st₂, rs₁, rs₂, h1, h2 => by
    simp only [Store.addAll] at h1; cases h1; simpa using h2
  | (t, s, v) :: ops₁, ops₂, st, st₁, st₂, rs₁, rs₂, h1, h2 => by
    simp only [Store.addAll, bind, Except.bind, pure, Except.pure] at h1
    split at h1
    · cases h1
    · rename_i x heq
      obtain ⟨sta, r⟩ := x
      simp only at h1
      split at h1
      · cases h1
      · rename_i y heq2
        obtain ⟨stb, rs⟩ := y
        simp only [Except.ok.injEq, Prod.mk.injEq] at h1
        obtain ⟨rfl, rfl⟩ := h1
        have := Store.addAll_append sup ops₁ ops₂ heq2 h2
        simp only [List.cons_append, Store.addAll, heq, this, bind, Except.bind, pure, Except.pure]

theorem Store.Reach.init (B pre sup) : Store.Reach B pre sup { B := B, pre := pre } :=
  ⟨[], [], rfl⟩

theorem Store.Reach.addAll {B pre sup st st' ops rs} (h : Store.Reach B pre sup st)
    (e : st.addAll sup ops = .ok (st', rs)) : Store.Reach B pre sup st' := by
  obtain ⟨ops0, rs0, e0⟩ := h
  exact ⟨ops0 ++ ops, rs0 ++ rs, Store.addAll_append sup _ _ e0 e⟩

theorem Store.Reach.add {B pre sup st st' t s v r} (h : Store.Reach B pre sup st)
    (e : st.add sup t s v = .ok (st', r)) : Store.Reach B pre sup st' := by
  apply h.addAll (ops := [(t, s, v)]) (rs := [r])
  simp only [Store.addAll, e, bind, Except.bind, pure, Except.pure]

end Sk
