/-
  SkModel.Proofs.CollectInv — lemmas about `chunks`/`flushBatches`, and the inductive
  invariant of the collection transition system of `SkModel.Collect`.
-/
import SkModel.Collect

namespace Sk.Col

open Sk

/-! ## chunks -/

theorem chunks_nil {α} (k : Nat) : chunks k ([] : List α) = [] := by
  rw [chunks]; simp

theorem chunks_cons_eq {α} (k : Nat) (xs : List α) (hk : k ≠ 0) (hx : xs ≠ []) :
    chunks k xs = xs.take k :: chunks k (xs.drop k) := by
  rw [chunks]; simp [hk, hx]

theorem chunks_flatten {α} (k : Nat) (hk : 1 ≤ k) :
    ∀ (m : Nat) (xs : List α), xs.length ≤ m → (chunks k xs).flatten = xs := by
  intro m
  induction m with
  | zero =>
    intro xs h
    have : xs = [] := List.length_eq_zero_iff.mp (by omega)
    subst this; simp [chunks_nil]
  | succ m ih =>
    intro xs h
    by_cases hx : xs = []
    · subst hx; simp [chunks_nil]
    · rw [chunks_cons_eq k xs (by omega) hx]
      have hl : xs.length ≠ 0 := fun h0 => hx (List.length_eq_zero_iff.mp h0)
      have : (xs.drop k).length ≤ m := by simp only [List.length_drop]; omega
      simp [ih _ this]

theorem chunks_sizes {α} (k : Nat) (hk : 1 ≤ k) :
    ∀ (m : Nat) (xs : List α), xs.length ≤ m →
      ∀ b ∈ chunks k xs, 1 ≤ b.length ∧ b.length ≤ k := by
  intro m
  induction m with
  | zero =>
    intro xs h
    have : xs = [] := List.length_eq_zero_iff.mp (by omega)
    subst this; simp [chunks_nil]
  | succ m ih =>
    intro xs h
    by_cases hx : xs = []
    · subst hx; simp [chunks_nil]
    · rw [chunks_cons_eq k xs (by omega) hx]
      have hl : xs.length ≠ 0 := fun h0 => hx (List.length_eq_zero_iff.mp h0)
      have : (xs.drop k).length ≤ m := by simp only [List.length_drop]; omega
      intro b hb
      rcases List.mem_cons.mp hb with rfl | hb
      · simp only [List.length_take]; omega
      · exact ih _ this b hb

/-! ## flushBatches -/

theorem flushGo_flatten {α} (FLUSH MAXB : Nat) (hk : 1 ≤ MAXB) (rs : List α) :
    ∀ buf : List α, (flushBatchesGo FLUSH MAXB buf rs).flatten = buf ++ rs := by
  induction rs with
  | nil => intro buf; simp [flushBatchesGo, chunks_flatten MAXB hk _ buf (Nat.le_refl _)]
  | cons r rs ih =>
    intro buf
    simp only [flushBatchesGo]
    split
    · simp [ih, chunks_flatten MAXB hk _ (buf ++ [r]) (Nat.le_refl _)]
    · simp [ih]

theorem flushGo_sizes {α} (FLUSH MAXB : Nat) (hk : 1 ≤ MAXB) (rs : List α) :
    ∀ buf : List α, ∀ b ∈ flushBatchesGo FLUSH MAXB buf rs, 1 ≤ b.length ∧ b.length ≤ MAXB := by
  induction rs with
  | nil =>
    intro buf b hb
    simp only [flushBatchesGo] at hb
    exact chunks_sizes MAXB hk _ buf (Nat.le_refl _) b hb
  | cons r rs ih =>
    intro buf b hb
    simp only [flushBatchesGo] at hb
    split at hb
    · rcases List.mem_append.mp hb with hb | hb
      · exact chunks_sizes MAXB hk _ _ (Nat.le_refl _) b hb
      · exact ih _ b hb
    · exact ih _ b hb

theorem sum_length_eq_flatten {α} (l : List (List α)) :
    (l.map List.length).sum = l.flatten.length := by
  simp [List.length_flatten]

theorem flush_total_go {α} (FLUSH MAXB : Nat) (hk : 1 ≤ MAXB) (buf rs : List α) :
    ((flushBatchesGo FLUSH MAXB buf rs).map List.length).sum = buf.length + rs.length := by
  rw [sum_length_eq_flatten, flushGo_flatten FLUSH MAXB hk, List.length_append]

/-! ## function updates, bounded sums -/

@[simp] theorem updT_same {α} (f : Nat → CTask α) (t : Nat) (v : CTask α) : updT f t v t = v := by
  simp [updT]

theorem updT_other {α} (f : Nat → CTask α) {t x : Nat} (v : CTask α) (h : x ≠ t) :
    updT f t v x = f x := by
  simp [updT, h]

@[simp] theorem updC_same {α} (f : Nat → List α) (t : Nat) (v : List α) : updC f t v t = v := by
  simp [updC]

theorem updC_other {α} (f : Nat → List α) {t x : Nat} (v : List α) (h : x ≠ t) :
    updC f t v x = f x := by
  simp [updC, h]

/-- `Σ_{t<n} f t` -/
def sumTo (n : Nat) (f : Nat → Nat) : Nat := ((List.range n).map f).sum

theorem sumTo_zero (f : Nat → Nat) : sumTo 0 f = 0 := by simp [sumTo]

theorem sumTo_succ (n : Nat) (f : Nat → Nat) : sumTo (n + 1) f = sumTo n f + f n := by
  simp [sumTo, List.range_succ]

theorem sumTo_congr {n : Nat} {f g : Nat → Nat} (h : ∀ t, t < n → f t = g t) :
    sumTo n f = sumTo n g := by
  induction n with
  | zero => simp [sumTo_zero]
  | succ n ih =>
    rw [sumTo_succ, sumTo_succ, ih (fun t ht => h t (by omega)), h n (by omega)]

theorem sumTo_update {n : Nat} (f : Nat → Nat) {t : Nat} (v : Nat) (ht : t < n) :
    sumTo n (fun x => if x = t then v else f x) + f t = sumTo n f + v := by
  induction n with
  | zero => omega
  | succ n ih =>
    rw [sumTo_succ, sumTo_succ]
    by_cases h : t = n
    · subst h
      have : sumTo t (fun x => if x = t then v else f x) = sumTo t f :=
        sumTo_congr (fun x hx => by simp [Nat.ne_of_lt hx])
      simp [this]; omega
    · have := ih (by omega)
      have hn : n ≠ t := fun e => h e.symm
      simp [hn]; omega

/-! ## takeFirst -/

theorem takeFirst_spec {α} (src : Nat) :
    ∀ (q : List (Nat × List α)) (b : List α) (rest : List (Nat × List α)),
      takeFirst src q = some (b, rest) →
      ((q.filter (·.1 == src)).flatMap (·.2) = b ++ (rest.filter (·.1 == src)).flatMap (·.2)) ∧
      (∀ s', s' ≠ src → q.filter (·.1 == s') = rest.filter (·.1 == s')) ∧
      rest.length + 1 = q.length ∧ (src, b) ∈ q ∧ (∀ e ∈ rest, e ∈ q) := by
  intro q
  induction q with
  | nil => intro b rest h; simp [takeFirst] at h
  | cons e q ih =>
    obtain ⟨s, b0⟩ := e
    intro b rest h
    simp only [takeFirst] at h
    split at h
    · rename_i hs; subst hs
      simp only [Option.some.injEq, Prod.mk.injEq] at h
      obtain ⟨rfl, rfl⟩ := h
      refine ⟨by simp, ?_, rfl, by simp, by intro e he; simp [he]⟩
      intro s' hs'
      simp [hs'.symm]
    · rename_i hs
      split at h
      · rename_i b' rest' heq
        simp only [Option.some.injEq, Prod.mk.injEq] at h
        obtain ⟨rfl, rfl⟩ := h
        obtain ⟨h1, h2, h3, h4, h5⟩ := ih _ _ heq
        refine ⟨?_, ?_, ?_, ?_, ?_⟩
        · simp [hs, h1]
        · intro s' hs'
          simp [List.filter_cons, h2 s' hs']
        · simp; omega
        · simp [h4]
        · intro e he
          rcases List.mem_cons.mp he with rfl | he
          · simp
          · exact List.mem_cons_of_mem _ (h5 e he)
      · simp at h

theorem takeFirst_head {α} (src : Nat) (b : List α) (q : List (Nat × List α)) :
    takeFirst src ((src, b) :: q) = some (b, q) := by
  simp [takeFirst]

/-! ## the invariant -/

/-- what is still in flight for `src`: its queued batches, in queue order -/
def inQueue {α} (q : List (Nat × List α)) (src : Nat) : List α :=
  (q.filter (·.1 == src)).flatMap (·.2)

structure Inv {α} (cap : Option Nat) (n : Nat) (seq : Nat → List α) (s : CState α) : Prop where
  ntasks : s.ntasks = n
  cap : s.cap = cap
  data : ∀ src, src < n →
    s.collected src ++ inQueue s.queue src ++ (s.tasks src).remaining.flatten = seq src
  out : ∀ src, n ≤ src → s.collected src = []
  qsrc : ∀ e ∈ s.queue, e.1 < n
  ncol : s.ncollected = sumTo n (fun t => (s.collected t).length)
  exp : s.expected = sumTo n (fun t => if (s.tasks t).finished then (seq t).length else 0)
  fin : ∀ t, t < n → (s.tasks t).finished = true → (s.tasks t).remaining = []
  phase : s.phase ≠ .waiting → ∀ t, t < n → (s.tasks t).finished = true
  total : ∀ t, t < n → (s.tasks t).total = (seq t).length
  drained : s.phase = .returned → s.queue = []

theorem inv_init {α} (cap : Option Nat) (FLUSH MAXB n : Nat) (hk : 1 ≤ MAXB) (seq : Nat → List α) :
    Inv cap n seq (CState.init cap FLUSH MAXB n seq) where
  ntasks := rfl
  cap := rfl
  data := by
    intro src _
    simp [CState.init, inQueue, flushBatches, flushGo_flatten FLUSH MAXB hk]
  out := by intro src _; rfl
  qsrc := by intro e he; simp [CState.init] at he
  ncol := by
    show 0 = sumTo n (fun _ => 0)
    induction n with
    | zero => rfl
    | succ n ih => rw [sumTo_succ, ← ih]
  exp := by
    show 0 = sumTo n (fun _ => 0)
    induction n with
    | zero => rfl
    | succ n ih => rw [sumTo_succ, ← ih]
  fin := by intro t _ h; simp [CState.init] at h
  phase := by intro h; exact absurd rfl h
  total := by intro t _; rfl
  drained := by intro h; simp [CState.init] at h

theorem inQueue_append {α} (q : List (Nat × List α)) (t : Nat) (b : List α) (src : Nat) :
    inQueue (q ++ [(t, b)]) src = inQueue q src ++ (if t = src then b else []) := by
  unfold inQueue
  by_cases h : t = src <;> simp [List.filter_append, h]

theorem inv_put {α} {cap : Option Nat} {n : Nat} {seq : Nat → List α} {s : CState α}
    (hi : Inv cap n seq s) {t : Nat} {b : List α} {rest : List (List α)}
    (ht : t < s.ntasks) (hf : (s.tasks t).finished = false)
    (hr : (s.tasks t).remaining = b :: rest) :
    Inv cap n seq { s with tasks := updT s.tasks t { s.tasks t with remaining := rest },
                           queue := s.queue ++ [(t, b)] } := by
  have htn : t < n := hi.ntasks ▸ ht
  have hwait : s.phase = .waiting := by
    apply Classical.byContradiction
    intro h
    have := hi.phase h t htn
    simp [hf] at this
  have hfin : ∀ x, (updT s.tasks t { s.tasks t with remaining := rest } x).finished
      = (s.tasks x).finished := by
    intro x
    by_cases hx : x = t
    · subst hx; simp
    · rw [updT_other _ _ hx]
  refine ⟨hi.ntasks, hi.cap, ?_, hi.out, ?_, hi.ncol, ?_, ?_, ?_, ?_, ?_⟩
  · intro src hsrc
    have := hi.data src hsrc
    dsimp only
    rw [inQueue_append]
    by_cases hx : src = t
    · subst hx
      simp only [updT_same, if_true]
      rw [hr] at this
      simpa [List.append_assoc] using this
    · have hx' : t ≠ src := fun e => hx e.symm
      rw [updT_other _ _ hx]
      simpa [hx'] using this
  · intro e he
    rcases List.mem_append.mp he with he | he
    · exact hi.qsrc e he
    · simp at he; subst he; exact htn
  · dsimp only
    rw [hi.exp]
    exact sumTo_congr (fun x _ => by rw [hfin])
  · intro x hx hfx
    dsimp only at hfx ⊢
    rw [hfin] at hfx
    have hxt : x ≠ t := by intro e; subst e; simp [hf] at hfx
    rw [updT_other _ _ hxt]
    exact hi.fin x hx hfx
  · intro h x hx
    exact absurd hwait h
  · intro x hx
    dsimp only
    by_cases hxt : x = t
    · subst hxt; simpa using hi.total x hx
    · rw [updT_other _ _ hxt]; exact hi.total x hx
  · intro h
    dsimp only at h
    rw [hwait] at h
    simp at h

theorem inv_finish {α} {cap : Option Nat} {n : Nat} {seq : Nat → List α} {s : CState α}
    (hi : Inv cap n seq s) {t : Nat}
    (ht : t < s.ntasks) (hf : (s.tasks t).finished = false)
    (hr : (s.tasks t).remaining = []) :
    Inv cap n seq { s with tasks := updT s.tasks t { s.tasks t with finished := true },
                           expected := s.expected + (s.tasks t).total } := by
  have htn : t < n := hi.ntasks ▸ ht
  have hwait : s.phase = .waiting := by
    apply Classical.byContradiction
    intro h
    have := hi.phase h t htn
    simp [hf] at this
  have hrem : ∀ x, (updT s.tasks t { s.tasks t with finished := true } x).remaining
      = (s.tasks x).remaining := by
    intro x
    by_cases hx : x = t
    · subst hx; simp
    · rw [updT_other _ _ hx]
  refine ⟨hi.ntasks, hi.cap, ?_, hi.out, hi.qsrc, hi.ncol, ?_, ?_, ?_, ?_, ?_⟩
  · intro src hsrc
    dsimp only
    rw [hrem]
    exact hi.data src hsrc
  · dsimp only
    have htot := hi.total t htn
    rw [hi.exp]
    have h0 : (fun x => if (updT s.tasks t { s.tasks t with finished := true } x).finished = true
          then (seq x).length else 0)
        = (fun x => if x = t then (seq t).length
                    else (fun y => if (s.tasks y).finished = true then (seq y).length else 0) x) := by
      funext x
      by_cases hx : x = t
      · subst hx; simp
      · rw [updT_other _ _ hx]; simp [hx]
    rw [h0]
    have := sumTo_update (n := n)
      (fun y => if (s.tasks y).finished = true then (seq y).length else 0) (seq t).length htn
    dsimp only at this ⊢
    simp only [hf, Bool.false_eq_true, if_false, Nat.add_zero] at this
    omega
  · intro x hx _
    dsimp only
    rw [hrem]
    by_cases hxt : x = t
    · subst hxt; exact hr
    · rename_i hfx
      dsimp only at hfx
      rw [updT_other _ _ hxt] at hfx
      exact hi.fin x hx hfx
  · intro h x hx
    exact absurd hwait h
  · intro x hx
    dsimp only
    by_cases hxt : x = t
    · subst hxt; simpa using hi.total x hx
    · rw [updT_other _ _ hxt]; exact hi.total x hx
  · intro h
    dsimp only at h
    rw [hwait] at h
    simp at h

theorem inv_get {α} {cap : Option Nat} {n : Nat} {seq : Nat → List α} {s : CState α}
    (hi : Inv cap n seq s) {src : Nat} {b : List α} {rest : List (Nat × List α)}
    (hp : s.phase ≠ .returned) (htf : takeFirst src s.queue = some (b, rest)) :
    Inv cap n seq { s with queue := rest,
                           collected := updC s.collected src (s.collected src ++ b),
                           ncollected := s.ncollected + b.length } := by
  obtain ⟨h1, h2, _, h4, h5⟩ := takeFirst_spec src _ _ _ htf
  have hsn : src < n := hi.qsrc _ h4
  refine ⟨hi.ntasks, hi.cap, ?_, ?_, ?_, ?_, hi.exp, hi.fin, hi.phase, hi.total, ?_⟩
  · intro x hx
    dsimp only
    have := hi.data x hx
    by_cases hxs : x = src
    · subst hxs
      rw [updC_same]
      unfold inQueue at this ⊢
      rw [h1] at this
      simpa [List.append_assoc] using this
    · rw [updC_other _ _ hxs]
      unfold inQueue at this ⊢
      rw [h2 x hxs] at this
      exact this
  · intro x hx
    dsimp only
    have hxs : x ≠ src := by omega
    rw [updC_other _ _ hxs]
    exact hi.out x hx
  · intro e he
    exact hi.qsrc e (h5 e he)
  · dsimp only
    rw [hi.ncol]
    have h0 : (fun x => (updC s.collected src (s.collected src ++ b) x).length)
        = (fun x => if x = src then (s.collected src ++ b).length
                    else (fun y => (s.collected y).length) x) := by
      funext x
      by_cases hx : x = src
      · subst hx; simp
      · rw [updC_other _ _ hx]; simp [hx]
    rw [h0]
    have := sumTo_update (n := n) (fun y => (s.collected y).length)
      (s.collected src ++ b).length hsn
    simp only [List.length_append] at this ⊢
    omega
  · intro h
    exact absurd h hp

theorem all_finished_of {α} (s : CState α)
    (h : (List.range s.ntasks).all (fun t => (s.tasks t).finished) = true) :
    ∀ t, t < s.ntasks → (s.tasks t).finished = true := by
  intro t ht
  rw [List.all_eq_true] at h
  exact h t (List.mem_range.mpr ht)

theorem inv_stop {α} {cap : Option Nat} {n : Nat} {seq : Nat → List α} {s : CState α}
    (hi : Inv cap n seq s)
    (h : (List.range s.ntasks).all (fun t => (s.tasks t).finished) = true) :
    Inv cap n seq { s with phase := .stopping } := by
  refine ⟨hi.ntasks, hi.cap, hi.data, hi.out, hi.qsrc, hi.ncol, hi.exp, hi.fin, ?_, hi.total, ?_⟩
  · intro _ t ht
    exact all_finished_of s h t (hi.ntasks ▸ ht)
  · intro h; simp at h

theorem inv_exit {α} {cap : Option Nat} {n : Nat} {seq : Nat → List α} {s : CState α}
    (hi : Inv cap n seq s) (hp : s.phase ≠ .waiting) (p : CPhase)
    (hq : p = .returned → s.queue = []) :
    Inv cap n seq { s with phase := p } := by
  refine ⟨hi.ntasks, hi.cap, hi.data, hi.out, hi.qsrc, hi.ncol, hi.exp, hi.fin, ?_, hi.total, ?_⟩
  · intro _ t ht
    exact hi.phase hp t ht
  · intro h; exact hq h

theorem inv_step {α} {cap : Option Nat} {n : Nat} {seq : Nat → List α} {s s' : CState α}
    {l : CLbl} (hi : Inv cap n seq s) (h : cstep s l = some s') : Inv cap n seq s' := by
  cases l with
  | put t =>
    simp only [cstep] at h
    split at h
    · rename_i hg
      split at h
      · rename_i b rest hr
        simp only [Option.some.injEq] at h
        subst h
        exact inv_put hi hg.1 (by simpa using hg.2.1) hr
      · simp at h
    · simp at h
  | finish t =>
    simp only [cstep] at h
    split at h
    · rename_i hg
      simp only [Option.some.injEq] at h
      subst h
      exact inv_finish hi hg.1 (by simpa using hg.2.1) (by simpa using hg.2.2)
    · simp at h
  | threadGet src =>
    simp only [cstep] at h
    split at h
    · rename_i hg
      split at h
      · rename_i b rest htf
        simp only [Option.some.injEq] at h
        subst h
        exact inv_get hi (by rcases hg with hg | hg <;> rw [hg] <;> simp) htf
      · simp at h
    · simp at h
  | stopThread =>
    simp only [cstep] at h
    split at h
    · rename_i hg
      simp only [Option.some.injEq] at h
      subst h
      exact inv_stop hi hg.2
    · simp at h
  | threadExit =>
    simp only [cstep] at h
    split at h
    · rename_i hg
      simp only [Option.some.injEq] at h
      subst h
      exact inv_exit hi (by rw [hg]; simp) _ (by simp)
    · simp at h
  | purgeGet src =>
    simp only [cstep] at h
    split at h
    · rename_i hg
      split at h
      · rename_i b rest htf
        simp only [Option.some.injEq] at h
        subst h
        exact inv_get hi (by rw [hg]; simp) htf
      · simp at h
    · simp at h
  | purgeExit =>
    simp only [cstep] at h
    split at h
    · rename_i hg
      simp only [Option.some.injEq] at h
      subst h
      exact inv_exit hi (by rw [hg.1]; simp) _ (fun _ => by simpa using hg.2.1)
    · simp at h

theorem inv_run {α} {cap : Option Nat} {n : Nat} {seq : Nat → List α} (ls : List CLbl) :
    ∀ {s s' : CState α}, Inv cap n seq s → crun s ls = some s' → Inv cap n seq s' := by
  induction ls with
  | nil =>
    intro s s' hi h
    simp only [crun, Option.some.injEq] at h
    subst h; exact hi
  | cons l ls ih =>
    intro s s' hi h
    simp only [crun] at h
    split at h
    · rename_i s1 hs1
      exact ih (inv_step hi hs1) h
    · simp at h

/-! ## consequences of the invariant -/

theorem inQueue_nil {α} (src : Nat) : inQueue ([] : List (Nat × List α)) src = [] := rfl

/-- all tasks finished and nothing in flight: everything is collected -/
theorem collected_all {α} {cap : Option Nat} {n : Nat} {seq : Nat → List α} {s : CState α}
    (hi : Inv cap n seq s) (hall : ∀ t, t < n → (s.tasks t).finished = true)
    (hq : s.queue = []) : ∀ src, s.collected src = if src < n then seq src else [] := by
  intro src
  by_cases h : src < n
  · have := hi.data src h
    rw [hq, inQueue_nil, hi.fin src h (hall src h)] at this
    simpa [h] using this
  · simp only [h, if_false]
    exact hi.out src (by omega)

theorem counts_agree {α} {cap : Option Nat} {n : Nat} {seq : Nat → List α} {s : CState α}
    (hi : Inv cap n seq s) (hall : ∀ t, t < n → (s.tasks t).finished = true)
    (hq : s.queue = []) : s.expected = s.ncollected := by
  rw [hi.exp, hi.ncol]
  apply sumTo_congr
  intro t ht
  have := collected_all hi hall hq t
  simp only [ht, if_true] at this
  rw [this, hall t ht]
  simp

/-! ## progress -/

theorem progress {α} {cap : Option Nat} {n : Nat} {seq : Nat → List α} {s : CState α}
    (hi : Inv cap n seq s) (hc : ∀ c, cap = some c → 1 ≤ c) (hp : s.phase ≠ .returned) :
    ∃ l s', cstep s l = some s' := by
  have get_head : ∀ (src : Nat) (b : List α) (q : List (Nat × List α)), s.queue = (src, b) :: q →
      (s.phase = .waiting ∨ s.phase = .stopping) → ∃ l s', cstep s l = some s' := by
    intro src b q hq hph
    exact ⟨.threadGet src, Option.isSome_iff_exists.mp (by simp only [cstep, hph, if_true, hq, takeFirst_head, Option.isSome_some])⟩
  cases hph : s.phase with
  | returned => exact absurd hph hp
  | purge =>
    cases hq : s.queue with
    | nil =>
      have hall := hi.phase (by rw [hph]; simp)
      have hle : s.expected ≤ s.ncollected := Nat.le_of_eq (counts_agree hi hall hq)
      exact ⟨.purgeExit, Option.isSome_iff_exists.mp (by simp [cstep, hph, hq, hle])⟩
    | cons e q =>
      obtain ⟨src, b⟩ := e
      exact ⟨.purgeGet src, Option.isSome_iff_exists.mp (by simp only [cstep, hph, if_true, hq, takeFirst_head, Option.isSome_some])⟩
  | stopping =>
    exact ⟨.threadExit, Option.isSome_iff_exists.mp (by simp [cstep, hph])⟩
  | waiting =>
    by_cases hall : (List.range s.ntasks).all (fun t => (s.tasks t).finished) = true
    · exact ⟨.stopThread, Option.isSome_iff_exists.mp (by simp only [cstep, hph, hall, and_self, if_true, Option.isSome_some])⟩
    · have : ∃ t, t < s.ntasks ∧ (s.tasks t).finished = false := by
        simpa using hall
      obtain ⟨t, ht, hf⟩ := this
      cases hr : (s.tasks t).remaining with
      | nil => exact ⟨.finish t, Option.isSome_iff_exists.mp (by simp [cstep, ht, hf, hr])⟩
      | cons b rest =>
        by_cases hroom : s.room = true
        · exact ⟨.put t, Option.isSome_iff_exists.mp (by simp [cstep, ht, hf, hr, hroom])⟩
        · cases hq : s.queue with
          | nil =>
            exfalso
            apply hroom
            unfold CState.room
            rw [hi.cap]
            cases hcap : cap with
            | none => rfl
            | some c =>
              have := hc c hcap
              simp [hq]; omega
          | cons e q =>
            obtain ⟨src, b'⟩ := e
            exact get_head src b' q hq (Or.inl hph)

/-! ## termination -/

theorem sumTo_updT {α} {n : Nat} (g : CTask α → Nat) (f : Nat → CTask α) {t : Nat} (v : CTask α)
    (ht : t < n) :
    sumTo n (fun x => g (updT f t v x)) + g (f t) = sumTo n (fun x => g (f x)) + g v := by
  have h0 : (fun x => g (updT f t v x)) = (fun x => if x = t then g v else (fun y => g (f y)) x) := by
    funext x
    by_cases hx : x = t
    · subst hx; simp
    · rw [updT_other _ _ hx]; simp [hx]
  rw [h0]
  exact sumTo_update (fun y => g (f y)) (g v) ht

def rank : CPhase → Nat
  | .waiting => 3
  | .stopping => 2
  | .purge => 1
  | .returned => 0

/-- termination measure: twice the number of batches not yet put, plus the number of
    unfinished tasks, plus the queue length, plus the number of phase changes still to come -/
def mu {α} (s : CState α) : Nat :=
  2 * sumTo s.ntasks (fun t => (s.tasks t).remaining.length)
    + sumTo s.ntasks (fun t => if (s.tasks t).finished then 0 else 1)
    + s.queue.length + rank s.phase

theorem mu_step {α} {s s' : CState α} {l : CLbl} (h : cstep s l = some s') : mu s' < mu s := by
  cases l with
  | put t =>
    simp only [cstep] at h
    split at h
    · rename_i hg
      split at h
      · rename_i b rest hr
        simp only [Option.some.injEq] at h
        subst h
        have h1 := sumTo_updT (n := s.ntasks) (fun k => k.remaining.length) s.tasks
          { s.tasks t with remaining := rest } hg.1
        have h2 := sumTo_updT (n := s.ntasks) (fun k => if k.finished then 0 else 1) s.tasks
          { s.tasks t with remaining := rest } hg.1
        unfold mu
        dsimp only at h1 h2 ⊢
        rw [hr] at h1
        simp only [List.length_cons, List.length_append, List.length_nil] at h1 ⊢
        omega
      · simp at h
    · simp at h
  | finish t =>
    simp only [cstep] at h
    split at h
    · rename_i hg
      simp only [Option.some.injEq] at h
      subst h
      have hf : (s.tasks t).finished = false := by simpa using hg.2.1
      have h1 := sumTo_updT (n := s.ntasks) (fun k => k.remaining.length) s.tasks
        { s.tasks t with finished := true } hg.1
      have h2 := sumTo_updT (n := s.ntasks) (fun k => if k.finished then 0 else 1) s.tasks
        { s.tasks t with finished := true } hg.1
      unfold mu
      dsimp only at h1 h2 ⊢
      simp only [hf, Bool.false_eq_true, if_false, if_true] at h2
      omega
    · simp at h
  | threadGet src =>
    simp only [cstep] at h
    split at h
    · split at h
      · rename_i b rest htf
        simp only [Option.some.injEq] at h
        subst h
        have := (takeFirst_spec src _ _ _ htf).2.2.1
        unfold mu
        dsimp only
        omega
      · simp at h
    · simp at h
  | stopThread =>
    simp only [cstep] at h
    split at h
    · rename_i hg
      simp only [Option.some.injEq] at h
      subst h
      unfold mu
      dsimp only
      rw [hg.1]
      simp [rank]
    · simp at h
  | threadExit =>
    simp only [cstep] at h
    split at h
    · rename_i hg
      simp only [Option.some.injEq] at h
      subst h
      unfold mu
      dsimp only
      rw [hg]
      simp [rank]
    · simp at h
  | purgeGet src =>
    simp only [cstep] at h
    split at h
    · split at h
      · rename_i b rest htf
        simp only [Option.some.injEq] at h
        subst h
        have := (takeFirst_spec src _ _ _ htf).2.2.1
        unfold mu
        dsimp only
        omega
      · simp at h
    · simp at h
  | purgeExit =>
    simp only [cstep] at h
    split at h
    · rename_i hg
      simp only [Option.some.injEq] at h
      subst h
      unfold mu
      dsimp only
      rw [hg.1]
      simp [rank]
    · simp at h

theorem mu_run {α} (ls : List CLbl) :
    ∀ {s s' : CState α}, crun s ls = some s' → ls.length + mu s' ≤ mu s := by
  induction ls with
  | nil =>
    intro s s' h
    simp only [crun, Option.some.injEq] at h
    subst h; simp
  | cons l ls ih =>
    intro s s' h
    simp only [crun] at h
    split at h
    · rename_i s1 hs1
      have := ih h
      have := mu_step hs1
      simp only [List.length_cons]; omega
    · simp at h

end Sk.Col
