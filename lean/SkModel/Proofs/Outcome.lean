/-
  SkModel.Proofs.Outcome — which exceptions can leave `runTask`, and when.

  The only `raise` sites of the task model are
    * `lineStep`: a line that does not decode raises `.unicodeDecode` before any search
      sees it;
    * `savePart`: a captured group that has no field name raises `.fileSearch`
      (a *configuration* error: `field_info` shorter than the pattern's groups).
  Under the well-formedness condition below (a condition on the configuration and on the
  regex behaviour, not on the content) the second site is unreachable, so the outcome of
  a run is a function of the decode oracle alone.
-/
import SkModel.Task
import SkModel.Proofs.TaskProj

namespace Sk

/-- every match this definition can produce fits its field list -/
def SDef.WF (d : SDef) : Prop :=
  d.store = false ∨ d.fields = none ∨
  ∃ fs, d.fields = some fs ∧
    ∀ m, ((∃ i, d.run i = some m) ∨ d.emptyRes = some m) →
      m.groups ≠ [] ∧ m.groups.length ≤ fs.length

def Def.WF (d : Def) : Prop :=
  match d.kind with
  | .simple sd => sd.WF
  | .seq s => s.start.WF ∧ (∀ b, s.body = some b → b.WF) ∧ (∀ e, s.end_ = some e → e.WF)

namespace Out

universe u v

/-- the computation returns normally -/
def IsOk {ε : Type u} {α : Type v} (x : Except ε α) : Prop := ∃ a, x = .ok a

theorem isOk_ok {ε : Type u} {α : Type v} (a : α) : IsOk (.ok a : Except ε α) := ⟨a, rfl⟩

theorem isOk_pure {ε : Type u} {α : Type v} (a : α) : IsOk (pure a : Except ε α) := ⟨a, rfl⟩

theorem isOk_bind {ε : Type u} {α β : Type v} {x : Except ε α} {f : α → Except ε β}
    (hx : IsOk x) (hf : ∀ a, x = .ok a → IsOk (f a)) : IsOk (x >>= f) := by
  obtain ⟨a, ha⟩ := hx
  obtain ⟨b, hb⟩ := hf a ha
  exact ⟨b, by simp only [ha, bind, Except.bind, hb]⟩

theorem error_bind {ε : Type u} {α β : Type v} {x : Except ε α} {f : α → Except ε β} {e : ε}
    (hx : x = .error e) : (x >>= f) = .error e := by
  simp only [hx, bind, Except.bind]

theorem ok_bind {ε : Type u} {α β : Type v} {x : Except ε α} {f : α → Except ε β} {a : α}
    (hx : x = .ok a) : (x >>= f) = f a := by
  simp only [hx, bind, Except.bind]

/-! ### `store_result` -/

theorem savePart_none_fields (idx : Nat) (v : Option Val) : IsOk (savePart none idx v) := by
  unfold savePart
  cases v <;> exact isOk_ok _

theorem savePart_none_val (fields : Option (List String)) (idx : Nat) :
    IsOk (savePart fields idx none) := by
  unfold savePart
  exact isOk_ok _

theorem savePart_some (fs : List String) (idx : Nat) (v : Option Val)
    (h0 : idx ≠ 0) (hlt : idx - 1 < fs.length) : IsOk (savePart (some fs) idx v) := by
  cases v with
  | none => exact savePart_none_val _ _
  | some x =>
    have hget : fs[idx - 1]? = some fs[idx - 1] := List.getElem?_eq_getElem hlt
    simp only [savePart, h0, if_false, hget]
    exact isOk_ok _

theorem savePartsFrom_none : ∀ (k : Nat) (vs : List (Option Val)), IsOk (savePartsFrom none k vs)
  | _, [] => isOk_ok _
  | k, v :: vs => by
    simp only [savePartsFrom]
    exact isOk_bind (savePart_none_fields k v) fun _ _ =>
      isOk_bind (savePartsFrom_none (k + 1) vs) fun _ _ => isOk_pure _

theorem savePartsFrom_some (fs : List String) :
    ∀ (k : Nat) (vs : List (Option Val)), k ≠ 0 → k + vs.length ≤ fs.length + 1 →
      IsOk (savePartsFrom (some fs) k vs)
  | _, [], _, _ => isOk_ok _
  | k, v :: vs, h0, hl => by
    simp only [List.length_cons] at hl
    simp only [savePartsFrom]
    refine isOk_bind (savePart_some fs k v h0 (by omega)) fun _ _ =>
      isOk_bind (savePartsFrom_some fs (k + 1) vs (by omega) (by omega)) fun _ _ => isOk_pure _

/-- a match the definition can produce (on a line, or on the empty string at end of file) -/
def Produces (d : SDef) (m : Match) : Prop := (∃ i, d.run i = some m) ∨ d.emptyRes = some m

theorem mkParts_isOk {d : SDef} {m : Match} (hwf : d.WF) (hm : Produces d m) :
    IsOk (mkParts d m) := by
  unfold mkParts
  rcases hwf with hs | hn | ⟨fs, hfs, hall⟩
  · simp only [hs, Bool.not_false, if_true]; exact isOk_ok _
  · split
    · exact isOk_ok _
    · split
      · rw [hn]
        exact isOk_bind (savePart_none_fields _ _) fun _ _ => isOk_pure _
      · rw [hn]; exact savePartsFrom_none _ _
  · obtain ⟨hne, hlen⟩ := hall m hm
    split
    · exact isOk_ok _
    · have : m.groups.isEmpty = false := by
        cases hg : m.groups with
        | nil => exact absurd hg hne
        | cons _ _ => rfl
      simp only [this, Bool.false_eq_true, if_false, hfs]
      exact savePartsFrom_some fs 1 m.groups (by omega) (by omega)

theorem mkSeqRes_isOk {id s sfx sd ln sec m} (hwf : SDef.WF sd) (hm : Produces sd m) :
    IsOk (mkSeqRes id s sfx sd ln sec m) := by
  unfold mkSeqRes
  exact isOk_bind (mkParts_isOk hwf hm) fun _ _ => isOk_pure _

theorem mkSimpleRes_isOk {id sd ln m} (hwf : SDef.WF sd) (hm : Produces sd m) :
    IsOk (mkSimpleRes id sd ln m) := by
  unfold mkSimpleRes
  exact isOk_bind (mkParts_isOk hwf hm) fun _ _ => isOk_pure _

/-! ### one definition on one line -/

structure SeqWF (s : SeqDef) : Prop where
  start : s.start.WF
  body : ∀ b, s.body = some b → b.WF
  end_ : ∀ e, s.end_ = some e → e.WF

theorem seqStep_isOk {id s i st} (hwf : SeqWF s) : IsOk (seqStep id s i st) := by
  have hstart : ∀ m, s.start.run i = some m → Produces s.start m := fun m h => Or.inl ⟨i, h⟩
  unfold seqStep
  cases hE : s.end_ with
  | none =>
    simp only
    cases hR : s.start.run i with
    | none =>
      simp only
      split
      · cases hB : s.body with
        | none => exact isOk_pure _
        | some b =>
          simp only
          cases hbr : b.run i with
          | none => exact isOk_pure _
          | some m =>
            exact isOk_bind (mkSeqRes_isOk (hwf.body b hB) (Or.inl ⟨i, hbr⟩)) fun _ _ => isOk_pure _
      · exact isOk_pure _
    | some m =>
      simp only
      split
      · exact isOk_bind (mkSeqRes_isOk hwf.start (hstart m hR)) fun _ _ => isOk_pure _
      · exact isOk_bind (mkSeqRes_isOk hwf.start (hstart m hR)) fun _ _ => isOk_pure _
  | some e =>
    have hewf := hwf.end_ e hE
    cases hS : st.started with
    | false =>
      simp only [Bool.false_eq_true, if_false]
      cases hR : s.start.run i with
      | none => simp only [hS, Bool.false_eq_true, if_false]; exact isOk_pure _
      | some m =>
        simp only [hS, Bool.not_false, if_true]
        exact isOk_bind (mkSeqRes_isOk hwf.start (hstart m hR)) fun _ _ => isOk_pure _
    | true =>
      simp only [if_true]
      cases hR : s.start.run i with
      | some m =>
        simp only [Option.isSome_some, if_true, Bool.not_false]
        exact isOk_bind (mkSeqRes_isOk hwf.start (hstart m hR)) fun _ _ => isOk_pure _
      | none =>
        simp only [Option.isSome_none, Bool.false_eq_true, if_false]
        cases hER : e.run i with
        | some m =>
          simp only [hS, Bool.not_true, Bool.false_eq_true, if_false]
          exact isOk_bind (mkSeqRes_isOk hewf (Or.inl ⟨i, hER⟩)) fun _ _ => isOk_pure _
        | none =>
          simp only [hS, if_true]
          cases hB : s.body with
          | none => exact isOk_pure _
          | some b =>
            simp only
            cases hbr : b.run i with
            | none => exact isOk_pure _
            | some m =>
              exact isOk_bind (mkSeqRes_isOk (hwf.body b hB) (Or.inl ⟨i, hbr⟩)) fun _ _ =>
                isOk_pure _

theorem Def.WF_simple {d : Def} {sd} (h : d.WF) (hk : d.kind = .simple sd) : sd.WF := by
  unfold Def.WF at h; rw [hk] at h; exact h

theorem Def.WF_seq {d : Def} {s} (h : d.WF) (hk : d.kind = .seq s) : SeqWF s := by
  unfold Def.WF at h; rw [hk] at h; exact ⟨h.1, h.2.1, h.2.2⟩

theorem defBody_isOk {i d st} (hwf : Def.WF d) : IsOk (defBody i d st) := by
  unfold defBody
  cases hk : d.kind with
  | simple sd =>
    simp only
    cases hr : sd.run i with
    | none => exact isOk_pure _
    | some m =>
      exact isOk_bind (mkSimpleRes_isOk (Def.WF_simple hwf hk) (Or.inl ⟨i, hr⟩)) fun _ _ =>
        isOk_pure _
  | seq s =>
    exact isOk_bind (seqStep_isOk (Def.WF_seq hwf hk)) fun _ _ => isOk_pure _

/-- `defStep` never fails under WF, whatever the state -/
theorem defStep_isOk {i d st} (hwf : Def.WF d) : IsOk (defStep i d st) := by
  rw [defStep_eq]
  split
  · exact isOk_pure _
  · exact defBody_isOk hwf

theorem defsStep_isOk (i : Nat) : ∀ (defs : List Def) (sts : List DSt),
    (∀ d ∈ defs, Def.WF d) → IsOk (defsStep i defs sts)
  | [], _, _ => by simp only [defsStep]; exact isOk_pure _
  | _ :: _, [], _ => by simp only [defsStep]; exact isOk_pure _
  | d :: ds, st :: sts, h => by
    simp only [defsStep]
    refine isOk_bind (defStep_isOk (h d (by simp))) fun a _ => ?_
    exact isOk_bind (defsStep_isOk i ds sts fun x hx => h x (by simp [hx])) fun _ _ => isOk_pure _

/-! ### one line, all lines -/

theorem lineStep_dec {dec defs ls i} (hwf : ∀ d ∈ defs, Def.WF d) (hd : dec i = true) :
    IsOk (lineStep dec defs ls i) := by
  simp only [lineStep, hd, Bool.not_true, Bool.false_eq_true, if_false]
  exact isOk_bind (defsStep_isOk i defs ls.sts hwf) fun _ _ => isOk_pure _

theorem lineStep_undec {dec defs ls i} (hd : dec i = false) :
    lineStep dec defs ls i = .error .unicodeDecode := by
  simp only [lineStep, hd, Bool.not_false, if_true]

/-- `lineStep` fails iff the line does not decode -/
theorem lineStep_error_iff {dec defs ls i} (hwf : ∀ d ∈ defs, Def.WF d) :
    (∃ e, lineStep dec defs ls i = .error e) ↔ dec i = false := by
  constructor
  · rintro ⟨e, he⟩
    cases hd : dec i with
    | false => rfl
    | true =>
      obtain ⟨a, ha⟩ := lineStep_dec (ls := ls) hwf hd
      rw [ha] at he; cases he
  · intro hd; exact ⟨_, lineStep_undec hd⟩

theorem linesLoop_isOk {dec defs} (hwf : ∀ d ∈ defs, Def.WF d) :
    ∀ (is : List Nat) (ls : LSt), (∀ i ∈ is, dec i = true) → IsOk (linesLoop dec defs ls is)
  | [], _, _ => isOk_pure _
  | i :: is, ls, h => by
    simp only [linesLoop]
    exact isOk_bind (lineStep_dec hwf (h i (by simp))) fun ls' _ =>
      linesLoop_isOk hwf is ls' fun j hj => h j (by simp [hj])

theorem linesLoop_undec {dec defs} (hwf : ∀ d ∈ defs, Def.WF d) :
    ∀ (is : List Nat) (ls : LSt), (∃ i ∈ is, dec i = false) →
      linesLoop dec defs ls is = .error .unicodeDecode
  | [], _, h => by obtain ⟨_, hi, _⟩ := h; cases hi
  | i :: is, ls, h => by
    simp only [linesLoop]
    cases hd : dec i with
    | false => exact error_bind (lineStep_undec hd)
    | true =>
      obtain ⟨ls', hl⟩ := lineStep_dec (ls := ls) hwf hd
      rw [ok_bind hl]
      apply linesLoop_undec hwf is ls'
      obtain ⟨j, hj, hjd⟩ := h
      simp only [List.mem_cons] at hj
      rcases hj with rfl | hj
      · rw [hd] at hjd; cases hjd
      · exact ⟨j, hj, hjd⟩

/-! ### end of file -/

theorem eofDef_isOk {n d st} (hwf : Def.WF d) : IsOk (eofDef n d st) := by
  unfold eofDef
  cases hk : d.kind with
  | simple sd => exact isOk_pure _
  | seq s =>
    simp only
    split
    · cases hE : s.end_ with
      | none => exact isOk_pure _
      | some e =>
        simp only
        cases hem : e.emptyRes with
        | none => exact isOk_pure _
        | some m =>
          exact isOk_bind (mkSeqRes_isOk ((Def.WF_seq hwf hk).end_ e hE) (Or.inr hem)) fun _ _ =>
            isOk_pure _
    · exact isOk_pure _

theorem eofAll_isOk (n : Nat) : ∀ (defs : List Def) (sts : List DSt),
    (∀ d ∈ defs, Def.WF d) → IsOk (eofAll n defs sts)
  | [], _, _ => by simp only [eofAll]; exact isOk_pure _
  | _ :: _, [], _ => by simp only [eofAll]; exact isOk_pure _
  | d :: ds, st :: sts, h => by
    simp only [eofAll]
    refine isOk_bind (eofDef_isOk (h d (by simp))) fun _ _ => ?_
    exact isOk_bind (eofAll_isOk n ds sts fun x hx => h x (by simp [hx])) fun _ _ => isOk_pure _

theorem dedup_wf {defs : List Def} (hwf : ∀ d ∈ defs, Def.WF d) :
    ∀ d ∈ dedupDefs defs [], Def.WF d :=
  fun d hd => hwf d (dedup_mem hd).1

end Out
end Sk
