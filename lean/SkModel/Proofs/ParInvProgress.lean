/-
  SkModel.Proofs.ParInvProgress — a progress measure for the concurrent store.

  `wm s w` is a natural number attached to worker `w`; a step of worker `w` never increases it,
  leaves the measure of every other worker unchanged, and strictly decreases it when the step is
  *productive* (`Par.productive`: everything except the reverse-map reads/writes of `sync`, which
  the model lets a worker repeat at will, and re-writing an item that is already synced).
-/
import SkModel.Proofs.ParInvLive

namespace Sk.Par
open Sk StoreInv

/-! ### a micro-op stores at most one new item -/

theorem setRev_data_len (st : Store) (ns : Ns) (m : List (Val × Nat)) :
    (st.setRev ns m).data.length = st.data.length := by cases ns <;> rfl

theorem addTo_data_len {st st' : Store} {sup : Nat → Nat} {ns : Ns} {v : Option Val} {r : Option Nat}
    (h : st.addTo sup ns v = .ok (st', r)) : st'.data.length ≤ st.data.length + 1 := by
  cases v with
  | none => simp only [Store.addTo] at h; cases h; omega
  | some x =>
    simp only [Store.addTo] at h
    cases hl : (st.rev ns).lookup x with
    | some i => rw [hl] at h; cases h; omega
    | none =>
      rw [hl] at h
      simp only [bind, Except.bind, pure, Except.pure] at h
      split at h
      · cases h
      · rename_i y hy
        obtain ⟨st1, i⟩ := y
        simp only [Except.ok.injEq, Prod.mk.injEq] at h
        obtain ⟨rfl, -⟩ := h
        rw [setRev_data_len]
        simp only [Store.allocNext] at hy
        cases hf : st.data.find? (fun p => p.2 == x) with
        | some p => rw [hf] at hy; cases hy; omega
        | none =>
          rw [hf] at hy
          have hd : (st.refresh sup).data = st.data := by
            rw [refresh_eq]; cases trig st <;> rfl
          simp only at hy
          split at hy
          · split at hy
            · cases hy; simp [hd]
            · cases hy
          · cases hy; simp [hd]

/-! ### invariant 5: bookkeeping of the program counter -/

structure Inv5 (s : PState) : Prop where
  wr : ∀ w, (s.ws w).pc = .wrote → (s.ws w).st.nblocks < (s.ws w).grants.length
  fin : ∀ w, (s.ws w).pc = .sync ∨ (s.ws w).pc = .done → (s.ws w).ops = []

theorem Inv5.init (B : Nat) (progs : Nat → List (Ns × Option Val)) : Inv5 (PState.init B progs) := by
  refine ⟨?_, ?_⟩
  · intro w hc; simp [PState.init] at hc
  · intro w hc; simp [PState.init] at hc

theorem Inv5.congr {s s' : PState} (h : Inv5 s)
    (hst : ∀ x, (s'.ws x).st = (s.ws x).st) (hg : ∀ x, (s'.ws x).grants = (s.ws x).grants)
    (hops : ∀ x, (s'.ws x).ops = (s.ws x).ops) (hpc : ∀ x, (s'.ws x).pc = (s.ws x).pc) : Inv5 s' := by
  refine ⟨?_, ?_⟩
  · intro w; rw [hpc, hst, hg]; exact h.wr w
  · intro w; rw [hpc, hops]; exact h.fin w

theorem inv5_step {B : Nat} {s : PState} {l : PLbl} {s' : PState} (h2 : Inv2 B s) (h : Inv5 s)
    (hs : Step s l s') : Inv5 s' := by
  cases hs with
  | local_ w ns v rest st' i hpc hready hops hadd =>
    refine ⟨?_, ?_⟩
    · intro x hc
      by_cases hx : x = w
      · subst hx; simp only [updW_same] at hc; rw [hpc] at hc; cases hc
      · simp only [updW_other _ _ _ _ hx] at hc ⊢; exact h.wr x hc
    · intro x hc
      by_cases hx : x = w
      · subst hx; simp only [updW_same] at hc; rw [hpc] at hc; simp at hc
      · simp only [updW_other _ _ _ _ hx] at hc ⊢; exact h.fin x hc
  | syncData w idx v hpc hmem =>
    exact h.congr (updW_proj (·.st) _ _ _ rfl) (updW_proj (·.grants) _ _ _ rfl)
      (updW_proj (·.ops) _ _ _ rfl) (updW_proj (·.pc) _ _ _ rfl)
  | syncRevRead w ns v hpc => exact h
  | syncRevWrite w ns v idx hpc hmem =>
    exact h.congr (fun _ => rfl) (fun _ => rfl) (fun _ => rfl) (fun _ => rfl)
  | releaseSync w hlock hpc =>
    exact h.congr (fun _ => rfl) (fun _ => rfl) (fun _ => rfl) (fun _ => rfl)
  | acquireSync w hlock hpc hops =>
    refine ⟨?_, ?_⟩
    · intro x hc
      by_cases hx : x = w
      · subst hx; simp at hc
      · simp only [updW_other _ _ _ _ hx] at hc ⊢; exact h.wr x hc
    · intro x hc
      by_cases hx : x = w
      · subst hx; simp only [updW_same]; exact hops
      · simp only [updW_other _ _ _ _ hx] at hc ⊢; exact h.fin x hc
  | acquireBlk w hlock hpc hops hnr =>
    refine ⟨?_, ?_⟩
    · intro x hc
      by_cases hx : x = w
      · subst hx; simp at hc
      · simp only [updW_other _ _ _ _ hx] at hc ⊢; exact h.wr x hc
    · intro x hc
      by_cases hx : x = w
      · subst hx; simp at hc
      · simp only [updW_other _ _ _ _ hx] at hc ⊢; exact h.fin x hc
  | read1 w hlock hpc =>
    refine ⟨?_, ?_⟩
    · intro x hc
      by_cases hx : x = w
      · subst hx; simp at hc
      · simp only [updW_other _ _ _ _ hx] at hc ⊢; exact h.wr x hc
    · intro x hc
      by_cases hx : x = w
      · subst hx; simp at hc
      · simp only [updW_other _ _ _ _ hx] at hc ⊢; exact h.fin x hc
  | read2 w hlock hpc =>
    refine ⟨?_, ?_⟩
    · intro x hc
      by_cases hx : x = w
      · subst hx; simp at hc
      · simp only [updW_other _ _ _ _ hx] at hc ⊢; exact h.wr x hc
    · intro x hc
      by_cases hx : x = w
      · subst hx; simp at hc
      · simp only [updW_other _ _ _ _ hx] at hc ⊢; exact h.fin x hc
  | writePtr w hlock hpc =>
    refine ⟨?_, ?_⟩
    · intro x hc
      by_cases hx : x = w
      · subst hx
        simp only [updW_same, List.length_append, List.length_singleton]
        have := h2.nb_le x; omega
      · simp only [updW_other _ _ _ _ hx] at hc ⊢; exact h.wr x hc
    · intro x hc
      by_cases hx : x = w
      · subst hx; simp at hc
      · simp only [updW_other _ _ _ _ hx] at hc ⊢; exact h.fin x hc
  | releaseBlk w hlock hpc =>
    refine ⟨?_, ?_⟩
    · intro x hc
      by_cases hx : x = w
      · subst hx; simp at hc
      · simp only [updW_other _ _ _ _ hx] at hc ⊢; exact h.wr x hc
    · intro x hc
      by_cases hx : x = w
      · subst hx; simp at hc
      · simp only [updW_other _ _ _ _ hx] at hc ⊢; exact h.fin x hc
  | syncStart w hpc hops =>
    refine ⟨?_, ?_⟩
    · intro x hc
      by_cases hx : x = w
      · subst hx; simp at hc
      · simp only [updW_other _ _ _ _ hx] at hc ⊢; exact h.wr x hc
    · intro x hc
      by_cases hx : x = w
      · subst hx; simp only [updW_same]; exact hops
      · simp only [updW_other _ _ _ _ hx] at hc ⊢; exact h.fin x hc
  | syncDone w hpc hlock hall =>
    refine ⟨?_, ?_⟩
    · intro x hc
      by_cases hx : x = w
      · subst hx; simp at hc
      · simp only [updW_other _ _ _ _ hx] at hc ⊢; exact h.wr x hc
    · intro x hc
      by_cases hx : x = w
      · subst hx; simp only [updW_same]; exact h.fin x (Or.inl hpc)
      · simp only [updW_other _ _ _ _ hx] at hc ⊢; exact h.fin x hc

/-! ### the measure -/

/-- local items not yet written to the shared data -/
def unsynced (p : PW) : Nat := (p.st.data.filter (fun it => !p.synced.contains it)).length

theorem unsynced_le (p : PW) : unsynced p ≤ p.st.data.length := List.length_filter_le _ _

theorem filter_len_mono {α} (p q : α → Bool) : ∀ (l : List α), (∀ x, x ∈ l → q x = true → p x = true) →
    (l.filter q).length ≤ (l.filter p).length
  | [], _ => by simp
  | a :: l, h => by
    have ih := filter_len_mono p q l (fun x hx => h x (List.mem_cons_of_mem _ hx))
    have ha := h a List.mem_cons_self
    simp only [List.filter_cons]
    cases hq : q a
    · simp only [Bool.false_eq_true, if_false]
      split
      · simp only [List.length_cons]; omega
      · exact ih
    · simp only [ha hq, if_true, List.length_cons]; omega

theorem filter_len_lt {α} (p q : α → Bool) : ∀ (l : List α), (∀ x, x ∈ l → q x = true → p x = true) →
    (∃ x, x ∈ l ∧ p x = true ∧ q x = false) → (l.filter q).length < (l.filter p).length
  | [], _, hex => by obtain ⟨x, hx, -⟩ := hex; cases hx
  | a :: l, h, hex => by
    have hl := filter_len_mono p q l (fun x hx => h x (List.mem_cons_of_mem _ hx))
    have ha := h a List.mem_cons_self
    obtain ⟨x, hx, hp, hq⟩ := hex
    simp only [List.filter_cons]
    rcases List.mem_cons.mp hx with rfl | hx'
    · simp only [hp, hq, if_true, Bool.false_eq_true, if_false, List.length_cons]; omega
    · have ih := filter_len_lt p q l (fun x hx => h x (List.mem_cons_of_mem _ hx)) ⟨x, hx', hp, hq⟩
      cases hqa : q a
      · simp only [Bool.false_eq_true, if_false]
        split
        · simp only [List.length_cons]; omega
        · exact ih
      · simp only [ha hqa, if_true, List.length_cons]; omega

theorem unsynced_cons_le (p : PW) (it : Nat × Val) :
    unsynced { p with synced := it :: p.synced } ≤ unsynced p := by
  unfold unsynced
  apply filter_len_mono
  intro x _ hq
  simp only [List.contains_cons, Bool.not_eq_true', Bool.or_eq_false_iff] at hq
  have h2 := hq.2
  simp only [List.contains_eq_mem, decide_eq_false_iff_not] at h2
  simpa using h2

theorem unsynced_cons_lt (p : PW) (it : Nat × Val) (hm : it ∈ p.st.data) (hn : it ∉ p.synced) :
    unsynced { p with synced := it :: p.synced } < unsynced p := by
  unfold unsynced
  apply filter_len_lt
  · intro x _ hq
    simp only [List.contains_cons, Bool.not_eq_true', Bool.or_eq_false_iff] at hq
    have h2 := hq.2
    simp only [List.contains_eq_mem, decide_eq_false_iff_not] at h2
    simpa using h2
  · exact ⟨it, hm, by simpa using hn, by simp⟩

/-- the measure of worker `w` -/
def wm (s : PState) (w : Nat) : Nat :=
  match (s.ws w).pc with
  | .done => 0
  | .sync => 1 + unsynced (s.ws w) + (if s.lock = some w then 1 else 0)
  | .run => 3 + (s.ws w).st.data.length + 8 * (s.ws w).ops.length +
      5 * ((s.ws w).st.nblocks + 1 - (s.ws w).grants.length)
  | .locked => 3 + (s.ws w).st.data.length + 8 * (s.ws w).ops.length + 4
  | .read1 => 3 + (s.ws w).st.data.length + 8 * (s.ws w).ops.length + 3
  | .read2 => 3 + (s.ws w).st.data.length + 8 * (s.ws w).ops.length + 2
  | .wrote => 3 + (s.ws w).st.data.length + 8 * (s.ws w).ops.length + 1

theorem wm_eq_zero (s : PState) (w : Nat) : wm s w = 0 ↔ (s.ws w).pc = .done := by
  unfold wm
  cases (s.ws w).pc <;> simp <;> omega

/-- a step does not touch the measure of the other workers -/
theorem wm_other {s : PState} {l : PLbl} {s' : PState} (hs : Step s l s') {x : Nat}
    (hx : x ≠ actor l) : wm s' x = wm s x := by
  cases hs <;> simp only [actor] at hx
  case syncRevRead => rfl
  case syncRevWrite => rfl
  case releaseSync w hlock hpc =>
    unfold wm
    have : s.lock ≠ some x := lock_ne hlock hx
    simp [this]
  case acquireSync w hlock hpc hops =>
    unfold wm
    have h1 : s.lock ≠ some x := by rw [hlock]; simp
    have h2 : w ≠ x := fun e => hx e.symm
    simp [updW_other _ _ _ _ hx, h1, h2]
  case acquireBlk w hlock hpc hops hnr =>
    unfold wm
    have h1 : s.lock ≠ some x := by rw [hlock]; simp
    have h2 : w ≠ x := fun e => hx e.symm
    simp [updW_other _ _ _ _ hx, h1, h2]
  case releaseBlk w hlock hpc =>
    unfold wm
    have : s.lock ≠ some x := lock_ne hlock hx
    simp [updW_other _ _ _ _ hx, this]
  all_goals
    unfold wm
    simp only [updW_other _ _ _ _ hx]

theorem unsynced_congr {p p' : PW} (h1 : p'.st = p.st) (h2 : p'.synced = p.synced) :
    unsynced p' = unsynced p := by unfold unsynced; rw [h1, h2]

/-- a step never increases the measure of its worker, and a productive step decreases it -/
theorem wm_actor {B : Nat} {s : PState} {l : PLbl} {s' : PState} (hB : 0 < B) (h1 : Inv1 B s)
    (h2 : Inv2 B s) (h5 : Inv5 s) (hs : Step s l s') :
    wm s' (actor l) ≤ wm s (actor l) ∧ (productive s l → wm s' (actor l) < wm s (actor l)) := by
  cases hs with
  | local_ w ns v rest st' i hpc hready hops hadd =>
    obtain ⟨st1, r, e, -, -, -, -, hge⟩ := local_spec hB h1 h2 w hops hready
    rw [hadd] at e
    simp only [Except.ok.injEq, Prod.mk.injEq] at e
    obtain ⟨e', e''⟩ := e
    subst e' e''
    have hd := addTo_data_len hadd
    have e1 : wm s w = 3 + (s.ws w).st.data.length + 8 * (rest.length + 1) +
        5 * ((s.ws w).st.nblocks + 1 - (s.ws w).grants.length) := by
      simp only [wm, hpc, hops, List.length_cons]
    have e2 : wm { s with ws := updW s.ws w { s.ws w with ops := rest, st := st', rets := (s.ws w).rets ++ [i] } } w
        = 3 + st'.data.length + 8 * rest.length + 5 * (st'.nblocks + 1 - (s.ws w).grants.length) := by
      simp only [wm, updW_same, hpc]
    simp only [actor, e1, e2]
    constructor
    · omega
    · intro _; omega
  | acquireSync w hlock hpc hops =>
    have hu := unsynced_le (s.ws w)
    have e1 : wm s w = 3 + (s.ws w).st.data.length + 8 * 0 +
        5 * ((s.ws w).st.nblocks + 1 - (s.ws w).grants.length) := by
      simp only [wm, hpc, hops, List.length_nil]
    have e2 : wm { s with lock := some w, ws := updW s.ws w { s.ws w with pc := .sync } } w
        = 1 + unsynced (s.ws w) + 1 := by
      simp only [wm, updW_same, if_true]
      rfl
    simp only [actor, e1, e2]
    constructor
    · omega
    · intro _; omega
  | syncStart w hpc hops =>
    have hu := unsynced_le (s.ws w)
    have e1 : wm s w = 3 + (s.ws w).st.data.length + 8 * 0 +
        5 * ((s.ws w).st.nblocks + 1 - (s.ws w).grants.length) := by
      simp only [wm, hpc, hops, List.length_nil]
    have e2 : wm { s with ws := updW s.ws w { s.ws w with pc := .sync } } w
        ≤ 1 + unsynced (s.ws w) + 1 := by
      simp only [wm, updW_same]
      have : unsynced { s.ws w with pc := .sync } = unsynced (s.ws w) := rfl
      rw [this]
      split <;> omega
    simp only [actor, e1]
    exact ⟨Nat.le_trans e2 (by omega), fun _ => Nat.lt_of_le_of_lt e2 (by omega)⟩
  | acquireBlk w hlock hpc hops hnr =>
    have hneed : (s.ws w).grants.length ≤ (s.ws w).st.nblocks := by
      cases ho : (s.ws w).ops with
      | nil => exact absurd ho hops
      | cons op rest =>
        obtain ⟨ns, v⟩ := op
        simp only [PW.localReady, ho, Bool.or_eq_false_iff, decide_eq_false_iff_not] at hnr
        omega
    have e1 : wm s w = 3 + (s.ws w).st.data.length + 8 * (s.ws w).ops.length +
        5 * ((s.ws w).st.nblocks + 1 - (s.ws w).grants.length) := by
      simp only [wm, hpc]
    have e2 : wm { s with lock := some w, ws := updW s.ws w { s.ws w with pc := .locked } } w
        = 3 + (s.ws w).st.data.length + 8 * (s.ws w).ops.length + 4 := by
      simp only [wm, updW_same]
    simp only [actor, e1, e2]
    constructor
    · omega
    · intro _; omega
  | read1 w hlock hpc =>
    have e1 : wm s w = 3 + (s.ws w).st.data.length + 8 * (s.ws w).ops.length + 4 := by
      simp only [wm, hpc]
    have e2 : wm { s with ws := updW s.ws w { s.ws w with pc := .read1, r1 := s.ptr } } w
        = 3 + (s.ws w).st.data.length + 8 * (s.ws w).ops.length + 3 := by
      simp only [wm, updW_same]
    simp only [actor, e1, e2]
    constructor
    · omega
    · intro _; omega
  | read2 w hlock hpc =>
    have e1 : wm s w = 3 + (s.ws w).st.data.length + 8 * (s.ws w).ops.length + 3 := by
      simp only [wm, hpc]
    have e2 : wm { s with ws := updW s.ws w { s.ws w with pc := .read2, r2 := s.ptr } } w
        = 3 + (s.ws w).st.data.length + 8 * (s.ws w).ops.length + 2 := by
      simp only [wm, updW_same]
    simp only [actor, e1, e2]
    constructor
    · omega
    · intro _; omega
  | writePtr w hlock hpc =>
    have e1 : wm s w = 3 + (s.ws w).st.data.length + 8 * (s.ws w).ops.length + 2 := by
      simp only [wm, hpc]
    have e2 : wm { s with ptr := (s.ws w).r2 + s.B, ws := updW s.ws w { s.ws w with pc := .wrote, grants := (s.ws w).grants ++ [(s.ws w).r1] } } w
        = 3 + (s.ws w).st.data.length + 8 * (s.ws w).ops.length + 1 := by
      simp only [wm, updW_same]
    simp only [actor, e1, e2]
    constructor
    · omega
    · intro _; omega
  | releaseBlk w hlock hpc =>
    have hw := h5.wr w hpc
    have e1 : wm s w = 3 + (s.ws w).st.data.length + 8 * (s.ws w).ops.length + 1 := by
      simp only [wm, hpc]
    have e2 : wm { s with lock := none, ws := updW s.ws w { s.ws w with pc := .run } } w
        = 3 + (s.ws w).st.data.length + 8 * (s.ws w).ops.length +
          5 * ((s.ws w).st.nblocks + 1 - (s.ws w).grants.length) := by
      simp only [wm, updW_same]
    simp only [actor, e1, e2]
    constructor
    · omega
    · intro _; omega
  | releaseSync w hlock hpc =>
    have e1 : wm s w = 1 + unsynced (s.ws w) + 1 := by
      simp only [wm, hpc, hlock, if_true]
    have e2 : wm { s with lock := none } w = 1 + unsynced (s.ws w) + 0 := by
      simp [wm, hpc]
    simp only [actor, e1, e2]
    constructor
    · omega
    · intro _; omega
  | syncData w idx v hpc hmem =>
    have hle := unsynced_cons_le (s.ws w) (idx, v)
    have e1 : wm s w = 1 + unsynced (s.ws w) + (if s.lock = some w then 1 else 0) := by
      simp only [wm, hpc]
    have e2 : wm { s with sdata := (idx, v) :: s.sdata, ws := updW s.ws w { s.ws w with synced := (idx, v) :: (s.ws w).synced } } w
        = 1 + unsynced { s.ws w with synced := (idx, v) :: (s.ws w).synced } +
          (if s.lock = some w then 1 else 0) := by
      simp only [wm, updW_same, hpc]
    simp only [actor, e1, e2]
    constructor
    · omega
    · intro hp
      have hlt := unsynced_cons_lt (s.ws w) (idx, v) hmem hp
      omega
  | syncRevRead w ns v hpc =>
    exact ⟨Nat.le_refl _, fun hp => absurd hp (by simp [productive])⟩
  | syncRevWrite w ns v idx hpc hmem =>
    refine ⟨Nat.le_refl _, fun hp => absurd hp (by simp [productive])⟩
  | syncDone w hpc hlock hall =>
    have e1 : wm s w = 1 + unsynced (s.ws w) + (if s.lock = some w then 1 else 0) := by
      simp only [wm, hpc]
    have e2 : wm { s with ws := updW s.ws w { s.ws w with pc := .done } } w = 0 := by
      simp only [wm, updW_same]
    simp only [actor, e1, e2]
    constructor
    · omega
    · intro _; omega

/-! ### the measure of a finite set of workers -/

def total (W : List Nat) (s : PState) : Nat := (W.map (wm s)).sum

theorem sum_le_of {f g : Nat → Nat} : ∀ (W : List Nat), (∀ x, x ∈ W → f x ≤ g x) →
    (W.map f).sum ≤ (W.map g).sum
  | [], _ => by simp
  | a :: W, h => by
    have := sum_le_of W (fun x hx => h x (List.mem_cons_of_mem _ hx))
    have := h a List.mem_cons_self
    simp only [List.map_cons, List.sum_cons]; omega

theorem sum_lt_of {f g : Nat → Nat} : ∀ (W : List Nat), (∀ x, x ∈ W → f x ≤ g x) →
    (∃ w, w ∈ W ∧ f w < g w) → (W.map f).sum < (W.map g).sum
  | [], _, hex => by obtain ⟨w, hw, -⟩ := hex; cases hw
  | a :: W, h, hex => by
    have hle := sum_le_of W (fun x hx => h x (List.mem_cons_of_mem _ hx))
    have ha := h a List.mem_cons_self
    obtain ⟨w, hw, hlt⟩ := hex
    simp only [List.map_cons, List.sum_cons]
    rcases List.mem_cons.mp hw with rfl | hw'
    · omega
    · have := sum_lt_of W (fun x hx => h x (List.mem_cons_of_mem _ hx)) ⟨w, hw', hlt⟩
      omega

theorem total_step {B : Nat} {s : PState} {l : PLbl} {s' : PState} (hB : 0 < B) (h1 : Inv1 B s)
    (h2 : Inv2 B s) (h5 : Inv5 s) (hs : Step s l s') (W : List Nat) :
    total W s' ≤ total W s ∧ (productive s l → actor l ∈ W → total W s' < total W s) := by
  obtain ⟨hle, hlt⟩ := wm_actor hB h1 h2 h5 hs
  have hall : ∀ x, x ∈ W → wm s' x ≤ wm s x := by
    intro x _
    by_cases hx : x = actor l
    · subst hx; exact hle
    · rw [wm_other hs hx]; exact Nat.le_refl _
  refine ⟨sum_le_of W hall, fun hp ha => sum_lt_of W hall ⟨actor l, ha, hlt hp⟩⟩

theorem total_eq_zero (W : List Nat) (s : PState) :
    total W s = 0 ↔ ∀ w, w ∈ W → (s.ws w).pc = .done := by
  unfold total
  induction W with
  | nil => simp
  | cons a W ih =>
    simp only [List.map_cons, List.sum_cons, Nat.add_eq_zero_iff, ih, wm_eq_zero, List.mem_cons]
    constructor
    · rintro ⟨h1, h2⟩ w (rfl | hw)
      · exact h1
      · exact h2 w hw
    · intro h; exact ⟨h a (Or.inl rfl), fun w hw => h w (Or.inr hw)⟩

instance (s : PState) (l : PLbl) : Decidable (productive s l) := by
  cases l <;> simp only [productive] <;> infer_instance

/-- number of productive steps of workers in `W` along a run -/
def prodSteps (W : List Nat) : PState → List PLbl → Nat
  | _, [] => 0
  | s, l :: ls =>
    match pstep s l with
    | some s' => (if productive s l ∧ actor l ∈ W then 1 else 0) + prodSteps W s' ls
    | none => 0

end Sk.Par
