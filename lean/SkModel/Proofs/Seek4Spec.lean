/-
  SkModel.Proofs.Seek4Spec — helper facts for C04: the declarative specification
  (`Spec.firstInWindow`, `Spec.anyDated`) in terms of line starts, and the control flow of
  `seekerRun` once its lookups are known.
-/
import SkModel.Proofs.SeekGov

namespace Sk.C04
open Sk Sk.SeekL1

/-! ### the specification -/

/-- the window test of `Spec.firstInWindow` -/
def inWin (ts : Nat → Option Int) (since : Int) (s : Nat) : Bool :=
  match ts s with
  | some d => d ≥ since
  | none => false

theorem firstInWindow_eq (F : FileV) (ts : Nat → Option Int) (since : Int) :
    Spec.firstInWindow F ts since = (Spec.lineStarts F).find? (inWin ts since) := rfl

theorem inWin_true {ts : Nat → Option Int} {since : Int} {s : Nat}
    (h : inWin ts since s = true) : ∃ d, ts s = some d ∧ since ≤ d := by
  unfold inWin at h
  cases hd : ts s with
  | none => rw [hd] at h; cases h
  | some d => rw [hd] at h; exact ⟨d, rfl, by simpa using h⟩

theorem inWin_of {ts : Nat → Option Int} {since : Int} {s : Nat} {d : Int}
    (h1 : ts s = some d) (h2 : since ≤ d) : inWin ts since s = true := by
  unfold inWin
  rw [h1]
  simpa using h2

theorem find_range_filter (p q : Nat → Bool) :
    ∀ (n s : Nat), ((List.range n).filter q).find? p = some s →
      s < n ∧ q s = true ∧ p s = true ∧ ∀ s', s' < s → q s' = true → p s' = false := by
  intro n
  induction n with
  | zero => intro s h; simp at h
  | succ n ih =>
    intro s h
    rw [List.range_succ, List.filter_append, List.find?_append, Option.or_eq_some_iff] at h
    rcases h with h | ⟨h1, h2⟩
    · obtain ⟨a, b, c, d⟩ := ih s h
      exact ⟨by omega, b, c, d⟩
    · have hm := List.mem_of_find?_eq_some h2
      have hp := List.find?_some h2
      simp only [List.mem_filter, List.mem_singleton] at hm
      obtain ⟨hm1, hm2⟩ := hm
      subst hm1
      refine ⟨by omega, hm2, hp, ?_⟩
      intro s' hs' hq
      have := (List.find?_eq_none.1 h1) s' (List.mem_filter.2 ⟨List.mem_range.2 hs', hq⟩)
      simpa using this

theorem fiw_some (F : FileV) (ts : Nat → Option Int) (since : Int) (s : Nat)
    (h : Spec.firstInWindow F ts since = some s) :
    IsStart F s ∧ inWin ts since s = true ∧
      ∀ s', IsStart F s' → s' < s → inWin ts since s' = false := by
  rw [firstInWindow_eq] at h
  have hm := (mem_lineStarts F s).1 (List.mem_of_find?_eq_some h)
  unfold Spec.lineStarts at h
  obtain ⟨_, _, c, d⟩ := find_range_filter _ _ F.len s h
  refine ⟨hm, c, ?_⟩
  intro s' hs' hlt
  apply d s' hlt
  rcases hs'.2 with h0 | h1
  · simp [h0]
  · simp [h1]

theorem fiw_none (F : FileV) (ts : Nat → Option Int) (since : Int)
    (h : Spec.firstInWindow F ts since = none) :
    ∀ s, IsStart F s → inWin ts since s = false := by
  rw [firstInWindow_eq] at h
  intro s hs
  have := (List.find?_eq_none.1 h) s ((mem_lineStarts F s).2 hs)
  simpa using this

theorem anyDated_true (F : FileV) (ts : Nat → Option Int) (s : Nat) (hs : IsStart F s)
    (hd : (ts s).isSome = true) : Spec.anyDated F ts = true := by
  unfold Spec.anyDated
  exact List.any_eq_true.2 ⟨s, (mem_lineStarts F s).2 hs, hd⟩

theorem anyDated_false (F : FileV) (ts : Nat → Option Int) (h : Und F ts 0 F.len) :
    Spec.anyDated F ts = false := by
  unfold Spec.anyDated
  apply List.any_eq_false.2
  intro s hs
  have hs' := (mem_lineStarts F s).1 hs
  rw [h s (Nat.zero_le _) hs'.1 hs']
  simp

/-! ### control flow of `seekerRun` -/

def shortcutB (ts : Nat → Option Int) (since : Int) : Bool :=
  match ts 0 with
  | some d => decide (d ≥ since)
  | none => false

theorem seekerRun_unf (K : SeekK) (F : FileV) (ts : Nat → Option Int) (since : Int)
    (r0 : Option LLine) (h0 : tryFindLineWithDate K F ts F.len none false = .ok r0) :
    seekerRun K F ts since 0 =
      if shortcutB ts since = true then .ok 0
      else
        match bisectLoop K F ts since (F.len + 1) 0 F.len {} with
        | .error (.tooManyUndated, st) =>
          if st.foundAny then .error .tooManyUndated else .error .noTimestamps
        | .error (e, _) => .error e
        | .ok (_, st) =>
          match st.lineInfo with
          | some l => pure l.startOffset
          | none => .error .noValidLines := by
  unfold seekerRun
  rw [h0]
  rfl

theorem apply_shortcut (K : SeekK) (F : FileV) (ts : Nat → Option Int) (since : Int)
    (r0 : Option LLine) (h0 : tryFindLineWithDate K F ts F.len none false = .ok r0)
    (hs : shortcutB ts since = true) : applyToFile K F ts since = .ok 0 := by
  unfold applyToFile
  rw [seekerRun_unf K F ts since r0 h0, if_pos hs]
  rfl

theorem apply_bisect_ok (K : SeekK) (F : FileV) (ts : Nat → Option Int) (since : Int)
    (r0 : Option LLine) (h0 : tryFindLineWithDate K F ts F.len none false = .ok r0)
    (hs : ¬ shortcutB ts since = true) (r : Nat) (st : BisSt)
    (hb : bisectLoop K F ts since (F.len + 1) 0 F.len {} = .ok (r, st)) :
    applyToFile K F ts since =
      match st.lineInfo with
      | some l => .ok l.startOffset.toNat
      | none => .ok F.len := by
  unfold applyToFile
  rw [seekerRun_unf K F ts since r0 h0, if_neg hs, hb]
  obtain ⟨fa, li⟩ := st
  cases li <;> rfl

theorem apply_bisect_err (K : SeekK) (F : FileV) (ts : Nat → Option Int) (since : Int)
    (r0 : Option LLine) (h0 : tryFindLineWithDate K F ts F.len none false = .ok r0)
    (hs : ¬ shortcutB ts since = true)
    (hb : bisectLoop K F ts since (F.len + 1) 0 F.len {} = .error (.tooManyUndated, {})) :
    applyToFile K F ts since = .ok 0 := by
  unfold applyToFile
  rw [seekerRun_unf K F ts since r0 h0, if_neg hs, hb]
  rfl

/-! ### H1 from the executable check `Spec.datedMonotone` -/

theorem chain_pairwise : ∀ (l : List Int),
    (l.zip l.tail).all (fun p => decide (p.1 ≤ p.2)) = true → l.Pairwise (· ≤ ·)
  | [] => fun _ => List.Pairwise.nil
  | [_] => fun _ => List.pairwise_cons.2 ⟨(by intro a h; cases h), List.Pairwise.nil⟩
  | a :: b :: t => by
    intro h
    simp only [List.tail_cons, List.zip_cons_cons, List.all_cons, Bool.and_eq_true,
      decide_eq_true_eq] at h
    have ih := chain_pairwise (b :: t) (by simpa using h.2)
    refine List.pairwise_cons.2 ⟨?_, ih⟩
    intro x hx
    rcases List.mem_cons.1 hx with hx | hx
    · rw [hx]; exact h.1
    · have := (List.pairwise_cons.1 ih).1 x hx
      exact Int.le_trans h.1 this

theorem sorted_filterMap (ts : Nat → Option Int) : ∀ (L : List Nat),
    L.Pairwise (· < ·) → (L.filterMap ts).Pairwise (· ≤ ·) →
    ∀ s1 ∈ L, ∀ s2 ∈ L, s1 < s2 → ∀ d1 d2, ts s1 = some d1 → ts s2 = some d2 → d1 ≤ d2
  | [] => by intro _ _ s1 h; cases h
  | x :: t => by
    intro hL hP s1 h1 s2 h2 hlt d1 d2 e1 e2
    obtain ⟨hx, ht⟩ := List.pairwise_cons.1 hL
    have hPt : (t.filterMap ts).Pairwise (· ≤ ·) := by
      rw [List.filterMap_cons] at hP
      cases hd : ts x with
      | none => rw [hd] at hP; exact hP
      | some d => rw [hd] at hP; exact hP.of_cons
    rcases List.mem_cons.1 h1 with a1 | a1
    · rcases List.mem_cons.1 h2 with a2 | a2
      · omega
      · rw [List.filterMap_cons, ← a1, e1] at hP
        exact (List.pairwise_cons.1 hP).1 d2 (List.mem_filterMap.2 ⟨s2, a2, e2⟩)
    · rcases List.mem_cons.1 h2 with a2 | a2
      · have := hx s1 a1; omega
      · exact sorted_filterMap ts t ht hPt s1 a1 s2 a2 hlt d1 d2 e1 e2

/-- the executable check `Spec.datedMonotone` implies hypothesis H1 of C04 -/
theorem mono_of_datedMonotone (F : FileV) (ts : Nat → Option Int)
    (h : Spec.datedMonotone F ts = true) :
    ∀ s1 ∈ Spec.lineStarts F, ∀ s2 ∈ Spec.lineStarts F, s1 ≤ s2 →
      ∀ d1 d2, ts s1 = some d1 → ts s2 = some d2 → d1 ≤ d2 := by
  intro s1 h1 s2 h2 hle d1 d2 e1 e2
  by_cases heq : s1 = s2
  · subst heq
    rw [e1] at e2; cases e2; exact Int.le_refl _
  · have hP := chain_pairwise _ h
    have hL : (Spec.lineStarts F).Pairwise (· < ·) := by
      unfold Spec.lineStarts
      exact List.Pairwise.filter _ List.pairwise_lt_range
    exact sorted_filterMap ts _ hL hP s1 h1 s2 h2 (by omega) d1 d2 e1 e2

end Sk.C04
