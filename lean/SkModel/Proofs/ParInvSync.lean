/-
  SkModel.Proofs.ParInvSync — invariants 3 and 4 of the concurrent store:
  (3) the shared data only ever contains items of local stores, contains everything a worker
      has synced, and a worker that is `done` has synced everything;
  (4) the indices returned by the executed micro-operations resolve, in the local store, to
      the values that were stored.
-/
import SkModel.Proofs.ParInvLocal

namespace Sk.Par
open Sk StoreInv

/-! ### invariant 3: shared data -/

structure Inv3 (s : PState) : Prop where
  sd_src : ∀ e, e ∈ s.sdata → ∃ w, e ∈ (s.ws w).st.data
  synced_sub : ∀ w e, e ∈ (s.ws w).synced → e ∈ s.sdata
  done_all : ∀ w, (s.ws w).pc = .done → ∀ e, e ∈ (s.ws w).st.data → e ∈ (s.ws w).synced

theorem Inv3.init (B : Nat) (progs : Nat → List (Ns × Option Val)) : Inv3 (PState.init B progs) := by
  refine ⟨?_, ?_, ?_⟩
  · intro e he; simp [PState.init] at he
  · intro w e he; simp [PState.init] at he
  · intro w hc; simp [PState.init] at hc

theorem Inv3.congr {s s' : PState} (h : Inv3 s) (hsd : s'.sdata = s.sdata)
    (hst : ∀ x, (s'.ws x).st = (s.ws x).st) (hsy : ∀ x, (s'.ws x).synced = (s.ws x).synced)
    (hpc : ∀ x, (s'.ws x).pc = .done → (s.ws x).pc = .done) : Inv3 s' := by
  refine ⟨?_, ?_, ?_⟩
  · intro e he
    rw [hsd] at he
    obtain ⟨w, hw⟩ := h.sd_src e he
    exact ⟨w, by rw [hst]; exact hw⟩
  · intro w e; rw [hsy, hsd]; exact h.synced_sub w e
  · intro w hd e; rw [hst, hsy]; exact h.done_all w (hpc w hd) e

theorem inv3_step {B : Nat} {s : PState} {l : PLbl} {s' : PState} (hB : 0 < B) (h1 : Inv1 B s)
    (h2 : Inv2 B s) (h : Inv3 s) (hs : Step s l s') : Inv3 s' := by
  cases hs with
  | local_ w ns v rest st' i hpc hready hops hadd =>
    obtain ⟨st1, r, e, ⟨ext, hext⟩, -, -, -, -⟩ := local_spec hB h1 h2 w hops hready
    rw [hadd] at e
    simp only [Except.ok.injEq, Prod.mk.injEq] at e
    obtain ⟨rfl, rfl⟩ := e
    refine ⟨?_, ?_, ?_⟩
    · intro e he
      obtain ⟨x, hx'⟩ := h.sd_src e he
      refine ⟨x, ?_⟩
      by_cases hx : x = w
      · subst hx; simp only [updW_same]; rw [hext]; exact List.mem_append_left _ hx'
      · simp only [updW_other _ _ _ _ hx]; exact hx'
    · intro x e he
      by_cases hx : x = w
      · subst hx; simp only [updW_same] at he; exact h.synced_sub x e he
      · simp only [updW_other _ _ _ _ hx] at he; exact h.synced_sub x e he
    · intro x hd
      by_cases hx : x = w
      · subst hx; simp only [updW_same] at hd; rw [hpc] at hd; cases hd
      · simp only [updW_other _ _ _ _ hx] at hd ⊢; exact h.done_all x hd
  | syncData w idx v hpc hmem =>
    refine ⟨?_, ?_, ?_⟩
    · intro e he
      have hst := updW_proj (·.st) s.ws w { s.ws w with synced := (idx, v) :: (s.ws w).synced } rfl
      simp only [List.mem_cons] at he
      rcases he with rfl | he
      · exact ⟨w, by simp only [hst]; exact hmem⟩
      · obtain ⟨x, hx⟩ := h.sd_src e he
        exact ⟨x, by simp only [hst]; exact hx⟩
    · intro x e he
      by_cases hx : x = w
      · subst hx
        simp only [updW_same, List.mem_cons] at he ⊢
        rcases he with rfl | he
        · exact Or.inl rfl
        · exact Or.inr (h.synced_sub x e he)
      · simp only [updW_other _ _ _ _ hx] at he
        exact List.mem_cons_of_mem _ (h.synced_sub x e he)
    · intro x hd
      by_cases hx : x = w
      · subst hx; simp only [updW_same] at hd; rw [hpc] at hd; cases hd
      · simp only [updW_other _ _ _ _ hx] at hd ⊢; exact h.done_all x hd
  | syncDone w hpc hlock hall =>
    refine ⟨?_, ?_, ?_⟩
    · intro e he
      obtain ⟨x, hx⟩ := h.sd_src e he
      exact ⟨x, by rw [updW_proj (·.st) s.ws w { s.ws w with pc := .done } rfl]; exact hx⟩
    · intro x e
      rw [updW_proj (·.synced) s.ws w { s.ws w with pc := .done } rfl]; exact h.synced_sub x e
    · intro x hd
      by_cases hx : x = w
      · subst hx; simp only [updW_same]; exact hall
      · simp only [updW_other _ _ _ _ hx] at hd ⊢; exact h.done_all x hd
  | syncRevRead w ns v hpc => exact h
  | syncRevWrite w ns v idx hpc hmem =>
    exact h.congr rfl (fun _ => rfl) (fun _ => rfl) (fun _ hd => hd)
  | releaseSync w hlock hpc =>
    exact h.congr rfl (fun _ => rfl) (fun _ => rfl) (fun _ hd => hd)
  | acquireSync w hlock hpc hops =>
    refine h.congr rfl (updW_proj (·.st) _ _ _ rfl) (updW_proj (·.synced) _ _ _ rfl) ?_
    intro x hd
    by_cases hx : x = w
    · subst hx; simp at hd
    · simpa only [updW_other _ _ _ _ hx] using hd
  | acquireBlk w hlock hpc hops hnr =>
    refine h.congr rfl (updW_proj (·.st) _ _ _ rfl) (updW_proj (·.synced) _ _ _ rfl) ?_
    intro x hd
    by_cases hx : x = w
    · subst hx; simp at hd
    · simpa only [updW_other _ _ _ _ hx] using hd
  | read1 w hlock hpc =>
    refine h.congr rfl (updW_proj (·.st) _ _ _ rfl) (updW_proj (·.synced) _ _ _ rfl) ?_
    intro x hd
    by_cases hx : x = w
    · subst hx; simp at hd
    · simpa only [updW_other _ _ _ _ hx] using hd
  | read2 w hlock hpc =>
    refine h.congr rfl (updW_proj (·.st) _ _ _ rfl) (updW_proj (·.synced) _ _ _ rfl) ?_
    intro x hd
    by_cases hx : x = w
    · subst hx; simp at hd
    · simpa only [updW_other _ _ _ _ hx] using hd
  | writePtr w hlock hpc =>
    refine h.congr rfl (updW_proj (·.st) _ _ _ rfl) (updW_proj (·.synced) _ _ _ rfl) ?_
    intro x hd
    by_cases hx : x = w
    · subst hx; simp at hd
    · simpa only [updW_other _ _ _ _ hx] using hd
  | releaseBlk w hlock hpc =>
    refine h.congr rfl (updW_proj (·.st) _ _ _ rfl) (updW_proj (·.synced) _ _ _ rfl) ?_
    intro x hd
    by_cases hx : x = w
    · subst hx; simp at hd
    · simpa only [updW_other _ _ _ _ hx] using hd
  | syncStart w hpc hops =>
    refine h.congr rfl (updW_proj (·.st) _ _ _ rfl) (updW_proj (·.synced) _ _ _ rfl) ?_
    intro x hd
    by_cases hx : x = w
    · subst hx; simp at hd
    · simpa only [updW_other _ _ _ _ hx] using hd

/-! ### invariant 4: executed micro-operations and their return values -/

structure Inv4 (progs : Nat → List (Ns × Option Val)) (s : PState) : Prop where
  ops_eq : ∀ w, (s.ws w).ops = (progs w).drop (s.ws w).rets.length
  len : ∀ w, (s.ws w).rets.length ≤ (progs w).length
  ret : ∀ (w k : Nat) (op : Ns × Option Val), k < (s.ws w).rets.length → (progs w)[k]? = some op →
    ∃ r, (s.ws w).rets[k]? = some r ∧ (s.ws w).st.Ret op.2 r

theorem Inv4.init (B : Nat) (progs : Nat → List (Ns × Option Val)) :
    Inv4 progs (PState.init B progs) := by
  refine ⟨?_, ?_, ?_⟩
  · intro w; simp [PState.init]
  · intro w; simp [PState.init]
  · intro w k op hk; simp [PState.init] at hk

theorem Inv4.congr {progs : Nat → List (Ns × Option Val)} {s s' : PState} (h : Inv4 progs s)
    (hops : ∀ x, (s'.ws x).ops = (s.ws x).ops) (hrets : ∀ x, (s'.ws x).rets = (s.ws x).rets)
    (hst : ∀ x, (s'.ws x).st = (s.ws x).st) : Inv4 progs s' := by
  refine ⟨?_, ?_, ?_⟩
  · intro w; rw [hops, hrets]; exact h.ops_eq w
  · intro w; rw [hrets]; exact h.len w
  · intro w k op; rw [hrets, hst]; exact h.ret w k op

theorem inv4_step {B : Nat} {progs : Nat → List (Ns × Option Val)} {s : PState} {l : PLbl}
    {s' : PState} (hB : 0 < B) (h1 : Inv1 B s)
    (h2 : Inv2 B s) (h : Inv4 progs s) (hs : Step s l s') : Inv4 progs s' := by
  cases hs with
  | local_ w ns v rest st' i hpc hready hops hadd =>
    obtain ⟨st1, r, e, hext, hret, -, -, -⟩ := local_spec hB h1 h2 w hops hready
    rw [hadd] at e
    simp only [Except.ok.injEq, Prod.mk.injEq] at e
    obtain ⟨rfl, rfl⟩ := e
    have hd := h.ops_eq w
    rw [hops] at hd
    have hn : (progs w)[(s.ws w).rets.length]? = some (ns, v) := by
      have := congrArg (fun l => l[0]?) hd
      simp only [List.getElem?_cons_zero, List.getElem?_drop, Nat.add_zero] at this
      exact this.symm
    have hlt : (s.ws w).rets.length < (progs w).length := by
      rcases Nat.lt_or_ge (s.ws w).rets.length (progs w).length with h' | h'
      · exact h'
      · rw [List.getElem?_eq_none h'] at hn; cases hn
    refine ⟨?_, ?_, ?_⟩
    · intro x
      by_cases hx : x = w
      · subst hx
        simp only [updW_same, List.length_append, List.length_singleton]
        rw [← List.tail_drop, ← hd]; rfl
      · simp only [updW_other _ _ _ _ hx]; exact h.ops_eq x
    · intro x
      by_cases hx : x = w
      · subst hx
        simp only [updW_same, List.length_append, List.length_singleton]; omega
      · simp only [updW_other _ _ _ _ hx]; exact h.len x
    · intro x k op hk hop
      by_cases hx : x = w
      · subst hx
        simp only [updW_same, List.length_append, List.length_singleton] at hk ⊢
        by_cases hk' : k < (s.ws x).rets.length
        · obtain ⟨r', hr1, hr2⟩ := h.ret x k op hk' hop
          refine ⟨r', ?_, hr2.mono hext⟩
          rw [List.getElem?_append_left hk']; exact hr1
        · have hke : k = (s.ws x).rets.length := by omega
          subst hke
          rw [hn] at hop; cases hop
          exact ⟨i, by simp, hret⟩
      · simp only [updW_other _ _ _ _ hx] at hk ⊢; exact h.ret x k op hk hop
  | syncData w idx v hpc hmem =>
    exact h.congr (updW_proj (·.ops) _ _ _ rfl) (updW_proj (·.rets) _ _ _ rfl)
      (updW_proj (·.st) _ _ _ rfl)
  | syncDone w hpc hlock hall =>
    exact h.congr (updW_proj (·.ops) _ _ _ rfl) (updW_proj (·.rets) _ _ _ rfl)
      (updW_proj (·.st) _ _ _ rfl)
  | syncRevRead w ns v hpc => exact h
  | syncRevWrite w ns v idx hpc hmem =>
    exact h.congr (fun _ => rfl) (fun _ => rfl) (fun _ => rfl)
  | releaseSync w hlock hpc =>
    exact h.congr (fun _ => rfl) (fun _ => rfl) (fun _ => rfl)
  | acquireSync w hlock hpc hops =>
    exact h.congr (updW_proj (·.ops) _ _ _ rfl) (updW_proj (·.rets) _ _ _ rfl)
      (updW_proj (·.st) _ _ _ rfl)
  | acquireBlk w hlock hpc hops hnr =>
    exact h.congr (updW_proj (·.ops) _ _ _ rfl) (updW_proj (·.rets) _ _ _ rfl)
      (updW_proj (·.st) _ _ _ rfl)
  | read1 w hlock hpc =>
    exact h.congr (updW_proj (·.ops) _ _ _ rfl) (updW_proj (·.rets) _ _ _ rfl)
      (updW_proj (·.st) _ _ _ rfl)
  | read2 w hlock hpc =>
    exact h.congr (updW_proj (·.ops) _ _ _ rfl) (updW_proj (·.rets) _ _ _ rfl)
      (updW_proj (·.st) _ _ _ rfl)
  | writePtr w hlock hpc =>
    exact h.congr (updW_proj (·.ops) _ _ _ rfl) (updW_proj (·.rets) _ _ _ rfl)
      (updW_proj (·.st) _ _ _ rfl)
  | releaseBlk w hlock hpc =>
    exact h.congr (updW_proj (·.ops) _ _ _ rfl) (updW_proj (·.rets) _ _ _ rfl)
      (updW_proj (·.st) _ _ _ rfl)
  | syncStart w hpc hops =>
    exact h.congr (updW_proj (·.ops) _ _ _ rfl) (updW_proj (·.rets) _ _ _ rfl)
      (updW_proj (·.st) _ _ _ rfl)

end Sk.Par
