/-
  SkModel.Proofs.EncodeLemmas — helper lemmas for C05 (round trip of the index encoding
  of results, `SkModel.Encode`, through the de-duplicating store).

  The key notions:
  * `Ext st st'`   — `st'` holds everything `st` holds (its data is an extension);
  * `Sound st v s` — the (optional) store index `s` stands for the (optional) value `v`
                     in `st`: both absent, or `s = some i` with `st.get i = some x`;
  * `PartRel`, `ResRel` — an exported part / result stands for a captured part / result;
  * `All₂` — element-wise relation between two lists.
-/
import SkModel.Encode
import SkModel.Theorems.C15

namespace Sk.Enc
open Sk

/-! ### element-wise related lists -/

inductive All₂ {α β : Type} (R : α → β → Prop) : List α → List β → Prop
  | nil : All₂ R [] []
  | cons {a b as bs} : R a b → All₂ R as bs → All₂ R (a :: as) (b :: bs)

theorem All₂.length_eq {α β : Type} {R : α → β → Prop} {as : List α} {bs : List β}
    (h : All₂ R as bs) : as.length = bs.length := by
  induction h with
  | nil => rfl
  | cons _ _ ih => simp [ih]

theorem All₂.imp {α β : Type} {R S : α → β → Prop} (hRS : ∀ a b, R a b → S a b)
    {as : List α} {bs : List β} (h : All₂ R as bs) : All₂ S as bs := by
  induction h with
  | nil => exact .nil
  | cons h _ ih => exact .cons (hRS _ _ h) ih

theorem All₂.get {α β : Type} {R : α → β → Prop} {as : List α} {bs : List β}
    (h : All₂ R as bs) : ∀ k (hk : k < as.length) (hk' : k < bs.length), R as[k] bs[k] := by
  induction h with
  | nil => intro k hk; simp at hk
  | cons h _ ih =>
    intro k hk hk'
    cases k with
    | zero => simpa using h
    | succ k => simpa using ih k (by simpa using hk) (by simpa using hk')

/-- `find?` over two element-wise related lists: when the predicates agree on related
    elements, either both searches fail or they return related elements. -/
theorem All₂.find? {α β : Type} {R : α → β → Prop} {p : α → Bool} {q : β → Bool}
    (hpq : ∀ a b, R a b → p a = q b) {as : List α} {bs : List β} (h : All₂ R as bs) :
    (as.find? p = none ∧ bs.find? q = none) ∨
    ∃ a b, as.find? p = some a ∧ bs.find? q = some b ∧ R a b := by
  induction h with
  | nil => left; simp
  | @cons a b as bs hab _ ih =>
    have e := hpq a b hab
    cases hq : q b with
    | true =>
      right; refine ⟨a, b, ?_, ?_, hab⟩
      · simp [List.find?, e, hq]
      · simp [List.find?, hq]
    | false =>
      have hp : p a = false := by rw [e, hq]
      simpa [List.find?, hp, hq] using ih

theorem All₂.map_eq {α β γ : Type} {R : α → β → Prop} {f : α → γ} {g : β → γ}
    (hfg : ∀ a b, R a b → f a = g b) {as : List α} {bs : List β} (h : All₂ R as bs) :
    as.map f = bs.map g := by
  induction h with
  | nil => rfl
  | cons h _ ih => simp [hfg _ _ h, ih]

/-! ### store extension -/

def Ext (st st' : Store) : Prop := ∃ ext, st'.data = st.data ++ ext

theorem Ext.refl (st : Store) : Ext st st := ⟨[], by simp⟩

theorem Ext.trans {a b c : Store} (h1 : Ext a b) (h2 : Ext b c) : Ext a c := by
  obtain ⟨e1, h1⟩ := h1
  obtain ⟨e2, h2⟩ := h2
  exact ⟨e1 ++ e2, by rw [h2, h1, List.append_assoc]⟩

theorem Ext.get {st st' : Store} (h : Ext st st') {i : Nat} {x : Val}
    (hg : st.get i = some x) : st'.get i = some x :=
  Store.get_of_append h hg

/-! ### an index standing for a value -/

def Sound (st : Store) (v : Option Val) (s : Option Nat) : Prop :=
  (v = none → s = none) ∧ ∀ x, v = some x → ∃ i, s = some i ∧ st.get i = some x

theorem Sound.mono {st st' : Store} (h : Ext st st') {v s} (hs : Sound st v s) :
    Sound st' v s :=
  ⟨hs.1, fun x hx => by
    obtain ⟨i, h1, h2⟩ := hs.2 x hx
    exact ⟨i, h1, h.get h2⟩⟩

theorem Sound.bind_get {st : Store} {v s} (hs : Sound st v s) : s.bind st.get = v := by
  cases v with
  | none => simp [hs.1 rfl]
  | some x =>
    obtain ⟨i, h1, h2⟩ := hs.2 x rfl
    simp [h1, h2]

theorem Sound.isSome {st : Store} {v s} (hs : Sound st v s) : s.isSome = v.isSome := by
  cases v with
  | none => simp [hs.1 rfl]
  | some x =>
    obtain ⟨i, h1, -⟩ := hs.2 x rfl
    simp [h1]

/-! ### exported parts / results standing for captured ones -/

def PartRel (st : Store) (p : Part) (e : EPart) : Prop :=
  e.idx = p.idx ∧ e.name = p.name ∧ Sound st p.val e.sid

theorem PartRel.mono {st st' : Store} (h : Ext st st') {p e} (hr : PartRel st p e) :
    PartRel st' p e :=
  ⟨hr.1, hr.2.1, hr.2.2.mono h⟩

def ResRel (st : Store) (seqVal : Nat → Val) (r : Res) (e : ERes) : Prop :=
  e.ln = r.ln ∧ e.sec = r.sec ∧ e.fields = r.fields ∧
  All₂ (PartRel st) r.parts e.parts ∧
  Sound st r.tag e.tagIdx ∧ Sound st (r.seqId.map seqVal) e.seqIdx

theorem ResRel.mono {st st' : Store} (h : Ext st st') {seqVal r e}
    (hr : ResRel st seqVal r e) : ResRel st' seqVal r e :=
  ⟨hr.1, hr.2.1, hr.2.2.1, hr.2.2.2.1.imp (fun _ _ => PartRel.mono h),
    hr.2.2.2.2.1.mono h, hr.2.2.2.2.2.mono h⟩

/-! ### reading back -/

theorem parts_getIdx {st : Store} {ps : List Part} {es : List EPart}
    (h : All₂ (PartRel st) ps es) (i : Nat) :
    ((es.find? (fun p => p.idx == i && p.sid.isSome)).bind (·.sid)).bind st.get =
      (ps.find? (fun p => p.idx == i && p.val.isSome)).bind (·.val) := by
  have hpq : ∀ (a : Part) (b : EPart), PartRel st a b →
      (a.idx == i && a.val.isSome) = (b.idx == i && b.sid.isSome) := by
    intro a b hab
    rw [hab.1, hab.2.2.isSome]
  rcases h.find? hpq with ⟨h1, h2⟩ | ⟨a, b, h1, h2, hab⟩
  · simp [h1, h2]
  · simp only [h1, h2, Option.bind_some]
    exact hab.2.2.bind_get

theorem parts_getName {st : Store} {ps : List Part} {es : List EPart}
    (h : All₂ (PartRel st) ps es) (nm : String) :
    ((es.find? (fun p => p.name == some nm && p.sid.isSome)).bind (·.sid)).bind st.get =
      (ps.find? (fun p => p.name == some nm && p.val.isSome)).bind (·.val) := by
  have hpq : ∀ (a : Part) (b : EPart), PartRel st a b →
      (a.name == some nm && a.val.isSome) = (b.name == some nm && b.sid.isSome) := by
    intro a b hab
    rw [hab.2.1, hab.2.2.isSome]
  rcases h.find? hpq with ⟨h1, h2⟩ | ⟨a, b, h1, h2, hab⟩
  · simp [h1, h2]
  · simp only [h1, h2, Option.bind_some]
    exact hab.2.2.bind_get

theorem parts_iter {st : Store} {ps : List Part} {es : List EPart}
    (h : All₂ (PartRel st) ps es) :
    es.map (fun p => p.sid.bind st.get) = ps.map (·.val) :=
  (h.map_eq (f := (·.val)) (g := fun p => p.sid.bind st.get)
    (fun _ _ hab => hab.2.2.bind_get.symm)).symm

/-- everything C05 says about one result, from `ResRel` -/
theorem ResRel.readback {st : Store} {seqVal r e} (hr : ResRel st seqVal r e) :
    e.ln = r.ln ∧ e.sec = r.sec ∧ e.fields = r.fields ∧
    (∀ i, e.getIdx st i = r.getIdx i) ∧
    (∀ nm, e.getName st nm = r.getName nm) ∧
    e.iter st = r.iter ∧
    e.tag st = r.tag ∧
    e.seqId st = r.seqId.map seqVal := by
  obtain ⟨h1, h2, h3, hp, ht, hs⟩ := hr
  refine ⟨h1, h2, h3, fun i => parts_getIdx hp i, fun nm => parts_getName hp nm,
    parts_iter hp, ht.bind_get, hs.bind_get⟩

/-! ### the encoders -/

section
variable {B : Nat} {pre : Bool} {sup : Nat → Nat}

theorem encodeParts_spec (hB : 0 < B)
    (hsup : ∀ i j, i ≠ j → sup i + B ≤ sup j ∨ sup j + B ≤ sup i)
    (tag seq : Option Val) :
    ∀ (ps : List Part) {st st' : Store} {es : List EPart}, Store.Reach B pre sup st →
      encodeParts st sup tag seq ps = .ok (st', es) →
      Store.Reach B pre sup st' ∧ Ext st st' ∧ All₂ (PartRel st') ps es
  | [], st, st', es, hr, h => by
    simp only [encodeParts] at h
    cases h
    exact ⟨hr, Ext.refl _, .nil⟩
  | p :: ps, st, st', es, hr, h => by
    simp only [encodeParts, bind, Except.bind, pure, Except.pure] at h
    split at h
    · cases h
    · rename_i x hadd
      obtain ⟨st1, ti, si, vi⟩ := x
      simp only at h
      split at h
      · cases h
      · rename_i y hrest
        obtain ⟨st2, es2⟩ := y
        simp only at h
        cases h
        have hr1 := hr.add hadd
        obtain ⟨hr2, hx2, hrel⟩ := encodeParts_spec hB hsup tag seq ps hr1 hrest
        have hx1 := (C15_append_only hB hsup hr hadd).1
        have hv := (C15_add_returns hB hsup hr hadd).1
        refine ⟨hr2, Ext.trans hx1 hx2, .cons ⟨rfl, rfl, ?_⟩ hrel⟩
        exact Sound.mono hx2 hv

theorem encodeParts_total (hB : 0 < B)
    (hsup : ∀ i j, i ≠ j → sup i + B ≤ sup j ∨ sup j + B ≤ sup i)
    (tag seq : Option Val) :
    ∀ (ps : List Part) {st : Store}, Store.Reach B pre sup st →
      ∃ st' es, encodeParts st sup tag seq ps = .ok (st', es)
  | [], st, _ => ⟨st, [], rfl⟩
  | p :: ps, st, hr => by
    obtain ⟨st1, ⟨ti, si, vi⟩, hadd⟩ := C15_no_alloc_error_step hB hsup hr tag seq p.val
    obtain ⟨st2, es, hrest⟩ := encodeParts_total hB hsup tag seq ps (hr.add hadd)
    simp only [encodeParts, hadd, hrest, bind, Except.bind, pure, Except.pure]
    exact ⟨_, _, rfl⟩

theorem encodeRes_spec (hB : 0 < B)
    (hsup : ∀ i j, i ≠ j → sup i + B ≤ sup j ∨ sup j + B ≤ sup i)
    (seqVal : Nat → Val) {r : Res} {st st' : Store} {e : ERes}
    (hr : Store.Reach B pre sup st)
    (h : encodeRes st sup r (r.seqId.map seqVal) = .ok (st', e)) :
    Store.Reach B pre sup st' ∧ Ext st st' ∧ ResRel st' seqVal r e := by
  simp only [encodeRes, bind, Except.bind, pure, Except.pure] at h
  split at h
  · cases h
  · rename_i x hparts
    obtain ⟨st1, es⟩ := x
    simp only at h
    split at h
    · cases h
    · rename_i y hadd
      obtain ⟨st2, ti, si, vi⟩ := y
      simp only at h
      cases h
      obtain ⟨hr1, hx1, hrel⟩ := encodeParts_spec hB hsup _ _ r.parts hr hparts
      have hx2 := (C15_append_only hB hsup hr1 hadd).1
      obtain ⟨-, ht, hs⟩ := C15_add_returns hB hsup hr1 hadd
      exact ⟨hr1.add hadd, Ext.trans hx1 hx2, rfl, rfl, rfl,
        hrel.imp (fun _ _ => PartRel.mono hx2), ht, hs⟩

theorem encodeRes_total (hB : 0 < B)
    (hsup : ∀ i j, i ≠ j → sup i + B ≤ sup j ∨ sup j + B ≤ sup i)
    (r : Res) (sv : Option Val) {st : Store} (hr : Store.Reach B pre sup st) :
    ∃ st' e, encodeRes st sup r sv = .ok (st', e) := by
  obtain ⟨st1, es, hparts⟩ := encodeParts_total hB hsup r.tag sv r.parts hr
  obtain ⟨hr1, -, -⟩ := encodeParts_spec hB hsup _ _ r.parts hr hparts
  obtain ⟨st2, ⟨ti, si, vi⟩, hadd⟩ := C15_no_alloc_error_step hB hsup hr1 r.tag sv none
  simp only [encodeRes, hparts, hadd, bind, Except.bind, pure, Except.pure]
  exact ⟨_, _, rfl⟩

theorem encodeAll_spec (hB : 0 < B)
    (hsup : ∀ i j, i ≠ j → sup i + B ≤ sup j ∨ sup j + B ≤ sup i)
    (seqVal : Nat → Val) :
    ∀ (rs : List Res) {st st' : Store} {es : List ERes}, Store.Reach B pre sup st →
      encodeAll st sup seqVal rs = .ok (st', es) →
      Store.Reach B pre sup st' ∧ Ext st st' ∧ All₂ (ResRel st' seqVal) rs es
  | [], st, st', es, hr, h => by
    simp only [encodeAll] at h
    cases h
    exact ⟨hr, Ext.refl _, .nil⟩
  | r :: rs, st, st', es, hr, h => by
    simp only [encodeAll, bind, Except.bind, pure, Except.pure] at h
    split at h
    · cases h
    · rename_i x hres
      obtain ⟨st1, e⟩ := x
      simp only at h
      split at h
      · cases h
      · rename_i y hrest
        obtain ⟨st2, es2⟩ := y
        simp only at h
        cases h
        obtain ⟨hr1, hx1, hrel1⟩ := encodeRes_spec hB hsup seqVal hr hres
        obtain ⟨hr2, hx2, hrel⟩ := encodeAll_spec hB hsup seqVal rs hr1 hrest
        exact ⟨hr2, Ext.trans hx1 hx2, .cons (hrel1.mono hx2) hrel⟩

theorem encodeAll_total (hB : 0 < B)
    (hsup : ∀ i j, i ≠ j → sup i + B ≤ sup j ∨ sup j + B ≤ sup i)
    (seqVal : Nat → Val) :
    ∀ (rs : List Res) {st : Store}, Store.Reach B pre sup st →
      ∃ st' es, encodeAll st sup seqVal rs = .ok (st', es)
  | [], st, _ => ⟨st, [], rfl⟩
  | r :: rs, st, hr => by
    obtain ⟨st1, e, hres⟩ := encodeRes_total hB hsup r (r.seqId.map seqVal) hr
    obtain ⟨hr1, -, -⟩ := encodeRes_spec hB hsup seqVal hr hres
    obtain ⟨st2, es, hrest⟩ := encodeAll_total hB hsup seqVal rs hr1
    simp only [encodeAll, hres, hrest, bind, Except.bind, pure, Except.pure]
    exact ⟨_, _, rfl⟩

end

end Sk.Enc
