import SkModel.Proofs.Solo

namespace Sk

universe u v

theorem bind_ok {ε : Type u} {α β : Type v} (x : Except ε α) (f : α → Except ε β) (b : β) :
    (x >>= f) = Except.ok b ↔ ∃ a, x = Except.ok a ∧ f a = Except.ok b := by
  cases x <;> simp [bind, Except.bind]

theorem pure_ok {ε : Type u} {α : Type v} (a b : α) :
    (pure a : Except ε α) = Except.ok b ↔ a = b := by
  simp [pure, Except.pure]

theorem map_ok {ε : Type u} {α β : Type v} (x : Except ε α) (f : α → β) (b : β) :
    (f <$> x) = Except.ok b ↔ ∃ a, x = Except.ok a ∧ f a = b := by
  cases x <;> simp [Functor.map, Except.map]

/-- per-definition state invariant -/
def DInv (id : Nat) (st : DSt) : Prop :=
  (∀ r ∈ st.seqRes, r.src = id) ∧ (st.everAdded = false → st.seqRes = [] ∧ st.started = false)

theorem mkSeqRes_src {id s sfx sd ln sec m r} (h : mkSeqRes id s sfx sd ln sec m = .ok r) :
    r.src = id := by
  simp only [mkSeqRes, bind_ok, pure_ok] at h
  obtain ⟨ps, _, rfl⟩ := h; rfl

theorem seqStep_inv {id s i st st'} (h : seqStep id s i st = .ok st') (hi : DInv id st) :
    DInv id st' ∧ (st.everAdded = true → st'.everAdded = true) := by
  obtain ⟨h1, h2⟩ := hi
  unfold seqStep at h
  cases hE : s.end_ <;> cases hS : st.started <;> cases hR : s.start.run i <;>
    simp [hE, hS, hR, pure_ok] at h
  all_goals (repeat' split at h)
  all_goals try simp only [map_ok, pure_ok] at h
  all_goals first
    | (subst h; exact ⟨⟨h1, h2⟩, fun h => h⟩)
    | skip
  all_goals
    obtain ⟨r, hr, rfl⟩ := h
    have hsrc := mkSeqRes_src hr
    refine ⟨⟨?_, ?_⟩, ?_⟩
    · intro r' hr'
      simp only [List.mem_append, List.mem_filter, List.mem_singleton] at hr'
      rcases hr' with h | rfl
      · first | exact h1 _ h | exact h1 _ h.1
      · exact hsrc
    · intro h; simp at h
    · intro _; rfl

/-! ### `defStep` = constraint gate, then the search proper -/

def gate (i : Nat) (d : Def) (st : DSt) : Option DSt :=
  if st.runnable then some st
  else
    let (valid, allp) := applySingle (d.cons.map (fun c => c i))
    if valid then some { st with runnable := allp } else none

def defBody (i : Nat) (d : Def) (st : DSt) : Except Err (DSt × List Res) :=
  match d.kind with
  | .simple sd =>
    match sd.run i with
    | some m => do
      let r ← mkSimpleRes d.id sd (i + 1) m
      pure (st, [r])
    | none => pure (st, [])
  | .seq s => do
    let st' ← seqStep d.id s i st
    pure (st', [])

theorem defStep_eq (i : Nat) (d : Def) (st : DSt) :
    defStep i d st = match gate i d st with
      | none => pure (st, [])
      | some g => defBody i d g := rfl

theorem gate_some {i d st g} (h : gate i d st = some g) : ∃ b, g = { st with runnable := b } := by
  unfold gate at h
  split at h
  · rename_i hr
    cases h
    exact ⟨true, by cases st; simp_all⟩
  · simp only at h
    split at h
    · cases h; exact ⟨_, rfl⟩
    · cases h

theorem gate_runnable {i d st} (h : st.runnable = true) : gate i d st = some st := by
  simp [gate, h]

theorem DInv_runnable {id st b} (h : DInv id st) : DInv id { st with runnable := b } := h

theorem mkSimpleRes_src {id sd ln m r} (h : mkSimpleRes id sd ln m = .ok r) : r.src = id := by
  simp only [mkSimpleRes, bind_ok, pure_ok] at h
  obtain ⟨ps, _, rfl⟩ := h; rfl

theorem defBody_inv {i d st st' o} (h : defBody i d st = .ok (st', o)) (hi : DInv d.id st) :
    DInv d.id st' ∧ (st.everAdded = true → st'.everAdded = true) ∧ ∀ r ∈ o, r.src = d.id := by
  unfold defBody at h
  split at h
  · split at h
    · simp only [bind_ok, pure_ok, Prod.mk.injEq] at h
      obtain ⟨r, hr, rfl, rfl⟩ := h
      refine ⟨hi, fun h => h, ?_⟩
      intro r' hr'
      simp only [List.mem_singleton] at hr'
      subst hr'
      exact mkSimpleRes_src hr
    · simp only [pure_ok, Prod.mk.injEq] at h
      obtain ⟨rfl, rfl⟩ := h
      exact ⟨hi, fun h => h, by simp⟩
  · simp only [bind_ok, pure_ok, Prod.mk.injEq] at h
    obtain ⟨s', hs, rfl, rfl⟩ := h
    have := seqStep_inv hs hi
    exact ⟨this.1, this.2, by simp⟩

theorem defStep_inv {i d st st' o} (h : defStep i d st = .ok (st', o)) (hi : DInv d.id st) :
    DInv d.id st' ∧ (st.everAdded = true → st'.everAdded = true) ∧ ∀ r ∈ o, r.src = d.id := by
  rw [defStep_eq] at h
  split at h
  · simp only [pure_ok, Prod.mk.injEq] at h
    obtain ⟨rfl, rfl⟩ := h
    exact ⟨hi, fun h => h, by simp⟩
  · rename_i g hg
    obtain ⟨b, rfl⟩ := gate_some hg
    have := defBody_inv h (DInv_runnable (b := b) hi)
    exact this

/-! ### the definition list: per-id state lookup, global invariant -/

/-- state of the first definition with the given id -/
def stOf (id : Nat) : List Def → List DSt → Option DSt
  | d :: ds, st :: sts => if d.id = id then some st else stOf id ds sts
  | _, _ => none

def AllInv : List Def → List DSt → Prop
  | d :: ds, st :: sts => DInv d.id st ∧ AllInv ds sts
  | _, _ => True

theorem AllInv_stOf {id : Nat} : ∀ {defs sts st}, AllInv defs sts → stOf id defs sts = some st → DInv id st
  | [], _, _, _, h => by simp [stOf] at h
  | _ :: _, [], _, _, h => by simp [stOf] at h
  | d :: ds, s :: ss, st, ha, h => by
    simp only [stOf] at h
    split at h
    · rename_i he
      cases h; subst he; exact ha.1
    · exact AllInv_stOf ha.2 h

theorem defsStep_allInv {i : Nat} : ∀ {defs sts sts' outs ord},
    defsStep i defs sts = .ok (sts', outs, ord) → AllInv defs sts → AllInv defs sts'
  | [], _, _, _, _, h, _ => by
    simp only [defsStep, pure_ok, Prod.mk.injEq] at h
    obtain ⟨rfl, _⟩ := h; trivial
  | _ :: _, [], _, _, _, h, _ => by
    simp only [defsStep, pure_ok, Prod.mk.injEq] at h
    obtain ⟨rfl, _⟩ := h; trivial
  | d :: ds, s :: ss, sts', outs, ord, h, ha => by
    simp only [defsStep, bind_ok, pure_ok, Prod.mk.injEq] at h
    obtain ⟨⟨s', o⟩, h1, ⟨ss', os, od⟩, h2, rfl, rfl, rfl⟩ := h
    exact ⟨(defStep_inv h1 ha.1).1, defsStep_allInv h2 ha.2⟩

theorem defStep_src {i d st st' o} (h : defStep i d st = .ok (st', o)) : ∀ r ∈ o, r.src = d.id := by
  rw [defStep_eq] at h
  split at h
  · simp only [pure_ok, Prod.mk.injEq] at h
    obtain ⟨_, rfl⟩ := h; simp
  · unfold defBody at h
    split at h
    · split at h
      · simp only [bind_ok, pure_ok, Prod.mk.injEq] at h
        obtain ⟨r, hr, _, rfl⟩ := h
        intro r' hr'
        simp only [List.mem_singleton] at hr'
        subst hr'
        exact mkSimpleRes_src hr
      · simp only [pure_ok, Prod.mk.injEq] at h
        obtain ⟨_, rfl⟩ := h; simp
    · simp only [bind_ok, pure_ok, Prod.mk.injEq] at h
      obtain ⟨s', hs, _, rfl⟩ := h; simp

theorem filter_src_none {id k : Nat} {o : List Res} (h : ∀ r ∈ o, r.src = k) (hk : k ≠ id) :
    o.filter (fun r => r.src == id) = [] := by
  rw [List.filter_eq_nil_iff]
  intro r hr
  simp [h r hr, hk]

theorem filter_src_all {id : Nat} {o : List Res} (h : ∀ r ∈ o, r.src = id) :
    o.filter (fun r => r.src == id) = o := by
  rw [List.filter_eq_self]
  intro r hr
  simp [h r hr]

theorem defsStep_other {i id : Nat} : ∀ {defs sts sts' outs ord},
    (∀ x ∈ defs, x.id ≠ id) → defsStep i defs sts = .ok (sts', outs, ord) →
    outs.filter (fun r => r.src == id) = [] ∧ ord.filter (fun k => k == id) = []
  | [], _, _, _, _, _, h => by
    simp only [defsStep, pure_ok, Prod.mk.injEq] at h
    obtain ⟨_, rfl, rfl⟩ := h; simp
  | _ :: _, [], _, _, _, _, h => by
    simp only [defsStep, pure_ok, Prod.mk.injEq] at h
    obtain ⟨_, rfl, rfl⟩ := h; simp
  | d :: ds, s :: ss, sts', outs, ord, hne, h => by
    simp only [defsStep, bind_ok, pure_ok, Prod.mk.injEq] at h
    obtain ⟨⟨s', o⟩, h1, ⟨ss', os, od⟩, h2, rfl, rfl, rfl⟩ := h
    have hd : d.id ≠ id := hne d (by simp)
    have ih := defsStep_other (fun x hx => hne x (by simp [hx])) h2
    refine ⟨?_, ?_⟩
    · rw [List.filter_append, ih.1, filter_src_none (defStep_src h1) hd]; rfl
    · rw [List.filter_append, ih.2]
      split <;> simp [hd]

theorem defsStep_proj {i : Nat} {d : Def} : ∀ {defs sts sts' outs ord st},
    defs.Pairwise (fun a b => a.id ≠ b.id) → (∀ x ∈ defs, x.id = d.id → x = d) →
    defsStep i defs sts = .ok (sts', outs, ord) → stOf d.id defs sts = some st →
    ∃ st' o, defStep i d st = .ok (st', o) ∧ stOf d.id defs sts' = some st' ∧
      outs.filter (fun r => r.src == d.id) = o ∧
      ord.filter (fun k => k == d.id) = (if st'.everAdded && !st.everAdded then [d.id] else [])
  | [], _, _, _, _, _, _, _, _, hs => by simp [stOf] at hs
  | _ :: _, [], _, _, _, _, _, _, _, hs => by simp [stOf] at hs
  | d' :: ds, s :: ss, sts', outs, ord, st, hp, hH, h, hs => by
    simp only [defsStep, bind_ok, pure_ok, Prod.mk.injEq] at h
    obtain ⟨⟨s', o⟩, h1, ⟨ss', os, od⟩, h2, rfl, rfl, rfl⟩ := h
    rw [List.pairwise_cons] at hp
    simp only [stOf] at hs
    split at hs
    · rename_i he
      cases hs
      have hdd : d' = d := hH d' (by simp) he
      subst hdd
      have ho := defsStep_other (fun x hx => Ne.symm (hp.1 x hx)) h2
      refine ⟨s', o, h1, by simp [stOf], ?_, ?_⟩
      · rw [List.filter_append, ho.1, filter_src_all (defStep_src h1)]; simp
      · rw [List.filter_append, ho.2]
        split <;> simp
    · rename_i he
      obtain ⟨st', o', g1, g2, g3, g4⟩ :=
        defsStep_proj hp.2 (fun x hx => hH x (by simp [hx])) h2 hs
      refine ⟨st', o', g1, by simp [stOf, he, g2], ?_, ?_⟩
      · rw [List.filter_append, g3, filter_src_none (defStep_src h1) he]; rfl
      · rw [List.filter_append, g4]
        split <;> simp [he]

/-! ### the loop over lines -/

theorem linesLoop_proj {dec : Nat → Bool} {d : Def} {defs : List Def}
    (hp : defs.Pairwise (fun a b => a.id ≠ b.id)) (hH : ∀ x ∈ defs, x.id = d.id → x = d) :
    ∀ (is : List Nat) (ls ls' : LSt) (st : DSt),
      linesLoop dec defs ls is = .ok ls' → AllInv defs ls.sts → stOf d.id defs ls.sts = some st →
      ∃ st' out, soloLoop d st is = .ok (st', out) ∧ stOf d.id defs ls'.sts = some st' ∧
        AllInv defs ls'.sts ∧
        ls'.simple.filter (fun r => r.src == d.id) = ls.simple.filter (fun r => r.src == d.id) ++ out ∧
        (ls.order.filter (fun k => k == d.id) = (if st.everAdded then [d.id] else []) →
          ls'.order.filter (fun k => k == d.id) = (if st'.everAdded then [d.id] else []))
  | [], ls, ls', st, h, ha, hs => by
    simp only [linesLoop, pure_ok] at h
    subst h
    exact ⟨st, [], by simp [soloLoop, pure_ok], hs, ha, by simp, fun h => h⟩
  | i :: is, ls, ls', st, h, ha, hs => by
    simp only [linesLoop, bind_ok] at h
    obtain ⟨ls1, hl, hrest⟩ := h
    unfold lineStep at hl
    split at hl
    · cases hl
    simp only [bind_ok, pure_ok] at hl
    obtain ⟨⟨sts', outs, ord⟩, hds, rfl⟩ := hl
    obtain ⟨st1, o, g1, g2, g3, g4⟩ := defsStep_proj hp hH hds hs
    have ha1 := defsStep_allInv hds ha
    have hmono := (defStep_inv g1 (AllInv_stOf ha hs)).2.1
    obtain ⟨st', out, k1, k2, k3, k4, k5⟩ :=
      linesLoop_proj hp hH is _ ls' st1 hrest ha1 g2
    refine ⟨st', o ++ out, ?_, k2, k3, ?_, ?_⟩
    · simp only [soloLoop, bind_ok, pure_ok]
      exact ⟨(st1, o), g1, (st', out), k1, rfl⟩
    · rw [k4]; simp only [List.filter_append, g3, List.append_assoc]
    · intro h0
      apply k5
      simp only [List.filter_append, g4, h0]
      cases h1 : st.everAdded <;> cases h2 : st1.everAdded <;> simp_all

/-! ### end of file -/

theorem eofDef_src {n d st fin} (h : eofDef n d st = .ok fin) (hi : DInv d.id st) :
    ∀ r ∈ fin, r.src = d.id := by
  unfold eofDef at h
  split at h
  · simp only [pure_ok] at h; subst h; simp
  · split at h
    · split at h
      · simp only [pure_ok] at h; subst h; exact hi.1
      · split at h
        · simp only [bind_ok, pure_ok] at h
          obtain ⟨r, hr, rfl⟩ := h
          intro r' hr'
          simp only [List.mem_append, List.mem_singleton] at hr'
          rcases hr' with h | rfl
          · exact hi.1 _ h
          · exact mkSeqRes_src hr
        · simp only [pure_ok] at h; subst h
          intro r hr
          exact hi.1 _ (List.mem_filter.mp hr).1
    · simp only [pure_ok] at h; subst h; exact hi.1

theorem eofDef_notAdded {n d st fin} (h : eofDef n d st = .ok fin) (hi : DInv d.id st)
    (he : st.everAdded = false) : fin = [] := by
  obtain ⟨h1, h2⟩ := hi.2 he
  unfold eofDef at h
  split at h
  · simp only [pure_ok] at h; exact h.symm
  · simp only [h2, Bool.false_eq_true, if_false, pure_ok] at h
    rw [← h, h1]

theorem eofAll_lookup {n : Nat} {d : Def} : ∀ {defs sts finals st},
    (∀ x ∈ defs, x.id = d.id → x = d) →
    eofAll n defs sts = .ok finals → stOf d.id defs sts = some st →
    ∃ fin, eofDef n d st = .ok fin ∧ finals.lookup d.id = some fin
  | [], _, _, _, _, _, hs => by simp [stOf] at hs
  | _ :: _, [], _, _, _, _, hs => by simp [stOf] at hs
  | d' :: ds, s :: ss, finals, st, hH, h, hs => by
    simp only [eofAll, bind_ok, pure_ok] at h
    obtain ⟨r, h1, rs, h2, rfl⟩ := h
    simp only [stOf] at hs
    split at hs
    · rename_i he
      cases hs
      have hdd : d' = d := hH d' (by simp) he
      subst hdd
      exact ⟨r, h1, by simp [List.lookup]⟩
    · rename_i he
      obtain ⟨fin, g1, g2⟩ := eofAll_lookup (fun x hx => hH x (by simp [hx])) h2 hs
      refine ⟨fin, g1, ?_⟩
      have : (d.id == d'.id) = false := by simp [Ne.symm he]
      simp [List.lookup, this, g2]

theorem eofAll_src {n : Nat} : ∀ {defs sts finals},
    eofAll n defs sts = .ok finals → AllInv defs sts →
    ∀ (id : Nat), ∀ r ∈ (finals.lookup id).getD [], r.src = id
  | [], _, _, h, _ => by
    simp only [eofAll, pure_ok] at h; subst h; simp [List.lookup]
  | _ :: _, [], _, h, _ => by
    simp only [eofAll, pure_ok] at h; subst h; simp [List.lookup]
  | d' :: ds, s :: ss, finals, h, ha => by
    simp only [eofAll, bind_ok, pure_ok] at h
    obtain ⟨r, h1, rs, h2, rfl⟩ := h
    intro id
    simp only [List.lookup]
    cases hb : (id == d'.id)
    · exact eofAll_src h2 ha.2 id
    · simp only [beq_iff_eq] at hb
      subst hb
      exact eofDef_src h1 ha.1

theorem filter_flatMap_src {k : Nat} {f : Nat → List Res} (hf : ∀ id, ∀ r ∈ f id, r.src = id) :
    ∀ (order : List Nat), (order.flatMap f).filter (fun r => r.src == k)
      = (order.filter (fun x => x == k)).flatMap f
  | [] => by simp
  | x :: xs => by
    simp only [List.flatMap_cons, List.filter_append, filter_flatMap_src hf xs, List.filter_cons]
    by_cases hx : x = k
    · subst hx; simp [filter_src_all (hf x)]
    · simp [hx, filter_src_none (hf x) hx]

/-! ### de-duplication of the registered definitions -/

theorem dedup_mem : ∀ {ds : List Def} {seen : List Nat} {x : Def},
    x ∈ dedupDefs ds seen → x ∈ ds ∧ x.id ∉ seen
  | [], _, _, h => by simp [dedupDefs] at h
  | d :: ds, seen, x, h => by
    simp only [dedupDefs] at h
    split at h
    · have := dedup_mem h
      exact ⟨by simp [this.1], this.2⟩
    · rename_i hc
      simp only [List.mem_cons] at h
      rcases h with rfl | h
      · exact ⟨by simp, by simpa using hc⟩
      · have := dedup_mem h
        exact ⟨by simp [this.1], fun hm => this.2 (by simp [hm])⟩

theorem dedup_pairwise : ∀ (ds : List Def) (seen : List Nat),
    (dedupDefs ds seen).Pairwise (fun a b => a.id ≠ b.id)
  | [], _ => by simp [dedupDefs]
  | d :: ds, seen => by
    simp only [dedupDefs]
    split
    · exact dedup_pairwise ds seen
    · rw [List.pairwise_cons]
      refine ⟨?_, dedup_pairwise ds _⟩
      intro x hx he
      exact (dedup_mem hx).2 (by simp [he])

theorem dedup_has : ∀ {ds : List Def} {seen : List Nat} {d : Def},
    d ∈ ds → d.id ∉ seen → ∃ x ∈ dedupDefs ds seen, x.id = d.id
  | [], _, _, h, _ => by simp at h
  | d' :: ds, seen, d, h, hs => by
    simp only [dedupDefs]
    split
    · rename_i hc
      simp only [List.mem_cons] at h
      rcases h with rfl | h
      · exact absurd (by simpa using hc) hs
      · exact dedup_has h hs
    · by_cases he : d'.id = d.id
      · exact ⟨d', by simp, he⟩
      · simp only [List.mem_cons] at h
        rcases h with rfl | h
        · exact absurd rfl he
        · obtain ⟨x, hx, hxe⟩ := dedup_has (seen := d'.id :: seen) h
            (by simp [Ne.symm he, hs])
          exact ⟨x, by simp [hx], hxe⟩

theorem stOf_init {d : Def} : ∀ {defs : List Def},
    d ∈ defs → (∀ x ∈ defs, x.id = d.id → x = d) →
    stOf d.id defs (defs.map DSt.init) = some (DSt.init d)
  | [], h, _ => by simp at h
  | d' :: ds, h, hH => by
    simp only [List.map_cons, stOf]
    split
    · rename_i he
      rw [hH d' (by simp) he]
    · rename_i he
      simp only [List.mem_cons] at h
      rcases h with rfl | h
      · exact absurd rfl he
      · exact stOf_init h (fun x hx => hH x (by simp [hx]))

theorem DInv_init (d : Def) : DInv d.id (DSt.init d) := by
  simp [DInv, DSt.init]

theorem AllInv_init : ∀ (defs : List Def), AllInv defs (defs.map DSt.init)
  | [] => trivial
  | d :: ds => ⟨DInv_init d, AllInv_init ds⟩

/-! ### main results -/

theorem runTask_stats (t : TaskIn) (rs : List Res) (st : Stats) (h : runTask t = .ok (rs, st)) :
    st.lines = t.n ∧ st.results = rs.length := by
  simp only [runTask, bind_ok, pure_ok, Prod.mk.injEq] at h
  obtain ⟨ls, _, finals, _, rfl, rfl⟩ := h
  exact ⟨rfl, rfl⟩

theorem runTask_proj (t : TaskIn) (hwf : DefsWF t.defs) (d : Def) (hd : d ∈ t.defs)
    (rs : List Res) (st : Stats) (hrun : runTask t = .ok (rs, st)) :
    ∃ stF out fin,
      soloLoop d (DSt.init d) (List.range t.n) = .ok (stF, out) ∧
      eofDef t.n d stF = .ok fin ∧
      rs.filter (fun r => r.src == d.id) = out ++ fin := by
  simp only [runTask, bind_ok, pure_ok, Prod.mk.injEq] at hrun
  obtain ⟨ls, hloop, finals, heof, rfl, _⟩ := hrun
  have hp := dedup_pairwise t.defs []
  have hH : ∀ x ∈ dedupDefs t.defs [], x.id = d.id → x = d :=
    fun x hx he => hwf x (dedup_mem hx).1 d hd he
  have hmem : d ∈ dedupDefs t.defs [] := by
    obtain ⟨x, hx, he⟩ := dedup_has (seen := []) hd (by simp)
    rw [← hH x hx he]; exact hx
  obtain ⟨stF, out, k1, k2, k3, k4, k5⟩ :=
    linesLoop_proj hp hH (List.range t.n) _ ls (DSt.init d) hloop
      (AllInv_init _) (stOf_init hmem hH)
  obtain ⟨fin, e1, e2⟩ := eofAll_lookup hH heof k2
  have hsrc := eofAll_src heof k3
  have hinv := AllInv_stOf k3 k2
  refine ⟨stF, out, fin, k1, e1, ?_⟩
  rw [List.filter_append, k4, filter_flatMap_src hsrc]
  have hord := k5 (by simp [DSt.init])
  rw [hord]
  simp only [List.filter_nil, List.nil_append]
  congr 1
  cases hE : stF.everAdded
  · simp [eofDef_notAdded e1 hinv hE]
  · simp [e2]

end Sk
