/-
  SkModel.Proofs.CacheInv — invariants of the `MPCacheSimple` transition system
  (`SkModel.Cache`): mutual exclusion, program order, linearizability w.r.t. one atomic
  register per key, progress and a step bound.
-/
import SkModel.Cache

namespace Sk.Cch

@[simp] theorem updP_same (f : Nat → CProc) (p : Nat) (v : CProc) : updP f p v p = v := by
  simp [updP]

theorem updP_other (f : Nat → CProc) (p : Nat) (v : CProc) (q : Nat) (h : q ≠ p) :
    updP f p v q = f q := by
  simp [updP, h]

/-! ### accesses one by one -/

/-- effect of one disk access on (disk, value read so far) -/
def accApply (dg : Disk × Option Val) : CAcc → Disk × Option Val
  | .write k v => ((k, some v) :: dg.1, dg.2)
  | .delete k => ((k, none) :: dg.1, dg.2)
  | .read k => (dg.1, dg.1.value k)

def accFold (dg : Disk × Option Val) (as : List CAcc) : Disk × Option Val :=
  as.foldl accApply dg

@[simp] theorem accFold_nil (dg : Disk × Option Val) : accFold dg [] = dg := rfl

@[simp] theorem accFold_cons (dg : Disk × Option Val) (a : CAcc) (as : List CAcc) :
    accFold dg (a :: as) = accFold (accApply dg a) as := rfl

theorem bulk_fold (items : List (CKey × Val)) (d : Disk) (g : Option Val) :
    accFold (d, g) (items.map fun p => CAcc.write p.1 p.2)
      = (items.foldl (fun acc p => (p.1, some p.2) :: acc) d, g) := by
  induction items generalizing d with
  | nil => rfl
  | cons it items ih => simp [accApply, ih]

/-- the sequential specification of an operation is the fold of its accesses -/
theorem specApply_eq (d : Disk) (op : COp) :
    specApply d op = accFold (d, none) op.accesses := by
  cases op with
  | set k v => rfl
  | bulkSet items => simp [specApply, COp.accesses, bulk_fold]
  | get k => rfl
  | unset k => rfl

/-! ### the three kinds of step -/

def stAcquire (s : CacheSt) (p : Nat) (op : COp) (rest : List COp) : CacheSt :=
  { s with lock := some p,
           procs := updP s.procs p
             { todo := rest, pending := op.accesses, cur := some op, got := none } }

def stAccess (s : CacheSt) (p : Nat) (a : CAcc) (rest : List CAcc) : CacheSt :=
  { s with disk := (accApply (s.disk, (s.procs p).got) a).1,
           procs := updP s.procs p
             { s.procs p with pending := rest,
                              got := (accApply (s.disk, (s.procs p).got) a).2 } }

def stRelease (s : CacheSt) (p : Nat) (op : COp) : CacheSt :=
  { s with lock := none,
           procs := updP s.procs p { s.procs p with cur := none },
           log := s.log ++ [{ proc := p, op := op, ret := (s.procs p).got }] }

/-- a failed open inside `get`: only the attempt counter moves -/
def stRetry (s : CacheSt) (p : Nat) : CacheSt :=
  { s with procs := updP s.procs p { s.procs p with tries := (s.procs p).tries + 1 } }

inductive Step (s : CacheSt) : CacheLbl → CacheSt → Prop
  | acquire (p op rest) (hl : s.lock = none) (hc : (s.procs p).cur = none)
      (ht : (s.procs p).todo = op :: rest) : Step s (.acquire p) (stAcquire s p op rest)
  | access (p a rest) (hl : s.lock = some p) (hp : (s.procs p).pending = a :: rest) :
      Step s (.access p) (stAccess s p a rest)
  | release (p op) (hl : s.lock = some p) (hp : (s.procs p).pending = [])
      (hc : (s.procs p).cur = some op) : Step s (.release p) (stRelease s p op)
  | retry (p k rest) (hl : s.lock = some p) (hp : (s.procs p).pending = .read k :: rest)
      (ht : (s.procs p).tries < maxOpenRetry) : Step s (.retry p) (stRetry s p)

theorem step_of (s s' : CacheSt) (l : CacheLbl) (h : cacheStep s l = some s') : Step s l s' := by
  cases l with
  | acquire p =>
    simp only [cacheStep] at h
    split at h
    · rename_i hc
      split at h
      · rename_i op rest ht
        cases h
        exact Step.acquire p op rest hc.1 hc.2 ht
      · cases h
    · cases h
  | access p =>
    simp only [cacheStep] at h
    split at h
    · rename_i hl
      split at h
      · rename_i k v rest hp
        cases h
        exact Step.access p (.write k v) rest hl hp
      · rename_i k rest hp
        cases h
        exact Step.access p (.delete k) rest hl hp
      · rename_i k rest hp
        cases h
        exact Step.access p (.read k) rest hl hp
      · cases h
    · cases h
  | release p =>
    simp only [cacheStep] at h
    split at h
    · rename_i hc
      split at h
      · rename_i op hcur
        cases h
        exact Step.release p op hc.1 hc.2 hcur
      · cases h
    · cases h
  | retry p =>
    simp only [cacheStep] at h
    split at h
    · rename_i hc
      split at h
      · rename_i k rest hp
        cases h
        exact Step.retry p k rest hc.1 hp hc.2
      · cases h
    · cases h

theorem step_to (s s' : CacheSt) (l : CacheLbl) (h : Step s l s') : cacheStep s l = some s' := by
  cases h with
  | acquire p op rest hl hc ht => simp [cacheStep, hl, hc, ht, stAcquire]
  | access p a rest hl hp =>
    cases a <;> simp [cacheStep, hl, hp, stAccess, accApply]
  | release p op hl hp hc => simp [cacheStep, hl, hp, hc, stRelease]
  | retry p k rest hl hp ht => simp [cacheStep, hl, hp, ht, stRetry]

/-! ### replay -/

theorem specReplay_cons (d : Disk) (e : CDone) (es : List CDone) :
    specReplay d (e :: es)
      = if (specApply d e.op).2 = e.ret then specReplay (specApply d e.op).1 es else none := rfl

theorem specReplay_append (d : Disk) (l1 l2 : List CDone) :
    specReplay d (l1 ++ l2) = (specReplay d l1).bind fun d' => specReplay d' l2 := by
  induction l1 generalizing d with
  | nil => rfl
  | cons e es ih =>
    simp only [List.cons_append, specReplay_cons]
    split
    · exact ih _
    · rfl

/-! ### the invariant -/

structure Inv (progs : Nat → List COp) (s : CacheSt) : Prop where
  order : ∀ p, (s.log.filter (·.proc == p)).map (·.op) ++ (s.procs p).cur.toList
            ++ (s.procs p).todo = progs p
  curlock : ∀ p, (s.procs p).cur.isSome ↔ s.lock = some p
  lin : ∃ d, specReplay [] s.log = some d ∧ (s.lock = none → s.disk = d) ∧
          ∀ p op, s.lock = some p → (s.procs p).cur = some op →
            accFold (s.disk, (s.procs p).got) (s.procs p).pending = specApply d op

theorem inv_init (progs : Nat → List COp) : Inv progs (CacheSt.init progs) where
  order := by intro p; simp [CacheSt.init]
  curlock := by intro p; simp [CacheSt.init]
  lin := ⟨[], rfl, fun _ => rfl, by intro p op h; simp [CacheSt.init] at h⟩

theorem inv_step (progs : Nat → List COp) (s s' : CacheSt) (l : CacheLbl)
    (hi : Inv progs s) (h : Step s l s') : Inv progs s' := by
  obtain ⟨hord, hcl, d, hrep, hdisk, hfold⟩ := hi
  cases h with
  | acquire p op rest hl hc ht =>
    refine ⟨?_, ?_, d, hrep, ?_, ?_⟩
    · intro q
      by_cases hq : q = p
      · subst hq
        have := hord q
        simp [hc, ht] at this
        simp [stAcquire, this]
      · simpa [stAcquire, updP_other _ _ _ _ hq] using hord q
    · intro q
      by_cases hq : q = p
      · subst hq; simp [stAcquire]
      · have := hcl q
        simp only [hl] at this
        simp only [stAcquire, updP_other _ _ _ _ hq, this]
        simp [Ne.symm hq]
    · intro h; simp [stAcquire] at h
    · intro q op' hq hcur
      simp only [stAcquire, Option.some.injEq] at hq
      subst hq
      simp only [stAcquire, updP_same, Option.some.injEq] at hcur
      subst hcur
      simp only [stAcquire, updP_same]
      rw [hdisk hl, specApply_eq]
  | access p a rest hl hp =>
    refine ⟨?_, ?_, d, hrep, ?_, ?_⟩
    · intro q
      by_cases hq : q = p
      · subst hq; simpa [stAccess] using hord q
      · simpa [stAccess, updP_other _ _ _ _ hq] using hord q
    · intro q
      by_cases hq : q = p
      · subst hq; simpa [stAccess] using hcl q
      · simpa [stAccess, updP_other _ _ _ _ hq] using hcl q
    · intro h; simp [stAccess, hl] at h
    · intro q op' hq hcur
      simp only [stAccess, hl, Option.some.injEq] at hq
      subst hq
      simp only [stAccess, updP_same] at hcur
      have := hfold p op' hl hcur
      rw [hp, accFold_cons] at this
      simpa [stAccess] using this
  | release p op hl hp hc =>
    have hf := hfold p op hl hc
    rw [hp, accFold_nil] at hf
    refine ⟨?_, ?_, s.disk, ?_, ?_, ?_⟩
    · intro q
      by_cases hq : q = p
      · subst hq
        have := hord q
        simp [hc] at this
        simp [stRelease, List.filter_append, this]
      · have hqp : ¬ p = q := fun h => hq h.symm
        simpa [stRelease, updP_other _ _ _ _ hq, List.filter_append, hqp] using hord q
    · intro q
      by_cases hq : q = p
      · subst hq; simp [stRelease]
      · have := hcl q
        simp only [hl, Option.some.injEq] at this
        have hqp : ¬ p = q := fun h => hq h.symm
        simp only [stRelease, updP_other _ _ _ _ hq, this]
        simp [hqp]
    · simp only [stRelease, specReplay_append, hrep, Option.bind_some, specReplay_cons, ← hf]
      simp [specReplay]
    · intro _; rfl
    · intro q op' hq; simp [stRelease] at hq
  | retry p k rest hl hp ht =>
    refine ⟨?_, ?_, d, hrep, ?_, ?_⟩
    · intro q
      by_cases hq : q = p
      · subst hq; simpa [stRetry] using hord q
      · simpa [stRetry, updP_other _ _ _ _ hq] using hord q
    · intro q
      by_cases hq : q = p
      · subst hq; simpa [stRetry] using hcl q
      · simpa [stRetry, updP_other _ _ _ _ hq] using hcl q
    · intro h; simp [stRetry, hl] at h
    · intro q op' hq hcur
      simp only [stRetry, hl, Option.some.injEq] at hq
      subst hq
      simp only [stRetry, updP_same] at hcur
      simpa [stRetry] using hfold p op' hl hcur

theorem inv_run (progs : Nat → List COp) (ls : List CacheLbl) (s s' : CacheSt)
    (hi : Inv progs s) (h : cacheRun s ls = some s') : Inv progs s' := by
  induction ls generalizing s with
  | nil => simp only [cacheRun, Option.some.injEq] at h; exact h ▸ hi
  | cons l ls ih =>
    simp only [cacheRun] at h
    split at h
    · rename_i s1 hs
      exact ih s1 (inv_step progs s s1 l hi (step_of _ _ _ hs)) h
    · cases h

theorem inv_reach (progs : Nat → List COp) (s : CacheSt)
    (h : ∃ ls, cacheRun (CacheSt.init progs) ls = some s) : Inv progs s := by
  obtain ⟨ls, h⟩ := h
  exact inv_run progs ls _ s (inv_init progs) h

/-! ### progress -/

theorem progress (progs : Nat → List COp) (s : CacheSt) (hi : Inv progs s) (p : Nat)
    (h : (s.procs p).todo ≠ [] ∨ (s.procs p).cur.isSome) :
    ∃ l s', cacheStep s l = some s' := by
  cases hl : s.lock with
  | some q =>
    have hq := (hi.curlock q).2 hl
    obtain ⟨op, hop⟩ := Option.isSome_iff_exists.1 hq
    cases hp : (s.procs q).pending with
    | nil => exact ⟨.release q, _, step_to _ _ _ (Step.release q op hl hp hop)⟩
    | cons a rest => exact ⟨.access q, _, step_to _ _ _ (Step.access q a rest hl hp)⟩
  | none =>
    have hc : (s.procs p).cur = none := by
      cases hcur : (s.procs p).cur with
      | none => rfl
      | some op =>
        have := (hi.curlock p).1 (by simp [hcur])
        simp [hl] at this
    cases ht : (s.procs p).todo with
    | nil => simp [ht, hc] at h
    | cons op rest => exact ⟨.acquire p, _, step_to _ _ _ (Step.acquire p op rest hl hc ht)⟩

/-! ### step bound -/

def lblProc : CacheLbl → Nat
  | .acquire p => p
  | .access p => p
  | .release p => p
  | .retry p => p

def isRetry : CacheLbl → Bool
  | .retry _ => true
  | _ => false

/-- number of transitions an operation list needs when no open fails: acquire, accesses,
    release -/
def cost : List COp → Nat
  | [] => 0
  | op :: ops => (op.accesses.length + 2) + cost ops

def mu (s : CacheSt) (p : Nat) : Nat :=
  cost (s.procs p).todo + (s.procs p).pending.length + (if (s.procs p).cur.isSome then 1 else 0)

/-- every step of `p` other than a retry uses up one unit of `mu`; a retry leaves it alone -/
theorem mu_step (s s' : CacheSt) (l : CacheLbl) (p : Nat) (h : Step s l s') :
    (if lblProc l = p ∧ isRetry l = false then 1 else 0) + mu s' p ≤ mu s p := by
  cases h with
  | acquire q op rest hl hc ht =>
    by_cases hq : p = q
    · subst hq
      simp [lblProc, isRetry, mu, stAcquire, hc, ht, cost]
      omega
    · have : ¬ q = p := fun h => hq h.symm
      simp [lblProc, mu, stAcquire, updP_other _ _ _ _ hq, this]
  | access q a rest hl hp =>
    by_cases hq : p = q
    · subst hq
      simp [lblProc, isRetry, mu, stAccess, hp]
      omega
    · have : ¬ q = p := fun h => hq h.symm
      simp [lblProc, mu, stAccess, updP_other _ _ _ _ hq, this]
  | release q op hl hp hc =>
    by_cases hq : p = q
    · subst hq
      simp [lblProc, isRetry, mu, stRelease, hp, hc]
      omega
    · have : ¬ q = p := fun h => hq h.symm
      simp [lblProc, mu, stRelease, updP_other _ _ _ _ hq, this]
  | retry q k rest hl hp ht =>
    by_cases hq : p = q
    · subst hq
      simp [isRetry, mu, stRetry]
    · simp [isRetry, mu, stRetry, updP_other _ _ _ _ hq]

theorem mu_run (ls : List CacheLbl) (s s' : CacheSt) (p : Nat) (h : cacheRun s ls = some s') :
    (ls.filter (fun l => lblProc l == p && !isRetry l)).length + mu s' p ≤ mu s p := by
  induction ls generalizing s with
  | nil => simp only [cacheRun, Option.some.injEq] at h; subst h; simp
  | cons l ls ih =>
    simp only [cacheRun] at h
    split at h
    · rename_i s1 hs
      have h1 := mu_step s s1 l p (step_of _ _ _ hs)
      have h2 := ih s1 h
      by_cases hp : lblProc l = p ∧ isRetry l = false
      · simp [hp] at h1 ⊢; omega
      · have hp' : ¬ (lblProc l = p ∧ isRetry l = false) := hp
        simp only [hp, if_false] at h1
        have : (lblProc l == p && !isRetry l) = false := by
          cases hr : isRetry l <;> simp_all
        simp only [List.filter_cons, this]
        simp only [Bool.false_eq_true, if_false]
        omega
    · cases h

/-! ### step bound including the retries: every read may be preceded by at most
    `maxOpenRetry` failed opens -/

def accCost : CAcc → Nat
  | .read _ => maxOpenRetry + 1
  | _ => 1

def pendCost : List CAcc → Nat
  | [] => 0
  | a :: as => accCost a + pendCost as

/-- transitions an operation list needs at most: acquire, accesses (a read: up to
    `maxOpenRetry` retries and the read itself), release -/
def costR : List COp → Nat
  | [] => 0
  | op :: ops => (pendCost op.accesses + 2) + costR ops

/-- what is left of the current critical section, given the failed attempts so far -/
def pendMu (tries : Nat) : List CAcc → Nat
  | [] => 0
  | .read _ :: as => (maxOpenRetry - tries) + 1 + pendCost as
  | a :: as => accCost a + pendCost as

theorem pendMu_le (t : Nat) (as : List CAcc) : pendMu t as ≤ pendCost as := by
  cases as with
  | nil => simp [pendMu, pendCost]
  | cons a as => cases a <;> simp [pendMu, pendCost, accCost] <;> omega

theorem pendMu_zero (as : List CAcc) : pendMu 0 as = pendCost as := by
  cases as with
  | nil => rfl
  | cons a as => cases a <;> simp [pendMu, pendCost, accCost] <;> omega

theorem pendMu_cons (t : Nat) (a : CAcc) (as : List CAcc) :
    1 + pendCost as ≤ pendMu t (a :: as) := by
  cases a <;> simp [pendMu, accCost] <;> omega

def muR (s : CacheSt) (p : Nat) : Nat :=
  costR (s.procs p).todo + pendMu (s.procs p).tries (s.procs p).pending
    + (if (s.procs p).cur.isSome then 1 else 0)

theorem muR_step (s s' : CacheSt) (l : CacheLbl) (p : Nat) (h : Step s l s') :
    (if lblProc l = p then 1 else 0) + muR s' p ≤ muR s p := by
  cases h with
  | acquire q op rest hl hc ht =>
    by_cases hq : p = q
    · subst hq
      simp [lblProc, muR, stAcquire, hc, ht, costR, pendMu_zero]
      omega
    · have : ¬ q = p := fun h => hq h.symm
      simp [lblProc, muR, stAcquire, updP_other _ _ _ _ hq, this]
  | access q a rest hl hp =>
    by_cases hq : p = q
    · subst hq
      have h1 := pendMu_cons (s.procs p).tries a rest
      have h2 := pendMu_le (s.procs p).tries rest
      simp [lblProc, muR, stAccess, hp]
      omega
    · have : ¬ q = p := fun h => hq h.symm
      simp [lblProc, muR, stAccess, updP_other _ _ _ _ hq, this]
  | release q op hl hp hc =>
    by_cases hq : p = q
    · subst hq
      simp [lblProc, muR, stRelease, hp, hc, pendMu]
      omega
    · have : ¬ q = p := fun h => hq h.symm
      simp [lblProc, muR, stRelease, updP_other _ _ _ _ hq, this]
  | retry q k rest hl hp ht =>
    by_cases hq : p = q
    · subst hq
      simp [lblProc, muR, stRetry, hp, pendMu]
      omega
    · have : ¬ q = p := fun h => hq h.symm
      simp [lblProc, muR, stRetry, updP_other _ _ _ _ hq, this]

theorem muR_run (ls : List CacheLbl) (s s' : CacheSt) (p : Nat) (h : cacheRun s ls = some s') :
    (ls.filter (fun l => lblProc l == p)).length + muR s' p ≤ muR s p := by
  induction ls generalizing s with
  | nil => simp only [cacheRun, Option.some.injEq] at h; subst h; simp
  | cons l ls ih =>
    simp only [cacheRun] at h
    split at h
    · rename_i s1 hs
      have h1 := muR_step s s1 l p (step_of _ _ _ hs)
      have h2 := ih s1 h
      by_cases hp : lblProc l = p
      · simp [hp] at h1 ⊢; omega
      · simp [hp] at h1 ⊢; omega
    · cases h

/-! ### retries are invisible: simulation "equal up to `tries`" -/

def dropRetries (ls : List CacheLbl) : List CacheLbl :=
  ls.filter (fun l => match l with | .retry _ => false | _ => true)

/-- same state except for the attempt counters -/
structure EqvT (s t : CacheSt) : Prop where
  disk : s.disk = t.disk
  lock : s.lock = t.lock
  log : s.log = t.log
  todo : ∀ p, (s.procs p).todo = (t.procs p).todo
  pending : ∀ p, (s.procs p).pending = (t.procs p).pending
  cur : ∀ p, (s.procs p).cur = (t.procs p).cur
  got : ∀ p, (s.procs p).got = (t.procs p).got

theorem EqvT.refl (s : CacheSt) : EqvT s s :=
  ⟨rfl, rfl, rfl, fun _ => rfl, fun _ => rfl, fun _ => rfl, fun _ => rfl⟩

/-- a retry step stays in the class; every other step is matched by the same step -/
theorem eqvT_step (s s' t : CacheSt) (l : CacheLbl) (he : EqvT s t) (h : Step s l s') :
    (isRetry l = true ∧ EqvT s' t) ∨
    (isRetry l = false ∧ ∃ t', Step t l t' ∧ EqvT s' t') := by
  obtain ⟨hd, hk, hg, htd, hpe, hcu, hgo⟩ := he
  cases h with
  | acquire p op rest hl hc ht =>
    refine Or.inr ⟨rfl, _, Step.acquire p op rest (hk ▸ hl) (hcu p ▸ hc) (htd p ▸ ht), ?_⟩
    refine ⟨hd, rfl, hg, ?_, ?_, ?_, ?_⟩ <;> intro q <;> by_cases hq : q = p <;>
      simp [stAcquire, updP, hq, htd q, hpe q, hcu q, hgo q]
  | access p a rest hl hp =>
    refine Or.inr ⟨rfl, _, Step.access p a rest (hk ▸ hl) (hpe p ▸ hp), ?_⟩
    refine ⟨?_, hk, hg, ?_, ?_, ?_, ?_⟩
    · simp [stAccess, hd, hgo p]
    all_goals
      intro q
      by_cases hq : q = p <;> simp [stAccess, updP, hq, hd, htd, hpe q, hcu, hgo]
  | release p op hl hp hc =>
    refine Or.inr ⟨rfl, _, Step.release p op (hk ▸ hl) (hpe p ▸ hp) (hcu p ▸ hc), ?_⟩
    refine ⟨hd, rfl, ?_, ?_, ?_, ?_, ?_⟩
    · simp [stRelease, hg, hgo p]
    all_goals
      intro q
      by_cases hq : q = p <;> simp [stRelease, updP, hq, htd, hpe, hcu q, hgo]
  | retry p k rest hl hp ht =>
    refine Or.inl ⟨rfl, hd, hk, hg, ?_, ?_, ?_, ?_⟩ <;> intro q <;> by_cases hq : q = p <;>
      simp [stRetry, updP, hq, htd, hpe, hcu, hgo]

theorem eqvT_run (ls : List CacheLbl) (s s' t : CacheSt) (he : EqvT s t)
    (h : cacheRun s ls = some s') :
    ∃ t', cacheRun t (dropRetries ls) = some t' ∧ EqvT s' t' := by
  induction ls generalizing s t with
  | nil =>
    simp only [cacheRun, Option.some.injEq] at h
    exact ⟨t, rfl, h ▸ he⟩
  | cons l ls ih =>
    simp only [cacheRun] at h
    split at h
    · rename_i s1 hs
      rcases eqvT_step s s1 t l he (step_of _ _ _ hs) with ⟨hr, he1⟩ | ⟨hr, t1, hst, he1⟩
      · obtain ⟨t', ht', he'⟩ := ih s1 t he1 h
        refine ⟨t', ?_, he'⟩
        cases l <;> simp [isRetry] at hr
        simpa [dropRetries] using ht'
      · obtain ⟨t', ht', he'⟩ := ih s1 t1 he1 h
        refine ⟨t', ?_, he'⟩
        have hst' := step_to _ _ _ hst
        cases l <;> simp [isRetry] at hr <;>
          simpa [dropRetries, cacheRun, hst'] using ht'
    · cases h

end Sk.Cch
