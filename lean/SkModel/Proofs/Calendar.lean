/-
  SkModel.Proofs.Calendar — arithmetic of the proleptic Gregorian calendar model in
  `SkModel.Since`: year/month prefix sums, ordinal monotonicity, and the fact that the
  lexicographic order on valid `Civil` values is the order of `toSeconds`.
-/
import SkModel.Since

namespace Sk.Cal
open Sk

/-- number of leap days in year `y` (0 or 1) -/
def leapN (y : Nat) : Nat := if isLeap y then 1 else 0

theorem isLeap_iff (y : Nat) :
    isLeap y = true ↔ (y % 4 = 0 ∧ (y % 100 ≠ 0 ∨ y % 400 = 0)) := by
  simp [isLeap]

theorem leapN_le (y : Nat) : leapN y ≤ 1 := by
  unfold leapN; split <;> omega

private theorem succ_div4 (k : Nat) :
    (k + 1) / 4 = k / 4 + (if (k + 1) % 4 = 0 then 1 else 0) := by split <;> omega
private theorem succ_div100 (k : Nat) :
    (k + 1) / 100 = k / 100 + (if (k + 1) % 100 = 0 then 1 else 0) := by split <;> omega
private theorem succ_div400 (k : Nat) :
    (k + 1) / 400 = k / 400 + (if (k + 1) % 400 = 0 then 1 else 0) := by split <;> omega
private theorem mod400_100 (y : Nat) : y % 400 = 0 → y % 100 = 0 := by omega
private theorem mod100_4 (y : Nat) : y % 100 = 0 → y % 4 = 0 := by omega
private theorem div100_le_div4 (k : Nat) : k / 100 ≤ k / 4 := by omega

/-- (i) one year is 365 days plus the leap day -/
theorem daysBeforeYear_succ (y : Nat) (h : 1 ≤ y) :
    daysBeforeYear (y + 1) = daysBeforeYear y + 365 + leapN y := by
  obtain ⟨k, rfl⟩ : ∃ k, y = k + 1 := ⟨y - 1, by omega⟩
  have h1 := mod400_100 (k + 1)
  have h2 := mod100_4 (k + 1)
  have h3 := div100_le_div4 k
  unfold leapN
  by_cases hl : isLeap (k + 1) = true
  · rw [if_pos hl]
    rw [isLeap_iff] at hl
    simp only [daysBeforeYear, Nat.add_sub_cancel]
    rw [succ_div4 k, succ_div100 k, succ_div400 k]
    split <;> split <;> split <;> omega
  · rw [if_neg hl]
    rw [isLeap_iff] at hl
    simp only [daysBeforeYear, Nat.add_sub_cancel]
    rw [succ_div4 k, succ_div100 k, succ_div400 k]
    split <;> split <;> split <;> omega

/-- (i') strict monotonicity of `daysBeforeYear`, with the whole earlier year fitting below -/
theorem daysBeforeYear_lt (y1 y2 : Nat) (h1 : 1 ≤ y1) (h : y1 < y2) :
    daysBeforeYear y1 + 365 + leapN y1 ≤ daysBeforeYear y2 := by
  induction y2 with
  | zero => omega
  | succ n ih =>
    by_cases hn : y1 = n
    · subst hn; rw [daysBeforeYear_succ y1 h1]; omega
    · have := ih (by omega)
      rw [daysBeforeYear_succ n (by omega)]
      omega

theorem month_cases (mo : Nat) (h1 : 1 ≤ mo) (h2 : mo ≤ 12) :
    mo = 1 ∨ mo = 2 ∨ mo = 3 ∨ mo = 4 ∨ mo = 5 ∨ mo = 6 ∨ mo = 7 ∨ mo = 8 ∨ mo = 9 ∨
    mo = 10 ∨ mo = 11 ∨ mo = 12 := by omega

/-- (iii) month prefix sums -/
theorem daysBeforeMonth_succ (y mo : Nat) (h1 : 1 ≤ mo) (h2 : mo ≤ 11) :
    daysBeforeMonth y (mo + 1) = daysBeforeMonth y mo + daysInMonth y mo := by
  have hc := month_cases mo h1 (by omega)
  rcases hc with h | h | h | h | h | h | h | h | h | h | h | h <;> subst h <;>
    first
    | omega
    | (cases hl : isLeap y <;>
        simp [daysBeforeMonth, daysBeforeMonthCommon, daysInMonth, hl])

theorem daysBeforeMonth_one (y : Nat) : daysBeforeMonth y 1 = 0 := by
  simp [daysBeforeMonth, daysBeforeMonthCommon]

theorem daysBeforeMonth_twelve (y : Nat) :
    daysBeforeMonth y 12 + daysInMonth y 12 = 365 + leapN y := by
  cases hl : isLeap y <;>
    simp [daysBeforeMonth, daysBeforeMonthCommon, daysInMonth, leapN, hl]

/-- an earlier month lies entirely before a later month -/
theorem daysBeforeMonth_lt (y m1 m2 : Nat) (h1 : 1 ≤ m1) (h : m1 < m2) (h2 : m2 ≤ 12) :
    daysBeforeMonth y m1 + daysInMonth y m1 ≤ daysBeforeMonth y m2 := by
  induction m2 with
  | zero => omega
  | succ n ih =>
    by_cases hn : m1 = n
    · subst hn; rw [daysBeforeMonth_succ y m1 h1 (by omega)]; omega
    · have := ih (by omega) (by omega)
      rw [daysBeforeMonth_succ y n (by omega) (by omega)]
      omega

/-- (ii) day-of-year bounds -/
theorem dayOfYear_le (y mo d : Nat) (h1 : 1 ≤ mo) (h2 : mo ≤ 12) (hd : d ≤ daysInMonth y mo) :
    daysBeforeMonth y mo + d ≤ 365 + leapN y := by
  by_cases h : mo = 12
  · subst h; have := daysBeforeMonth_twelve y; omega
  · have := daysBeforeMonth_lt y mo 12 h1 (by omega) (by omega)
    have := daysBeforeMonth_twelve y
    omega

/-- the Prop form of `Civil.valid` -/
theorem valid_iff (c : Civil) :
    c.valid = true ↔
      (1 ≤ c.y ∧ c.y ≤ 9999 ∧ 1 ≤ c.mo ∧ c.mo ≤ 12 ∧ 1 ≤ c.d ∧ c.d ≤ daysInMonth c.y c.mo ∧
        c.h < 24 ∧ c.mi < 60 ∧ c.s < 60) := by
  simp [Civil.valid, and_assoc]

/-- the Prop form of `Civil.lt` -/
theorem lt_iff (a b : Civil) :
    a.lt b = true ↔
      (a.y < b.y ∨ (a.y = b.y ∧ (a.mo < b.mo ∨ (a.mo = b.mo ∧ (a.d < b.d ∨ (a.d = b.d ∧
        (a.h < b.h ∨ (a.h = b.h ∧ (a.mi < b.mi ∨ (a.mi = b.mi ∧ a.s < b.s)))))))))) := by
  simp [Civil.lt]

/-- (iv) ordinal of a valid date: bounds inside its year -/
theorem ordinal_bounds (c : Civil) (hc : c.valid = true) :
    daysBeforeYear c.y + 1 ≤ c.ordinal ∧
      c.ordinal ≤ daysBeforeYear c.y + 365 + leapN c.y := by
  rw [valid_iff] at hc
  obtain ⟨_, _, hm1, hm2, hd1, hd2, _⟩ := hc
  have := dayOfYear_le c.y c.mo c.d hm1 hm2 hd2
  unfold Civil.ordinal
  omega

/-- the lexicographic order is total (trichotomy) -/
theorem lt_trichotomy (a b : Civil) : a.lt b = true ∨ a = b ∨ b.lt a = true := by
  rw [lt_iff, lt_iff]
  obtain ⟨ay, amo, ad, ah, ami, as⟩ := a
  obtain ⟨b_y, bmo, bd, bh, bmi, bs⟩ := b
  simp only [Civil.mk.injEq]
  omega

/-- forward direction: lexicographically smaller means earlier on the time line -/
theorem lt_toSeconds (a b : Civil) (ha : a.valid = true) (hb : b.valid = true)
    (h : a.lt b = true) : a.toSeconds < b.toSeconds := by
  have hoa := ordinal_bounds a ha
  have hob := ordinal_bounds b hb
  rw [valid_iff] at ha hb
  rw [lt_iff] at h
  obtain ⟨ay1, _, am1, am2, ad1, ad2, ah, ami, as⟩ := ha
  obtain ⟨by1, _, bm1, bm2, bd1, bd2, bh, bmi, bs⟩ := hb
  unfold Civil.toSeconds
  rcases h with h | ⟨hy, h⟩
  · -- earlier year
    have := daysBeforeYear_lt a.y b.y ay1 h
    omega
  · rcases h with h | ⟨hm, h⟩
    · -- same year, earlier month
      have hlt := daysBeforeMonth_lt a.y a.mo b.mo am1 h bm2
      have : a.ordinal < b.ordinal := by
        unfold Civil.ordinal
        rw [← hy]
        omega
      omega
    · have hord : a.d < b.d → a.ordinal < b.ordinal := by
        intro hd; unfold Civil.ordinal; rw [← hy, ← hm]; omega
      have hord' : a.d = b.d → a.ordinal = b.ordinal := by
        intro hd; unfold Civil.ordinal; rw [← hy, ← hm, hd]
      rcases h with h | ⟨hd, h⟩
      · have := hord h; omega
      · have := hord' hd; omega

end Sk.Cal
