/-
  SkModel.Proofs.SeekL1 — the two chunked line-feed scans of the seeker
  (`findTokenReverse`, `findToken`) are exact: closed forms of `ftrLoop` / `ftLoop`
  in terms of `rfindLF` / `findLF` over the whole remaining range, and the relation of
  these to `Spec.lastLFBefore` / `Spec.firstLFFrom`.
-/
import SkModel.Seeker
import SkModel.Spec.Lines

namespace Sk.SeekL1
open Sk

/-! ### `rfindLF` / `findLF` facts -/

theorem rfindLF_succ (F : FileV) (a k : Nat) :
    rfindLF F a (k + 1) =
      if a + k < F.len && F.isLF (a + k) then some (a + k) else rfindLF F a k := rfl

theorem findLF_succ (F : FileV) (a k : Nat) :
    findLF F a (k + 1) = if a < F.len && F.isLF a then some a else findLF F (a + 1) k := rfl

theorem rfindLF_some {F : FileV} {a k i : Nat} (h : rfindLF F a k = some i) :
    a ≤ i ∧ i < a + k ∧ i < F.len ∧ F.isLF i = true ∧
      ∀ j, i < j → j < a + k → ¬(j < F.len ∧ F.isLF j = true) := by
  induction k with
  | zero => simp [rfindLF] at h
  | succ k ih =>
    unfold rfindLF at h
    split at h
    · rename_i hc
      simp only [Bool.and_eq_true, decide_eq_true_eq] at hc
      cases h
      refine ⟨by omega, by omega, hc.1, hc.2, ?_⟩
      intro j h1 h2; omega
    · rename_i hc
      simp only [Bool.and_eq_true, decide_eq_true_eq] at hc
      obtain ⟨h1, h2, h3, h4, h5⟩ := ih h
      refine ⟨h1, by omega, h3, h4, ?_⟩
      intro j hj1 hj2
      by_cases hjk : j = a + k
      · subst hjk; exact hc
      · exact h5 j hj1 (by omega)

theorem rfindLF_none {F : FileV} {a k : Nat} (h : rfindLF F a k = none) :
    ∀ j, a ≤ j → j < a + k → ¬(j < F.len ∧ F.isLF j = true) := by
  induction k with
  | zero => intro j h1 h2; omega
  | succ k ih =>
    unfold rfindLF at h
    split at h
    · cases h
    · rename_i hc
      simp only [Bool.and_eq_true, decide_eq_true_eq] at hc
      intro j h1 h2
      by_cases hjk : j = a + k
      · subst hjk; exact hc
      · exact ih h j h1 (by omega)

/-- scanning `[a, a + k₁ + k₂)` downwards = scanning the upper part, then the lower part -/
theorem rfindLF_split (F : FileV) (a k₁ k₂ : Nat) :
    rfindLF F a (k₁ + k₂) =
      match rfindLF F (a + k₁) k₂ with
      | some i => some i
      | none => rfindLF F a k₁ := by
  induction k₂ with
  | zero => simp [rfindLF]
  | succ k₂ ih =>
    rw [← Nat.add_assoc, rfindLF_succ, rfindLF_succ, Nat.add_assoc a k₁ k₂]
    split
    · rfl
    · exact ih

theorem findLF_some {F : FileV} {a k i : Nat} (h : findLF F a k = some i) :
    a ≤ i ∧ i < a + k ∧ i < F.len ∧ F.isLF i = true ∧
      ∀ j, a ≤ j → j < i → ¬(j < F.len ∧ F.isLF j = true) := by
  induction k generalizing a with
  | zero => simp [findLF] at h
  | succ k ih =>
    unfold findLF at h
    split at h
    · rename_i hc
      simp only [Bool.and_eq_true, decide_eq_true_eq] at hc
      cases h
      refine ⟨by omega, by omega, hc.1, hc.2, ?_⟩
      intro j h1 h2; omega
    · rename_i hc
      simp only [Bool.and_eq_true, decide_eq_true_eq] at hc
      obtain ⟨h1, h2, h3, h4, h5⟩ := ih h
      refine ⟨by omega, by omega, h3, h4, ?_⟩
      intro j hj1 hj2
      by_cases hja : j = a
      · subst hja; exact hc
      · exact h5 j (by omega) hj2

theorem findLF_none {F : FileV} {a k : Nat} (h : findLF F a k = none) :
    ∀ j, a ≤ j → j < a + k → ¬(j < F.len ∧ F.isLF j = true) := by
  induction k generalizing a with
  | zero => intro j h1 h2; omega
  | succ k ih =>
    unfold findLF at h
    split at h
    · cases h
    · rename_i hc
      simp only [Bool.and_eq_true, decide_eq_true_eq] at hc
      intro j h1 h2
      by_cases hja : j = a
      · subst hja; exact hc
      · exact ih h j (by omega) (by omega)

/-- scanning `[a, a + k₁ + k₂)` upwards = scanning the lower part, then the upper part -/
theorem findLF_split (F : FileV) (a k₁ k₂ : Nat) :
    findLF F a (k₁ + k₂) =
      match findLF F a k₁ with
      | some i => some i
      | none => findLF F (a + k₁) k₂ := by
  induction k₁ generalizing a with
  | zero => simp [findLF]
  | succ k₁ ih =>
    rw [Nat.add_right_comm, findLF_succ, findLF_succ]
    split
    · rfl
    · rw [ih (a + 1)]
      rw [show a + 1 + k₁ = a + (k₁ + 1) by omega]

/-! ### the specification functions are the same scans over the whole range -/

theorem lastLFBefore_eq (F : FileV) (s : Nat) : Spec.lastLFBefore F s = rfindLF F 0 s := by
  induction s with
  | zero => rfl
  | succ s ih =>
    unfold Spec.lastLFBefore rfindLF
    rw [ih, Nat.zero_add]

theorem firstLFFrom_eq (F : FileV) (o k : Nat) : Spec.firstLFFrom F o k = findLF F o k := by
  induction k generalizing o with
  | zero => rfl
  | succ k ih =>
    unfold Spec.firstLFFrom findLF
    rw [ih]

theorem lastLFBefore_some {F : FileV} {s i : Nat} (h : Spec.lastLFBefore F s = some i) :
    i < s ∧ i < F.len ∧ F.isLF i = true ∧
      ∀ j, i < j → j < s → ¬(j < F.len ∧ F.isLF j = true) := by
  rw [lastLFBefore_eq] at h
  obtain ⟨_, h2, h3, h4, h5⟩ := rfindLF_some h
  refine ⟨by omega, h3, h4, ?_⟩
  intro j h1 hj; exact h5 j h1 (by omega)

theorem lastLFBefore_none {F : FileV} {s : Nat} (h : Spec.lastLFBefore F s = none) :
    ∀ j, j < s → ¬(j < F.len ∧ F.isLF j = true) := by
  rw [lastLFBefore_eq] at h
  intro j hj; exact rfindLF_none h j (Nat.zero_le _) (by omega)

theorem firstLFFrom_some {F : FileV} {o k j : Nat} (h : Spec.firstLFFrom F o k = some j) :
    o ≤ j ∧ j < o + k ∧ j < F.len ∧ F.isLF j = true ∧
      ∀ j', o ≤ j' → j' < j → ¬(j' < F.len ∧ F.isLF j' = true) := by
  rw [firstLFFrom_eq] at h
  exact findLF_some h

theorem firstLFFrom_none {F : FileV} {o k : Nat} (h : Spec.firstLFFrom F o k = none) :
    ∀ j, o ≤ j → j < o + k → ¬(j < F.len ∧ F.isLF j = true) := by
  rw [firstLFFrom_eq] at h
  exact findLF_none h

/-! ### the backward scan -/

theorem ftrLoop_zero (K : SeekK) (F : FileV) (s : Nat) (cur : Int) :
    ftrLoop K F s 0 cur = .error .maxLineLen := rfl

theorem ftrLoop_succ (K : SeekK) (F : FileV) (s fuel : Nat) (cur : Int) :
    ftrLoop K F s (fuel + 1) cur =
      (let ro : Int := (s : Int) + cur
       let readOff : Nat := if ro > 0 then ro.toNat else 0
       let readSize : Nat := if ro > 0 then K.H else ((K.H : Int) + ro).toNat
       let got := readLen F readOff readSize
       if got = 0 then .ok (.edge 0)
       else match rfindLF F readOff got with
         | some i => .ok (.found i)
         | none =>
           if fuel = 0 then .error .maxLineLen
           else
             let cur' : Int := cur - got
             if (s : Int) + cur' ≤ -(K.H : Int) then .ok (.edge 0)
             else ftrLoop K F s fuel cur') := rfl

/-- closed form of the backward scan whose next chunk ends at `t` -/
def ftrR (K : SeekK) (F : FileV) (fuel t : Nat) : Except SeekErr Tok :=
  match rfindLF F 0 t with
  | some i => if t - i ≤ fuel * K.H then .ok (.found i) else .error .maxLineLen
  | none => if t + K.H ≤ fuel * K.H then .ok (.edge 0) else .error .maxLineLen

/-- one full chunk `[u, u + H)`, `u > 0` -/
theorem ftrLoop_full (K : SeekK) (hH : 0 < K.H) (F : FileV) (s n u : Nat) (cur : Int)
    (hu : 0 < u) (hlen : u + K.H ≤ F.len) (hcur : (s : Int) + cur = (u : Int)) :
    ftrLoop K F s (n + 1) cur =
      match rfindLF F u K.H with
      | some i => .ok (.found i)
      | none => if n = 0 then .error .maxLineLen else ftrLoop K F s n (cur - K.H) := by
  rw [ftrLoop_succ]
  have h1 : (s : Int) + cur > 0 := by omega
  have h2 : ((s : Int) + cur).toNat = u := by omega
  have h3 : readLen F u K.H = K.H := by unfold readLen; omega
  have h4 : ¬ K.H = 0 := by omega
  have h5 : ¬ ((s : Int) + (cur - (K.H : Int)) ≤ -(K.H : Int)) := by omega
  simp only [h1, if_true, h2, h3, h4, if_false, h5]

/-- the last, possibly partial chunk `[0, t)`, `t ≤ H` -/
theorem ftrLoop_last (K : SeekK) (F : FileV) (s n t : Nat) (cur : Int)
    (ht : t ≤ K.H) (hlen : t ≤ F.len) (hcur : (s : Int) + cur = (t : Int) - K.H) :
    ftrLoop K F s (n + 1) cur =
      if t = 0 then .ok (.edge 0)
      else match rfindLF F 0 t with
      | some i => .ok (.found i)
      | none => if n = 0 then .error .maxLineLen else .ok (.edge 0) := by
  rw [ftrLoop_succ]
  have h1 : ¬ ((s : Int) + cur > 0) := by omega
  have h2 : ((K.H : Int) + ((s : Int) + cur)).toNat = t := by omega
  have h3 : readLen F 0 t = t := by unfold readLen; omega
  have h5 : ((s : Int) + (cur - (t : Int)) ≤ -(K.H : Int)) := by omega
  simp only [h1, if_false, h2, h3, h5, if_true]

theorem ftrLoop_eq (K : SeekK) (hH : 0 < K.H) (F : FileV) (s : Nat) :
    ∀ (fuel t : Nat) (cur : Int), t ≤ F.len → (s : Int) + cur = (t : Int) - K.H →
      ftrLoop K F s fuel cur = ftrR K F fuel t := by
  intro fuel
  induction fuel with
  | zero =>
    intro t cur _ _
    rw [ftrLoop_zero]; unfold ftrR
    cases h : rfindLF F 0 t with
    | none =>
      have : ¬ (t + K.H ≤ 0 * K.H) := by omega
      simp only [this, if_false]
    | some i =>
      have hi := (rfindLF_some h).2.1
      have : ¬ (t - i ≤ 0 * K.H) := by omega
      simp only [this, if_false]
  | succ n ih =>
    intro t cur hlen hcur
    have hmul : (n + 1) * K.H = n * K.H + K.H := Nat.succ_mul _ _
    have hn : n = 0 ∨ K.H ≤ n * K.H := by
      cases n with
      | zero => left; rfl
      | succ m => right; rw [Nat.succ_mul]; omega
    unfold ftrR
    rw [hmul]
    by_cases htH : t ≤ K.H
    · rw [ftrLoop_last K F s n t cur htH hlen hcur]
      by_cases ht0 : t = 0
      · subst ht0
        have : 0 + K.H ≤ n * K.H + K.H := by omega
        simp only [rfindLF, if_true, this]
      · simp only [ht0, if_false]
        cases h : rfindLF F 0 t with
        | none =>
          by_cases hn0 : n = 0
          · subst hn0
            have : ¬ (t + K.H ≤ 0 * K.H + K.H) := by omega
            simp only [if_true, this, if_false]
          · have : t + K.H ≤ n * K.H + K.H := by omega
            simp only [hn0, if_false, this, if_true]
        | some i =>
          have : t - i ≤ n * K.H + K.H := by omega
          simp only [this, if_true]
    · obtain ⟨u, rfl⟩ : ∃ u, t = u + K.H := ⟨t - K.H, by omega⟩
      have hu : 0 < u := by omega
      rw [ftrLoop_full K hH F s n u cur hu hlen (by omega)]
      rw [rfindLF_split, Nat.zero_add]
      cases h : rfindLF F u K.H with
      | some i =>
        have hi := (rfindLF_some h).1
        have : u + K.H - i ≤ n * K.H + K.H := by omega
        simp only [this, if_true]
      | none =>
        simp only []
        by_cases hn0 : n = 0
        · subst hn0
          simp only [if_true]
          cases h' : rfindLF F 0 u with
          | none =>
            have : ¬ (u + K.H + K.H ≤ 0 * K.H + K.H) := by omega
            simp only [this, if_false]
          | some i =>
            have hi := (rfindLF_some h').2.1
            have : ¬ (u + K.H - i ≤ 0 * K.H + K.H) := by omega
            simp only [this, if_false]
        · simp only [hn0, if_false]
          rw [ih u (cur - K.H) (by omega) (by omega)]
          unfold ftrR
          cases h' : rfindLF F 0 u with
          | none =>
            simp only []
            by_cases hc : u + K.H ≤ n * K.H
            · have : u + K.H + K.H ≤ n * K.H + K.H := by omega
              simp only [hc, this, if_true]
            · have : ¬ (u + K.H + K.H ≤ n * K.H + K.H) := by omega
              simp only [hc, this, if_false]
          | some i =>
            have hi := (rfindLF_some h').2.1
            simp only []
            by_cases hc : u - i ≤ n * K.H
            · have : u + K.H - i ≤ n * K.H + K.H := by omega
              simp only [hc, this, if_true]
            · have : ¬ (u + K.H - i ≤ n * K.H + K.H) := by omega
              simp only [hc, this, if_false]

/-! ### the forward scan -/

theorem ftLoop_zero (K : SeekK) (F : FileV) (pos : Nat) :
    ftLoop K F 0 pos = .error .maxLineLen := rfl

theorem ftLoop_succ (K : SeekK) (F : FileV) (fuel pos : Nat) :
    ftLoop K F (fuel + 1) pos =
      (let got := readLen F pos K.H
       if got = 0 then .ok (.edge F.len)
       else match findLF F pos got with
         | some i => .ok (.found i)
         | none => ftLoop K F fuel (pos + got)) := rfl

/-- closed form of the forward scan at `pos` with `m = len - pos` bytes left -/
def ftR (K : SeekK) (F : FileV) (fuel pos m : Nat) : Except SeekErr Tok :=
  match findLF F pos m with
  | some j => if j - pos < fuel * K.H then .ok (.found j) else .error .maxLineLen
  | none => if m + K.H ≤ fuel * K.H then .ok (.edge F.len) else .error .maxLineLen

theorem ftLoop_eq (K : SeekK) (hH : 0 < K.H) (F : FileV) :
    ∀ (fuel pos m : Nat), pos + m = F.len → ftLoop K F fuel pos = ftR K F fuel pos m := by
  intro fuel
  induction fuel with
  | zero =>
    intro pos m _
    rw [ftLoop_zero]; unfold ftR
    cases h : findLF F pos m with
    | none =>
      have : ¬ (m + K.H ≤ 0 * K.H) := by omega
      simp only [this, if_false]
    | some j =>
      have : ¬ (j - pos < 0 * K.H) := by omega
      simp only [this, if_false]
  | succ n ih =>
    intro pos m hlen
    have hmul : (n + 1) * K.H = n * K.H + K.H := Nat.succ_mul _ _
    have hn : n = 0 ∨ K.H ≤ n * K.H := by
      cases n with
      | zero => left; rfl
      | succ m => right; rw [Nat.succ_mul]; omega
    rw [ftLoop_succ]
    unfold ftR
    rw [hmul]
    by_cases hm : m ≤ K.H
    · -- the chunk reaches the end of the file
      have h3 : readLen F pos K.H = m := by unfold readLen; omega
      simp only [h3]
      by_cases hm0 : m = 0
      · subst hm0
        have : 0 + K.H ≤ n * K.H + K.H := by omega
        simp only [findLF, if_true, this]
      · simp only [hm0, if_false]
        cases h : findLF F pos m with
        | some j =>
          have hj := findLF_some h
          have : j - pos < n * K.H + K.H := by omega
          simp only [this, if_true]
        | none =>
          simp only []
          rw [ih (pos + m) 0 (by omega)]
          unfold ftR
          simp only [findLF]
          by_cases hn0 : n = 0
          · subst hn0
            have h1 : ¬ (0 + K.H ≤ 0 * K.H) := by omega
            have h2 : ¬ (m + K.H ≤ 0 * K.H + K.H) := by omega
            simp only [h1, h2, if_false]
          · have h1 : 0 + K.H ≤ n * K.H := by omega
            have h2 : m + K.H ≤ n * K.H + K.H := by omega
            simp only [h1, h2, if_true]
    · obtain ⟨r, rfl⟩ : ∃ r, m = K.H + r := ⟨m - K.H, by omega⟩
      have h3 : readLen F pos K.H = K.H := by unfold readLen; omega
      have h4 : ¬ K.H = 0 := by omega
      simp only [h3, h4, if_false]
      rw [findLF_split]
      cases h : findLF F pos K.H with
      | some j =>
        have hj := findLF_some h
        have : j - pos < n * K.H + K.H := by omega
        simp only [this, if_true]
      | none =>
        simp only []
        rw [ih (pos + K.H) r (by omega)]
        unfold ftR
        cases h' : findLF F (pos + K.H) r with
        | none =>
          simp only []
          by_cases hc : r + K.H ≤ n * K.H
          · have : K.H + r + K.H ≤ n * K.H + K.H := by omega
            simp only [hc, this, if_true]
          · have : ¬ (K.H + r + K.H ≤ n * K.H + K.H) := by omega
            simp only [hc, this, if_false]
        | some j =>
          have hj := (findLF_some h').1
          simp only []
          by_cases hc : j - (pos + K.H) < n * K.H
          · have : j - pos < n * K.H + K.H := by omega
            simp only [hc, this, if_true]
          · have : ¬ (j - pos < n * K.H + K.H) := by omega
            simp only [hc, this, if_false]

/-! ### soundness facts that hold for any start offset -/

theorem ftrLoop_succ_abs (K : SeekK) (F : FileV) (s n : Nat) (cur : Int) :
    ∃ readOff got : Nat, (cur ≤ -(K.H : Int) → readOff + got ≤ s) ∧
      ftrLoop K F s (n + 1) cur =
        if got = 0 then .ok (.edge 0)
        else match rfindLF F readOff got with
          | some i => .ok (.found i)
          | none =>
            if n = 0 then .error .maxLineLen
            else if (s : Int) + (cur - (got : Int)) ≤ -(K.H : Int) then .ok (.edge 0)
            else ftrLoop K F s n (cur - (got : Int)) := by
  refine ⟨if (s : Int) + cur > 0 then ((s : Int) + cur).toNat else 0,
    readLen F (if (s : Int) + cur > 0 then ((s : Int) + cur).toNat else 0)
      (if (s : Int) + cur > 0 then K.H else ((K.H : Int) + ((s : Int) + cur)).toNat), ?_,
    ftrLoop_succ K F s n cur⟩
  intro hcur
  unfold readLen
  split <;> omega

theorem ftrLoop_found (K : SeekK) (F : FileV) (s : Nat) {i : Int} :
    ∀ (fuel : Nat) (cur : Int), cur ≤ -(K.H : Int) →
      ftrLoop K F s fuel cur = .ok (.found i) →
      ∃ n : Nat, i = n ∧ n < s ∧ n < F.len ∧ F.isLF n = true := by
  intro fuel
  induction fuel with
  | zero => intro cur _ h; rw [ftrLoop_zero] at h; cases h
  | succ n ih =>
    intro cur hcur h
    obtain ⟨readOff, got, hb, heq⟩ := ftrLoop_succ_abs K F s n cur
    rw [heq] at h
    split at h
    · cases h
    · split at h
      · rename_i j hj
        cases h
        obtain ⟨h1, h2, h3, h4, _⟩ := rfindLF_some hj
        have := hb hcur
        exact ⟨j, rfl, by omega, h3, h4⟩
      · split at h
        · cases h
        · split at h
          · cases h
          · exact ih _ (by omega) h

theorem ftrLoop_edge (K : SeekK) (F : FileV) (s : Nat) {e : Int} :
    ∀ (fuel : Nat) (cur : Int), ftrLoop K F s fuel cur = .ok (.edge e) → e = 0 := by
  intro fuel
  induction fuel with
  | zero => intro cur h; rw [ftrLoop_zero] at h; cases h
  | succ n ih =>
    intro cur h
    obtain ⟨readOff, got, _, heq⟩ := ftrLoop_succ_abs K F s n cur
    rw [heq] at h
    split at h
    · cases h; rfl
    · split at h
      · cases h
      · split at h
        · cases h
        · split at h
          · cases h; rfl
          · exact ih _ h

theorem ftLoop_found (K : SeekK) (F : FileV) {j : Int} :
    ∀ (fuel pos : Nat), ftLoop K F fuel pos = .ok (.found j) →
      ∃ n : Nat, j = n ∧ pos ≤ n ∧ n < F.len ∧ F.isLF n = true := by
  intro fuel
  induction fuel with
  | zero => intro pos h; rw [ftLoop_zero] at h; cases h
  | succ n ih =>
    intro pos h
    rw [ftLoop_succ] at h
    simp only [] at h
    split at h
    · cases h
    · split at h
      · rename_i i hi
        cases h
        obtain ⟨h1, _, h3, h4, _⟩ := findLF_some hi
        exact ⟨i, rfl, h1, h3, h4⟩
      · obtain ⟨m, h1, h2, h3, h4⟩ := ih _ h
        exact ⟨m, h1, by omega, h3, h4⟩

theorem ftLoop_edge (K : SeekK) (F : FileV) {e : Int} :
    ∀ (fuel pos : Nat), ftLoop K F fuel pos = .ok (.edge e) → e = F.len := by
  intro fuel
  induction fuel with
  | zero => intro pos h; rw [ftLoop_zero] at h; cases h
  | succ n ih =>
    intro pos h
    rw [ftLoop_succ] at h
    simp only [] at h
    split at h
    · cases h; rfl
    · split at h
      · cases h
      · exact ih _ h

end Sk.SeekL1
