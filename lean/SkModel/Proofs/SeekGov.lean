/-
  SkModel.Proofs.SeekGov — `getItem` (`__getitem__` of the since-seeker) returns the
  dated line that governs an offset: the last dated line at or before the line containing
  the offset, else the first dated line after it; `tooManyUndated` iff no line is dated.
-/
import SkModel.Proofs.Seek4Lines

namespace Sk.C04
open Sk Sk.SeekL1

/-! ### the scans succeed on short lines -/

theorem ft_ok (K : SeekK) (hH : 0 < K.H) (hE : 0 < K.EXP) (F : FileV)
    (hS : Spec.longestLine F ≤ (K.EXP - 1) * K.H) (o : Nat) (ho : o ≤ F.len) :
    findToken K F o = .ok (specElf F o) := by
  have hshort := Nat.le_trans (short_line F o ho) hS
  obtain ⟨e, he⟩ : ∃ e, K.EXP = e + 1 := ⟨K.EXP - 1, by omega⟩
  have hmul : (e + 1) * K.H = e * K.H + K.H := Nat.succ_mul _ _
  rw [he, Nat.add_sub_cancel] at hshort
  have hls := lineStart_le F o
  have hle := le_lineEnd F o ho
  rw [ft_exact K hH hE F o ho, he, Nat.add_sub_cancel, hmul]
  unfold specElf
  unfold Spec.lineEnd at hshort hle
  cases h : Spec.firstLFFrom F o (F.len - o) with
  | some j =>
    rw [h] at hshort hle
    simp only [Option.getD_some] at hshort hle
    have : j - o < e * K.H + K.H := by omega
    simp only [this, if_true]
  | none =>
    rw [h] at hshort hle
    simp only [Option.getD_none] at hshort hle
    have : F.len - o ≤ e * K.H := by omega
    simp only [this, if_true]

theorem ftr_ok (K : SeekK) (hH : 0 < K.H) (hE : 0 < K.EXP) (F : FileV)
    (hS : Spec.longestLine F ≤ (K.EXP - 1) * K.H) (o : Nat) (ho : o ≤ F.len) :
    findTokenReverse K F o = .ok (specSlf F o) := by
  have hshort := Nat.le_trans (short_line F o ho) hS
  obtain ⟨e, he⟩ : ∃ e, K.EXP = e + 1 := ⟨K.EXP - 1, by omega⟩
  have hmul : (e + 1) * K.H = e * K.H + K.H := Nat.succ_mul _ _
  rw [he, Nat.add_sub_cancel] at hshort
  have hls := lineStart_le F o
  have hle := le_lineEnd F o ho
  rw [ftr_exact K hH hE F o ho, he, Nat.add_sub_cancel, hmul]
  unfold specSlf
  unfold Spec.lineStart at hshort hls
  cases h : Spec.lastLFBefore F o with
  | some i =>
    rw [h] at hshort hls
    simp only [] at hshort hls
    have : o - i ≤ e * K.H + K.H := by omega
    simp only [this, if_true]
  | none =>
    rw [h] at hshort hls
    simp only [] at hshort hls
    have : o ≤ e * K.H := by omega
    simp only [this, if_true]

/-! ### `tryFindLine` in its three calling modes -/

theorem tfl_nn (K : SeekK) (hH : 0 < K.H) (hE : 0 < K.EXP) (F : FileV)
    (hS : Spec.longestLine F ≤ (K.EXP - 1) * K.H) (o : Nat) (ho : o ≤ F.len) :
    tryFindLine K F o none none = .ok ⟨specSlf F o, specElf F o⟩ :=
  tryFindLine_ok K F o _ _ (ft_ok K hH hE F hS o ho) (ftr_ok K hH hE F hS o ho) (spec_assert F o)

theorem tfl_back (K : SeekK) (hH : 0 < K.H) (hE : 0 < K.EXP) (F : FileV)
    (hS : Spec.longestLine F ≤ (K.EXP - 1) * K.H) (o : Nat) (ho : o ≤ F.len) (p : Int)
    (hp : (o : Int) ≤ p ∧ p ≤ F.len) :
    tryFindLine K F o none (some p) = .ok ⟨specSlf F o, .found p⟩ := by
  unfold tryFindLine
  simp only [ftr_ok K hH hE F hS o ho]
  have hc : (specSlf F o).off ≤ F.len ∧ 0 ≤ (specSlf F o).off ∧ (Tok.found p).off ≤ F.len ∧
      0 ≤ (Tok.found p).off ∧ (specSlf F o).off ≤ (Tok.found p).off := by
    rcases specSlf_cases F o with ⟨h1, _⟩ | ⟨q, h1, _, h3, h4, _⟩
    · rw [h1]; simp only [Tok.off]; omega
    · rw [h1]; simp only [Tok.off]; omega
  show (if _ then _ else _) = _
  rw [if_pos hc]
  rfl

theorem tfl_fwd (K : SeekK) (hH : 0 < K.H) (hE : 0 < K.EXP) (F : FileV)
    (hS : Spec.longestLine F ≤ (K.EXP - 1) * K.H) (o : Nat) (ho : o ≤ F.len) (e : Int)
    (he : 0 ≤ e ∧ e ≤ (o : Int)) :
    tryFindLine K F o (some e) none = .ok ⟨.found e, specElf F o⟩ := by
  unfold tryFindLine
  simp only [ft_ok K hH hE F hS o ho]
  have hc : (Tok.found e).off ≤ F.len ∧ 0 ≤ (Tok.found e).off ∧ (specElf F o).off ≤ F.len ∧
      0 ≤ (specElf F o).off ∧ (Tok.found e).off ≤ (specElf F o).off := by
    rcases specElf_cases F o with ⟨h1, _⟩ | ⟨j, h1, h2, h3, _⟩
    · rw [h1]; simp only [Tok.off]; omega
    · rw [h1]; simp only [Tok.off]; omega
  show (if _ then _ else _) = _
  rw [if_pos hc]
  rfl

/-! ### one step of the line walk -/

theorem twdLoop_zero (K : SeekK) (F : FileV) (ts : Nat → Option Int) (fwd : Bool)
    (off : Nat) (lfo : Option Int) : twdLoop K F ts fwd 0 off lfo = .ok none := rfl

theorem twd_back_of_line (K : SeekK) (F : FileV) (ts : Nat → Option Int)
    (fuel off : Nat) (lfo : Option Int) (l : LLine)
    (h : tryFindLine K F off none lfo = .ok l) :
    twdLoop K F ts false (fuel + 1) off lfo =
      match l.date ts with
      | some _ => .ok (some l)
      | none =>
        if l.slf.off - 1 < 0 ∨ l.slf.off - 1 > F.len then .ok none
        else twdLoop K F ts false fuel (l.slf.off - 1).toNat (some l.slf.off) := by
  rw [twdLoop]
  simp only [Bool.false_eq_true, if_false]
  rw [h]
  rfl

theorem twd_fwd_of_line (K : SeekK) (F : FileV) (ts : Nat → Option Int)
    (fuel off : Nat) (lfo : Option Int) (l : LLine)
    (h : tryFindLine K F off lfo none = .ok l) :
    twdLoop K F ts true (fuel + 1) off lfo =
      match l.date ts with
      | some _ => .ok (some l)
      | none =>
        if l.elf.off + 1 < 0 ∨ l.elf.off + 1 > F.len then .ok none
        else twdLoop K F ts true fuel (l.elf.off + 1).toNat (some l.elf.off) := by
  rw [twdLoop]
  simp only [if_true]
  rw [h]
  rfl

/-! ### the backward walk -/

def endTok (F : FileV) (o : Nat) : Option Int → Tok
  | none => specElf F o
  | some p => .found p

theorem tfl_b (K : SeekK) (hH : 0 < K.H) (hE : 0 < K.EXP) (F : FileV)
    (hS : Spec.longestLine F ≤ (K.EXP - 1) * K.H) (o : Nat) (ho : o ≤ F.len)
    (elfo : Option Int) (helf : ∀ p, elfo = some p → (o : Int) ≤ p ∧ p ≤ F.len) :
    tryFindLine K F o none elfo = .ok ⟨specSlf F o, endTok F o elfo⟩ := by
  cases elfo with
  | none => exact tfl_nn K hH hE F hS o ho
  | some p => exact tfl_back K hH hE F hS o ho p (helf p rfl)

theorem date_specSlf (F : FileV) (ts : Nat → Option Int) (o : Nat) (e : Tok) :
    (⟨specSlf F o, e⟩ : LLine).date ts = ts (Spec.lineStart F o) := by
  unfold LLine.date
  rw [specSlf_start]
  simp

theorem back_step (K : SeekK) (hH : 0 < K.H) (hE : 0 < K.EXP) (F : FileV)
    (ts : Nat → Option Int)
    (hS : Spec.longestLine F ≤ (K.EXP - 1) * K.H) (o : Nat) (ho : o ≤ F.len)
    (elfo : Option Int) (helf : ∀ p, elfo = some p → (o : Int) ≤ p ∧ p ≤ F.len) (fuel : Nat) :
    twdLoop K F ts false (fuel + 1) o elfo =
      match ts (Spec.lineStart F o) with
      | some _ => .ok (some ⟨specSlf F o, endTok F o elfo⟩)
      | none =>
        if (specSlf F o).off - 1 < 0 ∨ (specSlf F o).off - 1 > F.len then .ok none
        else twdLoop K F ts false fuel ((specSlf F o).off - 1).toNat (some (specSlf F o).off) := by
  rw [twd_back_of_line K F ts fuel o elfo _ (tfl_b K hH hE F hS o ho elfo helf), date_specSlf]

theorem ts_lf_none (F : FileV) (ts : Nat → Option Int)
    (hT : TsOk F ts) (q : Nat) (hs : IsStart F q)
    (hq : F.isLF q = true) : ts q = none := hT.1 q hs hq

/-- between the start of the line containing `q - 1` and the line feed `q` the only other
    line start is the empty line at `q`, which is undated -/
theorem und_gap_back (F : FileV) (ts : Nat → Option Int)
    (hT : TsOk F ts) (q : Nat) (hq1 : 1 ≤ q)
    (hq : F.isLF q = true) :
    Und F ts (Spec.lineStart F (q - 1) + 1) (q + 1) := by
  intro s h1 h2 hs
  obtain ⟨p1, _, p3⟩ := lineStart_props F (q - 1)
  rcases hs.2 with h0 | hlf
  · omega
  · have hsq : s = q := by
      by_cases hlt : s - 1 < q - 1
      · exact absurd ⟨by have := hs.1; omega, hlf⟩ (p3 (s - 1) (by omega) hlt)
      · omega
    subst hsq
    exact ts_lf_none F ts hT s hs hq

/-- outcome of a backward walk that starts at the line beginning at `s0` -/
def BackOut (F : FileV) (ts : Nat → Option Int) (fuel s0 : Nat) : Option LLine → Prop
  | some l => ∃ d : Nat, l.startOffset = (d : Int) ∧ IsStart F d ∧ (ts d).isSome = true ∧
      d ≤ s0 ∧ Und F ts (d + 1) (s0 + 1)
  | none => Und F ts 0 (s0 + 1) ∨ fuel ≤ U F ts (s0 + 1)

theorem back_walk (K : SeekK) (hH : 0 < K.H) (hE : 0 < K.EXP) (F : FileV)
    (ts : Nat → Option Int)
    (hS : Spec.longestLine F ≤ (K.EXP - 1) * K.H)
    (hT : TsOk F ts) :
    ∀ (fuel o : Nat) (elfo : Option Int), o < F.len →
      (∀ p, elfo = some p → (o : Int) ≤ p ∧ p ≤ F.len) →
      ∃ r, twdLoop K F ts false fuel o elfo = .ok r ∧
        BackOut F ts fuel (Spec.lineStart F o) r := by
  intro fuel
  induction fuel with
  | zero =>
    intro o elfo _ _
    exact ⟨none, rfl, Or.inr (Nat.zero_le _)⟩
  | succ fuel ih =>
    intro o elfo ho helf
    rw [back_step K hH hE F ts hS o (by omega) elfo helf fuel]
    have hst := lineStart_isStart F o ho
    cases hd : ts (Spec.lineStart F o) with
    | some d =>
      refine ⟨_, rfl, Spec.lineStart F o, specSlf_start F o _, hst, by simp [hd],
        Nat.le_refl _, ?_⟩
      intro s h1 h2; omega
    | none =>
      simp only []
      rcases specSlf_cases F o with ⟨h1, h2⟩ | ⟨q, h1, h2, h3, h4, h5⟩
      · -- start of file reached
        rw [h1]
        have : ((Tok.edge 0).off - 1 < 0 ∨ (Tok.edge 0).off - 1 > (F.len : Int)) := by
          simp only [Tok.off]; omega
        rw [if_pos this]
        refine ⟨none, rfl, Or.inl ?_⟩
        intro s hs1 hs2 _
        have : s = Spec.lineStart F o := by omega
        rw [this]; exact hd
      · rw [h1]
        by_cases hq0 : q = 0
        · subst hq0
          have : ((Tok.found ((0 : Nat) : Int)).off - 1 < 0 ∨
              (Tok.found ((0 : Nat) : Int)).off - 1 > (F.len : Int)) := by
            simp only [Tok.off]; omega
          rw [if_pos this]
          refine ⟨none, rfl, Or.inl ?_⟩
          intro s hs1 hs2 _
          by_cases hs0 : s = 0
          · subst hs0; exact ts_lf_none F ts hT 0 ⟨h4, Or.inl rfl⟩ h5
          · have : s = Spec.lineStart F o := by omega
            rw [this]; exact hd
        · have : ¬ ((Tok.found (q : Int)).off - 1 < 0 ∨
              (Tok.found (q : Int)).off - 1 > (F.len : Int)) := by
            simp only [Tok.off]; omega
          rw [if_neg this]
          have htn : ((Tok.found (q : Int)).off - 1).toNat = q - 1 := by
            simp only [Tok.off]; omega
          rw [htn]
          obtain ⟨r, hr1, hr2⟩ := ih (q - 1) (some (q : Int)) (by omega)
            (by intro p hp; cases hp; omega)
          refine ⟨r, hr1, ?_⟩
          have hgap := und_gap_back F ts hT q (by omega) h5
          have hs1 := (lineStart_props F (q - 1)).1
          cases r with
          | some l =>
            obtain ⟨d, e1, e2, e3, e4, e5⟩ := hr2
            refine ⟨d, e1, e2, e3, by omega, ?_⟩
            intro s a1 a2 a3
            by_cases c1 : s < Spec.lineStart F (q - 1) + 1
            · exact e5 s a1 c1 a3
            · by_cases c2 : s < q + 1
              · exact hgap s (by omega) c2 a3
              · have : s = Spec.lineStart F o := by omega
                rw [this]; exact hd
          | none =>
            rcases hr2 with hu | hu
            · left
              intro s a1 a2 a3
              by_cases c1 : s < Spec.lineStart F (q - 1) + 1
              · exact hu s a1 c1 a3
              · by_cases c2 : s < q + 1
                · exact hgap s (by omega) c2 a3
                · have : s = Spec.lineStart F o := by omega
                  rw [this]; exact hd
            · right
              have u1 := U_succ_start F ts (Spec.lineStart F o) hst hd
              have u2 := U_le_of_und F ts (Spec.lineStart F (q - 1) + 1) (Spec.lineStart F o)
                (by omega) (by have := hst.1; omega)
                (by rw [h2]; exact hgap)
              show fuel + 1 ≤ U F ts (Spec.lineStart F o + 1)
              omega

/-- the "check last line" lookup of `run` never raises -/
theorem back_ok_any (K : SeekK) (hH : 0 < K.H) (hE : 0 < K.EXP) (F : FileV)
    (ts : Nat → Option Int)
    (hS : Spec.longestLine F ≤ (K.EXP - 1) * K.H)
    (hT : TsOk F ts) (fuel o : Nat)
    (ho : o ≤ F.len) :
    ∃ r, twdLoop K F ts false fuel o none = .ok r := by
  cases fuel with
  | zero => exact ⟨none, rfl⟩
  | succ fuel =>
    rw [back_step K hH hE F ts hS o ho none (by intro p hp; cases hp) fuel]
    cases hd : ts (Spec.lineStart F o) with
    | some d => exact ⟨_, rfl⟩
    | none =>
      simp only []
      split
      · exact ⟨none, rfl⟩
      · rename_i hc
        rcases specSlf_cases F o with ⟨h1, _⟩ | ⟨q, h1, _, h3, h4, _⟩
        · rw [h1] at hc; simp only [Tok.off] at hc; omega
        · rw [h1] at hc ⊢
          simp only [Tok.off] at hc
          have htn : ((Tok.found (q : Int)).off - 1).toNat = q - 1 := by
            simp only [Tok.off]; omega
          rw [htn]
          obtain ⟨r, hr, _⟩ := back_walk K hH hE F ts hS hT fuel (q - 1) (some (q : Int))
            (by omega) (by intro p hp; cases hp; omega)
          exact ⟨r, hr⟩

/-! ### the forward walk -/

theorem fwd_step (K : SeekK) (hH : 0 < K.H) (hE : 0 < K.EXP) (F : FileV)
    (ts : Nat → Option Int)
    (hS : Spec.longestLine F ≤ (K.EXP - 1) * K.H) (e : Nat) (he : e < F.len) (fuel : Nat) :
    twdLoop K F ts true (fuel + 1) (e + 1) (some (e : Int)) =
      match ts (e + 1) with
      | some _ => .ok (some ⟨.found (e : Int), specElf F (e + 1)⟩)
      | none =>
        if (specElf F (e + 1)).off + 1 < 0 ∨ (specElf F (e + 1)).off + 1 > F.len then .ok none
        else twdLoop K F ts true fuel ((specElf F (e + 1)).off + 1).toNat
          (some (specElf F (e + 1)).off) := by
  rw [twd_fwd_of_line K F ts fuel (e + 1) (some (e : Int)) _
    (tfl_fwd K hH hE F hS (e + 1) (by omega) (e : Int) (by omega))]
  have : (⟨.found (e : Int), specElf F (e + 1)⟩ : LLine).date ts = ts (e + 1) := by
    unfold LLine.date LLine.startOffset
    have : ((e : Int) + 1).toNat = e + 1 := by omega
    simp only [this]
  rw [this]

/-- after an undated line starting at `e + 1` whose line feed is `e2`, no other line
    starts up to `e2` -/
theorem und_gap_fwd (F : FileV) (ts : Nat → Option Int) (e e2 : Nat)
    (hd : ts (e + 1) = none)
    (hno : ∀ j, e + 1 ≤ j → j < e2 → ¬(j < F.len ∧ F.isLF j = true)) :
    Und F ts (e + 1) (e2 + 1) := by
  intro s h1 h2 hs
  by_cases hse : s = e + 1
  · rw [hse]; exact hd
  · rcases hs.2 with h0 | hlf
    · omega
    · exact absurd ⟨by have := hs.1; omega, hlf⟩ (hno (s - 1) (by omega) (by omega))

/-- outcome of a forward walk that starts at the line beginning at `e + 1` -/
def FwdOut (F : FileV) (ts : Nat → Option Int) (fuel e : Nat) : Option LLine → Prop
  | some l => ∃ d : Nat, l.startOffset = (d : Int) ∧ l.slf = .found ((d : Int) - 1) ∧
      IsStart F d ∧ (ts d).isSome = true ∧ e + 1 ≤ d ∧ Und F ts (e + 1) d
  | none => Und F ts (e + 1) F.len ∨
      ∃ x, e + 1 ≤ x ∧ x ≤ F.len ∧ Und F ts (e + 1) x ∧ U F ts (e + 1) + fuel ≤ U F ts x

theorem fwd_walk (K : SeekK) (hH : 0 < K.H) (hE : 0 < K.EXP) (F : FileV)
    (ts : Nat → Option Int)
    (hS : Spec.longestLine F ≤ (K.EXP - 1) * K.H)
    (hT : TsOk F ts) :
    ∀ (fuel e : Nat), e < F.len → F.isLF e = true →
      ∃ r, twdLoop K F ts true fuel (e + 1) (some (e : Int)) = .ok r ∧ FwdOut F ts fuel e r := by
  intro fuel
  induction fuel with
  | zero =>
    intro e he _
    refine ⟨none, rfl, Or.inr ⟨e + 1, Nat.le_refl _, by omega, ?_, Nat.le_refl _⟩⟩
    intro s h1 h2; omega
  | succ fuel ih =>
    intro e he hlf
    rw [fwd_step K hH hE F ts hS e he fuel]
    cases hd : ts (e + 1) with
    | some d =>
      have hlt : e + 1 < F.len := by
        by_cases hc : e + 1 < F.len
        · exact hc
        · have : e + 1 = F.len := by omega
          rw [this, hT.2] at hd; cases hd
      refine ⟨_, rfl, e + 1, ?_, ?_, ⟨hlt, Or.inr (by simpa using hlf)⟩, by simp [hd],
        Nat.le_refl _, ?_⟩
      · simp only [LLine.startOffset]; omega
      · show Tok.found (e : Int) = Tok.found (((e + 1 : Nat) : Int) - 1)
        congr 1; omega
      · intro s h1 h2; omega
    | none =>
      simp only []
      rcases specElf_cases F (e + 1) with ⟨h1, h2⟩ | ⟨e2, h1, h2, h3, h4, h5⟩
      · -- last line of the file
        rw [h1]
        have : ((Tok.edge (F.len : Int)).off + 1 < 0 ∨
            (Tok.edge (F.len : Int)).off + 1 > (F.len : Int)) := by
          simp only [Tok.off]; omega
        rw [if_pos this]
        refine ⟨none, rfl, Or.inl ?_⟩
        intro s a1 a2 a3
        exact und_gap_fwd F ts e F.len hd (fun j b1 _ => h2 j b1) s a1 (by omega) a3
      · rw [h1]
        have : ¬ ((Tok.found (e2 : Int)).off + 1 < 0 ∨
            (Tok.found (e2 : Int)).off + 1 > (F.len : Int)) := by
          simp only [Tok.off]; omega
        rw [if_neg this]
        have htn : ((Tok.found (e2 : Int)).off + 1).toNat = e2 + 1 := by
          simp only [Tok.off]; omega
        rw [htn]
        obtain ⟨r, hr1, hr2⟩ := ih e2 h3 h4
        refine ⟨r, hr1, ?_⟩
        have hgap := und_gap_fwd F ts e e2 hd h5
        cases r with
        | some l =>
          obtain ⟨d, c1, c2, c3, c4, c5, c6⟩ := hr2
          refine ⟨d, c1, c2, c3, c4, by omega, ?_⟩
          intro s a1 a2 a3
          by_cases b : s < e2 + 1
          · exact hgap s a1 b a3
          · exact c6 s (by omega) a2 a3
        | none =>
          rcases hr2 with hu | ⟨x, x0, x1, x2, x3⟩
          · left
            intro s a1 a2 a3
            by_cases b : s < e2 + 1
            · exact hgap s a1 b a3
            · exact hu s (by omega) a2 a3
          · right
            have hst : IsStart F (e + 1) := ⟨by omega, Or.inr (by simpa using hlf)⟩
            have u1 := U_succ_start F ts (e + 1) hst hd
            have u2 := U_le_of_und F ts (e + 1 + 1) (e2 + 1) (by omega) (by omega)
              (fun s a1 a2 a3 => hgap s (by omega) a2 a3)
            refine ⟨x, by omega, x1, ?_, ?_⟩
            · intro s a1 a2 a3
              by_cases b : s < e2 + 1
              · exact hgap s a1 b a3
              · exact x2 s (by omega) a2 a3
            · show U F ts (e + 1) + (fuel + 1) ≤ U F ts x
              omega

/-! ### `getItem` case by case -/

/-- the forward part of `getItem` -/
def getItemTail (K : SeekK) (F : FileV) (ts : Nat → Option Int) (off : Nat) :
    Except SeekErr LLine := do
  let r ← tryFindLineWithDate K F ts (off + 1) (some off) true
  let r ← match r with
    | some l =>
      if l.slf.off = off ∧ !(off < F.len && F.isLF off) then
        match l.elf with
        | .found e => tryFindLineWithDate K F ts (e + 1).toNat (some e) true
        | .edge _ => pure none
      else pure (some l)
    | none => pure none
  match r with
  | some l => pure l
  | none => .error .tooManyUndated

theorem getItem_back_some (K : SeekK) (F : FileV) (ts : Nat → Option Int) (off : Nat)
    (l : LLine) (h : twdLoop K F ts false K.ATT off none = .ok (some l)) :
    getItem K F ts off = .ok l := by
  unfold getItem tryFindLineWithDate
  rw [h]
  rfl

theorem getItem_back_none (K : SeekK) (F : FileV) (ts : Nat → Option Int) (off : Nat)
    (h : twdLoop K F ts false K.ATT off none = .ok none) :
    getItem K F ts off = getItemTail K F ts off := by
  unfold getItem getItemTail
  unfold tryFindLineWithDate at *
  rw [h]
  rfl

theorem tail_none (K : SeekK) (F : FileV) (ts : Nat → Option Int) (off : Nat)
    (h : twdLoop K F ts true K.ATT (off + 1) (some (off : Int)) = .ok none) :
    getItemTail K F ts off = .error .tooManyUndated := by
  unfold getItemTail tryFindLineWithDate
  rw [h]
  rfl

theorem tail_keep (K : SeekK) (F : FileV) (ts : Nat → Option Int) (off : Nat) (l : LLine)
    (h : twdLoop K F ts true K.ATT (off + 1) (some (off : Int)) = .ok (some l))
    (hc : ¬ (l.slf.off = off ∧ (!(off < F.len && F.isLF off)) = true)) :
    getItemTail K F ts off = .ok l := by
  unfold getItemTail tryFindLineWithDate
  rw [h]
  simp only [bind, Except.bind]
  rw [if_neg hc]
  rfl

theorem tail_restart_edge (K : SeekK) (F : FileV) (ts : Nat → Option Int) (off : Nat)
    (l : LLine) (x : Int)
    (h : twdLoop K F ts true K.ATT (off + 1) (some (off : Int)) = .ok (some l))
    (hc : l.slf.off = off ∧ (!(off < F.len && F.isLF off)) = true)
    (he : l.elf = .edge x) :
    getItemTail K F ts off = .error .tooManyUndated := by
  unfold getItemTail tryFindLineWithDate
  rw [h]
  simp only [bind, Except.bind]
  rw [if_pos hc, he]
  rfl

def outOf : Option LLine → Except SeekErr LLine
  | some l => .ok l
  | none => .error .tooManyUndated

theorem tail_restart_found (K : SeekK) (F : FileV) (ts : Nat → Option Int) (off : Nat)
    (l : LLine) (e : Int) (r : Option LLine)
    (h : twdLoop K F ts true K.ATT (off + 1) (some (off : Int)) = .ok (some l))
    (hc : l.slf.off = off ∧ (!(off < F.len && F.isLF off)) = true)
    (he : l.elf = .found e)
    (h2 : twdLoop K F ts true K.ATT (e + 1).toNat (some e) = .ok r) :
    getItemTail K F ts off = outOf r := by
  unfold getItemTail tryFindLineWithDate
  rw [h]
  simp only [bind, Except.bind]
  rw [if_pos hc, he]
  simp only []
  rw [h2]
  cases r <;> rfl

/-! ### the governing dated line -/

/-- `d` is the start of the dated line governing offset `off`: the last dated line at or
    before the line containing `off`, else the first dated line of the file -/
def Gov (F : FileV) (ts : Nat → Option Int) (off d : Nat) : Prop :=
  IsStart F d ∧ (ts d).isSome = true ∧
    ((d ≤ Spec.lineStart F off ∧ Und F ts (d + 1) (Spec.lineStart F off + 1)) ∨
     (Spec.lineStart F off < d ∧ Und F ts 0 d))

theorem fwd_none_all (F : FileV) (ts : Nat → Option Int) (e f : Nat)
    (h0 : Und F ts 0 (e + 1))
    (hf : Spec.longestUndatedRun F ts < U F ts (e + 1) + f)
    (h : FwdOut F ts f e none) : Und F ts 0 F.len := by
  rcases h with hu | ⟨x, _, x1, _, x3⟩
  · intro s a1 a2 a3
    by_cases b : s < e + 1
    · exact h0 s a1 b a3
    · exact hu s (by omega) a2 a3
  · have := U_le_run F ts x x1
    omega

theorem fwd_some_gov (F : FileV) (ts : Nat → Option Int) (off e f : Nat) (l : LLine)
    (h0 : Und F ts 0 (e + 1)) (hL : Spec.lineStart F off ≤ e)
    (h : FwdOut F ts f e (some l)) :
    ∃ d : Nat, l.startOffset = (d : Int) ∧ Gov F ts off d ∧ l.slf = .found ((d : Int) - 1) ∧
      e + 1 ≤ d := by
  obtain ⟨d, c1, c2, c3, c4, c5, c6⟩ := h
  refine ⟨d, c1, ⟨c3, c4, Or.inr ⟨by omega, ?_⟩⟩, c2, c5⟩
  intro s a1 a2 a3
  by_cases b : s < e + 1
  · exact h0 s a1 b a3
  · exact c6 s (by omega) a2 a3

/-- extend "all undated up to the line of `off`" over positions without line feeds -/
theorem und_extend (F : FileV) (ts : Nat → Option Int) (off b : Nat)
    (h0 : Und F ts 0 (Spec.lineStart F off + 1))
    (hno : ∀ j, off ≤ j → j + 1 < b → ¬(j < F.len ∧ F.isLF j = true)) :
    Und F ts 0 b := by
  intro s a1 a2 a3
  obtain ⟨p1, _, p3⟩ := lineStart_props F off
  by_cases c : s < Spec.lineStart F off + 1
  · exact h0 s a1 c a3
  · rcases a3.2 with h | hlf
    · omega
    · have hlt : s - 1 < F.len := by have := a3.1; omega
      by_cases c2 : s - 1 < off
      · exact absurd ⟨hlt, hlf⟩ (p3 (s - 1) (by omega) c2)
      · exact absurd ⟨hlt, hlf⟩ (hno (s - 1) (by omega) (by omega))

theorem getItem_gov (K : SeekK) (hH : 0 < K.H) (hE : 0 < K.EXP) (F : FileV)
    (ts : Nat → Option Int)
    (hS : Spec.longestLine F ≤ (K.EXP - 1) * K.H)
    (hT : TsOk F ts)
    (hR : Spec.longestUndatedRun F ts + 1 ≤ K.ATT) (off : Nat) (ho : off < F.len) :
    (getItem K F ts off = .error .tooManyUndated ∧ Und F ts 0 F.len) ∨
    (∃ (l : LLine) (d : Nat), getItem K F ts off = .ok l ∧ l.startOffset = (d : Int) ∧
      Gov F ts off d) := by
  obtain ⟨r, hr1, hr2⟩ := back_walk K hH hE F ts hS hT K.ATT off none ho
    (by intro p hp; cases hp)
  have hLs := lineStart_isStart F off ho
  obtain ⟨p1, _, p3⟩ := lineStart_props F off
  cases r with
  | some l =>
    right
    obtain ⟨d, e1, e2, e3, e4, e5⟩ := hr2
    exact ⟨l, d, getItem_back_some K F ts off l hr1, e1, e2, e3, Or.inl ⟨e4, e5⟩⟩
  | none =>
    have hU0 : Und F ts 0 (Spec.lineStart F off + 1) := by
      rcases hr2 with h | h
      · exact h
      · have := U_le_run F ts (Spec.lineStart F off + 1) (by have := hLs.1; omega)
        omega
    have hUL : 1 ≤ U F ts (Spec.lineStart F off + 1) := by
      have := U_succ_start F ts _ hLs (hU0 _ (Nat.zero_le _) (by omega) hLs)
      omega
    rw [getItem_back_none K F ts off hr1]
    obtain ⟨A, hA⟩ : ∃ A, K.ATT = A + 1 := ⟨K.ATT - 1, by omega⟩
    by_cases hlf : F.isLF off = true
    · -- `off` is the line feed of its line: the forward walk starts at the next line
      have hU1 : Und F ts 0 (off + 1) :=
        und_extend F ts off (off + 1) hU0 (by intro j a b; omega)
      obtain ⟨r2, f1, f2⟩ := fwd_walk K hH hE F ts hS hT K.ATT off ho hlf
      cases r2 with
      | some l =>
        right
        obtain ⟨d, c1, c2, _, _⟩ := fwd_some_gov F ts off off K.ATT l hU1 p1 f2
        exact ⟨l, d, tail_keep K F ts off l f1 (by simp [ho, hlf]), c1, c2⟩
      | none =>
        left
        exact ⟨tail_none K F ts off f1, fwd_none_all F ts off K.ATT hU1 (by omega) f2⟩
    · -- `off` is inside its line: the first forward lookup sees the tail of that line
      have hstep := fwd_step K hH hE F ts hS off ho A
      rw [← hA] at hstep
      have hcond : ((⟨.found (off : Int), specElf F (off + 1)⟩ : LLine).slf.off = (off : Int) ∧
          (!(decide (off < F.len) && F.isLF off)) = true) := by
        refine ⟨rfl, ?_⟩
        simp [hlf]
      rcases specElf_cases F (off + 1) with ⟨g1, g2⟩ | ⟨e2, g1, g2, g3, g4, g5⟩
      · -- last line of the file
        have hUall : Und F ts 0 F.len := by
          apply und_extend F ts off F.len hU0
          intro j a b hc
          by_cases hj : j = off
          · rw [hj] at hc; exact hlf hc.2
          · exact g2 j (by omega) hc
        left
        refine ⟨?_, hUall⟩
        cases hd : ts (off + 1) with
        | some dd =>
          rw [hd] at hstep
          exact tail_restart_edge K F ts off _ _ hstep hcond g1
        | none =>
          rw [hd, g1] at hstep
          have : ((Tok.edge (F.len : Int)).off + 1 < 0 ∨
              (Tok.edge (F.len : Int)).off + 1 > (F.len : Int)) := by
            simp only [Tok.off]; omega
          simp only [] at hstep
          rw [if_pos this] at hstep
          exact tail_none K F ts off hstep
      · have hU2 : Und F ts 0 (e2 + 1) := by
          apply und_extend F ts off (e2 + 1) hU0
          intro j a b hc
          by_cases hj : j = off
          · rw [hj] at hc; exact hlf hc.2
          · exact g5 j (by omega) (by omega) hc
        have hUe : 1 ≤ U F ts (e2 + 1) := by
          have := U_le_of_und F ts (Spec.lineStart F off + 1) (e2 + 1) (by omega) (by omega)
            (fun s a1 a2 a3 => hU2 s (Nat.zero_le _) a2 a3)
          omega
        cases hd : ts (off + 1) with
        | some dd =>
          -- a "dated" tail is discarded, the walk restarts at the next line
          rw [hd] at hstep
          obtain ⟨r3, f1, f2⟩ := fwd_walk K hH hE F ts hS hT K.ATT e2 g3 g4
          have htn : ((e2 : Int) + 1).toNat = e2 + 1 := by omega
          rw [tail_restart_found K F ts off _ (e2 : Int) r3 hstep hcond g1 (by rw [htn]; exact f1)]
          cases r3 with
          | some l =>
            right
            obtain ⟨d, c1, c2, _, _⟩ := fwd_some_gov F ts off e2 K.ATT l hU2 (by omega) f2
            exact ⟨l, d, rfl, c1, c2⟩
          | none =>
            left
            exact ⟨rfl, fwd_none_all F ts e2 K.ATT hU2 (by omega) f2⟩
        | none =>
          rw [hd, g1] at hstep
          have : ¬ ((Tok.found (e2 : Int)).off + 1 < 0 ∨
              (Tok.found (e2 : Int)).off + 1 > (F.len : Int)) := by
            simp only [Tok.off]; omega
          simp only [] at hstep
          rw [if_neg this] at hstep
          have htn : ((Tok.found (e2 : Int)).off + 1).toNat = e2 + 1 := by
            simp only [Tok.off]; omega
          rw [htn] at hstep
          obtain ⟨r3, f1, f2⟩ := fwd_walk K hH hE F ts hS hT A e2 g3 g4
          have f1' : twdLoop K F ts true K.ATT (off + 1) (some (off : Int)) = .ok r3 :=
            hstep.trans f1
          cases r3 with
          | some l =>
            right
            obtain ⟨d, c1, c2, c3, c4⟩ := fwd_some_gov F ts off e2 A l hU2 (by omega) f2
            refine ⟨l, d, tail_keep K F ts off l f1' ?_, c1, c2⟩
            intro hc
            rw [c3] at hc
            simp only [Tok.off] at hc
            omega
          | none =>
            left
            exact ⟨tail_none K F ts off f1', fwd_none_all F ts e2 A hU2 (by omega) f2⟩

/-! ### properties of the governing line -/

theorem und_dated_absurd {F : FileV} {ts : Nat → Option Int} {a b d : Nat}
    (hu : Und F ts a b) (hd : IsStart F d) (hs : (ts d).isSome = true) (h1 : a ≤ d)
    (h2 : d < b) : False := by
  rw [hu d h1 h2 hd] at hs
  cases hs

/-- the governing line moves forward with the offset -/
theorem gov_mono (F : FileV) (ts : Nat → Option Int) (o1 o2 d1 d2 : Nat) (h : o1 ≤ o2)
    (g1 : Gov F ts o1 d1) (g2 : Gov F ts o2 d2) : d1 ≤ d2 := by
  have hL := lineStart_mono F o1 o2 h
  obtain ⟨a1, a2, a3⟩ := g1
  obtain ⟨b1, b2, b3⟩ := g2
  by_cases hlt : d2 < d1
  · exfalso
    rcases a3 with ⟨a3, _⟩ | ⟨_, a4⟩
    · rcases b3 with ⟨_, b4⟩ | ⟨b3, _⟩
      · exact und_dated_absurd b4 a1 a2 (by omega) (by omega)
      · omega
    · exact und_dated_absurd a4 b1 b2 (Nat.zero_le _) hlt
  · omega

theorem gov_unique (F : FileV) (ts : Nat → Option Int) (o d1 d2 : Nat)
    (g1 : Gov F ts o d1) (g2 : Gov F ts o d2) : d1 = d2 := by
  have := gov_mono F ts o o d1 d2 (Nat.le_refl _) g1 g2
  have := gov_mono F ts o o d2 d1 (Nat.le_refl _) g2 g1
  omega

/-- a dated line governs its own first byte -/
theorem gov_self (F : FileV) (ts : Nat → Option Int) (s : Nat) (hs : IsStart F s)
    (hd : (ts s).isSome = true) : Gov F ts s s := by
  refine ⟨hs, hd, Or.inl ⟨?_, ?_⟩⟩
  · rw [lineStart_self F s hs]; exact Nat.le_refl _
  · rw [lineStart_self F s hs]
    intro x a1 a2; omega

/-- the governing line of an offset before the dated line `s` is not after `s` -/
theorem gov_le_of_dated (F : FileV) (ts : Nat → Option Int) (o d s : Nat) (hos : o ≤ s)
    (hs : IsStart F s) (hd : (ts s).isSome = true) (g : Gov F ts o d) : d ≤ s :=
  gov_mono F ts o s d s hos g (gov_self F ts s hs hd)

end Sk.C04
