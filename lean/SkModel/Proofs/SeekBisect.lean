/-
  SkModel.Proofs.SeekBisect — `bisectLoop` (Python's `bisect_left` over byte offsets with
  the `line_info` / `found_any_date` side effects of `__getitem__`) finds the least offset
  whose probe date is `≥ since`, and `lineInfo` is the probe at that offset, provided every
  probe succeeds and the probe dates are non-decreasing.
-/
import SkModel.Seeker

namespace Sk.C04
open Sk

theorem bisectLoop_zero (K : SeekK) (F : FileV) (ts : Nat → Option Int) (since : Int)
    (lo hi : Nat) (st : BisSt) : bisectLoop K F ts since 0 lo hi st = .ok (lo, st) := rfl

theorem bisectLoop_succ (K : SeekK) (F : FileV) (ts : Nat → Option Int) (since : Int)
    (fuel lo hi : Nat) (st : BisSt) :
    bisectLoop K F ts since (fuel + 1) lo hi st =
      if lo < hi then
        let mid := (lo + hi) / 2
        match getItem K F ts mid with
        | .error e => .error (e, st)
        | .ok l =>
          let d := (l.date ts).getD 0
          let st' : BisSt := { foundAny := true,
                               lineInfo := if d ≥ since then some l else st.lineInfo }
          if d < since then bisectLoop K F ts since fuel (mid + 1) hi st'
          else bisectLoop K F ts since fuel lo mid st'
      else .ok (lo, st) := rfl

/-- generic `bisect_left` fact, for probes that all succeed with monotone dates -/
theorem bisectLoop_spec (K : SeekK) (F : FileV) (ts : Nat → Option Int) (since : Int)
    (n : Nat) (g : Nat → LLine) (a : Nat → Int)
    (hg : ∀ i, i < n → getItem K F ts i = .ok (g i))
    (ha : ∀ i, i < n → (g i).date ts = some (a i))
    (mono : ∀ i j, i ≤ j → j < n → a i ≤ a j) :
    ∀ (fuel lo hi : Nat) (st : BisSt), hi - lo ≤ fuel → lo ≤ hi → hi ≤ n →
      (∀ i, i < lo → a i < since) → (∀ i, hi ≤ i → i < n → since ≤ a i) →
      (hi < n → st.lineInfo = some (g hi)) → (hi = n → st.lineInfo = none) →
      ∃ r st', bisectLoop K F ts since fuel lo hi st = .ok (r, st') ∧ r ≤ n ∧
        (∀ i, i < r → a i < since) ∧ (∀ i, r ≤ i → i < n → since ≤ a i) ∧
        (r < n → st'.lineInfo = some (g r)) ∧ (r = n → st'.lineInfo = none) := by
  intro fuel
  induction fuel with
  | zero =>
    intro lo hi st hf hle hn hlo hhi hp1 hp2
    have : lo = hi := by omega
    subst this
    exact ⟨lo, st, rfl, hn, hlo, hhi, hp1, hp2⟩
  | succ fuel ih =>
    intro lo hi st hf hle hn hlo hhi hp1 hp2
    rw [bisectLoop_succ]
    by_cases h : lo < hi
    · have hmid : (lo + hi) / 2 < n := by omega
      simp only [h, if_true, hg _ hmid, ha _ hmid, Option.getD_some]
      by_cases hm : a ((lo + hi) / 2) < since
      · simp only [hm, if_true]
        have hnge : ¬ (a ((lo + hi) / 2) ≥ since) := by omega
        simp only [hnge, if_false]
        refine ih ((lo + hi) / 2 + 1) hi _ (by omega) (by omega) hn ?_ hhi hp1 hp2
        intro i hi'
        by_cases hi2 : i < lo
        · exact hlo i hi2
        · have := mono i ((lo + hi) / 2) (by omega) hmid
          omega
      · simp only [hm, if_false]
        have hge : a ((lo + hi) / 2) ≥ since := by omega
        simp only [hge, if_true]
        refine ih lo ((lo + hi) / 2) _ (by omega) (by omega) (by omega) hlo ?_ (fun _ => rfl) (by omega)
        intro i h1 h2
        have := mono ((lo + hi) / 2) i h1 h2
        omega
    · simp only [h, if_false]
      have : lo = hi := by omega
      subst this
      exact ⟨lo, st, rfl, hn, hlo, hhi, hp1, hp2⟩

/-- the call made by `seekerRun` -/
theorem bisect_run (K : SeekK) (F : FileV) (ts : Nat → Option Int) (since : Int)
    (g : Nat → LLine) (a : Nat → Int)
    (hg : ∀ i, i < F.len → getItem K F ts i = .ok (g i))
    (ha : ∀ i, i < F.len → (g i).date ts = some (a i))
    (mono : ∀ i j, i ≤ j → j < F.len → a i ≤ a j) :
    ∃ r st, bisectLoop K F ts since (F.len + 1) 0 F.len {} = .ok (r, st) ∧ r ≤ F.len ∧
      (∀ i, i < r → a i < since) ∧ (∀ i, r ≤ i → i < F.len → since ≤ a i) ∧
      (r < F.len → st.lineInfo = some (g r)) ∧ (r = F.len → st.lineInfo = none) :=
  bisectLoop_spec K F ts since F.len g a hg ha mono (F.len + 1) 0 F.len {} (by omega)
    (by omega) (Nat.le_refl _) (by intro i h; omega) (by intro i h1 h2; omega)
    (by intro h; omega) (by intro _; rfl)

/-- the first probe fails: the error escapes with the initial state -/
theorem bisect_first_error (K : SeekK) (F : FileV) (ts : Nat → Option Int) (since : Int)
    (e : SeekErr) (hlen : 0 < F.len)
    (hg : getItem K F ts ((0 + F.len) / 2) = .error e) :
    bisectLoop K F ts since (F.len + 1) 0 F.len {} = .error (e, {}) := by
  rw [bisectLoop_succ]
  simp only [hlen, if_true, hg]

end Sk.C04
