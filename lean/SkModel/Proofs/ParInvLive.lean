/-
  SkModel.Proofs.ParInvLive — absence of deadlock: in every reachable state, a worker that is
  not `done` can either move itself (lock free) or the lock holder can move.
-/
import SkModel.Proofs.ParInvSync

namespace Sk.Par
open Sk StoreInv

/-- the worker performing a step -/
def actor : PLbl → Nat
  | .local_ w => w
  | .acquire w => w
  | .readPtr w _ => w
  | .writePtr w _ => w
  | .release w => w
  | .syncStart w => w
  | .syncData w _ _ => w
  | .syncRevRead w _ _ _ => w
  | .syncRevWrite w _ _ _ => w
  | .syncDone w => w

/-- steps that make progress: everything except reads/writes of the shared reverse maps (which
    `sync` may repeat at will in the model) and re-writing an item already synced -/
def productive (s : PState) : PLbl → Prop
  | .syncRevRead _ _ _ _ => False
  | .syncRevWrite _ _ _ _ => False
  | .syncData w idx v => (idx, v) ∉ (s.ws w).synced
  | _ => True

/-- the lock holder always has a productive step -/
theorem holder_enabled {B : Nat} {s : PState} (h1 : Inv1 B s) {h : Nat} (hl : s.lock = some h) :
    ∃ l, (pstep s l).isSome = true ∧ actor l = h ∧ productive s l := by
  rcases h1.held h hl with hc | hc
  · cases hpc : (s.ws h).pc with
    | locked => exact ⟨.readPtr h s.ptr, by simp [pstep, hl, hpc], rfl, trivial⟩
    | read1 => exact ⟨.readPtr h s.ptr, by simp [pstep, hl, hpc], rfl, trivial⟩
    | read2 => exact ⟨.writePtr h ((s.ws h).r2 + s.B), by simp [pstep, hl, hpc], rfl, trivial⟩
    | wrote => exact ⟨.release h, by simp [pstep, hl, hpc], rfl, trivial⟩
    | run => rw [hpc] at hc; simp [crit] at hc
    | sync => rw [hpc] at hc; simp [crit] at hc
    | done => rw [hpc] at hc; simp [crit] at hc
  · exact ⟨.release h, by simp [pstep, hl, hc], rfl, trivial⟩

/-- with the lock free, every worker that is not `done` has a productive step -/
theorem free_enabled {B : Nat} {s : PState} (hB : 0 < B) (h1 : Inv1 B s) (h2 : Inv2 B s)
    (hl : s.lock = none) {w : Nat} (hnd : (s.ws w).pc ≠ .done) :
    ∃ l, (pstep s l).isSome = true ∧ actor l = w ∧ productive s l := by
  have hcrit : crit (s.ws w).pc = false := by
    cases hc : crit (s.ws w).pc with
    | false => rfl
    | true => have := h1.holds w hc; rw [hl] at this; cases this
  cases hpc : (s.ws w).pc with
  | locked => rw [hpc] at hcrit; simp [crit] at hcrit
  | read1 => rw [hpc] at hcrit; simp [crit] at hcrit
  | read2 => rw [hpc] at hcrit; simp [crit] at hcrit
  | wrote => rw [hpc] at hcrit; simp [crit] at hcrit
  | done => exact absurd hpc hnd
  | run =>
    cases hops : (s.ws w).ops with
    | nil => exact ⟨.syncStart w, by simp [pstep, hpc, hops], rfl, trivial⟩
    | cons op rest =>
      obtain ⟨ns, v⟩ := op
      cases hr : (s.ws w).localReady with
      | true =>
        obtain ⟨st', r, e, -⟩ := local_spec hB h1 h2 w hops hr
        exact ⟨.local_ w, by simp [pstep, hpc, hr, hops, e], rfl, trivial⟩
      | false =>
        exact ⟨.acquire w, by simp [pstep, hpc, hl, hr, hops], rfl, trivial⟩
  | sync =>
    cases hall : (s.ws w).st.data.all (fun it => (s.ws w).synced.contains it) with
    | true =>
      exact ⟨.syncDone w, by simp only [pstep, hpc, hl, hall]; simp, rfl, trivial⟩
    | false =>
      have : ∃ it, it ∈ (s.ws w).st.data ∧ it ∉ (s.ws w).synced := by
        by_cases hex : ∃ it, it ∈ (s.ws w).st.data ∧ it ∉ (s.ws w).synced
        · exact hex
        · exfalso
          have : (s.ws w).st.data.all (fun it => (s.ws w).synced.contains it) = true := by
            rw [List.all_eq_true]
            intro it hit
            have : it ∈ (s.ws w).synced := by
              apply Classical.byContradiction
              intro hn; exact hex ⟨it, hit, hn⟩
            simpa using this
          rw [hall] at this; cases this
      obtain ⟨⟨idx, v⟩, hit, hns⟩ := this
      exact ⟨.syncData w idx v, by simp [pstep, hpc, hit], rfl, hns⟩

theorem enabled {B : Nat} {s : PState} (hB : 0 < B) (h1 : Inv1 B s) (h2 : Inv2 B s)
    {w : Nat} (hnd : (s.ws w).pc ≠ .done) :
    ∃ l, (pstep s l).isSome = true ∧ actor l = s.lock.getD w ∧ productive s l := by
  cases hl : s.lock with
  | none => exact free_enabled hB h1 h2 hl hnd
  | some h => exact holder_enabled h1 hl

end Sk.Par
