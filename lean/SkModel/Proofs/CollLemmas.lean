/-
  SkModel.Proofs.CollLemmas — helper lemmas for property C14 (collection views are
  consistent).  `Coll.add1` and `groupAdd` are both instances of one generic
  "keyed append into an insertion-ordered association list" (`gAdd`); the lemmas are
  proved once for `gAdd` / `gFold` and then specialised.
-/
import SkModel.Collection

namespace Sk

/-- reachable collections: only ever built by `add` calls on batches of results -/
def Coll.Reach (c : Coll) : Prop := ∃ batches : List (List CRes), c = batches.foldl Coll.add []

end Sk

namespace Sk.Coll14

section Generic

set_option linter.unusedSectionVars false

variable {κ : Type} {α : Type} [BEq κ] [LawfulBEq κ]

/-- generic keyed append into an insertion-ordered association list of lists -/
def gAdd (g : List (κ × List α)) (k : κ) (r : α) : List (κ × List α) :=
  if g.any (fun p => p.1 == k) then g.map (fun p => if p.1 == k then (p.1, p.2 ++ [r]) else p)
  else g ++ [(k, [r])]

/-- fold of `gAdd` over a list, keyed by `key` -/
def gFold (key : α → κ) (g : List (κ × List α)) (xs : List α) : List (κ × List α) :=
  xs.foldl (fun g r => gAdd g (key r) r) g

@[simp] theorem gFold_nil (key : α → κ) (g : List (κ × List α)) : gFold key g [] = g := rfl

@[simp] theorem gFold_cons (key : α → κ) (g : List (κ × List α)) (x : α) (xs : List α) :
    gFold key g (x :: xs) = gFold key (gAdd g (key x) x) xs := rfl

theorem any_key_iff {β : Type} (g : List (κ × β)) (k : κ) :
    g.any (fun p => p.1 == k) = true ↔ k ∈ g.map (·.1) := by
  simp [List.any_eq_true]

theorem map_upd_of_not_mem {β : Type} (g : List (κ × β)) (k : κ) (f : κ × β → κ × β)
    (h : k ∉ g.map (·.1)) : g.map (fun p => if p.1 == k then f p else p) = g := by
  induction g with
  | nil => rfl
  | cons p g ih =>
    simp only [List.map_cons, List.mem_cons, not_or] at h
    have hp : (p.1 == k) = false := by
      simp only [beq_eq_false_iff_ne, ne_eq]; exact fun e => h.1 e.symm
    simp only [List.map_cons, hp, Bool.false_eq_true, if_false, ih h.2]

theorem keys_map_upd {β : Type} (g : List (κ × β)) (k : κ) (f : κ × β → β) :
    (g.map (fun p => if p.1 == k then (p.1, f p) else p)).map (·.1) = g.map (·.1) := by
  rw [List.map_map]
  apply List.map_congr_left
  intro p _
  simp only [Function.comp]
  split <;> rfl

theorem keys_gAdd (g : List (κ × List α)) (k : κ) (r : α) :
    (gAdd g k r).map (·.1) = if k ∈ g.map (·.1) then g.map (·.1) else g.map (·.1) ++ [k] := by
  unfold gAdd
  by_cases h : k ∈ g.map (·.1)
  · rw [if_pos ((any_key_iff g k).2 h), if_pos h]
    exact keys_map_upd g k (fun p => p.2 ++ [r])
  · have : ¬ (g.any (fun p => p.1 == k) = true) := fun h' => h ((any_key_iff g k).1 h')
    rw [if_neg this, if_neg h]
    simp

theorem nodup_gAdd (g : List (κ × List α)) (k : κ) (r : α) (h : (g.map (·.1)).Nodup) :
    ((gAdd g k r).map (·.1)).Nodup := by
  rw [keys_gAdd]
  split
  · exact h
  · rename_i hk
    rw [List.nodup_append]
    refine ⟨h, by simp, ?_⟩
    intro a ha b hb
    simp only [List.mem_singleton] at hb
    subst hb
    intro e; subst e; exact hk ha

theorem lookup_cons' {β : Type} (p : κ × β) (g : List (κ × β)) (k : κ) :
    (p :: g).lookup k = if k == p.1 then some p.2 else g.lookup k := by
  cases p with
  | mk a b =>
    rw [List.lookup_cons]
    cases h : (k == a) <;> simp

theorem lookup_eq_none_of_not_mem {β : Type} (g : List (κ × β)) (k : κ)
    (h : k ∉ g.map (·.1)) : g.lookup k = none := by
  induction g with
  | nil => rfl
  | cons p g ih =>
    simp only [List.map_cons, List.mem_cons, not_or] at h
    rw [lookup_cons']
    have : (k == p.1) = false := by simp only [beq_eq_false_iff_ne, ne_eq]; exact h.1
    simp only [this, Bool.false_eq_true, if_false]
    exact ih h.2

theorem mem_of_lookup {β : Type} (g : List (κ × β)) (k : κ) (v : β)
    (h : g.lookup k = some v) : (k, v) ∈ g := by
  induction g with
  | nil => simp at h
  | cons p g ih =>
    rw [lookup_cons'] at h
    by_cases hk : k = p.1
    · subst hk
      simp only [beq_self_eq_true, if_true, Option.some.injEq] at h
      subst h
      exact List.mem_cons_self
    · have : (k == p.1) = false := by simp only [beq_eq_false_iff_ne, ne_eq]; exact hk
      simp only [this, Bool.false_eq_true, if_false] at h
      exact List.mem_cons_of_mem _ (ih h)

theorem lookup_of_mem {β : Type} (g : List (κ × β)) (k : κ) (v : β)
    (hn : (g.map (·.1)).Nodup) (h : (k, v) ∈ g) : g.lookup k = some v := by
  induction g with
  | nil => simp at h
  | cons p g ih =>
    rw [lookup_cons']
    simp only [List.map_cons, List.nodup_cons] at hn
    rcases List.mem_cons.1 h with e | h'
    · subst e; simp
    · have hk : k ∈ g.map (·.1) := List.mem_map.2 ⟨(k, v), h', rfl⟩
      have : (k == p.1) = false := by
        simp only [beq_eq_false_iff_ne, ne_eq]
        intro e; subst e; exact hn.1 hk
      simp only [this, Bool.false_eq_true, if_false]
      exact ih hn.2 h'

theorem lookup_isSome_of_mem {β : Type} (g : List (κ × β)) (k : κ)
    (h : k ∈ g.map (·.1)) : ∃ v, g.lookup k = some v := by
  induction g with
  | nil => simp at h
  | cons p g ih =>
    rw [lookup_cons']
    by_cases hk : k = p.1
    · subst hk; exact ⟨p.2, by simp⟩
    · have : (k == p.1) = false := by simp only [beq_eq_false_iff_ne, ne_eq]; exact hk
      simp only [this, Bool.false_eq_true, if_false]
      simp only [List.map_cons, List.mem_cons] at h
      rcases h with e | h
      · exact absurd e hk
      · exact ih h

theorem lookup_map_upd (g : List (κ × List α)) (k k' : κ) (f : List α → List α) :
    (g.map (fun p => if p.1 == k then (p.1, f p.2) else p)).lookup k'
      = if k' == k then (g.lookup k).map f else g.lookup k' := by
  induction g with
  | nil => simp
  | cons p g ih =>
    rw [List.map_cons, lookup_cons', ih, lookup_cons', lookup_cons']
    by_cases h1 : p.1 = k
    · subst h1
      by_cases h2 : k' = p.1
      · subst h2; simp
      · have : (k' == p.1) = false := by simp only [beq_eq_false_iff_ne, ne_eq]; exact h2
        simp [this]
    · have hpk : (p.1 == k) = false := by simp only [beq_eq_false_iff_ne, ne_eq]; exact h1
      have hkp : (k == p.1) = false := by
        simp only [beq_eq_false_iff_ne, ne_eq]; exact fun e => h1 e.symm
      simp only [hpk, Bool.false_eq_true, if_false]
      by_cases h2 : k' = k
      · subst h2; simp [hkp]
      · simp [h2]

theorem lookup_gAdd (g : List (κ × List α)) (k k' : κ) (r : α) :
    (gAdd g k r).lookup k'
      = if k' == k then some ((g.lookup k).getD [] ++ [r]) else g.lookup k' := by
  unfold gAdd
  by_cases h : k ∈ g.map (·.1)
  · rw [if_pos ((any_key_iff g k).2 h)]
    rw [lookup_map_upd g k k' (fun l => l ++ [r])]
    obtain ⟨v, hv⟩ := lookup_isSome_of_mem g k h
    simp [hv]
  · have : ¬ (g.any (fun p => p.1 == k) = true) := fun h' => h ((any_key_iff g k).1 h')
    rw [if_neg this, List.lookup_append, lookup_eq_none_of_not_mem g k h]
    by_cases h2 : k' = k
    · subst h2
      simp [lookup_eq_none_of_not_mem g k' h, lookup_cons']
    · have : (k' == k) = false := by simp only [beq_eq_false_iff_ne, ne_eq]; exact h2
      simp [lookup_cons', this]

theorem lookup_gFold (key : α → κ) (g : List (κ × List α)) (xs : List α) (k : κ) :
    ((gFold key g xs).lookup k).getD []
      = (g.lookup k).getD [] ++ xs.filter (fun r => key r == k) := by
  induction xs generalizing g with
  | nil => simp
  | cons x xs ih =>
    rw [gFold_cons, ih, lookup_gAdd]
    by_cases h : key x = k
    · subst h; simp
    · have h' : ¬ k = key x := fun e => h e.symm
      have : (key x == k) = false := by simp only [beq_eq_false_iff_ne, ne_eq]; exact h
      simp [h', this]

theorem mem_keys_gAdd (g : List (κ × List α)) (k k' : κ) (r : α) :
    k' ∈ (gAdd g k r).map (·.1) ↔ k' ∈ g.map (·.1) ∨ k' = k := by
  rw [keys_gAdd]
  split
  · rename_i h
    constructor
    · exact Or.inl
    · rintro (h' | h')
      · exact h'
      · subst h'; exact h
  · simp

theorem mem_keys_gFold (key : α → κ) (g : List (κ × List α)) (xs : List α) (k : κ) :
    k ∈ (gFold key g xs).map (·.1) ↔ k ∈ g.map (·.1) ∨ ∃ x ∈ xs, key x = k := by
  induction xs generalizing g with
  | nil => simp
  | cons x xs ih =>
    rw [gFold_cons, ih, mem_keys_gAdd]
    simp only [List.mem_cons, exists_eq_or_imp]
    constructor
    · rintro ((h | h) | h)
      · exact Or.inl h
      · exact Or.inr (Or.inl h.symm)
      · exact Or.inr (Or.inr h)
    · rintro (h | h | h)
      · exact Or.inl (Or.inl h)
      · exact Or.inl (Or.inr h.symm)
      · exact Or.inr h

theorem nodup_gFold (key : α → κ) (g : List (κ × List α)) (xs : List α)
    (h : (g.map (·.1)).Nodup) : ((gFold key g xs).map (·.1)).Nodup := by
  induction xs generalizing g with
  | nil => exact h
  | cons x xs ih => exact ih _ (nodup_gAdd g (key x) x h)

theorem nonempty_gAdd (g : List (κ × List α)) (k : κ) (r : α)
    (h : ∀ p ∈ g, p.2 ≠ []) : ∀ p ∈ gAdd g k r, p.2 ≠ [] := by
  unfold gAdd
  split
  · intro p hp
    obtain ⟨q, hq, rfl⟩ := List.mem_map.1 hp
    split
    · simp
    · exact h q hq
  · intro p hp
    rcases List.mem_append.1 hp with hp | hp
    · exact h p hp
    · simp only [List.mem_singleton] at hp
      subst hp; simp

theorem nonempty_gFold (key : α → κ) (g : List (κ × List α)) (xs : List α)
    (h : ∀ p ∈ g, p.2 ≠ []) : ∀ p ∈ gFold key g xs, p.2 ≠ [] := by
  induction xs generalizing g with
  | nil => exact h
  | cons x xs ih => exact ih _ (nonempty_gAdd g (key x) x h)

/-- every entry of `gAdd` holds elements whose key is the entry's key, if `g` does -/
theorem keyed_gAdd (key : α → κ) (g : List (κ × List α)) (r : α)
    (h : ∀ p ∈ g, ∀ x ∈ p.2, key x = p.1) : ∀ p ∈ gAdd g (key r) r, ∀ x ∈ p.2, key x = p.1 := by
  unfold gAdd
  split
  · intro p hp
    obtain ⟨q, hq, rfl⟩ := List.mem_map.1 hp
    split
    · rename_i hk
      intro x hx
      rcases List.mem_append.1 hx with hx | hx
      · exact h q hq x hx
      · simp only [List.mem_singleton] at hx
        subst hx
        exact (eq_of_beq hk).symm
    · exact h q hq
  · intro p hp
    rcases List.mem_append.1 hp with hp | hp
    · exact h p hp
    · simp only [List.mem_singleton] at hp
      subst hp
      intro x hx
      simp only [List.mem_singleton] at hx
      subst hx; rfl

theorem keyed_gFold (key : α → κ) (g : List (κ × List α)) (xs : List α)
    (h : ∀ p ∈ g, ∀ x ∈ p.2, key x = p.1) : ∀ p ∈ gFold key g xs, ∀ x ∈ p.2, key x = p.1 := by
  induction xs generalizing g with
  | nil => exact h
  | cons x xs ih => exact ih _ (keyed_gAdd key g x h)

theorem perm_gAdd (g : List (κ × List α)) (k : κ) (r : α) (hn : (g.map (·.1)).Nodup) :
    ((gAdd g k r).flatMap (·.2)).Perm (g.flatMap (·.2) ++ [r]) := by
  unfold gAdd
  by_cases h : k ∈ g.map (·.1)
  · rw [if_pos ((any_key_iff g k).2 h)]
    induction g with
    | nil => simp at h
    | cons p g ih =>
      simp only [List.map_cons, List.nodup_cons] at hn
      by_cases hp : p.1 = k
      · subst hp
        rw [List.map_cons, map_upd_of_not_mem g p.1 _ hn.1]
        simp only [beq_self_eq_true, if_true, List.flatMap_cons, List.append_assoc]
        exact List.Perm.append_left _ List.perm_append_comm
      · have hpk : (p.1 == k) = false := by simp only [beq_eq_false_iff_ne, ne_eq]; exact hp
        simp only [List.map_cons, List.mem_cons] at h
        have hk : k ∈ g.map (·.1) := by
          rcases h with e | h
          · exact absurd e.symm hp
          · exact h
        simp only [List.map_cons, hpk, Bool.false_eq_true, if_false, List.flatMap_cons,
          List.append_assoc]
        exact List.Perm.append_left _ (ih hn.2 hk)
  · have : ¬ (g.any (fun p => p.1 == k) = true) := fun h' => h ((any_key_iff g k).1 h')
    rw [if_neg this]
    simp

theorem perm_gFold (key : α → κ) (g : List (κ × List α)) (xs : List α)
    (hn : (g.map (·.1)).Nodup) :
    ((gFold key g xs).flatMap (·.2)).Perm (g.flatMap (·.2) ++ xs) := by
  induction xs generalizing g with
  | nil => simp
  | cons x xs ih =>
    rw [gFold_cons]
    refine (ih _ (nodup_gAdd g (key x) x hn)).trans ?_
    refine ((perm_gAdd g (key x) x hn).append_right xs).trans ?_
    simp

/-- entries of a fold from the empty list are exactly the key classes of `xs` -/
theorem entry_gFold (key : α → κ) (xs : List α) (k : κ) (rs : List α)
    (h : (k, rs) ∈ gFold key [] xs) :
    rs = xs.filter (fun r => key r == k) ∧ rs ≠ [] := by
  have hn : ((gFold key ([] : List (κ × List α)) xs).map (·.1)).Nodup :=
    nodup_gFold key [] xs (by simp)
  have hl := lookup_of_mem _ k rs hn h
  have := lookup_gFold key [] xs k
  rw [hl] at this
  refine ⟨by simpa using this, ?_⟩
  exact nonempty_gFold key [] xs (by simp) (k, rs) h

/-- disjoint predicates split a filter -/
theorem filter_or_perm (l : List α) (p q : α → Bool) (h : ∀ x ∈ l, p x = true → q x = false) :
    (l.filter (fun x => p x || q x)).Perm (l.filter p ++ l.filter q) := by
  induction l with
  | nil => simp
  | cons a l ih =>
    have ih' := ih (fun x hx => h x (List.mem_cons_of_mem _ hx))
    cases hp : p a
    · cases hq : q a
      · simpa [List.filter_cons, hp, hq] using ih'
      · simp only [List.filter_cons, hp, hq, Bool.or_true, if_true, Bool.false_eq_true, if_false]
        exact (List.Perm.cons a ih').trans List.perm_middle.symm
    · have hq := h a List.mem_cons_self hp
      simp only [List.filter_cons, hp, hq, Bool.or_false, if_true, Bool.false_eq_true, if_false,
        List.cons_append]
      exact List.Perm.cons a ih'

theorem perm_flatMap_left {β : Type} (l : List β) (f g : β → List α)
    (h : ∀ a ∈ l, (f a).Perm (g a)) : (l.flatMap f).Perm (l.flatMap g) := by
  induction l with
  | nil => simp
  | cons a l ih =>
    simp only [List.flatMap_cons]
    exact (h a List.mem_cons_self).append (ih (fun b hb => h b (List.mem_cons_of_mem _ hb)))

theorem flatMap_congr_mem {β : Type} (l : List β) (f g : β → List α)
    (h : ∀ a ∈ l, f a = g a) : l.flatMap f = l.flatMap g := by
  induction l with
  | nil => rfl
  | cons a l ih =>
    simp only [List.flatMap_cons]
    rw [h a List.mem_cons_self, ih (fun b hb => h b (List.mem_cons_of_mem _ hb))]

end Generic

/-! ### `dictUpdate` -/

abbrev Secs := List (Option Nat × List CRes)

/-- one step of `dict.update` -/
def dStep (acc : Secs) (kv : Option Nat × List CRes) : Secs :=
  if acc.any (fun p => p.1 == kv.1) then acc.map (fun p => if p.1 == kv.1 then kv else p)
  else acc ++ [kv]

theorem dictUpdate_nil (a : Secs) : dictUpdate a [] = a := rfl

theorem dictUpdate_cons (a : Secs) (kv : Option Nat × List CRes) (b : Secs) :
    dictUpdate a (kv :: b) = dictUpdate (dStep a kv) b := rfl

theorem keys_dStep (acc : Secs) (kv : Option Nat × List CRes) :
    (dStep acc kv).map (·.1)
      = if kv.1 ∈ acc.map (·.1) then acc.map (·.1) else acc.map (·.1) ++ [kv.1] := by
  unfold dStep
  by_cases h : kv.1 ∈ acc.map (·.1)
  · rw [if_pos ((any_key_iff acc kv.1).2 h), if_pos h, List.map_map]
    apply List.map_congr_left
    intro p _
    simp only [Function.comp]
    split
    · rename_i hk; exact (eq_of_beq hk).symm
    · rfl
  · have : ¬ (acc.any (fun p => p.1 == kv.1) = true) := fun h' => h ((any_key_iff acc kv.1).1 h')
    rw [if_neg this, if_neg h]
    simp

theorem nodup_dStep (acc : Secs) (kv : Option Nat × List CRes) (h : (acc.map (·.1)).Nodup) :
    ((dStep acc kv).map (·.1)).Nodup := by
  rw [keys_dStep]
  split
  · exact h
  · rename_i hk
    rw [List.nodup_append]
    refine ⟨h, by simp, ?_⟩
    intro a ha b hb
    simp only [List.mem_singleton] at hb
    subst hb
    intro e; subst e; exact hk ha

/-- `dict.update` keeps the keys pairwise distinct (unconditionally) -/
theorem nodup_dictUpdate (a b : Secs) (h : (a.map (·.1)).Nodup) :
    ((dictUpdate a b).map (·.1)).Nodup := by
  induction b generalizing a with
  | nil => exact h
  | cons kv b ih => rw [dictUpdate_cons]; exact ih _ (nodup_dStep a kv h)

/-- with fresh, distinct keys `dict.update` is plain concatenation -/
theorem dictUpdate_disjoint (a b : Secs) (hb : (b.map (·.1)).Nodup)
    (hd : ∀ k ∈ b.map (·.1), k ∉ a.map (·.1)) : dictUpdate a b = a ++ b := by
  induction b generalizing a with
  | nil => simp [dictUpdate_nil]
  | cons kv b ih =>
    simp only [List.map_cons, List.nodup_cons] at hb
    have hkv : kv.1 ∉ a.map (·.1) := hd kv.1 (by simp)
    have hs : dStep a kv = a ++ [kv] := by
      unfold dStep
      have : ¬ (a.any (fun p => p.1 == kv.1) = true) := fun h' => hkv ((any_key_iff a kv.1).1 h')
      rw [if_neg this]
    rw [dictUpdate_cons, hs, ih (a ++ [kv]) hb.2]
    · simp
    · intro k hk
      rw [List.map_append, List.mem_append, not_or]
      refine ⟨hd k (by simp [hk]), ?_⟩
      simp only [List.map_cons, List.map_nil, List.mem_singleton]
      intro e; subst e; exact hb.1 hk

theorem foldl_dictUpdate_disjoint (S : Nat → Secs) (ids : List Nat) (acc : Secs)
    (hS : ∀ id, ((S id).map (·.1)).Nodup)
    (hdisj : ∀ i j, i ≠ j → ∀ k, k ∈ (S i).map (·.1) → k ∉ (S j).map (·.1))
    (hacc : ∀ id ∈ ids, ∀ k ∈ (S id).map (·.1), k ∉ acc.map (·.1))
    (hn : ids.Nodup) :
    ids.foldl (fun acc id => dictUpdate acc (S id)) acc = acc ++ ids.flatMap S := by
  induction ids generalizing acc with
  | nil => simp
  | cons i is ih =>
    simp only [List.nodup_cons] at hn
    rw [List.foldl_cons, dictUpdate_disjoint acc (S i) (hS i) (hacc i List.mem_cons_self),
      ih (acc ++ S i) _ hn.2]
    · simp
    · intro id hid k hk
      rw [List.map_append, List.mem_append, not_or]
      refine ⟨hacc id (List.mem_cons_of_mem _ hid) k hk, ?_⟩
      have hne : id ≠ i := by intro e; subst e; exact hn.1 hid
      exact hdisj id i hne k hk

/-! ### the collection -/

theorem add1_eq (c : Coll) (r : CRes) : c.add1 r = gAdd c r.src r := rfl

theorem groupAdd_eq (g : Secs) (k : Option Nat) (r : CRes) : groupAdd g k r = gAdd g k r := rfl

theorem add_eq (c : Coll) (rs : List CRes) : c.add rs = gFold (·.src) c rs := rfl

theorem foldl_add_eq (batches : List (List CRes)) (c : Coll) :
    batches.foldl Coll.add c = gFold (·.src) c batches.flatten := by
  induction batches generalizing c with
  | nil => rfl
  | cons b bs ih =>
    rw [List.foldl_cons, ih, add_eq, List.flatten_cons]
    unfold gFold
    rw [List.foldl_append]

theorem findSeqSections_eq (c : Coll) (id : Nat) (path : Option Nat) :
    c.findSeqSections id path
      = gFold (·.sec) [] ((c.allSeq path).filter (fun r => r.seqId == some id)) := rfl

/-- invariant of reachable collections -/
structure Inv (c : Coll) : Prop where
  nodup : (c.map (·.1)).Nodup
  src : ∀ p ∈ c, ∀ r ∈ p.2, r.src = p.1
  nonempty : ∀ p ∈ c, p.2 ≠ []

theorem inv_of_reach (c : Coll) (hc : c.Reach) : Inv c := by
  obtain ⟨batches, rfl⟩ := hc
  rw [foldl_add_eq]
  exact ⟨nodup_gFold _ [] _ (by simp), keyed_gFold _ [] _ (by simp),
    nonempty_gFold _ [] _ (by simp)⟩

theorem reach_add1 (c : Coll) (hc : c.Reach) (r : CRes) : (c.add1 r).Reach := by
  obtain ⟨batches, rfl⟩ := hc
  exact ⟨batches ++ [[r]], by rw [List.foldl_append]; rfl⟩

theorem reach_add (c : Coll) (hc : c.Reach) (rs : List CRes) : (c.add rs).Reach := by
  obtain ⟨batches, rfl⟩ := hc
  exact ⟨batches ++ [rs], by rw [List.foldl_append]; rfl⟩

theorem findByPath_add1 (c : Coll) (r : CRes) (p : Nat) :
    (c.add1 r).findByPath p = if p = r.src then c.findByPath p ++ [r] else c.findByPath p := by
  unfold Coll.findByPath
  rw [add1_eq, lookup_gAdd]
  by_cases h : p = r.src
  · subst h; simp
  · have : (p == r.src) = false := by simp only [beq_eq_false_iff_ne, ne_eq]; exact h
    simp [h]

theorem all_add1_perm (c : Coll) (hn : (c.map (·.1)).Nodup) (r : CRes) :
    ((c.add1 r).all).Perm (c.all ++ [r]) := perm_gAdd c r.src r hn

theorem findByPath_of_mem (c : Coll) (hn : (c.map (·.1)).Nodup) (p : Nat × List CRes)
    (hp : p ∈ c) : c.findByPath p.1 = p.2 := by
  unfold Coll.findByPath
  rw [lookup_of_mem c p.1 p.2 hn hp]; rfl

theorem findByPath_unknown (c : Coll) (p : Nat) (h : p ∉ c.files) : c.findByPath p = [] := by
  unfold Coll.findByPath
  rw [lookup_eq_none_of_not_mem c p h]; rfl

theorem lookup_of_mem_files (c : Coll) (p : Nat) (h : p ∈ c.files) :
    c.lookup p = some (c.findByPath p) := by
  obtain ⟨v, hv⟩ := lookup_isSome_of_mem c p h
  unfold Coll.findByPath
  rw [hv]; rfl

theorem files_flatMap {β : Type} (c : Coll) (hn : (c.map (·.1)).Nodup)
    (f : List CRes → List β) :
    c.files.flatMap (fun p => f (c.findByPath p)) = c.flatMap (fun e => f e.2) := by
  unfold Coll.files
  rw [List.flatMap_map]
  apply flatMap_congr_mem
  intro e he
  rw [findByPath_of_mem c hn e he]

theorem mem_all_of_mem_findByPath (c : Coll) (p : Nat) (r : CRes)
    (h : r ∈ c.findByPath p) : r ∈ c.all := by
  unfold Coll.findByPath at h
  cases hl : c.lookup p with
  | none => rw [hl] at h; simp at h
  | some v =>
    rw [hl] at h
    have := mem_of_lookup c p v hl
    unfold Coll.all
    exact List.mem_flatMap.2 ⟨(p, v), this, h⟩

theorem mem_allSeq (c : Coll) (path : Option Nat) (r : CRes) (h : r ∈ c.allSeq path) :
    r ∈ c.all ∧ r.seqId.isSome = true := by
  unfold Coll.allSeq at h
  obtain ⟨p, _, hr⟩ := List.mem_flatMap.1 h
  rw [List.mem_filter] at hr
  exact ⟨mem_all_of_mem_findByPath c p r hr.1, hr.2⟩

/-- what an entry of `find_sequence_sections` looks like -/
theorem sec_entry (c : Coll) (id : Nat) (path : Option Nat) (k : Option Nat) (rs : List CRes)
    (h : (k, rs) ∈ c.findSeqSections id path) :
    rs = ((c.allSeq path).filter (fun r => r.seqId == some id)).filter (fun r => r.sec == k)
      ∧ rs ≠ [] ∧ ∀ r ∈ rs, r ∈ c.all ∧ r.seqId = some id ∧ r.sec = k := by
  rw [findSeqSections_eq] at h
  obtain ⟨h1, h2⟩ := entry_gFold (·.sec) _ k rs h
  refine ⟨h1, h2, ?_⟩
  intro r hr
  rw [h1, List.mem_filter, List.mem_filter] at hr
  obtain ⟨⟨ha, hi⟩, hk⟩ := hr
  exact ⟨(mem_allSeq c path r ha).1, eq_of_beq hi, eq_of_beq hk⟩

theorem sec_keys_nodup (c : Coll) (id : Nat) (path : Option Nat) :
    ((c.findSeqSections id path).map (·.1)).Nodup := by
  rw [findSeqSections_eq]
  exact nodup_gFold _ [] _ (by simp)

/-- under section-id uniqueness, different definitions never share a section key -/
theorem sections_disj (c : Coll) (path : Option Nat)
    (hsec : ∀ r1 ∈ c.all, ∀ r2 ∈ c.all, r1.seqId.isSome → r2.seqId.isSome →
      r1.sec = r2.sec → r1.src = r2.src ∧ r1.seqId = r2.seqId)
    (i j : Nat) (hij : i ≠ j) (k : Option Nat)
    (hi : k ∈ (c.findSeqSections i path).map (·.1)) :
    k ∉ (c.findSeqSections j path).map (·.1) := by
  intro hj
  obtain ⟨⟨k1, rs1⟩, hm1, e1⟩ := List.mem_map.1 hi
  obtain ⟨⟨k2, rs2⟩, hm2, e2⟩ := List.mem_map.1 hj
  simp only at e1 e2
  rw [e1] at hm1; rw [e2] at hm2
  obtain ⟨_, hne1, hall1⟩ := sec_entry c i path k rs1 hm1
  obtain ⟨_, hne2, hall2⟩ := sec_entry c j path k rs2 hm2
  obtain ⟨r1, hr1⟩ := List.exists_mem_of_ne_nil rs1 hne1
  obtain ⟨r2, hr2⟩ := List.exists_mem_of_ne_nil rs2 hne2
  obtain ⟨a1, s1, c1⟩ := hall1 r1 hr1
  obtain ⟨a2, s2, c2⟩ := hall2 r2 hr2
  have := (hsec r1 a1 r2 a2 (by rw [s1]; rfl) (by rw [s2]; rfl) (by rw [c1, c2])).2
  rw [s1, s2] at this
  exact hij (Option.some.inj this)

theorem perm_filter_any (A : List CRes) (ids : List Nat) (hn : ids.Nodup) :
    (ids.flatMap (fun id => A.filter (fun r => r.seqId == some id))).Perm
      (A.filter (fun r => ids.any (fun id => r.seqId == some id))) := by
  induction ids with
  | nil => simp
  | cons i is ih =>
    simp only [List.nodup_cons] at hn
    simp only [List.flatMap_cons, List.any_cons]
    refine (List.Perm.append_left _ (ih hn.2)).trans ?_
    refine (filter_or_perm A (fun r => r.seqId == some i)
      (fun r => is.any (fun id => r.seqId == some id)) ?_).symm
    intro r _ hr
    have hr' : r.seqId = some i := eq_of_beq hr
    cases hany : is.any (fun id => r.seqId == some id)
    · rfl
    · obtain ⟨id, hid, he⟩ := List.any_eq_true.1 hany
      have : r.seqId = some id := eq_of_beq he
      rw [hr'] at this
      have : i = id := Option.some.inj this
      subst this
      exact absurd hid hn.1

/-- under section-id uniqueness `find_sequence_by_tag` is the concatenation of the
per-definition section dicts: `dict.update` never replaces anything -/
theorem findSeqByTag_concat (c : Coll) (ids : List Nat) (path : Option Nat)
    (hsec : ∀ r1 ∈ c.all, ∀ r2 ∈ c.all, r1.seqId.isSome → r2.seqId.isSome →
      r1.sec = r2.sec → r1.src = r2.src ∧ r1.seqId = r2.seqId)
    (hids : ids.Nodup) :
    c.findSeqByTag ids path = ids.flatMap (fun id => c.findSeqSections id path) := by
  unfold Coll.findSeqByTag
  rw [foldl_dictUpdate_disjoint (fun id => c.findSeqSections id path) ids []
    (fun id => sec_keys_nodup c id path) (sections_disj c path hsec) (by simp) hids]
  simp

theorem findSeqByTag_keys_nodup (c : Coll) (ids : List Nat) (path : Option Nat) :
    ((c.findSeqByTag ids path).map (·.1)).Nodup := by
  unfold Coll.findSeqByTag
  suffices h : ∀ acc : Secs, (acc.map (·.1)).Nodup →
      ((ids.foldl (fun acc id => dictUpdate acc (c.findSeqSections id path)) acc).map
        (·.1)).Nodup from h [] (by simp)
  induction ids with
  | nil => intro acc h; exact h
  | cons i is ih => intro acc h; exact ih _ (nodup_dictUpdate acc _ h)

end Sk.Coll14
