/-
  SkModel.Fault — transition system for a multi-process run in which a search task
  raises or a worker process dies (search.py `_run_mp`, task.py `execute`,
  results_store.py lock users), at the granularity that matters for "no hang, no
  leftovers, next run works":

  * workers move through the points of their life; the module-level results-store lock
    is taken inside index allocation (`preallocate`) and inside `sync()`;
  * the info thread of the calling process periodically takes the same lock;
  * `crash w`: the worker dies wherever it is - a lock it holds stays held for ever;
    the pool is broken and the executor terminates every other worker, wherever it is
    (`killAll`), so their locks are orphaned too;
  * `raise w`: a Python exception in the task: `with` blocks release the lock, the worker
    survives and goes on; the main thread re-raises at `future.result()`;
  * the main thread: waits for the futures; on a broken pool (all workers reaped) it
    takes-or-reclaims the store lock (`mainAcquire` / `mainReclaim` after the timeout,
    `mainRelease`), joins the results thread and the info thread, tears down executor and
    manager, and raises; on a task exception the executor's shutdown first waits for the
    remaining tasks.
  Assumption recorded in the model: the info thread holds the lock only briefly, so the
  5 s timeout of the reclaim expires only when the holder is a dead worker.
-/
import SkModel.Basic

namespace Sk

inductive FWPc
  | idle            -- not yet started on its (next) task
  | running         -- searching: before / between allocations, handing over batches
  | wantAlloc       -- blocked on the lock in preallocate
  | inAlloc         -- holds the lock inside preallocate
  | wantSync        -- blocked on the lock in sync()
  | inSync          -- holds the lock inside sync()
  | done            -- all its tasks finished
  | dead            -- process gone
deriving Repr, DecidableEq, Inhabited

inductive FOwner
  | worker (w : Nat)
  | info
  | main
deriving Repr, DecidableEq, Inhabited

inductive FInfo
  | idle | waiting | holding | stopped
deriving Repr, DecidableEq, Inhabited

inductive FMain
  | waiting         -- in as_completed()
  | shutdownWait    -- a task raised: executor shutdown waits for the other tasks
  | reclaim         -- broken pool: about to take the store lock
  | holdsLock       -- took (or reclaimed) the lock, about to release it
  | joinResults     -- results_thread.stop()
  | joinInfo        -- info_thread.stop()
  | teardown        -- executor / manager shutdown
  | raised          -- run() has raised FileSearchException / the task's exception
  | returned        -- run() returned normally
deriving Repr, DecidableEq, Inhabited

structure FState where
  n : Nat                               -- number of workers
  ws : Nat → FWPc
  lock : Option FOwner := none
  info : FInfo := .idle
  main : FMain := .waiting
  broken : Bool := false                -- BrokenProcessPool
  failed : Bool := false                -- some task raised
  resultsJoined : Bool := false

inductive FLbl
  | start (w : Nat)
  | wantAlloc (w : Nat) | acqAlloc (w : Nat) | relAlloc (w : Nat)
  | wantSync (w : Nat) | acqSync (w : Nat) | relSync (w : Nat)     -- relSync: task done
  | crash (w : Nat)
  | killAll
  | raise_ (w : Nat)
  | infoWant | infoAcq | infoRel
  | mainSeesFailure | mainSeesBroken | mainAllDone
  | mainAcquire | mainReclaim | mainRelease
  | joinResults | joinInfo | teardown
deriving Repr, DecidableEq, Inhabited

def updF (f : Nat → FWPc) (w : Nat) (v : FWPc) : Nat → FWPc := fun x => if x = w then v else f x

def FWPc.alive : FWPc → Bool
  | .dead => false
  | _ => true

/-- every worker is finished or gone -/
def FState.quiet (s : FState) : Bool :=
  (List.range s.n).all fun w => s.ws w == .done || s.ws w == .dead

def FState.allDead (s : FState) : Bool :=
  (List.range s.n).all fun w => s.ws w == .dead

def FState.allDone (s : FState) : Bool :=
  (List.range s.n).all fun w => s.ws w == .done

def fstep (s : FState) : FLbl → Option FState
  | .start w => if w < s.n ∧ s.ws w = .idle then some { s with ws := updF s.ws w .running } else none
  | .wantAlloc w => if w < s.n ∧ s.ws w = .running then some { s with ws := updF s.ws w .wantAlloc } else none
  | .acqAlloc w =>
    if w < s.n ∧ s.ws w = .wantAlloc ∧ s.lock = none then
      some { s with ws := updF s.ws w .inAlloc, lock := some (.worker w) } else none
  | .relAlloc w =>
    if w < s.n ∧ s.ws w = .inAlloc then some { s with ws := updF s.ws w .running, lock := none } else none
  | .wantSync w => if w < s.n ∧ s.ws w = .running then some { s with ws := updF s.ws w .wantSync } else none
  | .acqSync w =>
    if w < s.n ∧ s.ws w = .wantSync ∧ s.lock = none then
      some { s with ws := updF s.ws w .inSync, lock := some (.worker w) } else none
  | .relSync w =>
    if w < s.n ∧ s.ws w = .inSync then some { s with ws := updF s.ws w .done, lock := none } else none
  | .crash w =>
    if w < s.n ∧ (s.ws w).alive ∧ s.ws w ≠ .done ∧ s.main = .waiting then
      some { s with ws := updF s.ws w .dead, broken := true } else none
  | .killAll =>
    if s.broken then some { s with ws := fun w => if w < s.n then .dead else s.ws w } else none
  | .raise_ w =>
    -- a Python exception: `with` releases the lock, the task fails, the worker goes on
    if w < s.n ∧ (s.ws w = .running ∨ s.ws w = .inAlloc ∨ s.ws w = .inSync) ∧ !s.broken then
      some { s with ws := updF s.ws w .done, failed := true,
                    lock := if s.lock = some (.worker w) then none else s.lock } else none
  | .infoWant => if s.info = .idle then some { s with info := .waiting } else none
  | .infoAcq =>
    if s.info = .waiting ∧ s.lock = none then some { s with info := .holding, lock := some .info } else none
  | .infoRel => if s.info = .holding then some { s with info := .idle, lock := none } else none
  | .mainSeesFailure =>
    if s.main = .waiting ∧ s.failed ∧ !s.broken then some { s with main := .shutdownWait } else none
  | .mainSeesBroken =>
    -- BrokenProcessPool surfaces; leaving the executor block reaps every worker
    if (s.main = .waiting ∨ s.main = .shutdownWait) ∧ s.broken ∧ s.allDead then
      some { s with main := .reclaim } else none
  | .mainAllDone =>
    if s.main = .waiting ∧ !s.failed ∧ !s.broken ∧ s.allDone then some { s with main := .joinResults }
    else if s.main = .shutdownWait ∧ !s.broken ∧ s.quiet then some { s with main := .joinResults }
    else none
  | .mainAcquire =>
    if s.main = .reclaim ∧ s.lock = none then some { s with main := .holdsLock, lock := some .main } else none
  | .mainReclaim =>
    -- the 5 s timeout expired: the holder is a dead worker; release its lock
    match s.lock with
    | some (.worker w) =>
      if s.main = .reclaim ∧ s.ws w = .dead then some { s with main := .joinResults, lock := none } else none
    | _ => none
  | .mainRelease => if s.main = .holdsLock then some { s with main := .joinResults, lock := none } else none
  | .joinResults => if s.main = .joinResults then some { s with main := .joinInfo, resultsJoined := true } else none
  | .joinInfo =>
    -- the info thread notices the stop event between two lock uses
    if s.main = .joinInfo ∧ s.info = .idle then some { s with main := .teardown, info := .stopped } else none
  | .teardown =>
    if s.main = .teardown then
      some { s with main := if s.failed ∨ s.broken then .raised else .returned } else none

def frun (s : FState) : List FLbl → Option FState
  | [] => some s
  | l :: ls => match fstep s l with
    | some s' => frun s' ls
    | none => none

def FState.init (n : Nat) : FState := { n := n, ws := fun _ => .idle }

def FState.final (s : FState) : Bool := s.main == .raised || s.main == .returned

end Sk
