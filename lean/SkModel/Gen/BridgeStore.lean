/-
  SkModel.Gen.BridgeStore — the translated store functions (`allocations`, `_allocate_next`,
  `_add_to_store` of `ResultStoreBase`, `Generated.lean`) ARE the model's `Store.refresh`,
  `Store.allocNext`, `Store.addTo` on every store that satisfies the store invariant
  (`Store.Inv`, which every reachable store does: `Store.Reach.inv`).  Python dicts are
  association lists in insertion order, the pre-allocator is the oracle `sup` (start of the
  k-th block it hands out; the block is `range(sup k, sup k + B)`).
-/
import SkModel.Gen.Generated
import SkModel.Store
import SkModel.Proofs.StoreInv

namespace Sk.Gen
open Sk Sk.Py Sk.StoreInv
/-- the list `range(a, a + B)` the pre-allocator returns -/
def rng (B a : Nat) : List Nat := List.range' a B

/-- the Python-side `_allocations` (a list or None) of a model store -/
def allocsOf (st : Store) : Option (List Nat) := st.alloc.map (rng st.B)

theorem listLast_rng {B a : Nat} (hB : 0 < B) : listLast (rng B a) = a + B - 1 := by
  unfold listLast rng
  obtain ⟨n, rfl⟩ : ∃ n, B = n + 1 := ⟨B - 1, by omega⟩
  rw [List.range'_concat]
  simp

theorem dictHas_eq (st : Store) (i : Nat) : dictHas st.data i = st.hasKey i := rfl

/-- `allocations` = `Store.refresh` on any store with a positive block size (no invariant needed) -/
theorem allocations_eq (sup : Nat → Nat) (s : Store) (hB : 0 < s.B) :
    allocations s.pre s.B (fun k => rng s.B (sup k)) s.data (allocsOf s) s.nblocks =
      .ret (if s.pre then allocsOf (s.refresh sup) else none,
            allocsOf (s.refresh sup), (s.refresh sup).nblocks) := by
  obtain ⟨B, pre, data, vs, ts, ss, al, nb⟩ := s
  simp only at hB
  cases pre
  · simp [allocations, Store.refresh, allocsOf]
  · cases al with
    | none => simp [allocations, Store.refresh, allocsOf]
    | some a =>
      simp only [allocations, Store.refresh, allocsOf, Option.map, listLast_rng hB, Store.hasKey, dictHas]
      have hc : (data ≠ [] ∧ data.length % B = 0 ∧ data.any (fun p => p.1 == a + B - 1) = true) ↔
          (!data.isEmpty && data.length % B == 0 && data.any (fun p => p.1 == a + B - 1)) = true := by
        simp [and_assoc]
      simp only [hc]
      by_cases hcond : (!data.isEmpty && data.length % B == 0 && data.any (fun p => p.1 == a + B - 1)) = true <;> simp [hcond]

/-- the `allocations` property as written = `Store.refresh` (C15) -/
theorem bridge_allocations {B : Nat} {pre : Bool} {sup : Nat → Nat} {st : Store}
    (hB : 0 < B) (hsup : BlocksDisjoint sup B) (inv : Store.Inv B pre sup st) :
    allocations st.pre st.B (fun k => rng st.B (sup k)) st.data (allocsOf st) st.nblocks =
      .ret (if st.pre then allocsOf (st.refresh sup) else none,
            allocsOf (st.refresh sup), (st.refresh sup).nblocks) := by
  have h := inv.hB; subst h
  exact allocations_eq sup st hB

theorem loop1_eq (pre : Bool) (B : Nat) (alloc : Nat → List Nat) (v : Val)
    (data : List (Nat × Val)) (al : Option (List Nat)) (nb : Nat) : ∀ l : List (Nat × Val),
    allocate_next.loop1 pre B alloc v data al nb l =
      match l.find? (fun p => p.2 == v) with
      | some p => .ret (p.1, data, al, nb)
      | none => allocate_next.loop1 pre B alloc v data al nb []
  | [] => by simp
  | (i, w) :: l => by
    conv => lhs; rw [allocate_next.loop1]
    rw [List.find?_cons]
    by_cases h : v = w
    · subst h; simp
    · have : (w == v) = false := by simpa using fun e => h e.symm
      simp only [h, if_false, this]
      exact loop1_eq pre B alloc v data al nb l

theorem loop2_eq (pre : Bool) (B : Nat) (alloc : Nat → List Nat) (v : Val)
    (data : List (Nat × Val)) (al : Option (List Nat)) (nb : Nat) (c5 : Option (List Nat))
    (l6 : List Nat) : ∀ l : List Nat,
    allocate_next.loop2 pre B alloc v data al nb c5 l6 l =
      match l.find? (fun i => !dictHas data i) with
      | some i => .ret (i, dictSet data i v, al, nb)
      | none => .exc "ResultStoreException"
  | [] => by simp [allocate_next.loop2]
  | i :: l => by
    rw [allocate_next.loop2, List.find?_cons]
    cases h : dictHas data i
    · simp
    · simp only [not_true, if_false, Bool.not_true]
      exact loop2_eq pre B alloc v data al nb c5 l6 l

theorem hasKey_slot_ge {B pre sup st} (hB : 0 < B) (hsup : BlocksDisjoint sup B)
    (inv : Store.Inv B pre sup st) {j : Nat} (hj : st.data.length ≤ j) :
    st.hasKey (slot pre sup B j) = false := by
  rw [← Bool.not_eq_true, Store.hasKey_iff, inv.keys]
  intro h
  obtain ⟨k, hk, he⟩ := List.mem_map.mp h
  have := slot_inj hB hsup he
  rw [List.mem_range] at hk; omega

theorem ar_last {B L : Nat} (hB : 0 < B) (h0 : L % B = 0) :
    (L + (B - 1)) / B = L / B ∧ (L + (B - 1)) % B = B - 1 := by
  obtain ⟨q, rfl⟩ : ∃ q, L = B * q := ⟨L / B, by have := Nat.div_add_mod L B; omega⟩
  constructor
  · rw [Nat.mul_add_div hB, Nat.mul_div_cancel_left _ hB, Nat.div_eq_of_lt (by omega)]; rfl
  · rw [Nat.mul_add_mod]; exact Nat.mod_eq_of_lt (by omega)

/-- the second evaluation of the `allocations` property changes nothing: the last index of a
    freshly requested block is not in use -/
theorem refresh_idem {B pre sup st} (hB : 0 < B) (hsup : BlocksDisjoint sup B)
    (inv : Store.Inv B pre sup st) : (st.refresh sup).refresh sup = st.refresh sup := by
  cases pre
  · have hp := inv.hpre
    simp [Store.refresh, hp]
  · rw [inv.refresh_eq hB]
    have hp := inv.hpre
    have hb := inv.hB
    simp only [Store.refresh, hp, hb]
    by_cases h0 : st.data.length % B = 0
    · have hk := hasKey_slot_ge hB hsup inv (j := st.data.length + (B - 1)) (by omega)
      obtain ⟨e1, e2⟩ := ar_last hB h0
      simp only [slot, if_true, e1, e2] at hk
      have hk' : st.hasKey (sup (st.data.length / B) + B - 1) = false := by
        rw [← hk]; congr 1; omega
      simp only [Store.hasKey] at hk' ⊢
      simp [hk']
    · simp [h0]

theorem dictSet_free {d : List (Nat × Val)} {i : Nat} (h : dictHas d i = false) (v : Val) :
    dictSet d i v = d ++ [(i, v)] := by simp [dictSet, h]

/-- `_allocate_next` as written = `Store.allocNext` (C15, C06): the equality scan over the
    table, the (twice evaluated) `allocations` property, the first free index of the block,
    `len(data)` without a pre-allocator, the insertion. -/
theorem bridge_allocate_next {B : Nat} {pre : Bool} {sup : Nat → Nat} {st : Store}
    (hB : 0 < B) (hsup : BlocksDisjoint sup B) (inv : Store.Inv B pre sup st) (v : Val) :
    allocate_next st.pre st.B (fun k => rng st.B (sup k)) v st.data (allocsOf st) st.nblocks =
      match st.allocNext sup v with
      | .error _ => .exc "ResultStoreException"
      | .ok (s2, i) => .ret (i, s2.data, allocsOf s2, s2.nblocks) := by
  have h1 := inv.hB; subst h1
  rw [allocate_next, loop1_eq]
  cases hf : st.data.find? (fun p => p.2 == v) with
  | some p => simp [Store.allocNext, hf]
  | none =>
    simp only [Store.allocNext, hf]
    rw [allocate_next.loop1, allocations_eq sup st hB]
    cases pre
    · have hp : st.pre = false := inv.hpre
      have hr : st.refresh sup = st := by simp [Store.refresh, hp]
      have hnb : st.nblocks = 0 := inv.nblk
      have hal : st.alloc = none := by rw [inv.alloc, hnb]; rfl
      have hk : dictHas st.data st.data.length = false := by
        have := inv.hasKey_slot_len hB hsup; simpa [slot, dictHas_eq] using this
      simp [hr, hal, hp, dictSet_free hk, allocsOf]
    · have hp : st.pre = true := inv.hpre
      have hr := inv.refresh_eq hB
      have hid := refresh_idem hB hsup inv
      have ha2 := allocations_eq sup (st.refresh sup) (by rw [hr]; exact hB)
      rw [hid] at ha2
      rw [hr] at ha2 ⊢
      simp only at ha2 ⊢
      rw [ha2]
      have hB0 : st.B ≠ 0 := by omega
      simp only [hp, if_true, allocsOf, Option.map, ne_eq, reduceCtorEq, not_false_eq_true,
        Option.some.injEq, loop2_eq, Store.hasKey, dictHas, rng]
      cases hfi : List.find? (fun i => !st.data.any (fun p => p.1 == i))
          (List.range' (sup (st.data.length / st.B)) st.B) with
      | none => simp [hB0]
      | some i =>
        have hk : dictHas st.data i = false := by
          have := List.find?_some hfi; simpa [dictHas] using this
        simp [dictSet_free hk, hB0]

theorem dictHasV_eq (l : List (Val × Nat)) (v : Val) : dictHasV l v = (l.lookup v).isSome := by
  induction l with
  | nil => rfl
  | cons p l ih =>
    obtain ⟨w, j⟩ := p
    simp only [dictHasV, List.any_cons, List.lookup_cons] at ih ⊢
    by_cases h : v = w
    · subst h; simp
    · have h1 : (w == v) = false := by simpa using fun e => h e.symm
      have h2 : (v == w) = false := by simpa using h
      simp only [h1, h2, Bool.false_or]; exact ih

theorem setRev_allocsOf (st : Store) (ns : Ns) (m : List (Val × Nat)) :
    allocsOf (st.setRev ns m) = allocsOf st := by cases ns <;> rfl

theorem setRev_nblocks (st : Store) (ns : Ns) (m : List (Val × Nat)) :
    (st.setRev ns m).nblocks = st.nblocks := by cases ns <;> rfl

/-- `_add_to_store(value, store)` (no explicit index) as written = `Store.addTo` (C15, C05) for
    each of the three reverse maps -/
theorem bridge_add_to_store {B : Nat} {pre : Bool} {sup : Nat → Nat} {st : Store}
    (hB : 0 < B) (hsup : BlocksDisjoint sup B) (inv : Store.Inv B pre sup st)
    (ns : Ns) (v : Option Val) :
    add_to_store st.pre st.B (fun k => rng st.B (sup k)) v (st.rev ns) none st.data
        (allocsOf st) st.nblocks =
      match st.addTo sup ns v with
      | .error _ => .exc "ResultStoreException"
      | .ok (s2, r) => .ret (r, s2.rev ns, s2.data, allocsOf s2, s2.nblocks) := by
  cases v with
  | none => simp [add_to_store, Store.addTo]
  | some v =>
    cases hl : (st.rev ns).lookup v with
    | some i => simp [add_to_store, Store.addTo, hl, dictHasV_eq, dictGetV]
    | none =>
      obtain ⟨s2, i, h1, -, -, h4, -⟩ := inv.allocNext_spec hB hsup v
      have hd : dictHasV (st.rev ns) v = false := by rw [dictHasV_eq, hl]; rfl
      simp only [add_to_store, Store.addTo, hl, hd, bridge_allocate_next hB hsup inv, h1,
        bind, Except.bind, pure, Except.pure, dictSetV]
      simp [Store.setRev_rev, Store.setRev_data, setRev_allocsOf, setRev_nblocks, h4]


/-- `ResultStoreParallel.preallocate` as written, read sequentially (one thread of control; the
    interleavings of several workers are the transition system of C06): the block is
    `range(ptr, ptr + size)` and the shared pointer advances by `size`.  This is what the three
    theorems above assume of the pre-allocator oracle (`fun k => rng B (sup k)`). -/
theorem bridge_preallocate (size ptr : Nat) :
    preallocate size ptr = .ret (rng size ptr, ptr + size) := by
  simp [preallocate, rng]

#print axioms bridge_allocations
#print axioms bridge_allocate_next
#print axioms bridge_add_to_store

end Sk.Gen
#print axioms Sk.Gen.bridge_preallocate
