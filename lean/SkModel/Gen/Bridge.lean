/-
  SkModel.Gen.Bridge — the translated functions (`Generated.lean`, regenerated from the source
  of searchkit on every run) ARE the hand-written model functions the property theorems speak
  about.  When the source changes, these theorems are re-checked against the new translation.
-/
import SkModel.Gen.Generated
import SkModel.Runner
import SkModel.Since
import SkModel.NameRx
import SkModel.Proofs.SeekShape
import SkModel.Theorems.C16

namespace Sk.Gen
open Sk Sk.Py

/-- how the model's `Except SeekErr` outcomes appear as Python outcomes -/
def errName : SeekErr → String
  | .maxLineLen => "MaxSearchableLineLengthReached"
  | .assertFailed => "AssertionError"
  | .tooManyUndated => "TooManyLinesWithoutDate"
  | .noTimestamps => "NoTimestampsFoundInFile"
  | .noValidLines => "NoValidLinesFoundInFile"

def ofSeek {α : Type} : Except SeekErr α → Py.Res α
  | .ok t => .ret t
  | .error e => .exc (errName e)


/-! ### helper lemmas -/

theorem findLF_ge (F : FileV) : ∀ (k a i : Nat), findLF F a k = some i → a ≤ i := by
  intro k
  induction k with
  | zero => intro a i h; simp [findLF] at h
  | succ k ih =>
    intro a i h
    simp only [findLF] at h
    split at h
    · simp at h; omega
    · have := ih _ _ h; omega

theorem rfindLF_ge (F : FileV) (a : Nat) : ∀ (k i : Nat), rfindLF F a k = some i → a ≤ i := by
  intro k
  induction k with
  | zero => intro i h; simp [rfindLF] at h
  | succ k ih =>
    intro i h
    simp only [rfindLF] at h
    split at h
    · simp at h; omega
    · exact ih _ h

theorem readAt_nat (F : FileV) (p k : Nat) :
    Py.readAt F (p : Int) (k : Int) = ⟨p, readLen F p k⟩ := by
  have h : ¬ ((k : Int) < 0) := by omega
  simp [Py.readAt, readLen, h]

theorem len_cond (l : Nat) : ((¬ (l ≠ 0)) ∨ ((l : Int) = (0 : Int))) ↔ l = 0 := by omega

theorem chunk_find_eq (F : FileV) (p l : Nat) :
    Py.Chunk.find F ⟨p, l⟩ =
      match findLF F p l with
      | some i => (i : Int) - p
      | none => -1 := rfl

theorem chunk_rfind_eq (F : FileV) (p l : Nat) :
    Py.Chunk.rfind F ⟨p, l⟩ =
      match rfindLF F p l with
      | some i => (i : Int) - p
      | none => -1 := rfl

theorem ft_loop (K : SeekK) (F : FileV) (start saved : Int) :
    ∀ (n p : Nat) (cur : Int) (g : Nat), n < g → start + cur = (p : Int) →
      find_token.loop1 K F start (p : Int) saved (n : Int) cur g = ofSeek (ftLoop K F n p) := by
  intro n
  induction n with
  | zero =>
    intro p cur g hg hp
    obtain ⟨g, rfl⟩ : ∃ g', g = g' + 1 := ⟨g - 1, by omega⟩
    simp [find_token.loop1, ftLoop, ofSeek, errName]
  | succ n ih =>
    intro p cur g hg hp
    obtain ⟨g, rfl⟩ : ∃ g', g = g' + 1 := ⟨g - 1, by omega⟩
    have hpos : ((n + 1 : Nat) : Int) > 0 := by omega
    simp only [find_token.loop1, ftLoop, hpos, if_true, readAt_nat, chunk_find_eq, len_cond]
    by_cases h0 : readLen F p K.H = 0
    · simp [h0, ofSeek]
    · simp only [h0, if_false]
      cases hfind : findLF F p (readLen F p K.H) with
      | some i =>
        have := findLF_ge F _ _ _ hfind
        have hne : ¬ ((i : Int) - (p : Int) = -1) := by omega
        have he : start + cur + ((i : Int) - (p : Int)) = (i : Int) := by omega
        simp [ofSeek, hne, he]
      | none =>
        have := ih (p + readLen F p K.H) (cur + (readLen F p K.H : Int)) g (by omega)
          (by omega)
        simp [← this]

theorem ftr_loop (K : SeekK) (F : FileV) (start : Nat) (saved : Int) :
    ∀ (g n : Nat) (cur pos : Int), n < g → -(K.H : Int) ≤ (start : Int) + cur →
      find_token_reverse.loop1 K F (start : Int) pos saved ((n + 1 : Nat) : Int) cur g
        = ofSeek (ftrLoop K F start (n + 1) cur) := by
  intro g
  induction g with
  | zero => intro n cur pos hg; omega
  | succ g ih =>
    intro n cur pos hg hinv
    have hoff : (if (start : Int) + cur > 0 then (start : Int) + cur else 0)
        = ((if (start : Int) + cur > 0 then ((start : Int) + cur).toNat else 0 : Nat) : Int) := by
      split <;> omega
    have hsize : (if (start : Int) + cur ≤ 0 then (K.H : Int) + ((start : Int) + cur) else (K.H : Int))
        = ((if (start : Int) + cur > 0 then K.H else ((K.H : Int) + ((start : Int) + cur)).toNat : Nat) : Int) := by
      split <;> split <;> omega
    simp only [find_token_reverse.loop1, ftrLoop, hoff, hsize]
    generalize (if (start : Int) + cur > 0 then ((start : Int) + cur).toNat else 0 : Nat) = r
    generalize (if (start : Int) + cur > 0 then K.H
      else ((K.H : Int) + ((start : Int) + cur)).toNat : Nat) = s
    have hr : ¬ ((r : Int) < 0) := by omega
    simp only [hr, if_false, readAt_nat, chunk_rfind_eq, len_cond]
    by_cases h0 : readLen F r s = 0
    · simp [h0, ofSeek]
    · simp only [h0, if_false]
      cases hfind : rfindLF F r (readLen F r s) with
      | some i =>
        have := rfindLF_ge F _ _ _ hfind
        have hne : ¬ ((i : Int) - (r : Int) = -1) := by omega
        have he : (r : Int) + ((i : Int) - (r : Int)) = (i : Int) := by omega
        simp [ofSeek, hne, he]
      | none =>
        have hatt : (((n + 1 : Nat) : Int) - 1 ≤ 0) ↔ n = 0 := by omega
        simp only [hatt]
        by_cases hn : n = 0
        · simp [hn, ofSeek, errName]
        · obtain ⟨m, rfl⟩ : ∃ m, n = m + 1 := ⟨n - 1, by omega⟩
          by_cases hedge : (start : Int) + (cur - (readLen F r s : Int)) ≤ -(K.H : Int)
          · simp [hedge, ofSeek]
          · have := ih m (cur - (readLen F r s : Int)) ((r : Int) + (readLen F r s : Int))
              (by omega) (by omega)
            have h1 : ((m + 1 + 1 : Nat) : Int) - 1 = ((m + 1 : Nat) : Int) := by omega
            simp only [hn, hedge, if_false, h1]
            exact this

/-- `FileSearcher.num_parallel_tasks` as written = `Sk.numParallel` (C18) -/
theorem bridge_num_parallel_tasks (m c f : Nat) :
    num_parallel_tasks (m : Int) (c : Int) (f : Int) = .ret ((numParallel m c f : Nat) : Int) := by
  unfold num_parallel_tasks numParallel
  congr 1
  by_cases hm : m = 0 <;> by_cases hf : f = 0 <;> simp [hm, hf] <;> omega

/-- the window fixed by `SearchConstraintSearchSince.__init__` + `since_date` as written
    = `Sk.windowSeconds` (C16) -/
theorem bridge_since_window (d h : Int) :
    since_window d h = .ret (windowSeconds d h) := by
  unfold since_window windowSeconds
  congr 1
  by_cases hd : d = 0 <;> by_cases hh : h = 0 <;> simp [hd, hh]

/-- `find_token` as written = `Sk.findToken` (C11, C04, C13), for every file, every
    offset, every value of the two constants and whatever the file position was before -/
theorem bridge_find_token (K : SeekK) (F : FileV) (start : Nat) (pos0 : Int) (fuel : Nat)
    (hf : K.EXP < fuel) :
    find_token K F (start : Int) pos0 fuel = ofSeek (findToken K F start) := by
  have hs : ¬ ((start : Int) < 0) := by omega
  simp only [find_token, findToken, hs, if_false]
  exact ft_loop K F _ _ _ _ _ _ hf (by omega)

/-- `find_token_reverse` as written = `Sk.findTokenReverse`.  `0 < EXP`: with a limit of zero
    attempts the code still reads one chunk, the model refuses at once. -/
theorem bridge_find_token_reverse (K : SeekK) (F : FileV) (start : Nat) (pos0 : Int)
    (fuel : Nat) (hf : K.EXP < fuel) (hE : 0 < K.EXP) :
    find_token_reverse K F (start : Int) pos0 fuel = ofSeek (findTokenReverse K F start) := by
  obtain ⟨n, hn⟩ : ∃ n, K.EXP = n + 1 := ⟨K.EXP - 1, by omega⟩
  simp only [find_token_reverse, findTokenReverse, hn]
  exact ftr_loop K F start _ fuel n _ _ (by omega) (by omega)


/-! ### `try_find_line`, `_line_date_is_valid`, `apply_to_line` (third session) -/

/-- the five nested range assertions = the model's one conjunction test -/
theorem tfl_checks (F : FileV) (a b : Tok) :
    (if a.off ≤ (F.len : Int) then
      if a.off ≥ (0 : Int) then
        if b.off ≤ (F.len : Int) then
          if b.off ≥ (0 : Int) then
            if b.off ≥ a.off then Py.Res.ret (LLine.mk a b)
            else Py.Res.exc "AssertionError"
          else Py.Res.exc "AssertionError"
        else Py.Res.exc "AssertionError"
      else Py.Res.exc "AssertionError"
    else Py.Res.exc "AssertionError") =
    ofSeek (if a.off ≤ F.len ∧ 0 ≤ a.off ∧ b.off ≤ F.len ∧ 0 ≤ b.off ∧ a.off ≤ b.off then
      Except.ok ⟨a, b⟩ else Except.error SeekErr.assertFailed) := by
  by_cases h1 : a.off ≤ (F.len : Int) <;> by_cases h2 : (0 : Int) ≤ a.off <;>
    by_cases h3 : b.off ≤ (F.len : Int) <;> by_cases h4 : (0 : Int) ≤ b.off <;>
    by_cases h5 : a.off ≤ b.off <;> simp [h1, h2, h3, h4, h5, ofSeek, errName]

/-- `try_find_line` as written = `Sk.tryFindLine` (C11, C04): the two scans (or the known line
    feeds), the five range assertions, the `LogLine` built from them. -/
theorem bridge_try_find_line (K : SeekK) (F : FileV) (epi : Nat) (slf elf : Option Int)
    (pos0 : Int) (fuel : Nat) (hf : K.EXP < fuel) (hE : 0 < K.EXP) :
    try_find_line K F (epi : Int) slf elf pos0 fuel = ofSeek (tryFindLine K F epi slf elf) := by
  unfold try_find_line tryFindLine
  cases slf <;> cases elf <;>
    simp only [bridge_find_token K F epi _ fuel hf,
      bridge_find_token_reverse K F epi _ fuel hf hE, bind, Except.bind, pure, Except.pure]
  · cases h1 : findToken K F epi <;> simp only [ofSeek]
    cases h2 : findTokenReverse K F epi <;> dsimp only
    exact tfl_checks F _ _
  · cases h2 : findTokenReverse K F epi <;> simp only [ofSeek]
    exact tfl_checks F _ _
  · cases h1 : findToken K F epi <;> simp only [ofSeek]
    exact tfl_checks F _ _
  · exact tfl_checks F _ _

/-- `_line_date_is_valid` as written: `ts is not None and ts >= since` -/
theorem bridge_line_date_is_valid (since : Int) (ts : Option Int) :
    line_date_is_valid since ts =
      .ret (match ts with | none => false | some t => decide (since ≤ t)) := by
  unfold line_date_is_valid
  cases ts with
  | none => rfl
  | some t =>
    by_cases h : t < since
    · have h' : ¬ since ≤ t := by omega
      simp [h, h']
    · have h' : since ≤ t := by omega
      simp [h, h']

/-- how the model's outcome + counters appear as the translated function's result -/
def ofCount (r : SinceStats × COut) : Py.Res (Bool × Int × Int) :=
  match r.2 with
  | .pass => .ret (true, (r.1.pass : Int), (r.1.fail : Int))
  | .fail => .ret (false, (r.1.pass : Int), (r.1.fail : Int))
  | .undec => .exc "CouldNotApplyConstraint"

/-- `apply_to_line` as written (timestamp extraction = the oracle argument, datetimes as their
    second counts) = the model's `applyCount` on calendar values (C16): same outcome, same
    counters. -/
theorem bridge_apply_to_line (since : Civil) (ts : Option Civil) (st : SinceStats)
    (hs : since.valid = true) (ht : ∀ t, ts = some t → t.valid = true) :
    apply_to_line since.toSeconds (ts.map Civil.toSeconds) (st.pass : Int) (st.fail : Int) =
      ofCount (applyCount since st ts) := by
  cases ts with
  | none => simp [apply_to_line, applyCount, applyToLine, ofCount]
  | some t =>
    have hv := ht t rfl
    have ho := civil_order t since hv hs
    cases hlt : t.lt since with
    | true =>
      have h' : ¬ since.toSeconds ≤ t.toSeconds := by
        have := ho.mp hlt; omega
      simp [apply_to_line, bridge_line_date_is_valid, applyCount, applyToLine, ofCount, hlt, h']
    | false =>
      have h' : since.toSeconds ≤ t.toSeconds := by
        have : ¬ t.toSeconds < since.toSeconds := fun h => by
          have := ho.mpr h; simp [hlt] at this
        omega
      simp [apply_to_line, bridge_line_date_is_valid, applyCount, applyToLine, ofCount, hlt, h']


/-- the two ways the known line feed is handed to `try_find_line`, as the model writes them -/
theorem twd_args (fwd : Bool) (lfo : Option Int) :
    (if (decide (¬ (fwd = true))) = true then lfo else none) = (if fwd = true then none else lfo) := by
  cases fwd <;> simp

/-- the loop of `try_find_line_with_date` = the model's `twdLoop`, by induction on the attempts -/
theorem twd_loop (K : SeekK) (F : FileV) (ts : Nat → Option Int) (start : Int) (fwd : Bool)
    (hE : 0 < K.EXP) :
    ∀ (n o : Nat) (lfo : Option Int) (pos : Int) (g : Nat), K.EXP + n < g →
      try_find_line_with_date.loop1 K F ts start lfo fwd pos (n : Int) (o : Int) g
        = ofSeek (twdLoop K F ts fwd n o lfo) := by
  intro n
  induction n with
  | zero =>
    intro o lfo pos g hg
    obtain ⟨g, rfl⟩ : ∃ g', g = g' + 1 := ⟨g - 1, by omega⟩
    simp [try_find_line_with_date.loop1, twdLoop, ofSeek]
  | succ n ih =>
    intro o lfo pos g hg
    obtain ⟨g, rfl⟩ : ∃ g', g = g' + 1 := ⟨g - 1, by omega⟩
    have hpos : ((n + 1 : Nat) : Int) > 0 := by omega
    have h1 : ((n + 1 : Nat) : Int) - 1 = (n : Int) := by omega
    simp only [try_find_line_with_date.loop1, twdLoop, hpos, if_true, h1, twd_args,
      bridge_try_find_line K F o _ _ _ g (by omega) hE, bind, Except.bind, pure, Except.pure]
    cases hl : tryFindLine K F o (if fwd = true then lfo else none)
        (if fwd = true then none else lfo) with
    | error e => simp only [ofSeek]
    | ok l =>
      simp only [ofSeek]
      cases hd : LLine.date ts l with
      | some d => simp
      | none =>
        simp only [ne_eq, not_true_eq_false, if_false]
        have hlf : (if fwd = true then l.elf.off else l.slf.off)
            = (if fwd = true then l.elf else l.slf).off := by
          cases fwd <;> simp
        simp only [hlf]
        generalize (if fwd = true then l.elf else l.slf).off = lf
        have hoff : (if fwd = true then lf + 1 else lf - 1)
            = lf + (if fwd = true then (1 : Int) else -1) := by
          cases fwd <;> simp <;> omega
        simp only [hoff]
        generalize lf + (if fwd = true then (1 : Int) else -1) = q
        by_cases hr : q < 0 ∨ q > (F.len : Int)
        · simp [hr]
        · obtain ⟨m, rfl⟩ : ∃ m : Nat, q = (m : Int) := ⟨q.toNat, by omega⟩
          simp only [hr, if_false, Int.toNat_natCast]
          exact ih m (some lf) 0 g (by omega)

/-- `try_find_line_with_date` as written = `Sk.tryFindLineWithDate` (C04, C11): the walk over at
    most ATT undated lines in either direction, for every timestamp oracle. -/
theorem bridge_try_find_line_with_date (K : SeekK) (F : FileV) (ts : Nat → Option Int)
    (start : Nat) (lfo : Option Int) (fwd : Bool) (pos0 : Int) (fuel : Nat)
    (hf : K.EXP + K.ATT < fuel) (hE : 0 < K.EXP) :
    try_find_line_with_date K F ts (start : Int) lfo fwd pos0 fuel =
      ofSeek (tryFindLineWithDate K F ts start lfo fwd) := by
  simp only [try_find_line_with_date, tryFindLineWithDate]
  exact twd_loop K F ts _ fwd hE K.ATT start lfo pos0 fuel hf


/-! ### `__getitem__` -/

open SeekShape in
/-- backwards walk: when the known line feed handed in is a real one, every hit ENDS at a real
    line boundary (the first end is scanned, the later ones are earlier scanned starts) -/
theorem twd_bwd_end (K : SeekK) (F : FileV) (ts : Nat → Option Int) :
    ∀ (fuel off : Nat) (lfo : Option Int) (l : LLine),
      (∀ o, lfo = some o → RealEnd F (.found o)) →
      twdLoop K F ts false fuel off lfo = .ok (some l) → RealEnd F l.elf := by
  intro fuel
  induction fuel with
  | zero => intro off lfo l _ h; simp [twdLoop] at h
  | succ fuel ih =>
    intro off lfo l hl h
    rw [twd_bwd_succ] at h
    obtain ⟨l0, h0, h⟩ := bind_ok h
    obtain ⟨he, hs, hr⟩ := tfl_ok h0
    split at h
    · cases h
      cases lfo with
      | none => exact (findToken_ok he).real
      | some o =>
        injection he with he
        rw [← he]
        exact hl o rfl
    · split at h
      · cases h
      · rename_i hg
        refine ih _ _ _ ?_ h
        intro o ho
        injection ho with ho
        subst ho
        rcases findTokenReverse_ok hs with h0 | ⟨i, hi, i1, i2, _⟩
        · rw [h0] at hg; simp only [off_edge] at hg; omega
        · rw [hi]; exact Or.inr ⟨i, rfl, i1, i2⟩

open SeekShape in
/-- a dated line that ends at a real line boundary is not EMPTY, when timestamps are only
    recognised at existing bytes that are not line feeds -/
theorem lineLen_ne_zero {F : FileV} {ts : Nat → Option Int} {l : LLine}
    (hts : ∀ o, ts o ≠ none → o < F.len ∧ F.isLF o = false)
    (hend : RealEnd F l.elf) (hr : RangeOK F l.slf l.elf) (hd : (l.date ts).isSome) :
    Py.lineLen l ≠ 0 := by
  obtain ⟨slf, elf⟩ := l
  have h := hts (LLine.startOffset ⟨slf, elf⟩).toNat (by
    intro hn
    simp only [LLine.date] at hd
    rw [hn] at hd
    simp at hd)
  obtain ⟨h1, h2⟩ := h
  simp only [RangeOK] at hr
  dsimp only at hend
  intro hz
  rcases hend with rfl | ⟨j, rfl, j1, j2⟩
  · cases slf <;> simp only [Py.lineLen, LLine.endOffset, LLine.startOffset, off_found, off_edge] at * <;> omega
  · cases slf <;> simp only [Py.lineLen, LLine.endOffset, LLine.startOffset, off_found, off_edge] at *
    · rename_i o
      have : ((o + 1).toNat) = j := by omega
      rw [this] at h2
      simp [h2] at j2
    · rename_i o
      have : (o.toNat) = j := by omega
      rw [this] at h2
      simp [h2] at j2

/-- `__getitem__` as written = `Sk.getItem` + the bookkeeping `bisectLoop` does around it
    (`found_any_date`, `line_info`), for every file, offset, oracle and constants - under the one
    assumption the hand-written model had made silently: a timestamp is only ever recognised at
    an existing byte that is not a line feed (so a dated line is never EMPTY).  The code tests
    `not result`, and a `LogLine` of length 0 is falsy (`__len__`); without the assumption the
    translated function and the model differ (312 399 of 1 485 504 small instances). -/
theorem bridge_getitem (K : SeekK) (F : FileV) (ts : Nat → Option Int) (since : Int)
    (off : Nat) (fa : Bool) (li : Option LLine) (pos0 : Int) (fuel : Nat)
    (hf : K.EXP + K.ATT < fuel) (hE : 0 < K.EXP)
    (hts : ∀ o, ts o ≠ none → o < F.len ∧ F.isLF o = false) :
    getitem K F ts since (off : Int) fa li pos0 fuel =
      match getItem K F ts off with
      | .error e => .exc (errName e)
      | .ok l => .ret (l.date ts, true, if (l.date ts).getD 0 ≥ since then some l else li) := by
  have hoff1 : (off : Int) + 1 = ((off + 1 : Nat) : Int) := by omega
  unfold getitem
  rw [SeekShape.getItem_eq]
  simp only [hoff1, bridge_try_find_line_with_date K F ts _ _ _ _ fuel hf hE]
  cases h1 : tryFindLineWithDate K F ts off none false with
  | error e => simp only [ofSeek, Except.bind]
  | ok r1 =>
    cases r1 with
    | some l1 =>
      obtain ⟨a1, a2, a3⟩ := SeekShape.twd_bwd_res K F ts _ _ _ _ h1
      have a4 := twd_bwd_end K F ts _ _ _ _ (by intro o ho; cases ho) h1
      have hlen := lineLen_ne_zero hts a4 a2 a3
      obtain ⟨d, hd⟩ := Option.isSome_iff_exists.mp a3
      simp only [ofSeek, Except.bind, hlen, hd, if_false]
      by_cases hc : d ≥ since <;> simp [hc, hlen]
    | none =>
      simp only [ofSeek, Except.bind]
      cases h2 : tryFindLineWithDate K F ts (off + 1) (some (off : Int)) true with
      | error e => simp only []
      | ok r2 =>
        cases r2 with
        | none => simp only [errName]
        | some l2 =>
          obtain ⟨b1, b2, b3, b4⟩ := SeekShape.twd_fwd_res K F ts _ _ _ _ h2
          have hlen := lineLen_ne_zero hts b2 b3 b4
          obtain ⟨d, hd⟩ := Option.isSome_iff_exists.mp b4
          simp only [hlen, hd, if_false]
          have hlf : isLineFeed F (off : Int) = (decide (off < F.len) && F.isLF off) := by
            simp [isLineFeed]
          by_cases hs : l2.slf.off = (off : Int)
          · cases hb : (decide (off < F.len) && F.isLF off) with
            | true =>
              simp only [hs, hlf, hb, if_true, true_and, Bool.not_true, Bool.false_eq_true, if_false]
              by_cases hc : d ≥ since <;> simp [hc, hlen, hd]
            | false =>
              simp only [hs, hlf, hb, if_true, true_and, Bool.not_false, Bool.false_eq_true, if_false]
              cases he : l2.elf with
              | edge e => simp only [tokStatus, errName, reduceCtorEq, if_false]
              | found e =>
                have he0 : 0 ≤ e := by
                  have := b3.2.2.2.1
                  rw [he] at this
                  exact this
                have he1 : e + 1 = (((e + 1).toNat : Nat) : Int) := by omega
                simp only [tokStatus, if_true, SeekShape.off_found]
                rw [he1, bridge_try_find_line_with_date K F ts _ _ _ _ fuel hf hE, ← he1]
                cases h3 : tryFindLineWithDate K F ts (e + 1).toNat (some e) true with
                | error e3 => simp only [ofSeek]
                | ok r3 =>
                  cases r3 with
                  | none => simp only [ofSeek, SeekShape.fin, errName]
                  | some l3 =>
                    obtain ⟨c1, c2, c3, c4⟩ := SeekShape.twd_fwd_res K F ts _ _ _ _ h3
                    have hlen3 := lineLen_ne_zero hts c2 c3 c4
                    obtain ⟨d3, hd3⟩ := Option.isSome_iff_exists.mp c4
                    simp only [ofSeek, SeekShape.fin, hlen3, hd3, if_false]
                    by_cases hc : d3 ≥ since <;> simp [hc]
          · simp only [hs, false_and, if_false]
            by_cases hc : d ≥ since <;> simp [hc, hlen, hd]


/-! ### `SearchConstraintsManager.apply_single` (C07) -/

theorem apply_single_loop (outs : List COut) : ∀ (l : List COut) (a b : Bool),
    apply_single.loop1 outs a b l = .ret (applySingleGo l a b) := by
  intro l
  induction l with
  | nil => intro a b; simp [apply_single.loop1, applySingleGo]
  | cons c r ih =>
    intro a b
    cases c <;> simp [apply_single.loop1, applySingleGo, ih]

/-- `apply_single` as written (what each constraint says about the line = the oracle list, a
    constraint that cannot be applied = `CouldNotApplyConstraint` raised and caught) =
    `Sk.applySingle`: the (line_is_valid, all_constraints_passed) pair that gates a search
    with its own constraints - including the behaviour recorded as known finding D10. -/
theorem bridge_apply_single (outs : List COut) :
    apply_single outs = .ret (applySingle outs) := by
  unfold apply_single applySingle
  cases outs with
  | nil => simp
  | cons c r => simp [apply_single_loop]


/-! ### `logrotate_log_sort` (C09) -/

/-- `logrotate_log_sort` as written = `Sk.logrotateKey` (C09): the order in which the three
    expressions are tried, 0 for a match without a group, the number for a match with one,
    100000 when none matches.  The expressions themselves are the hand-written NameRx model
    (`PyPrim.rxLive / rxRot / rxRotGz`); what is translated and proved is the control flow
    around them. -/
theorem bridge_logrotate_log_sort (s : List Char) :
    logrotate_log_sort s = .ret (logrotateKey s) := by
  unfold logrotate_log_sort logrotateKey rxLive rxRot rxRotGz
  simp only []
  generalize stripFinalNL s = b
  generalize hA : (allNonSpace b && endsWith dotLog b && decide (b.length ≥ 5)) = A
  generalize h2 : rxLogN b = r2
  generalize h3z : (if endsWith ['.', 'g', 'z'] b = true then
      rxLogN (List.take (b.length - ['.', 'g', 'z'].length) b) else none) = r3z
  generalize h3 : (if endsWith ['.', 'g'] b = true then
      rxLogN (List.take (b.length - ['.', 'g'].length) b) else none) = r3
  cases A <;> cases r2 <;> cases r3z <;> cases r3 <;> simp

#print axioms bridge_num_parallel_tasks
#print axioms bridge_since_window
#print axioms bridge_find_token
#print axioms bridge_find_token_reverse
#print axioms bridge_try_find_line
#print axioms bridge_line_date_is_valid
#print axioms bridge_apply_to_line
#print axioms Sk.Gen.bridge_try_find_line_with_date
#print axioms Sk.Gen.bridge_getitem

end Sk.Gen
#print axioms Sk.Gen.bridge_apply_single
#print axioms Sk.Gen.bridge_logrotate_log_sort
