/-
  SkModel.Gen.PyPrim — the Python primitives that the generated translation
  (`Generated.lean`, produced by harness/vh/pytolean.py from the source of searchkit) refers to.
  This file is hand-written and part of the trusted base of the translator tie: it fixes what
  `file.seek(n); file.read(k)`, `bytes.find / rfind` of the line-feed token, `//` and `%` mean.
-/
import SkModel.Seeker
import SkModel.Store
import SkModel.NameRx

namespace Sk.Py

/-- outcome of a translated Python function -/
inductive Res (α : Type)
  | ret (a : α)                 -- `return a`
  | exc (name : String)         -- `raise name(...)`
  | diverge                     -- the fuel of a translated `while` loop ran out
deriving Repr, DecidableEq, Inhabited

/-- the bytes object returned by a `read`: which bytes of the file it holds -/
structure Chunk where
  off : Nat
  len : Nat
deriving Repr, DecidableEq, Inhabited

/-- `file.read(k)` at position `pos` (`pos ≥ 0` is checked by the translation of `seek`):
    a NEGATIVE size reads to the end of the file, as Python's `read(-1)` does. -/
def readAt (F : FileV) (pos : Int) (k : Int) : Chunk :=
  ⟨pos.toNat, if k < 0 then F.len - pos.toNat else min k.toNat (F.len - pos.toNat)⟩

/-- `chunk.rfind(b'\n')`: index in the chunk of its last line feed, or -1 -/
def Chunk.rfind (F : FileV) (c : Chunk) : Int :=
  match rfindLF F c.off c.len with
  | some i => (i : Int) - c.off
  | none => -1

/-- `chunk.find(b'\n')` -/
def Chunk.find (F : FileV) (c : Chunk) : Int :=
  match findLF F c.off c.len with
  | some i => (i : Int) - c.off
  | none => -1

/-- `FindTokenStatus` -/
inductive Status
  | found | eof
deriving Repr, DecidableEq, Inhabited

/-- `SearchState.status` -/
def tokStatus : Tok → Status
  | .found _ => .found
  | .edge _ => .eof

/-- `LogLine.__len__` (decides the TRUTH VALUE of a LogLine object):
    `(end_offset - start_offset) + 1` -/
def lineLen (l : LLine) : Int := (l.endOffset - l.startOffset) + 1

/-- `LogFileDateSinceSeeker._is_line_feed(offset)`: seek, read one byte, compare with the token.
    Approximation: for a negative offset CPython's `seek` raises; the translation answers
    `false` (the callers pass offsets taken from `range(len(file))`). -/
def isLineFeed (F : FileV) (off : Int) : Bool :=
  decide (0 ≤ off) && decide (off.toNat < F.len) && F.isLF off.toNat

/-! ### dicts and lists (the de-duplicating store): a dict is an association list in insertion
    order; `d[k] = v` replaces the value of an existing key in place and appends a new key -/

def dictHas (d : List (Nat × Val)) (k : Nat) : Bool := d.any (fun p => p.1 == k)
def dictHasV (d : List (Val × Nat)) (v : Val) : Bool := d.any (fun p => p.1 == v)
/-- `d[v]` after a membership test (a missing key - `KeyError` - is outside the fragment) -/
def dictGetV (d : List (Val × Nat)) (v : Val) : Nat := (d.lookup v).getD 0
def dictSet (d : List (Nat × Val)) (k : Nat) (v : Val) : List (Nat × Val) :=
  if dictHas d k then d.map (fun p => if p.1 == k then (k, v) else p) else d ++ [(k, v)]
def dictSetV (d : List (Val × Nat)) (v : Val) (i : Nat) : List (Val × Nat) :=
  if dictHasV d v then d.map (fun p => if p.1 == v then (v, i) else p) else d ++ [(v, i)]
/-- `l[-1]` of a non-empty list (`IndexError` on an empty one is outside the fragment) -/
def listLast (l : List Nat) : Nat := l.getLastD 0

/-! ### the three regular expressions of `logrotate_log_sort`, as `re.compile(p).match(name)`:
    `none` = no match, `some none` = a match without groups, `some (some n)` = a match whose
    `int(group(1))` is `n`.  Their meaning is the hand-written `SkModel.NameRx` (compared with
    Python's `re` on every generated name by C09's check). -/

/-- `\S+\.log$` -/
def rxLive (s : List Char) : Option (Option Nat) :=
  let body := stripFinalNL s
  if allNonSpace body && endsWith dotLog body && body.length ≥ 5 then some none else none

/-- `\S+\.log\.(\d+)$` -/
def rxRot (s : List Char) : Option (Option Nat) := (rxLogN (stripFinalNL s)).map some

/-- `\S+\.log\.(\d+)\.gz?$` -/
def rxRotGz (s : List Char) : Option (Option Nat) :=
  let body := stripFinalNL s
  let tryStrip (suf : List Char) : Option Nat :=
    if endsWith suf body then rxLogN (body.take (body.length - suf.length)) else none
  match tryStrip ['.', 'g', 'z'] with
  | some n => some (some n)
  | none => (tryStrip ['.', 'g']).map some

/-- Python `//` (floor division) -/
def floordiv (a b : Int) : Int := Int.fdiv a b
/-- Python `%` (sign of the divisor) -/
def pymod (a b : Int) : Int := Int.fmod a b

end Sk.Py
