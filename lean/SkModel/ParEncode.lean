/-
  SkModel.ParEncode — the index encoding of search results (`SkModel.Encode`) as it runs
  INSIDE a worker of the parallel store (`SkModel.ParStore`): the worker's program is the
  sequence of `store.add(tag, sequence_id, value)` calls that building and exporting its
  results makes (`SearchResult._save_part` once per captured group, then `metadata` once),
  each split into the three micro-operations of `ResultStoreBase.add` (value, tag,
  sequence id); the exported results keep the indices those calls returned.

  `C05_parallel` (Theorems/C05Par.lean) composes C06 (every index a finished worker handed out
  resolves in the shared store) with the read side of `SkModel.Encode`.
-/
import SkModel.Encode
import SkModel.ParStore

namespace Sk

/-- the `add` calls made for the results `rs`, in order -/
def addOps (seqVal : Nat → Val) : List Res → List (Option Val × Option Val × Option Val)
  | [] => []
  | r :: rs =>
    (r.parts.map fun p => (r.tag, r.seqId.map seqVal, p.val)) ++
      [(r.tag, r.seqId.map seqVal, none)] ++ addOps seqVal rs

/-- exported parts from the returned indices: every `add` contributes three return values
    (value, tag, sequence id); `_save_part` keeps the first -/
def partsFromRets : List Part → List (Option Nat) → List EPart × List (Option Nat)
  | [], rets => ([], rets)
  | p :: ps, rets =>
    let r := partsFromRets ps (rets.drop 3)
    (⟨p.idx, rets.headD none, p.name⟩ :: r.1, r.2)

/-- one exported result: its parts, then the metadata `add` (value `None`) whose second and
    third return values are the tag and sequence-id indices -/
def resFromRets (r : Res) (rets : List (Option Nat)) : ERes × List (Option Nat) :=
  let pr := partsFromRets r.parts rets
  ({ ln := r.ln, parts := pr.1, tagIdx := (pr.2.drop 1).headD none,
     seqIdx := (pr.2.drop 2).headD none, sec := r.sec, fields := r.fields }, pr.2.drop 3)

def allFromRets : List Res → List (Option Nat) → List ERes
  | [], _ => []
  | r :: rs, rets =>
    let er := resFromRets r rets
    er.1 :: allFromRets rs er.2

/-- the shared store as the parent reads it after `unproxy_results` -/
def PState.sharedStore (s : PState) : Store := { B := s.B, pre := true, data := s.sdata }

end Sk
