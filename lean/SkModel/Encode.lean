/-
  SkModel.Encode — the index encoding of search results over the de-duplicating store:
  `SearchResult._save_part` (one `store.add(tag, sequence_id, value)` per captured group,
  keeping the value's index), `SearchResult.metadata` (`store.add(tag, sequence_id, None)`
  → tag and sequence-id indices), `export`, and the read side of
  `SearchResultBase`/`SearchResultMinimal` (`_get_store_id`, `get`, `__iter__`,
  `__getattr__`, `tag`, `sequence_id`) against a store.
-/
import SkModel.Store
import SkModel.Result

namespace Sk

/-- an exported part: (group index, store index of the value or None, field name) -/
structure EPart where
  idx : Nat
  sid : Option Nat
  name : Option String
deriving Repr, DecidableEq, Inhabited

/-- `SearchResultMinimal` -/
structure ERes where
  ln : Nat
  parts : List EPart
  tagIdx : Option Nat
  seqIdx : Option Nat
  sec : Option (Nat × Nat)
  fields : Option (List String)
deriving Repr, DecidableEq, Inhabited

/-- `_save_part` for every part, in order -/
def encodeParts (st : Store) (sup : Nat → Nat) (tag seq : Option Val) :
    List Part → Except StoreErr (Store × List EPart)
  | [] => .ok (st, [])
  | p :: ps => do
    let (st1, (_, _, vi)) ← st.add sup tag seq p.val
    let (st2, es) ← encodeParts st1 sup tag seq ps
    pure (st2, ⟨p.idx, vi, p.name⟩ :: es)

/-- building and exporting one result; `seqVal` is the sequence id as stored (a string) -/
def encodeRes (st : Store) (sup : Nat → Nat) (r : Res) (seqVal : Option Val) :
    Except StoreErr (Store × ERes) := do
  let (st1, es) ← encodeParts st sup r.tag seqVal r.parts
  let (st2, (ti, si, _)) ← st1.add sup r.tag seqVal none
  pure (st2, { ln := r.ln, parts := es, tagIdx := ti, seqIdx := si, sec := r.sec,
               fields := r.fields })

def encodeAll (st : Store) (sup : Nat → Nat) (seqVal : Nat → Val) :
    List Res → Except StoreErr (Store × List ERes)
  | [] => .ok (st, [])
  | r :: rs => do
    let (st1, e) ← encodeRes st sup r (r.seqId.map seqVal)
    let (st2, es) ← encodeAll st1 sup seqVal rs
    pure (st2, e :: es)

/-- `_get_store_id(field)` for an integer field -/
def ERes.storeIdIdx (e : ERes) (i : Nat) : Option Nat :=
  (e.parts.find? (fun p => p.idx == i && p.sid.isSome)).bind (·.sid)

/-- `_get_store_id(field)` for a field name -/
def ERes.storeIdName (e : ERes) (nm : String) : Option Nat :=
  (e.parts.find? (fun p => p.name == some nm && p.sid.isSome)).bind (·.sid)

/-- `get(i)` = `results_store[store_id]` -/
def ERes.getIdx (st : Store) (e : ERes) (i : Nat) : Option Val := (e.storeIdIdx i).bind st.get
def ERes.getName (st : Store) (e : ERes) (nm : String) : Option Val := (e.storeIdName nm).bind st.get

/-- `list(result)`: `results_store.get(part[1])` for every part -/
def ERes.iter (st : Store) (e : ERes) : List (Option Val) := e.parts.map fun p => p.sid.bind st.get

/-- `result.tag`, `result.sequence_id` -/
def ERes.tag (st : Store) (e : ERes) : Option Val := e.tagIdx.bind st.get
def ERes.seqId (st : Store) (e : ERes) : Option Val := e.seqIdx.bind st.get

end Sk
