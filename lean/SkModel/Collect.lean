/-
  SkModel.Collect — how results travel from search tasks to the caller in a
  multi-process run (task.py `_simple_search`/`_flush_results_buffer`/`put_result`,
  search.py `_run_mp`/`_get_results`/`_purge_results`):

  * `flushBatches`: the results buffer is flushed whenever it holds `FLUSH` results
    (NUM_BUFFERED_RESULTS) and once more at the end, each flush cutting the buffer into
    transit batches of at most `MAXB` results (QueueTransitBuffer.MAX);
  * a transition system: tasks put their batches on a bounded queue, the collector
    thread takes them off and files every result under its path, the main thread waits
    for all tasks, stops the thread, then purges the queue until it is empty and the
    number of collected results has reached the number the tasks reported.
-/
import SkModel.Basic

namespace Sk

/-- results appended one at a time to the buffer; flush at `FLUSH`, final flush at the end -/
def flushBatchesGo {α} (FLUSH MAXB : Nat) : List α → List α → List (List α)
  | buf, [] => chunks MAXB buf
  | buf, r :: rs =>
    let buf' := buf ++ [r]
    if buf'.length ≥ FLUSH then chunks MAXB buf' ++ flushBatchesGo FLUSH MAXB [] rs
    else flushBatchesGo FLUSH MAXB buf' rs

def flushBatches {α} (FLUSH MAXB : Nat) (rs : List α) : List (List α) :=
  flushBatchesGo FLUSH MAXB [] rs

inductive CPhase
  | waiting        -- main thread in as_completed(); collector thread running
  | stopping       -- all tasks done; thread told to stop, still draining
  | purge          -- thread joined; main thread purges the queue
  | returned
deriving Repr, DecidableEq, Inhabited

/-- a task = one file (source id = its index) -/
structure CTask (α : Type) where
  remaining : List (List α)        -- batches not yet put
  total : Nat                      -- stats['results'] the task will report
  finished : Bool := false
deriving Repr, Inhabited

structure CState (α : Type) where
  cap : Option Nat                 -- queue capacity (none = unbounded)
  tasks : Nat → CTask α
  ntasks : Nat
  queue : List (Nat × List α) := []        -- (source id, batch), FIFO
  collected : Nat → List α := fun _ => []  -- per path
  ncollected : Nat := 0                    -- len(results)
  expected : Nat := 0                      -- stats['results'] summed over finished tasks
  phase : CPhase := .waiting

inductive CLbl
  | put (t : Nat)
  | finish (t : Nat)
  | threadGet (src : Nat)      -- the collector receives the oldest queued batch of `src`
  | stopThread
  | threadExit
  | purgeGet (src : Nat)
  | purgeExit
deriving Repr, DecidableEq, Inhabited

def updT {α} (f : Nat → CTask α) (t : Nat) (v : CTask α) : Nat → CTask α :=
  fun x => if x = t then v else f x

def updC {α} (f : Nat → List α) (s : Nat) (v : List α) : Nat → List α :=
  fun x => if x = s then v else f x

/-- remove the first queue entry of source `src` (the queue is FIFO per producer; batches
    of different producers may overtake each other between `put` and arrival) -/
def takeFirst {α} (src : Nat) : List (Nat × List α) → Option (List α × List (Nat × List α))
  | [] => none
  | (s, b) :: rest =>
    if s = src then some (b, rest)
    else match takeFirst src rest with
      | some (b', rest') => some (b', (s, b) :: rest')
      | none => none

def CState.room {α} (s : CState α) : Bool :=
  match s.cap with
  | none => true
  | some c => s.queue.length < c

def cstep {α} (s : CState α) : CLbl → Option (CState α)
  | .put t =>
    let k := s.tasks t
    if t < s.ntasks ∧ !k.finished ∧ s.room then
      match k.remaining with
      | b :: rest => some { s with tasks := updT s.tasks t { k with remaining := rest },
                                   queue := s.queue ++ [(t, b)] }
      | [] => none
    else none
  | .finish t =>
    let k := s.tasks t
    if t < s.ntasks ∧ !k.finished ∧ k.remaining.isEmpty then
      some { s with tasks := updT s.tasks t { k with finished := true },
                    expected := s.expected + k.total }
    else none
  | .threadGet src =>
    if s.phase = .waiting ∨ s.phase = .stopping then
      match takeFirst src s.queue with
      | some (b, rest) =>
        some { s with queue := rest, collected := updC s.collected src (s.collected src ++ b),
                      ncollected := s.ncollected + b.length }
      | none => none
    else none
  | .stopThread =>
    if s.phase = .waiting ∧ (List.range s.ntasks).all (fun t => (s.tasks t).finished) then
      some { s with phase := .stopping }
    else none
  | .threadExit =>
    if s.phase = .stopping then some { s with phase := .purge } else none
  | .purgeGet src =>
    if s.phase = .purge then
      match takeFirst src s.queue with
      | some (b, rest) =>
        some { s with queue := rest, collected := updC s.collected src (s.collected src ++ b),
                      ncollected := s.ncollected + b.length }
      | none => none
    else none
  | .purgeExit =>
    if s.phase = .purge ∧ s.queue.isEmpty ∧ s.expected ≤ s.ncollected then
      some { s with phase := .returned }
    else none

def crun {α} (s : CState α) : List CLbl → Option (CState α)
  | [] => some s
  | l :: ls => match cstep s l with
    | some s' => crun s' ls
    | none => none

/-- initial state: task `t` will put the transit batches of its result list `seq t` -/
def CState.init {α} (cap : Option Nat) (FLUSH MAXB : Nat) (n : Nat) (seq : Nat → List α) :
    CState α :=
  { cap := cap, ntasks := n,
    tasks := fun t => { remaining := flushBatches FLUSH MAXB (seq t), total := (seq t).length } }

end Sk
