/-
  SkModel.Catalog — implementation-layer model of `SearchCatalog` (search.py):
  `_filtered_dir` (skip non-files; names that look like logs are grouped by stem, each
  group of rotated copies is sorted by `logrotate_log_sort` key - Python's stable
  `sorted` - and cut at `max_logrotate_depth`), `_expand_path` (file / directory / glob)
  and `register` (one entry per path, searches appended).

  The three regular expressions hard-coded in search.py are represented by their result
  on each name (`NameCls`, `key`): an oracle computed by the harness independently of
  searchkit, for well-formed names (plain, `stem.log`, `stem.log.N`, `stem.log.N.gz`).
-/
import SkModel.Basic

namespace Sk

/-- what `(\S+)\.log\S*` and `path.endswith('.log')` say about a path -/
inductive NameCls
  | plain                         -- the expression does not match: not a log
  | live (stem : String)          -- matches and ends with ".log": kept as `stem ++ ".log"`
  | rotated (stem : String)       -- matches, does not end with ".log": a rotated copy
deriving Repr, DecidableEq, Inhabited

structure DirEntry where
  path : String
  isFile : Bool                   -- os.path.isfile(path)
  cls : NameCls
  key : Nat                       -- logrotate_log_sort(path): 0, N, or 100000
deriving Repr, DecidableEq, Inhabited

/-- insert into a list sorted by key, after all elements with a key ≤ (stable) -/
def insertByKey (e : DirEntry) : List DirEntry → List DirEntry
  | [] => [e]
  | x :: xs => if e.key < x.key then e :: x :: xs else x :: insertByKey e xs

/-- Python's stable `sorted(group, key=logrotate_log_sort)` -/
def sortByKey (es : List DirEntry) : List DirEntry :=
  es.foldl (fun acc e => insertByKey e acc) []

/-- insertion-ordered dict stem ↦ rotated copies -/
def groupAddE (g : List (String × List DirEntry)) (stem : String) (e : DirEntry) :
    List (String × List DirEntry) :=
  if g.any (fun p => p.1 == stem) then
    g.map (fun p => if p.1 == stem then (p.1, p.2 ++ [e]) else p)
  else g ++ [(stem, [e])]

/-- `_filtered_dir(contents, max_logrotate_depth)` -/
def filteredDir (contents : List DirEntry) (depth : Nat) : List String :=
  let files := contents.filter (·.isFile)
  let kept := files.filterMap fun e => match e.cls with
    | .plain => some e.path
    | .live stem => some (stem ++ ".log")
    | .rotated _ => none
  let groups := files.foldl (fun g e => match e.cls with
    | .rotated stem => groupAddE g stem e
    | _ => g) []
  kept ++ groups.flatMap fun p => ((sortByKey p.2).take depth).map (·.path)

/-- what a user path is on disk -/
inductive PathKind
  | file                                   -- os.path.isfile(path)
  | dir (listing : List DirEntry)          -- os.listdir(path), joined to the directory
  | other (globbed : List DirEntry)        -- glob.glob(path)

/-- `_expand_path` -/
def expandPath (path : String) (k : PathKind) (depth : Nat) : List String :=
  match k with
  | .file => [path]
  | .dir l => filteredDir l depth
  | .other g => filteredDir g depth

/-- catalog entries: path ↦ searches (ids), in order of first registration -/
abbrev Entries := List (String × List Nat)

def registerPath (es : Entries) (search : Nat) (path : String) : Entries :=
  if es.any (fun p => p.1 == path) then
    es.map (fun p => if p.1 == path then (p.1, p.2 ++ [search]) else p)
  else es ++ [(path, [search])]

/-- `register(search, user_path)` given the expansion of the user path -/
def register (es : Entries) (search : Nat) (expanded : List String) : Entries :=
  expanded.foldl (fun acc p => registerPath acc search p) es

end Sk
