/-
  SkModel.SeekerND — `apply_to_file(fd, destructive=False)` (constraints.py): the binary seek
  runs as usual and its result is RETURNED, but the file position is put back where the caller
  had it (offset 0 for a freshly opened file).  The exception paths are not conditional on the
  flag: no timestamp at all / too many undated lines → position 0; no valid line / line too
  long → end of file.
-/
import SkModel.Seeker

namespace Sk

/-- (returned offset, position the file is left at) -/
def applyToFileND (K : SeekK) (F : FileV) (ts : Nat → Option Int) (since : Int) :
    Except SeekErr (Nat × Nat) :=
  match seekerRun K F ts since 0 with
  | .ok p => .ok (p.toNat, 0)
  | .error .noTimestamps => .ok (0, 0)
  | .error .noValidLines => .ok (F.len, F.len)
  | .error .tooManyUndated => .ok (0, 0)
  | .error .maxLineLen => .ok (F.len, F.len)
  | .error .assertFailed => .error .assertFailed

end Sk
