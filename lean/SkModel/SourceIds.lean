/-
  SkModel.SourceIds — `SearchCatalog`'s table of source ids (search.py): every catalog entry
  gets a small integer id (`get_source_id`: the id of an equal path string if there is one,
  otherwise max + 1, starting at 0 - INSERTED on a miss), results carry only that id and
  `SearchResultsCollection.add` files them under `source_id_to_path(id)`.

  The table is separate from the catalog entries: `FileSearcher.files` and the tasks are built
  from the ENTRIES; a lookup for a path that was never registered extends the id table only.
-/
import SkModel.Catalog

namespace Sk

abbrev IdTable := List (Nat × String)           -- insertion-ordered dict id ↦ path

def IdTable.idOf (t : IdTable) (path : String) : Option Nat :=
  (t.find? (fun p => p.2 == path)).map (·.1)

def IdTable.nextId (t : IdTable) : Nat :=
  match t with
  | [] => 0
  | _ => (t.map (·.1)).foldl max 0 + 1

/-- `get_source_id(path)`: (table afterwards, id) -/
def IdTable.get (t : IdTable) (path : String) : IdTable × Nat :=
  match t.idOf path with
  | some i => (t, i)
  | none => (t ++ [(t.nextId, path)], t.nextId)

/-- `source_id_to_path(id)` -/
def IdTable.pathOf (t : IdTable) (i : Nat) : Option String := t.lookup i

/-- catalog state: entries (path ↦ searches) and the id table -/
structure CatSt where
  entries : Entries := []
  ids : IdTable := []
deriving Repr, DecidableEq, Inhabited

/-- `register(search, user_path)` given the expansion: a NEW entry asks for its source id -/
def CatSt.registerPath (c : CatSt) (search : Nat) (path : String) : CatSt :=
  if c.entries.any (fun p => p.1 == path) then
    { c with entries := Sk.registerPath c.entries search path }
  else
    { entries := Sk.registerPath c.entries search path, ids := (c.ids.get path).1 }

def CatSt.register (c : CatSt) (search : Nat) (expanded : List String) : CatSt :=
  expanded.foldl (fun acc p => acc.registerPath search p) c

/-- a caller asking for the id of an arbitrary path (public `get_source_id`) -/
def CatSt.lookup (c : CatSt) (path : String) : CatSt × Nat :=
  let r := c.ids.get path
  ({ c with ids := r.1 }, r.2)

/-- `FileSearcher.files` -/
def CatSt.files (c : CatSt) : List String := c.entries.map (·.1)

/-- operations of a caller -/
inductive CatOp
  | register (search : Nat) (expanded : List String)
  | lookup (path : String)
deriving Repr, DecidableEq, Inhabited

def CatSt.step (c : CatSt) : CatOp → CatSt
  | .register s e => c.register s e
  | .lookup p => (c.lookup p).1

def CatSt.run (c : CatSt) (ops : List CatOp) : CatSt := ops.foldl CatSt.step c

end Sk
