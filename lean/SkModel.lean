-- Root of the `SkModel` library: models, specifications, proofs, property theorems.
import SkModel.Basic
import SkModel.Task
import SkModel.Result
import SkModel.Spec.Simple
import SkModel.Spec.Sequence
import SkModel.Proofs.Solo
import SkModel.Store
import SkModel.Seeker
import SkModel.Spec.Lines
import SkModel.Proofs.TaskProj
import SkModel.Theorems.C01
import SkModel.Proofs.SeqCore
import SkModel.Theorems.C03
import SkModel.Proofs.StoreInv
import SkModel.Theorems.C15
import SkModel.Spec.Gate
