/-
  Line-protocol driver: one JSON case per input line, one JSON observation per output
  line.  It executes the *compiled form of the very definitions the theorems are about*
  (SkModel.*); nothing here is part of any proof.
-/
import Lean.Data.Json
import SkModel.Basic
import SkModel.Task
import SkModel.Result
import SkModel.Spec.Simple

open Lean Sk

namespace Drv

def getD? (j : Json) (k : String) : Option Json :=
  match j.getObjVal? k with
  | .ok .null => none
  | .ok v => some v
  | .error _ => none

def asNat (j : Json) : Nat := (j.getNat?).toOption.getD 0
def asInt (j : Json) : Int := (j.getInt?).toOption.getD 0
def asStr (j : Json) : String := (j.getStr?).toOption.getD ""
def asBool (j : Json) : Bool := (j.getBool?).toOption.getD false
def asArr (j : Json) : Array Json := (j.getArr?).toOption.getD #[]
def fld (j : Json) (k : String) : Json := (j.getObjVal? k).toOption.getD .null
def natF (j : Json) (k : String) : Nat := asNat (fld j k)
def strF (j : Json) (k : String) : String := asStr (fld j k)
def boolF (j : Json) (k : String) : Bool := asBool (fld j k)
def arrF (j : Json) (k : String) : Array Json := asArr (fld j k)
def optStr (j : Json) : Option String := match j with | .str s => some s | _ => none

def optJson {α} (f : α → Json) : Option α → Json
  | some a => f a
  | none => .null

/-! ### Task -/

def toMatch (j : Json) : Option Match :=
  match j with
  | .null => none
  | _ => some { g0 := strF j "g0", groups := (arrF j "g").toList.map optStr }

def tableFn {α} (a : Array α) (dflt : α) : Nat → α := fun i => a.getD i dflt

def toSDef (j : Json) : SDef :=
  let hint : Option (Nat → Bool) :=
    match getD? j "hint" with
    | some h => some (tableFn ((asArr h).map asBool) false)
    | none => none
  let pats := (arrF j "pats").toList.map fun p => tableFn ((asArr p).map toMatch) none
  { hint := hint, pats := pats, emptyRes := toMatch (fld j "empty"),
    store := boolF j "store", tag := optStr (fld j "tag"),
    fields := (getD? j "fields").map fun f => (asArr f).toList.map asStr }

def toCOut (j : Json) : COut :=
  match asStr j with
  | "p" => .pass
  | "f" => .fail
  | _ => .undec

def toDef (j : Json) : Def :=
  let cons := (arrF j "cons").toList.map fun c => tableFn ((asArr c).map toCOut) .undec
  let kind : Kind :=
    if strF j "type" == "seq" then
      .seq { start := toSDef (fld j "start"), body := (getD? j "body").map toSDef,
             end_ := (getD? j "end").map toSDef, tag := strF j "tag" }
    else .simple (toSDef (fld j "sd"))
  { id := natF j "id", kind := kind, cons := cons }

def partJson (p : Part) : Json :=
  Json.arr #[toJson p.idx, optJson Json.str p.val, optJson Json.str p.name]

def optVal (v : Option Val) : Json := optJson Json.str v

def resJson (K : Nat) (r : Res) : Json :=
  let names := r.fields.getD []
  Json.mkObj [("ln", toJson r.ln), ("tag", optJson Json.str r.tag),
    ("iter", Json.arr (r.iter.map optVal).toArray),
    ("byidx", Json.arr ((List.range (K + 1)).map (fun i => optVal (r.getIdx i))).toArray),
    ("byname", Json.mkObj (names.map fun nm =>
        (nm, Json.arr #[optVal (r.getName nm),
                        match r.attr nm with | some v => optVal v | none => Json.str "!noattr"]))),
    ("seq", optJson (fun (n : Nat) => toJson n) r.seqId), ("src", toJson r.src),
    ("sec", optJson (fun (p : Nat × Nat) => Json.arr #[toJson p.1, toJson p.2]) r.sec),
    ("parts", Json.arr (r.parts.map partJson).toArray),
    ("fields", optJson (fun (fs : List String) => Json.arr (fs.map Json.str).toArray) r.fields)]

def errJson : Err → Json
  | .unicodeDecode => "unicodeDecode"
  | .fileSearch => "fileSearch"

def toTaskIn (j : Json) : TaskIn :=
  { n := natF j "n", dec := tableFn ((arrF j "dec").map asBool) true,
    defs := (arrF j "defs").toList.map toDef }

def runTaskCase (j : Json) : Json :=
  match runTask (toTaskIn j) with
  | .ok (rs, st) =>
    Json.mkObj [("results", Json.arr (rs.map (resJson (natF j "K"))).toArray),
                ("lines", toJson st.lines), ("nres", toJson st.results)]
  | .error e => Json.mkObj [("err", errJson e)]

/-- spec layer for C01: per simple definition, (ln, values) of every matching line -/
def specSimpleCase (j : Json) : Json :=
  let t := toTaskIn j
  Json.mkObj ((dedupDefs t.defs []).filterMap fun d =>
    match d.kind with
    | .simple sd =>
      some (toString d.id, Json.arr ((Spec.simple sd t.n).map fun (ln, vs) =>
        Json.arr #[toJson ln, Json.arr (vs.map optVal).toArray]).toArray)
    | .seq _ => none)

def handle (j : Json) : Json :=
  match strF j "kind" with
  | "task" => Json.mkObj [("model", runTaskCase j), ("specSimple", specSimpleCase j)]
  | k => Json.mkObj [("bad", Json.str s!"unknown kind {k}")]

end Drv

partial def loop (h : IO.FS.Stream) (out : IO.FS.Stream) : IO Unit := do
  let line ← h.getLine
  if line.isEmpty then return ()
  match Json.parse line with
  | .ok j => out.putStrLn (Json.compress (Drv.handle j))
  | .error e => out.putStrLn (Json.compress (Json.mkObj [("bad", Json.str e)]))
  loop h out

def main : IO Unit := do
  let out ← IO.getStdout
  loop (← IO.getStdin) out
  out.flush
