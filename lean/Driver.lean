/-
  Line-protocol driver: one JSON case per input line, one JSON observation per output
  line.  It executes the *compiled form of the very definitions the theorems are about*
  (SkModel.*); nothing here is part of any proof.
-/
import Lean.Data.Json
import SkModel.Basic
import SkModel.Task
import SkModel.Result
import SkModel.Spec.Simple
import SkModel.Spec.Sequence
import SkModel.Spec.Gate
import SkModel.Store
import SkModel.Seeker
import SkModel.Since
import SkModel.Collection
import SkModel.ParStore
import SkModel.Runner
import SkModel.Collect
import SkModel.Catalog
import SkModel.NameRx
import SkModel.Cache
import SkModel.Fault
import SkModel.Spec.Lines
import SkModel.Fast
import SkModel.StdTs
import SkModel.Searcher
import SkModel.SourceIds

open Lean Sk

namespace Drv

def getD? (j : Json) (k : String) : Option Json :=
  match j.getObjVal? k with
  | .ok .null => none
  | .ok v => some v
  | .error _ => none

def asNat (j : Json) : Nat := (j.getNat?).toOption.getD 0
def asInt (j : Json) : Int := (j.getInt?).toOption.getD 0
def asStr (j : Json) : String := (j.getStr?).toOption.getD ""
def asBool (j : Json) : Bool := (j.getBool?).toOption.getD false
def asArr (j : Json) : Array Json := (j.getArr?).toOption.getD #[]
def fld (j : Json) (k : String) : Json := (j.getObjVal? k).toOption.getD .null
def natF (j : Json) (k : String) : Nat := asNat (fld j k)
def strF (j : Json) (k : String) : String := asStr (fld j k)
def boolF (j : Json) (k : String) : Bool := asBool (fld j k)
def arrF (j : Json) (k : String) : Array Json := asArr (fld j k)
def optStr (j : Json) : Option String := match j with | .str s => some s | _ => none

def optJson {α} (f : α → Json) : Option α → Json
  | some a => f a
  | none => .null

def optNat (v : Option Nat) : Json := optJson (fun (n : Nat) => toJson n) v

/-! ### Task -/

def toMatch (j : Json) : Option Match :=
  match j with
  | .null => none
  | _ => some { g0 := strF j "g0", groups := (arrF j "g").toList.map optStr }

def tableFn {α} (a : Array α) (dflt : α) : Nat → α := fun i => a.getD i dflt

def toSDef (j : Json) : SDef :=
  let hint : Option (Nat → Bool) :=
    match getD? j "hint" with
    | some h => some (tableFn ((asArr h).map asBool) false)
    | none => none
  let pats := ((arrF j "pats").toList.map fun p => (asArr p).map toMatch).map fun a => tableFn a none
  { hint := hint, pats := pats, emptyRes := toMatch (fld j "empty"),
    store := boolF j "store", tag := optStr (fld j "tag"),
    fields := (getD? j "fields").map fun f => (asArr f).toList.map asStr }

def toCOut (j : Json) : COut :=
  match asStr j with
  | "p" => .pass
  | "f" => .fail
  | _ => .undec

def toDef (j : Json) : Def :=
  let cons := ((arrF j "cons").toList.map fun c => (asArr c).map toCOut).map fun a => tableFn a .undec
  let kind : Kind :=
    if strF j "type" == "seq" then
      .seq { start := toSDef (fld j "start"), body := (getD? j "body").map toSDef,
             end_ := (getD? j "end").map toSDef, tag := strF j "tag" }
    else .simple (toSDef (fld j "sd"))
  { id := natF j "id", kind := kind, cons := cons }

def partJson (p : Part) : Json :=
  Json.arr #[toJson p.idx, optJson Json.str p.val, optJson Json.str p.name]

def optVal (v : Option Val) : Json := optJson Json.str v

def resJson (K : Nat) (r : Res) : Json :=
  let names := r.fields.getD []
  Json.mkObj [("ln", toJson r.ln), ("tag", optJson Json.str r.tag),
    ("iter", Json.arr (r.iter.map optVal).toArray),
    ("byidx", Json.arr ((List.range (K + 1)).map (fun i => optVal (r.getIdx i))).toArray),
    ("byname", Json.mkObj (names.map fun nm =>
        (nm, Json.arr #[optVal (r.getName nm),
                        match r.attr nm with | some v => optVal v | none => Json.str "!noattr"]))),
    ("seq", optJson (fun (n : Nat) => toJson n) r.seqId), ("src", toJson r.src),
    ("sec", optJson (fun (p : Nat × Nat) => Json.arr #[toJson p.1, toJson p.2]) r.sec),
    ("parts", Json.arr (r.parts.map partJson).toArray),
    ("fields", optJson (fun (fs : List String) => Json.arr (fs.map Json.str).toArray) r.fields)]

def errJson : Err → Json
  | .unicodeDecode => "unicodeDecode"
  | .fileSearch => "fileSearch"

def toTaskIn (j : Json) : TaskIn :=
  { n := natF j "n", dec := tableFn ((arrF j "dec").map asBool) true,
    defs := (arrF j "defs").toList.map toDef }

def runTaskCase (j : Json) : Json :=
  match runTask (toTaskIn j) with
  | .ok (rs, st) =>
    Json.mkObj [("results", Json.arr (rs.map (resJson (natF j "K"))).toArray),
                ("lines", toJson st.lines), ("nres", toJson st.results)]
  | .error e => Json.mkObj [("err", errJson e)]

/-- spec layer for C01: per simple definition, (ln, values) of every matching line -/
def specSimpleCase (j : Json) : Json :=
  let t := toTaskIn j
  Json.mkObj ((dedupDefs t.defs []).filterMap fun d =>
    match d.kind with
    | .simple sd =>
      some (toString d.id, Json.arr ((Spec.simple sd t.n).map fun (ln, vs) =>
        Json.arr #[toJson ln, Json.arr (vs.map optVal).toArray]).toArray)
    | .seq _ => none)

/-- spec layer for C03: per sequence definition, its complete sections -/
def specSeqCase (j : Json) : Json :=
  let t := toTaskIn j
  Json.mkObj ((dedupDefs t.defs []).filterMap fun d =>
    match d.kind with
    | .seq s =>
      let sdOf (role : String) : SDef :=
        if role == "-start" then s.start
        else if role == "-body" then s.body.getD s.start else s.end_.getD s.start
      some (toString d.id, Json.arr ((Spec.sections s t.n).map fun sec =>
        Json.arr ((Spec.itemsOf s t.n sec).map fun it =>
          Json.arr #[Json.str it.role, toJson it.ln,
            Json.arr ((Spec.values (sdOf it.role) it.m).map optVal).toArray]).toArray).toArray)
    | .simple _ => none)

/-! ### model-vs-spec small-scope sanity for C03 (not a proof; guards the statement) -/

def clsSDef (bit : Nat) (role : String) (cls : Array Nat) (emptyHit : Bool) : SDef :=
  { pats := [fun i => if (cls.getD i 0) / bit % 2 == 1
                      then some { g0 := s!"{role}{i}", groups := [] } else none],
    emptyRes := if emptyHit then some { g0 := s!"{role}E", groups := [] } else none }

def eraseSec (rs : List Res) : List (String × Nat × List (Option Val)) :=
  rs.map fun r => (r.tag.getD "", r.ln, r.iter)

def groupBySec (rs : List Res) : List (List (String × Nat × List (Option Val))) :=
  let keys := (rs.map (·.sec)).eraseDups
  keys.map fun k => eraseSec (rs.filter (·.sec == k))

def c03One (cls : Array Nat) (hasBody hasEnd endEmpty : Bool) : Bool :=
  let n := cls.size
  let s : SeqDef := { start := clsSDef 1 "S" cls false,
                      body := if hasBody then some (clsSDef 2 "B" cls false) else none,
                      end_ := if hasEnd then some (clsSDef 4 "E" cls endEmpty) else none,
                      tag := "q" }
  let t : TaskIn := { n := n, dec := fun _ => true, defs := [{ id := 7, kind := .seq s }] }
  match runTask t with
  | .ok (rs, _) =>
    let want := (Spec.sections s n).map fun sec =>
      (Spec.itemsOf s n sec).map fun it => ("q" ++ it.role, it.ln, Spec.values s.start it.m)
    groupBySec rs == want
  | .error _ => false

partial def c03Exh (L : Nat) : Nat × Nat := Id.run do
  let mut total := 0
  let mut bad := 0
  for len in [0:L+1] do
    let count := 8 ^ len
    for code in [0:count] do
      let mut cls : Array Nat := #[]
      let mut c := code
      for _ in [0:len] do
        cls := cls.push (c % 8)
        c := c / 8
      for cfg in [0:6] do
        -- cfg: hasBody = cfg%2, end mode = cfg/2 (0 none, 1 end, 2 end matching empty)
        let ok := c03One cls (cfg % 2 == 1) (cfg / 2 ≥ 1) (cfg / 2 == 2)
        total := total + 1
        if !ok then bad := bad + 1
  return (total, bad)

/-! ### Store (C15) -/

def storeJson (st : Store) : Json :=
  Json.mkObj [("data", Json.arr (st.data.map fun p => Json.arr #[toJson p.1, Json.str p.2]).toArray),
              ("nblocks", toJson st.nblocks)]

def runStoreCase (j : Json) : Json :=
  let supA := (arrF j "sup").map asNat
  let sup : Nat → Nat := fun k => supA.getD k 0
  let st0 : Store := { B := natF j "B", pre := boolF j "pre" }
  let ops := (arrF j "ops").toList.map fun o =>
    let a := asArr o
    (optStr (a.getD 0 .null), optStr (a.getD 1 .null), optStr (a.getD 2 .null))
  let rec go (st : Store) (ops : List (Option Val × Option Val × Option Val)) (acc : Array Json) :
      Array Json :=
    match ops with
    | [] => acc
    | (t, s, v) :: rest =>
      match st.add sup t s v with
      | .ok (st', (ti, si, vi)) =>
        go st' rest (acc.push (Json.mkObj [("ret", Json.arr #[optNat ti, optNat si, optNat vi]),
                                            ("store", storeJson st')]))
      | .error _ => acc.push (Json.mkObj [("err", "alloc")])
  Json.mkObj [("steps", Json.arr (go st0 ops #[]))]

/-! ### Seeker (C11, C04) -/

/-- index of the first element ≥ x in a sorted array -/
def lowerBound (a : Array Nat) (x : Nat) : Nat := Id.run do
  let mut lo := 0
  let mut hi := a.size
  while lo < hi do
    let mid := (lo + hi) / 2
    if a.getD mid 0 < x then lo := mid + 1 else hi := mid
  return lo

def memSorted (a : Array Nat) (x : Nat) : Bool :=
  let i := lowerBound a x
  i < a.size && a.getD i 0 == x

def seekErrJson : SeekErr → Json
  | .maxLineLen => "maxLineLen"
  | .tooManyUndated => "tooManyUndated"
  | .noTimestamps => "noTimestamps"
  | .noValidLines => "noValidLines"
  | .assertFailed => "assertFailed"

def optInt (v : Option Int) : Json := optJson (fun (n : Int) => toJson n) v

def tokJson : Tok → Json
  | .found o => Json.arr #["F", toJson o]
  | .edge o => Json.arr #["E", toJson o]

def llineJson (ts : Nat → Option Int) (l : LLine) : Json :=
  Json.arr #[toJson l.startOffset, toJson l.endOffset, optInt (l.date ts)]

def runSeekCase (j : Json) : Json :=
  let lfs := (arrF j "lfs").map asNat
  let F : FileV := { len := natF j "len", isLF := fun i => memSorted lfs i }
  let tsTab := (arrF j "ts").map fun e => let a := asArr e
    (asNat (a.getD 0 .null), asInt (a.getD 1 .null), asNat (a.getD 2 .null))
  let tsOff := tsTab.map (·.1)
  let tsEntry (o : Nat) : Option (Int × Nat) :=
    let i := lowerBound tsOff o
    if i < tsTab.size && tsOff.getD i 0 == o then
      let e := tsTab.getD i (0, 0, 0); some (e.2.1, e.2.2) else none
  let ts : Nat → Option Int := fun o => (tsEntry o).map (·.1)
  let K : SeekK := { H := natF j "H", EXP := natF j "EXP", ATT := natF j "ATT" }
  let since := asInt (fld j "since")
  let outs := (arrF j "ops").map fun op =>
    let a := asArr op
    let o := asNat (a.getD 1 .null)
    match asStr (a.getD 0 .null) with
    | "tfl_all" =>
      let rows := (List.range (F.len + 1)).map fun o =>
        match tryFindLine K F o none none with
        | .ok l => llineJson ts l
        | .error e => seekErrJson e
      let spec := (List.range (F.len + 1)).map fun o =>
        Json.arr #[toJson (Spec.lineStart F o), toJson (Spec.lineEnd F o)]
      Json.mkObj [("tfl", Json.arr rows.toArray), ("spec", Json.arr spec.toArray)]
    | "tfl" =>
      match tryFindLine K F o none none with
      | .ok l => Json.mkObj [("tfl", llineJson ts l),
                              ("spec", Json.arr #[toJson (Spec.lineStart F o), toJson (Spec.lineEnd F o)])]
      | .error e => Json.mkObj [("tfl", seekErrJson e),
                                 ("spec", Json.arr #[toJson (Spec.lineStart F o), toJson (Spec.lineEnd F o)])]
    | "ftr" =>
      match findTokenReverse K F o with
      | .ok t => Json.mkObj [("tok", tokJson t)]
      | .error e => Json.mkObj [("tok", seekErrJson e)]
    | "ft" =>
      match findToken K F o with
      | .ok t => Json.mkObj [("tok", tokJson t)]
      | .error e => Json.mkObj [("tok", seekErrJson e)]
    | "getitem" =>
      match getItem K F ts o with
      | .ok l => Json.mkObj [("item", llineJson ts l)]
      | .error e => Json.mkObj [("item", seekErrJson e)]
    | "apply" =>
      let starts := Spec.lineStarts F
      let h4 := starts.all fun s => match tsEntry s with
        | some (_, mlen) => mlen ≤ Spec.lineEnd F s - s
        | none => true
      let hyps := Json.mkObj [
        ("monotone", toJson (Spec.datedMonotone F ts)),
        ("undatedRun", toJson (Spec.longestUndatedRun F ts)),
        ("longestLine", toJson (Spec.longestLine F)),
        ("windowOk", toJson h4),
        ("emptyUndated", toJson (starts.all fun s => !(F.isLF s) || (ts s).isNone)),
        ("endUndated", toJson (ts F.len).isNone)]
      let m := match applyToFile K F ts since with
        | .ok p => Json.mkObj [("pos", toJson p)]
        | .error e => Json.mkObj [("err", seekErrJson e)]
      Json.mkObj [("apply", m), ("spec", toJson (Spec.sincePosition F ts since)), ("hyps", hyps)]
    | k => Json.mkObj [("_bad", Json.str s!"unknown seek op {k}")]
  Json.mkObj [("outs", Json.arr outs)]

def shiftSDef (a : Nat) (sd : SDef) : SDef :=
  { sd with hint := sd.hint.map (fun h i => h (i + a)), pats := sd.pats.map (fun p i => p (i + a)) }

/-- spec layer for C07, sequence searches: the complete sections of reading the lines from
    the activation line on with the unconstrained state machine (C07_gate_exact_seq), as
    [[role, ln, values]] per section; only for homogeneous constraint sets -/
def specSeqGatedCase (j : Json) : Json :=
  let t := toTaskIn j
  Json.mkObj ((dedupDefs t.defs []).filterMap fun d =>
    match d.kind with
    | .seq s =>
      if d.cons.isEmpty || !(Spec.homogeneous d.cons t.n) then none else
      let a := (Spec.activation d.cons t.n).getD t.n
      let s' : SeqDef := { start := shiftSDef a s.start, body := s.body.map (shiftSDef a),
                           end_ := s.end_.map (shiftSDef a), tag := s.tag }
      let n' := t.n - a
      let sdOf (role : String) : SDef :=
        if role == "-start" then s'.start
        else if role == "-body" then s'.body.getD s'.start else s'.end_.getD s'.start
      some (toString d.id, Json.arr ((Spec.sections s' n').map fun sec =>
        Json.arr ((Spec.itemsOf s' n' sec).map fun it =>
          Json.arr #[Json.str it.role, toJson (it.ln + a),
            Json.arr ((Spec.values (sdOf it.role) it.m).map optVal).toArray]).toArray).toArray)
    | .simple _ => none)

/-- spec layer for C07: per constrained definition, activation line and homogeneity -/
def specGateCase (j : Json) : Json :=
  let t := toTaskIn j
  Json.mkObj ((dedupDefs t.defs []).filterMap fun d =>
    if d.cons.isEmpty then none else
    some (toString d.id, Json.mkObj [
      ("activation", optNat (Spec.activation d.cons t.n)),
      ("homogeneous", toJson (Spec.homogeneous d.cons t.n))]))

/-! ### Since (C16) -/

def toCivil (j : Json) : Civil :=
  let a := (asArr j).map asNat
  { y := a.getD 0 0, mo := a.getD 1 0, d := a.getD 2 0, h := a.getD 3 0, mi := a.getD 4 0, s := a.getD 5 0 }

def coutJson : COut → Json
  | .pass => "p"
  | .fail => "f"
  | .undec => "u"

/-- since: Python's since_date (civil); cur/days/hours: constructor arguments as normalised by
    the harness; lines: extracted timestamps (civil or null) in call order -/
def runSinceCase (j : Json) : Json :=
  let cur := toCivil (fld j "cur")
  let since := toCivil (fld j "since")
  let days := asInt (fld j "days")
  let hours := asInt (fld j "hours")
  let lines := (arrF j "lines").toList.map fun l => match l with
    | .null => none
    | v => some (toCivil v)
  let (st, outs) := applyMany since {} lines
  let secs := lines.map fun l => match l with
    | some c => Json.arr #[toJson c.valid, toJson c.toSeconds]
    | none => .null
  Json.mkObj [("curValid", toJson cur.valid), ("sinceValid", toJson since.valid),
    ("curSecs", toJson cur.toSeconds), ("sinceSecs", toJson since.toSeconds),
    ("window", toJson (windowSeconds days hours)),
    ("outs", Json.arr (outs.map coutJson).toArray), ("lineSecs", Json.arr secs.toArray),
    ("pass", toJson st.pass), ("fail", toJson st.fail)]

/-! ### Collection (C14) -/

def toCRes (j : Json) : CRes :=
  { uid := natF j "uid", src := natF j "src", tag := optStr (fld j "tag"),
    seqId := (getD? j "seq").map asNat, sec := (getD? j "sec").map asNat }

def uids (rs : List CRes) : Json := Json.arr (rs.map fun r => toJson r.uid).toArray

def sectionsJson (g : List (Option Nat × List CRes)) : Json :=
  Json.arr (g.map fun p => Json.arr #[optNat p.1, uids p.2]).toArray

def optPath (j : Json) : Option Nat := match j with | .null => none | v => some (asNat v)

def runCollCase (j : Json) : Json :=
  let batches := (arrF j "batches").toList.map fun b => (asArr b).toList.map toCRes
  let c : Coll := batches.foldl Coll.add []
  let qs := (arrF j "queries").map fun q =>
    let a := asArr q
    match asStr (a.getD 0 .null) with
    | "len" => toJson c.len
    | "all" => uids c.all
    | "files" => Json.arr (c.files.map fun f => toJson f).toArray
    | "items" => Json.arr (c.items.map fun p => Json.arr #[toJson p.1, uids p.2]).toArray
    | "path" => uids (c.findByPath (asNat (a.getD 1 .null)))
    | "tag" => uids (c.findByTag (asStr (a.getD 1 .null)) (optPath (a.getD 2 .null)))
    | "seqobj" => sectionsJson (c.findSeqSections (asNat (a.getD 1 .null)) (optPath (a.getD 2 .null)))
    | "seqtag" => sectionsJson (c.findSeqByTag ((asArr (a.getD 1 .null)).toList.map asNat)
                                (optPath (a.getD 2 .null)))
    | k => Json.str s!"unknown query {k}"
  Json.mkObj [("answers", Json.arr qs)]

/-! ### ParStore (C06): validate an implementation trace against the transition system -/

def toNs (j : Json) : Ns :=
  match asStr j with
  | "tag" => .tag
  | "seq" => .seq
  | _ => .value

partial def advanceLocal (s : PState) (w : Nat) : PState :=
  match pstep s (.local_ w) with
  | some s' => advanceLocal s' w
  | none => s

/-- returns (state, none) or (state reached, some reason) -/
def applyEvent (s : PState) (retCount : Nat → Nat) (ev : Json) :
    PState × (Nat → Nat) × Option String :=
  let a := asArr ev
  let kind := asStr (a.getD 0 .null)
  let w := asNat (a.getD 1 .null)
  let s := advanceLocal s w
  let stepOr (l : PLbl) (what : String) : PState × (Nat → Nat) × Option String :=
    match pstep s l with
    | some s' => (s', retCount, none)
    | none => (s, retCount, some s!"{what} by worker {w} is not an enabled step of the model")
  match kind with
  | "acq" => stepOr (.acquire w) "lock acquire"
  | "rel" => stepOr (.release w) "lock release"
  | "pget" => stepOr (.readPtr w (asNat (a.getD 2 .null))) "pointer read"
  | "pset" => stepOr (.writePtr w (asNat (a.getD 2 .null))) "pointer write"
  | "dset" => stepOr (.syncData w (asNat (a.getD 2 .null)) (asStr (a.getD 3 .null))) "shared data write"
  | "rin" => stepOr (.syncRevRead w (toNs (a.getD 2 .null)) (asStr (a.getD 3 .null))
                      (asBool (a.getD 4 .null))) "shared reverse-map membership test"
  | "rset" => stepOr (.syncRevWrite w (toNs (a.getD 2 .null)) (asStr (a.getD 3 .null))
                       (asNat (a.getD 4 .null))) "shared reverse-map write"
  | "syncstart" =>
    -- entering sync(): with the lock (an "acq" follows) or without; nothing to do here
    (s, retCount, none)
  | "syncend" =>
    let s1 := match pstep s (.syncStart w) with | some s' => s' | none => s
    (match pstep s1 (.syncDone w) with
     | some s' => (s', retCount, none)
     | none => (s1, retCount, some s!"sync() of worker {w} returned but the model cannot finish it"))
  | "ret" =>
    let k := retCount w
    let rets := (s.ws w).rets
    let want := [rets.getD (3 * k + 1) none, rets.getD (3 * k + 2) none, rets.getD (3 * k) none]
    let got := [2, 3, 4].map fun i => match a.getD i .null with | .null => none | v => some (asNat v)
    if rets.length < 3 * k + 3 then
      (s, retCount, some s!"add #{k} of worker {w} returned but the model still needs a block")
    else if want != got then
      (s, retCount, some s!"add #{k} of worker {w} returned {got} but the model computes {want}")
    else (s, fun x => if x = w then k + 1 else retCount x, none)
  | k => (s, retCount, some s!"unknown event {k}")

def runParCase (j : Json) : Json :=
  let B := natF j "B"
  let progsA := (arrF j "progs").map fun p =>
    microOps ((asArr p).toList.map fun o => let a := asArr o
      (optStr (a.getD 0 .null), optStr (a.getD 1 .null), optStr (a.getD 2 .null)))
  let n := progsA.size
  let s0 := PState.init B (fun w => progsA.getD w [])
  let evs := arrF j "events"
  let rec go (i : Nat) (s : PState) (rc : Nat → Nat) (fuel : Nat) : PState × Option (Nat × String) :=
    match fuel with
    | 0 => (s, none)
    | fuel + 1 =>
      if i < evs.size then
        match applyEvent s rc (evs.getD i .null) with
        | (s', rc', none) => go (i + 1) s' rc' fuel
        | (s', _, some why) => (s', some (i, why))
      else (s, none)
  let (sF, bad) := go 0 s0 (fun _ => 0) (evs.size + 1)
  let workers := (List.range n).map fun w =>
    let p := sF.ws w
    Json.mkObj [("done", toJson (p.pc == .done)), ("grants", toJson p.grants),
                ("rets", Json.arr (p.rets.map optNat).toArray),
                ("data", Json.arr (p.st.data.map fun q => Json.arr #[toJson q.1, Json.str q.2]).toArray)]
  -- shared data as a dict: newest write wins
  let keys := (sF.sdata.map (·.1)).eraseDups
  let shared := keys.map fun k => Json.arr #[toJson k, optVal (sF.sdata.lookup k)]
  Json.mkObj [("valid", toJson bad.isNone),
    ("at", match bad with | some (i, _) => toJson i | none => .null),
    ("why", match bad with | some (_, w) => Json.str w | none => .null),
    ("ptr", toJson sF.ptr), ("lockFree", toJson sF.lock.isNone),
    ("workers", Json.arr workers.toArray), ("shared", Json.arr shared.toArray)]

/-! ### Runner (C17, C18, C08) -/

def planJson : Plan → Json
  | .nothing => Json.arr #["nothing"]
  | .inProcess => Json.arr #["inProcess"]
  | .pool n => Json.arr #["pool", toJson n]

/-- exhaustive table of num_parallel_tasks / plan -/
def runPlanCase (j : Json) : Json :=
  let ms := (arrF j "ms").toList.map asNat
  let cpus := (arrF j "cpus").toList.map asNat
  let files := (arrF j "files").toList.map asNat
  Json.arr (ms.flatMap fun m => cpus.flatMap fun c => files.map fun f =>
    Json.arr #[toJson m, toJson c, toJson f, toJson (numParallel m c f), planJson (plan m c f)]).toArray

/-- a whole run: jobs = list of {task, nregs, empty}; persist = [[defid, cnt]...] -/
def runRunCase (j : Json) : Json :=
  let K := natF j "K"
  let pers := (arrF j "persist").toList.map fun e => let a := asArr e
    (asNat (a.getD 0 .null), asNat (a.getD 1 .null))
  let p : Nat → SeqPersist := fun id => match pers.lookup id with
    | some c => { cnt := c, sec := c }
    | none => {}
  let jobs := (arrF j "jobs").toList.map fun jb =>
    ({ task := toTaskIn (fld jb "task"), nregs := natF jb "nregs", empty := boolF jb "empty" } : FileJob)
  -- persist-independence (C08): running from the object state gives the same results
  -- up to the renaming of section ids
  let persistOk := jobs.all fun jb =>
    match runTaskFrom p jb.task, runTask jb.task with
    | .ok (a, sa), .ok (b, sb) => a == b.map (shiftSec p) && sa == sb
    | .error e1, .error e2 => e1 == e2
    | _, _ => false
  match runAll jobs with
  | .ok (paths, st) =>
    Json.mkObj [("paths", Json.arr (paths.map fun rs => Json.arr (rs.map (resJson K)).toArray).toArray),
      ("stats", Json.mkObj [("searches", toJson st.searches), ("searches_by_job", toJson st.searchesByJob),
         ("lines", toJson st.lines), ("results", toJson st.results),
         ("jobs_completed", toJson st.jobsCompleted), ("total_jobs", toJson st.totalJobs)]),
      ("persistOk", toJson persistOk)]
  | .error _ =>
    Json.mkObj [("errs", Json.arr ((runErrors jobs).map errJson).toArray), ("persistOk", toJson persistOk)]

/-- validate a pool trace: events [["take", w, task] | ["finish", w, task]] -/
def runPoolCase (j : Json) : Json :=
  let n := natF j "n"
  let tasks := (arrF j "tasks").toList.map asNat
  let s0 : PoolSt := { pending := tasks, busy := [], finished := [] }
  let evs := (arrF j "events").toList
  let rec go (s : PoolSt) (evs : List Json) (i : Nat) : PoolSt × Option Nat :=
    match evs with
    | [] => (s, none)
    | e :: rest =>
      let a := asArr e
      let w := asNat (a.getD 1 .null)
      let l := if asStr (a.getD 0 .null) == "take" then PoolLbl.take w else PoolLbl.finish w
      match poolStep n s l with
      | some s' => go s' rest (i + 1)
      | none => (s, some i)
  let (sF, bad) := go s0 evs 0
  Json.mkObj [("valid", toJson bad.isNone), ("at", optNat bad),
    ("finished", Json.arr (sF.finished.map fun e => Json.arr #[toJson e.1, toJson e.2]).toArray),
    ("pending", toJson sF.pending)]

/-! ### Collect (C02): validate the hand-over trace of a multi-process run -/

def runCollectCase (j : Json) : Json :=
  let lens := (arrF j "lens").map asNat
  let n := lens.size
  let seq : Nat → List Nat := fun t => List.range (lens.getD t 0)
  let s0 : CState Nat := CState.init none (natF j "FLUSH") (natF j "MAXB") n seq
  let evs := (arrF j "events").toList
  let rec go (s : CState Nat) (evs : List Json) (i : Nat) : CState Nat × Option (Nat × String) :=
    match evs with
    | [] => (s, none)
    | e :: rest =>
      let a := asArr e
      let x := asNat (a.getD 1 .null)
      let cnt := asNat (a.getD 2 .null)
      let kind := asStr (a.getD 0 .null)
      let chk : Option String :=
        match kind with
        | "put" => match (s.tasks x).remaining with
          | b :: _ => if b.length == cnt then none
                      else some s!"task {x} puts a batch of {cnt} results, the model's next batch has {b.length}"
          | [] => some s!"task {x} puts a batch but the model has none left"
        | "tget" | "pget" => match takeFirst x s.queue with
          | some (b, _) => if b.length == cnt then none
                           else some s!"collector receives {cnt} results of source {x}, the model's oldest queued batch of that source has {b.length}"
          | none => some s!"collector receives a batch of source {x} that is not queued in the model"
        | "finish" => if (s.tasks x).total == cnt then none
                      else some s!"task {x} reports {cnt} results, the model {(s.tasks x).total}"
        | _ => none
      match chk with
      | some why => (s, some (i, why))
      | none =>
        let l : Option CLbl := match kind with
          | "put" => some (.put x) | "finish" => some (.finish x)
          | "tget" => some (.threadGet x) | "pget" => some (.purgeGet x)
          | "stop" => some .stopThread | "texit" => some .threadExit
          | "pexit" => some .purgeExit | _ => none
        match l with
        | none => (s, some (i, s!"unknown event {kind}"))
        | some l => match cstep s l with
          | some s' => go s' rest (i + 1)
          | none => (s, some (i, s!"event {kind} {x} is not an enabled step of the model"))
  let (sF, bad) := go s0 evs 0
  Json.mkObj [("valid", toJson bad.isNone),
    ("at", match bad with | some (i, _) => toJson i | none => .null),
    ("why", match bad with | some (_, w) => Json.str w | none => .null),
    ("returned", toJson (sF.phase == .returned)),
    ("collected", toJson ((List.range n).map fun t => (sF.collected t).length)),
    ("batches", toJson ((List.range n).map fun t => ((s0.tasks t).remaining.map List.length)))]

/-! ### Catalog (C09) -/

def toDirEntry (j : Json) : DirEntry :=
  if (getD? j "cls").isNone then mkDirEntry (strF j "path") (boolF j "isfile") else
  let cls : NameCls := match strF j "cls" with
    | "live" => .live (strF j "stem")
    | "rotated" => .rotated (strF j "stem")
    | _ => .plain
  { path := strF j "path", isFile := boolF j "isfile", cls := cls, key := natF j "key" }

/-- registrations: [{search, path, kind: file|dir|other, entries:[...]}] -/
def runCatalogCase (j : Json) : Json :=
  let depth := natF j "depth"
  let regs := (arrF j "regs").toList
  let (es, expansions) := regs.foldl (fun (acc : Entries × List Json) r =>
    let kind : PathKind := match strF r "kind" with
      | "file" => .file
      | "dir" => .dir ((arrF r "entries").toList.map toDirEntry)
      | _ => .other ((arrF r "entries").toList.map toDirEntry)
    let ex := expandPath (strF r "path") kind depth
    (register acc.1 (natF r "search") ex, acc.2 ++ [toJson ex])) ([], [])
  Json.mkObj [("files", toJson (es.map (·.1))),
              ("entries", Json.arr (es.map fun p => Json.arr #[Json.str p.1, toJson p.2]).toArray),
              ("expansions", Json.arr expansions.toArray)]

/-! ### Cache (C19): validate the critical-section trace of real processes -/

def toCOp (j : Json) : COp :=
  let a := asArr j
  match asStr (a.getD 0 .null) with
  | "set" => .set (asNat (a.getD 1 .null)) (asStr (a.getD 2 .null))
  | "bulk" => .bulkSet ((asArr (a.getD 1 .null)).toList.map fun e =>
      let b := asArr e; (asNat (b.getD 0 .null), asStr (b.getD 1 .null)))
  | "unset" => .unset (asNat (a.getD 1 .null))
  | _ => .get (asNat (a.getD 1 .null))

partial def drainAccesses (s : CacheSt) (p : Nat) : CacheSt :=
  match cacheStep s (.access p) with
  | some s' => drainAccesses s' p
  | none => s

/-- The events of a critical section are `["acq", p]`, then any number of `["retry", p]`
    (a failed open of the shelf inside `get`: sleep and try again, lock still held), then
    `["rel", p, value]`.  The `access` steps are not in the trace: they are inserted here.
    A retry precedes the read of its critical section, so the accesses are NOT performed at
    `acq` any more: they are performed when the section ends (`rel`), and - so that the reported
    disk is the same as before on truncated or refused traces - for the lock holder of the
    last state reached. -/
def runCacheCase (j : Json) : Json :=
  let progsA := (arrF j "progs").map fun pr => (asArr pr).toList.map toCOp
  let s0 := CacheSt.init (fun p => progsA.getD p [])
  let evs := (arrF j "events").toList
  let rec go (s : CacheSt) (evs : List Json) (i : Nat) (nr : Nat) :
      CacheSt × Option (Nat × String) × Nat :=
    match evs with
    | [] => (s, none, nr)
    | e :: rest =>
      let a := asArr e
      let p := asNat (a.getD 1 .null)
      match asStr (a.getD 0 .null) with
      | "acq" =>
        (match cacheStep s (.acquire p) with
         | some s' => go s' rest (i + 1) nr
         | none => (s, some (i, s!"process {p} enters its critical section while the model's lock is held by {s.lock} (or it has nothing to do)"), nr))
      | "retry" =>
        (match cacheStep s (.retry p) with
         | some s' => go s' rest (i + 1) (nr + 1)
         | none => (s, some (i, s!"retry by process {p} is not an enabled step (lock held by {s.lock}; next accesses {repr (s.procs p).pending}; {(s.procs p).tries} failed attempts so far, at most {maxOpenRetry} can be retried)"), nr))
      | "rel" =>
        let s := drainAccesses s p
        let ret := optStr (a.getD 2 .null)
        let isGet := match (s.procs p).cur with | some (.get _) => true | _ => false
        if isGet && (s.procs p).got != ret then
          (s, some (i, s!"get of process {p} returned {ret} but the register holds {(s.procs p).got}"), nr)
        else
          (match cacheStep s (.release p) with
           | some s' => go s' rest (i + 1) nr
           | none => (s, some (i, s!"release by process {p} is not an enabled step"), nr))
      | k => (s, some (i, s!"unknown event {k}"), nr)
  let (sL, bad, nRetry) := go s0 evs 0 0
  let sF := match sL.lock with | some p => drainAccesses sL p | none => sL
  let replayOk := (specReplay [] sF.log).isSome
  let keys := (sF.disk.map (·.1)).eraseDups
  Json.mkObj [("valid", toJson bad.isNone),
    ("at", match bad with | some (i, _) => toJson i | none => .null),
    ("why", match bad with | some (_, w) => Json.str w | none => .null),
    ("logLen", toJson sF.log.length), ("specReplayOk", toJson replayOk),
    ("retries", toJson nRetry),
    ("disk", Json.arr (keys.map fun k => Json.arr #[toJson k, optVal (sF.disk.value k)]).toArray)]

/-! ### Fault (C10): run a schedule of the fault transition system -/

def toFLbl (j : Json) : Option FLbl :=
  let a := asArr j
  let w := asNat (a.getD 1 .null)
  match asStr (a.getD 0 .null) with
  | "start" => some (.start w) | "wantAlloc" => some (.wantAlloc w)
  | "acqAlloc" => some (.acqAlloc w) | "relAlloc" => some (.relAlloc w)
  | "wantSync" => some (.wantSync w) | "acqSync" => some (.acqSync w)
  | "relSync" => some (.relSync w) | "crash" => some (.crash w)
  | "killAll" => some .killAll | "raise" => some (.raise_ w)
  | "infoWant" => some .infoWant | "infoAcq" => some .infoAcq | "infoRel" => some .infoRel
  | "mainSeesFailure" => some .mainSeesFailure | "mainSeesBroken" => some .mainSeesBroken
  | "mainAllDone" => some .mainAllDone | "mainAcquire" => some .mainAcquire
  | "mainReclaim" => some .mainReclaim | "mainRelease" => some .mainRelease
  | "joinResults" => some .joinResults | "joinInfo" => some .joinInfo
  | "teardown" => some .teardown
  | _ => none

def fmainStr : FMain → String
  | .waiting => "waiting" | .shutdownWait => "shutdownWait" | .reclaim => "reclaim"
  | .holdsLock => "holdsLock" | .joinResults => "joinResults" | .joinInfo => "joinInfo"
  | .teardown => "teardown" | .raised => "raised" | .returned => "returned"

def runFaultCase (j : Json) : Json :=
  let n := natF j "n"
  let rec go (s : FState) (ls : List Json) (i : Nat) : FState × Option Nat :=
    match ls with
    | [] => (s, none)
    | l :: rest => match toFLbl l with
      | none => (s, some i)
      | some lbl => match fstep s lbl with
        | some s' => go s' rest (i + 1)
        | none => (s, some i)
  let (sF, bad) := go (FState.init n) (arrF j "labels").toList 0
  Json.mkObj [("valid", toJson bad.isNone), ("at", optNat bad), ("main", Json.str (fmainStr sF.main)),
    ("lockFree", toJson sF.lock.isNone), ("infoStopped", toJson (sF.info == .stopped)),
    ("resultsJoined", toJson sF.resultsJoined), ("quiet", toJson sF.quiet),
    ("final", toJson sF.final)]

/-- the hand-modelled regexes of search.py on a list of names -/
def runNameRxCase (j : Json) : Json :=
  Json.arr ((arrF j "names").map fun n =>
    let e := mkDirEntry (asStr n) true
    match e.cls with
    | .plain => Json.arr #["plain", .null, toJson e.key]
    | .live s => Json.arr #["live", Json.str s, toJson e.key]
    | .rotated s => Json.arr #["rotated", Json.str s, toJson e.key])

/-- `stdTs` at every offset of a byte string: [[offset, seconds]] where a timestamp is found.
    Walks the suffixes, so the cost is O(len * W). -/
def stdTsTable (W : Nat) : List Nat → Nat → List (Nat × Int) → List (Nat × Int)
  | [], _, acc => acc.reverse
  | bs@(_ :: rest), off, acc =>
    let acc' := match parseStd (bs.take W) with
      | some c => if c.valid then (off, c.toSeconds) :: acc else acc
      | none => acc
    stdTsTable W rest (off + 1) acc'

def runStdTsCase (j : Json) : Json :=
  let bs := (arrF j "bytes").toList.map asNat
  Json.arr ((stdTsTable (natF j "W") bs 0 []).map fun p => Json.arr #[toJson p.1, toJson p.2]).toArray

/-- `FileSearcher.add` history -> is the file-level constraint applied to each queried path -/
def runGApplyCase (j : Json) : Json :=
  let ops : List AddOp := (arrF j "ops").toList.map fun o =>
    { search := natF o "search", expanded := (arrF o "expanded").toList.map asStr,
      agc := boolF o "agc" }
  let s := SearcherSt.addAll {} ops
  Json.mkObj [("restr", toJson s.restr),
    ("applies", Json.arr ((arrF j "paths").map fun p => toJson (s.globalApplies (asStr p))))]

/-- catalog history (register / foreign lookup) -> files, and for every queried path its id and
    the path that id maps back to -/
def runCatIdsCase (j : Json) : Json :=
  let ops : List CatOp := (arrF j "ops").toList.map fun o =>
    match strF o "op" with
    | "lookup" => CatOp.lookup (strF o "path")
    | _ => CatOp.register (natF o "search") ((arrF o "expanded").toList.map asStr)
  let c := CatSt.run {} ops
  Json.mkObj [("files", toJson c.files),
    ("ids", Json.arr ((arrF j "queries").map fun q =>
      let p := asStr q
      match c.ids.idOf p with
      | some i => Json.arr #[toJson i, optJson Json.str (c.ids.pathOf i)]
      | none => Json.null))]

def handle (j : Json) : Json :=
  match strF j "kind" with
  | "catids" => Json.mkObj [("model", runCatIdsCase j)]
  | "gapply" => Json.mkObj [("model", runGApplyCase j)]
  | "stdts" => Json.mkObj [("model", runStdTsCase j)]
  | "task" => Json.mkObj [("model", runTaskCase j), ("specSimple", specSimpleCase j),
                          ("specSeq", specSeqCase j), ("specGate", specGateCase j),
                          ("specSeqGated", specSeqGatedCase j)]
  | "fault" => Json.mkObj [("model", runFaultCase j)]
  | "cache" => Json.mkObj [("model", runCacheCase j)]
  | "namerx" => Json.mkObj [("model", runNameRxCase j)]
  | "catalog" => Json.mkObj [("model", runCatalogCase j)]
  | "collect" => Json.mkObj [("model", runCollectCase j)]
  | "plan" => Json.mkObj [("model", runPlanCase j)]
  | "run" => Json.mkObj [("model", runRunCase j)]
  | "pool" => Json.mkObj [("model", runPoolCase j)]
  | "parstore" => Json.mkObj [("model", runParCase j)]
  | "coll" => Json.mkObj [("model", runCollCase j)]
  | "since" => Json.mkObj [("model", runSinceCase j)]
  | "seek" => Json.mkObj [("model", runSeekCase j)]
  | "store" => Json.mkObj [("model", runStoreCase j)]
  | "c03exh" =>
    let (t, b) := c03Exh (natF j "L")
    Json.mkObj [("total", toJson t), ("bad", toJson b)]
  | k => Json.mkObj [("_bad", Json.str s!"unknown kind {k}")]

end Drv

partial def loop (h : IO.FS.Stream) (out : IO.FS.Stream) : IO Unit := do
  let line ← h.getLine
  if line.isEmpty then return ()
  match Json.parse line with
  | .ok j => out.putStrLn (Json.compress (Drv.handle j))
  | .error e => out.putStrLn (Json.compress (Json.mkObj [("_bad", Json.str e)]))
  loop h out

def main : IO Unit := do
  let out ← IO.getStdout
  loop (← IO.getStdin) out
  out.flush
