"""
Deterministic demonstration: the cyclic garbage collector may run at ANY allocation; here it
is made to run between the request and the response of every manager-proxy call made by a
worker process (a legal schedule).  On the unfixed tree the stale proxies of the previous
task are finalised at that moment, BaseProxy._decref closes the thread's connection
(its id set became empty although live proxies of the new task exist) and the call in
flight fails.
"""
import sys, os, tempfile, time, shutil, gc
sys.path.insert(0,'/repo')
from multiprocessing import managers, util
from searchkit import FileSearcher, SearchDef, SequenceSearchDef
from searchkit.exception import FileSearchException
import searchkit.search as SR, searchkit.task as TK
SR.RESULTS_QUEUE_SIZE=TK.RESULTS_QUEUE_SIZE=2
main_pid=os.getpid()
orig=managers.BaseProxy._callmethod
def _callmethod(self, methodname, args=(), kwds={}):
    if os.getpid()==main_pid:
        return orig(self, methodname, args, kwds)
    try:
        conn = self._tls.connection
    except AttributeError:
        self._connect()
        conn = self._tls.connection
    conn.send((self._id, methodname, args, kwds))
    if STATE['tasks'] >= 2 and not STATE['collected']:
        STATE['collected'] = True
        gc.collect()                  # <- the collector runs here, once, early in a later task
    kind, result = conn.recv()
    if kind == '#RETURN':
        return result
    elif kind == '#PROXY':
        return orig(self, methodname, args, kwds)
    raise managers.convert_to_error(kind, result)
managers.BaseProxy._callmethod=_callmethod
STATE={'tasks':0,'collected':False}
oexec=TK.SearchTask.execute
def execute(self):
    gc.disable()                      # the collector does not happen to run earlier
    STATE['tasks']+=1; STATE['collected']=False
    return oexec(self)
execute.__name__='execute'; execute.__qualname__='SearchTask.execute'
TK.SearchTask.execute=execute
d=tempfile.mkdtemp()
N=12
for i in range(N):
    with open(os.path.join(d,f'f{i}.log'),'w') as f:
        for k in range(30): f.write(f"S item{i}_{k} v{k%5}\n" if k%3==0 else f"B x{i}_{k} y\n")
fails=0; runs=3
for r in range(runs):
    fs=FileSearcher(max_parallel_tasks=2)
    sd=SearchDef(r'(\S) (\S+) (\S+)',tag='t')
    sq=SequenceSearchDef(start=SearchDef(r'S (\S+)'),body=SearchDef(r'B (\S+)'),tag='q')
    for i in range(N):
        fs.add(sd,os.path.join(d,f'f{i}.log')); fs.add(sq,os.path.join(d,f'f{i}.log'))
    try:
        res=fs.run(); ok=len(res)
    except FileSearchException as e:
        fails+=1; ok='FAIL '+str(e)[-90:]
    print(r, ok); sys.stdout.flush()
shutil.rmtree(d)
print('fails',fails,'of',runs)
sys.exit(1 if fails else 0)
