#!/venv/bin/python
"""
Stand-alone replays of the defects D1..D9 found on the pinned tree of
dosaboy/searchkit (see DESIGN.md section 2).  Each function runs the REAL code
imported from /repo and returns (holds, detail): holds=False means the property
is violated on the tree as it is now.

    /venv/bin/python findings/repro.py            # all
    /venv/bin/python findings/repro.py d1 d4      # some

Exit status 1 if any replay still shows its defect.  D9 runs in a child
session with a watchdog because its failure mode is a hang.
"""
import os
import sys
import tempfile
import subprocess

sys.dont_write_bytecode = True
sys.path.insert(0, '/repo')
import searchkit  # noqa
assert searchkit.__file__.startswith('/repo/'), searchkit.__file__
from searchkit import (FileSearcher, SearchDef, SequenceSearchDef)  # noqa
from searchkit.constraints import (SearchConstraintSearchSince,  # noqa
                                   TimestampMatcherBase,
                                   LogFileDateSinceSeeker)


class TS(TimestampMatcherBase):
    @property
    def patterns(self):
        return [r'^(?P<year>\d{4})-(?P<month>\d{2})-(?P<day>\d{2})\s+'
                r'(?P<hours>\d{2}):(?P<minutes>\d{2}):(?P<seconds>\d+)']


def _tmp(content, suffix=''):
    f = tempfile.NamedTemporaryFile(delete=False, suffix=suffix)
    f.write(content)
    f.close()
    return f.name


def d1():
    """ C03: restart inside a section must discard only the open section. """
    p = _tmp(b"S\nB\nE\nS\nS\nB\nE\n")
    try:
        fs = FileSearcher()
        sd = SequenceSearchDef(start=SearchDef(r'^S'), body=SearchDef(r'^B'),
                               end=SearchDef(r'^E'), tag='t')
        fs.add(sd, p)
        res = fs.run().find_sequence_by_tag('t')
        got = sorted(sorted(r.linenumber for r in s) for s in res.values())
        return got == [[1, 2, 3], [5, 6, 7]], got
    finally:
        os.unlink(p)


def d2():
    """ C11: try_find_line must find the real line start. """
    content = b"ab\n" + b"x" * 600 + b"\nend\n"
    p = _tmp(content)
    try:
        c = SearchConstraintSearchSince('2023-01-10 00:00:00', TS, days=1)
        bad = []
        with open(p, 'rb') as fd:
            s = LogFileDateSinceSeeker(fd, c)
            for o in range(3, 604):
                if s.try_find_line(o).start_offset != 3:
                    bad.append(o)
        return not bad, (bad[:3], len(bad))
    finally:
        os.unlink(p)


def d3():
    """ C11/C04: constraint must leave file at a line start. """
    content = (b"x2023-01-09 00:00:00 foo\n2023-01-10 00:00:00 bar\n")
    p = _tmp(content)
    try:
        c = SearchConstraintSearchSince('2023-01-06 00:00:00', TS, days=1)
        with open(p, 'rb') as fd:
            c.apply_to_file(fd)
            pos = fd.tell()
        return pos in (0, 25, len(content)), pos
    finally:
        os.unlink(p)


def d4():
    """ C08: second run of same searcher must give same results. """
    content = (b"2023-01-01 00:00:00 old\n2023-01-10 00:00:00 new\n")
    p = _tmp(content)
    try:
        c = SearchConstraintSearchSince('2023-01-10 12:00:00', TS, days=1)
        fs = FileSearcher(constraint=c)
        fs.add(SearchDef(r'.+ (\S+)$', tag='t'), p)
        r1 = [r.get(1) for r in fs.run().find_by_tag('t')]
        r2 = [r.get(1) for r in fs.run().find_by_tag('t')]
        return r1 == r2 == ['new'], (r1, r2)
    finally:
        os.unlink(p)


def d5():
    """ C08: sequence def reused after a file that ended mid-section. """
    p1 = _tmp(b"S\nB\n")
    p2 = _tmp(b"x\nB\nE\n")
    try:
        sd = SequenceSearchDef(start=SearchDef(r'^S'), body=SearchDef(r'^B'),
                               end=SearchDef(r'^E'), tag='t')
        fs = FileSearcher()
        fs.add(sd, p1)
        fs.run()
        fs2 = FileSearcher()
        fs2.add(sd, p2)
        res = fs2.run().find_sequence_by_tag('t')
        got = sorted(sorted(r.linenumber for r in s) for s in res.values())
        return got == [], got
    finally:
        os.unlink(p1)
        os.unlink(p2)


def d6():
    """ C09: directory registration must pick up the files in it. """
    with tempfile.TemporaryDirectory() as d:
        for n in ('a.txt', 'b.log'):
            with open(os.path.join(d, n), 'w') as f:
                f.write('x\n')
        cwd = os.getcwd()
        os.chdir('/')
        try:
            fs = FileSearcher()
            fs.add(SearchDef(r'.'), d)
            got = sorted(fs.files)
        finally:
            os.chdir(cwd)
        return got == sorted(os.path.join(d, n) for n in ('a.txt', 'b.log')), got


def d7():
    """ C13: a look-alike timestamp must not make run() fail. """
    p = _tmp(b"2023-02-30 00:00:00 foo\n2023-03-01 00:00:00 bar\n")
    try:
        out = []
        for mode in ('file', 'search'):
            c = SearchConstraintSearchSince('2023-03-01 12:00:00', TS, days=1)
            try:
                if mode == 'file':
                    fs = FileSearcher(constraint=c)
                    fs.add(SearchDef(r'.+ (\S+)$', tag='t'), p)
                else:
                    fs = FileSearcher()
                    fs.add(SearchDef(r'.+ (\S+)$', tag='t', constraints=[c]),
                           p)
                out.append([r.get(1) for r in fs.run().find_by_tag('t')])
            except Exception as e:  # pylint: disable=broad-except
                out.append(type(e).__name__)
        return out == [['bar'], ['bar']], out
    finally:
        os.unlink(p)


def d8():
    """ C19: unset must remove the value and not fail. """
    from searchkit.utils import MPCache
    with tempfile.TemporaryDirectory() as d:
        c = MPCache('id', 'type', d)
        c.set('k', 1)
        try:
            c.unset('k')
        except Exception as e:  # pylint: disable=broad-except
            return False, type(e).__name__
        return c.get('k') is None, c.get('k')


D9_CHILD = r'''
import os, sys, tempfile, threading, faulthandler
sys.dont_write_bytecode = True
sys.path.insert(0, '/repo')
from searchkit import FileSearcher, SearchDef
from searchkit import results_store as rs
from searchkit.exception import FileSearchException
report = sys.argv[1]
d = tempfile.mkdtemp()
paths = []
for i in range(3):
    p = os.path.join(d, 'f%d' % i)
    with open(p, 'w') as f:
        f.write('a %d\n' % i)
    paths.append(p)
orig = rs.ResultStoreParallel.preallocate
main_pid = os.getpid()
flag = os.path.join(d, 'died')
def evil(self, size):
    with rs.RESULTS_STORE_LOCK:
        if os.getpid() != main_pid and not os.path.exists(flag):
            open(flag, 'w').close()
            os._exit(3)
    return orig(self, size)
rs.ResultStoreParallel.preallocate = evil
fs = FileSearcher(max_parallel_tasks=2)
for p in paths:
    fs.add(SearchDef(r'a (\d+)', tag='t'), p)
out = []
try:
    fs.run()
    out.append('returned')
except FileSearchException:
    out.append('FileSearchException')
open(report, 'a').write('run1 %s\n' % out[-1])
rs.ResultStoreParallel.preallocate = orig
fs = FileSearcher(max_parallel_tasks=2)
for p in paths:
    fs.add(SearchDef(r'a (\d+)', tag='t'), p)
r = fs.run()
open(report, 'a').write('run2 %s\n' % sorted(x.get(1) for x in r.find_by_tag('t')))
'''


def d9():
    """ C10: worker death while holding the store lock; next run completes. """
    with tempfile.TemporaryDirectory() as d:
        script = os.path.join(d, 'child.py')
        report = os.path.join(d, 'report')
        with open(script, 'w') as f:
            f.write(D9_CHILD)
        with open(os.path.join(d, 'out'), 'w') as o:
            proc = subprocess.Popen(['/venv/bin/python', script, report],
                                    stdout=o, stderr=o,
                                    start_new_session=True)
            try:
                proc.wait(timeout=60)
                hung = False
            except subprocess.TimeoutExpired:
                hung = True
            try:
                os.killpg(proc.pid, 9)
            except ProcessLookupError:
                pass
        rep = open(report).read() if os.path.exists(report) else ''
        ok = (not hung and 'run1 FileSearchException' in rep and
              "run2 ['0', '1', '2']" in rep)
        return ok, (('hung' if hung else 'ended'), rep.strip())


ALL = {f.__name__: f for f in (d1, d2, d3, d4, d5, d6, d7, d8, d9)}

if __name__ == '__main__':
    names = sys.argv[1:] or list(ALL)
    bad = 0
    for n in names:
        holds, detail = ALL[n]()
        print(f"{n}: {'holds' if holds else 'DEFECT'} {detail}")
        bad += not holds
    sys.exit(1 if bad else 0)
