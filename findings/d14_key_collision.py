#!/venv/bin/python
"""
D14 (C19, known finding): a key named like the dbm.dumb file of another key.
  /venv/bin/python findings/d14_key_collision.py     -> exit 1 while the defect is present
"""
import sys
import tempfile

sys.path.insert(0, '/repo')
from searchkit.utils import MPCache  # noqa: E402

c = MPCache('cid', 'ctype', tempfile.mkdtemp(prefix='d14-'))
c.set('k1', 'v')
bad = []
for key in ('k1.dat', 'k1.dir', 'k1.bak'):
    try:
        got = c.get(key)
        if got is not None:
            bad.append(f"get({key!r}) returned {got!r} although that key was never set")
    except Exception as e:  # pylint: disable=broad-except
        bad.append(f"get({key!r}) raised {type(e).__name__}: {e}")
for b in bad:
    print(b)
print('D14 present' if bad else 'D14 absent (keys are independent registers)')
sys.exit(1 if bad else 0)
