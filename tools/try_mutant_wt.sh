#!/bin/bash
# tools/try_mutant_wt.sh <tree-with-the-change> <check ids...>
# Run the named checks (quick) against a scratch worktree of dosaboy/searchkit that has a
# seeded change applied, WITHOUT touching /repo: /verif is copied to a scratch directory
# (so that evidence/ and replay/ of /verif are not overwritten) and the harness is pointed at
# the tree with SEARCHKIT_REPO.  The scratch copy is removed afterwards.
set -u
TREE=$(realpath "$1"); shift
SRC="$(cd "$(dirname "$0")/.." && pwd)"
SCR=$(mktemp -d /tmp/vscratch.XXXXXX)
trap 'rm -rf "$SCR"' EXIT
rsync -a --exclude .git --exclude 'replay/*' "$SRC"/ "$SCR"/
cd "$SCR"
for id in "$@"; do
  t0=$(date +%s)
  out=$(SEARCHKIT_REPO="$TREE" VERIF_CASE_LIMIT=20 VERIF_MP_CASE_LIMIT=30 timeout 3000 ./check $id --tier ${TIER:-quick} --seed ${SEED:-1} 2>&1); rc=$?
  t1=$(date +%s)
  echo "== $id rc=$rc $((t1-t0))s: $(echo "$out" | grep -E 'VIOLATION|INFRA' | head -2 | tr '\n' ' ')"
  [ $rc -ne 0 ] && [ $rc -ne 1 ] && echo "$out" | tail -5
  for f in replay/$id-*.json; do [ -f "$f" ] && python3 -c "
import json;r=json.load(open('$f'));print('   ',r['kind'],'|',r['what'][:260])"; done
  rm -f replay/$id-*.json
done
