#!/bin/bash
# every stored behaviour-preserving rewrite (harmless/*/patch.diff) against ALL checks, each in
# a throw-away worktree: every line must read rc=0.  Run from a snapshot copy of /verif.
cd "$(dirname "$0")/.."
for d in ${*:-harmless/*/}; do
  echo "### $(basename $d)"
  tools/try_patch_wt.sh $d/patch.diff C01 C02 C03 C04 C05 C06 C07 C08 C09 C10 C11 C12 C13 C14 C15 C16 C17 C18 C19 2>&1 | grep -E "^==|^   " | cut -c1-220
done
