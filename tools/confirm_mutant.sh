#!/bin/bash
# tools/confirm_mutant.sh <ID> : confirm a seeded change in its scratch worktree /tmp/wt/<ID>
# (suite still passes, demo fails with the change and passes without), then store it under
# seeded/<ID>/ .  Prints one summary line.
ID=$1; WT=/tmp/wt/$ID
cd $WT || exit 2
git diff -- searchkit > /tmp/confirm_$ID.diff
[ -s /tmp/confirm_$ID.diff ] || { echo "$ID: no change in worktree"; exit 2; }
suite=$(/venv/bin/python -m pytest -q -p no:cacheprovider --timeout=900 2>&1 | grep -E "passed|failed" | tail -1)
failing=$(/venv/bin/python -m pytest -q -p no:cacheprovider --timeout=900 tests/unit/test_utils.py 2>&1 | grep -c "test_mpcache_simple")
timeout 600 /venv/bin/python MUTANT/demo.py > /tmp/confirm_${ID}_with.txt 2>&1; with=$?
git checkout -q -- searchkit
timeout 600 /venv/bin/python MUTANT/demo.py > /tmp/confirm_${ID}_without.txt 2>&1; without=$?
git apply /tmp/confirm_$ID.diff
echo "$ID suite='$suite' demo_with_change=$with demo_without=$without"
