#!/bin/bash
# tools/store_seed.sh <round e.g. r4> <ID> "<verdict>" [checks...] : store /tmp/wt/<ID>/MUTANT as
# seeded/<ID>-<round>
R=$1; ID=$2; VERDICT=$3; shift 3
cd "$(dirname "$0")/.."
D=seeded/$ID-$R; mkdir -p $D
git -C /tmp/wt/$ID diff -- searchkit > $D/patch.diff
cp /tmp/wt/$ID/MUTANT/demo.py $D/demo.py
python3 - "$R" "$ID" "$VERDICT" "$@" <<'PY'
import json, sys
R, ID, verdict, checks = sys.argv[1], sys.argv[2], sys.argv[3], sys.argv[4:]
try:
    m = json.load(open(f'/tmp/wt/{ID}/MUTANT/meta.json'))
except Exception:
    m = {}
m['property'] = ID
m['origin'] = (f"round {R[1:]}: a fresh sub-agent given only the property text, a scratch worktree and "
               "one-paragraph summaries of the earlier changes for this property (asked for a different "
               "function and kind)")
m['confirmed'] = {'how': 'tools/confirm_mutant.sh in the scratch worktree',
                  'suite_with_change': '1 failed, 83 passed (baseline failure)',
                  'demo_with_change': 'exit 1', 'demo_without_change': 'exit 0'}
m['verdict'] = verdict
if checks:
    m['checks'] = checks
json.dump(m, open(f'seeded/{ID}-{R}/meta.json', 'w'), indent=1)
PY
ls $D | tr '\n' ' '
