#!/bin/bash
# tools/try_rewrite_wt.sh <tree> [check ids...] : run the checks (default: all 19, quick) against
# a scratch worktree that carries a behaviour-PRESERVING rewrite; every check must stay quiet
# (rc=0, no VIOLATION).  Same mechanism as try_mutant_wt.sh (never touches /repo).
TREE=$1; shift
IDS="${*:-C01 C02 C03 C04 C05 C06 C07 C08 C09 C10 C11 C12 C13 C14 C15 C16 C17 C18 C19}"
exec "$(dirname "$0")"/try_mutant_wt.sh "$TREE" $IDS
