#!/bin/bash
# tools/coverage_quick.sh [ids...] : ANALYSIS AID, not a check.  Runs the quick checks with line
# and branch coverage of /repo/searchkit recorded in every process that imports it (shard
# workers, the library's own pool workers, fault-plan interpreters, cache processes) and prints
# the lines / branches of the code under test that no correspondence run reached.
cd "$(dirname "$0")/.."
D=$(mktemp -d /tmp/vcov.XXXXXX)
cat > $D/rc <<RC
[run]
data_file = $D/.coverage
parallel = True
branch = True
concurrency = multiprocessing,thread
source = /repo/searchkit
disable_warnings = no-data-collected,module-not-measured,couldnt-parse
RC
IDS="${*:-C01 C02 C03 C04 C05 C06 C07 C08 C09 C10 C11 C12 C13 C14 C15 C16 C17 C18 C19}"
cp -r evidence $D/evidence.bak
for id in $IDS; do
  VERIF_COVERAGE=$D COVERAGE_RCFILE=$D/rc ./check $id 2>&1 | tail -1 | cut -c1-110
done
rm -rf evidence; mv $D/evidence.bak evidence; rm -f replay/*.json
cd $D && /venv/bin/python -m coverage combine --rcfile=$D/rc >/dev/null 2>&1
/venv/bin/python -m coverage report --rcfile=$D/rc -m --skip-empty 2>&1 | tee /tmp/coverage_quick.txt
echo "(data in $D; remove when done)"
