#!/bin/bash
# run every registered check (quick by default), validate the evidence it wrote
TIER=${1:-quick}
cd "$(dirname "$0")/.."
for id in $(python3 -c "import json;print(' '.join(c['property_id'] for c in json.load(open('MANIFEST.json'))['checks']))"); do
  t0=$(date +%s)
  full=$(timeout 7200 ./check $id --tier $TIER 2>&1); rc=$?
  out=$(echo "$full" | tail -3)
  t1=$(date +%s)
  ok=$(python3-vt -c "
import json,jsonschema,sys
try:
    jsonschema.validate(json.load(open('evidence/$id.json')), json.load(open('/root/.vp/EVIDENCE.schema.json'))); print('evidence-ok')
except Exception as e: print('EVIDENCE-INVALID', str(e)[:100])
")
  echo "$id rc=$rc $((t1-t0))s $ok | $(echo "$out" | grep -E '^\[|VIOLATION|INFRA|KNOWN' | cut -c1-160 | tr '\n' ' ')"
done
