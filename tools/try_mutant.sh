#!/bin/bash
# tools/try_mutant.sh <patch.diff> <check ids...>  : apply a seeded change to /repo, run the
# named checks (quick), print their verdict lines, and ALWAYS restore /repo afterwards.
set -u
PATCH=$(realpath "$1"); shift
cd "$(dirname "$0")/.."
if [ -n "$(git -C /repo status --porcelain --untracked-files=no)" ]; then echo "/repo is dirty"; exit 3; fi
git -C /repo apply "$PATCH" || { echo "patch does not apply"; exit 3; }
trap 'git -C /repo checkout -- . ; rm -f replay/*.json' EXIT
for id in "$@"; do
  t0=$(date +%s)
  out=$(VERIF_CASE_LIMIT=20 VERIF_MP_CASE_LIMIT=30 timeout 3000 ./check $id --tier ${TIER:-quick} --seed ${SEED:-1} 2>&1); rc=$?
  t1=$(date +%s)
  echo "== $id rc=$rc $((t1-t0))s: $(echo "$out" | grep -E 'VIOLATION|INFRA' | head -2 | tr '\n' ' ')"
  for f in replay/$id-*.json; do [ -f "$f" ] && python3 -c "
import json;r=json.load(open('$f'));print('   ',r['kind'],'|',r['what'][:260])"; done
  rm -f replay/$id-*.json
done
