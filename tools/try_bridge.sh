#!/bin/bash
# tools/try_bridge.sh <patch.diff>... : what the translator tie says about a changed tree
# (scratch worktree of /repo with the patch applied; /repo itself is not touched)
cd "$(dirname "$0")/.."
for P in "$@"; do
  WT=$(mktemp -d /tmp/bwt.XXXXXX); rmdir $WT
  git -C /repo worktree add -q --detach $WT HEAD
  git -C $WT apply "$(realpath $P)" || { echo "$P: patch does not apply"; git -C /repo worktree remove --force $WT; continue; }
  SEARCHKIT_REPO=$WT /venv/bin/python - "$P" <<'PY'
import sys, os, json
sys.path.insert(0, 'harness')
from vh import core, bridge
class R:
    extra = {}
    fails = []
    def fail(self, kind, case, what, **kw): self.fails.append((kind, what))
    def count(self, *a, **k): pass
for prop in ('C11', 'C16', 'C18', 'C15', 'C07', 'C06', 'C09'):
    r = R(); r.extra = {}; r.fails = []
    bridge.check(r, prop)
    b = r.extra['translator_bridge']
    print(sys.argv[1], prop, json.dumps(b.get('status')), 'dis=', b.get('small_scope_disagreements'), b.get('replayed_on_code', [])[:3], (b.get('small_scope_examples') or [''])[0][:300])
PY
  git -C /repo worktree remove --force $WT
done
