#!/bin/bash
# tools/store_rewrite.sh <ID> "<verdict>" : store /tmp/wh/<ID>/REWRITE (a behaviour-preserving
# rewrite made by a fresh sub-agent) as harmless/<ID>-h1
ID=$1; VERDICT=$2; R=${3:-h1}
cd "$(dirname "$0")/.."
D=harmless/$ID-$R; mkdir -p $D
git -C /tmp/wh/$ID diff -- searchkit > $D/patch.diff
cp /tmp/wh/$ID/REWRITE/same.py $D/same.py 2>/dev/null
python3 - "$ID" "$VERDICT" "$R" <<'PY'
import json, sys
ID, verdict, R = sys.argv[1:4]
try:
    m = json.load(open(f'/tmp/wh/{ID}/REWRITE/meta.json'))
except Exception:
    m = {}
m['property'] = ID
m['origin'] = ("a fresh sub-agent given only the property text and a scratch worktree, asked for a "
               "realistic behaviour-PRESERVING change (refactoring / internal constant / equivalent "
               "algorithm / diagnostics / unreachable defensive code) to the code the property is "
               "anchored in")
m['verdict'] = verdict
json.dump(m, open(f'harmless/{ID}-{R}/meta.json', 'w'), indent=1)
PY
ls $D | tr '\n' ' '; echo
