#!/bin/bash
# tools/store_r3.sh <ID> "<verdict>" [checks...] : store /tmp/wt/<ID>/MUTANT as seeded/<ID>-r3
ID=$1; VERDICT=$2; shift 2
cd "$(dirname "$0")/.."
D=seeded/$ID-r3; mkdir -p $D
git -C /tmp/wt/$ID diff -- searchkit > $D/patch.diff
cp /tmp/wt/$ID/MUTANT/demo.py $D/demo.py
python3 - "$ID" "$VERDICT" "$@" <<'PY'
import json, sys
ID, verdict, checks = sys.argv[1], sys.argv[2], sys.argv[3:]
try:
    m = json.load(open(f'/tmp/wt/{ID}/MUTANT/meta.json'))
except Exception:
    m = {}
m['property'] = ID
m['origin'] = ("round 3: a fresh sub-agent given only the property text, a scratch worktree, a focus "
               "area and one-paragraph summaries of the two earlier changes for this property")
m['confirmed'] = {'how': 'tools/confirm_mutant.sh in the scratch worktree',
                  'suite_with_change': '1 failed, 83 passed (baseline failure)',
                  'demo_with_change': 'exit 1', 'demo_without_change': 'exit 0'}
m['verdict'] = verdict
if checks:
    m['checks'] = checks
json.dump(m, open(f'seeded/{ID}-r3/meta.json', 'w'), indent=1)
PY
ls $D
