#!/bin/bash
# tools/process_r3.sh <ID> [checks...] : confirm a round-3 seeded change in /tmp/wt/<ID>, run the
# checks against that worktree (never /repo), print verdicts.  Store with tools/store_r3.sh.
ID=$1; shift; CHECKS="${*:-$ID}"
cd "$(dirname "$0")/.."
tools/confirm_mutant.sh $ID
tools/try_mutant_wt.sh /tmp/wt/$ID $CHECKS
