#!/bin/bash
# every seeded change against the check(s) recorded in its meta.json, each in a throw-away
# worktree (never touches /repo's working tree; safe while other runs use /repo)
cd "$(dirname "$0")/.."
for d in ${*:-seeded/*/}; do
  id=$(basename $d)
  prop=$(python3 -c "import json;m=json.load(open('$d/meta.json'));print(' '.join(m.get('checks',[m['property']])))")
  echo "### $id (property $prop)"
  tools/try_patch_wt.sh $d/patch.diff $prop 2>&1 | grep -E "^==|^   " | cut -c1-220
done
