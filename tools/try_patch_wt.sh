#!/bin/bash
# tools/try_patch_wt.sh <patch.diff> <check ids...> : like try_mutant.sh but WITHOUT touching the
# working tree of /repo: the patch is applied in a throw-away git worktree of /repo's HEAD.
PATCH=$(realpath "$1"); shift
WT=$(mktemp -d /tmp/pwt.XXXXXX); rmdir $WT
git -C /repo worktree add -q --detach $WT HEAD || exit 3
trap 'git -C /repo worktree remove --force $WT >/dev/null 2>&1; git -C /repo worktree prune' EXIT
git -C $WT apply "$PATCH" || { echo "patch does not apply"; exit 3; }
"$(dirname "$0")"/try_mutant_wt.sh $WT "$@"
