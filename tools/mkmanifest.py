#!/usr/bin/env python3
""" Regenerate MANIFEST.json from the table below (keeps it schema-valid). """
import json
import os

HERE = os.path.dirname(os.path.dirname(os.path.abspath(__file__)))

ASSUME_COMMON = ("Trusted: Lean kernel + axioms propext/Classical.choice/Quot.sound; the "
                 "hand-written Lean model is tied to /repo only by this run's correspondence "
                 "check (generators, canonicalisation and Python-computed oracle tables for "
                 "re/codecs/datetime/os are unverified). ")

CHECKS = {
    'C01': dict(
        text="Lean theorems: the model of the search loop (line-outer/definition-inner, "
             "dedup of registrations, gating, buffering) yields for every unconstrained "
             "single-line search exactly the declarative list of matching lines, for all "
             "line tables and definition sets. Correspondence: in-process FileSearcher.run() "
             "vs the executable model and vs the spec layer on generated scenarios.",
        note=ASSUME_COMMON + "CPython re, UTF-8 codec and binary line iteration are oracles.",
        technique="Lean 4 proof (induction over lines/definitions) + differential "
                  "correspondence check against the executable model",
        ref="DESIGN.md §4 C01"),
}

NOT_YET = {}


def main():
    with open(os.path.join(HERE, 'properties.jsonl')) as f:
        props = [json.loads(l) for l in f if l.strip()]
    checks = []
    na = []
    for p in props:
        pid = p['id']
        if pid in CHECKS:
            c = CHECKS[pid]
            checks.append({
                'property_id': pid,
                'quick_cmd': f"./check {pid} --tier quick",
                'thorough_cmd': f"./check {pid} --tier thorough",
                'evidence_file': f"evidence/{pid}.json",
                'replay_cmd_template': "./check replay {path}",
                'engine': 'lean-model+correspondence',
                'level_claimed': {'category': 'proof', 'text': c['text'],
                                  'design_ref': c['ref']},
                'level_note': c['note'],
                'technique': c['technique'],
            })
        else:
            na.append({'property_id': pid,
                       'reason': NOT_YET.get(pid, "check not built yet (work in progress; "
                                             "see DESIGN.md §4 for the planned theorem and "
                                             "correspondence)")})
    man = {
        'version': 1,
        'setup_cmd': "./check build",
        'hooks': {
            'guard': 'SEARCHKIT_VERIF',
            'enable': "no source hooks: the harness instruments searchkit from outside "
                      "(wrapping module-level names before the pool forks); the guard "
                      "variable is not read by /repo",
            'baseline_off_cmd': "cd /repo && /venv/bin/python -m pytest -ra -q -p "
                                "no:cacheprovider --timeout=900 "
                                "--continue-on-collection-errors",
            'source_commits': [],
            'add_only': True,
        },
        'engines': [{
            'name': 'lean-model+correspondence',
            'path': 'lean/ (model, specs, theorems, driver), harness/ (correspondence), check',
            'serves_properties': [c['property_id'] for c in checks],
            'kind_free_text': "hand-written executable Lean 4 model + kernel-checked theorems; "
                              "differential correspondence check of the model against /repo",
        }],
        'checks': checks,
        'not_applicable': na,
        'notes': "See DESIGN.md. fix: commits in /repo are listed in known_findings.json.",
    }
    with open(os.path.join(HERE, 'MANIFEST.json'), 'w') as f:
        json.dump(man, f, indent=1)
        f.write('\n')


if __name__ == '__main__':
    main()
